(** * ASModel.StaleCInv3 — the stale peek keeps the exact accounting ([CchAcc.AccInv]).

    The proof is that of [CchAcc.step_exec_AccInv] for the frame [Q1 c a k]; what it needs from
    [exec] (typing of the continuation, no panic) is taken from the step of the shadow state, the
    balance of the references is computed: a hit returns the cached reference, a miss keeps it
    in [WCacheReload]. *)
From Coq Require Import Lia.
From ASModel Require Import Base State Orderings_gen Step Run Progress Hist Inv InvTl InvProto InvStep Sum StepCases.
From ASModel Require Import GenDefs Gen1 Gen2 Gen EnvDefs Typed1.
From ASModel Require Import CchDefs CchAcc1 CchAcc2 CchAcc3 CchAcc4 CchAcc5 CchAcc6 CchOwn CchAcc.
From ASModel Require Import Safe Stale2 StaleC StaleCInv1 StaleCInv2.

(** ** The peek: notation shared by the following files *)
Record Peek (s : state) (t x c a k : N) (rest : list pc) : Prop := {
  pk_run : t_status (thr s t) = Running;
  pk_stk : t_stack (thr s t) = Q1 c a k :: rest;
  pk_x : 2 <= x;
}.

Definition pk_l (cf : config) (s : state) (t x c a k : N) : tlocal :=
  fst (peek_nx cf (t_loc (thr s t)) c a k (x - 2)).
Definition pk_nx (cf : config) (s : state) (t x c a k : N) : next :=
  snd (peek_nx cf (t_loc (thr s t)) c a k (x - 2)).

Lemma q1_stale_Peek s t x : q1_stale s t x = true -> exists c a k rest, Peek s t x c a k rest.
Proof.
  intros H. destruct (q1_stale_true s t x H) as (Hr & Hx & c & a & k & rest & Hs).
  exists c, a, k, rest. constructor; assumption.
Qed.

Lemma peek_state cf s t x c a k rest :
  Peek s t x c a k rest ->
  fst (step_staleC cf s t x) =
    mkState (sh s) (upd (thr s) t (thread_after cf (thr s t) (pk_l cf s t x c a k) rest (pk_nx cf s t x c a k)))
            (hnd_after cf (hnd s) (pk_l cf s t x c a k) rest (pk_nx cf s t x c a k)).
Proof. intros [Hr Hs Hx]. rewrite (step_staleC_peek cf s t x c a k rest Hr Hs Hx), finish_fst. reflexivity. Qed.

Lemma peek_exec cf s t x c a k rest x0 :
  Peek s t x c a k rest ->
  exec cf (sh (shadow s c (x - 2))) (t_loc (thr s t)) (Q1 c a k) x0 =
    (sh (shadow s c (x - 2)), pk_l cf s t x c a k, [ld_event (LStore c) o_cache_revalidate (x - 2)], pk_nx cf s t x c a k).
Proof. intros _. rewrite exec_Q1_eq, shadow_mem_store. reflexivity. Qed.

Lemma peek_shadow_state cf s t x c a k rest :
  Peek s t x c a k rest ->
  fst (step cf (shadow s c (x - 2)) t 0) =
    mkState (sh (shadow s c (x - 2)))
            (upd (thr s) t (thread_after cf (thr s t) (pk_l cf s t x c a k) rest (pk_nx cf s t x c a k)))
            (hnd_after cf (hnd s) (pk_l cf s t x c a k) rest (pk_nx cf s t x c a k)).
Proof.
  intros P. exact (step_exec_eq cf (shadow s c (x - 2)) t 0 _ rest _ _ _ _ (pk_run _ _ _ _ _ _ _ P) (pk_stk _ _ _ _ _ _ _ P)
                     (peek_exec cf s t x c a k rest 0 P)).
Qed.

Lemma peek_nx_cases cf l c a k v :
  (v = a /\ peek_nx cf l c a k v = (l, NRet (ROwned a))) \/
  (v <> a /\ exists l' fs, enter_load cf l c = inl (l', fs) /\
     peek_nx cf l c a k v = (l', NPush (fs ++ [WLoadFull]) (WCacheReload c a k))).
Proof.
  unfold peek_nx. destruct (N.eqb_spec v a) as [E|E]; [left; auto|right]. split; [exact E|].
  destruct (enter_load_total cf l c) as ([l' fs] & ->). eauto.
Qed.

Lemma pk_nx_not_stops cf s t x c a k : ~ nx_stops (pk_nx cf s t x c a k).
Proof.
  unfold pk_nx. destruct (peek_nx_cases cf (t_loc (thr s t)) c a k (x - 2)) as [(_ & ->)|(_ & l' & fs & _ & ->)]; exact (fun H => H).
Qed.

(** The balance of the references over the peek. *)
Lemma peek_bal a0 m cf s t x c a k :
  pend a0 (pk_nx cf s t x c a k) + is a0 a = refs a0 m (pk_nx cf s t x c a k).
Proof.
  unfold pk_nx. destruct (peek_nx_cases cf (t_loc (thr s t)) c a k (x - 2)) as [(_ & ->)|(_ & l' & fs & He & ->)]; cbn [snd pend refs ret_refs].
  - lia.
  - rewrite spend_app, srefs_app. destruct (enter_load_refs a0 m cf _ _ _ _ He) as [-> ->]. cbn. lia.
Qed.

Section PeekAcc.
Variables (cf : config) (s : state) (t x c a k : N) (rest : list pc).
Hypothesis P : Peek s t x c a k rest.
Local Notation l1 := (pk_l cf s t x c a k).
Local Notation nx := (pk_nx cf s t x c a k).
Local Notation s' := (fst (step_staleC cf s t x)).

Theorem peek_AccInv :
  WF2 s -> Quiet s -> EnvA s -> ProgHyp s -> KTyped s -> AccInv s ->
  t_status (thread_after cf (thr s t) l1 rest nx) <> Faulted ->
  AccInv s'.
Proof.
  intros W Q EA [DF CX] KT AI Hnf. rewrite (peek_state cf s t x c a k rest P).
  pose proof (pk_run _ _ _ _ _ _ _ P) as Hr. pose proof (pk_stk _ _ _ _ _ _ _ P) as Hs.
  pose proof (peek_exec cf s t x c a k rest 0 P) as He.
  destruct (acting_xhyp s t _ rest W EA AI Hr Hs) as (Hx & _ & Hw).
  assert (W2 : WF2 (shadow s c (x - 2))) by (apply off_WF2; [apply off_store_shadow|exact W]).
  destruct (exec_step_no_panic cf (shadow s c (x - 2)) t 0 _ rest _ _ _ _ W2 Hr Hs He) as [Hp Hup].
  destruct (thread_after_nofault _ _ _ _ _ Hnf) as [Hnf1 Hnf2].
  pose proof (pk_nx_not_stops cf s t x c a k) as Hns.
  pose proof (ai_typed _ AI t) as Ht. rewrite Hs in Ht.
  assert (Hb : is_bottom_frame (Q1 c a k) = false) by reflexivity.
  pose proof (exec_typed _ _ _ _ _ _ _ _ _ He (proj1 Ht)) as Hnt.
  pose proof (KT t Hr) as Hk. rewrite Hs in Hk.
  pose proof (exec_ok _ _ _ _ _ _ _ _ _ (typed_top _ _ Hk) He) as Hok.
  pose proof (typed_chain _ _ Hk) as Hch.
  pose proof (ai_otyped _ AI t) as Hot. rewrite Hs in Hot.
  assert (Hownd : forall v l' dst v' c0 k0, nx = NRet v -> unwind cf l1 rest v = UDone l' dst v' ->
                    In (KCacheDone c0 k0) rest -> exists a', v' = ROwned a').
  { intros v l' dst v' c0 k0 E Hu Hin. rewrite E in Hok. cbn in Hok.
    exact (unwind_owned cf rest l1 v (out_kinds (Q1 c a k)) Hok Hch Hot (proj2 (proj2 Ht)) l' dst v' c0 k0 Hu Hin). }
  set (th' := thread_after cf (thr s t) l1 rest nx).
  set (s2 := mkState (sh s) (upd (thr s) t th') (hnd_after cf (hnd s) l1 rest nx)).
  assert (Hdst : forall k0 hv, after_dst cf l1 rest nx = Some (k0, hv) ->
                   (exists f, In f rest /\ bdst f = Some k0) /\
                   forall a0, href a0 (hnd s k0) = dst_old a0 (hnd s) (Some (k0, hv))).
  { intros k0 hv Hd. unfold after_dst in Hd. destruct nx as [| |v| |]; try discriminate Hd.
    destruct (unwind cf l1 rest v) as [| l2 d v2 | | |] eqn:Hu; try discriminate Hd. subst d.
    destruct (unwind_dst cf rest l1 v l2 k0 hv v2 (proj2 (proj2 Ht)) Hu) as [[Hin Hnc]|(c0 & a1 & Hin & ->)].
    - split; [exists (KDone (Some k0)); split; [exact Hin|reflexivity]|]. intros a0.
      rewrite (proj1 DF t k0) by (rewrite Hs; right; exact Hin). cbn.
      destruct hv; try reflexivity. elim (Hnc c0 a1 eq_refl).
    - split; [exists (KCacheDone c0 k0); split; [exact Hin|reflexivity]|]. intros a0. reflexivity. }
  constructor.
  - intros a0 Ha.
    destruct (after_refs a0 (mem (sh s)) (hnd s) cf (thr s t) l1 (Q1 c a k) rest nx Ha Hns Hup Hnf2 Ht Hb Hnt Hownd) as (Er & Ep & Ek).
    fold th' in Er, Ep, Ek.
    set (hs := match after_dst cf l1 rest nx with Some (k0, _) => [k0] | None => [] end).
    assert (Hspend : spend a0 rest = 0).
    { clear -Hw. induction Hw as [|q rest Hq _ IH]; [reflexivity|]. cbn. rewrite (waiting_fpend a0 q Hq), IH. reflexivity. }
    assert (Hkd' : skd a0 (hnd_after cf (hnd s) l1 rest nx) (t_stack th') = skd a0 (hnd s) (t_stack th')).
    { rewrite hnd_after_dst. destruct (after_dst cf l1 rest nx) as [[k0 hv]|] eqn:Hd; [|reflexivity].
      unfold th'. rewrite (after_dst_stack cf (thr s t) l1 rest nx _ Hd). reflexivity. }
    apply (Acc_at_update a0 s s2 t LHead hs (ai_acc _ AI a0 Ha)).
    + unfold hs. destruct (after_dst cf l1 rest nx) as [[k0 ?]|]; [constructor; [intros []|constructor]|constructor].
    + intros t' Hne. cbn. apply upd_other. exact Hne.
    + intros h Hh. cbn. rewrite hnd_after_dst. unfold hs in Hh.
      destruct (after_dst cf l1 rest nx) as [[k0 hv]|]; [|reflexivity]. apply upd_other. intros ->. apply Hh. left. reflexivity.
    + reflexivity.
    + discriminate.
    + reflexivity.
    + intros t' Hne. cbn [hnd s2]. rewrite hnd_after_dst.
      destruct (after_dst cf l1 rest nx) as [[k0 hv]|] eqn:Hd; [|reflexivity].
      apply skd_hnd_eq. intros c0 k' Hin. apply upd_other. intros ->.
      destruct (proj1 (Hdst k0 hv eq_refl)) as (f & Hf & Hfk).
      destruct (CX t t' c0 k0 (fun E => Hne (eq_sym E)) Hin) as [H1 _].
      apply (H1 f); [rewrite Hs; right; exact Hf|exact Hfk].
    + cbn [sh thr hnd s2]. rewrite upd_same, Hs. cbn [srefs spend skd]. rewrite Hkd', Ep, Hspend.
      rewrite (nonbottom_kd a0 (hnd s) _ Hb).
      assert (Eh : fsum hs (fun h => href a0 (hnd s h)) = dst_old a0 (hnd s) (after_dst cf l1 rest nx) /\
                   fsum hs (fun h => href a0 (hnd_after cf (hnd s) l1 rest nx h)) = dst_refs a0 (after_dst cf l1 rest nx)).
      { rewrite hnd_after_dst. unfold hs. destruct (after_dst cf l1 rest nx) as [[k0 hv]|] eqn:Hd; [|split; reflexivity].
        cbn [fsum]. rewrite (proj2 (Hdst k0 hv eq_refl) a0), upd_same. cbn [dst_refs]. split; lia. }
      destruct Eh as [Eh1 Eh2]. rewrite Eh1, Eh2.
      pose proof (peek_bal a0 (mem (sh s)) cf s t x c a k) as Hbal. cbn [fr fpend wL wR]. lia.
  - exact (ai_alive _ AI).
  - exact (ai_fresh _ AI).
  - intros t'. cbn. unfold upd. destruct (decide (t' = t)) as [->|Hne]; [|apply (ai_typed _ AI)].
    exact (exec_thread_typed _ _ _ _ _ _ _ _ _ (thr s t) rest He Ht).
  - intros t'. cbn. unfold upd. destruct (decide (t' = t)) as [->|Hne]; [|apply (ai_otyped _ AI)].
    exact (thread_after_otyped cf (thr s t) l1 _ rest nx Hok Hch Hot Ht Hb Hnt).
Qed.
End PeekAcc.
