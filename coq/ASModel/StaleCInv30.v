(** * ASModel.StaleCInv30 — runs of [vstep3]: [VInvA], [HistOK], [vt_mono3], [vh_prefix3]. *)
From Coq Require Import Lia.
From ASModel Require Import Base State Orderings_gen Step Run Progress Hist Inv InvTl InvProto InvStep Sum StepCases.
From ASModel Require Import Lin Lin1 LinCache2 Stale Stale2 StaleC StaleCView.
From ASModel Require Import StaleCInv1 StaleCInv3 StaleCInv6 StaleCInv9 StaleCInv10 StaleCInv11 StaleCInv12 StaleCInv28 StaleCInv29.

Section Step3.
Variables (cf : config) (s : state) (g : vghost) (t x : N) (g1 : vghost).
Hypothesis V : VInvA g.
Hypothesis R : vacc_res3 cf s g t x g1.

Lemma vacc_res3_VInvA : VInvA g1.
Proof.
  destruct R as [_ Rv|_ ->|c _ ->]; [exact (vacc_res_VInvA cf s g t x g1 V Rv)|exact V|].
  apply rdg_VInvA; [exact V|apply last_index_lt; exact V].
Qed.

Lemma vacc_res3_grow : vgrow g g1.
Proof.
  destruct R as [_ Rv|_ ->|c _ ->]; [exact (vacc_res_grow cf s g t x g1 V Rv)|apply vgrow_refl|apply rdg_grow].
Qed.

Lemma vacc_res3_HistOK : HistOK s g -> HistOK (fst (step_stale3 cf s t x)) g1.
Proof.
  intros H. destruct R as [E Rv|Hsh ->|c Hsh ->].
  - rewrite E. exact (vacc_res_HistOK cf s g t x g1 Rv H).
  - intros c Hnc. rewrite Hsh. apply H. intros t' cm Hin. apply (Hnc t' cm). rewrite step_stale3_prog. exact Hin.
  - intros c0 Hnc. rewrite Hsh. apply H. intros t' cm Hin. apply (Hnc t' cm). rewrite step_stale3_prog. exact Hin.
Qed.
End Step3.

Section Run3.
Variables (cf : config) (s0 : state) (sched : list (N * N)).
Local Notation St k := (St3 cf s0 sched k).
Local Notation Gh k := (G3 cf s0 sched k).

Lemma SC3_pair k : SC3 cf s0 sched k = (St k, Gh k).
Proof. unfold St3, G3. destruct (SC3 cf s0 sched k); reflexivity. Qed.

Lemma position3 p t x :
  nth_error sched p = Some (t, x) ->
  exists g1, St (S p) = fst (step_stale3 cf (St p) t x) /\
             Gh (S p) = vcache g1 (St p) (St (S p)) t (q1_read_idx (Gh p) (St p) t x) /\
             vacc_res3 cf (St p) (Gh p) t x g1.
Proof.
  intros Hp. destruct (vstep3_ghost cf (St p) (Gh p) t x) as (g1 & E & Rv). exists g1.
  assert (E' : SC3 cf s0 sched (S p) = vstep3 cf (St p, Gh p) t x) by (rewrite (SC3_step _ _ _ _ _ _ Hp), SC3_pair; reflexivity).
  rewrite E in E'. split; [unfold St3; rewrite E'; reflexivity|]. split; [|exact Rv].
  unfold G3, St3. rewrite E'. reflexivity.
Qed.

Theorem run3_VInvA k : VInvA (Gh k).
Proof.
  induction k as [|k IH]; [apply VInvA_init|].
  destruct (nth_error sched k) as [[t x]|] eqn:Hk.
  - destruct (position3 k t x Hk) as (g1 & _ & -> & Rv).
    eapply same_views_VInvA; [apply vcache_same_views|]. exact (vacc_res3_VInvA cf _ _ t x g1 IH Rv).
  - unfold G3. rewrite (SC3_end _ _ _ _ Hk). exact IH.
Qed.

Theorem run3_HistOK k : HistOK (St k) (Gh k).
Proof.
  induction k as [|k IH]; [intros c _; reflexivity|].
  destruct (nth_error sched k) as [[t x]|] eqn:Hk.
  - destruct (position3 k t x Hk) as (g1 & Es & Eg & Rv).
    pose proof (vacc_res3_HistOK cf _ _ t x g1 Rv IH) as H1. rewrite <- Es in H1.
    destruct (vcache_same_views g1 (St k) (St (S k)) t (q1_read_idx (Gh k) (St k) t x)) as (E & _).
    intros c Hc. rewrite Eg, E. exact (H1 c Hc).
  - unfold G3, St3. rewrite (SC3_end _ _ _ _ Hk). exact IH.
Qed.

Lemma run3_grow_succ k : vgrow (Gh k) (Gh (S k)).
Proof.
  destruct (nth_error sched k) as [[t x]|] eqn:Hk.
  - destruct (position3 k t x Hk) as (g1 & _ & -> & Rv).
    eapply vgrow_trans; [exact (vacc_res3_grow cf _ _ t x g1 (run3_VInvA k) Rv)|].
    apply vgrow_same_views. apply vcache_same_views.
  - unfold G3. rewrite (SC3_end _ _ _ _ Hk). apply vgrow_refl.
Qed.

Theorem run3_grow k k' : (k <= k')%nat -> vgrow (Gh k) (Gh k').
Proof. induction 1 as [|k' _ IH]; [apply vgrow_refl|]. eapply vgrow_trans; [exact IH|apply run3_grow_succ]. Qed.

Corollary vt_mono3 k k' t c : (k <= k')%nat -> (vt (Gh k) t c <= vt (Gh k') t c)%nat.
Proof. intros H. exact (proj2 (run3_grow k k' H) t c). Qed.

Corollary vh_prefix3 k k' c : (k <= k')%nat -> exists l, vh (Gh k') c = vh (Gh k) c ++ l.
Proof. intros H. exact (proj1 (run3_grow k k' H) c). Qed.
End Run3.

Print Assumptions run3_VInvA.
Print Assumptions run3_HistOK.
Print Assumptions vt_mono3.
