(** * ASModel.StaleCInv4 — the stale peek keeps the protection invariant [ProtInv'].

    [Prot] and [ProtH] mention the storages; they are proved as in [Prot15] / [Prot14]: the memory
    does not change, [Q1] is neither a publication nor a walk, and the walks below it survive
    the unwinding ([settle_keep]).  The other five parts do not look at the storages: they come
    from the step of the shadow state. *)
From Coq Require Import Lia.
From ASModel Require Import Base State Orderings_gen Step Run Progress Hist Inv InvTl InvProto InvStep Sum StepCases.
From ASModel Require Import GenDefs Gen1 Gen2 Gen3 AccDefs ProtDefs Prot1 Prot2 Prot6 Prot7 Prot8 Prot9 Prot10 Prot11 Prot12 Prot13 Prot14 Prot15 Prot.
From ASModel Require Import Stale2 StaleC StaleCInv1 StaleCInv2 StaleCInv3.

Section PeekProt.
Variables (cf : config) (s : state) (t x c a k : N) (rest : list pc).
Hypothesis P : Peek s t x c a k rest.
Local Notation l1 := (pk_l cf s t x c a k).
Local Notation nx := (pk_nx cf s t x c a k).
Local Notation sd := (shadow s c (x - 2)).
Local Notation s' := (fst (step_staleC cf s t x)).
Local Notation th' := (thread_after cf (thr s t) l1 rest nx).
Hypotheses (W : WF2 s) (Q : Quiet s).
Hypothesis Hnf : NoFault (fst (step cf sd t 0)).

Lemma peek_W2 : WF2 sd.
Proof. apply off_WF2; [apply off_store_shadow|exact W]. Qed.

Lemma peek_settle : settle cf l1 rest nx (t_loc th') (t_stack th') (t_status th').
Proof.
  exact (proj2 (exec_settle cf sd t 0 _ rest _ _ _ _ peek_W2 Hnf (pk_run _ _ _ _ _ _ _ P) (pk_stk _ _ _ _ _ _ _ P)
                  (peek_exec cf s t x c a k rest 0 P))).
Qed.

Lemma peek_bl : bl rest.
Proof. pose proof (q_bl _ Q t) as H. rewrite (pk_stk _ _ _ _ _ _ _ P) in H. exact (proj2 H). Qed.

Lemma peek_Protc : Protc s -> Protc s'.
Proof.
  intros PR. rewrite (peek_state cf s t x c a k rest P).
  pose proof (pk_stk _ _ _ _ _ _ _ P) as Hs. pose proof peek_settle as Hset.
  intros n j a0 Hv Hm. cbn [thr sh] in *.
  destruct (PR n j a0 Hv Hm) as [(t0 & H)|[H|(t' & q & Hin & Hq)]].
  - left. exists t0. destruct (N.eq_dec t0 t) as [->|Hne]; [|rewrite upd_other by exact Hne; exact H].
    exfalso. rewrite unconfirmed_top_eq, Hs in H. destruct (tl_node (t_loc (thr s t))); [|discriminate].
    cbn in H. rewrite Bool.andb_false_r in H. discriminate.
  - right. left. exact H.
  - right. right. destruct (N.eq_dec t' t) as [->|Hne]; [|exists t', q; rewrite upd_other by exact Hne; auto].
    rewrite Hs in Hin. destruct Hin as [<-|Hin]; [discriminate Hq|].
    destruct (settle_keep _ _ _ _ _ _ _ _ (Cs_keepable a0 n j) Hset peek_bl (ex_intro _ q (conj Hin Hq))) as (q' & Hq' & HC).
    exists t, q'. rewrite upd_same. auto.
Qed.

Lemma peek_ProtHc : ProtHc s -> ProtHc s'.
Proof.
  intros PH. rewrite (peek_state cf s t x c a k rest P).
  pose proof (pk_stk _ _ _ _ _ _ _ P) as Hs. pose proof peek_settle as Hset.
  intros t0 n p0 rest0 c0 gt cand Hs0 Hreq Hv Hn Hctl. cbn [thr sh] in *.
  destruct (N.eq_dec t0 t) as [->|Hne0].
  - exfalso. rewrite upd_same in Hs0.
    pose proof (settle_hd_req _ _ _ _ _ _ _ Hset) as Hq. rewrite Hs0 in Hq. cbn [hd_req] in Hq.
    rewrite (req_frame_top _ _ _ _ Hreq) in Hq.
    unfold pk_nx in Hq. destruct (peek_nx_cases cf (t_loc (thr s t)) c a k (x - 2)) as [(_ & E)|(_ & l' & fs & He & E)];
      rewrite E in Hq; cbn [snd nx_frames hd_req] in Hq; [discriminate Hq|].
    pose proof (enter_load_call _ _ _ _ _ He) as [Hcs Hne].
    rewrite <- app_assoc, hd_req_app, (call_shape_req _ _ _ Hcs) in Hq by exact Hne. discriminate Hq.
  - rewrite upd_other in Hs0, Hn by exact Hne0.
    destruct (PH t0 n p0 rest0 c0 gt cand Hs0 Hreq Hv Hn Hctl) as [E|(t' & q & Hin & Hq)]; [left; exact E|].
    right. destruct (N.eq_dec t' t) as [->|Hne]; [|exists t', q; rewrite upd_other by exact Hne; auto].
    rewrite Hs in Hin. destruct Hin as [<-|Hin]; [discriminate Hq|].
    destruct (settle_keep _ _ _ _ _ _ _ _ (Ch_keepable cand n c0 gt) Hset peek_bl (ex_intro _ q (conj Hin Hq))) as (q' & Hq' & HC).
    exists t, q'. rewrite upd_same. auto.
Qed.

Theorem peek_ProtInv' : DestFree s -> ProtInv' s -> ProtInv' s'.
Proof.
  intros DF [SC CN PR PH PS Ty Ds].
  pose proof (stale_sim cf s t x c a k rest (pk_run _ _ _ _ _ _ _ P) (pk_stk _ _ _ _ _ _ _ P) (pk_x _ _ _ _ _ _ _ P)) as (E & Esh & _).
  cbn zeta in E, Esh.
  assert (SCd : SlotClaimed sd) by (apply off_SlotClaimed; [apply off_store_shadow|exact SC]).
  assert (CNd : ClaimNodes' sd) by (apply off_ClaimNodes'; [apply off_store_shadow|exact CN]).
  assert (Qd : Quiet sd) by (apply off_Quiet; exact Q).
  destruct (step_claims cf sd t 0 peek_W2 Qd DF Ty Ds SCd CNd Hnf) as [SC1 CN1].
  assert (Hoff : off_store (mem (sh (fst (step cf sd t 0)))) (mem (sh s))).
  { rewrite Esh. apply off_store_sym. apply off_store_shadow. }
  constructor.
  - rewrite E. apply off_SlotClaimed; assumption.
  - rewrite E. apply off_ClaimNodes'; assumption.
  - apply Protc_iff. apply peek_Protc. apply Protc_iff. exact PR.
  - apply ProtHc_iff. apply peek_ProtHc. apply ProtHc_iff. exact PH.
  - rewrite E. exact (step_PayShape cf sd t 0 peek_W2 PS Hnf).
  - rewrite E. exact (step_typed cf sd t 0 Ty).
  - rewrite E. exact (step_dst cf sd t 0 peek_W2 Hnf Ds).
Qed.
End PeekProt.
