(** * ASModel.StaleCInv5 — the stale peek keeps the master invariant [CchMain.MasterC].

    Assembly: [EnvInvQ] and the invariants on threads and handles come from the step of the shadow
    state ([StaleCInv2]), [AccInv] from [StaleCInv3], [ProtInv'] from [StaleCInv4]; [ValOK] and
    [NoFault] are proved here. *)
From Coq Require Import Lia.
From ASModel Require Import Base State Orderings_gen Step Run Progress Hist Inv InvTl InvProto InvStep Sum StepCases.
From ASModel Require Import GenDefs Gen1 Gen2 Gen EnvDefs Env4 Env.
From ASModel Require Import ProtDefs Prot1 Prot11 Prot16 Prot Typed LinDefs Lin2 Lin.
From ASModel Require Import Safe1 Safe2 Safe7 Safe8 Safe.
From ASModel Require Import Main GenLen LinCache.
From ASModel Require Import CchDefs CchAcc1 CchAcc2 CchAcc3 CchAcc4 CchAcc5 CchAcc6 CchOwn CchAcc CchCmd.
From ASModel Require Import CchSafe5 CchSafe6 CchSafe7 CchSafe CchMain.
From ASModel Require Import Stale2 StaleC StaleCInv1 StaleCInv2 StaleCInv3 StaleCInv4.

Lemma cmd_enabled_with_sh s m cm : cmd_enabled (with_sh s m) cm = cmd_enabled s cm.
Proof. destruct cm; reflexivity. Qed.

Lemma cmd_dst_ok_with_sh s m cm : cmd_dst_ok (with_sh s m) cm <-> cmd_dst_ok s cm.
Proof. destruct cm; reflexivity. Qed.

Lemma ProgHyp_with_sh s m : ProgHyp s -> ProgHyp (with_sh s m).
Proof.
  intros [[D1 D2] CX]. split; [split|].
  - exact D1.
  - intros t cm Hr Hs Hc Hen. apply cmd_dst_ok_with_sh. apply (D2 t cm Hr Hs Hc).
    rewrite <- (cmd_enabled_with_sh s m). exact Hen.
  - exact CX.
Qed.

Section PeekMaster.
Variables (cf : config) (s : state) (t x c a k : N) (rest : list pc).
Hypothesis P : Peek s t x c a k rest.
Local Notation l1 := (pk_l cf s t x c a k).
Local Notation nx := (pk_nx cf s t x c a k).
Local Notation sd := (shadow s c (x - 2)).
Local Notation s' := (fst (step_staleC cf s t x)).
Local Notation th' := (thread_after cf (thr s t) l1 rest nx).

Lemma peek_thread_nofault : ASModel.Typed.Typed s -> t_status th' <> Faulted.
Proof.
  intros T. pose proof (pk_run _ _ _ _ _ _ _ P) as Hr. pose proof (pk_stk _ _ _ _ _ _ _ P) as Hs.
  destruct (no_bad_choice0 cf sd t 0 _ rest _ _ _ _ T Hr Hs (peek_exec cf s t x c a k rest 0 P)) as [_ Hu].
  unfold thread_after. pose proof (pk_nx_not_stops cf s t x c a k) as Hns.
  destruct nx as [p'|fs w|v|ps|f] eqn:En; cbn; try discriminate; try (exfalso; apply Hns; exact I).
  destruct (unwind cf l1 rest v) as [| | | |l2 f] eqn:Eu; cbn; try discriminate.
  intros _. pose proof (unwind_fault cf rest l1 v l2 f Eu) as ->. exact (Hu v eq_refl l2 Eu).
Qed.

Lemma peek_NoFault_shadow : ASModel.Typed.Typed s -> NoFault s -> NoFault (fst (step cf sd t 0)).
Proof.
  intros T NF t'. rewrite (peek_shadow_state cf s t x c a k rest P). cbn [thr].
  destruct (N.eq_dec t' t) as [->|Hne]; [rewrite upd_same; apply peek_thread_nofault; exact T|].
  rewrite upd_other by exact Hne. apply NF.
Qed.

Lemma peek_NoFault : ASModel.Typed.Typed s -> NoFault s -> NoFault s'.
Proof.
  intros T NF t'. rewrite (peek_state cf s t x c a k rest P). cbn [thr].
  destruct (N.eq_dec t' t) as [->|Hne]; [rewrite upd_same; apply peek_thread_nofault; exact T|].
  rewrite upd_other by exact Hne. apply NF.
Qed.

Lemma peek_next_vok : ValOK s -> next_vok nx = true.
Proof.
  intros [_ _ Hs]. pose proof (Hs t) as Ht. rewrite (pk_stk _ _ _ _ _ _ _ P) in Ht. cbn [forallb pc_vok] in Ht.
  apply andb_prop in Ht as [Ha _].
  unfold pk_nx. destruct (peek_nx_cases cf (t_loc (thr s t)) c a k (x - 2)) as [(_ & ->)|(_ & l' & fs & He & ->)]; cbn [snd next_vok rv pc_vok].
  - exact Ha.
  - rewrite forallb_app, (enter_load_vok _ _ _ _ _ He), Ha. reflexivity.
Qed.

Lemma peek_ValOK : ValOK s -> ValOK s'.
Proof.
  intros V. pose proof (peek_next_vok V) as Hn. destruct V as [Hm Hh Hs].
  rewrite (peek_state cf s t x c a k rest P).
  pose proof (Hs t) as Hst'. rewrite (pk_stk _ _ _ _ _ _ _ P) in Hst'. cbn [forallb] in Hst'. apply andb_prop in Hst' as [Hp Hrest].
  assert (Hu : forall v, nx = NRet v -> unwound_vok (unwind cf l1 rest v)).
  { intros v E. rewrite E in Hn. apply unwind_vok; [exact Hrest|exact Hn]. }
  constructor; cbn [sh hnd thr].
  - exact Hm.
  - unfold hnd_after. destruct nx as [| |v| |]; try exact Hh. specialize (Hu v eq_refl).
    destruct (unwind cf l1 rest v) as [| ? [[k0 hv]|] ? | | |]; try exact Hh. apply hnd_vok_upd; [exact Hh|exact Hu].
  - intros t'. unfold upd. destruct (decide (t' = t)); [|apply Hs].
    unfold thread_after. destruct nx as [p'|fs w|v| |]; cbn [t_stack next_vok] in *.
    + cbn. rewrite Hn, Hrest. reflexivity.
    + apply andb_prop in Hn as [H1 H2]. rewrite forallb_app. cbn. rewrite H1, H2, Hrest. reflexivity.
    + specialize (Hu v eq_refl). destruct (unwind cf l1 rest v); cbn; try reflexivity. exact Hu.
    + exact Hrest.
    + exact Hrest.
Qed.

Theorem peek_MasterC : GenBound s -> ProgOKC s -> MasterC s -> MasterC s'.
Proof.
  intros GB PO M. pose proof (MasterC_ProgHyp s M PO) as PH.
  destruct PO as (NS & DE & _ & _).
  pose proof (mc_typed _ M) as T.
  pose proof (peek_NoFault_shadow T (mc_nofault _ M)) as NFd.
  pose proof (stale_sim cf s t x c a k rest (pk_run _ _ _ _ _ _ _ P) (pk_stk _ _ _ _ _ _ _ P) (pk_x _ _ _ _ _ _ _ P)) as (E & Esh & _).
  cbn zeta in E, Esh.
  assert (Hoff : off_store (mem (sh (fst (step cf sd t 0)))) (mem (sh s))).
  { rewrite Esh. apply off_store_sym. apply off_store_shadow. }
  assert (Hcalm : Calm sd) by (apply Calm_split; split; assumption).
  assert (EQd : EnvInvQ sd) by (apply off_EnvInvQ; [apply off_store_shadow|apply MasterC_EnvInvQ; exact M]).
  pose proof (step_EnvInvQ cf sd t 0 Hcalm EQd NFd) as EQ1.
  assert (EQ' : EnvInvQ s') by (rewrite E; apply off_EnvInvQ; assumption).
  destruct EQ' as [[W' Q' GI'] EI' CF'].
  constructor; try assumption.
  - apply (peek_AccInv cf s t x c a k rest P); [apply M|apply M|apply EnvInvQ_EnvA; apply MasterC_EnvInvQ; exact M|exact PH|exact T|apply M|].
    apply peek_thread_nofault. exact T.
  - apply (peek_ProtInv' cf s t x c a k rest P); [apply M|apply M|exact NFd|apply DstEmptyC_DestFree; exact DE|apply M].
  - rewrite E. exact (step_Typed0 cf sd t 0 T).
  - apply peek_ValOK. apply M.
  - rewrite E. exact (step_CloneCmd cf sd t 0 (mc_clone _ M)).
  - rewrite E. exact (step_BotCmd cf sd t 0 (ai_typed _ (mc_acc _ M)) (mc_bot _ M)).
  - rewrite E. exact (step_CacheH cf sd t 0 (ai_typed _ (mc_acc _ M)) (ProgHyp_with_sh s _ PH) (mc_cacheh _ M)).
  - apply peek_NoFault; [exact T|apply M].
Qed.
End PeekMaster.

(** ** Every step of [step_staleC] *)
Theorem step_staleC_MasterC cf s t x :
  GenBound s -> ProgOKC s -> alloc_ok s t x -> MasterC s -> MasterC (fst (step_staleC cf s t x)).
Proof.
  intros GB PO AO M. destruct (q1_stale s t x) eqn:Hq.
  - destruct (q1_stale_Peek s t x Hq) as (c & a & k & rest & P).
    exact (peek_MasterC cf s t x c a k rest P GB PO M).
  - rewrite (q1_stale_false cf s t x Hq). apply step_MasterC; assumption.
Qed.

Print Assumptions step_staleC_MasterC.
