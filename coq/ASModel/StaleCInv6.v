(** * ASModel.StaleCInv6 — runs with stale cache revalidation: [RunOKSC], the master invariant in
    every state, no fault and no access to a destroyed value ([C16_no_fault_staleC]).

    [SC k] is the instrumented state (state, view ghost) after [k] steps of the schedule,
    [StC k] its first component (a state of the run of [step_staleC]), [GC k] the second. *)
From Coq Require Import Lia.
From ASModel Require Import Base State Orderings_gen Step Run Progress Hist Inv InvTl InvProto InvStep Sum StepCases.
From ASModel Require Import GenDefs Gen1 Gen2 Gen EnvDefs Env4 Env.
From ASModel Require Import Safe1 Safe2 Safe7 Safe8 Safe Lin Main GenLen.
From ASModel Require Import CchDefs CchAcc CchCmd CchMain.
From ASModel Require Import Stale2 StaleC StaleCView StaleCInv1 StaleCInv2 StaleCInv3 StaleCInv4 StaleCInv5.

(** ** Runs *)
Definition SC (cf : config) (s0 : state) (sched : list (N * N)) (k : nat) : state * vghost :=
  vrunC cf (s0, vghost0 s0) (firstn k sched).
Definition StC (cf : config) (s0 : state) (sched : list (N * N)) (k : nat) : state := fst (SC cf s0 sched k).
Definition GC (cf : config) (s0 : state) (sched : list (N * N)) (k : nat) : vghost := snd (SC cf s0 sched k).

Lemma vrunC_snoc cf sg sched tx : vrunC cf sg (sched ++ [tx]) = vstepC cf (vrunC cf sg sched) (fst tx) (snd tx).
Proof. unfold vrunC. rewrite fold_left_app. reflexivity. Qed.

Lemma SC_step cf s0 sched k t x :
  nth_error sched k = Some (t, x) -> SC cf s0 sched (S k) = vstepC cf (SC cf s0 sched k) t x.
Proof. intros H. unfold SC. rewrite (firstn_succ_nth _ _ _ H), vrunC_snoc. reflexivity. Qed.

Lemma SC_end cf s0 sched k : nth_error sched k = None -> SC cf s0 sched (S k) = SC cf s0 sched k.
Proof. intros H. apply nth_error_None in H. unfold SC. rewrite !firstn_all2 by lia. reflexivity. Qed.

Lemma SC_pair cf s0 sched k : SC cf s0 sched k = (StC cf s0 sched k, GC cf s0 sched k).
Proof. unfold StC, GC. destruct (SC cf s0 sched k); reflexivity. Qed.

Lemma StC_0 cf s0 sched : StC cf s0 sched 0 = s0.
Proof. reflexivity. Qed.

Lemma GC_0 cf s0 sched : GC cf s0 sched 0 = vghost0 s0.
Proof. reflexivity. Qed.

Lemma StC_step cf s0 sched k t x :
  nth_error sched k = Some (t, x) -> StC cf s0 sched (S k) = fst (step_staleC cf (StC cf s0 sched k) t x).
Proof. intros H. unfold StC. rewrite (SC_step _ _ _ _ _ _ H), vstepC_fst'. reflexivity. Qed.

Lemma StC_end cf s0 sched k : nth_error sched k = None -> StC cf s0 sched (S k) = StC cf s0 sched k.
Proof. intros H. unfold StC. rewrite (SC_end _ _ _ _ H). reflexivity. Qed.

Lemma StC_run cf s0 sched k : StC cf s0 sched k = run_state_staleC cf s0 (firstn k sched).
Proof. unfold StC, SC. rewrite vrunC_fst. reflexivity. Qed.

Lemma StC_all cf s0 sched : StC cf s0 sched (length sched) = run_state_staleC cf s0 sched.
Proof. rewrite StC_run, firstn_all. reflexivity. Qed.

(** The run with its events. *)
Fixpoint run_staleC (cf : config) (s : state) (sched : list (N * N)) : state * list (N * list event) :=
  match sched with
  | [] => (s, [])
  | (t, x) :: rest =>
      let '(s', evs) := step_staleC cf s t x in
      let '(s'', tr) := run_staleC cf s' rest in
      (s'', (t, evs) :: tr)
  end.

Lemma run_state_staleC_cons cf s tx sched :
  run_state_staleC cf s (tx :: sched) = run_state_staleC cf (fst (step_staleC cf s (fst tx) (snd tx))) sched.
Proof. reflexivity. Qed.

Lemma run_staleC_fst cf : forall sched s, fst (run_staleC cf s sched) = run_state_staleC cf s sched.
Proof.
  induction sched as [|[t x] sched IH]; intros s; [reflexivity|]. cbn [run_staleC].
  rewrite run_state_staleC_cons. cbn [fst snd]. rewrite <- IH.
  destruct (step_staleC cf s t x) as [s1 evs]. cbn [fst]. destruct (run_staleC cf s1 sched) as [s2 tr]. reflexivity.
Qed.

Lemma run_staleC_events cf (P : list event -> Prop) : forall sched s,
  (forall k t x, nth_error sched k = Some (t, x) ->
     P (snd (step_staleC cf (run_state_staleC cf s (firstn k sched)) t x))) ->
  forall te, In te (snd (run_staleC cf s sched)) -> P (snd te).
Proof.
  induction sched as [|[t x] sched IH]; intros s H te; [intros []|].
  cbn [run_staleC]. pose proof (H 0%nat t x eq_refl) as H0. cbn in H0.
  destruct (step_staleC cf s t x) as [s1 evs] eqn:Hs. specialize (IH s1).
  destruct (run_staleC cf s1 sched) as [s2 tr]. cbn [snd] in *.
  intros [<-|Hin]; [exact H0|]. apply IH; [|exact Hin].
  intros k t' x' Hk. specialize (H (S k) t' x' Hk). cbn [firstn] in H.
  rewrite run_state_staleC_cons in H. cbn [fst snd] in H. rewrite Hs in H. exact H.
Qed.

(** ** The hypotheses on a run *)
Record RunOKSC (cf : config) (inits : list N) (progs : list (list cmd)) (sched : list (N * N)) : Prop := {
  rsc_inits : inits_ok inits;
  rsc_progs : progs_nosetgen progs;
  rsc_state : forall k, let s := StC cf (init_state inits progs) sched k in
                        GenBound s /\ DstEmptyC s /\ CloneSrcCmd s /\ CacheExcl s;
  rsc_alloc : forall k t x, nth_error sched k = Some (t, x) ->
                            alloc_ok (StC cf (init_state inits progs) sched k) t x;
  rsc_stale : forall k t x, nth_error sched k = Some (t, x) ->
                            staleC_ok (GC cf (init_state inits progs) sched k) (StC cf (init_state inits progs) sched k) t x;
}.

Lemma step_staleC_prog cf s t x t' : t_prog (thr (fst (step_staleC cf s t x)) t') = t_prog (thr s t').
Proof.
  destruct (q1_stale s t x) eqn:Hq; [|rewrite (q1_stale_false cf s t x Hq); apply step_prog].
  destruct (q1_stale_Peek s t x Hq) as (c & a & k & rest & P).
  rewrite (peek_state cf s t x c a k rest P). cbn [thr]. unfold upd.
  destruct (decide (t' = t)) as [->|Hne]; [|reflexivity].
  unfold thread_after. destruct (pk_nx cf s t x c a k); try reflexivity.
  destruct (unwind cf _ rest v); reflexivity.
Qed.

Lemma StC_prog cf s0 sched k t : t_prog (thr (StC cf s0 sched k) t) = t_prog (thr s0 t).
Proof.
  induction k as [|k IH]; [reflexivity|].
  destruct (nth_error sched k) as [[t0 x0]|] eqn:Hk.
  - rewrite (StC_step _ _ _ _ _ _ Hk), step_staleC_prog. exact IH.
  - rewrite (StC_end _ _ _ _ Hk). exact IH.
Qed.

Lemma RunOKSC_ProgOKC cf inits progs sched :
  RunOKSC cf inits progs sched -> forall k, ProgOKC (StC cf (init_state inits progs) sched k).
Proof.
  intros R k. destruct (rsc_state _ _ _ _ R k) as (_ & DE & CS & CE). split; [|split; [|split]]; try assumption.
  intros t g. rewrite StC_prog. apply (NoSetGen_init inits progs (rsc_progs _ _ _ _ R)).
Qed.

Theorem RunOKSC_MasterC cf inits progs sched :
  RunOKSC cf inits progs sched -> forall k, MasterC (StC cf (init_state inits progs) sched k).
Proof.
  intros R. induction k as [|k IH]; [apply MasterC_init; apply R|].
  destruct (nth_error sched k) as [[t x]|] eqn:Hk.
  - rewrite (StC_step _ _ _ _ _ _ Hk). apply step_staleC_MasterC.
    + apply (rsc_state _ _ _ _ R k).
    + apply RunOKSC_ProgOKC. exact R.
    + exact (rsc_alloc _ _ _ _ R k t x Hk).
    + exact IH.
  - rewrite (StC_end _ _ _ _ Hk). exact IH.
Qed.

(** ** No step touches a destroyed value *)
Theorem step_staleC_no_dead_event cf s t x f :
  MasterC s -> ProgOKC s -> dead_fault f -> ~ In (EvFault f) (snd (step_staleC cf s t x)).
Proof.
  intros M PO Hf. destruct (q1_stale s t x) eqn:Hq; [|rewrite (q1_stale_false cf s t x Hq); apply step_no_dead_eventC; assumption].
  destruct (q1_stale_Peek s t x Hq) as (c & a & k & rest & P).
  destruct (stale_sim cf s t x c a k rest (pk_run _ _ _ _ _ _ _ P) (pk_stk _ _ _ _ _ _ _ P) (pk_x _ _ _ _ _ _ _ P)) as (_ & _ & ->).
  intros Hin. destruct (step_fault_event _ _ _ _ _ Hin) as [->|(p & rest' & s1 & l1 & evs & Hr & Hst & He)].
  - destruct Hf as (a0 & [E|E]); discriminate E.
  - cbn [thr shadow] in Hst. rewrite (pk_stk _ _ _ _ _ _ _ P) in Hst. injection Hst as <- <-.
    cbn [thr shadow sh] in He. pose proof (peek_exec cf s t x c a k rest 0 P) as He'. cbn [sh shadow] in He'.
    rewrite He' in He. injection He as _ _ _ Hn.
    pose proof (pk_nx_not_stops cf s t x c a k) as Hns. rewrite Hn in Hns. apply Hns. exact I.
Qed.

Theorem C16_no_fault_staleC cf inits progs sched :
  RunOKSC cf inits progs sched ->
  NoFault (run_state_staleC cf (init_state inits progs) sched) /\
  forall te, In te (snd (run_staleC cf (init_state inits progs) sched)) ->
    forall a, ~ In (EvFault (FDeadInc a)) (snd te) /\ ~ In (EvFault (FDeadDec a)) (snd te).
Proof.
  intros R. split.
  - rewrite <- StC_all. apply (RunOKSC_MasterC _ _ _ _ R).
  - apply (run_staleC_events cf (fun evs => forall a, ~ In (EvFault (FDeadInc a)) evs /\ ~ In (EvFault (FDeadDec a)) evs)).
    intros k t x Hk a. rewrite <- StC_run.
    pose proof (RunOKSC_MasterC _ _ _ _ R k) as M. pose proof (RunOKSC_ProgOKC _ _ _ _ R k) as PO.
    split; apply step_staleC_no_dead_event; try assumption; exists a; auto.
Qed.

Print Assumptions RunOKSC_MasterC.
Print Assumptions C16_no_fault_staleC.
