(** * ASModel.StaleCInv7 — the peek frame [Q1 c a k] occurs only in the stack
    [[Q1 c a k; KCacheDone c k]] ([QShape]); invariant of [step] and of [step_staleC].

    No program point but the start of [CCacheLoad] produces [Q1]: the frames pushed by [exec] and
    [resume] are admissible frames of the cache-free accounting ([Acc2.fokb], which rejects the
    three cache frames). *)
From Coq Require Import Lia.
From ASModel Require Import Base State Orderings_gen Step Run Progress Hist Inv InvTl InvProto InvStep Sum StepCases.
From ASModel Require Import GenDefs Gen1 Gen2 Gen Typed1 LinDefs Lin1 Lin3 Lin7.
From ASModel Require Acc2.
From ASModel Require Import CchDefs CchAcc1 CchAcc2 CchAcc.
From ASModel Require Import Stale2 StaleC StaleCInv1 StaleCInv2 StaleCInv3 StaleCInv4.

Definition isq (f : pc) : bool := match f with Q1 _ _ _ => true | _ => false end.
Definition qok (f : pc) : Prop := isq f = false /\ fokb f = true.

Definition QI (stk : list pc) : Prop :=
  forall c a k, In (Q1 c a k) stk -> stk = [Q1 c a k; KCacheDone c k].
Definition QShape (s : state) : Prop := forall t, QI (t_stack (thr s t)).

Lemma noq_QI stk : Forall (fun f => isq f = false) stk -> QI stk.
Proof. intros H c a k Hin. apply (proj1 (Forall_forall _ _) H) in Hin. discriminate Hin. Qed.

Lemma qok_noq stk : Forall qok stk -> Forall (fun f => isq f = false) stk.
Proof. apply Forall_impl. intros f [H _]. exact H. Qed.

Lemma afok_split p : Acc2.fokb p = true <-> fokb p = true /\ cache_frame p = false.
Proof. destruct p; cbn; intuition congruence. Qed.

Lemma afok_qok p : Acc2.fokb p = true -> qok p.
Proof. intros H. apply afok_split in H as [H1 H2]. split; [destruct p; try reflexivity; discriminate H2|exact H1]. Qed.

Lemma asegok_qok w : forall fs, Acc2.segok fs w = true -> Forall qok fs.
Proof.
  induction fs as [|f fs IH]; intros H; [constructor|]. cbn [Acc2.segok] in H.
  apply andb_prop in H as [H Hd]. apply andb_prop in H as [H _]. apply andb_prop in H as [Hf _].
  constructor; [apply afok_qok; exact Hf|exact (IH Hd)].
Qed.

Lemma anext_qok u nx : Acc2.next_typed u nx = true -> Forall qok (nx_frames nx).
Proof.
  destruct nx as [p'|fs w|v|ps|f]; cbn [Acc2.next_typed nx_frames]; intros H; try constructor.
  - apply andb_prop in H as [H _]. apply andb_prop in H as [H _]. apply afok_qok. exact H.
  - constructor.
  - apply andb_prop in H as [H _]. apply andb_prop in H as [H _]. apply andb_prop in H as [H1 H2].
    apply Forall_app. split; [exact (asegok_qok w fs H1)|constructor; [apply afok_qok; exact H2|constructor]].
Qed.

Lemma exec_qok cf s l p x s' l' evs nx :
  exec cf s l p x = (s', l', evs, nx) -> fokb p = true -> is_waiting p = false -> isq p = false ->
  Forall qok (nx_frames nx).
Proof.
  intros He Hf Hw Hq. apply (anext_qok (Acc2.runit p)). eapply Acc2.exec_typed; [exact He|].
  apply afok_split. split; [exact Hf|]. destruct p; try reflexivity; discriminate.
Qed.

Lemma resume_qok cf l w v l' nx : resume cf l w v = (l', nx) -> fokb w = true -> Forall qok (nx_frames nx).
Proof.
  intros Hr Hf. destruct (cache_frame w) eqn:Hc.
  - destruct w; try discriminate Hc; cbn in Hr.
    + injection Hr as _ <-. constructor.
    + destruct v; try (injection Hr as _ <-; constructor).
      destruct (a =? 0); injection Hr as _ <-; cbn; repeat constructor.
    + injection Hr as _ <-. constructor.
  - apply (anext_qok (Acc2.runit w)). eapply Acc2.resume_typed; [exact Hr|]. apply afok_split. auto.
Qed.

Lemma typed_fokb : forall stk, typed stk -> Forall (fun f => fokb f = true) stk.
Proof. induction stk as [|p stk IH]; intros H; [constructor|]. destruct H as (H1 & _ & H3). constructor; auto. Qed.

(** The stack after the peek answered with [v] (also the stack after the step of [Q1]). *)
Lemma QI_peek cf th l c a k v :
  QI (t_stack (thread_after cf th (fst (peek_nx cf l c a k v)) [KCacheDone c k] (snd (peek_nx cf l c a k v)))).
Proof.
  destruct (peek_nx_cases cf l c a k v) as [(_ & ->)|(_ & l' & fs & He & ->)]; cbn [fst snd thread_after unwind t_stack].
  - intros c0 a0 k0 [].
  - apply noq_QI. apply Forall_app. split.
    + apply Forall_app. split; [|repeat constructor].
      eapply Forall_impl; [|exact (enter_load_lfv (fun _ => True) _ _ _ _ _ He)].
      intros f [Hl _]. destruct f; try reflexivity; discriminate Hl.
    + repeat constructor.
Qed.

Lemma QI_top c a k rest : QI (Q1 c a k :: rest) -> rest = [KCacheDone c k].
Proof. intros H. specialize (H c a k (or_introl eq_refl)). injection H as ->. reflexivity. Qed.

Lemma QI_rest p rest : QI (p :: rest) -> isq p = false -> Forall (fun f => isq f = false) rest.
Proof.
  intros H Hp. apply Forall_forall. intros f Hin. destruct f; try reflexivity.
  specialize (H c a k (or_intror Hin)). injection H as -> _. discriminate Hp.
Qed.

Theorem QShape_init inits progs : QShape (init_state inits progs).
Proof.
  intros t c a k Hin. exfalso.
  assert (Hs : t_stack (thr (init_state inits progs) t) = []) by (cbn; apply init_threads_stack; cbn; auto).
  rewrite Hs in Hin. destruct Hin.
Qed.

Lemma atyped_qok : forall stk, Acc2.typed stk -> Forall qok stk.
Proof.
  induction stk as [|p stk IH]; intros Ht; [constructor|]. destruct Ht as (H1 & _ & H3).
  constructor; [apply afok_qok; exact H1|exact (IH H3)].
Qed.

Lemma cmd_start_QI cf s l cm s1 l1 stk r : cmd_start cf s l cm = inl (s1, l1, stk, r) -> QI stk.
Proof.
  intros Hc.
  destruct cm; try (apply noq_QI, qok_noq, atyped_qok; exact (Acc2.cmd_start_typed _ _ _ _ _ _ _ _ Hc I)); cbn in Hc.
  - destruct (enter_load cf l c) as [[l2 fs]|ps] eqn:He; [|discriminate]. injection Hc as _ _ <- _.
    apply noq_QI. apply Forall_app. split; [|repeat constructor].
    eapply Forall_impl; [|exact (enter_load_lfv (fun _ => True) _ _ _ _ _ He)].
    intros f [Hl _]. destruct f; try reflexivity; discriminate Hl.
  - destruct (hnd s k) as [| | |cc aa]; injection Hc as _ _ <- _.
    1-3: intros ? ? ? Hin; destruct Hin.
    intros c1 a1 k1 [[= <- <- <-]|[E|[]]]; [reflexivity|discriminate E].
Qed.
