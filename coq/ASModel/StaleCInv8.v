(** * ASModel.StaleCInv8 — [QShape] is an invariant of [step] and of [step_staleC]; consequence:
    at a peek the stack is [[Q1 c a k; KCacheDone c k]] and the state after it is explicit. *)
From Coq Require Import Lia.
From ASModel Require Import Base State Orderings_gen Step Run Progress Hist Inv InvTl InvProto InvStep Sum StepCases.
From ASModel Require Import GenDefs Gen1 Gen2 Gen Typed1 LinDefs Lin1 Lin3 Lin7 Lin8.
From ASModel Require Import CchDefs CchAcc1 CchAcc2 CchAcc.
From ASModel Require Import Stale2 StaleC StaleCInv1 StaleCInv2 StaleCInv3 StaleCInv4 StaleCInv7.

Theorem step_QShape cf s t x :
  WF2 s -> CchAcc.Typed s -> NoFault (fst (step cf s t x)) -> QShape s -> QShape (fst (step cf s t x)).
Proof.
  intros W T Hnf QS t'.
  destruct (step_cases cf s t x) as [E|c s1 l1 stk r Hr Hs Hc Hen Hcs E|n Hr Hs Hn E|Hr Hs Hn E|p rest s1 l1 evs nx Hr Hs He E].
  - rewrite E. apply QS.
  - rewrite E. cbn [thr set_thread]. unfold upd. destruct (decide (t' = t)) as [->|Hne].
    + rewrite start_thread_stack. eapply cmd_start_QI. exact Hcs.
    + rewrite (proj1 (cmd_start_effect _ _ _ _ _ _ _ _ Hcs)). apply QS.
  - rewrite E. cbn [thr set_thread]. unfold upd. destruct (decide (t' = t)) as [->|Hne]; [|apply QS].
    apply noq_QI. repeat constructor.
  - rewrite E. cbn [thr set_thread]. unfold upd. destruct (decide (t' = t)) as [->|Hne]; [|apply QS].
    intros c a k [].
  - pose proof (Hnf t) as Hf. rewrite E in Hf |- *. cbn [thr] in *. unfold upd in *.
    destruct (decide (t' = t)) as [->|Hne]; [|apply QS].
    pose proof (T t) as Ht. rewrite Hs in Ht. pose proof (QS t) as Hq. rewrite Hs in Hq.
    destruct (isq p) eqn:Hp.
    + destruct p; try discriminate Hp. rewrite (QI_top _ _ _ _ Hq) in *.
      rewrite exec_Q1_eq in He. injection He as <- <- <- <-. apply QI_peek.
    + destruct (exec_settle _ _ _ _ _ _ _ _ _ _ W Hnf Hr Hs He) as [Hns Hset].
      destruct (running_stk_ok s t W Hr) as [Htl _]. rewrite Hs in Htl. destruct Htl as (Hnw & _).
      apply noq_QI, qok_noq. apply (settle_Forall cf qok _ _ _ _ _ _ Hset).
      * intros l0 w v l2 nx1 [_ Hfw] Hres. exact (resume_qok _ _ _ _ _ _ Hres Hfw).
      * pose proof (QI_rest _ _ Hq Hp) as H1. pose proof (typed_fokb _ (proj2 (proj2 Ht))) as H2.
        apply Forall_forall. intros f Hin. split; [exact (proj1 (Forall_forall _ _) H1 f Hin)|exact (proj1 (Forall_forall _ _) H2 f Hin)].
      * exact (exec_qok _ _ _ _ _ _ _ _ _ He (proj1 Ht) Hnw Hp).
Qed.

(** ** The peek *)
Lemma peek_rest s t x c a k rest : QShape s -> Peek s t x c a k rest -> rest = [KCacheDone c k].
Proof. intros QS P. pose proof (QS t) as H. rewrite (pk_stk _ _ _ _ _ _ _ P) in H. exact (QI_top _ _ _ _ H). Qed.

Theorem peek_QShape cf s t x c a k rest :
  Peek s t x c a k rest -> QShape s -> QShape (fst (step_staleC cf s t x)).
Proof.
  intros P QS t'. rewrite (peek_state cf s t x c a k rest P). cbn [thr]. unfold upd.
  destruct (decide (t' = t)) as [->|Hne]; [|apply QS].
  rewrite (peek_rest s t x c a k rest QS P). apply QI_peek.
Qed.

Theorem step_staleC_QShape cf s t x :
  WF2 s -> CchAcc.Typed s -> NoFault (fst (step_staleC cf s t x)) -> QShape s -> QShape (fst (step_staleC cf s t x)).
Proof.
  intros W T Hnf QS. destruct (q1_stale s t x) eqn:Hq.
  - destruct (q1_stale_Peek s t x Hq) as (c & a & k & rest & P). exact (peek_QShape cf s t x c a k rest P QS).
  - rewrite (q1_stale_false cf s t x Hq) in *. apply step_QShape; assumption.
Qed.

(** The state after a peek, explicitly. *)
Inductive peek_result (cf : config) (s : state) (t c a k v : N) (s' : state) : Prop :=
| pr_hit :
    v = a ->
    s' = mkState (sh s)
           (upd (thr s) t (mkThread [] (t_loc (thr s t)) (t_prog (thr s t)) (t_cmdi (thr s t) + 1) Running))
           (upd (hnd s) k (HCache c a)) ->
    peek_result cf s t c a k v s'
| pr_miss l' fs :
    v <> a -> enter_load cf (t_loc (thr s t)) c = inl (l', fs) ->
    s' = mkState (sh s)
           (upd (thr s) t (mkThread (fs ++ [WLoadFull; WCacheReload c a k; KCacheDone c k]) l'
                                    (t_prog (thr s t)) (t_cmdi (thr s t)) Running))
           (hnd s) ->
    peek_result cf s t c a k v s'.

Lemma peek_explicit cf s t x c a k rest :
  QShape s -> Peek s t x c a k rest -> peek_result cf s t c a k (x - 2) (fst (step_staleC cf s t x)).
Proof.
  intros QS P. rewrite (peek_state cf s t x c a k rest P), (peek_rest s t x c a k rest QS P).
  unfold pk_l, pk_nx.
  destruct (peek_nx_cases cf (t_loc (thr s t)) c a k (x - 2)) as [(Hv & E)|(Hv & l' & fs & He & E)]; rewrite E; cbn [fst snd].
  - apply pr_hit; [exact Hv|]. reflexivity.
  - eapply pr_miss; [exact Hv|exact He|]. cbn [thread_after hnd_after]. rewrite <- app_assoc. reflexivity.
Qed.

(** The step of [step] at [Q1] has the same two outcomes (with the value of the memory). *)
Lemma q1_step_explicit cf s t x c a k rest :
  QShape s -> t_status (thr s t) = Running -> t_stack (thr s t) = Q1 c a k :: rest ->
  peek_result cf s t c a k (mem (sh s) (LStore c)) (fst (step cf s t x)).
Proof.
  intros QS Hr Hs. pose proof (QS t) as H. rewrite Hs in H. pose proof (QI_top _ _ _ _ H) as ->.
  rewrite (step_exec_eq cf s t x _ _ _ _ _ _ Hr Hs (exec_Q1_eq cf (sh s) (t_loc (thr s t)) c a k x)).
  destruct (peek_nx_cases cf (t_loc (thr s t)) c a k (mem (sh s) (LStore c))) as [(Hv & E)|(Hv & l' & fs & He & E)]; rewrite E; cbn [fst snd].
  - apply pr_hit; [exact Hv|]. reflexivity.
  - eapply pr_miss; [exact Hv|exact He|]. cbn [thread_after hnd_after]. rewrite <- app_assoc. reflexivity.
Qed.
