(** * ASModel.StaleCInv9 — the accesses of one step to the storages.

    A frame step contains at most one access to a storage [LStore c]: a load ([LA1], [LA4], [LH3],
    [Q1]), a failed compare-exchange ([K1]), or a write - the swap of [S1] or the successful
    compare-exchange of [K1], both acquiring and releasing ([sacc]).  The ghost [vacc] only looks
    at these events ([fold_vacc_sevs]). *)
From Coq Require Import Lia.
From ASModel Require Import Base State Orderings_gen Step Run Progress Hist.
From ASModel Require Import Stale2 StaleC StaleCView.

Definition sev (e : event) : bool :=
  match e with EvAcc (LStore _) _ _ _ _ _ _ => true | _ => false end.
Definition sevs (evs : list event) : list event := List.filter sev evs.

Lemma sevs_app a b : sevs (a ++ b) = sevs a ++ sevs b.
Proof. apply List.filter_app. Qed.

Lemma vacc_nonstore g t st e : sev e = false -> vacc g t st e = g.
Proof. destruct e; try reflexivity. destruct l; try reflexivity. discriminate. Qed.

Lemma fold_vacc_sevs t st : forall evs g,
  fold_left (fun g e => vacc g t st e) evs g = fold_left (fun g e => vacc g t st e) (sevs evs) g.
Proof.
  induction evs as [|e evs IH]; intros g; [reflexivity|]. cbn [fold_left sevs List.filter].
  destruct (sev e) eqn:He; cbn [fold_left]; [apply IH|]. rewrite (vacc_nonstore g t st e He). apply IH.
Qed.

Inductive sacc (m m' : loc -> N) (evs : list event) : Prop :=
| sa_none : sevs evs = [] -> (forall c, m' (LStore c) = m (LStore c)) -> sacc m m' evs
| sa_read c op o fo ok :
    sevs evs = [EvAcc (LStore c) op o fo (m (LStore c)) (m (LStore c)) ok] ->
    (op = OLoad /\ ok = true) \/ (op = OCasWeak /\ ok = false) ->
    (forall c', m' (LStore c') = m (LStore c')) -> sacc m m' evs
| sa_write c op o fo new :
    sevs evs = [EvAcc (LStore c) op o fo (m (LStore c)) new true] ->
    op = OSwap \/ op = OCasWeak -> acq o = true -> rel o = true ->
    m' (LStore c) = new -> (forall c', c' <> c -> m' (LStore c') = m (LStore c')) -> sacc m m' evs.

Lemma rc_inc_sacc s a s' evs : rc_inc s a = Some (s', evs) ->
  sevs evs = [] /\ forall c, mem s' (LStore c) = mem s (LStore c).
Proof.
  unfold rc_inc. destruct (heap s a); [|discriminate]. intros [= <- <-]. split; [reflexivity|].
  intros c. cbn. upd_simp. reflexivity.
Qed.
Lemma rc_dec_sacc s a s' evs : rc_dec s a = Some (s', evs) ->
  sevs evs = [] /\ forall c, mem s' (LStore c) = mem s (LStore c).
Proof.
  unfold rc_dec. destruct (heap s a); [|discriminate]. destruct (_ =? 1); intros [= <- <-]; (split; [reflexivity|]);
    intros c; cbn; upd_simp; reflexivity.
Qed.
Lemma rc_alloc_sacc s a s' evs : rc_alloc s a = Some (s', evs) ->
  sevs evs = [] /\ forall c, mem s' (LStore c) = mem s (LStore c).
Proof.
  unfold rc_alloc. destruct (heap s a); [discriminate|]. destruct (valid_addr a); [|discriminate].
  intros [= <- <-]. split; [reflexivity|]. intros c. cbn. upd_simp. reflexivity.
Qed.

Lemma exec_sacc cf s l p x s' l' evs nx :
  exec cf s l p x = (s', l', evs, nx) -> sacc (mem s) (mem s') evs.
Proof.
  intros He.
  destruct p; unfold exec in He;
    unfold a_load, a_store, a_swap, a_cas, a_fadd, a_fsub, m_set in He; cbn in He.
  all: try (match type of He with context [rc_inc ?s0 ?a] => destruct (rc_inc s0 a) as [[s2 e2]|] eqn:Hrc end;
            [pose proof (rc_inc_sacc _ _ _ _ Hrc) as [Hw Hm]|]).
  all: try (match type of He with context [rc_dec ?s0 ?a] => destruct (rc_dec s0 a) as [[s2 e2]|] eqn:Hrc end;
            [pose proof (rc_dec_sacc _ _ _ _ Hrc) as [Hw Hm]|]).
  all: try (match type of He with context [rc_alloc ?s0 ?a] => destruct (rc_alloc s0 a) as [[s2 e2]|] eqn:Hrc end;
            [pose proof (rc_alloc_sacc _ _ _ _ Hrc) as [Hw Hm]|]).
  all: repeat match type of He with
         | context [match ?e with _ => _ end] =>
             match e with
             | context [exec] => fail 1
             | _ => destruct e eqn:?
             end
         | context [if ?b then _ else _] => destruct b eqn:?
         end.
  all: try discriminate.
  all: try (injection He as <- <- <- <-).
  all: try (apply sa_none; [assumption|assumption]).
  all: try (apply sa_none; [reflexivity|intros c0; cbn; unfold slot_loc; upd_simp; try rewrite node_init_store; cbn; upd_simp; reflexivity]; fail).
  all: try (eapply sa_read; [reflexivity|left; split; reflexivity|reflexivity]; fail).
  all: try (eapply sa_read; [reflexivity|right; split; reflexivity|reflexivity]; fail).
  all: try (eapply sa_write; [reflexivity|left; reflexivity|reflexivity|reflexivity|cbn; apply upd_same|
                              intros c' Hc'; cbn; apply upd_other; congruence]; fail).
  all: try (eapply sa_write; [reflexivity|right; reflexivity|reflexivity|reflexivity|cbn; apply upd_same|
                              intros c' Hc'; cbn; apply upd_other; congruence]; fail).
Qed.
