(** * ASModel.StaleCInvEx — non-vacuity of [RunOKSC]: a boolean checker, and two runs.

    Run [ca]: thread 0 creates a cache of container 0 (value 4096), thread 1 stores a new value
    (4112) and completes, then thread 0 loads from the cache twice.  The revalidating read of the
    first of these loads is answered with the OLD pointer 4096 (allowed: thread 0 has not
    synchronised with the store): the cache returns its old value - a result that no
    sequentially consistent run has; the second load reads 4112 and reloads.

    Run [cb]: ONE thread stores and then loads from its cache.  The old pointer is no longer
    among the values it may read ([staleC_okb] rejects it): the load returns the new value. *)
From Coq Require Import Lia.
From ASModel Require Import Base State Orderings_gen Step Run Progress Hist Inv InvTl InvProto InvStep Sum StepCases.
From ASModel Require Import GenDefs Gen1 Gen2 Gen Safe8 Safe Scope Main RunOKEx Lin1 LinCache2 LinCache.
From ASModel Require Import ProgWF1 ProgWF2 CchWF CchDefs CchAcc CchCmd CchMain CchEx.
From ASModel Require Import Stale2 StaleC StaleCView StaleCInv1 StaleCInv6 StaleCInv10 StaleCInv12 StaleCInv16 StaleCInv20 StaleCInv24 StaleCInv25.

Lemma staleC_okb_sound g s t x : staleC_okb g s t x = true -> staleC_ok g s t x.
Proof.
  unfold staleC_okb, staleC_ok. destruct (t_status (thr s t)); try (intros _; exact I).
  destruct (t_stack (thr s t)) as [|p rest]; [intros _; exact I|]. destruct p; try (intros _; exact I).
  intros H Hx. destruct (2 <=? x) eqn:E; [|apply N.leb_gt in E; lia].
  destruct (find_from (vh g c) 0 (vt g t c) (x - 2)) as [i|] eqn:Hf; [|discriminate H].
  destruct (find_from_spec _ _ _ _ _ Hf) as (A & B & C & _). rewrite Nat.sub_0_r in C. exists i. split; [lia|exact C].
Qed.

Lemma step_staleC_no_thread cf s t x t0 : thr s t0 = no_thread -> thr (fst (step_staleC cf s t x)) t0 = no_thread.
Proof.
  intros H. destruct (N.eq_dec t0 t) as [->|Hne]; [|rewrite step_staleC_other by exact Hne; exact H].
  rewrite step_staleC_stopped; [exact H|]. rewrite H. discriminate.
Qed.

Lemma Beyond_step_staleC cf n s t x : Beyond n s -> Beyond n (fst (step_staleC cf s t x)).
Proof. intros H t0 Ht. apply step_staleC_no_thread. apply H. exact Ht. Qed.

(** The instrumented run from an arbitrary instrumented state. *)
Definition SCg (cf : config) (sg : state * vghost) (sched : list (N * N)) (k : nat) : state * vghost :=
  vrunC cf sg (firstn k sched).

Lemma SCg_nil cf sg k : SCg cf sg [] k = sg.
Proof. unfold SCg. rewrite firstn_nil. reflexivity. Qed.

Lemma SCg_cons cf sg t x sched k : SCg cf sg ((t, x) :: sched) (S k) = SCg cf (vstepC cf sg t x) sched k.
Proof. reflexivity. Qed.

Fixpoint runSC_b (cf : config) (n : nat) (sg : state * vghost) (sched : list (N * N)) : bool :=
  scopeC_state n (fst sg) &&
  match sched with
  | [] => true
  | (t, x) :: rest =>
      scope_alloc (fst sg) t x && staleC_okb (snd sg) (fst sg) t x && runSC_b cf n (vstepC cf sg t x) rest
  end.

Theorem runSC_b_sound cf n : forall sched sg, Beyond n (fst sg) -> runSC_b cf n sg sched = true ->
  (forall k, let s := fst (SCg cf sg sched k) in GenBound s /\ DstEmptyC s /\ CloneSrcCmd s) /\
  (forall k t x, nth_error sched k = Some (t, x) ->
     alloc_ok (fst (SCg cf sg sched k)) t x /\ staleC_ok (snd (SCg cf sg sched k)) (fst (SCg cf sg sched k)) t x).
Proof.
  induction sched as [|[t x] sched IH]; intros sg B H; cbn [runSC_b] in H; apply andb_true_iff in H as [Hs H].
  - split.
    + intros k. rewrite SCg_nil. apply (scopeC_state_sound n); assumption.
    + intros [|k] t x Hk; discriminate Hk.
  - apply andb_true_iff in H as [Ha H]. apply andb_true_iff in Ha as [Ha Hst].
    assert (B' : Beyond n (fst (vstepC cf sg t x))) by (rewrite vstepC_fst'; apply Beyond_step_staleC; exact B).
    destruct (IH _ B' H) as [IH1 IH2]. split.
    + intros [|k]; [apply (scopeC_state_sound n); assumption|]. rewrite SCg_cons. apply IH1.
    + intros [|k] t' x' Hk.
      * injection Hk as <- <-. split; [apply scope_alloc_sound; exact Ha|apply staleC_okb_sound; exact Hst].
      * rewrite SCg_cons. apply IH2. exact Hk.
Qed.

Definition runokSC_b (cf : config) (inits : list N) (progs : list (list cmd)) (sched : list (N * N)) : bool :=
  inits_b inits && nosetgen_b progs &&
  runSC_b cf (length progs) (init_state inits progs, vghost0 (init_state inits progs)) sched.

Lemma handles_disjoint_CacheExclC cf inits progs sched k :
  handles_disjoint progs -> CacheExcl (StC cf (init_state inits progs) sched k).
Proof.
  intros HD t t' cm cm' k0 Hne _ Hc' Hon _ Hc Hk.
  rewrite StC_prog, init_state_prog in Hc, Hc'.
  apply (HD (N.to_nat t) (N.to_nat t') k0); [lia| |].
  - eapply uses_in_prog; [exact Hc|]. apply mods_in_uses. exact Hk.
  - eapply uses_in_prog; [exact Hc'|]. apply dst_in_uses.
    destruct Hon as [(c & ->)| ->]; reflexivity.
Qed.

Theorem runokSC_b_sound cf inits progs sched :
  handles_disjoint progs -> runokSC_b cf inits progs sched = true -> RunOKSC cf inits progs sched.
Proof.
  intros HD H. apply andb_true_iff in H as [H Hr]. apply andb_true_iff in H as [Hi Hp].
  destruct (runSC_b_sound cf (length progs) sched (init_state inits progs, vghost0 (init_state inits progs)) (Beyond_init inits progs) Hr) as [H1 H2].
  constructor; [apply inits_b_sound; exact Hi|apply nosetgen_b_sound; exact Hp| | |].
  - intros k. cbn zeta. destruct (H1 k) as (G & D & C). repeat split; try assumption.
    apply handles_disjoint_CacheExclC. exact HD.
  - intros k t x Hk. exact (proj1 (H2 k t x Hk)).
  - intros k t x Hk. exact (proj2 (H2 k t x Hk)).
Qed.

(** A program without [CMove] never moves a cache. *)
Definition nomove_b (progs : list (list cmd)) : bool :=
  forallb (forallb (fun c => match c with CMove _ _ => false | _ => true end)) progs.

Lemma nomove_b_sound cf inits progs sched :
  nomove_b progs = true -> forall p, NoCacheMove (StC cf (init_state inits progs) sched p).
Proof.
  intros H p t h h2 c v _ _ Hcm _. unfold cur_cmd in Hcm. rewrite StC_prog in Hcm.
  apply nth_error_In in Hcm. rewrite init_state_prog in Hcm.
  destruct (nth_in_or_default (N.to_nat t) progs []) as [Hpr|E]; [|rewrite E in Hcm; destruct Hcm].
  apply (proj1 (forallb_forall _ _) H) in Hpr. pose proof (proj1 (forallb_forall _ _) Hpr _ Hcm) as A. discriminate A.
Qed.

Definition noconsume_b (c : N) (progs : list (list cmd)) : bool :=
  forallb (forallb (fun cm => negb (is_consume c cm))) progs.

Lemma noconsume_b_sound c inits progs : noconsume_b c progs = true -> never_consumed c (init_state inits progs).
Proof.
  intros H t cm Hcm. rewrite init_state_prog in Hcm.
  destruct (nth_in_or_default (N.to_nat t) progs []) as [Hpr|E]; [|rewrite E in Hcm; destruct Hcm].
  apply (proj1 (forallb_forall _ _) H) in Hpr. pose proof (proj1 (forallb_forall _ _) Hpr _ Hcm) as A.
  apply negb_true_iff in A. exact A.
Qed.

(** ** Run (a): a stale revalidation keeps the old value *)
Definition ca_cf : config := mkConfig true true.
Definition ca_inits : list N := [4096].
Definition ca_progs : list (list cmd) :=
  [[CCacheNew 0 1; CCacheLoad 1; CCacheLoad 1]; [CNew 2; CStore 0 (SHandle 2)]].
(** Thread 0 creates the cache (11 steps); thread 1 allocates 4112, stores it and exits (45 steps);
    thread 0 loads (steps 56, 57: the peek at 57 is answered with 4096, choice 4096 + 2) and loads
    again (steps 58 .. 67: the peek reads 4112, the cache reloads and drops 4096); then it exits. *)
Definition ca_sched : list (N * N) :=
  repeat (0, 0) 11 ++ repeat (1, 4112) 45 ++ repeat (0, 4098) 2 ++ repeat (0, 0) 30.
Definition ca_s0 : state := init_state ca_inits ca_progs.
Definition ca_St (k : nat) : state := StC ca_cf ca_s0 ca_sched k.
Definition ca_G (k : nat) : vghost := GC ca_cf ca_s0 ca_sched k.

Lemma ca_disjoint : handles_disjoint ca_progs.
Proof.
  intros t1 t2 h Hne H1 H2.
  destruct t1 as [|[|[|t1]]], t2 as [|[|[|t2]]]; cbn in H1, H2; try contradiction; try congruence;
    intuition congruence.
Qed.

Example runokSC_b_example : runokSC_b ca_cf ca_inits ca_progs ca_sched = true.
Proof. vm_compute. reflexivity. Qed.

Example RunOKSC_example : RunOKSC ca_cf ca_inits ca_progs ca_sched.
Proof. apply runokSC_b_sound; [exact ca_disjoint|exact runokSC_b_example]. Qed.

(** The store has completed (thread 1 is gone) before the second cache command starts ... *)
Example ca_store_done :
  t_status (thr (ca_St 56) 1) = Exited /\ mem (sh (ca_St 56)) (LStore 0) = 4112 /\
  t_cmdi (thr (ca_St 56) 0) = 1 /\ t_stack (thr (ca_St 56) 0) = [] /\ hnd (ca_St 56) 1 = HCache 0 4096.
Proof. vm_compute. repeat split; reflexivity. Qed.

(** ... the peek is answered with the old pointer, and the load returns the OLD value ... *)
Example ca_stale_hit :
  t_stack (thr (ca_St 57) 0) = [Q1 0 4096 1; KCacheDone 0 1] /\ nth_error ca_sched 57 = Some (0, 4098) /\
  q1_stale (ca_St 57) 0 4098 = true /\
  t_cmdi (thr (ca_St 58) 0) = 2 /\ hnd (ca_St 58) 1 = HCache 0 4096.
Proof. vm_compute. repeat split; reflexivity. Qed.

(** ... the history of the container, the view of thread 0 (it has not seen the store), the view
    of the writer, and the index of the cache: *)
Example ca_views :
  vh (ca_G 58) 0 = [4096; 4112] /\ vt (ca_G 57) 0 0 = 0%nat /\ vt (ca_G 58) 0 0 = 0%nat /\
  vt (ca_G 56) 1 0 = 1%nat /\ vc (ca_G 56) 1 = 0%nat /\ vc (ca_G 58) 1 = 0%nat.
Proof. vm_compute. repeat split; reflexivity. Qed.

(** The statement for sequentially consistent runs is FALSE here: the value returned was not the
    content of the container in any state between the call and the return. *)
Example ca_not_linearizable :
  forall j, (56 + 1 <= j <= 57 + 1)%nat -> mem (sh (ca_St j)) (LStore 0) <> 4096.
Proof.
  intros j Hj. assert (H : j = 57%nat \/ j = 58%nat) by lia. destruct H as [-> | ->]; vm_compute; discriminate.
Qed.

(** The next load reads the new pointer, reloads, and the cache moves on. *)
Example ca_reload :
  t_cmdi (thr (ca_St 67) 0) = 2 /\ t_cmdi (thr (ca_St 68) 0) = 3 /\ hnd (ca_St 68) 1 = HCache 0 4112 /\
  vc (ca_G 68) 1 = 1%nat /\ vt (ca_G 68) 0 0 = 1%nat /\ heap (sh (ca_St 68)) 4096 = None.
Proof. vm_compute. repeat split; reflexivity. Qed.

(** ** The theorems on run (a) *)
Example ca_no_fault :
  NoFault (run_state_staleC ca_cf ca_s0 ca_sched) /\
  forall te, In te (snd (run_staleC ca_cf ca_s0 ca_sched)) ->
    forall a, ~ In (EvFault (FDeadInc a)) (snd te) /\ ~ In (EvFault (FDeadDec a)) (snd te).
Proof. exact (C16_no_fault_staleC _ _ _ _ RunOKSC_example). Qed.

Lemma ca_nomove : forall p, NoCacheMove (StC ca_cf ca_s0 ca_sched p).
Proof. apply nomove_b_sound. reflexivity. Qed.

Lemma ca_noconsume : never_consumed 0 ca_s0.
Proof. apply noconsume_b_sound. reflexivity. Qed.

(** The stale load (steps 56 .. 57): the weaker statement holds - the value is entry [j] of the
    history, not below the view of the thread ([0]) nor below the index of the cache. *)
Example ca_fresh_second_load :
  exists v j, hnd (ca_St 58) 1 = HCache 0 v /\ nth_error (vh (ca_G 58) 0) j = Some v /\
    (vt (ca_G 56) 0 0 <= j)%nat /\ (vc (ca_G 56) 1 <= j)%nat.
Proof.
  destruct (C16_cache_fresh_staleC ca_cf ca_inits ca_progs ca_sched 0 1 (CCacheLoad 1) 0 1 56%nat 57%nat 4098 0 4098
              RunOKSC_example ca_nomove ca_noconsume) as (v & j & H1 & H2 & H3 & H4 & _).
  all: try (vm_compute; reflexivity).
  - right. split; [reflexivity|]. exists 4096. vm_compute. reflexivity.
  - lia.
  - exists v, j. auto.
Qed.

(** The reload (steps 58 .. 67). *)
Example ca_fresh_third_load :
  exists v j, hnd (ca_St 68) 1 = HCache 0 v /\ nth_error (vh (ca_G 68) 0) j = Some v /\
    (vt (ca_G 58) 0 0 <= j)%nat /\ (vc (ca_G 58) 1 <= j)%nat.
Proof.
  destruct (C16_cache_fresh_staleC ca_cf ca_inits ca_progs ca_sched 0 2 (CCacheLoad 1) 0 1 58%nat 67%nat 0 0 0
              RunOKSC_example ca_nomove ca_noconsume) as (v & j & H1 & H2 & H3 & H4 & _).
  all: try (vm_compute; reflexivity).
  - right. split; [reflexivity|]. exists 4096. vm_compute. reflexivity.
  - lia.
  - exists v, j. auto.
Qed.

(** ** Run (b): the same thread stores and then loads from its cache *)
Definition cb_cf : config := mkConfig true true.
Definition cb_progs : list (list cmd) := [[CCacheNew 0 1; CNew 2; CStore 0 (SHandle 2); CCacheLoad 1]].
(** [CCacheNew] (11 steps), [CNew] at 4112 (2 steps), [CStore] (steps 13 .. 32), the CMD step of
    [CCacheLoad] (33), the peek (34), the reload. *)
Definition cb_sched : list (N * N) := repeat (0, 0) 11 ++ repeat (0, 4112) 2 ++ repeat (0, 0) 40.
(** The same with the peek answered by the old pointer: *)
Definition cb_sched_bad : list (N * N) := repeat (0, 0) 11 ++ repeat (0, 4112) 2 ++ repeat (0, 0) 21 ++ [(0, 4098)] ++ repeat (0, 0) 18.
Definition cb_s0 : state := init_state ca_inits cb_progs.
Definition cb_St (k : nat) : state := StC cb_cf cb_s0 cb_sched k.
Definition cb_G (k : nat) : vghost := GC cb_cf cb_s0 cb_sched k.

Lemma cb_disjoint : handles_disjoint cb_progs.
Proof.
  intros t1 t2 h Hne H1 H2.
  destruct t1 as [|[|t1]], t2 as [|[|t2]]; cbn in H1, H2; try contradiction; try congruence;
    destruct t1; destruct t2; cbn in *; try contradiction; intuition congruence.
Qed.

Example runokSC_b_example_b : runokSC_b cb_cf ca_inits cb_progs cb_sched = true.
Proof. vm_compute. reflexivity. Qed.

Example RunOKSC_example_b : RunOKSC cb_cf ca_inits cb_progs cb_sched.
Proof. apply runokSC_b_sound; [exact cb_disjoint|exact runokSC_b_example_b]. Qed.

(** At the peek the thread has seen its own store (view index 1): the old pointer (index 0) is
    not among the values it may read ... *)
Example cb_peek :
  t_stack (thr (cb_St 34) 0) = [Q1 0 4096 1; KCacheDone 0 1] /\ mem (sh (cb_St 34)) (LStore 0) = 4112 /\
  vh (cb_G 34) 0 = [4096; 4112] /\ vt (cb_G 34) 0 0 = 1%nat /\ vc (cb_G 34) 1 = 0%nat /\
  staleC_okb (cb_G 34) (cb_St 34) 0 4098 = false /\ staleC_okb (cb_G 34) (cb_St 34) 0 4114 = true.
Proof. vm_compute. repeat split; reflexivity. Qed.

(** ... a schedule that supplies it is rejected ... *)
Example cb_bad_rejected : runokSC_b cb_cf ca_inits cb_progs cb_sched_bad = false.
Proof. vm_compute. reflexivity. Qed.

(** ... and the load returns the new value. *)
Definition cb_done : nat := 43.
Example cb_load :
  t_cmdi (thr (cb_St (cb_done - 1)) 0) = 3 /\ t_cmdi (thr (cb_St cb_done) 0) = 4 /\
  hnd (cb_St cb_done) 1 = HCache 0 4112 /\ vc (cb_G cb_done) 1 = 1%nat.
Proof. vm_compute. repeat split; reflexivity. Qed.

(** ** Run (c): a reload that finds the pointer it had cached (ABA)

    Thread 0 creates the cache (4096, index 0).  Thread 1 swaps in 4112 (index 1); thread 0 loads
    the container (its view of container 0 becomes 1); thread 1 stores 4096 back (index 2).  Then
    thread 0 loads from the cache: the peek (step 93) is answered with 4112 (a stale but permitted
    value: index 1), the cache reloads and finds 4096 again.  [vcache] leaves the index of the
    cache at 0 - BELOW the view the thread had when the command started.  So the conclusion
    "[vc] after the command is an index [j] of the value with [vt] at the call [<= j]" is false;
    [C16_cache_fresh_staleC] gives [j = 2] with [vc <= j] and the same value at both indices. *)
Definition cc_cf : config := mkConfig true true.
Definition cc_progs : list (list cmd) :=
  [[CCacheNew 0 1; CLoad 0 5; CCacheLoad 1]; [CNew 2; CSwap 0 (SHandle 2) 3; CStore 0 (SHandle 3)]].
Definition cc_sched : list (N * N) :=
  repeat (0, 0) 11 ++ repeat (1, 4112) 2 ++ repeat (1, 0) 38 ++ repeat (0, 0) 6 ++ repeat (1, 0) 35 ++
  [(0, 0); (0, 4114)] ++ repeat (0, 0) 20.
Definition cc_s0 : state := init_state ca_inits cc_progs.
Definition cc_St (k : nat) : state := StC cc_cf cc_s0 cc_sched k.
Definition cc_G (k : nat) : vghost := GC cc_cf cc_s0 cc_sched k.

Example runokSC_b_example_c : runokSC_b cc_cf ca_inits cc_progs cc_sched = true.
Proof. vm_compute. reflexivity. Qed.

Example cc_run :
  t_stack (thr (cc_St 92) 0) = [] /\ t_cmdi (thr (cc_St 92) 0) = 2 /\ hnd (cc_St 92) 1 = HCache 0 4096 /\
  vh (cc_G 92) 0 = [4096; 4112; 4096] /\ vt (cc_G 92) 0 0 = 1%nat /\ vc (cc_G 92) 1 = 0%nat /\
  t_stack (thr (cc_St 93) 0) = [Q1 0 4096 1; KCacheDone 0 1] /\ (staleC_okb (cc_G 93) (cc_St 93) 0 4114 = true) /\
  t_cmdi (thr (cc_St 101) 0) = 2 /\ t_cmdi (thr (cc_St 102) 0) = 3 /\
  hnd (cc_St 102) 1 = HCache 0 4096 /\ vc (cc_G 102) 1 = 0%nat.
Proof. vm_compute. repeat split; reflexivity. Qed.

Example cc_literal_statement_fails :
  ~ exists v j, hnd (cc_St 102) 1 = HCache 0 v /\ nth_error (vh (cc_G 102) 0) j = Some v /\
                vc (cc_G 102) 1 = j /\ (vt (cc_G 92) 0 0 <= j)%nat.
Proof.
  intros (v & j & _ & _ & E & H). vm_compute in E. subst j. vm_compute in H. lia.
Qed.

Lemma cc_disjoint : handles_disjoint cc_progs.
Proof.
  intros t1 t2 h Hne H1 H2.
  destruct t1 as [|[|[|t1]]], t2 as [|[|[|t2]]]; cbn in H1, H2; try contradiction; try congruence;
    intuition congruence.
Qed.

Example RunOKSC_example_c : RunOKSC cc_cf ca_inits cc_progs cc_sched.
Proof. apply runokSC_b_sound; [exact cc_disjoint|exact runokSC_b_example_c]. Qed.

Lemma cc_nomove : forall p, NoCacheMove (StC cc_cf cc_s0 cc_sched p).
Proof. apply nomove_b_sound. reflexivity. Qed.

Lemma cc_noconsume : never_consumed 0 cc_s0.
Proof. apply noconsume_b_sound. reflexivity. Qed.

(** What [C16_cache_fresh_staleC] says about this load (steps 92 .. 101). *)
Example cc_fresh :
  exists v j, hnd (cc_St 102) 1 = HCache 0 v /\ nth_error (vh (cc_G 102) 0) j = Some v /\
    (vt (cc_G 92) 0 0 <= j)%nat /\ (vc (cc_G 92) 1 <= j)%nat /\
    nth_error (vh (cc_G 102) 0) (vc (cc_G 102) 1) = Some v /\ (vc (cc_G 102) 1 <= j)%nat.
Proof.
  destruct (C16_cache_fresh_staleC cc_cf ca_inits cc_progs cc_sched 0 2 (CCacheLoad 1) 0 1 92%nat 101%nat 0 0 0
              RunOKSC_example_c cc_nomove cc_noconsume) as (v & j & H1 & H2 & H3 & H4 & H5 & H6).
  all: try (vm_compute; reflexivity).
  - right. split; [reflexivity|]. exists 4096. vm_compute. reflexivity.
  - lia.
  - unfold cc_St, cc_G, cc_s0. exists v, j. split; [exact H1|]. split; [exact H2|]. split; [exact H3|]. split; [exact (H4 eq_refl)|].
    split; [exact H5|]. destruct H6 as [E|[_ E]]; [rewrite E; apply le_n|exact E].
Qed.

Print Assumptions runokSC_b_sound.
Print Assumptions RunOKSC_example.
Print Assumptions ca_fresh_second_load.
Print Assumptions ca_not_linearizable.
