(** * ASModel.StaleCViewX — the definitions of [StaleCView.v] once more, for extraction only.

    The model driver evaluates [staleC_okb] along every correspondence run with stale cache reads
    (does the harness supply only values the model's views permit?).  The extracted driver must
    build even when a change to the crate breaks proofs, so this file repeats the definitions of
    [StaleCView.v] without importing any proof file ([StaleCView.v] takes [cur_cmd] and [ckey] from
    [Lin1.v] / [LinCache2.v]); [StaleCViewXEq.v] proves that the two copies compute the same. *)
From ASModel Require Import Base State Orderings_gen Step Run Stale Stale2 StaleC.

Definition cur_cmd (s : state) (t : N) : option cmd :=
  nth_error (t_prog (thr s t)) (N.to_nat (t_cmdi (thr s t))).
Definition ckey (cm : cmd) : option N :=
  match cm with CCacheNew _ k | CCacheLoad k => Some k | _ => None end.

Record vghost := mkVG {
  vh : N -> list N;
  vt : N -> N -> nat;
  vm : N -> nat -> N -> nat;
  vc : N -> nat;
}.

Definition acq (o : ord) : bool := match o with Acquire | AcqRel | SeqCst => true | _ => false end.
Definition rel (o : ord) : bool := match o with Release | AcqRel | SeqCst => true | _ => false end.

Definition updN {A} (f : N -> A) (k : N) (v : A) : N -> A := fun k' => if k' =? k then v else f k'.
Definition updn {A} (f : nat -> A) (k : nat) (v : A) : nat -> A := fun k' => if Nat.eqb k' k then v else f k'.
Definition vjoin (a b : N -> nat) : N -> nat := fun c => Nat.max (a c) (b c).

(** The smallest index [>= lo] of [l] (whose head has index [i]) holding [v]. *)
Fixpoint find_from (l : list N) (i lo : nat) (v : N) : option nat :=
  match l with
  | [] => None
  | y :: r => if (lo <=? i)%nat && (y =? v) then Some i else find_from r (S i) lo v
  end.

(** The largest index of [l] (whose head has index [i]) holding [v]. *)
Fixpoint last_index (l : list N) (i : nat) (v : N) (acc : option nat) : option nat :=
  match l with
  | [] => acc
  | y :: r => last_index r (S i) v (if y =? v then Some i else acc)
  end.

Definition vghost0 (s0 : state) : vghost :=
  mkVG (fun c => [mem (sh s0) (LStore c)]) (fun _ _ => 0%nat) (fun _ _ _ => 0%nat) (fun _ => 0%nat).

(** The effect of one access to a storage. *)
Definition vacc (g : vghost) (t : N) (stale : bool) (e : event) : vghost :=
  match e with
  | EvAcc (LStore c) op o fo old new ok =>
      let h := vh g c in
      let last := (length h - 1)%nat in
      let rd (i : nat) (oo : ord) : vghost :=
        (* [t] reads write number [i] of [c] with ordering [oo] *)
        let tv := updN (vt g t) c (Nat.max (vt g t c) i) in
        let tv := if acq oo then vjoin tv (vm g c i) else tv in
        mkVG (vh g) (updN (vt g) t tv) (vm g) (vc g) in
      let wr (rmw : bool) : vghost :=
        (* [t] appends [new]; a read-modify-write replaces (and, acquiring, reads) the latest write *)
        let idx := length h in
        let tv0 := if rmw && acq o then vjoin (vt g t) (vm g c last) else vt g t in
        let tv := updN tv0 c idx in
        let mv := if rel o then tv else updN (fun _ => 0%nat) c idx in
        mkVG (updN (vh g) c (h ++ [new])) (updN (vt g) t tv) (updN (vm g) c (updn (vm g c) idx mv)) (vc g) in
      match op with
      | OLoad =>
          if stale then
            match find_from h 0 (vt g t c) new with
            | Some i => rd i o
            | None => g            (* excluded by [staleC_ok] *)
            end
          else rd last o
      | OStore => wr false
      | OSwap => wr true
      | OCas | OCasWeak => if ok then wr true else rd last fo
      | _ => g
      end
  | _ => g
  end.

(** The cache bookkeeping of a step of thread [t] from [s] to [s'] (ghost [g] already updated by
    [vacc]): a stale or ordinary revalidation that found the cached pointer keeps the cache and
    moves its index up to the write just read; a command that gave the cache a new value gives it
    the newest write of that value. *)
Definition vcache (g : vghost) (s s' : state) (t : N) (read_idx : option nat) : vghost :=
  match cur_cmd s t with
  | Some cm =>
      match ckey cm with
      | Some k =>
          match hnd s' k with
          | HCache c v' =>
              if (match hnd s k with HCache c0 v0 => (c0 =? c) && (v0 =? v') | _ => false end) then
                match t_stack (thr s t), read_idx with
                | Q1 _ a _ :: _, Some i =>
                    if nth i (vh g c) 0 =? a then mkVG (vh g) (vt g) (vm g) (updN (vc g) k (Nat.max (vc g k) i)) else g
                | _, _ => g
                end
              else
                match last_index (vh g c) 0 v' None with
                | Some i => mkVG (vh g) (vt g) (vm g) (updN (vc g) k i)
                | None => g
                end
          | _ => g
          end
      | None => g
      end
  | None => g
  end.

(** The index a revalidating read of this step reads, if it is one. *)
Definition q1_read_idx (g : vghost) (s : state) (t x : N) : option nat :=
  match t_status (thr s t), t_stack (thr s t) with
  | Running, Q1 c _ _ :: _ =>
      if 2 <=? x then find_from (vh g c) 0 (vt g t c) (x - 2)
      else Some (length (vh g c) - 1)%nat
  | _, _ => None
  end.

Definition vstep_with (stp : config -> state -> N -> N -> state * list event)
           (cf : config) (sg : state * vghost) (t x : N) : state * vghost :=
  let '(s, g) := sg in
  let '(s', evs) := stp cf s t x in
  let stale := q1_stale s t x in
  let ri := q1_read_idx g s t x in
  let g1 := fold_left (fun g e => vacc g t stale e) evs g in
  (s', vcache g1 s s' t ri).

Definition vstepC := vstep_with step_staleC.
Definition vstep3 := vstep_with step_stale3.

Definition vrunC (cf : config) (sg : state * vghost) (sched : list (N * N)) : state * vghost :=
  fold_left (fun sg tx => vstepC cf sg (fst tx) (snd tx)) sched sg.
Definition vrun3 (cf : config) (sg : state * vghost) (sched : list (N * N)) : state * vghost :=
  fold_left (fun sg tx => vstep3 cf sg (fst tx) (snd tx)) sched sg.

(** What the scheduler may supply at [Q1]: a write of [c] that thread [t] may still read. *)
Definition staleC_ok (g : vghost) (s : state) (t x : N) : Prop :=
  match t_status (thr s t), t_stack (thr s t) with
  | Running, Q1 c _ _ :: _ =>
      2 <= x -> exists i, (vt g t c <= i < length (vh g c))%nat /\ nth_error (vh g c) i = Some (x - 2)
  | _, _ => True
  end.

Definition staleC_okb (g : vghost) (s : state) (t x : N) : bool :=
  match t_status (thr s t), t_stack (thr s t) with
  | Running, Q1 c _ _ :: _ =>
      if 2 <=? x then match find_from (vh g c) 0 (vt g t c) (x - 2) with Some _ => true | None => false end
      else true
  | _, _ => true
  end.
