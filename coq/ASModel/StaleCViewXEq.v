(** * ASModel.StaleCViewXEq — the extraction copy [StaleCViewX.v] computes what [StaleCView.v] defines. *)
From ASModel Require Import Base State Orderings_gen Step Run Lin1 LinCache2 Stale Stale2 StaleC StaleCView.
From ASModel Require StaleCViewX.
Module X := StaleCViewX.

Definition to_v (g : X.vghost) : vghost := mkVG (X.vh g) (X.vt g) (X.vm g) (X.vc g).

Lemma find_from_eq : X.find_from = find_from. Proof. reflexivity. Qed.
Lemma last_index_eq : X.last_index = last_index. Proof. reflexivity. Qed.
Lemma cur_cmd_eq : X.cur_cmd = cur_cmd. Proof. reflexivity. Qed.
Lemma ckey_eq : X.ckey = ckey. Proof. reflexivity. Qed.

Lemma vghost0_eq s0 : to_v (X.vghost0 s0) = vghost0 s0.
Proof. reflexivity. Qed.

Lemma vacc_eq g t st e : to_v (X.vacc g t st e) = vacc (to_v g) t st e.
Proof.
  destruct g as [h tv mv cv].
  destruct e as [k|l op o fo old new ok|a i o|a o|a o|k r|p|f|]; try reflexivity.
  destruct l; try reflexivity.
  destruct op; try reflexivity.
  - destruct st; [|reflexivity].
    unfold X.vacc, vacc, to_v. cbn [X.vh X.vt X.vm X.vc vh vt vm vc].
    change X.find_from with find_from.
    destruct (find_from (h c) 0 (tv t c) new); reflexivity.
  - destruct ok; reflexivity.
  - destruct ok; reflexivity.
Qed.

Lemma fold_vacc_eq evs g t st :
  to_v (fold_left (fun g e => X.vacc g t st e) evs g) = fold_left (fun g e => vacc g t st e) evs (to_v g).
Proof.
  revert g. induction evs as [|e evs IH]; intros g; [reflexivity|].
  cbn [fold_left]. rewrite IH, vacc_eq. reflexivity.
Qed.

Lemma q1_read_idx_eq g s t x : X.q1_read_idx g s t x = q1_read_idx (to_v g) s t x.
Proof. destruct g; reflexivity. Qed.

Lemma staleC_okb_eq g s t x : X.staleC_okb g s t x = staleC_okb (to_v g) s t x.
Proof. destruct g; reflexivity. Qed.

Lemma vcache_eq g s s' t ri : to_v (X.vcache g s s' t ri) = vcache (to_v g) s s' t ri.
Proof.
  destruct g as [h tv mv cv]. unfold X.vcache, vcache.
  change X.cur_cmd with cur_cmd. change X.ckey with ckey. change X.last_index with last_index.
  destruct (cur_cmd s t) as [cm|]; [|reflexivity].
  destruct (ckey cm) as [k|]; [|reflexivity].
  destruct (hnd s' k) as [|a|a d|c v']; try reflexivity.
  cbn [X.vh X.vt X.vm X.vc vh vt vm vc to_v].
  destruct (match hnd s k with HCache c0 v0 => (c0 =? c) && (v0 =? v') | _ => false end).
  - destruct (t_stack (thr s t)) as [|p rest]; [reflexivity|].
    destruct p; try reflexivity. destruct ri as [i|]; [|reflexivity].
    destruct (nth i (h c) 0 =? a); reflexivity.
  - destruct (last_index (h c) 0 v' None); reflexivity.
Qed.

(** The two step functions agree (the first components are the same function of the state). *)
Theorem vstep3_eq cf s g t x :
  fst (X.vstep3 cf (s, g) t x) = fst (vstep3 cf (s, to_v g) t x) /\
  to_v (snd (X.vstep3 cf (s, g) t x)) = snd (vstep3 cf (s, to_v g) t x).
Proof.
  unfold X.vstep3, vstep3, X.vstep_with, vstep_with.
  destruct (step_stale3 cf s t x) as [s' evs]. cbn [fst snd]. split; [reflexivity|].
  rewrite vcache_eq, fold_vacc_eq, q1_read_idx_eq. reflexivity.
Qed.

Print Assumptions vstep3_eq.
