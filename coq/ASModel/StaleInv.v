(** * ASModel.StaleInv — the master invariant and the end-to-end theorems survive stale first
    reads on the fast path.

    [Stale.step_stale] is [step] except at [LA1] (the [Relaxed] first read of the stored pointer
    in [HybridProtection::attempt]), where the scheduler may supply the value read.  The state
    after such a step is the state after the normal step with another value in the new top frame
    ([LAscan c v 0] / [LA1d c v]); every component of [Main.Master] and of [Lin1.LinInv2] is
    insensitive to that value (StaleInv1-3, 7): the frame holds no reference, no claim, no
    candidate.  The only hypothesis on the value is [stale_ok]: it is not the empty-slot marker
    [NONE] (values that the storage really held satisfy this, [Safe1.ValOK]).

    - StaleInv1-3: [retop_*] - the components of [Master] for the modified state;
    - StaleInv4-5: [step_stale_cases], [step_stale_Master], [RunOKS], [run_stale_Master];
    - StaleInv6: C01, C02 for stale runs;
    - StaleInv7-10: [gstep_stale], [LinInv2] / [LdTyped] for stale runs, C03, C12;
    - StaleInvEx, StaleInvEx2: a checker for [RunOKS] and an example run. *)
From ASModel Require Import Base State Step Run Gen AccDefs Acc Safe Main LinDefs Lin1 Lin.
From ASModel Require Export Stale StaleInv1 StaleInv2 StaleInv3 StaleInv4 StaleInv5 StaleInv6
  StaleInv7 StaleInv8 StaleInv9 StaleInv10 StaleInvEx StaleInvEx2.

Check stale_ok.
Check step_stale_Master
  : forall cf s t x, GenBound s -> ProgOK s -> alloc_ok s t x -> stale_ok s t x -> Master s ->
                     Master (fst (step_stale cf s t x)).
Check run_stale_Master
  : forall cf inits progs sched, RunOKS cf inits progs sched ->
      forall k, Master (StS cf (init_state inits progs) sched k).
Check C01_no_use_after_free_stale.
Check C02_accounting_stale
  : forall cf inits progs sched, RunOKS cf inits progs sched ->
      AccDefs.Acc (run_state_stale cf (init_state inits progs) sched).
Check C03_load_linearizable_stale.
Check C12_load_own_container_stale.
Check RunOKS_example.

Print Assumptions step_stale_Master.
Print Assumptions run_stale_Master_gen.
Print Assumptions run_stale_Master.
Print Assumptions C01_no_use_after_free_stale.
Print Assumptions C01_no_fault_stale_prefix.
Print Assumptions C02_accounting_stale.
Print Assumptions C02_quiescent_counts_stale.
Print Assumptions C02_no_owner_destroyed_stale.
Print Assumptions gstep_stale_LinAll.
Print Assumptions load_returns_fresh_stale.
Print Assumptions lt_sound_stale.
Print Assumptions C03_load_linearizable_stale.
Print Assumptions C12_load_own_container_stale.
Print Assumptions RunOKS_example.
Print Assumptions sx_Quiescent.
Print Assumptions sx_NoFault.
Print Assumptions sx_load_linearizable.
