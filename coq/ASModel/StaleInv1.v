(** * ASModel.StaleInv1 — replacing the value carried by the top frame [LAscan]/[LA1d] of one
    thread: the state [retop s t p'] and the first group of invariants that do not see the
    difference ([WF2], [Quiet], [CtlFresh], [NoFault], [Typed], [ValOK], [CloneCmd]). *)
From Coq Require Import Lia.
From ASModel Require Import Base State Orderings_gen Step Run Progress Hist Inv InvTl InvProto InvStep Sum StepCases.
From ASModel Require Import GenDefs Gen1 Gen2 EnvDefs Env4 Typed1 Typed Safe1 Safe8 Stale.

(** Two frames of the fast path that differ only in the value read first. *)
Inductive twin : pc -> pc -> Prop :=
| tw_scan c v v' i : twin (LAscan c v i) (LAscan c v' i)
| tw_dbg c v v' : twin (LA1d c v) (LA1d c v').

#[local] Set Default Proof Using "All".

(** [s'] is [s] except that the top frame [p] of thread [t] is replaced by its twin [p'].  (The
    thread map of [s'] is characterised pointwise: no functional extensionality is needed.) *)
Section Retop.
Variables (s : state) (t : N) (p p' : pc) (rest : list pc) (thr' : N -> thread).
Hypothesis Hs : t_stack (thr s t) = p :: rest.
Hypothesis Htw : twin p p'.
Hypothesis Hsame : thr' t = mkThread (p' :: rest) (t_loc (thr s t)) (t_prog (thr s t)) (t_cmdi (thr s t)) (t_status (thr s t)).
Hypothesis Hoth : forall t', t' <> t -> thr' t' = thr s t'.

Local Notation s' := (mkState (sh s) thr' (hnd s)).

Lemma retop_same : thr s' t = mkThread (p' :: rest) (t_loc (thr s t)) (t_prog (thr s t)) (t_cmdi (thr s t)) (t_status (thr s t)).
Proof. exact Hsame. Qed.

Lemma retop_other t' : t' <> t -> thr s' t' = thr s t'.
Proof. exact (Hoth t'). Qed.

Lemma retop_stack : t_stack (thr s' t) = p' :: rest.
Proof. rewrite retop_same. reflexivity. Qed.
Lemma retop_loc t' : t_loc (thr s' t') = t_loc (thr s t').
Proof. destruct (N.eq_dec t' t) as [->|H]; [rewrite retop_same; reflexivity|rewrite retop_other by exact H; reflexivity]. Qed.
Lemma retop_status t' : t_status (thr s' t') = t_status (thr s t').
Proof. destruct (N.eq_dec t' t) as [->|H]; [rewrite retop_same; reflexivity|rewrite retop_other by exact H; reflexivity]. Qed.
Lemma retop_prog t' : t_prog (thr s' t') = t_prog (thr s t').
Proof. destruct (N.eq_dec t' t) as [->|H]; [rewrite retop_same; reflexivity|rewrite retop_other by exact H; reflexivity]. Qed.
Lemma retop_cmdi t' : t_cmdi (thr s' t') = t_cmdi (thr s t').
Proof. destruct (N.eq_dec t' t) as [->|H]; [rewrite retop_same; reflexivity|rewrite retop_other by exact H; reflexivity]. Qed.

(** A property of one thread that does not see the difference. *)
Lemma retop_thread (F : thread -> Prop) :
  (forall l pr ci st, F (mkThread (p :: rest) l pr ci st) -> F (mkThread (p' :: rest) l pr ci st)) ->
  forall t', F (thr s t') -> F (thr s' t').
Proof.
  intros HF t' H. destruct (N.eq_dec t' t) as [->|Hne]; [|rewrite retop_other by exact Hne; exact H].
  rewrite retop_same. apply HF. destruct (thr s t) as [stk l pr ci st]. cbn in Hs. subst stk. exact H.
Qed.

(** A function of one thread that does not see the difference. *)
Lemma retop_fun {A} (F : thread -> A) :
  (forall l pr ci st, F (mkThread (p' :: rest) l pr ci st) = F (mkThread (p :: rest) l pr ci st)) ->
  forall t', F (thr s' t') = F (thr s t').
Proof.
  intros HF t'. destruct (N.eq_dec t' t) as [->|Hne]; [|rewrite retop_other by exact Hne; reflexivity].
  rewrite retop_same, HF. destruct (thr s t) as [stk l pr ci st]. cbn in Hs. subst stk. reflexivity.
Qed.

Lemma retop_holder t' : holder (thr s' t') = holder (thr s t').
Proof. apply retop_fun. intros. destruct Htw; reflexivity. Qed.

(** Frames of the new stack: the new top or a frame of the old stack (not its top). *)
Lemma retop_in t' f : In f (t_stack (thr s' t')) -> (t' = t /\ f = p') \/ (In f (t_stack (thr s t')) /\ (t' = t -> In f rest)).
Proof.
  destruct (N.eq_dec t' t) as [->|Hne].
  - rewrite retop_stack, Hs. intros [<-|H]; [left; auto|right; split; [right; exact H|intros _; exact H]].
  - rewrite retop_other by exact Hne. intros H. right. split; [exact H|contradiction].
Qed.

Lemma retop_nn : nn s' = nn s. Proof. reflexivity. Qed.

(** ** [WF2] *)
Lemma retop_WF2 : WF2 s -> WF2 s'.
Proof.
  intros W. constructor.
  - intros t'. rewrite retop_status, retop_loc. intros Hr. pose proof (w_thr _ W t' Hr) as H. revert H.
    apply (retop_thread (fun th => stk_ok (nn s) (t_loc (thr s t')) (t_stack th))). cbn.
    intros _ _ _ _ [H1 H2]. inversion H2 as [|? ? Hp Hrest]; subst.
    destruct Htw; (split; [exact H1|constructor; [exact Hp|exact Hrest]]).
  - intros t' n. rewrite retop_holder. apply (w_lt _ W).
  - intros t1 t2 n. rewrite !retop_holder. apply (w_uniq _ W).
  - intros n Hn. rewrite (w_inuse _ W n Hn). split; intros [t' H]; exists t'; [rewrite retop_holder|rewrite retop_holder in H]; exact H.
  - intros t' n. rewrite retop_status, retop_holder, retop_loc. intros Hr Hh. pose proof (w_top _ W t' n Hr Hh) as H. revert H.
    apply (retop_thread (fun th => top_ok (nn s) (mem (sh s)) (t_loc (thr s t')) n (hd_error (t_stack th)))). cbn.
    intros _ _ _ _. destruct Htw; exact (fun H => H).
  - intros n Hn Hno. apply (w_unowned _ W n Hn). intros t'. rewrite <- retop_holder. apply Hno.
  - apply (w_ctl _ W).
  - apply (w_off _ W).
Qed.

(** ** [Quiet] *)
Lemma retop_Quiet : Quiet s -> Quiet s'.
Proof.
  intros Q. apply (Quiet_upd s s' t Q).
  - intros t' H. apply retop_other. exact H.
  - rewrite retop_status, retop_loc. intros Hr. destruct (q_stop _ Q t Hr) as [E _]. rewrite Hs in E. discriminate.
  - rewrite retop_stack. pose proof (q_bl _ Q t) as H. rewrite Hs in H. destruct Htw; exact H.
  - unfold exit_shape. rewrite retop_stack, retop_loc. pose proof (q_exit _ Q t) as H. unfold exit_shape in H. rewrite Hs in H.
    intros Hin. assert (Hin' : In WThreadExit (p :: rest)).
    { destruct Hin as [E|Hin]; [destruct Htw; discriminate E|right; exact Hin]. }
    destruct (H Hin') as (_ & q & [= -> ->] & Hc). destruct Htw; discriminate Hc.
Qed.

Lemma retop_CtlFresh : CtlFresh s -> CtlFresh s'.
Proof. intros F. exact F. Qed.

Lemma retop_NoFault : NoFault s -> NoFault s'.
Proof. intros H t'. rewrite retop_status. apply H. Qed.

Lemma retop_Typed : Typed s -> Typed s'.
Proof.
  intros T t'. rewrite retop_status. intros Hr. pose proof (T t' Hr) as H. revert H.
  apply (retop_thread (fun th => typed_stack (t_stack th) = true)). cbn. intros _ _ _ _. destruct Htw; exact (fun H => H).
Qed.

Lemma retop_CloneCmd : CloneCmd s -> CloneCmd s'.
Proof.
  intros C t' a Hin. rewrite retop_prog, retop_cmdi. apply (C t' a).
  destruct (retop_in _ _ Hin) as [[_ E]|[H _]]; [destruct Htw; discriminate E|exact H].
Qed.
End Retop.
