(** * ASModel.StaleInv4 — the master invariant survives a stale first read: [step_stale_Master]. *)
From Coq Require Import Lia.
From ASModel Require Import Base State Orderings_gen Step Run Progress Hist Inv InvTl InvProto InvStep Sum StepCases.
From ASModel Require Import GenDefs Gen1 Gen2 Gen EnvDefs Env4 Env AccDefs Acc ProtDefs Prot11 Typed Safe1 Safe2 Safe8 Safe Main.
From ASModel Require Import Stale StaleInv1 StaleInv2 StaleInv3.

(** The value supplied for a stale first read is not the empty-slot marker (values that the
    storage really held satisfy this: [ValOK]). *)
Definition stale_ok (s : state) (t x : N) : Prop :=
  match t_stack (thr s t) with
  | LA1 _ :: _ => 2 <= x -> x - 2 <> NONE
  | _ => True
  end.

Lemma Master_retop s t p p' rest thr' :
  t_stack (thr s t) = p :: rest -> twin p p' -> pc_vok p' = true ->
  thr' t = mkThread (p' :: rest) (t_loc (thr s t)) (t_prog (thr s t)) (t_cmdi (thr s t)) (t_status (thr s t)) ->
  (forall t', t' <> t -> thr' t' = thr s t') ->
  Master s -> Master (mkState (sh s) thr' (hnd s)).
Proof.
  intros Hs Htw Hv Hsame Hoth [W Q G E C A P T V CC NF]. constructor.
  - eapply retop_WF2; eassumption.
  - eapply retop_Quiet; eassumption.
  - eapply retop_GenInv; eassumption.
  - eapply retop_EnvInv; eassumption.
  - exact C.
  - eapply retop_AccInv; eassumption.
  - eapply retop_ProtInv'; eassumption.
  - eapply retop_Typed; eassumption.
  - eapply retop_ValOK; eassumption.
  - eapply retop_CloneCmd; eassumption.
  - eapply retop_NoFault; eassumption.
Qed.

Lemma exec_LA1 cf s l c x :
  exec cf s l (LA1 c) x =
    (s, l, [EvAcc (LStore c) OLoad (fst o_attempt_first) (snd o_attempt_first) (mem s (LStore c)) (mem s (LStore c)) true],
     match tl_node l with
     | None => NPanic PExpectNode
     | Some _ => if cf_debug cf then NGoto (LA1d c (mem s (LStore c))) else NGoto (LAscan c (mem s (LStore c)) 0)
     end).
Proof. cbn. destruct (tl_node l); reflexivity. Qed.

(** The shape of a stale step: it is the normal step, or the normal step followed by the
    replacement of the value in the new top frame. *)
Inductive stale_shape (cf : config) (s : state) (t x : N) : Prop :=
| sts_same : fst (step_stale cf s t x) = fst (step cf s t x) -> stale_shape cf s t x
| sts_stale c rest p p' thr' :
    t_status (thr s t) = Running -> t_stack (thr s t) = LA1 c :: rest -> 2 <= x ->
    t_stack (thr (fst (step cf s t x)) t) = p :: rest -> twin p p' ->
    p' = (if cf_debug cf then LA1d c (x - 2) else LAscan c (x - 2) 0) ->
    thr' t = mkThread (p' :: rest) (t_loc (thr (fst (step cf s t x)) t)) (t_prog (thr (fst (step cf s t x)) t))
                      (t_cmdi (thr (fst (step cf s t x)) t)) (t_status (thr (fst (step cf s t x)) t)) ->
    (forall t', t' <> t -> thr' t' = thr (fst (step cf s t x)) t') ->
    fst (step_stale cf s t x) = mkState (sh (fst (step cf s t x))) thr' (hnd (fst (step cf s t x))) ->
    stale_shape cf s t x.

Lemma step_stale_cases cf s t x : stale_shape cf s t x.
Proof.
  destruct (t_status (thr s t)) eqn:Hr; try (apply sts_same; unfold step_stale; rewrite Hr; reflexivity).
  destruct (t_stack (thr s t)) as [|p rest] eqn:Hst; [apply sts_same; unfold step_stale; rewrite Hr, Hst; reflexivity|].
  destruct p; try (apply sts_same; unfold step_stale; rewrite Hr, Hst; reflexivity).
  destruct (2 <=? x) eqn:Hx; [|apply sts_same; unfold step_stale; rewrite Hr, Hst, Hx; reflexivity].
  apply N.leb_le in Hx.
  assert (En : step cf s t x = finish cf s t (thr s t) (sh s) (t_loc (thr s t)) rest
                 [EvAcc (LStore c) OLoad (fst o_attempt_first) (snd o_attempt_first) (mem (sh s) (LStore c)) (mem (sh s) (LStore c)) true]
                 match tl_node (t_loc (thr s t)) with
                 | None => NPanic PExpectNode
                 | Some _ => if cf_debug cf then NGoto (LA1d c (mem (sh s) (LStore c))) else NGoto (LAscan c (mem (sh s) (LStore c)) 0)
                 end).
  { unfold step. rewrite Hr, Hst, exec_LA1. reflexivity. }
  assert (Es : step_stale cf s t x =
               (let '(s_sh, l, evs, nx) := stale_exec cf (sh s) (t_loc (thr s t)) c (x - 2) in
                finish cf s t (thr s t) s_sh l rest evs nx)).
  { unfold step_stale. rewrite Hr, Hst. apply N.leb_le in Hx. rewrite Hx. reflexivity. }
  unfold stale_exec in Es.
  destruct (tl_node (t_loc (thr s t))) as [n|] eqn:Hn.
  - eapply (sts_stale cf s t x c rest
              (if cf_debug cf then LA1d c (mem (sh s) (LStore c)) else LAscan c (mem (sh s) (LStore c)) 0)
              (if cf_debug cf then LA1d c (x - 2) else LAscan c (x - 2) 0)
              (thr (fst (step_stale cf s t x)))); try assumption; try reflexivity.
    + rewrite En. destruct (cf_debug cf); cbn; rewrite upd_same; reflexivity.
    + destruct (cf_debug cf); constructor.
    + rewrite Es, En. destruct (cf_debug cf); cbn; rewrite !upd_same; reflexivity.
    + intros t' Hne. rewrite Es, En. destruct (cf_debug cf); cbn; rewrite !upd_other by exact Hne; reflexivity.
    + rewrite Es, En. destruct (cf_debug cf); reflexivity.
  - apply sts_same. rewrite Es, En. reflexivity.
Qed.
