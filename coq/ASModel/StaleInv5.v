(** * ASModel.StaleInv5 — runs with stale first reads: [Master] in every state, C01 and C02. *)
From Coq Require Import Lia.
From ASModel Require Import Base State Orderings_gen Step Run Progress Hist Inv InvTl InvProto InvStep Sum StepCases.
From ASModel Require Import GenDefs Gen1 Gen2 Gen EnvDefs Env4 Env AccDefs Acc ProtDefs Prot11 Typed Safe1 Safe2 Safe8 Safe Main.
From ASModel Require Import Lin Stale StaleInv1 StaleInv2 StaleInv3 StaleInv4.

Theorem step_stale_Master cf s t x :
  GenBound s -> ProgOK s -> alloc_ok s t x -> stale_ok s t x -> Master s -> Master (fst (step_stale cf s t x)).
Proof.
  intros GB PO AO SO M. pose proof (step_Master cf s t x GB PO AO M) as Mn.
  destruct (step_stale_cases cf s t x) as [E|c rest p p' thr' Hr Hst Hx Hsn Htw Ep' Hsame Hoth E]; rewrite E; [exact Mn|].
  eapply Master_retop; try eassumption.
  subst p'. unfold stale_ok in SO. rewrite Hst in SO. specialize (SO Hx).
  destruct (cf_debug cf); cbn; unfold av; rewrite Bool.negb_true_iff, N.eqb_neq; exact SO.
Qed.

(** Programs are not changed by a step. *)
Lemma step_stale_prog cf s t x t' : t_prog (thr (fst (step_stale cf s t x)) t') = t_prog (thr s t').
Proof.
  destruct (step_stale_cases cf s t x) as [E|c rest p p' thr' Hr Hst Hx Hsn Htw Ep' Hsame Hoth E]; rewrite E; [apply step_prog|].
  cbn. destruct (N.eq_dec t' t) as [->|Hne]; [rewrite Hsame; cbn|rewrite Hoth by exact Hne]; apply step_prog.
Qed.

(** A stale read emits no fault event of its own. *)
Lemma step_stale_fault_event cf s t x f :
  In (EvFault f) (snd (step_stale cf s t x)) -> In (EvFault f) (snd (step cf s t x)).
Proof.
  unfold step_stale. destruct (t_status (thr s t)); try exact (fun H => H).
  destruct (t_stack (thr s t)) as [|p rest]; [exact (fun H => H)|]. destruct p; try exact (fun H => H).
  destruct (2 <=? x); [|exact (fun H => H)].
  unfold stale_exec. destruct (tl_node (t_loc (thr s t))); [destruct (cf_debug cf)|]; cbn; intros H; exfalso; intuition discriminate.
Qed.

(** ** Runs *)
Definition StS (cf : config) (s0 : state) (sched : list (N * N)) (k : nat) : state :=
  run_state_stale cf s0 (firstn k sched).

Lemma run_state_stale_snoc cf s sched t x :
  run_state_stale cf s (sched ++ [(t, x)]) = fst (step_stale cf (run_state_stale cf s sched) t x).
Proof. unfold run_state_stale. rewrite fold_left_app. reflexivity. Qed.

Lemma run_state_stale_cons cf s t x sched :
  run_state_stale cf s ((t, x) :: sched) = run_state_stale cf (fst (step_stale cf s t x)) sched.
Proof. reflexivity. Qed.

Lemma StS_step cf s0 sched k t x :
  nth_error sched k = Some (t, x) -> StS cf s0 sched (S k) = fst (step_stale cf (StS cf s0 sched k) t x).
Proof. intros H. unfold StS. rewrite (firstn_succ_nth _ _ _ H), run_state_stale_snoc. reflexivity. Qed.

Lemma StS_end cf s0 sched k : nth_error sched k = None -> StS cf s0 sched (S k) = StS cf s0 sched k.
Proof. intros H. apply nth_error_None in H. unfold StS. rewrite !firstn_all2 by lia. reflexivity. Qed.

Lemma StS_all cf s0 sched : StS cf s0 sched (length sched) = run_state_stale cf s0 sched.
Proof. unfold StS. rewrite firstn_all. reflexivity. Qed.

Theorem run_stale_Master_gen cf s0 sched :
  Master s0 ->
  (forall k, GenBound (StS cf s0 sched k) /\ ProgOK (StS cf s0 sched k)) ->
  (forall k t x, nth_error sched k = Some (t, x) ->
                 alloc_ok (StS cf s0 sched k) t x /\ stale_ok (StS cf s0 sched k) t x) ->
  forall k, Master (StS cf s0 sched k).
Proof.
  intros M0 Hh Ha. induction k as [|k IH]; [exact M0|].
  destruct (nth_error sched k) as [[t x]|] eqn:Hk.
  - rewrite (StS_step _ _ _ _ _ _ Hk). destruct (Hh k) as [GB PO]. destruct (Ha k t x Hk) as [AO SO].
    apply step_stale_Master; assumption.
  - rewrite (StS_end _ _ _ _ Hk). exact IH.
Qed.

(** ** Runs from an initial state: [RunOK] (Main) for stale runs *)
Record RunOKS (cf : config) (inits : list N) (progs : list (list cmd)) (sched : list (N * N)) : Prop := {
  ros_inits : inits_ok inits;
  ros_progs : progs_ok progs;
  ros_state : forall k, let s := StS cf (init_state inits progs) sched k in
                        GenBound s /\ DstEmpty s /\ CloneSrcCmd s;
  ros_alloc : forall k t x, nth_error sched k = Some (t, x) ->
                            alloc_ok (StS cf (init_state inits progs) sched k) t x;
  ros_stale : forall k t x, nth_error sched k = Some (t, x) ->
                            stale_ok (StS cf (init_state inits progs) sched k) t x;
}.

Lemma run_state_stale_prog cf : forall sched s t', t_prog (thr (run_state_stale cf s sched) t') = t_prog (thr s t').
Proof.
  induction sched as [|[t x] sched IH]; intros s t'; [reflexivity|].
  rewrite run_state_stale_cons, IH. apply step_stale_prog.
Qed.

Lemma RunOKS_ProgOK cf inits progs sched :
  RunOKS cf inits progs sched -> forall k, ProgOK (StS cf (init_state inits progs) sched k).
Proof.
  intros [Hi [Hg Hc] Hs _ _] k. destruct (Hs k) as (_ & DE & CS). split; [|split; [|split]]; try assumption.
  - intros t g. unfold StS. rewrite run_state_stale_prog. apply (NoSetGen_init inits progs Hg).
  - intros t c. unfold StS. rewrite run_state_stale_prog. apply (NoCacheP_init inits progs Hc).
Qed.

Theorem run_stale_Master cf inits progs sched :
  RunOKS cf inits progs sched -> forall k, Master (StS cf (init_state inits progs) sched k).
Proof.
  intros R. apply run_stale_Master_gen.
  - apply Master_init; apply R.
  - intros k. split; [apply (ros_state _ _ _ _ R k)|apply RunOKS_ProgOK; exact R].
  - intros k t x Hk. split; [apply (ros_alloc _ _ _ _ R k t x Hk)|apply (ros_stale _ _ _ _ R k t x Hk)].
Qed.

Corollary run_stale_Master_end cf inits progs sched :
  RunOKS cf inits progs sched -> Master (run_state_stale cf (init_state inits progs) sched).
Proof. intros R. rewrite <- StS_all. apply run_stale_Master. exact R. Qed.
