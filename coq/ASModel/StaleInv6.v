(** * ASModel.StaleInv6 — C01 (no use after free) and C02 (exact accounting) for runs in which
    the first read of the fast path may return a stale value. *)
From Coq Require Import Lia.
From ASModel Require Import Base State Orderings_gen Step Run Progress Hist Inv InvTl InvProto InvStep Sum StepCases.
From ASModel Require Import GenDefs Gen1 Gen2 Gen EnvDefs Env4 Env AccDefs Acc ProtDefs Prot11 Typed Safe1 Safe2 Safe8 Safe Main.
From ASModel Require Import Stale StaleInv1 StaleInv2 StaleInv3 StaleInv4 StaleInv5.

Lemma run_stale_events cf (P : list event -> Prop) : forall sched s,
  (forall k t x, nth_error sched k = Some (t, x) -> P (snd (step_stale cf (StS cf s sched k) t x))) ->
  forall te, In te (snd (run_stale cf s sched)) -> P (snd te).
Proof.
  induction sched as [|[t x] sched IH]; intros s H te; [intros []|].
  cbn [run_stale]. pose proof (H 0%nat t x eq_refl) as H0. unfold StS in H0. cbn in H0.
  destruct (step_stale cf s t x) as [s1 evs] eqn:Hs. specialize (IH s1).
  destruct (run_stale cf s1 sched) as [s2 tr]. cbn [snd] in *.
  intros [<-|Hin]; [exact H0|]. apply IH; [|exact Hin].
  intros k t' x' Hk. specialize (H (S k) t' x' Hk). unfold StS in *. cbn [firstn] in H.
  rewrite run_state_stale_cons, Hs in H. exact H.
Qed.

Lemma run_stale_fst cf : forall sched s, fst (run_stale cf s sched) = run_state_stale cf s sched.
Proof.
  induction sched as [|[t x] sched IH]; intros s; [reflexivity|].
  cbn [run_stale]. rewrite run_state_stale_cons. destruct (step_stale cf s t x) as [s1 evs] eqn:Hs. cbn [fst].
  rewrite <- IH. destruct (run_stale cf s1 sched). reflexivity.
Qed.

Theorem step_stale_no_dead_event cf s t x f :
  Master s -> ProgOK s -> dead_fault f -> ~ In (EvFault f) (snd (step_stale cf s t x)).
Proof.
  intros M PO Hf Hin. apply step_stale_fault_event in Hin. exact (step_no_dead_event cf s t x f M PO Hf Hin).
Qed.

(** ** C01: no thread ever faults and no count access ever finds its object destroyed *)
Theorem C01_no_use_after_free_stale cf inits progs sched :
  RunOKS cf inits progs sched ->
  NoFault (run_state_stale cf (init_state inits progs) sched) /\
  forall te, In te (snd (run_stale cf (init_state inits progs) sched)) ->
    forall a, ~ In (EvFault (FDeadInc a)) (snd te) /\ ~ In (EvFault (FDeadDec a)) (snd te).
Proof.
  intros R. split; [apply (run_stale_Master_end _ _ _ _ R)|].
  apply (run_stale_events cf (fun evs => forall a, ~ In (EvFault (FDeadInc a)) evs /\ ~ In (EvFault (FDeadDec a)) evs)).
  intros k t x Hk a.
  pose proof (run_stale_Master _ _ _ _ R k) as M. pose proof (RunOKS_ProgOK _ _ _ _ R k) as PO.
  split; apply step_stale_no_dead_event; try assumption; exists a; auto.
Qed.

(** In every state of the run (not only the last one). *)
Corollary C01_no_fault_stale_prefix cf inits progs sched k :
  RunOKS cf inits progs sched -> NoFault (StS cf (init_state inits progs) sched k).
Proof. intros R. apply (run_stale_Master _ _ _ _ R k). Qed.

(** ** C02: exact accounting *)
Theorem C02_accounting_stale cf inits progs sched :
  RunOKS cf inits progs sched -> Acc (run_state_stale cf (init_state inits progs) sched).
Proof. intros R. apply ai_acc. apply m_acc. apply run_stale_Master_end. exact R. Qed.

Theorem C02_quiescent_counts_stale cf inits progs sched a :
  RunOKS cf inits progs sched ->
  let s := run_state_stale cf (init_state inits progs) sched in
  Quiescent s -> valid a ->
  exists nS nC nH,
    Total (fun ij : N * N => is a (mem (sh s) (LSlot (fst ij) (snd ij)))) nS /\
    Total (fun c : N => is a (mem (sh s) (LStore c))) nC /\
    Total (fun h : N => href a (hnd s h)) nH /\
    mem (sh s) (LCount a) + nS = nC + nH.
Proof.
  intros R s Hq Ha. pose proof (run_stale_Master_end _ _ _ _ R) as M.
  apply quiescent_counts; [apply M|apply M|apply M|exact Hq|exact Ha].
Qed.

Theorem C02_no_owner_destroyed_stale cf inits progs sched a :
  RunOKS cf inits progs sched ->
  let s := run_state_stale cf (init_state inits progs) sched in
  Quiescent s -> valid a ->
  (forall c, mem (sh s) (LStore c) <> a) -> (forall h, href a (hnd s h) = 0) ->
  mem (sh s) (LCount a) = 0 /\ heap (sh s) a = None /\ forall n j, mem (sh s) (LSlot n j) <> a.
Proof.
  intros R s Hq Ha Hc Hh. pose proof (run_stale_Master_end _ _ _ _ R) as M.
  apply no_owner_destroyed; [apply M|apply M|apply M|exact Hq|exact Ha|exact Hc|exact Hh].
Qed.

Print Assumptions step_stale_Master.
Print Assumptions run_stale_Master.
Print Assumptions C01_no_use_after_free_stale.
Print Assumptions C02_accounting_stale.
Print Assumptions C02_quiescent_counts_stale.
Print Assumptions C02_no_owner_destroyed_stale.
