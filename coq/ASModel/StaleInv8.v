(** * ASModel.StaleInv8 — instrumented steps with stale first reads ([gstep_stale], defined as
    [LinDefs.gstep] over [step_stale]); [LinInv2] and [LdTyped] are preserved; the completing step
    of a load returns a value that is fresh ([load_returns_fresh_stale]). *)
From Coq Require Import Lia.
From ASModel Require Import Base State Orderings_gen Step Run Progress Hist Inv InvTl InvProto InvStep Sum StepCases.
From ASModel Require Import GenDefs Gen1 Gen2 Gen EnvDefs Env4 Env AccDefs Acc ProtDefs Prot11 Typed Safe1 Safe2 Safe8 Safe.
From ASModel Require Import LinDefs Lin1 Lin2 Lin14 Lin Main.
From ASModel Require Import Stale StaleInv1 StaleInv2 StaleInv3 StaleInv4 StaleInv5 StaleInv7.

Definition gstep_stale (cf : config) (sg : state * ghost) (t x : N) : state * ghost :=
  let '(s, g) := sg in
  let s' := fst (step_stale cf s t x) in
  let now' := S (g_now g) in
  (s',
   mkGhost now'
     (fun c v => if mem (sh s') (LStore c) =? v then now' else g_lt g c v)
     (fun t' => if (t' =? t) && starts_now s t then now' else g_start g t')
     (fun n => match publishes_now s t with
               | Some n' => if n =? n' then now' else g_pub g n
               | None => g_pub g n
               end)).

Definition grun_stale (cf : config) (sg : state * ghost) (sched : list (N * N)) : state * ghost :=
  fold_left (fun sg tx => gstep_stale cf sg (fst tx) (snd tx)) sched sg.

(** A stale read changes no shared location and no handle. *)
Lemma step_stale_sh cf s t x : sh (fst (step_stale cf s t x)) = sh (fst (step cf s t x)).
Proof.
  destruct (step_stale_cases cf s t x) as [E|c rest p p' thr' Hr Hst Hx Hsn Htw Ep' Hsame Hoth E]; rewrite E; reflexivity.
Qed.

Lemma step_stale_hnd cf s t x : hnd (fst (step_stale cf s t x)) = hnd (fst (step cf s t x)).
Proof.
  destruct (step_stale_cases cf s t x) as [E|c rest p p' thr' Hr Hst Hx Hsn Htw Ep' Hsame Hoth E]; rewrite E; reflexivity.
Qed.

Lemma step_stale_other cf s t x t' : t' <> t -> thr (fst (step_stale cf s t x)) t' = thr s t'.
Proof.
  intros Hne.
  destruct (step_stale_cases cf s t x) as [E|c rest p p' thr' Hr Hst Hx Hsn Htw Ep' Hsame Hoth E]; rewrite E.
  - apply step_status_other. exact Hne.
  - cbn. rewrite Hoth by exact Hne. apply step_status_other. exact Hne.
Qed.

Lemma gstep_stale_fst cf s g t x : fst (gstep_stale cf (s, g) t x) = fst (step_stale cf s t x).
Proof. reflexivity. Qed.

(** The ghost state does not see the difference. *)
Lemma gstep_stale_snd cf s g t x : snd (gstep_stale cf (s, g) t x) = snd (gstep cf (s, g) t x).
Proof. unfold gstep_stale, gstep. cbn [snd]. rewrite step_stale_sh. reflexivity. Qed.

(** ** The invariants of instrumented states *)
Record LinAll (s : state) (g : ghost) : Prop := {
  la_master : Master s;
  la_lin : LinInv2 s g;
  la_typed : LdTyped s;
}.

Lemma Master_Calm s : GenBound s -> ProgOK s -> Calm s.
Proof. intros GB (NS & _). apply Calm_split. split; assumption. Qed.

Theorem gstep_stale_LinAll cf s g t x :
  GenBound s -> ProgOK s -> alloc_ok s t x -> stale_ok s t x -> LinAll s g ->
  LinAll (fst (gstep_stale cf (s, g) t x)) (snd (gstep_stale cf (s, g) t x)).
Proof.
  intros GB PO AO SO [M LI LT].
  pose proof (step_Master cf s t x GB PO AO M) as Mn.
  pose proof (Master_EnvInvQ s M) as EQ.
  assert (LIn : LinInv2 (fst (step cf s t x)) (snd (gstep cf (s, g) t x))).
  { apply (gstep_LinInv2 cf s g t x); [apply M|apply Master_Calm; assumption|apply M|apply M
      |apply EnvInvQ_EnvFree; exact EQ|apply EnvInvQ_EnvA; exact EQ|exact LI|apply Mn]. }
  assert (LTn : LdTyped (fst (step cf s t x))) by (apply step_LdTyped; [apply M|apply Mn|exact LT]).
  rewrite gstep_stale_fst, gstep_stale_snd. constructor.
  - apply step_stale_Master; assumption.
  - destruct (step_stale_cases cf s t x) as [E|c rest p p' thr' Hr Hst Hx Hsn Htw Ep' Hsame Hoth E]; rewrite E; [exact LIn|].
    eapply retop_LinInv2; eassumption.
  - destruct (step_stale_cases cf s t x) as [E|c rest p p' thr' Hr Hst Hx Hsn Htw Ep' Hsame Hoth E]; rewrite E; [exact LTn|].
    eapply retop_LdTyped; eassumption.
Qed.

(** ** The step that completes a load: it is never a stale read *)
Theorem load_returns_fresh_stale cf s g t x cm c h :
  GenBound s -> ProgOK s -> alloc_ok s t x -> LinAll s g ->
  cur_cmd s t = Some cm -> is_load_of cm c h ->
  t_cmdi (thr (fst (step_stale cf s t x)) t) = t_cmdi (thr s t) + 1 ->
  let s' := fst (step_stale cf s t x) in
  let g' := snd (gstep_stale cf (s, g) t x) in
  exists rv, hnd s' h = handle_of rv /\ g_start g' t = g_start g t /\
             (forall v, rval rv = Some v -> (g_lt g' c v >= g_start g' t)%nat) /\
             (forall K, load_kind cm = Some K -> kind_of rv = Some K).
Proof.
  intros GB PO AO [M LI LT] Hcm Hld Hci. cbn zeta. rewrite gstep_stale_snd, step_stale_hnd.
  pose proof (step_Master cf s t x GB PO AO M) as Mn.
  pose proof (Master_EnvInvQ s M) as EQ.
  assert (Hci' : t_cmdi (thr (fst (step cf s t x)) t) = t_cmdi (thr s t) + 1).
  { destruct (step_stale_cases cf s t x) as [E|c0 rest p p' thr' Hr Hst Hx Hsn Htw Ep' Hsame Hoth E]; rewrite E in Hci; [exact Hci|].
    cbn in Hci. rewrite Hsame in Hci. exact Hci. }
  destruct (load_returns_fresh cf s g t x cm c h (m_wf _ M) (Master_Calm s GB PO) (m_quiet _ M) (m_gen _ M)
              (EnvInvQ_EnvFree _ EQ) (EnvInvQ_EnvA _ EQ) LI (m_nofault _ Mn) Hcm Hld Hci') as (rv & H1 & H2 & H3 & H4 & H5).
  exists rv. split; [exact H1|]. split; [exact H3|]. split; [exact H4|]. intros K. apply H5. exact LT.
Qed.
