(** * ASModel.StaleInvEx — non-vacuity of [RunOKS] and an example run with a stale first read.

    [runoks_b] is a boolean checker with [runoks_b ... = true -> RunOKS ...] (as
    [RunOKEx.runok_b] for [RunOK]).  The example: the writer replaces the value 4096 of container
    0 by 4112 and destroys 4096; then the reader's FIRST read ([LA1]) is answered with 4096.  The
    reader publishes the stale address in its slot, the confirming read finds 4112, the reader
    withdraws the debt ([LA5]) and falls back to the helping path; it returns a guard on 4112. *)
From Coq Require Import Lia.
From ASModel Require Import Base State Orderings_gen Step Run Progress Hist Inv InvTl InvProto InvStep Sum StepCases.
From ASModel Require Import GenDefs Gen1 Gen2 Gen AccDefs Acc2 Acc Prot11 Safe1 Safe2 Safe8 Safe Scope Main RunOKEx.
From ASModel Require Import Stale StaleInv4 StaleInv5 StaleInv6 StaleInv8 StaleInv10.

Lemma step_stale_no_thread cf s t x t0 : thr s t0 = no_thread -> thr (fst (step_stale cf s t x)) t0 = no_thread.
Proof.
  intros H. destruct (N.eq_dec t0 t) as [->|Hne]; [|rewrite step_stale_other by exact Hne; exact H].
  unfold step_stale. rewrite H. cbn. apply step_no_thread. exact H.
Qed.

Lemma Beyond_step_stale cf n s t x : Beyond n s -> Beyond n (fst (step_stale cf s t x)).
Proof. intros H t0 Ht. apply step_stale_no_thread. apply H. exact Ht. Qed.

Lemma Beyond_run_stale cf n : forall sched s, Beyond n s -> Beyond n (run_state_stale cf s sched).
Proof.
  induction sched as [|[t x] sched IH]; intros s H; [exact H|].
  rewrite run_state_stale_cons. apply IH. apply Beyond_step_stale. exact H.
Qed.

Definition stale_b (s : state) (t x : N) : bool :=
  match t_stack (thr s t) with
  | LA1 _ :: _ => negb (2 <=? x) || negb (x - 2 =? NONE)
  | _ => true
  end.

Lemma stale_b_sound s t x : stale_b s t x = true -> stale_ok s t x.
Proof.
  unfold stale_b, stale_ok. destruct (t_stack (thr s t)) as [|p rest]; [intros _; exact I|].
  destruct p; try (intros _; exact I). intros H Hx. apply orb_true_iff in H as [H|H].
  - apply negb_true_iff, N.leb_gt in H. lia.
  - apply negb_true_iff, N.eqb_neq in H. exact H.
Qed.

Fixpoint runs_b (cf : config) (n : nat) (s : state) (sched : list (N * N)) : bool :=
  scope_state n s &&
  match sched with
  | [] => true
  | (t, x) :: rest => scope_alloc s t x && stale_b s t x && runs_b cf n (fst (step_stale cf s t x)) rest
  end.

Lemma StS_nil cf s k : StS cf s [] k = s.
Proof. unfold StS. rewrite firstn_nil. reflexivity. Qed.

Lemma StS_cons cf s t x sched k : StS cf s ((t, x) :: sched) (S k) = StS cf (fst (step_stale cf s t x)) sched k.
Proof. reflexivity. Qed.

Theorem runs_b_sound cf n : forall sched s, Beyond n s -> runs_b cf n s sched = true ->
  (forall k, GenBound (StS cf s sched k) /\ DstEmpty (StS cf s sched k) /\ CloneSrcCmd (StS cf s sched k)) /\
  (forall k t x, nth_error sched k = Some (t, x) -> alloc_ok (StS cf s sched k) t x /\ stale_ok (StS cf s sched k) t x).
Proof.
  induction sched as [|[t x] sched IH]; intros s B H; cbn [runs_b] in H; apply andb_true_iff in H as [Hs H].
  - split.
    + intros k. rewrite StS_nil. apply (scope_state_sound n); assumption.
    + intros [|k] t x Hk; discriminate Hk.
  - apply andb_true_iff in H as [Ha H]. apply andb_true_iff in Ha as [Ha Hst].
    destruct (IH _ (Beyond_step_stale cf n s t x B) H) as [IH1 IH2]. split.
    + intros [|k]; [apply (scope_state_sound n); assumption|]. rewrite StS_cons. apply IH1.
    + intros [|k] t' x' Hk.
      * injection Hk as <- <-. split; [apply scope_alloc_sound; exact Ha|apply stale_b_sound; exact Hst].
      * rewrite StS_cons. apply IH2. exact Hk.
Qed.

Definition runoks_b (cf : config) (inits : list N) (progs : list (list cmd)) (sched : list (N * N)) : bool :=
  inits_b inits && progs_b progs && runs_b cf (length progs) (init_state inits progs) sched.

Theorem runoks_b_sound cf inits progs sched : runoks_b cf inits progs sched = true -> RunOKS cf inits progs sched.
Proof.
  intros H. apply andb_true_iff in H as [H Hr]. apply andb_true_iff in H as [Hi Hp].
  destruct (runs_b_sound cf (length progs) sched _ (Beyond_init inits progs) Hr) as [H1 H2].
  constructor; [apply inits_b_sound; exact Hi|apply progs_b_sound; exact Hp|exact H1|intros; apply H2; assumption..].
Qed.

(** ** The example run *)
Definition sx_cf : config := mkConfig true true.
Definition sx_inits : list N := [4096].
Definition sx_progs : list (list cmd) := [[CLoad 0 1; CDrop 1]; [CNew 2; CStore 0 (SHandle 2)]].
(** The writer runs to completion (29 steps); the reader starts and reaches [LA1] (5 steps); its
    first read is answered with 4096 (choice 4096 + 2); it runs to completion (20 steps). *)
Definition sx_sched : list (N * N) := repeat (1, 4112) 29 ++ repeat (0, 0) 5 ++ [(0, 4098)] ++ repeat (0, 0) 20.
Definition sx_s0 : state := init_state sx_inits sx_progs.
Definition sx_St (k : nat) : state := StS sx_cf sx_s0 sx_sched k.
Definition sx_final : state := run_state_stale sx_cf sx_s0 sx_sched.

Example runoks_b_example : runoks_b sx_cf sx_inits sx_progs sx_sched = true.
Proof. vm_compute. reflexivity. Qed.

Example RunOKS_example : RunOKS sx_cf sx_inits sx_progs sx_sched.
Proof. apply runoks_b_sound. exact runoks_b_example. Qed.
