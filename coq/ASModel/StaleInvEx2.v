(** * ASModel.StaleInvEx2 — the example run of [StaleInvEx], step by step, and the end-to-end
    theorems applied to it. *)
From Coq Require Import Lia.
From ASModel Require Import Base State Orderings_gen Step Run Progress Hist Inv InvTl InvProto InvStep Sum StepCases.
From ASModel Require Import GenDefs Gen1 Gen2 Gen AccDefs Acc2 Acc Prot11 Safe1 Safe2 Safe8 Safe Scope Main RunOKEx.
From ASModel Require Import Stale StaleInv4 StaleInv5 StaleInv6 StaleInv8 StaleInv10 StaleInvEx.

(** Before the reader's first read the writer has replaced 4096 by 4112 AND destroyed 4096 ... *)
Example sx_before :
  t_stack (thr (sx_St 34) 0) = [LA1 0; KDone (Some 1)] /\
  nth_error sx_sched 34 = Some (0, 4098) /\
  mem (sh (sx_St 34)) (LStore 0) = 4112 /\
  heap (sh (sx_St 34)) 4096 = None /\ mem (sh (sx_St 34)) (LCount 4096) = 0 /\
  t_status (thr (sx_St 34) 1) = Exited.
Proof. vm_compute. repeat split; reflexivity. Qed.

(** ... the first read is answered with 4096; this is not a step of the SC model ... *)
Example sx_stale_read :
  hd_error (t_stack (thr (sx_St 35) 0)) = Some (LA1d 0 4096) /\
  hd_error (t_stack (thr (fst (step sx_cf (sx_St 34) 0 0)) 0)) = Some (LA1d 0 4112) /\
  snd (step_stale sx_cf (sx_St 34) 0 4098) = [EvAcc (LStore 0) OLoad (fst o_attempt_first) (snd o_attempt_first) 4096 4096 true].
Proof. vm_compute. repeat split; reflexivity. Qed.

(** ... the reader publishes the address of the destroyed object in slot (0, 0) ... *)
Example sx_published :
  hd_error (t_stack (thr (sx_St 37) 0)) = Some (LA3 0 4096 0) /\ mem (sh (sx_St 37)) (LSlot 0 0) = NONE /\
  hd_error (t_stack (thr (sx_St 38) 0)) = Some (LA4 0 4096 0) /\ mem (sh (sx_St 38)) (LSlot 0 0) = 4096 /\
  heap (sh (sx_St 38)) 4096 = None.
Proof. vm_compute. repeat split; reflexivity. Qed.

(** ... the confirmation fails ([LA4] -> [LA5]), the debt is withdrawn ([LA5]: the slot is empty
    again, no count was touched), and the reader falls back to the helping path ... *)
Example sx_withdrawn :
  hd_error (t_stack (thr (sx_St 39) 0)) = Some (LA5 0 4096 0) /\
  hd_error (t_stack (thr (sx_St 40) 0)) = Some (LH0d 0) /\ mem (sh (sx_St 40)) (LSlot 0 0) = NONE /\
  mem (sh (sx_St 40)) (LCount 4096) = 0 /\ mem (sh (sx_St 40)) (LCount 4112) = 1.
Proof. vm_compute. repeat split; reflexivity. Qed.

(** ... which returns a guard on the CURRENT value. *)
Example sx_loaded :
  hd_error (t_stack (thr (sx_St 44) 0)) = Some (LH3d 0 6 4112) /\
  hnd (sx_St 49) 1 = HGuard 4112 None /\ mem (sh (sx_St 49)) (LCount 4112) = 2.
Proof. vm_compute. repeat split; reflexivity. Qed.

(** Both threads run to the end; the final state is quiescent, no thread faulted. *)
Example sx_final_threads :
  thr sx_final 0 = mkThread [] (mkTl None 1 4 false 0) [CLoad 0 1; CDrop 1] 2 Exited /\
  t_stack (thr sx_final 1) = [] /\ t_status (thr sx_final 1) = Exited /\ t_cmdi (thr sx_final 1) = 2.
Proof. vm_compute. repeat split; reflexivity. Qed.

Example sx_Quiescent : Quiescent sx_final.
Proof.
  intros t. assert (H : t = 0 \/ t = 1 \/ N.of_nat (length sx_progs) <= t) by (cbn; lia).
  destruct H as [->|[->|H]].
  - vm_compute. reflexivity.
  - vm_compute. reflexivity.
  - unfold sx_final, sx_s0.
    rewrite (Beyond_run_stale sx_cf _ sx_sched _ (Beyond_init sx_inits sx_progs) t H). reflexivity.
Qed.

Example sx_final_values :
  mem (sh sx_final) (LStore 0) = 4112 /\ mem (sh sx_final) (LCount 4112) = 1 /\
  heap (sh sx_final) 4112 = Some 1 /\ mem (sh sx_final) (LCount 4096) = 0 /\ heap (sh sx_final) 4096 = None /\
  mem (sh sx_final) (LSlot 0 0) = NONE /\ hnd sx_final 1 = HEmpty /\ hnd sx_final 2 = HEmpty.
Proof. vm_compute. repeat split; reflexivity. Qed.

(** No event of the run is a fault. *)
Example sx_no_fault_event :
  forallb (fun te => forallb (fun e => match e with EvFault _ => false | _ => true end) (snd te))
          (snd (run_stale sx_cf sx_s0 sx_sched)) = true.
Proof. vm_compute. reflexivity. Qed.

(** ** The end-to-end theorems on this run *)
Example sx_Master : Master sx_final.
Proof. exact (run_stale_Master_end _ _ _ _ RunOKS_example). Qed.

Example sx_NoFault : NoFault sx_final.
Proof. exact (proj1 (C01_no_use_after_free_stale _ _ _ _ RunOKS_example)). Qed.

Example sx_Acc : Acc sx_final.
Proof. exact (C02_accounting_stale _ _ _ _ RunOKS_example). Qed.

(** C03 on the reader's [load]: it starts with step 29 and completes with step 48; the guard is
    on a value that the container held in between (not on the value read first). *)
Example sx_load_linearizable :
  exists v, (exists d, hnd (sx_St 49) 1 = HGuard v d) /\
    exists k, (30 <= k <= 49)%nat /\ mem (sh (sx_St k)) (LStore 0) = v.
Proof.
  apply (C03_load_linearizable_stale sx_cf sx_inits sx_progs sx_sched RunOKS_example
           0 0 (CLoad 0 1) 0 1 29%nat 48%nat 0 0 0).
  all: try (vm_compute; reflexivity).
  - left. reflexivity.
  - lia.
Qed.

Print Assumptions runoks_b_sound.
Print Assumptions RunOKS_example.
Print Assumptions sx_Quiescent.
Print Assumptions sx_NoFault.
Print Assumptions sx_Acc.
Print Assumptions sx_load_linearizable.
