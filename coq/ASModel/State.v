(** * ASModel.State — programs, program points, thread and global state. *)
From ASModel Require Import Base.

(** ** User programs (what the harness threads execute through the public API) *)
Inductive src := SNull | SHandle (h : N).
Inductive rcu_mode := RcuNew | RcuNull | RcuSame
| RcuPanicAt (k : N).   (* the closure allocates a new value on attempts < k and panics on attempt k *)

Inductive cmd :=
| CNew (h : N)                              (* allocate a fresh object, owned handle h *)
| CClone (h h2 : N)                         (* clone an owned handle (or a guard's inner pointer) *)
| CDrop (h : N)                             (* drop an owned handle, a guard or a cache *)
| CLoad (c h : N)                           (* ArcSwapAny::load -> guard h *)
| CLoadFull (c h : N)                       (* load_full -> owned h *)
| CGuardInto (h h2 : N)                     (* Guard::into_inner(h) -> owned h2 *)
| CStore (c : N) (v : src)                  (* store (consumes v) *)
| CSwap (c : N) (v : src) (h2 : N)          (* swap -> owned h2 *)
| CCas (c : N) (cur new : src) (h2 : N)     (* compare_and_swap(&cur, new) -> guard h2; cur is borrowed *)
| CRcu (c : N) (m : rcu_mode) (h2 : N)      (* rcu(closure) -> owned h2 *)
| CIntoInner (c h : N)                      (* ArcSwapAny::into_inner -> owned h *)
| CDropStore (c : N)                        (* drop of the container *)
| CCacheNew (c k : N)                       (* Cache::new(&c) -> cache handle k *)
| CCacheLoad (k : N)                        (* Cache::load *)
| CSetGen (g : N)                           (* verif::set_generation(g) (C13) *)
| CMove (h h2 : N)                          (* the program moves a handle (no library call) *)
| CJoin (t : N).                            (* JoinHandle::join: waits until thread t is gone *)

Inductive handle :=
| HEmpty
| HOwned (a : N)
| HGuard (a : N) (d : option slot)
| HCache (c a : N).

(** ** Program points.  Every constructor names the NEXT atomic action of the frame
    (or, for the [W*]/[K*] constructors, what the frame waits for from its callee).
    Names follow DESIGN.md §2.2. *)
Inductive pc :=
(* Node::get *)
| GHead | GCool1 (n : N) | GCool2 (n : N) | GCool3 (n : N) | GBack (n : N) | GClaim (n : N)
| GPush0 | GPush (head : N)
(* Node::start_cooldown *)
| C1 (n : N) | C2 (n : N) | C3 (n : N)
(* HybridStrategy::load : attempt *)
| LA1 (c : N) | LA1d (c p : N) | LAscan (c p i : N) | LA3 (c p j : N) | LA4 (c p j : N)
| LA5 (c p j : N) | LA6 (c p : N)
(* fallback *)
| LH0d (c : N) | LH1 (c gt : N) | LH2 (c gt : N) | LH3 (c gt : N) | LH3d (c gt cand : N)
| LH4 (c gt cand : N) | LH5 (c gt cand : N)
| LH6a (cand : N) | LH6b (cand : N) | LH6c (cand : N)
| LH7 (cand e : N) | LH8 (cand e repl : N) | LH9 (cand repl : N) | LH10 (cand repl : N)
(* generic: decrement, then return *)
| PDec (a : N) (r : retval)
(* Guard drop, Guard::into_inner *)
| GD1 (p : N) (sl : slot)
| GI1 (p : N) (sl : slot) | GI2 (p : N) (sl : slot)
(* Debt::pay_all *)
| P1 (c old : N) | P2 (c old : N) | P3 (c old w : N)
| PE0d (c old w : N) | PE0e (c old w : N) | PE1 (c old w : N) | PE2 (c old w ctl : N)
| PE3 (c old w ctl : N) | PE4 (c old w ctl r : N) | PE5 (c old w ctl r their : N)
| PE6 (c old w ctl r their mine : N) | PE7 (c old w ctl r their mine : N)
| PE8 (c old w their : N) | PE9 (c old w newctl r : N)
| PS (c old w j : N) | PSi (c old w j : N) | P5 (c old w : N) | P6 (c old : N)
(* swap / compare_and_swap / rcu / cache / allocation *)
| S1 (c new : N)
| K1 (c cur new p : N) (d : option slot)
| RAlloc (c : N) (m : rcu_mode) (p : N) (d : option slot)
| RInc (c : N) (m : rcu_mode) (p : N) (d : option slot)
| Q1 (c a k : N)
| NewAlloc
| CloneInc (a : N)
(* waiting frames *)
| WGetLoad (c : N)                  (* Node::get for a load *)
| WGetPay (c old : N)               (* Node::get for pay_all *)
| WGetSetGen (g : N)
| WExit (r : retval)                (* cooldown at the exit of the outermost with, then return r *)
| WLoadFull                         (* load returned a guard: Guard::into_inner it *)
| WHelpRepl (c old w ctl : N)       (* help waits for replacement() *)
| WSwap (old : N)                   (* swap waits for pay_all *)
| WDropOld                          (* store: drop what swap returned *)
| WCasLoad (c cur new : N)
| WCasPaid (p : N) (d : option slot)
| WCasRetry (c cur new : N)
| WRcuLoad (c : N) (m : rcu_mode)
| WRcuCas (c : N) (m : rcu_mode) (p : N) (d : option slot)
| WRcuInto (p : N) (d : option slot)
| WRcuRet (q : N)
| WRcuPanic                         (* the closure panicked: `cur` was dropped by the unwind *)
| WRcuNext (c : N) (m : rcu_mode) (q : N) (dq : option slot)
| WInto (p : N)                     (* container into_inner waits for pay_all *)
| WDropStore (p : N)
| WCacheReload (c a k : N)
| WThreadExit
(* bottom of the stack: what to do with the command's result *)
| KDone (dst : option N)
| KCacheDone (c k : N).

Inductive status := Running | Exited | Panicked | Faulted.

(** Thread-local data of the crate ([LocalNode] + fast::Local + helping::Local). *)
Record tlocal := mkTl {
  tl_node : option N;
  tl_off : N;          (* fast::Local::offset *)
  tl_gen : N;          (* helping::Local::generation *)
  tl_discard : bool;   (* helping::Local::discard *)
  tl_depth : N;        (* helping::Local::depth *)
}.
Definition tl_init : tlocal := mkTl None 0 0 false 0.

Record thread := mkThread {
  t_stack : list pc;
  t_loc : tlocal;
  t_prog : list cmd;
  t_cmdi : N;          (* index of the current (or, with an empty stack, the next) command *)
  t_status : status;
}.

Record config := mkConfig {
  cf_use_fast : bool;    (* Config::USE_FAST *)
  cf_debug : bool;       (* debug assertions compiled in *)
}.

Record shared := mkShared {
  mem : loc -> N;
  heap : N -> option N;  (* live objects: address -> identity *)
  next_oid : N;
}.

Record state := mkState {
  sh : shared;
  thr : N -> thread;
  hnd : N -> handle;
}.

Definition upd {A B} `{EqDecision A} (f : A -> B) (k : A) (v : B) : A -> B :=
  fun k' => if decide (k' = k) then v else f k'.
