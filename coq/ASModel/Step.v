(** * ASModel.Step — one atomic access per step.

    [exec] performs the pending atomic action of the top frame and the thread-local
    computation that follows it, up to (not including) the next atomic action.  It is a
    transliteration of src/strategy/hybrid.rs, src/debt/{mod,fast,helping,list}.rs,
    src/lib.rs (swap, store, compare_and_swap, rcu, into_inner, drop) and src/cache.rs;
    the orderings are taken from the generated [Orderings_gen]. *)
From ASModel Require Import Base State Orderings_gen.

(** What the top frame does after its step. *)
Inductive next :=
| NGoto (p : pc)                          (* replace the top frame *)
| NPush (frames : list pc) (wait : pc)    (* replace the top frame by [wait], push [frames] above it *)
| NRet (v : retval)                       (* pop the frame and hand [v] to the frame below *)
| NPanic (s : panic_site)
| NFault (f : fault).

(** ** Primitive actions on the shared state *)
Definition m_set (s : shared) (l : loc) (v : N) : shared :=
  mkShared (upd (mem s) l v) (heap s) (next_oid s).

Definition a_load (s : shared) (l : loc) (o : ord * ord) : N * event :=
  let v := mem s l in (v, EvAcc l OLoad (fst o) (snd o) v v true).

Definition a_store (s : shared) (l : loc) (v : N) (o : ord * ord) : shared * event :=
  (m_set s l v, EvAcc l OStore (fst o) (snd o) (mem s l) v true).

Definition a_swap (s : shared) (l : loc) (v : N) (o : ord * ord) : shared * N * event :=
  (m_set s l v, mem s l, EvAcc l OSwap (fst o) (snd o) (mem s l) v true).

(** Strong CAS; [spur] requests a spurious failure (weak CAS only). *)
Definition a_cas (s : shared) (l : loc) (exp new : N) (o : ord * ord) (weak spur : bool)
  : shared * N * bool * event :=
  let old := mem s l in
  let ok := (old =? exp) && negb (weak && spur) in
  let s' := if ok then m_set s l new else s in
  (s', old, ok, EvAcc l (if weak then OCasWeak else OCas) (fst o) (snd o) old (if ok then new else old) ok).

Definition a_fadd (s : shared) (l : loc) (d : N) (o : ord * ord) : shared * event :=
  let old := mem s l in (m_set s l (old + d), EvAcc l OFetchAdd (fst o) (snd o) old (old + d) true).
Definition a_fsub (s : shared) (l : loc) (d : N) (o : ord * ord) : shared * event :=
  let old := mem s l in (m_set s l (old - d), EvAcc l OFetchSub (fst o) (snd o) old (old - d) true).

(** Reference counts (the pointee's strong count; [Arc]-like). *)
Definition rc_inc (s : shared) (a : N) : option (shared * list event) :=
  match heap s a with
  | None => None
  | Some _ => let c := mem s (LCount a) in Some (m_set s (LCount a) (c + 1), [EvRc a true c])
  end.

Definition rc_dec (s : shared) (a : N) : option (shared * list event) :=
  match heap s a with
  | None => None
  | Some oid =>
      let c := mem s (LCount a) in
      if c =? 1
      then Some (mkShared (upd (mem s) (LCount a) 0) (upd (heap s) a None) (next_oid s),
                 [EvRc a false c; EvDestroy a oid])
      else Some (m_set s (LCount a) (c - 1), [EvRc a false c])
  end.

Definition valid_addr (a : N) : bool := negb (a =? 0) && negb (a =? NONE).

Definition rc_alloc (s : shared) (a : N) : option (shared * list event) :=
  match heap s a with
  | Some _ => None
  | None =>
      if valid_addr a
      then Some (mkShared (upd (mem s) (LCount a) 1) (upd (heap s) a (Some (next_oid s))) (next_oid s + 1),
                 [EvAlloc a (next_oid s)])
      else None
  end.

(** Initial contents of a freshly pushed node (Node::default + helping.init()). *)
Definition node_init (s : shared) (n : N) : shared :=
  let m := mem s in
  let m := fold_left (fun m i => upd m (LSlot n i) NONE) [0;1;2;3;4;5;6;7;8] m in
  let m := upd m (LCtrl n) IDLE in
  let m := upd m (LAddr n) 0 in
  let m := upd m (LOffer n) (env_val n) in
  let m := upd m (LEnv n) 0 in
  let m := upd m (LInUse n) NODE_USED in
  let m := upd m (LWriters n) 0 in
  mkShared m (heap s) (next_oid s).

(** ** Thread-local helpers *)
Definition tl_set_node (l : tlocal) (n : option N) := mkTl n (tl_off l) (tl_gen l) (tl_discard l) (tl_depth l).
Definition tl_set_off (l : tlocal) (o : N) := mkTl (tl_node l) o (tl_gen l) (tl_discard l) (tl_depth l).
Definition tl_set_gen (l : tlocal) (g : N) := mkTl (tl_node l) (tl_off l) g (tl_discard l) (tl_depth l).
Definition tl_set_discard (l : tlocal) (b : bool) := mkTl (tl_node l) (tl_off l) (tl_gen l) b (tl_depth l).
Definition tl_set_depth (l : tlocal) (d : N) := mkTl (tl_node l) (tl_off l) (tl_gen l) (tl_discard l) d.

(** [dec a] followed by returning [r]; [T::dec] of a null pointer is not an event. *)
Definition dec_then (a : N) (r : retval) : next :=
  if a =? 0 then NRet r else NGoto (PDec a r).

(** Leaving a [LocalNode::with]: the [Scope] guard of the D1 fix. *)
Definition with_exit (l : tlocal) (r : retval) : tlocal * next :=
  let d := tl_depth l - 1 in
  let l := tl_set_depth l d in
  if (d =? 0) && tl_discard l then
    let l := tl_set_discard l false in
    match tl_node l with
    | Some n => (tl_set_node l None, NPush [C1 n] (WExit r))
    | None => (l, NRet r)
    end
  else (l, NRet r).

(** After the slot scan / failed attempt: HybridProtection::fallback up to its first
    atomic action. *)
Definition fallback_entry (cf : config) (l : tlocal) (c : N) : tlocal * next :=
  match tl_node l with
  | None => (l, NPanic PExpectNode)
  | Some _ =>
      if cf_debug cf then (l, NGoto (LH0d c))
      else
        let g := (tl_gen l + 4) mod WORD in
        (tl_set_gen l g, NGoto (LH1 c (N.lor g GEN_TAG)))
  end.

Definition gen_step (cf : config) (l : tlocal) (c : N) : tlocal * next :=
  let g := (tl_gen l + 4) mod WORD in
  if cf_debug cf && negb (N.land g GEN_TAG =? 0) then (l, NPanic PGenTagged)
  else (tl_set_gen l g, NGoto (LH1 c (N.lor g GEN_TAG))).

(** First program point of the body of a load (after [LocalNode::with] has a node). *)
Definition load_body (cf : config) (l : tlocal) (c : N) : tlocal * next :=
  if cf_use_fast cf then (l, NGoto (LA1 c)) else fallback_entry cf l c.

Definition next_frames (nx : next) : list pc :=
  match nx with NGoto p => [p] | _ => [] end.

(** Frames to push for a call of [load] (with [LocalNode::with] around it). *)
Definition enter_load (cf : config) (l : tlocal) (c : N) : tlocal * list pc + panic_site :=
  match tl_node l with
  | None => inl (l, [GHead; WGetLoad c])
  | Some _ =>
      let l := tl_set_depth l (tl_depth l + 1) in
      match load_body cf l c with
      | (l, NGoto p) => inl (l, [p])
      | (_, NPanic s) => inr s
      | _ => inr PExpectNode
      end
  end.

(** Frames for [Debt::pay_all(old, storage of c)]. *)
Definition pay_body (old c : N) : pc := if old =? 0 then P2 c old else P1 c old.
Definition enter_pay (l : tlocal) (c old : N) : tlocal * list pc :=
  match tl_node l with
  | None => (l, [GHead; WGetPay c old])
  | Some _ => (tl_set_depth l (tl_depth l + 1), [pay_body old c])
  end.

(** Frames that drop a guard [(p, d)]. *)
Definition guard_drop_frames (p : N) (d : option slot) : list pc :=
  match d with
  | Some sl => [GD1 p sl]
  | None => if p =? 0 then [] else [PDec p RUnit]
  end.

(** Frames of [Guard::into_inner (p, d)]; empty = returns [ROwned p] at once. *)
Definition guard_into_frames (p : N) (d : option slot) : list pc :=
  match d with
  | Some sl => if p =? 0 then [GI2 p sl] else [GI1 p sl]
  | None => []
  end.

(** The writer side of helping: dispatch on the control word read from node [w]. *)
Definition help_dispatch (cf : config) (l : tlocal) (c old w ctl : N) : next :=
  let tag := N.land ctl TAG_MASK in
  if tag =? IDLE then (if ctl =? IDLE then NGoto (PS c old w 0) else NPanic PInvalidControl)
  else if tag =? REPLACEMENT_TAG then NGoto (PS c old w 0)
  else if tag =? GEN_TAG then
    if cf_debug cf && (match tl_node l with Some own => own =? w | None => false end)
    then NPanic PHelpMyself
    else NGoto (PE2 c old w ctl)
  else NPanic PInvalidControl.

Definition after_slot (c old w j : N) : next :=
  if j =? HSLOT then NGoto (P5 c old w) else NGoto (PS c old w (j + 1)).

Definition own_node (l : tlocal) : N := match tl_node l with Some n => n | None => 0 end.

(** ** The step of the top frame.  [x] is the scheduler's choice for this step
    (allocation address / spurious-failure flag). *)
Definition exec (cf : config) (s : shared) (l : tlocal) (p : pc) (x : N)
  : shared * tlocal * list event * next :=
  let n := own_node l in
  let dbg := cf_debug cf in
  match p with
  (* ---- Node::get ---- *)
  | GHead =>
      let '(h, e) := a_load s LHead o_traverse_head in
      (s, l, [e], if h =? 0 then NGoto GPush0 else NGoto (GCool1 (h - 1)))
  | GCool1 w =>
      (* check_cooldown: a cheap look first *)
      let '(v, e) := a_load s (LInUse w) o_check_inuse in
      (s, l, [e], if v =? NODE_COOLDOWN then NGoto (GCool2 w) else NGoto (GClaim w))
  | GCool2 w =>
      (* take the node over (COOLDOWN -> USED) before looking at the writers *)
      let '(s', _, ok, e) := a_cas s (LInUse w) NODE_COOLDOWN NODE_USED o_check_cas false false in
      (s', l, [e], if ok then NGoto (GCool3 w) else NGoto (GClaim w))
  | GCool3 w =>
      (* holding the node: is any writer still inside? *)
      let '(v, e) := a_load s (LWriters w) o_check_writers in
      if v =? 0 then (s, tl_set_node l (Some w), [e], NRet (RNode w))
      else (s, l, [e], NGoto (GBack w))
  | GBack w =>
      let '(s', e) := a_store s (LInUse w) NODE_COOLDOWN o_check_back in
      (s', l, [e], NGoto (GClaim w))
  | GClaim w =>
      let '(s', _, ok, e) := a_cas s (LInUse w) NODE_UNUSED NODE_USED o_get_claim false false in
      (* on success the node is ours: LocalNode::node is set right when Node::get returns *)
      if ok then (s', tl_set_node l (Some w), [e], NRet (RNode w))
      else (s', l, [e], if w =? 0 then NGoto GPush0 else NGoto (GCool1 (w - 1)))
  | GPush0 =>
      let '(h, e) := a_load s LHead o_get_head_relaxed in
      (s, l, [e], NGoto (GPush h))
  | GPush h =>
      let '(s', old, ok, e) := a_cas s LHead h (node_val h) o_get_push true (x =? 1) in
      if ok then (node_init s' h, tl_set_node l (Some h), [e], NRet (RNode h))
      else (s', l, [e], NGoto (GPush old))
  (* ---- start_cooldown ---- *)
  | C1 w =>
      let '(s', e) := a_fadd s (LWriters w) 1 o_resv_add in (s', l, [e], NGoto (C2 w))
  | C2 w =>
      let '(s', old, e) := a_swap s (LInUse w) NODE_COOLDOWN o_cooldown_swap in
      (s', l, [e], if old =? NODE_USED then NGoto (C3 w) else NPanic PCooldownNotUsed)
  | C3 w =>
      let '(s', e) := a_fsub s (LWriters w) 1 o_resv_sub in (s', l, [e], NRet RUnit)
  (* ---- attempt ---- *)
  | LA1 c =>
      let '(v, e) := a_load s (LStore c) o_attempt_first in
      match tl_node l with
      | None => (s, l, [e], NPanic PExpectNode)
      | Some _ => (s, l, [e], if dbg then NGoto (LA1d c v) else NGoto (LAscan c v 0))
      end
  | LA1d c v =>
      let '(u, e) := a_load s (LInUse n) o_dbg_inuse_fast in
      (s, l, [e], if u =? NODE_USED then NGoto (LAscan c v 0) else NPanic PInUseNotUsed)
  | LAscan c v i =>
      let j := (i + tl_off l) mod SLOT_CNT in
      let '(u, e) := a_load s (LSlot n j) o_fast_scan in
      if u =? NONE then (s, l, [e], NGoto (LA3 c v j))
      else if i =? 7 then let '(l', nx) := fallback_entry cf l c in (s, l', [e], nx)
      else (s, l, [e], NGoto (LAscan c v (i + 1)))
  | LA3 c v j =>
      let '(s', old, e) := a_swap s (LSlot n j) v o_fast_publish in
      if dbg && negb (old =? NONE) then (s', l, [e], NPanic PSlotNotNone)
      else (s', tl_set_off l (j + 1), [e], NGoto (LA4 c v j))
  | LA4 c v j =>
      let '(u, e) := a_load s (LStore c) o_attempt_confirm in
      if u =? v then let '(l', nx) := with_exit l (RGuard v (Some (n, j))) in (s, l', [e], nx)
      else (s, l, [e], NGoto (LA5 c v j))
  | LA5 c v j =>
      let '(s', _, ok, e) := a_cas s (LSlot n j) v NONE o_pay false false in
      if ok || (v =? 0) then let '(l', nx) := fallback_entry cf l c in (s', l', [e], nx)
      else (s', l, [e], NGoto (LA6 c v))
  | LA6 c v =>
      match rc_dec s v with
      | None => (s, l, [], NFault (FDeadDec v))
      | Some (s', evs) => let '(l', nx) := fallback_entry cf l c in (s', l', evs, nx)
      end
  (* ---- fallback ---- *)
  | LH0d c =>
      let '(u, e) := a_load s (LInUse n) o_dbg_inuse_helping in
      if u =? NODE_USED then let '(l', nx) := gen_step cf l c in (s, l', [e], nx)
      else (s, l, [e], NPanic PInUseNotUsed)
  | LH1 c gt =>
      let '(s', e) := a_store s (LAddr n) (store_val c) o_help_active_addr_st in
      (s', l, [e], NGoto (LH2 c gt))
  | LH2 c gt =>
      let '(s', prev, e) := a_swap s (LCtrl n) gt o_help_gen_swap in
      if dbg && negb (prev =? IDLE) then (s', l, [e], NPanic PCtrlNotIdle)
      else (s', (if gt =? GEN_TAG then tl_set_discard l true else l), [e], NGoto (LH3 c gt))
  | LH3 c gt =>
      let '(v, e) := a_load s (LStore c) o_fallback_candidate in
      match tl_node l with
      | None => (s, l, [e], NPanic PExpectNode)
      | Some _ => (s, l, [e], if dbg then NGoto (LH3d c gt v) else NGoto (LH4 c gt v))
      end
  | LH3d c gt v =>
      let '(u, e) := a_load s (LInUse n) o_dbg_inuse_confirm in
      (s, l, [e], if u =? NODE_USED then NGoto (LH4 c gt v) else NPanic PInUseNotUsed)
  | LH4 c gt v =>
      let '(s', prev, e) := a_swap s (LSlot n HSLOT) v o_confirm_slot_swap in
      if dbg && negb (prev =? NONE) then (s', l, [e], NPanic PSlotNotNone)
      else (s', l, [e], NGoto (LH5 c gt v))
  | LH5 c gt v =>
      let '(s', ctl, e) := a_swap s (LCtrl n) IDLE o_confirm_ctrl_swap in
      if ctl =? gt then (s', l, [e], if v =? 0 then NGoto (LH6b v) else NGoto (LH6a v))
      else if dbg && negb (N.land ctl TAG_MASK =? REPLACEMENT_TAG) then (s', l, [e], NPanic PNotReplacement)
      else (s', l, [e], NGoto (LH7 v (env_of (ctl - N.land ctl TAG_MASK))))
  | LH6a v =>
      match rc_inc s v with
      | None => (s, l, [], NFault (FDeadInc v))
      | Some (s', evs) => (s', l, evs, NGoto (LH6b v))
      end
  | LH6b v =>
      let '(s', _, ok, e) := a_cas s (LSlot n HSLOT) v NONE o_pay false false in
      if ok || (v =? 0) then let '(l', nx) := with_exit l (RGuard v None) in (s', l', [e], nx)
      else (s', l, [e], NGoto (LH6c v))
  | LH6c v =>
      match rc_dec s v with
      | None => (s, l, [], NFault (FDeadDec v))
      | Some (s', evs) => let '(l', nx) := with_exit l (RGuard v None) in (s', l', evs, nx)
      end
  | LH7 v e' =>
      let '(r, e) := a_load s (LEnv e') o_confirm_env_load in
      (s, l, [e], NGoto (LH8 v e' r))
  | LH8 v e' r =>
      let '(s', e) := a_store s (LOffer n) (env_val e') o_confirm_offer_store in
      (s', l, [e], NGoto (LH9 v r))
  | LH9 v r =>
      let '(s', _, ok, e) := a_cas s (LSlot n HSLOT) v NONE o_pay false false in
      if ok || (v =? 0) then let '(l', nx) := with_exit l (RGuard r None) in (s', l', [e], nx)
      else (s', l, [e], NGoto (LH10 v r))
  | LH10 v r =>
      match rc_dec s v with
      | None => (s, l, [], NFault (FDeadDec v))
      | Some (s', evs) => let '(l', nx) := with_exit l (RGuard r None) in (s', l', evs, nx)
      end
  (* ---- generic decrement ---- *)
  | PDec a r =>
      match rc_dec s a with
      | None => (s, l, [], NFault (FDeadDec a))
      | Some (s', evs) => (s', l, evs, NRet r)
      end
  (* ---- guard drop / into_inner ---- *)
  | GD1 v sl =>
      let '(s', _, ok, e) := a_cas s (slot_loc sl) v NONE o_pay false false in
      (s', l, [e], if ok then NRet RUnit else dec_then v RUnit)
  | GI1 v sl =>
      match rc_inc s v with
      | None => (s, l, [], NFault (FDeadInc v))
      | Some (s', evs) => (s', l, evs, NGoto (GI2 v sl))
      end
  | GI2 v sl =>
      let '(s', _, ok, e) := a_cas s (slot_loc sl) v NONE o_pay false false in
      (s', l, [e], if ok then NRet (ROwned v) else dec_then v (ROwned v))
  (* ---- pay_all ---- *)
  | P1 c old =>
      match rc_inc s old with
      | None => (s, l, [], NFault (FDeadInc old))
      | Some (s', evs) => (s', l, evs, NGoto (P2 c old))
      end
  | P2 c old =>
      let '(h, e) := a_load s LHead o_traverse_head in
      if h =? 0 then
        (if old =? 0 then let '(l', nx) := with_exit l RUnit in (s, l', [e], nx)
         else (s, l, [e], NGoto (P6 c old)))
      else (s, l, [e], NGoto (P3 c old (h - 1)))
  | P3 c old w =>
      let '(s', e) := a_fadd s (LWriters w) 1 o_resv_add in
      match tl_node l with
      | None => (s', l, [e], NPanic PExpectNode)
      | Some _ => (s', l, [e], if dbg then NGoto (PE0d c old w) else NGoto (PE1 c old w))
      end
  | PE0d c old w =>
      let '(u, e) := a_load s (LInUse n) o_dbg_inuse_help in
      (s, l, [e], if u =? NODE_USED then NGoto (PE0e c old w) else NPanic PInUseNotUsed)
  | PE0e c old w =>
      let '(u, e) := a_load s (LCtrl n) o_help_own_ctrl_dbg in
      (s, l, [e], if u =? IDLE then NGoto (PE1 c old w) else NPanic POwnCtrlNotIdle)
  | PE1 c old w =>
      let '(ctl, e) := a_load s (LCtrl w) o_help_ctrl_load in
      (s, l, [e], help_dispatch cf l c old w ctl)
  | PE2 c old w ctl =>
      let '(a, e) := a_load s (LAddr w) o_help_active_addr_ld in
      if a =? store_val c then
        match enter_load cf l c with
        | inl (l', frames) => (s, l', [e], NPush (frames ++ [WLoadFull]) (WHelpRepl c old w ctl))
        | inr ps => (s, l, [e], NPanic ps)
        end
      else (s, l, [e], NGoto (PE3 c old w ctl))
  | PE3 c old w ctl =>
      let '(ctl', e) := a_load s (LCtrl w) o_help_ctrl_reload in
      (s, l, [e], if ctl' =? ctl then NGoto (PS c old w 0) else help_dispatch cf l c old w ctl')
  | PE4 c old w ctl r =>
      let '(their, e) := a_load s (LOffer w) o_help_their_space in
      (s, l, [e], NGoto (PE5 c old w ctl r their))
  | PE5 c old w ctl r their =>
      let '(mine, e) := a_load s (LOffer n) o_help_my_space in
      (s, l, [e], NGoto (PE6 c old w ctl r their mine))
  | PE6 c old w ctl r their mine =>
      let '(s', e) := a_store s (LEnv (env_of mine)) r o_help_env_store in
      (s', l, [e], if N.land mine TAG_MASK =? 0 then NGoto (PE7 c old w ctl r their mine)
                   else NPanic PSpaceUnaligned)
  | PE7 c old w ctl r their mine =>
      let '(s', newctl, ok, e) :=
        a_cas s (LCtrl w) ctl (N.lor mine REPLACEMENT_TAG) o_help_ctrl_cas false false in
      if ok then (s', l, [e], NGoto (PE8 c old w their))
      else (s', l, [e], if r =? 0 then help_dispatch cf l c old w newctl else NGoto (PE9 c old w newctl r))
  | PE8 c old w their =>
      let '(s', e) := a_store s (LOffer n) their o_help_offer_store in
      (s', l, [e], NGoto (PS c old w 0))
  | PE9 c old w newctl r =>
      match rc_dec s r with
      | None => (s, l, [], NFault (FDeadDec r))
      | Some (s', evs) => (s', l, evs, help_dispatch cf l c old w newctl)
      end
  | PS c old w j =>
      let '(s', _, ok, e) := a_cas s (LSlot w j) old NONE o_pay false false in
      (s', l, [e], if ok && negb (old =? 0) then NGoto (PSi c old w j) else after_slot c old w j)
  | PSi c old w j =>
      match rc_inc s old with
      | None => (s, l, [], NFault (FDeadInc old))
      | Some (s', evs) => (s', l, evs, after_slot c old w j)
      end
  | P5 c old w =>
      let '(s', e) := a_fsub s (LWriters w) 1 o_resv_sub in
      if w =? 0 then
        (if old =? 0 then let '(l', nx) := with_exit l RUnit in (s', l', [e], nx)
         else (s', l, [e], NGoto (P6 c old)))
      else (s', l, [e], NGoto (P3 c old (w - 1)))
  | P6 c old =>
      match rc_dec s old with
      | None => (s, l, [], NFault (FDeadDec old))
      | Some (s', evs) => let '(l', nx) := with_exit l RUnit in (s', l', evs, nx)
      end
  (* ---- swap ---- *)
  | S1 c new =>
      let '(s', old, e) := a_swap s (LStore c) new o_lib_swap in
      let '(l', frames) := enter_pay l c old in
      (s', l', [e], NPush frames (WSwap old))
  (* ---- compare_and_swap: the exchange ---- *)
  | K1 c cur new v d =>
      let '(s', _, ok, e) := a_cas s (LStore c) cur new o_cas_exchange true (x =? 1) in
      if ok then
        let '(l', frames) := enter_pay l c v in (s', l', [e], NPush frames (WCasPaid v d))
      else
        match guard_drop_frames v d with
        | [] =>
            match enter_load cf l c with
            | inl (l', frames) => (s', l', [e], NPush frames (WCasLoad c cur new))
            | inr ps => (s', l, [e], NPanic ps)
            end
        | frames => (s', l, [e], NPush frames (WCasRetry c cur new))
        end
  (* ---- rcu closure ---- *)
  | RAlloc c m v d =>
      match rc_alloc s x with
      | None => (s, l, [], NFault (FBadAlloc x))
      | Some (s', evs) =>
          match enter_load cf l c with
          | inl (l', frames) => (s', l', evs, NPush (frames ++ [WCasLoad c v x]) (WRcuCas c m v d))
          | inr ps => (s', l, evs, NPanic ps)
          end
      end
  | RInc c m v d =>
      match rc_inc s v with
      | None => (s, l, [], NFault (FDeadInc v))
      | Some (s', evs) =>
          match enter_load cf l c with
          | inl (l', frames) => (s', l', evs, NPush (frames ++ [WCasLoad c v v]) (WRcuCas c m v d))
          | inr ps => (s', l, evs, NPanic ps)
          end
      end
  (* ---- Cache::revalidate ---- *)
  | Q1 c a k =>
      let '(v, e) := a_load s (LStore c) o_cache_revalidate in
      if v =? a then (s, l, [e], NRet (ROwned a))
      else
        match enter_load cf l c with
        | inl (l', frames) => (s, l', [e], NPush (frames ++ [WLoadFull]) (WCacheReload c a k))
        | inr ps => (s, l, [e], NPanic ps)
        end
  (* ---- user-level allocation and clone ---- *)
  | NewAlloc =>
      match rc_alloc s x with
      | None => (s, l, [], NFault (FBadAlloc x))
      | Some (s', evs) => (s', l, evs, NRet (ROwned x))
      end
  | CloneInc a =>
      match rc_inc s a with
      | None => (s, l, [], NFault (FDeadInc a))
      | Some (s', evs) => (s', l, evs, NRet (ROwned a))
      end
  (* waiting frames never execute *)
  | _ => (s, l, [], NFault FBadChoice)
  end.

(** One attempt of [rcu] with the guard [(p, d)] on the current value: run the closure (a
    scheduling point only if it allocates), then compare_and_swap. A panicking closure unwinds
    through [rcu]: the only live local is [cur], whose drop returns the debt. *)
Definition rcu_attempt (cf : config) (l : tlocal) (c : N) (m : rcu_mode) (p : N) (d : option slot) : tlocal * next :=
  match m with
  | RcuNew => (l, NGoto (RAlloc c m p d))
  | RcuPanicAt k =>
      if k =? 0 then
        match guard_drop_frames p d with
        | [] => (l, NRet RPanic)
        | fs => (l, NPush fs WRcuPanic)
        end
      else (l, NGoto (RAlloc c m p d))
  | RcuNull =>
      match enter_load cf l c with
      | inl (l', frames) => (l', NPush (frames ++ [WCasLoad c p 0]) (WRcuCas c m p d))
      | inr ps => (l, NPanic ps)
      end
  | RcuSame =>
      if p =? 0 then
        match enter_load cf l c with
        | inl (l', frames) => (l', NPush (frames ++ [WCasLoad c p 0]) (WRcuCas c m p d))
        | inr ps => (l, NPanic ps)
        end
      else (l, NGoto (RInc c m p d))
  end.

Definition rcu_next_mode (m : rcu_mode) : rcu_mode :=
  match m with RcuPanicAt k => RcuPanicAt (k - 1) | _ => m end.

(** ** Resuming a waiting frame with the value its callee returned (thread-local only). *)
Definition resume (cf : config) (l : tlocal) (w : pc) (v : retval) : tlocal * next :=
  match w, v with
  | WGetLoad c, RNode n =>
      let l := tl_set_depth l (tl_depth l + 1) in
      load_body cf l c
  | WGetPay c old, RNode n =>
      (tl_set_depth l (tl_depth l + 1), NGoto (pay_body old c))
  | WGetSetGen g, RNode n =>
      (* with(|l| set generation): enter, set, leave *)
      (tl_set_gen l g, NRet RUnit)
  | WExit r, _ => (l, NRet r)
  | WLoadFull, RGuard p d =>
      match guard_into_frames p d with
      | [] => (l, NRet (ROwned p))
      | f :: _ => (l, NGoto f)
      end
  | WHelpRepl c old w ctl, ROwned r => (l, NGoto (PE4 c old w ctl r))
  | WSwap old, _ => (l, NRet (ROwned old))
  | WDropOld, ROwned old => (l, dec_then old RUnit)
  | WCasLoad c cur new, RGuard p d =>
      if p =? cur then (l, NGoto (K1 c cur new p d))
      else (l, dec_then new (RGuard p d))
  | WCasPaid p d, _ => (l, dec_then p (RGuard p d))
  | WCasRetry c cur new, _ =>
      match enter_load cf l c with
      | inl (l', frames) => (l', NPush frames (WCasLoad c cur new))
      | inr ps => (l, NPanic ps)
      end
  | WRcuLoad c m, RGuard p d => rcu_attempt cf l c m p d
  | WRcuCas c m p d, RGuard q dq =>
      if p =? q then
        match guard_into_frames q dq with
        | [] =>
            match guard_drop_frames p d with
            | [] => (l, NRet (ROwned q))
            | fs => (l, NPush fs (WRcuRet q))
            end
        | fs => (l, NPush fs (WRcuInto p d))
        end
      else
        match guard_drop_frames p d with
        | [] => rcu_attempt cf l c (rcu_next_mode m) q dq   (* cur = prev; next round *)
        | fs => (l, NPush fs (WRcuNext c (rcu_next_mode m) q dq))
        end
  | WRcuInto p d, ROwned q =>
      match guard_drop_frames p d with
      | [] => (l, NRet (ROwned q))
      | fs => (l, NPush fs (WRcuRet q))
      end
  | WRcuRet q, _ => (l, NRet (ROwned q))
  | WRcuNext c m q dq, _ => rcu_attempt cf l c m q dq
  | WRcuPanic, _ => (l, NRet RPanic)
  | WInto p, _ => (l, NRet (ROwned p))
  | WDropStore p, _ => (l, dec_then p RUnit)
  | WCacheReload c a k, ROwned a' =>
      (* self.cached = new value: the old one is dropped *)
      if a =? 0 then (l, NRet (ROwned a')) else (l, NGoto (PDec a (ROwned a')))
  | _, _ => (l, NFault FBadChoice)
  end.
