(** * ASModel.StepCases — the shape of one global step, for proofs of further invariants.

    [step_shape] decomposes [step cf s t x] into: nothing happens / a command starts / the
    thread function returns / the top frame executes.  In a [WF2] state the last case never
    panics ([exec_step_no_panic], from [step_WF2]). *)
From Coq Require Import Lia.
From ASModel Require Import Base State Orderings_gen Step Run Progress Hist Inv InvTl InvProto InvStep.

Definition hnd_after (cf : config) (h : N -> handle) (l' : tlocal) (rest : list pc) (nx : next) : N -> handle :=
  match nx with
  | NRet v => match unwind cf l' rest v with
              | UDone _ (Some (k, hv)) _ => upd h k hv
              | _ => h
              end
  | _ => h
  end.

Lemma step_exec_eq cf s t x p rest s1 l1 evs nx :
  t_status (thr s t) = Running -> t_stack (thr s t) = p :: rest ->
  exec cf (sh s) (t_loc (thr s t)) p x = (s1, l1, evs, nx) ->
  fst (step cf s t x) =
    mkState s1 (upd (thr s) t (thread_after cf (thr s t) l1 rest nx)) (hnd_after cf (hnd s) l1 rest nx).
Proof.
  intros Hr Hs He. unfold step. rewrite Hr, Hs, He. unfold finish, thread_after, hnd_after.
  destruct nx; cbn; try reflexivity.
  destruct (unwind cf l1 rest v) as [| ? [[? ?]|] ? | | |]; reflexivity.
Qed.

Lemma exec_step_no_panic cf s t x p rest s1 l1 evs nx :
  WF2 s -> t_status (thr s t) = Running -> t_stack (thr s t) = p :: rest ->
  exec cf (sh s) (t_loc (thr s t)) p x = (s1, l1, evs, nx) ->
  (forall ps, nx <> NPanic ps) /\
  (forall v, nx = NRet v -> forall l2 ps, unwind cf l1 rest v <> UPanic l2 ps).
Proof.
  intros W Hr Hs He. destruct (step_WF2 cf s t x W) as [_ Hnp].
  unfold step in Hnp. rewrite Hr, Hs, He in Hnp. unfold finish in Hnp. split.
  - intros ps ->. apply (Hnp (EvPanic ps)). cbn. apply in_or_app. right. left. reflexivity.
  - intros v -> l2 ps Hu. rewrite Hu in Hnp. apply (Hnp (EvPanic ps)). cbn. apply in_or_app. right. left. reflexivity.
Qed.

(** The state after a command start. *)
Definition start_thread (th : thread) (l' : tlocal) (stk : list pc) : thread :=
  match stk with
  | [] => mkThread [] l' (t_prog th) (t_cmdi th + 1) Running
  | _ => mkThread stk l' (t_prog th) (t_cmdi th) Running
  end.

Inductive step_shape (cf : config) (s : state) (t x : N) : Prop :=
| ss_none : fst (step cf s t x) = s -> step_shape cf s t x
| ss_cmd c s1 l1 stk r :
    t_status (thr s t) = Running -> t_stack (thr s t) = [] ->
    nth_error (t_prog (thr s t)) (N.to_nat (t_cmdi (thr s t))) = Some c ->
    cmd_enabled s c = true ->
    cmd_start cf s (t_loc (thr s t)) c = inl (s1, l1, stk, r) ->
    fst (step cf s t x) = set_thread s1 t (start_thread (thr s t) l1 stk) ->
    step_shape cf s t x
| ss_exit_node n :
    t_status (thr s t) = Running -> t_stack (thr s t) = [] ->
    tl_node (t_loc (thr s t)) = Some n ->
    fst (step cf s t x) =
      set_thread s t (mkThread [C1 n; WThreadExit] (tl_set_node (t_loc (thr s t)) None)
                               (t_prog (thr s t)) (t_cmdi (thr s t)) Running) ->
    step_shape cf s t x
| ss_exit :
    t_status (thr s t) = Running -> t_stack (thr s t) = [] ->
    tl_node (t_loc (thr s t)) = None ->
    fst (step cf s t x) =
      set_thread s t (mkThread [] (t_loc (thr s t)) (t_prog (thr s t)) (t_cmdi (thr s t)) Exited) ->
    step_shape cf s t x
| ss_exec p rest s1 l1 evs nx :
    t_status (thr s t) = Running -> t_stack (thr s t) = p :: rest ->
    exec cf (sh s) (t_loc (thr s t)) p x = (s1, l1, evs, nx) ->
    fst (step cf s t x) =
      mkState s1 (upd (thr s) t (thread_after cf (thr s t) l1 rest nx)) (hnd_after cf (hnd s) l1 rest nx) ->
    step_shape cf s t x.

Lemma step_cases cf s t x : step_shape cf s t x.
Proof.
  destruct (t_status (thr s t)) eqn:Hr; try (apply ss_none; unfold step; rewrite Hr; reflexivity).
  destruct (t_stack (thr s t)) as [|p rest] eqn:Hs.
  - destruct (nth_error (t_prog (thr s t)) (N.to_nat (t_cmdi (thr s t)))) as [c|] eqn:Hc.
    + destruct (cmd_enabled s c) eqn:Hen; [|apply ss_none; unfold step; rewrite Hr, Hs, Hc, Hen; reflexivity].
      destruct (cmd_start_total cf s (t_loc (thr s t)) c) as [[[[s1 l1] stk] r] Hcs].
      eapply ss_cmd; eauto. unfold step. rewrite Hr, Hs, Hc, Hen, Hcs. unfold start_thread. destruct stk; reflexivity.
    + destruct (tl_node (t_loc (thr s t))) as [n|] eqn:Hn.
      * eapply ss_exit_node; eauto. unfold step. rewrite Hr, Hs, Hc, Hn. reflexivity.
      * eapply ss_exit; eauto. unfold step. rewrite Hr, Hs, Hc, Hn. reflexivity.
  - destruct (exec cf (sh s) (t_loc (thr s t)) p x) as [[[s1 l1] evs] nx] eqn:He.
    eapply ss_exec; eauto. eapply step_exec_eq; eauto.
Qed.

(** Threads that never fault (the counting invariants are stated for such states: a fault
    stops the thread in the middle of a frame). *)
Definition NoFault (s : state) : Prop := forall t, t_status (thr s t) <> Faulted.

Lemma step_status_other cf s t x t' : t' <> t -> thr (fst (step cf s t x)) t' = thr s t'.
Proof. intros H. apply step_other. congruence. Qed.

Lemma NoFault_back cf s t x : NoFault (fst (step cf s t x)) -> NoFault s.
Proof.
  intros H t'. destruct (N.eq_dec t' t) as [->|Hne].
  - intros Hf. apply (H t). unfold step. rewrite Hf. exact Hf.
  - rewrite <- (step_status_other cf s t x t' Hne). apply H.
Qed.

Lemma thread_after_nofault cf th l1 rest nx :
  t_status (thread_after cf th l1 rest nx) <> Faulted ->
  (forall f, nx <> NFault f) /\ (forall v, nx = NRet v -> forall l2 f, unwind cf l1 rest v <> UFault l2 f).
Proof.
  intros H. split.
  - intros f ->. apply H. reflexivity.
  - intros v -> l2 f Hu. apply H. unfold thread_after. rewrite Hu. reflexivity.
Qed.
