(** * ASModel.Sum — sums of finitely supported functions [N -> N].

    The state of the model is made of total functions (threads, handles, containers, nodes
    indexed by [N]); counting invariants sum a quantity over all of them.  [Total f n] says
    that [f] has finite support and that its values add up to [n]. *)
From Coq Require Import List NArith Lia Permutation.
From ASModel Require Import Base State.
Import ListNotations.
Local Open Scope N_scope.

Section Sum.
Context {A : Type} `{EqDecision A}.

Fixpoint fsum (dom : list A) (f : A -> N) : N :=
  match dom with [] => 0 | k :: d => f k + fsum d f end.

Definition covers (f : A -> N) (dom : list A) : Prop := List.NoDup dom /\ forall k, f k <> 0 -> In k dom.

Definition Total (f : A -> N) (n : N) : Prop := exists dom, covers f dom /\ fsum dom f = n.

Definition adec : forall x y : A, {x = y} + {x <> y} := fun x y => decide (x = y).

Lemma fsum_ext dom f g : (forall k, In k dom -> f k = g k) -> fsum dom f = fsum dom g.
Proof.
  induction dom as [|k dom IH]; intros H; [reflexivity|]. cbn.
  rewrite (H k) by (left; reflexivity). rewrite IH; [reflexivity|]. intros; apply H; right; assumption.
Qed.

Lemma fsum_app d1 d2 f : fsum (d1 ++ d2) f = fsum d1 f + fsum d2 f.
Proof. induction d1 as [|k d1 IH]; cbn; [reflexivity|]. rewrite IH. lia. Qed.

Lemma fsum_perm d1 d2 f : Permutation d1 d2 -> fsum d1 f = fsum d2 f.
Proof. induction 1; cbn; lia. Qed.

Lemma fsum_zero dom f : (forall k, In k dom -> f k = 0) -> fsum dom f = 0.
Proof.
  induction dom as [|k dom IH]; intros H; [reflexivity|]. cbn.
  rewrite (H k) by (left; reflexivity). rewrite IH; [reflexivity|]. intros; apply H; right; assumption.
Qed.

Lemma fsum_split (dom : list A) (f : A -> N) (k : A) : List.NoDup dom -> In k dom ->
  exists d', Permutation dom (k :: d') /\ List.NoDup d' /\ ~ In k d'.
Proof.
  intros Hnd Hin. apply in_split in Hin as (l1 & l2 & ->).
  exists (l1 ++ l2). split; [symmetry; apply Permutation_middle|].
  apply NoDup_remove in Hnd. exact Hnd.
Qed.

(** Dropping the zero entries does not change the sum. *)
Lemma fsum_filter dom f :
  fsum dom f = fsum (List.filter (fun k => negb (f k =? 0)) dom) f.
Proof.
  induction dom as [|k dom IH]; [reflexivity|]. cbn.
  destruct (N.eqb_spec (f k) 0) as [E|E]; cbn; rewrite IH; [rewrite E|]; reflexivity.
Qed.

Lemma covers_filter_perm f d1 d2 : covers f d1 -> covers f d2 ->
  Permutation (List.filter (fun k => negb (f k =? 0)) d1) (List.filter (fun k => negb (f k =? 0)) d2).
Proof.
  intros [N1 C1] [N2 C2]. apply NoDup_Permutation; try (apply NoDup_filter; assumption).
  intros k. rewrite !filter_In. split; intros [_ Hk]; (split; [|exact Hk]);
    [apply C2|apply C1]; intros E; rewrite E in Hk; discriminate.
Qed.

Theorem Total_unique f n m : Total f n -> Total f m -> n = m.
Proof.
  intros (d1 & C1 & <-) (d2 & C2 & <-).
  rewrite (fsum_filter d1), (fsum_filter d2). apply fsum_perm. apply covers_filter_perm; assumption.
Qed.

Lemma Total_ext f g n : (forall k, f k = g k) -> Total f n -> Total g n.
Proof.
  intros E (d & [Nd C] & <-). exists d. split; [split; [exact Nd|intros k Hk; apply C; rewrite E; exact Hk]|].
  apply fsum_ext. intros; symmetry; apply E.
Qed.

Lemma Total_zero : Total (fun _ : A => 0) 0.
Proof. exists []. split; [split; [constructor|intros k H; congruence]|reflexivity]. Qed.

Lemma Total_zero_iff f : (forall k, f k = 0) -> Total f 0.
Proof. intros H. eapply Total_ext; [|apply Total_zero]. intros; symmetry; apply H. Qed.

Lemma Total_ge f n k : Total f n -> f k <= n.
Proof.
  intros (d & [Nd C] & <-). destruct (N.eq_dec (f k) 0) as [E|E]; [lia|].
  destruct (fsum_split d f k Nd (C k E)) as (d' & P & _). rewrite (fsum_perm _ _ f P). cbn. lia.
Qed.

(** Changing the function at one point. *)
Lemma Total_upd f n k v : Total f n -> exists m, Total (upd f k v) m /\ m + f k = n + v.
Proof.
  intros (d & [Nd C] & <-).
  assert (Hin : exists d2, List.NoDup d2 /\ In k d2 /\ (forall j, In j d -> In j d2) /\ fsum d2 f = fsum d f).
  { destruct (in_dec adec k d) as [I|I]; [exists d; auto|].
    exists (k :: d). split; [constructor; assumption|]. split; [left; reflexivity|]. split; [intros; right; assumption|].
    cbn. destruct (N.eq_dec (f k) 0) as [E|E]; [lia|]. elim I. apply C. exact E. }
  destruct Hin as (d2 & Nd2 & Ik & Sub & Es). rewrite <- Es.
  destruct (fsum_split d2 f k Nd2 Ik) as (d' & P & Nd' & Nk).
  exists (v + fsum d' f). split.
  - exists (k :: d'). split.
    + split; [constructor; assumption|]. intros j Hj. unfold upd in Hj.
      destruct (decide (j = k)) as [->|Hne]; [left; reflexivity|].
      apply (Permutation_in _ P). apply Sub. apply C. exact Hj.
    + cbn. unfold upd at 1. destruct (decide (k = k)); [|congruence]. f_equal.
      apply fsum_ext. intros j Hj. unfold upd. destruct (decide (j = k)) as [->|]; [contradiction|reflexivity].
  - rewrite (fsum_perm _ _ f P). cbn. lia.
Qed.

Lemma Total_same f n k v : Total f n -> v = f k -> Total (upd f k v) n.
Proof.
  intros T ->. eapply Total_ext; [|exact T]. intros j. unfold upd. destruct (decide (j = k)) as [->|]; reflexivity.
Qed.

Lemma Total_pos f n k : Total f n -> 1 <= f k -> 1 <= n.
Proof. intros T H. pose proof (Total_ge f n k T). lia. Qed.

(** Pointwise sum. *)
Lemma Total_add f g n m : Total f n -> Total g m -> Total (fun k => f k + g k) (n + m).
Proof.
  intros (d1 & [N1 C1] & <-) (d2 & [N2 C2] & <-).
  set (d := nodup adec (d1 ++ d2)).
  assert (Nd : List.NoDup d) by apply NoDup_nodup.
  assert (Cf : covers f d).
  { split; [exact Nd|]. intros k Hk. apply nodup_In, in_or_app. left. apply C1. exact Hk. }
  assert (Cg : covers g d).
  { split; [exact Nd|]. intros k Hk. apply nodup_In, in_or_app. right. apply C2. exact Hk. }
  exists d. split.
  - split; [exact Nd|]. intros k Hk. destruct (N.eq_dec (f k) 0) as [E|E]; [|apply Cf; exact E].
    apply Cg. lia.
  - assert (E1 : fsum d1 f = fsum d f) by (apply (Total_unique f); [exists d1|exists d]; auto; split; auto; split; auto).
    assert (E2 : fsum d2 g = fsum d g) by (apply (Total_unique g); [exists d2|exists d]; auto; split; auto; split; auto).
    rewrite E1, E2. clear. induction d as [|k d IH]; cbn; [reflexivity|]. rewrite IH. lia.
Qed.

(** Pointwise order. *)
Lemma Total_le f g n m : (forall k, f k <= g k) -> Total f n -> Total g m -> n <= m.
Proof.
  intros Hle (d1 & [N1 C1] & <-) (d2 & [N2 C2] & <-).
  set (d := nodup adec (d1 ++ d2)).
  assert (Nd : List.NoDup d) by apply NoDup_nodup.
  assert (E1 : fsum d1 f = fsum d f).
  { apply (Total_unique f); [exists d1|exists d]; (split; [split|reflexivity]); auto.
    intros k Hk. apply nodup_In, in_or_app. left. apply C1. exact Hk. }
  assert (E2 : fsum d2 g = fsum d g).
  { apply (Total_unique g); [exists d2|exists d]; (split; [split|reflexivity]); auto.
    intros k Hk. apply nodup_In, in_or_app. right. apply C2. exact Hk. }
  rewrite E1, E2. clear -Hle. induction d as [|k d IH]; cbn; [lia|]. pose proof (Hle k). lia.
Qed.

End Sum.
