(** * ASModel.Typed — every reachable stack is well typed; no step produces [FBadChoice]
    out of [exec], [resume] or [unwind]: a waiting frame is never executed and every waiting
    frame receives the kind of value it expects. *)
From Coq Require Import Lia.
From ASModel Require Import Base State Orderings_gen Step Run Progress Hist Inv InvTl InvProto
  InvStep StepCases Typed1.

Definition Typed (s : state) : Prop :=
  forall t, t_status (thr s t) = Running -> typed_stack (t_stack (thr s t)) = true.

Theorem Typed_init inits progs : Typed (init_state inits progs).
Proof.
  intros t _. cbn.
  destruct (init_threads_stack progs 0 (fun _ => no_thread) t) as (Hs & _); [cbn; auto|].
  rewrite Hs. reflexivity.
Qed.

(** The acting thread after the step of its top frame. *)
Lemma thread_after_typed cf th l1 rest nx p :
  next_ok (out_kinds p) nx -> chain (out_kinds p) rest = true ->
  t_status (thread_after cf th l1 rest nx) = Running ->
  typed_stack (t_stack (thread_after cf th l1 rest nx)) = true.
Proof.
  intros Hn Hc. unfold thread_after. destruct nx as [p'|fs w|v|ps|f]; cbn in Hn |- *.
  - intros _. destruct Hn as [Hw Hi]. eapply typed_goto; eassumption.
  - intros _. destruct Hn as (Ht & _ & Hi). eapply typed_push; eassumption.
  - pose proof (unwind_typed cf rest l1 v _ Hn Hc) as Hu.
    destruct (unwind cf l1 rest v); cbn; intros Hr; try discriminate Hr; try reflexivity. exact Hu.
  - discriminate.
  - discriminate.
Qed.

(** [Typed] is inductive on its own (the structural invariant is not needed). *)
Theorem step_Typed0 cf s t x : Typed s -> Typed (fst (step cf s t x)).
Proof.
  intros T t'. destruct (N.eq_dec t' t) as [->|Hne]; [|rewrite step_status_other by exact Hne; apply T].
  destruct (step_cases cf s t x) as [Hs|c s1 l1 stk r Hr Hst Hc Hen Hcs Hs|n Hr Hst Hn Hs|Hr Hst Hn Hs
                                    |p rest s1 l1 evs nx Hr Hst He Hs]; rewrite Hs.
  - apply T.
  - unfold set_thread. cbn. rewrite upd_same. intros _.
    pose proof (cmd_start_typed _ _ _ _ _ _ _ _ Hcs) as Ht.
    unfold start_thread. destruct stk; [reflexivity|exact Ht].
  - unfold set_thread. cbn. rewrite upd_same. intros _. reflexivity.
  - unfold set_thread. cbn. rewrite upd_same. cbn. discriminate.
  - cbn. rewrite upd_same. pose proof (T t Hr) as Ht. rewrite Hst in Ht.
    apply (thread_after_typed cf (thr s t) l1 rest nx p).
    + eapply exec_ok; [exact (typed_top _ _ Ht)|exact He].
    + exact (typed_chain _ _ Ht).
Qed.

Theorem step_Typed cf s t x : WF2 s -> Typed s -> Typed (fst (step cf s t x)).
Proof. intros _. apply step_Typed0. Qed.

(** ** Runs *)
Lemma run_state_Typed cf : forall sched s, Typed s -> Typed (run_state cf s sched).
Proof.
  induction sched as [|[t x] sched IH]; intros s T; [exact T|].
  change (run_state cf s ((t, x) :: sched)) with (run_state cf (fst (step cf s t x)) sched).
  apply IH. apply step_Typed0. exact T.
Qed.

Lemma run_fst cf : forall sched s, fst (run cf s sched) = run_state cf s sched.
Proof.
  induction sched as [|[t x] sched IH]; intros s; [reflexivity|].
  change (run_state cf s ((t, x) :: sched)) with (run_state cf (fst (step cf s t x)) sched).
  rewrite <- IH. cbn [run]. destruct (step cf s t x) as [s1 evs]. cbn [fst].
  destruct (run cf s1 sched). reflexivity.
Qed.

Theorem run_WF2_Typed cf inits progs sched :
  WF2 (run_state cf (init_state inits progs) sched) /\
  Typed (run_state cf (init_state inits progs) sched).
Proof.
  split.
  - rewrite <- run_fst. apply (run_WF2 cf sched _ (WF2_init inits progs)).
  - apply run_state_Typed. apply Typed_init.
Qed.

(** ** No [FBadChoice] out of [exec], [resume], [unwind] *)
Theorem no_bad_choice0 cf s t x p rest s1 l1 evs nx :
  Typed s ->
  t_status (thr s t) = Running -> t_stack (thr s t) = p :: rest ->
  exec cf (sh s) (t_loc (thr s t)) p x = (s1, l1, evs, nx) ->
  nx <> NFault FBadChoice /\
  (forall v, nx = NRet v -> forall l2, unwind cf l1 rest v <> UFault l2 FBadChoice).
Proof.
  intros T Hr Hst He. pose proof (T t Hr) as Ht. rewrite Hst in Ht.
  pose proof (exec_ok _ _ _ _ _ _ _ _ _ (typed_top _ _ Ht) He) as Hn. split.
  - eapply next_ok_no_bad; exact Hn.
  - intros v -> l2 Hu. cbn in Hn.
    pose proof (unwind_typed cf rest l1 v _ Hn (typed_chain _ _ Ht)) as Hk.
    rewrite Hu in Hk. apply Hk. reflexivity.
Qed.

Theorem no_bad_choice cf s t x p rest s1 l1 evs nx :
  WF2 s -> Typed s ->
  t_status (thr s t) = Running -> t_stack (thr s t) = p :: rest ->
  exec cf (sh s) (t_loc (thr s t)) p x = (s1, l1, evs, nx) ->
  nx <> NFault FBadChoice /\
  (forall v, nx = NRet v -> forall l2, unwind cf l1 rest v <> UFault l2 FBadChoice).
Proof. intros _. apply no_bad_choice0. Qed.

(** The same for the individual [resume]s inside [unwind]: below a frame that returns a
    value of one of its result kinds, the next frame (if it is not a bottom frame) accepts it
    and does not answer [FBadChoice]. *)
Theorem resume_no_bad_choice cf l p w rest v :
  typed_stack (p :: w :: rest) = true -> In (ret_kind v) (out_kinds p) -> is_bottom w = false ->
  accepts w (ret_kind v) = true /\ snd (resume cf l w v) <> NFault FBadChoice.
Proof.
  intros Ht Hin Hb. pose proof (chain_accepts _ _ _ _ (typed_chain _ _ Ht) Hin) as Ha.
  split; [exact Ha|]. destruct (resume cf l w v) as [l' nx] eqn:Hr.
  eapply next_ok_no_bad. eapply resume_ok; eassumption.
Qed.

(** ** Event level: a step of an enabled thread never emits [EvFault FBadChoice] *)
Definition plain_ev (e : event) : Prop :=
  match e with EvFault _ | EvPanic _ => False | _ => True end.

Lemma rc_inc_evs s a s' evs : rc_inc s a = Some (s', evs) -> Forall plain_ev evs.
Proof. unfold rc_inc. destruct (heap s a); [|discriminate]. intros H. injection H as <- <-. repeat constructor. Qed.
Lemma rc_dec_evs s a s' evs : rc_dec s a = Some (s', evs) -> Forall plain_ev evs.
Proof.
  unfold rc_dec. destruct (heap s a); [|discriminate]. destruct (_ =? 1); intros H; injection H as <- <-; repeat constructor.
Qed.
Lemma rc_alloc_evs s a s' evs : rc_alloc s a = Some (s', evs) -> Forall plain_ev evs.
Proof.
  unfold rc_alloc. destruct (heap s a); [discriminate|]. destruct (valid_addr a); [|discriminate].
  intros H. injection H as <- <-. repeat constructor.
Qed.

Lemma exec_evs_plain cf s l p x s' l' evs nx :
  exec cf s l p x = (s', l', evs, nx) -> Forall plain_ev evs.
Proof.
  intros He. destruct p;
    unfold exec in He; unfold a_load, a_store, a_swap, a_cas, a_fadd, a_fsub in He; cbn in He;
    destr_in He; try discriminate He; injection He as <- <- <- <-;
    try (repeat constructor; fail);
    match goal with
    | H : rc_inc _ _ = Some (_, ?e) |- Forall _ ?e => exact (rc_inc_evs _ _ _ _ H)
    | H : rc_dec _ _ = Some (_, ?e) |- Forall _ ?e => exact (rc_dec_evs _ _ _ _ H)
    | H : rc_alloc _ _ = Some (_, ?e) |- Forall _ ?e => exact (rc_alloc_evs _ _ _ _ H)
    end.
Qed.

Theorem step_no_bad_choice cf s t x :
  Typed s -> enabled s t = true -> ~ In (EvFault FBadChoice) (snd (step cf s t x)).
Proof.
  intros T Hen. unfold enabled in Hen. unfold step.
  destruct (t_status (thr s t)) eqn:Hr; try discriminate Hen.
  destruct (t_stack (thr s t)) as [|p rest] eqn:Hst.
  - destruct (nth_error _ _) as [c|].
    + rewrite Hen. destruct (cmd_start cf s (t_loc (thr s t)) c) as [[[[s' l'] stk] r]|ps].
      * destruct stk; cbn; intros Hin; intuition discriminate.
      * cbn. intros Hin; intuition discriminate.
    + destruct (tl_node _); cbn; intros Hin; intuition discriminate.
  - destruct (exec cf (sh s) (t_loc (thr s t)) p x) as [[[s1 l1] evs] nx] eqn:He.
    destruct (no_bad_choice0 cf s t x p rest s1 l1 evs nx) as [Hn Hu]; try assumption.
    pose proof (exec_evs_plain _ _ _ _ _ _ _ _ _ He) as Hp.
    assert (Hevs : ~ In (EvFault FBadChoice) evs).
    { intros Hin. exact (proj1 (Forall_forall _ _) Hp _ Hin). }
    unfold finish. destruct nx as [p'|fs w|v|ps|f]; cbn; try exact Hevs.
    + specialize (Hu v eq_refl).
      destruct (unwind cf l1 rest v) as [| | | |l2 f]; cbn; try exact Hevs;
        intros Hin; apply in_app_or in Hin as [Hin|[Hin|[]]]; try (exact (Hevs Hin)); try discriminate Hin.
      injection Hin as ->. exact (Hu l2 eq_refl).
    + intros Hin; apply in_app_or in Hin as [Hin|[Hin|[]]]; [exact (Hevs Hin)|discriminate Hin].
    + intros Hin; apply in_app_or in Hin as [Hin|[Hin|[]]]; [exact (Hevs Hin)|].
      injection Hin as ->. apply Hn. reflexivity.
Qed.

(** Whole runs: as long as the scheduler only picks enabled threads, [FBadChoice] never occurs. *)
Fixpoint sched_enabled (cf : config) (s : state) (sched : list (N * N)) : Prop :=
  match sched with
  | [] => True
  | (t, x) :: rest => enabled s t = true /\ sched_enabled cf (fst (step cf s t x)) rest
  end.

Lemma run_no_bad_choice_from cf : forall sched s,
  Typed s -> sched_enabled cf s sched ->
  forall te, In te (snd (run cf s sched)) -> ~ In (EvFault FBadChoice) (snd te).
Proof.
  induction sched as [|[t x] sched IH]; intros s T Hen te; [intros []|].
  destruct Hen as [Hen Hrest]. cbn [run].
  pose proof (step_no_bad_choice cf s t x T Hen) as Hs.
  pose proof (step_Typed0 cf s t x T) as T1.
  destruct (step cf s t x) as [s1 evs]. cbn [fst snd] in *.
  specialize (IH s1 T1 Hrest). destruct (run cf s1 sched) as [s2 tr]. cbn [fst snd] in *.
  intros [<-|Hin]; [exact Hs|apply IH; exact Hin].
Qed.

Theorem run_no_bad_choice cf inits progs sched :
  sched_enabled cf (init_state inits progs) sched ->
  forall te, In te (snd (run cf (init_state inits progs) sched)) -> ~ In (EvFault FBadChoice) (snd te).
Proof. apply run_no_bad_choice_from. apply Typed_init. Qed.

Print Assumptions Typed_init.
Print Assumptions step_Typed.
Print Assumptions run_WF2_Typed.
Print Assumptions no_bad_choice.
Print Assumptions resume_no_bad_choice.
Print Assumptions step_no_bad_choice.
Print Assumptions run_no_bad_choice.

(** Sanity: the discipline rejects ill-formed stacks. *)
Example ill_typed_1 : typed_stack [GHead; WLoadFull; KDone None] = false. Proof. reflexivity. Qed.
Example ill_typed_2 : typed_stack [WSwap 0; KDone None] = false. Proof. reflexivity. Qed.
Example ill_typed_3 : typed_stack [C1 0; WExit RUnit; WDropOld; KDone None] = false. Proof. reflexivity. Qed.
Example ill_typed_4 : typed_stack [GD1 0 (0, 0); WRcuPanic; WRcuInto 0 None; KDone None] = false. Proof. reflexivity. Qed.
Example well_typed_1 : typed_stack [GD1 0 (0, 0); WRcuPanic; KDone (Some 1)] = true. Proof. reflexivity. Qed.
Example well_typed_2 :
  typed_stack [C1 0; WExit (RGuard 5 None); WLoadFull; WHelpRepl 0 0 0 0; WSwap 7; WDropOld; KDone None] = true.
Proof. reflexivity. Qed.
