(** * ASModel.Typed1 — a typing discipline for stacks (frame level).

    Every frame has a set of kinds of values it may eventually hand to the frame below it
    ([out_kinds]: for a waiting frame, after it was resumed), every waiting frame has a set
    of kinds it accepts ([accepts], read off [resume]).  A stack is well typed when its top
    frame is not waiting and every frame's result kinds are accepted by the frame below.
    [exec] and [resume] preserve this and never produce [FBadChoice] on well-typed input. *)
From Coq Require Import Lia.
From ASModel Require Import Base State Orderings_gen Step Run Inv.

(** ** Kinds of returned values *)
Inductive kind := KNode | KGuard | KOwned | KUnit | KPanic.

Definition ret_kind (v : retval) : kind :=
  match v with
  | RUnit => KUnit
  | RNode _ => KNode
  | RGuard _ _ => KGuard
  | ROwned _ => KOwned
  | RPanic => KPanic
  end.

(** The result of one attempt chain of [rcu]: the new owner, or the closure's panic. *)
Definition rcu_kinds : list kind := [KOwned; KPanic].

(** ** What a frame eventually returns to the frame below it.  Frames that never return
    directly (S1, K1, RAlloc, RInc, Q1 push a waiting frame in their place) get the kinds of
    that waiting frame; bottom frames hand nothing down. *)
Definition out_kinds (p : pc) : list kind :=
  match p with
  | GHead | GCool1 _ | GCool2 _ | GCool3 _ | GBack _ | GClaim _ | GPush0 | GPush _ => [KNode]
  | C1 _ | C2 _ | C3 _ => [KUnit]
  | LA1 _ | LA1d _ _ | LAscan _ _ _ | LA3 _ _ _ | LA4 _ _ _ | LA5 _ _ _ | LA6 _ _
  | LH0d _ | LH1 _ _ | LH2 _ _ | LH3 _ _ | LH3d _ _ _ | LH4 _ _ _ | LH5 _ _ _
  | LH6a _ | LH6b _ | LH6c _ | LH7 _ _ | LH8 _ _ _ | LH9 _ _ | LH10 _ _ => [KGuard]
  | PDec _ r => [ret_kind r]
  | GD1 _ _ => [KUnit]
  | GI1 _ _ | GI2 _ _ => [KOwned]
  | P1 _ _ | P2 _ _ | P3 _ _ _ | PE0d _ _ _ | PE0e _ _ _ | PE1 _ _ _ | PE2 _ _ _ _ | PE3 _ _ _ _
  | PE4 _ _ _ _ _ | PE5 _ _ _ _ _ _ | PE6 _ _ _ _ _ _ _ | PE7 _ _ _ _ _ _ _ | PE8 _ _ _ _
  | PE9 _ _ _ _ _ | PS _ _ _ _ | PSi _ _ _ _ | P5 _ _ _ | P6 _ _ => [KUnit]
  | S1 _ _ => [KOwned]
  | K1 _ _ _ _ _ => [KGuard]
  | RAlloc _ _ _ _ | RInc _ _ _ _ => rcu_kinds
  | Q1 _ _ _ => [KOwned]
  | NewAlloc | CloneInc _ => [KOwned]
  | WGetLoad _ => [KGuard]
  | WGetPay _ _ => [KUnit]
  | WGetSetGen _ => [KUnit]
  | WExit r => [ret_kind r]
  | WLoadFull => [KOwned]
  | WHelpRepl _ _ _ _ => [KUnit]
  | WSwap _ => [KOwned]
  | WDropOld => [KUnit]
  | WCasLoad _ _ _ | WCasPaid _ _ | WCasRetry _ _ _ => [KGuard]
  | WRcuLoad _ _ | WRcuCas _ _ _ _ | WRcuNext _ _ _ _ => rcu_kinds
  | WRcuInto _ _ | WRcuRet _ => [KOwned]
  | WRcuPanic => [KPanic]
  | WInto _ => [KOwned]
  | WDropStore _ => [KUnit]
  | WCacheReload _ _ _ => [KOwned]
  | WThreadExit | KDone _ | KCacheDone _ _ => []
  end.

Definition is_node (k : kind) : bool := match k with KNode => true | _ => false end.
Definition is_guard (k : kind) : bool := match k with KGuard => true | _ => false end.
Definition is_owned (k : kind) : bool := match k with KOwned => true | _ => false end.

(** ** What a frame accepts from its callee (non-waiting frames have no callee). *)
Definition accepts (w : pc) (k : kind) : bool :=
  match w with
  | WGetLoad _ | WGetPay _ _ | WGetSetGen _ => is_node k
  | WLoadFull | WCasLoad _ _ _ | WRcuLoad _ _ | WRcuCas _ _ _ _ => is_guard k
  | WHelpRepl _ _ _ _ | WDropOld | WRcuInto _ _ | WCacheReload _ _ _ => is_owned k
  | WExit _ | WSwap _ | WCasPaid _ _ | WCasRetry _ _ _ | WRcuRet _ | WRcuNext _ _ _ _
  | WRcuPanic | WInto _ | WDropStore _ => true
  | KDone _ | KCacheDone _ _ | WThreadExit => true
  | _ => false
  end.

(** ** Well-typed stacks (executable) *)
Fixpoint chain (outs : list kind) (stk : list pc) : bool :=
  match stk with
  | [] => true
  | w :: rest => forallb (accepts w) outs && chain (out_kinds w) rest
  end.

Definition typed_stack (stk : list pc) : bool :=
  match stk with
  | [] => true
  | p :: rest => negb (is_waiting p) && chain (out_kinds p) rest
  end.

(** The frame-level postcondition: what replaces a frame returns no more than the frame. *)
Definition next_ok (outs : list kind) (nx : next) : Prop :=
  match nx with
  | NGoto p => is_waiting p = false /\ incl (out_kinds p) outs
  | NPush fs w => typed_stack (fs ++ [w]) = true /\ is_waiting w = true /\ incl (out_kinds w) outs
  | NRet v => In (ret_kind v) outs
  | NPanic _ => True
  | NFault f => f <> FBadChoice
  end.

(** ** Structure of [chain] *)
Lemma forallb_incl {A} (f : A -> bool) a b : incl a b -> forallb f b = true -> forallb f a = true.
Proof.
  intros Hi Hb. apply forallb_forall. intros x Hx.
  exact (proj1 (forallb_forall f b) Hb x (Hi x Hx)).
Qed.

Lemma chain_mono outs outs' stk : incl outs' outs -> chain outs stk = true -> chain outs' stk = true.
Proof.
  destruct stk as [|w rest]; [reflexivity|]. cbn. intros Hi H.
  apply andb_true_iff in H as [H1 H2]. apply andb_true_iff. split; [|exact H2].
  eapply forallb_incl; eassumption.
Qed.

Lemma chain_app : forall fs outs w rest,
  chain outs (fs ++ [w]) = true -> chain (out_kinds w) rest = true ->
  chain outs (fs ++ w :: rest) = true.
Proof.
  induction fs as [|f fs IH]; intros outs w rest H1 H2; cbn in *.
  - apply andb_true_iff in H1 as [H1 _]. rewrite H1. exact H2.
  - apply andb_true_iff in H1 as [Ha Hb]. rewrite Ha. cbn. apply IH; assumption.
Qed.

Lemma chain_accepts outs w rest k :
  chain outs (w :: rest) = true -> In k outs -> accepts w k = true.
Proof.
  cbn. intros H Hk. apply andb_true_iff in H as [H _].
  exact (proj1 (forallb_forall _ _) H k Hk).
Qed.

Lemma chain_tail outs w rest : chain outs (w :: rest) = true -> chain (out_kinds w) rest = true.
Proof. cbn. intros H. apply andb_true_iff in H as [_ H]. exact H. Qed.

Lemma typed_goto p outs rest :
  is_waiting p = false -> incl (out_kinds p) outs -> chain outs rest = true ->
  typed_stack (p :: rest) = true.
Proof.
  intros Hw Hi Hc. cbn. rewrite Hw. cbn. eapply chain_mono; eassumption.
Qed.

Lemma typed_push fs w outs rest :
  typed_stack (fs ++ [w]) = true -> incl (out_kinds w) outs -> chain outs rest = true ->
  typed_stack (fs ++ w :: rest) = true.
Proof.
  intros Ht Hi Hc. pose proof (chain_mono _ _ _ Hi Hc) as Hc'.
  destruct fs as [|f fs]; cbn in *.
  - apply andb_true_iff in Ht as [Ht _]. rewrite Ht. exact Hc'.
  - apply andb_true_iff in Ht as [Ha Hb]. rewrite Ha. cbn. apply chain_app; assumption.
Qed.

Lemma typed_top p rest : typed_stack (p :: rest) = true -> is_waiting p = false.
Proof. cbn. intros H. apply andb_true_iff in H as [H _]. destruct (is_waiting p); [discriminate|reflexivity]. Qed.

Lemma typed_chain p rest : typed_stack (p :: rest) = true -> chain (out_kinds p) rest = true.
Proof. cbn. intros H. apply andb_true_iff in H as [_ H]. exact H. Qed.

Lemma next_ok_mono outs outs' nx : incl outs outs' -> next_ok outs nx -> next_ok outs' nx.
Proof.
  intros Hi. destruct nx; cbn; auto.
  - intros [H1 H2]. split; [exact H1|]. eapply incl_tran; eassumption.
  - intros (H1 & H2 & H3). repeat split; try assumption. eapply incl_tran; eassumption.
Qed.

(** ** The helper functions of [Step] *)
Ltac destr_goal :=
  repeat match goal with
         | |- context [match ?e with _ => _ end] => destruct e eqn:?
         | |- context [if ?b then _ else _] => destruct b eqn:?
         end.
Ltac destr_in H :=
  repeat match type of H with
         | context [match ?e with _ => _ end] => destruct e eqn:?
         | context [if ?b then _ else _] => destruct b eqn:?
         end.

Ltac incl_tac :=
  first [ apply incl_refl
        | intros ? [<-|[]]; cbn; auto
        | intros ? [<-|[<-|[]]]; cbn; auto ].

Lemma dec_then_ok a r outs : In (ret_kind r) outs -> next_ok outs (dec_then a r).
Proof.
  intros H. unfold dec_then. destruct (a =? 0); cbn; [exact H|].
  split; [reflexivity|]. intros k [<-|[]]. exact H.
Qed.

Lemma with_exit_ok l r l' nx outs :
  with_exit l r = (l', nx) -> In (ret_kind r) outs -> next_ok outs nx.
Proof.
  unfold with_exit. intros H Hin. destr_in H; injection H as <- <-; cbn; try exact Hin.
  repeat split. intros k [<-|[]]. exact Hin.
Qed.

Lemma fallback_entry_ok cf l c l' nx : fallback_entry cf l c = (l', nx) -> next_ok [KGuard] nx.
Proof.
  unfold fallback_entry. intros H. destr_in H; injection H as <- <-; cbn; auto using incl_refl.
Qed.

Lemma gen_step_ok cf l c l' nx : gen_step cf l c = (l', nx) -> next_ok [KGuard] nx.
Proof.
  unfold gen_step. intros H. destr_in H; injection H as <- <-; cbn; auto using incl_refl.
Qed.

Lemma load_body_ok cf l c l' nx : load_body cf l c = (l', nx) -> next_ok [KGuard] nx.
Proof.
  unfold load_body. intros H. destruct (cf_use_fast cf).
  - injection H as <- <-. cbn. auto using incl_refl.
  - eapply fallback_entry_ok; eassumption.
Qed.

Lemma enter_load_ok cf l c l' fs :
  enter_load cf l c = inl (l', fs) ->
  forall ws, chain [KGuard] ws = true -> typed_stack (fs ++ ws) = true.
Proof.
  unfold enter_load. intros H ws Hws. destruct (tl_node l).
  - destruct (load_body cf _ c) as [l2 nx] eqn:Hb. apply load_body_ok in Hb.
    destruct nx; try discriminate. injection H as <- <-. cbn in Hb. destruct Hb as [Hw Hi].
    cbn [app]. eapply typed_goto; eassumption.
  - injection H as <- <-. cbn [app typed_stack is_waiting out_kinds chain negb andb].
    cbn [forallb accepts is_node andb]. exact Hws.
Qed.

Lemma enter_pay_ok l c old l' fs :
  enter_pay l c old = (l', fs) ->
  forall ws, chain [KUnit] ws = true -> typed_stack (fs ++ ws) = true.
Proof.
  unfold enter_pay, pay_body. intros H ws Hws. destruct (tl_node l); injection H as <- <-.
  - destruct (old =? 0); cbn; exact Hws.
  - cbn. exact Hws.
Qed.

Lemma guard_drop_cases p d :
  guard_drop_frames p d = [] \/
  exists f, guard_drop_frames p d = [f] /\ is_waiting f = false /\ out_kinds f = [KUnit].
Proof.
  unfold guard_drop_frames. destruct d as [sl|]; [right; eexists; repeat split|].
  destruct (p =? 0); [left; reflexivity|right; eexists; repeat split].
Qed.

Lemma guard_into_cases p d :
  guard_into_frames p d = [] \/
  exists f, guard_into_frames p d = [f] /\ is_waiting f = false /\ out_kinds f = [KOwned].
Proof.
  unfold guard_into_frames. destruct d as [sl|]; [|left; reflexivity].
  destruct (p =? 0); right; eexists; repeat split.
Qed.

Lemma single_typed f k ws :
  is_waiting f = false -> out_kinds f = [k] -> chain [k] ws = true -> typed_stack (f :: ws) = true.
Proof. intros Hw Ho Hc. cbn. rewrite Hw, Ho. exact Hc. Qed.

Lemma help_dispatch_ok cf l c old w ctl : next_ok [KUnit] (help_dispatch cf l c old w ctl).
Proof. unfold help_dispatch. destr_goal; cbn; auto using incl_refl. Qed.

Lemma after_slot_ok c old w j : next_ok [KUnit] (after_slot c old w j).
Proof. unfold after_slot. destr_goal; cbn; auto using incl_refl. Qed.

(** Closing tactic for goals [next_ok outs nx] once all case distinctions are made. *)
Ltac drop_frames_tac H :=
  match type of H with
  | guard_drop_frames ?p ?d = _ =>
      let f := fresh "f" in let Hf := fresh "Hf" in let Hw := fresh "Hw" in let Ho := fresh "Ho" in
      destruct (guard_drop_cases p d) as [Hf|(f & Hf & Hw & Ho)]; rewrite Hf in H;
      [discriminate H|injection H as <- <-];
      cbn [app]; repeat split; [eapply single_typed; [exact Hw|exact Ho|reflexivity]|incl_tac]
  | guard_into_frames ?p ?d = _ =>
      let f := fresh "f" in let Hf := fresh "Hf" in let Hw := fresh "Hw" in let Ho := fresh "Ho" in
      destruct (guard_into_cases p d) as [Hf|(f & Hf & Hw & Ho)]; rewrite Hf in H;
      [discriminate H|injection H as <- <-];
      cbn [app]; repeat split; [eapply single_typed; [exact Hw|exact Ho|reflexivity]|incl_tac]
  end.

Ltac fin :=
  match goal with
  | H : with_exit _ _ = (_, ?n) |- next_ok _ ?n => eapply with_exit_ok; [exact H|cbn; auto]
  | H : fallback_entry _ _ _ = (_, ?n) |- next_ok _ ?n => exact (fallback_entry_ok _ _ _ _ _ H)
  | H : gen_step _ _ _ = (_, ?n) |- next_ok _ ?n => exact (gen_step_ok _ _ _ _ _ H)
  | H : load_body _ _ _ = (_, ?n) |- next_ok _ ?n => exact (load_body_ok _ _ _ _ _ H)
  | |- next_ok _ (help_dispatch _ _ _ _ _ _) => apply help_dispatch_ok
  | |- next_ok _ (after_slot _ _ _ _) => apply after_slot_ok
  | |- next_ok _ (dec_then _ _) => apply dec_then_ok; cbn; auto
  | H : enter_load _ _ _ = inl (_, ?fs) |- next_ok _ (NPush (?fs ++ _) _) =>
      cbn [next_ok]; rewrite <- app_assoc; repeat split;
      [apply (enter_load_ok _ _ _ _ _ H); reflexivity|incl_tac]
  | H : enter_load _ _ _ = inl (_, ?fs) |- next_ok _ (NPush ?fs _) =>
      cbn [next_ok]; repeat split; [apply (enter_load_ok _ _ _ _ _ H); reflexivity|incl_tac]
  | H : enter_pay _ _ _ = (_, ?fs) |- next_ok _ (NPush ?fs _) =>
      cbn [next_ok]; repeat split; [apply (enter_pay_ok _ _ _ _ _ H); reflexivity|incl_tac]
  | H : guard_drop_frames _ _ = ?fs |- next_ok _ (NPush ?fs _) => cbn [next_ok]; drop_frames_tac H
  | H : guard_into_frames _ _ = ?fs |- next_ok _ (NPush ?fs _) => cbn [next_ok]; drop_frames_tac H
  | |- next_ok _ (NGoto _) => cbn; split; [reflexivity|incl_tac]
  | |- next_ok _ (NRet _) => cbn; auto
  | |- next_ok _ (NPanic _) => exact I
  | |- next_ok _ (NFault _) => cbn; discriminate
  end.

Lemma rcu_attempt_ok cf l c m p d l' nx :
  rcu_attempt cf l c m p d = (l', nx) -> next_ok rcu_kinds nx.
Proof.
  unfold rcu_attempt, rcu_kinds. intros H. destr_in H; injection H as <- <-; fin.
Qed.

(** ** The frame step *)
Lemma exec_ok cf s l p x s' l' evs nx :
  is_waiting p = false ->
  exec cf s l p x = (s', l', evs, nx) ->
  next_ok (out_kinds p) nx.
Proof.
  intros Hw He. destruct p; try discriminate Hw; clear Hw;
    unfold exec in He; unfold a_load, a_store, a_swap, a_cas, a_fadd, a_fsub in He; cbn in He;
    destr_in He; try discriminate He; injection He as <- <- <- <-;
    cbn [out_kinds]; unfold rcu_kinds; fin.
Qed.

(** ** Resuming a waiting frame with a value of an accepted kind *)
Lemma resume_ok cf l w v l' nx :
  is_bottom w = false -> accepts w (ret_kind v) = true ->
  resume cf l w v = (l', nx) ->
  next_ok (out_kinds w) nx.
Proof.
  intros Hb Ha H.
  destruct w; try discriminate Hb; try discriminate Ha; clear Hb;
    destruct v; try discriminate Ha; clear Ha; cbn in H;
    destr_in H; try discriminate H;
    cbn [out_kinds]; unfold rcu_kinds;
    try (eapply rcu_attempt_ok; exact H); try (eapply load_body_ok; exact H);
    injection H as <- <-;
    try (match goal with
         | H : guard_into_frames ?p ?d = ?f :: _ |- next_ok _ (NGoto ?f) =>
             let Hf := fresh in let Hw := fresh in let Ho := fresh in
             destruct (guard_into_cases p d) as [Hf|(? & Hf & Hw & Ho)]; rewrite Hf in H;
             [discriminate H|injection H as <- <-]; cbn; split; [exact Hw|rewrite Ho; apply incl_refl]
         | H : rcu_attempt _ _ _ _ _ _ = (_, ?n) |- next_ok _ ?n => exact (rcu_attempt_ok _ _ _ _ _ _ _ _ H)
         end; fail);
    try (unfold pay_body; destruct (_ =? 0));
    fin.
Qed.

Lemma next_ok_no_bad outs nx : next_ok outs nx -> nx <> NFault FBadChoice.
Proof. intros H ->. apply H. reflexivity. Qed.

(** ** Handing a value down a well-typed stack *)
Lemma unwind_bottom cf l w rest v :
  is_bottom w = true ->
  match unwind cf l (w :: rest) v with UDone _ _ _ | UExit _ => True | _ => False end.
Proof. destruct w; try discriminate; intros _; exact I. Qed.

Lemma unwind_cons cf l w rest v :
  is_bottom w = false ->
  unwind cf l (w :: rest) v =
    match resume cf l w v with
    | (l', NGoto p) => UStack l' (p :: rest)
    | (l', NPush frames wait) => UStack l' (frames ++ wait :: rest)
    | (l', NRet v') => unwind cf l' rest v'
    | (l', NPanic s) => UPanic l' s
    | (l', NFault f) => UFault l' f
    end.
Proof. destruct w; try discriminate; intros _; reflexivity. Qed.

Definition unwound_ok (u : unwound) : Prop :=
  match u with
  | UStack _ stk => typed_stack stk = true
  | UFault _ f => f <> FBadChoice
  | _ => True
  end.

Lemma unwind_typed cf : forall rest l v outs,
  In (ret_kind v) outs -> chain outs rest = true -> unwound_ok (unwind cf l rest v).
Proof.
  induction rest as [|w rest IH]; intros l v outs Hin Hc; [exact I|].
  destruct (is_bottom w) eqn:Hb.
  - pose proof (unwind_bottom cf l w rest v Hb) as H.
    destruct (unwind cf l (w :: rest) v); try contradiction; exact I.
  - rewrite unwind_cons by exact Hb.
    destruct (resume cf l w v) as [l' nx] eqn:Hr.
    pose proof (resume_ok cf l w v l' nx Hb (chain_accepts _ _ _ _ Hc Hin) Hr) as Hn.
    apply chain_tail in Hc.
    destruct nx as [p|fs w'|v'|ps|f]; cbn in Hn |- *.
    + destruct Hn as [Hw Hi]. eapply typed_goto; eassumption.
    + destruct Hn as (Ht & _ & Hi). eapply typed_push; eassumption.
    + eapply IH; eassumption.
    + exact I.
    + exact Hn.
Qed.

(** ** Starting a command *)
Lemma cmd_start_typed cf s l c s' l' stk r :
  cmd_start cf s l c = inl (s', l', stk, r) -> typed_stack stk = true.
Proof.
  intros H. destruct c; cbn in H; destr_in H; try discriminate H;
    injection H as <- <- <- <-; try reflexivity;
    try (match goal with
         | H : enter_load _ _ _ = inl (_, ?fs) |- typed_stack (?fs ++ _) = true =>
             apply (enter_load_ok _ _ _ _ _ H); reflexivity
         | H : enter_pay _ _ _ = (_, ?fs) |- typed_stack (?fs ++ _) = true =>
             apply (enter_pay_ok _ _ _ _ _ H); reflexivity
         | H : guard_drop_frames ?p ?d = ?f :: ?fs |- typed_stack (?f :: ?fs ++ _) = true =>
             let Hf := fresh in let Hw := fresh in let Ho := fresh in
             destruct (guard_drop_cases p d) as [Hf|(? & Hf & Hw & Ho)]; rewrite Hf in H;
             [discriminate H|injection H as <- <-]; cbn [app];
             eapply single_typed; [exact Hw|exact Ho|reflexivity]
         | H : guard_into_frames ?p ?d = ?f :: ?fs |- typed_stack (?f :: ?fs ++ _) = true =>
             let Hf := fresh in let Hw := fresh in let Ho := fresh in
             destruct (guard_into_cases p d) as [Hf|(? & Hf & Hw & Ho)]; rewrite Hf in H;
             [discriminate H|injection H as <- <-]; cbn [app];
             eapply single_typed; [exact Hw|exact Ho|reflexivity]
         end; fail).
Qed.
