(** * ASModel.WrpC03 — C03 / C12 / C13 for runs within [RunOKW]: a load keeps returning a value
    that its container held between the call and the return when the thread's generation
    counter wraps (and when it was preset with [CSetGen] as the thread's first command). *)
From Coq Require Import Lia.
From ASModel Require Import Base State Orderings_gen Step Run Progress Hist Inv InvTl InvProto InvStep Sum StepCases.
From ASModel Require Import GenDefs Gen1 Gen2 Gen EnvDefs Env4 Env.
From ASModel Require Import AccDefs Acc1 Acc2 Acc3 Acc4 Acc5 Acc6 Acc7 Acc.
From ASModel Require Import ProtDefs Prot1 Prot11 Prot16 Prot Typed LinDefs Lin2 Lin.
From ASModel Require Import Safe1 Safe2 Safe7 Safe8 Safe Main RunOKEx.
From ASModel Require Import WrpDefs WrpGen WrpEnv WrpMain WrpLin WrpEx.

Section LoadsW.
Variables (cf : config) (inits : list N) (progs : list (list cmd)) (sched : list (N * N)).
Hypothesis R : RunOKW cf inits progs sched.
Local Notation s0 := (init_state inits progs).

Lemma RunOKW_EnvFree : prefix_ok EnvFree cf s0 sched.
Proof. intros k. eapply EnvInvWQ_EnvFree. apply MasterW_EnvInvWQ. apply (RunOKW_MasterW _ _ _ _ R k). Qed.

Lemma RunOKW_EnvA : prefix_ok EnvA cf s0 sched.
Proof. intros k. eapply EnvInvWQ_EnvA. apply MasterW_EnvInvWQ. apply (RunOKW_MasterW _ _ _ _ R k). Qed.

Lemma RunOKW_len : 4 * N.of_nat (length sched) < WORD + 4.
Proof. pose proof (row_len _ _ _ _ R). lia. Qed.

(** Command number [i] of thread [t] is [load]/[load_full] of container [c] into handle [h];
    it starts with the step at position [pa] of the schedule and completes with the step at
    position [pb].  Then [h] holds a guard / an owned pointer on a value [v] that the
    container [c] stored in one of the states between the call and the return. *)
Theorem C03_load_linearizable_wrap t i cm c h pa pb xa tb xb :
  nth_error (t_prog (thr s0 t)) (N.to_nat i) = Some cm -> is_load_of cm c h ->
  (pa <= pb)%nat ->
  nth_error sched pa = Some (t, xa) ->
  t_status (thr (St cf s0 sched pa) t) = Running -> t_stack (thr (St cf s0 sched pa) t) = [] ->
  t_cmdi (thr (St cf s0 sched pa) t) = i ->
  nth_error sched pb = Some (tb, xb) ->
  t_cmdi (thr (St cf s0 sched pb) t) = i -> t_cmdi (thr (St cf s0 sched (S pb)) t) = i + 1 ->
  exists v, (match cm with
             | CLoad _ _ => exists d, hnd (St cf s0 sched (S pb)) h = HGuard v d
             | _ => hnd (St cf s0 sched (S pb)) h = HOwned v
             end) /\
    exists k, (pa + 1 <= k <= pb + 1)%nat /\ mem (sh (St cf s0 sched k)) (LStore c) = v.
Proof.
  unfold St. apply (load_linearizable_totalW cf inits progs (proj1 (row_progs _ _ _ _ R)) sched
                      RunOKW_len RunOKW_EnvFree RunOKW_EnvA (mw_nofault _ _ (RunOKW_MasterW_end _ _ _ _ R))).
Qed.

(** C12: a load returns a value of ITS OWN container. *)
Theorem C12_load_own_container_wrap t i c h full pa pb xa tb xb :
  nth_error (t_prog (thr s0 t)) (N.to_nat i) = Some (if full : bool then CLoadFull c h else CLoad c h) ->
  (pa <= pb)%nat ->
  nth_error sched pa = Some (t, xa) ->
  t_status (thr (St cf s0 sched pa) t) = Running -> t_stack (thr (St cf s0 sched pa) t) = [] ->
  t_cmdi (thr (St cf s0 sched pa) t) = i ->
  nth_error sched pb = Some (tb, xb) ->
  t_cmdi (thr (St cf s0 sched pb) t) = i -> t_cmdi (thr (St cf s0 sched (S pb)) t) = i + 1 ->
  exists v k, handle_ptr (hnd (St cf s0 sched (S pb)) h) = Some v /\
              (pa + 1 <= k <= pb + 1)%nat /\ mem (sh (St cf s0 sched k)) (LStore c) = v.
Proof.
  intros Hcm Hab Ha Hra Hsa Hia Hb Hib Hib'.
  assert (Hld : is_load_of (if full then CLoadFull c h else CLoad c h) c h) by (destruct full; [right|left]; reflexivity).
  destruct (C03_load_linearizable_wrap t i _ c h pa pb xa tb xb Hcm Hld Hab Ha Hra Hsa Hia Hb Hib Hib') as (v & Hh & k & Hk & Hm).
  exists v, k. split; [|split; assumption].
  destruct full; [rewrite Hh; reflexivity|destruct Hh as [d ->]; reflexivity].
Qed.
End LoadsW.

(** ** On the example run of WrpEx *)
(** The load that WRAPS the counter (command 3 of thread 0: generation 0, helped by the writer)
    starts with step 16 and completes with step 89; the guard is on a value that the container
    held in between. *)
Example wx_wrap_load_linearizable :
  exists v, (exists d, hnd (wx_St 90) 1 = HGuard v d) /\
    exists k, (17 <= k <= 90)%nat /\ mem (sh (wx_St k)) (LStore 0) = v.
Proof.
  apply (C03_load_linearizable_wrap wx_cf wx_inits wx_progs wx_sched RunOKW_example
           0 3 (CLoad 0 1) 0 1 16%nat 89%nat 0 0 0).
  all: try (vm_compute; reflexivity).
  - left. reflexivity.
  - lia.
Qed.

(** The load after the wrap (command 5: generation 4, on a node claimed out of cooldown). *)
Example wx_after_wrap_load_linearizable :
  exists v, (exists d, hnd (wx_St 106) 1 = HGuard v d) /\
    exists k, (93 <= k <= 106)%nat /\ mem (sh (wx_St k)) (LStore 0) = v.
Proof.
  apply (C03_load_linearizable_wrap wx_cf wx_inits wx_progs wx_sched RunOKW_example
           0 5 (CLoad 0 1) 0 1 92%nat 105%nat 0 0 0).
  all: try (vm_compute; reflexivity).
  - left. reflexivity.
  - lia.
Qed.

Print Assumptions C03_load_linearizable_wrap.
Print Assumptions C12_load_own_container_wrap.
Print Assumptions wx_wrap_load_linearizable.
Print Assumptions wx_after_wrap_load_linearizable.
