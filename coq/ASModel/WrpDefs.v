(** * ASModel.WrpDefs — the generation invariants THROUGH THE WRAP of the counter: definitions.

    [GenInv] (GenDefs) orders generations by [<=]: it holds only while no counter wraps
    ([GenBound]) and no program presets a counter ([NoSetGen]).  [GenInvW B] replaces the order
    by a modular AGE: a helper frame on node [w] with word [ctl] and the owner [th] of [w]
    satisfy [tl_gen th = (gen_of ctl + a) mod WORD] for an age [a <= B] ([a <> 0] while the
    owner has chosen, but not yet published, its next generation).  One step publishes at most
    one generation, so [B] grows by 4 per step; as long as [B < WORD] the age identifies the
    request: a later request of the same ownership epoch never carries the helper's word.  A
    node changes owner only when no writer holds a reservation in it ([W_inv], [no_claim]), so
    ages of different epochs never meet — in particular the epoch that starts with
    [verif::set_generation] ([CSetGen] as the FIRST command of a thread: the thread claims its
    node and presets the counter in one step).

    - [GenTopW]: [GenTop], or the stack is that of the hook [[get-frame; WGetSetGen g; KDone]]
      and the thread has no node yet;
    - [Fresh]: a thread that has not completed its first command has no node;
    - [SetGenFirst]: [CSetGen] occurs only as the first command of a program. *)
From Coq Require Import Lia.
From ASModel Require Import Base State Orderings_gen Step Run Progress Hist Inv InvTl InvProto InvStep Sum StepCases GenDefs.

(** Frames of [Node::get]. *)
Definition is_nget (p : pc) : bool :=
  match p with
  | GHead | GCool1 _ | GCool2 _ | GCool3 _ | GBack _ | GClaim _ | GPush0 | GPush _ => true
  | _ => false
  end.

Definition sg_stack (l : tlocal) (stk : list pc) : Prop :=
  exists p g, stk = [p; WGetSetGen g; KDone None] /\ is_nget p = true /\ tl_node l = None.

Definition GenTopW (s : state) : Prop :=
  forall t, t_status (thr s t) = Running ->
    Forall (gen_frame_ok (t_loc (thr s t))) (t_stack (thr s t)) \/
    sg_stack (t_loc (thr s t)) (t_stack (thr s t)).

Definition Fresh (s : state) : Prop :=
  forall t, t_status (thr s t) = Running -> t_cmdi (thr s t) = 0 -> t_stack (thr s t) = [] ->
            tl_node (t_loc (thr s t)) = None.

Definition SetGenFirst (s : state) : Prop :=
  forall t i g, nth_error (t_prog (thr s t)) i = Some (CSetGen g) -> i = 0%nat.

Definition GUW (B : N) (s : state) : Prop :=
  forall t f w ctl, In f (t_stack (thr s t)) -> help_frame f = Some (w, ctl) ->
  forall th, owner (thr s th) = Some w ->
    exists a, a <= B /\ tl_gen (t_loc (thr s th)) = (gen_of ctl + a) mod WORD /\
              (unpublished (thr s th) = true -> a <> 0).

Record GenInvW (B : N) (s : state) : Prop := {
  gw_w : W_inv s;
  gw_nu : NoUnused s;
  gw_top : GenTopW s;
  gw_fresh : Fresh s;
  gw_u : GUW B s;
  gw_c : GUC s;
  gw_t : GUT s;
}.

Lemma GUW_mono B B' s : B <= B' -> GUW B s -> GUW B' s.
Proof.
  intros Hle H t f w ctl Hin Hf th Ho. destruct (H t f w ctl Hin Hf th Ho) as (a & Ha & Hg & Hu).
  exists a. split; [lia|]. split; assumption.
Qed.

Lemma GenInvW_mono B B' s : B <= B' -> GenInvW B s -> GenInvW B' s.
Proof. intros Hle [H1 H2 H3 H4 H5 H6 H7]. constructor; try assumption. eapply GUW_mono; eassumption. Qed.
