(** * ASModel.WrpEnv — [EnvInv] (EnvDefs) is an inductive invariant on top of [GenInvW]: without
    [GenBound], for programs that use [CSetGen] as a first command.

    Of the generation invariant, Env6 uses [help_cas_sound] only (in the step of the exchange
    [PE7]); that case is re-proved here with [help_cas_soundW], the other cases are those of
    Env6. *)
From Coq Require Import Lia ZArith.
From ASModel Require Import Base State Orderings_gen Step Run Progress Hist Inv InvTl InvProto InvStep Sum StepCases GenDefs Gen1 Gen2 Gen3 Gen EnvDefs Env1 Env2 Env3 Env4 Env5 Env6 Env Prot16.
From ASModel Require Import WrpDefs WrpGen1 WrpGen2 WrpGen3 WrpGen4 WrpGen.

Section ExecW.
  Variables (cf : config) (s : state) (t x : N) (B : N).
  Hypotheses (W : WF2 s) (Q : Quiet s) (GI : GenInvW B s) (EI : EnvInv s)
             (Hnf : NoFault (fst (step cf s t x))).
  Variables (p : pc) (rest : list pc) (s1 : shared) (l1 : tlocal) (evs : list event) (nx : next) (h' : N -> handle).
  Hypotheses (Hr : t_status (thr s t) = Running) (Hs : t_stack (thr s t) = p :: rest)
             (He : exec cf (sh s) (t_loc (thr s t)) p x = (s1, l1, evs, nx)).

  Local Notation th' := (thread_after cf (thr s t) l1 rest nx).
  Local Notation s2 := (mkState s1 (upd (thr s) t th') h').

  Lemma exW_oth : forall t', t' <> t -> thr s2 t' = thr s t'.
  Proof. intros t' Hne. cbn. apply upd_other. exact Hne. Qed.

  Lemma exW_thr : thr s2 t = th'.
  Proof. cbn. apply upd_same. Qed.

  Lemma exW_settle : ~ nx_stops nx /\ settle cf l1 rest nx (t_loc th') (t_stack th') (t_status th').
  Proof. eapply exec_settle; eassumption. Qed.

  Lemma exW_hdq : hdq (nx_frames nx) -> hdq (t_stack (thr s2 t)).
  Proof. intros H. rewrite exW_thr. eapply settle_hdq; [apply exW_settle|exact H]. Qed.

  Lemma exW_owner : owner (thr s2 t) = tl_node l1.
  Proof. rewrite exW_thr. unfold owner. eapply settle_node. apply exW_settle. Qed.

  Lemma exW_goto q : nx = NGoto q -> t_stack (thr s2 t) = q :: rest.
  Proof. intros E. rewrite exW_thr. rewrite E. reflexivity. Qed.

  Lemma execW_same : s1 = sh s -> busy_s (p :: rest) = false -> hdq (nx_frames nx) -> EnvInv s2.
  Proof.
    intros E Hb Hq. apply (quiet_step s s2 t W EI exW_oth).
    - unfold nn. cbn. rewrite E. reflexivity.
    - intros k _. cbn. rewrite E. reflexivity.
    - intros k _. left. cbn. rewrite E. reflexivity.
    - intros k. cbn. rewrite E. reflexivity.
    - rewrite Hs. exact Hb.
    - apply exW_hdq. exact Hq.
  Qed.

  (** [PE7]: the exchange.  On success the helper's envelope goes into the reader's control
      word and the reader's offer goes to the helper. *)
  Lemma case_PE7W c old w ctl r their mine : p = PE7 c old w ctl r their mine -> EnvInv s2.
  Proof.
    intros Hp. pose proof Hs as Hs0. pose proof He as He0. rewrite Hp in Hs0, He0.
    destruct (exec_PE7 _ _ _ _ _ _ _ _ _ _ _ _ _ _ _ He0) as (E2 & [(Ec & E1 & E3)|(Ec & E1 & Hq)]).
    2: { apply execW_same; [exact E1|rewrite Hp; reflexivity|exact Hq]. }
    pose proof (exW_goto _ E3) as Hst. destruct EI as [X M A].
    assert (Hp67 : pe67_s (t_stack (thr s t)) = Some mine) by (rewrite Hs0; reflexivity).
    destruct (pe67_token s t mine W Q M Hp67) as (nH & e1 & Ho & -> & T1).
    assert (Hin : In (PE7 c old w ctl r their (env_val e1)) (t_stack (thr s t))) by (rewrite Hs0; left; reflexivity).
    pose proof (all_frames_ok s t _ W Q Hin) as Hok. cbn in Hok. destruct Hok as (Hlt & Hgen & (e2 & _ & ->) & _).
    destruct (help_cas_soundW B s t c old w ctl r (env_val e2) (env_val e1) rest W Q GI Hr Hs0 Ec)
      as (th & Hne & Hoth & Hreq & Hoffw).
    assert (Hwn : w <> nH) by (intros ->; apply Hne; eapply owner_unique; eassumption).
    assert (T2 : tok_holds s e2 (TOffer w)).
    { apply tok_offer_iff. split; [exact Hlt|]. split; [exact Hoffw|]. split; [rewrite Ec; apply nrepl_gen; exact Hgen|].
      intros t1 Ho1. assert (t1 = th) as -> by (eapply owner_unique; eassumption). eapply req_not_busy. exact Hreq. }
    rewrite lor_env in E1.
    assert (Hnn : nn s2 = nn s) by (unfold nn; cbn; rewrite E1; cbn; apply upd_other; discriminate).
    assert (Hoff : forall k, mem (sh s2) (LOffer k) = mem (sh s) (LOffer k)).
    { intros k. cbn. rewrite E1. cbn. apply upd_other. discriminate. }
    assert (Hcs : forall k, k <> w -> mem (sh s2) (LCtrl k) = mem (sh s) (LCtrl k)).
    { intros k Hk. cbn. rewrite E1. cbn. apply upd_other. congruence. }
    assert (Hcw : mem (sh s2) (LCtrl w) = env_val e1 + 1) by (cbn; rewrite E1; cbn; apply upd_same).
    assert (Henv : forall k, mem (sh s2) (LEnv k) = mem (sh s) (LEnv k)).
    { intros k. cbn. rewrite E1. cbn. apply upd_other. discriminate. }
    assert (Ho' : owner (thr s2 t) = Some nH) by (rewrite exW_owner, E2; exact Ho).
    constructor.
    - apply (EX_help s s2 t exW_oth X nH w e1 e2 Hnn Ho Ho' Hwn Hlt); auto; rewrite Hst; reflexivity.
    - apply (MineA_upd s s2 t M exW_oth); [intros; apply Hoff|]. intros n0 mine _ H. rewrite Hst in H. discriminate H.
    - apply (EnvA_upd s s2 t A exW_oth); [intros; apply Henv|]. intros r0 mine H. rewrite Hst in H. discriminate H.
  Qed.

  (** All frame steps. *)
  Theorem exec_EnvInvW : EnvInv s2.
  Proof.
    destruct (especial p) eqn:Hsp; [|eapply exec_generic; eassumption].
    assert (H : forall q, p = q -> EnvInv s2); [|exact (H p eq_refl)].
    intros q Hq. rewrite Hq in Hsp. destruct q; try discriminate Hsp.
    - eapply case_GPush; eassumption.
    - eapply case_LH2; eassumption.
    - eapply case_LH5; eassumption.
    - eapply case_LH7; eassumption.
    - eapply case_LH8; eassumption.
    - eapply case_PE5; eassumption.
    - eapply case_PE6; eassumption.
    - eapply case_PE7W; exact Hq.
    - eapply case_PE8; eassumption.
  Qed.
End ExecW.

(** ** One step *)
Theorem step_EnvInvW cf s t x B :
  GenInvWQ B s -> EnvInv s -> NoFault (fst (step cf s t x)) -> EnvInv (fst (step cf s t x)).
Proof.
  intros [W Q GI] EI Hnf.
  destruct (step_cases cf s t x) as [E|c s1 l1 stk r Hr Hs Hc Hen Hcs E|n Hr Hs Hn E|Hr Hs Hn E|p rest s1 l1 evs nx Hr Hs He E].
  - rewrite E. exact EI.
  - rewrite E. destruct (cmd_start_effect _ _ _ _ _ _ _ _ Hcs) as (Hthr & Hnode & Hmem & _).
    destruct (start_thread_fields (thr s t) l1 stk) as (F1 & _).
    apply (quiet_step s _ t W EI).
    + intros t' Hne. cbn. rewrite upd_other by exact Hne. rewrite Hthr. reflexivity.
    + unfold nn. cbn. apply Hmem. discriminate.
    + intros k _. cbn. apply Hmem. discriminate.
    + intros k _. left. cbn. apply Hmem. discriminate.
    + intros k. cbn. apply Hmem. discriminate.
    + rewrite Hs. reflexivity.
    + cbn. rewrite upd_same, F1. eapply cmd_start_hdq. exact Hcs.
  - rewrite E. apply (quiet_step s _ t W EI); try reflexivity; auto.
    + intros t' Hne. cbn. apply upd_other. exact Hne.
    + rewrite Hs. reflexivity.
    + cbn. rewrite upd_same. reflexivity.
  - rewrite E. apply (quiet_step s _ t W EI); try reflexivity; auto.
    + intros t' Hne. cbn. apply upd_other. exact Hne.
    + rewrite Hs. reflexivity.
    + cbn. rewrite upd_same. exact I.
  - rewrite E. eapply exec_EnvInvW; eassumption.
Qed.

(** ** The invariant with everything it rests on *)
Record EnvInvWQ (B : N) (s : state) : Prop := {
  ewq_gen : GenInvWQ B s;
  ewq_env : EnvInv s;
  ewq_fresh : CtlFresh s;
}.

Theorem EnvInvWQ_init inits progs : EnvInvWQ 0 (init_state inits progs).
Proof. constructor; [apply GenInvWQ_init|apply EnvInv_init|apply CtlFresh_init]. Qed.

Theorem step_EnvInvWQ cf s t x B :
  SetGenFirst s -> B < WORD -> EnvInvWQ B s -> NoFault (fst (step cf s t x)) ->
  EnvInvWQ (B + 4) (fst (step cf s t x)).
Proof.
  intros SF HB [G EI F] Hnf. constructor.
  - apply step_GenInvWQ; assumption.
  - eapply step_EnvInvW; eassumption.
  - apply step_CtlFresh; [apply G|apply G|exact F].
Qed.

Theorem EnvInvWQ_EnvFree B s : EnvInvWQ B s -> EnvFree s.
Proof. intros [[W Q _] EI F]. apply EnvInv_EnvFree; assumption. Qed.

Theorem EnvInvWQ_EnvA B s : EnvInvWQ B s -> EnvA s.
Proof. intros [_ EI _]. apply EI. Qed.

Print Assumptions step_EnvInvW.
Print Assumptions step_EnvInvWQ.
