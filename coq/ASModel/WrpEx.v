(** * ASModel.WrpEx — non-vacuity of [WrpMain.RunOKW]: a run THROUGH THE WRAP of the generation
    counter.

    [runokw_b] is a boolean checker with [runokw_b ... = true -> RunOKW ...] (cf. RunOKEx; the
    per-state check is [Scope.scope_thread] without the test of [GenBound]).  It is run
    ([vm_compute]) on a concrete run: fallback-only strategy; the reader presets its counter
    with [CSetGen (WORD - 8)] as its first command and then loads three times: generations
    [WORD - 4], then [0] — the WRAP: the published word is [GEN_TAG] alone, the thread marks its
    node for discarding —, then (on a node it has to claim again, out of cooldown) [4].  The load
    with generation 0 is HELPED by a writer. *)
From Coq Require Import Lia.
From ASModel Require Import Base State Orderings_gen Step Run Progress Hist Inv InvTl InvProto InvStep Sum StepCases.
From ASModel Require Import GenDefs Gen1 Gen2 Gen AccDefs Acc2 Acc Prot11 Safe2 Safe8 Safe Scope Main RunOKEx.
From ASModel Require Import WrpDefs WrpGen WrpEnv WrpMain.

(** ** The per-state check, without [GenBound] *)
Definition scope_threadW (s : state) (t : N) : bool :=
  let th := thr s t in
  match t_status th with
  | Running =>
      match nth_error (t_prog th) (N.to_nat (t_cmdi th)) with
      | Some c =>
          (match cmd_dst c with
           | Some h => handle_empty (hnd s h) ||
                       (match t_stack th with [] => true | _ => false end &&
                        match cmd_src c with Some h' => h' =? h | None => false end)
           | None => true
           end) &&
          (match c, t_stack th with
           | CClone h _, CloneInc a :: _ =>
               match hnd s h with HOwned a' | HGuard a' _ => a' =? a | _ => false end
           | _, _ => true
           end)
      | None => true
      end
  | _ => true
  end.

Theorem scope_threadW_sound s t : scope_threadW s t = true -> DstEmpty_at s t /\ CloneSrcCmd_at s t.
Proof.
  unfold scope_threadW. intros H. split.
  - intros c h Hr Hc Hd. rewrite Hr, Hc in H. apply andb_true_iff in H as [H _]. rewrite Hd in H.
    apply orb_true_iff in H as [H|H]; [left; apply handle_empty_true; exact H|right].
    apply andb_true_iff in H as [H1 H2]. split.
    + destruct (t_stack (thr s t)); [reflexivity|discriminate H1].
    + destruct (cmd_src c) as [h'|]; [|discriminate H2]. apply N.eqb_eq in H2. subst h'. reflexivity.
  - intros h h2 a rest Hr Hc Hst. rewrite Hr, Hc, Hst in H. apply andb_true_iff in H as [_ H].
    destruct (hnd s h) as [|a'|a' d|]; try discriminate H; apply N.eqb_eq in H; subst a'.
    + left. reflexivity.
    + right. exists d. reflexivity.
Qed.

Definition scope_stateW (n : nat) (s : state) : bool := forallb (scope_threadW s) (thread_list n).

Theorem scope_stateW_sound n s :
  Beyond n s -> scope_stateW n s = true -> DstEmpty s /\ CloneSrcCmd s.
Proof.
  intros B H.
  assert (A : forall t, DstEmpty_at s t /\ CloneSrcCmd_at s t).
  { intros t. destruct (N.lt_ge_cases t (N.of_nat n)) as [Hlt|Hge].
    - apply scope_threadW_sound. apply (proj1 (forallb_forall _ _) H). apply thread_list_in. exact Hlt.
    - apply (no_thread_scope s t). apply B. exact Hge. }
  split; intros t; apply (A t).
Qed.

(** ** The checker *)
Fixpoint runW_b (cf : config) (n : nat) (s : state) (sched : list (N * N)) : bool :=
  scope_stateW n s &&
  match sched with
  | [] => true
  | (t, x) :: rest => scope_alloc s t x && runW_b cf n (fst (step cf s t x)) rest
  end.

Theorem runW_b_sound cf n : forall sched s, Beyond n s -> runW_b cf n s sched = true ->
  (forall k, DstEmpty (St cf s sched k) /\ CloneSrcCmd (St cf s sched k)) /\
  (forall k t x, nth_error sched k = Some (t, x) -> alloc_ok (St cf s sched k) t x).
Proof.
  induction sched as [|[t x] sched IH]; intros s B H; cbn [runW_b] in H; apply andb_true_iff in H as [Hs H].
  - split.
    + intros k. rewrite St_nil. apply (scope_stateW_sound n); assumption.
    + intros [|k] t x Hk; discriminate Hk.
  - apply andb_true_iff in H as [Ha H].
    destruct (IH _ (Beyond_step cf n s t x B) H) as [IH1 IH2]. split.
    + intros [|k]; [rewrite St_0; apply (scope_stateW_sound n); assumption|].
      rewrite St_cons. apply IH1.
    + intros [|k] t' x' Hk.
      * injection Hk as <- <-. rewrite St_0. apply scope_alloc_sound. exact Ha.
      * rewrite St_cons. apply IH2. exact Hk.
Qed.

(** Programs: no [Cache] commands; [CSetGen] only as the first command. *)
Definition cmdW_b (first : bool) (c : cmd) : bool :=
  match c with CSetGen _ => first | CCacheNew _ _ | CCacheLoad _ => false | _ => true end.

Definition progW_b (p : list cmd) : bool :=
  match p with [] => true | c :: rest => cmdW_b true c && forallb (cmdW_b false) rest end.

Definition progsW_b (progs : list (list cmd)) : bool := forallb progW_b progs.

Lemma progsW_b_sound progs : progsW_b progs = true -> progs_okW progs.
Proof.
  intros H. split.
  - intros p Hp i g Hn. apply (proj1 (forallb_forall _ _) H) in Hp.
    destruct p as [|c rest]; [destruct i; discriminate|]. destruct i as [|i]; [reflexivity|exfalso].
    cbn in Hn, Hp. apply andb_true_iff in Hp as [_ Hp]. apply nth_error_In in Hn.
    pose proof (proj1 (forallb_forall _ _) Hp _ Hn) as Hc. discriminate Hc.
  - intros p c Hp Hc. apply (proj1 (forallb_forall _ _) H) in Hp.
    destruct p as [|c0 rest]; [destruct Hc|]. cbn in Hp. apply andb_true_iff in Hp as [H0 Hp].
    destruct Hc as [<-|Hc].
    + destruct c0; try exact I; discriminate H0.
    + pose proof (proj1 (forallb_forall _ _) Hp _ Hc) as Hx. destruct c; try exact I; discriminate Hx.
Qed.

Definition runokw_b (cf : config) (inits : list N) (progs : list (list cmd)) (sched : list (N * N)) : bool :=
  inits_b inits && progsW_b progs && (4 * N.of_nat (length sched) + 8 <? WORD) &&
  runW_b cf (length progs) (init_state inits progs) sched.

Theorem runokw_b_sound cf inits progs sched : runokw_b cf inits progs sched = true -> RunOKW cf inits progs sched.
Proof.
  intros H. apply andb_true_iff in H as [H Hr]. apply andb_true_iff in H as [H Hl]. apply andb_true_iff in H as [Hi Hp].
  destruct (runW_b_sound cf (length progs) sched _ (Beyond_init inits progs) Hr) as [H1 H2].
  constructor; [apply inits_b_sound; exact Hi|apply progsW_b_sound; exact Hp|apply N.ltb_lt; exact Hl|exact H1|exact H2].
Qed.

(** Every scheduled thread is enabled: [RunOKEx.enabled_b]. *)

(** ** The example run *)
(** Fallback-only strategy with debug assertions; container 0 holds the value at 4096.
    Thread 0 (reader): presets its generation counter to [WORD - 8] (first command), then
    three times [load] into handle 1 and drop of the guard.
    Thread 1 (writer): allocates a value (at 4112) and stores it.
    Schedule: the reader runs 20 steps — the hook (4 steps: it pushes node 0, claims it and sets
    the counter in one step), the first load with generation [WORD - 4] and its drop (12 steps),
    and the second load up to and including [LH2]: the counter WRAPPED to 0, the published word
    is [GEN_TAG] alone and the thread marks its node for discarding —; the writer runs to
    completion (60 steps): it finds the request, and hands a replacement over with a successful
    exchange at [PE7]; then the reader finishes (32 steps): it takes the helper's value, gives its
    node up through the cooldown ([C1]..[C3], the D1 fix), and for the third load claims a
    cooled-down node ([GCool1]..[GCool3]) and publishes generation 4. *)
Definition wx_cf : config := mkConfig false true.
Definition wx_inits : list N := [4096].
Definition wx_progs : list (list cmd) :=
  [[CSetGen (WORD - 8); CLoad 0 1; CDrop 1; CLoad 0 1; CDrop 1; CLoad 0 1; CDrop 1];
   [CNew 2; CStore 0 (SHandle 2)]].
Definition wx_sched : list (N * N) := repeat (0, 0) 20 ++ repeat (1, 4112) 60 ++ repeat (0, 0) 32.
Definition wx_s0 : state := init_state wx_inits wx_progs.
Definition wx_St (k : nat) : state := St wx_cf wx_s0 wx_sched k.
Definition wx_final : state := run_state wx_cf wx_s0 wx_sched.

Example runokw_b_example : runokw_b wx_cf wx_inits wx_progs wx_sched = true.
Proof. vm_compute. reflexivity. Qed.

Example RunOKW_example : RunOKW wx_cf wx_inits wx_progs wx_sched.
Proof. apply runokw_b_sound. exact runokw_b_example. Qed.

Example wx_length : length wx_sched = 112%nat.
Proof. reflexivity. Qed.

(** The run is outside [RunOK]: the program uses the hook, and [GenBound] fails. *)
Example wx_not_RunOK : ~ RunOK wx_cf wx_inits wx_progs wx_sched.
Proof.
  intros R. destruct (ro_progs _ _ _ _ R) as [Hg _].
  apply (Hg _ (or_introl eq_refl) (WORD - 8)). left. reflexivity.
Qed.

Example wx_not_GenBound : ~ GenBound (wx_St 6).
Proof. intros H. specialize (H 0). vm_compute in H. discriminate H. Qed.

(** The hook: the thread claims node 0 and presets its counter in one step. *)
Example wx_preset :
  t_stack (thr (wx_St 3) 0) = [GPush 0; WGetSetGen (WORD - 8); KDone None] /\
  tl_node (t_loc (thr (wx_St 3) 0)) = None /\
  t_stack (thr (wx_St 4) 0) = [] /\ tl_node (t_loc (thr (wx_St 4) 0)) = Some 0 /\
  tl_gen (t_loc (thr (wx_St 4) 0)) = WORD - 8.
Proof. vm_compute. repeat split; reflexivity. Qed.

(** The first load publishes generation [WORD - 4] ... *)
Example wx_first_load :
  hd_error (t_stack (thr (wx_St 8) 0)) = Some (LH3 0 (N.lor (WORD - 4) GEN_TAG)) /\
  tl_gen (t_loc (thr (wx_St 8) 0)) = WORD - 4 /\ tl_discard (t_loc (thr (wx_St 8) 0)) = false.
Proof. vm_compute. repeat split; reflexivity. Qed.

(** ... the second one WRAPS: generation 0, the word is [GEN_TAG] alone, the node is marked. *)
Example wx_wrapped :
  hd_error (t_stack (thr (wx_St 20) 0)) = Some (LH3 0 GEN_TAG) /\
  tl_gen (t_loc (thr (wx_St 20) 0)) = 0 /\ tl_discard (t_loc (thr (wx_St 20) 0)) = true /\
  mem (sh (wx_St 20)) (LCtrl 0) = GEN_TAG /\ mem (sh (wx_St 20)) (LStore 0) = 4096.
Proof. vm_compute. repeat split; reflexivity. Qed.

(** The writer's exchange at [PE7] on the wrapped word succeeded ... *)
Example wx_helped :
  t_stack (thr (wx_St 62) 1) = [PE7 0 4096 0 GEN_TAG 4112 4 8; WSwap 4096; WDropOld; KDone None] /\
  nth_error wx_sched 62 = Some (1, 4112) /\
  hd_error (t_stack (thr (wx_St 63) 1)) = Some (PE8 0 4096 0 4) /\
  mem (sh (wx_St 62)) (LCtrl 0) = GEN_TAG /\
  mem (sh (wx_St 63)) (LCtrl 0) = N.lor 8 REPLACEMENT_TAG.
Proof. vm_compute. repeat split; reflexivity. Qed.

(** ... the reader took the helper's value (the old one was destroyed in between), and gave its
    node up through the cooldown at the end of the outermost [with]. *)
Example wx_reader_helped :
  hd_error (t_stack (thr (wx_St 84) 0)) = Some (LH7 4112 1) /\
  heap (sh (wx_St 80)) 4096 = None /\
  hd_error (t_stack (thr (wx_St 87) 0)) = Some (C1 0) /\ tl_node (t_loc (thr (wx_St 87) 0)) = None /\
  hnd (wx_St 90) 1 = HGuard 4112 None /\ mem (sh (wx_St 90)) (LInUse 0) = NODE_COOLDOWN.
Proof. vm_compute. repeat split; reflexivity. Qed.

(** The third load: the thread claims a cooled-down node and publishes generation 4. *)
Example wx_third_load :
  hd_error (t_stack (thr (wx_St 96) 0)) = Some (GCool3 1) /\
  tl_node (t_loc (thr (wx_St 97) 0)) = Some 1 /\
  hd_error (t_stack (thr (wx_St 100) 0)) = Some (LH3 0 (N.lor 4 GEN_TAG)) /\
  hnd (wx_St 106) 1 = HGuard 4112 None.
Proof. vm_compute. repeat split; reflexivity. Qed.

(** ** The end-to-end theorems on this run *)
Example wx_NoFault : NoFault wx_final.
Proof. exact (proj1 (C01_no_use_after_free_wrap _ _ _ _ RunOKW_example)). Qed.

Example wx_no_dead_access : forall te, In te (snd (run wx_cf wx_s0 wx_sched)) ->
  forall a, ~ In (EvFault (FDeadInc a)) (snd te) /\ ~ In (EvFault (FDeadDec a)) (snd te).
Proof. exact (proj2 (C01_no_use_after_free_wrap _ _ _ _ RunOKW_example)). Qed.

Example wx_enabled : enabled_b wx_cf wx_s0 wx_sched = true.
Proof. vm_compute. reflexivity. Qed.

Example wx_no_fault_events : forall te, In te (snd (run wx_cf wx_s0 wx_sched)) ->
  forall f, ~ In (EvFault f) (snd te).
Proof.
  apply (C01_no_fault_events_wrap _ _ _ _ RunOKW_example). apply enabled_b_sound. exact wx_enabled.
Qed.

Example wx_Acc : Acc wx_final.
Proof. exact (C02_accounting_wrap _ _ _ _ RunOKW_example). Qed.

Example wx_MasterW : MasterW (4 * 112) wx_final.
Proof. exact (RunOKW_MasterW_end _ _ _ _ RunOKW_example). Qed.

(** The schedule runs both threads to the end; the container holds the new value with count 1,
    the old value is gone. *)
Example wx_final_state :
  t_status (thr wx_final 0) = Exited /\ t_cmdi (thr wx_final 0) = 7 /\ tl_gen (t_loc (thr wx_final 0)) = 4 /\
  t_status (thr wx_final 1) = Exited /\ t_cmdi (thr wx_final 1) = 2 /\
  mem (sh wx_final) (LStore 0) = 4112 /\ mem (sh wx_final) (LCount 4112) = 1 /\
  heap (sh wx_final) 4096 = None /\ hnd wx_final 1 = HEmpty.
Proof. vm_compute. repeat split; reflexivity. Qed.

Print Assumptions runokw_b_sound.
Print Assumptions RunOKW_example.
Print Assumptions wx_not_RunOK.
Print Assumptions wx_NoFault.
Print Assumptions wx_no_fault_events.
Print Assumptions wx_Acc.
Print Assumptions wx_MasterW.
