(** * ASModel.WrpGen — [GenInvW] (WrpDefs) is an inductive invariant, WITHOUT [GenBound] and for
    programs that use [CSetGen] as a first command.

    [step_GenInvW]: [GenInvW B s -> B < WORD -> GenInvW (B + 4) (step s)] under [WF2], [Quiet],
    [SetGenFirst] and [NoFault] of the next state: the bound on the ages grows by 4 per step, so
    after [k] steps from the initial state [GenInvW (4 * k)] holds as long as [4 * k < WORD].
    Consequences: [help_cas_soundW] (what [Env], [Acc], [Lin] consume of the invariant). *)
From Coq Require Import Lia ZArith.
From ASModel Require Import Base State Orderings_gen Step Run Progress Hist Inv InvTl InvProto InvStep Sum StepCases GenDefs Gen1 Gen2 Gen3 Gen Prot16 WrpDefs WrpGen1 WrpGen2 WrpGen3 WrpGen4.

(** ** The initial state *)
Theorem GenInvW_init inits progs : GenInvW 0 (init_state inits progs).
Proof.
  assert (Hth : forall t0, t_stack (thr (init_state inits progs) t0) = [] /\
                           t_loc (thr (init_state inits progs) t0) = tl_init /\
                           (t_status (thr (init_state inits progs) t0) = Running \/
                            t_status (thr (init_state inits progs) t0) = Exited)).
  { intros t0. cbn. apply init_threads_stack. cbn. auto. }
  constructor.
  - intros w. replace (mem (sh (init_state inits progs)) (LWriters w)) with 0.
    + apply Total_zero_iff. intros t0. rewrite (proj1 (Hth t0)). reflexivity.
    + cbn. rewrite init_stores_other by discriminate. reflexivity.
  - intros n Hn. exfalso. unfold nn in Hn. cbn in Hn. rewrite init_stores_other in Hn by discriminate. cbn in Hn. lia.
  - intros t0 _. left. rewrite (proj1 (Hth t0)). constructor.
  - intros t0 _ _ _. destruct (Hth t0) as (_ & -> & _). reflexivity.
  - intros t0 f w ctl Hin. rewrite (proj1 (Hth t0)) in Hin. destruct Hin.
  - intros t0 f c w ctl Hin. rewrite (proj1 (Hth t0)) in Hin. destruct Hin.
  - intros t0 f w ctl their Hin. rewrite (proj1 (Hth t0)) in Hin. destruct Hin.
Qed.

(** ** One step *)
Theorem step_GenInvW cf s t x B :
  WF2 s -> Quiet s -> SetGenFirst s -> B < WORD -> GenInvW B s -> NoFault (fst (step cf s t x)) ->
  GenInvW (B + 4) (fst (step cf s t x)).
Proof.
  intros W Q SF HB GI Hnf. constructor.
  - apply step_W_invW; try assumption. apply (gw_w _ _ GI).
  - apply step_NoUnused; [assumption|]. apply (gw_nu _ _ GI).
  - apply step_GenTopW; try assumption; apply GI.
  - apply step_Fresh. apply GI.
  - eapply step_GUW; eassumption.
  - eapply step_GUCW; eassumption.
  - eapply step_GUTW; eassumption.
Qed.

(** [SetGenFirst] is a property of the programs. *)
Definition progs_setgen_first (progs : list (list cmd)) : Prop :=
  forall p, In p progs -> forall i g, nth_error p i = Some (CSetGen g) -> i = 0%nat.

Lemma SetGenFirst_init inits progs : progs_setgen_first progs -> SetGenFirst (init_state inits progs).
Proof.
  intros Hp t i g. cbn [init_state thr].
  apply (init_threads_prog (fun pr => nth_error pr i = Some (CSetGen g) -> i = 0%nat)).
  - cbn. destruct i; discriminate.
  - intros p Hin. apply Hp. exact Hin.
Qed.

Lemma SetGenFirst_step cf s t x : SetGenFirst s -> SetGenFirst (fst (step cf s t x)).
Proof. intros H t' i g. rewrite step_prog. apply H. Qed.

Lemma SetGenFirst_run cf : forall sched s, SetGenFirst s -> SetGenFirst (run_state cf s sched).
Proof.
  induction sched as [|[t x] sched IH]; intros s H; [exact H|].
  rewrite run_state_cons. apply IH. apply SetGenFirst_step. exact H.
Qed.

(** [GenInvW] together with the structural facts it rests on. *)
Record GenInvWQ (B : N) (s : state) : Prop := {
  gwq_wf : WF2 s;
  gwq_quiet : Quiet s;
  gwq_inv : GenInvW B s;
}.

Theorem GenInvWQ_init inits progs : GenInvWQ 0 (init_state inits progs).
Proof. constructor; [apply WF2_init|apply Quiet_init|apply GenInvW_init]. Qed.

Theorem step_GenInvWQ cf s t x B :
  SetGenFirst s -> B < WORD -> GenInvWQ B s -> NoFault (fst (step cf s t x)) ->
  GenInvWQ (B + 4) (fst (step cf s t x)).
Proof.
  intros SF HB [W Q GI] Hnf. constructor.
  - apply step_WF2. exact W.
  - apply step_Quiet'; assumption.
  - apply step_GenInvW; assumption.
Qed.

(** ** Runs: after [k] steps the ages are bounded by [4 * k] *)
Theorem run_GenInvWQ cf : forall sched s B,
  GenInvWQ B s -> SetGenFirst s -> B + 4 * N.of_nat (length sched) < WORD + 4 ->
  NoFault (run_state cf s sched) ->
  GenInvWQ (B + 4 * N.of_nat (length sched)) (run_state cf s sched).
Proof.
  induction sched as [|[t x] sched IH]; intros s B GQ SF HB Hnf.
  - cbn. rewrite N.add_0_r. exact GQ.
  - rewrite run_state_cons in *. cbn [length] in *.
    replace (B + 4 * N.of_nat (S (length sched))) with ((B + 4) + 4 * N.of_nat (length sched)) in * by lia.
    apply IH; [|apply SetGenFirst_step; exact SF|exact HB|exact Hnf].
    apply step_GenInvWQ; [exact SF|lia|exact GQ|]. eapply NoFault_run_back. exact Hnf.
Qed.

Theorem run_GenInvW cf inits progs sched :
  progs_setgen_first progs -> 4 * N.of_nat (length sched) < WORD + 4 ->
  NoFault (run_state cf (init_state inits progs) sched) ->
  GenInvWQ (4 * N.of_nat (length sched)) (run_state cf (init_state inits progs) sched).
Proof.
  intros Hp Hlen Hnf.
  apply (run_GenInvWQ cf sched _ 0 (GenInvWQ_init inits progs) (SetGenFirst_init inits progs Hp)); assumption.
Qed.

(** ** Consequences *)
Lemma help_cas_soundW B s t c old w ctl r their mine rest :
  WF2 s -> Quiet s -> GenInvW B s -> t_status (thr s t) = Running ->
  t_stack (thr s t) = PE7 c old w ctl r their mine :: rest ->
  mem (sh s) (LCtrl w) = ctl ->
  exists th, th <> t /\ owner (thr s th) = Some w /\ req_of (thr s th) = Some (c, ctl) /\
             mem (sh s) (LOffer w) = their.
Proof.
  intros W Q GI Hr Hs Hctl.
  assert (Hin : In (PE7 c old w ctl r their mine) (t_stack (thr s t))) by (rewrite Hs; left; reflexivity).
  pose proof (all_frames_ok s t _ W Q Hin) as Hok. cbn in Hok. destruct Hok as (Hlt & Hgen & _).
  rewrite <- Hctl in Hgen. destruct (Gen.ctl_gen_owner s w W Q Hlt Hgen) as (th & c' & Hr' & Ho & Hreq).
  rewrite Hctl in *. exists th.
  assert (c' = c) as -> by exact (gw_c _ _ GI t _ c w ctl Hin eq_refl th c' Ho Hreq).
  split; [|split; [exact Ho|split; [exact Hreq|]]].
  - intros ->. rewrite req_of_top, Hs in Hreq. discriminate.
  - exact (gw_t _ _ GI t _ w ctl their Hin eq_refl th c Ho Hreq).
Qed.

(** A helper's word identifies the owner's request: while the helper is inside the node, an
    owner that has chosen its next generation has not chosen the helper's one (generation
    uniqueness through the wrap, as long as the ages are below [WORD]). *)
Lemma help_word_fresh B s t f w ctl th :
  WF2 s -> Quiet s -> GenInvW B s -> B < WORD ->
  In f (t_stack (thr s t)) -> help_frame f = Some (w, ctl) ->
  owner (thr s th) = Some w -> unpublished (thr s th) = true ->
  gen_of ctl <> tl_gen (t_loc (thr s th)) \/ WORD <= gen_of ctl.
Proof.
  intros W Q GI HB Hin Hf Ho Hu.
  destruct (gw_u _ _ GI t f w ctl Hin Hf th Ho) as (a & Ha & Hgen & Hnz). specialize (Hnz Hu).
  destruct (N.lt_ge_cases (gen_of ctl) WORD) as [Hlt|Hge]; [left|right; exact Hge].
  intros E. rewrite <- E in Hgen. apply (age_nz (gen_of ctl) a); [exact Hlt|lia|exact Hnz|exact Hgen].
Qed.

Print Assumptions GenInvW_init.
Print Assumptions step_GenInvW.
Print Assumptions step_GenInvWQ.
Print Assumptions run_GenInvWQ.
Print Assumptions run_GenInvW.
Print Assumptions help_cas_soundW.
Print Assumptions help_word_fresh.
