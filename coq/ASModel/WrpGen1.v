(** * ASModel.WrpGen1 — frame-level lemmas for the generation invariants through the wrap:
    the generation counter along a frame step and along the unwinding of the stack, stated
    modulo [WORD] (no hypothesis on the size of the counter); the frames of [Node::get] under
    the hook [WGetSetGen]. *)
From Coq Require Import Lia ZArith Zify ZifyClasses ZifyBool ZifyN.
From ASModel Require Import Base State Orderings_gen Step Run Progress Hist Inv InvTl InvProto InvStep Sum StepCases GenDefs Gen1 Gen2 Gen3 WrpDefs.

Definition NoSG (stk : list pc) : Prop := forall g, ~ In (WGetSetGen g) stk.

Lemma NoSG_cons w rest : NoSG (w :: rest) -> (forall g, w <> WGetSetGen g) /\ NoSG rest.
Proof.
  intros H. split.
  - intros g ->. apply (H g). left. reflexivity.
  - intros g Hin. apply (H g). right. exact Hin.
Qed.

(** ** The view of the owner over one frame step, modulo [WORD] *)
Definition view_nextW (l : tlocal) (p : pc) (l' : tlocal) (fs : list pc) : Prop :=
  (tl_gen l' = tl_gen l /\ (hd_unpub fs = true -> top_unpub p = true) /\
   (forall q, hd_req fs = Some q ->
      top_req p = Some q \/ (top_unpub p = true /\ snd q = N.lor (tl_gen l) GEN_TAG))) \/
  (tl_gen l' = (tl_gen l + 4) mod WORD /\ fs <> [] /\ hd_req fs = None).

Lemma all_simple_hd fs : all_simple fs -> hd_unpub fs = false /\ hd_req fs = None.
Proof.
  intros Hs. destruct fs as [|f fs]; [split; reflexivity|]. inversion Hs; subst. cbn.
  split; [apply simple_unpub|apply simple_req]; assumption.
Qed.

Lemma call_shape_viewW l p l' fs : call_shape l l' fs -> view_nextW l p l' fs.
Proof.
  intros [[Hs Hg]|(c & fs' & -> & Hs & Hg)]; [left|right].
  - destruct (all_simple_hd _ Hs) as [H1 H2]. rewrite H1, H2.
    split; [exact Hg|]. split; [discriminate|]. intros q Hq. discriminate.
  - split; [exact Hg|]. split; [discriminate|reflexivity].
Qed.

Lemma exec_viewW cf s l p x s' l' evs nx :
  exec cf s l p x = (s', l', evs, nx) -> ~ nx_stops nx -> gen_frame_ok l p ->
  view_nextW l p l' (nx_frames nx).
Proof.
  intros He Hn Hg. destruct (special_pc p) eqn:Hsp.
  - pose proof (exec_special _ _ _ _ _ _ _ _ _ He Hn) as H.
    assert (Hsame : forall fs, hd_unpub fs = false -> hd_req fs = None -> view_nextW l p l fs).
    { intros fs H1 H2. left. split; [reflexivity|]. rewrite H1, H2. split; [discriminate|]. intros q Hq. discriminate. }
    destruct p; try discriminate Hsp; cbn [special_next] in H; cbn in Hg;
      repeat match goal with
        | H : _ /\ _ |- _ => destruct H
        | H : _ \/ _ |- _ => destruct H
        | H : exists _, _ |- _ => destruct H
        end; subst;
      try (apply Hsame; first [apply help_dispatch_hd | apply after_slot_hd | reflexivity]; fail).
    + (* LH1 -> LH2 *)
      left. split; [reflexivity|]. split; [reflexivity|]. intros q Hq. discriminate.
    + (* LH2 -> LH3 *)
      left. split; [assumption|]. split; [discriminate|]. intros q [= <-]. right. cbn. auto.
    + left. split; [reflexivity|]. split; [discriminate|]. intros q [= <-]. left. reflexivity.
    + left. split; [reflexivity|]. split; [discriminate|]. intros q [= <-]. left. reflexivity.
    + left. split; [reflexivity|]. split; [discriminate|]. intros q [= <-]. left. reflexivity.
    + left. split; [reflexivity|]. split; [discriminate|]. intros q [= <-]. left. reflexivity.
    + (* PE2 pushes a load *)
      match goal with H : enter_load _ _ _ = _ |- _ => apply enter_load_call in H as [Hcs Hne] end.
      destruct (call_shape_viewW l (PE2 c old w ctl) l' _ Hcs) as [(V1 & V3 & V4)|(V1 & V2 & V3)]; cbn [nx_frames].
      * left. split; [exact V1|]. split.
        -- rewrite <- app_assoc, hd_unpub_app by exact Hne. exact V3.
        -- rewrite <- app_assoc, hd_req_app by exact Hne. exact V4.
      * right. split; [exact V1|]. split.
        -- intros E. apply app_eq_nil in E as [E _]. apply app_eq_nil in E as [E _]. contradiction.
        -- rewrite <- app_assoc, hd_req_app by exact Hne. exact V3.
  - apply call_shape_viewW. eapply exec_call; eassumption.
Qed.

(** ** The generation counter along a settle, modulo [WORD] *)
Lemma settle_genW cf l rest nx l2 stk st :
  settle cf l rest nx l2 stk st -> NoSG rest ->
  (tl_gen l2 = tl_gen l /\ (hd_unpub stk = true -> hd_unpub (nx_frames nx) = true)) \/
  (nx_frames nx = [] /\ tl_gen l2 = (tl_gen l + 4) mod WORD).
Proof.
  induction 1 as [l rest p|l rest fs w|l v|l v b post Hb Hne|l v post|l v w rest l' nx l'' stk st Hb Hr Hs IH];
    intros Hng; try (left; split; [reflexivity|cbn; try discriminate; auto]).
  - intros Hu. destruct fs; exact Hu.
  - destruct (NoSG_cons _ _ Hng) as [Hg Hng'].
    destruct (resume_call _ _ _ _ _ _ Hr Hg) as [Hcs|(c & old & n & ctl & r & -> & -> & ->)].
    + destruct Hcs as [[Hsim Hgen]|(c & fs' & Hfs & Hsim & Hgen)].
      * destruct (all_simple_hd _ Hsim) as [Hu _].
        destruct (IH Hng') as [[E1 E2]|[E1 E2]].
        -- left. split; [congruence|]. intros Hx. specialize (E2 Hx). congruence.
        -- right. split; [reflexivity|]. congruence.
      * right. split; [reflexivity|].
        assert (l'' = l') as ->; [|exact Hgen].
        eapply settle_loc; [exact Hs|]. rewrite Hfs. discriminate.
    + inversion Hs; subst. left. split; [reflexivity|]. cbn. discriminate.
Qed.

(** ** [Node::get] *)
Lemma exec_nget cf s l p x s' l' evs nx :
  is_nget p = true -> exec cf s l p x = (s', l', evs, nx) ->
  (l' = l /\ exists q, nx = NGoto q /\ is_nget q = true) \/ (exists k, nx = NRet (RNode k)).
Proof.
  intros Hp He. destruct p; try discriminate Hp; clear Hp;
    unfold exec in He; unfold a_load, a_store, a_swap, a_cas, a_fadd, a_fsub in He; cbn in He;
    destr_in He; try discriminate; injection He as <- <- <- <-; eauto 6.
Qed.

Lemma nget_plain p : is_nget p = true -> plain p = true.
Proof. destruct p; cbn; congruence. Qed.
Lemma nget_help p : is_nget p = true -> help_frame p = None.
Proof. destruct p; cbn; congruence. Qed.
Lemma nget_gen_ok l p : is_nget p = true -> gen_frame_ok l p.
Proof. destruct p; cbn; try congruence; auto. Qed.
Lemma nget_req p : is_nget p = true -> top_req p = None.
Proof. destruct p; cbn; congruence. Qed.
Lemma nget_unpub p : is_nget p = true -> top_unpub p = false.
Proof. destruct p; cbn; congruence. Qed.
Lemma nget_resv p : is_nget p = true -> resv_node p = None.
Proof. destruct p; cbn; congruence. Qed.

(** The stack of the hook after a step of its [Node::get] frame. *)
Lemma settle_sg_goto cf l1 g q l2 stk st :
  settle cf l1 [WGetSetGen g; KDone None] (NGoto q) l2 stk st ->
  stk = [q; WGetSetGen g; KDone None] /\ l2 = l1 /\ st = Running.
Proof. intros Hs. inversion Hs; subst. auto. Qed.

Lemma settle_sg_ret cf l1 g k l2 stk st :
  settle cf l1 [WGetSetGen g; KDone None] (NRet (RNode k)) l2 stk st ->
  stk = [] /\ st = Running /\ l2 = tl_set_gen l1 g.
Proof.
  intros Hs. inversion Hs; subst; try discriminate.
  match goal with H : resume _ _ _ _ = _ |- _ => cbn in H; injection H as <- <- end.
  match goal with H : settle _ _ _ (NRet _) _ _ _ |- _ => inversion H; subst; try discriminate end.
  auto.
Qed.

(** ** The hook command *)
Lemma cmd_start_setgen cf s l g0 s' l' stk r :
  cmd_start cf s l (CSetGen g0) = inl (s', l', stk, r) -> tl_node l = None ->
  s' = s /\ l' = l /\ exists g, stk = [GHead; WGetSetGen g; KDone None].
Proof. intros H Hn. cbn in H. rewrite Hn in H. injection H as <- <- <- <-. eauto. Qed.

Lemma cmd_start_setgen_resv cf s l g0 s' l' stk r w :
  cmd_start cf s l (CSetGen g0) = inl (s', l', stk, r) -> resv w stk = 0.
Proof. intros H. cbn in H. destruct (tl_node l); injection H as <- <- <- <-; reflexivity. Qed.

Lemma cmd_setgen_dec c : (forall g, c <> CSetGen g) \/ exists g, c = CSetGen g.
Proof. destruct c; try (left; discriminate). right. eauto. Qed.
