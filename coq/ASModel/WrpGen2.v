(** * ASModel.WrpGen2 — [W_inv], [GenTopW], [Fresh] are preserved by every step, for programs
    that use [CSetGen] as a first command; no hypothesis on the generation counters. *)
From Coq Require Import Lia ZArith Zify ZifyClasses ZifyBool ZifyN.
From ASModel Require Import Base State Orderings_gen Step Run Progress Hist Inv InvTl InvProto InvStep Sum StepCases GenDefs Gen1 Gen2 Gen3 WrpDefs WrpGen1.

(** ** [W_inv] *)
Theorem step_W_invW cf s t x :
  WF2 s -> Quiet s -> W_inv s -> NoFault (fst (step cf s t x)) -> W_inv (fst (step cf s t x)).
Proof.
  intros W Q Wi Hnf.
  destruct (step_cases cf s t x) as [E|c s1 l1 stk r Hr Hs Hc Hen Hcs E|n Hr Hs Hn E|Hr Hs Hn E|p rest s1 l1 evs nx Hr Hs He E].
  - rewrite E. exact Wi.
  - rewrite E. destruct (cmd_start_effect _ _ _ _ _ _ _ _ Hcs) as (Hthr & Hnode & Hmem & _).
    destruct (start_thread_fields (thr s t) l1 stk) as (F1 & F2 & F3 & _).
    apply (W_transfer s _ t Wi); cbn; rewrite ?upd_same.
    + intros t' Hne'. rewrite upd_other by exact Hne'. rewrite Hthr. reflexivity.
    + intros w. rewrite F1, Hs, Hmem by discriminate.
      destruct (cmd_setgen_dec c) as [Hg|(g & ->)].
      * destruct (cmd_start_call _ _ _ _ _ _ _ _ Hcs Hg) as (fs & bs & -> & Hcall & Hbt).
        rewrite resv_app, (call_shape_resv _ _ _ w Hcall), (bottom_tail_resv _ w Hbt). reflexivity.
      * rewrite (cmd_start_setgen_resv _ _ _ _ _ _ _ _ w Hcs). reflexivity.
  - rewrite E. apply (W_transfer s _ t Wi); cbn; rewrite ?upd_same; cbn.
    + intros t' Hne'. apply upd_other. exact Hne'.
    + intros w. rewrite Hs. reflexivity.
  - rewrite E. apply (W_transfer s _ t Wi); cbn; rewrite ?upd_same; cbn.
    + intros t' Hne'. apply upd_other. exact Hne'.
    + intros w. rewrite Hs. reflexivity.
  - destruct (exec_settle _ _ _ _ _ _ _ _ _ _ W Hnf Hr Hs He) as [Hns Hset].
    remember (thread_after cf (thr s t) l1 rest nx) as th' eqn:Eth.
    destruct th' as [stk2 l2 pr2 ci2 st2]; cbn [t_loc t_stack t_status] in Hset.
    pose proof (q_bl _ Q t) as Hbl. rewrite Hs in Hbl. destruct Hbl as [_ Hbl].
    rewrite E. apply (W_transfer s _ t Wi); cbn; rewrite ?upd_same; cbn.
    + intros t' Hne'. apply upd_other. exact Hne'.
    + intros w. rewrite Hs, (settle_resv _ _ _ _ _ _ _ w Hset Hbl). cbn.
      assert (Hle : resv_frame w p <= mem (sh s) (LWriters w)).
      { pose proof (Total_ge _ _ t (Wi w)) as Hge. cbn beta in Hge. rewrite Hs in Hge. cbn in Hge. lia. }
      pose proof (exec_resv _ _ _ _ _ _ _ _ _ w He Hns Hle (fresh_writers s w W Q Wi)). lia.
Qed.

(** ** [GenTopW] *)
Lemma sg_stack_inv l p rest : sg_stack l (p :: rest) ->
  exists g, rest = [WGetSetGen g; KDone None] /\ is_nget p = true /\ tl_node l = None.
Proof. intros (p0 & g & [= -> ->] & H1 & H2). eauto. Qed.

Theorem step_GenTopW cf s t x :
  WF2 s -> GenTopW s -> Fresh s -> SetGenFirst s -> NoFault (fst (step cf s t x)) ->
  GenTopW (fst (step cf s t x)).
Proof.
  intros W G Fr SF Hnf.
  destruct (step_cases cf s t x) as [E|c s1 l1 stk r Hr Hs Hc Hen Hcs E|n Hr Hs Hn E|Hr Hs Hn E|p rest s1 l1 evs nx Hr Hs He E].
  - rewrite E. exact G.
  - rewrite E. destruct (cmd_start_effect _ _ _ _ _ _ _ _ Hcs) as (Hthr & _).
    destruct (start_thread_fields (thr s t) l1 stk) as (F1 & F2 & F3 & _).
    intros t'. cbn. destruct (N.eq_dec t' t) as [->|Hne].
    + rewrite upd_same, F1, F2. intros _.
      destruct (cmd_setgen_dec c) as [Hg|(g0 & ->)].
      * destruct (cmd_start_call _ _ _ _ _ _ _ _ Hcs Hg) as (fs & bs & -> & Hcall & Hbt).
        left. apply Forall_app. split; [eapply call_shape_gentop; exact Hcall|apply bottom_tail_gentop; exact Hbt].
      * pose proof (SF t _ _ Hc) as Hi.
        assert (Hnone : tl_node (t_loc (thr s t)) = None) by (apply Fr; [exact Hr|lia|exact Hs]).
        destruct (cmd_start_setgen _ _ _ _ _ _ _ _ Hcs Hnone) as (_ & -> & g & ->).
        right. exists GHead, g. auto.
    + rewrite upd_other by exact Hne. rewrite Hthr. apply G.
  - rewrite E. intros t'. cbn. destruct (N.eq_dec t' t) as [->|Hne].
    + rewrite upd_same. cbn. intros _. left. repeat constructor.
    + rewrite upd_other by exact Hne. apply G.
  - rewrite E. intros t'. cbn. destruct (N.eq_dec t' t) as [->|Hne].
    + rewrite upd_same. cbn. discriminate.
    + rewrite upd_other by exact Hne. apply G.
  - destruct (exec_settle _ _ _ _ _ _ _ _ _ _ W Hnf Hr Hs He) as [Hns Hset].
    remember (thread_after cf (thr s t) l1 rest nx) as th' eqn:Eth.
    destruct th' as [stk2 l2 pr2 ci2 st2]; cbn [t_loc t_stack t_status] in Hset.
    destruct (running_stk_ok s t W Hr) as [Htl _]. rewrite Hs in Htl. destruct Htl as (_ & Hwait & _).
    rewrite E. intros t'. cbn. destruct (N.eq_dec t' t) as [->|Hne]; [|rewrite upd_other by exact Hne; apply G].
    rewrite upd_same. cbn. intros _.
    pose proof (G t Hr) as Hg. rewrite Hs in Hg. destruct Hg as [Hg|Hsg].
    + inversion Hg as [|? ? Hgp Hgr]; subst. left.
      eapply settle_gentop; [exact Hset|exact Hwait|eapply Forall_gen_waiting; eassumption|].
      eapply exec_gentop; eassumption.
    + destruct (sg_stack_inv _ _ _ Hsg) as (g & -> & Hp & Hnone).
      destruct (exec_nget _ _ _ _ _ _ _ _ _ Hp He) as [(-> & q & -> & Hq)|(k & ->)].
      * destruct (settle_sg_goto _ _ _ _ _ _ _ Hset) as (-> & -> & _). right. exists q, g. auto.
      * destruct (settle_sg_ret _ _ _ _ _ _ _ Hset) as (-> & _). left. constructor.
Qed.

(** ** [Fresh] *)
Lemma unwind_stack_ne cf : forall rest l v l' stk, unwind cf l rest v = UStack l' stk -> stk <> [].
Proof.
  induction rest as [|w rest IH]; intros l v l' stk H; [discriminate|].
  destruct w; cbn [unwind] in H; try discriminate.
  all: match type of H with context [resume ?cf0 ?l0 ?w0 ?v0] => destruct (resume cf0 l0 w0 v0) as [l1 nx] end.
  all: destruct nx; try discriminate; try (eapply IH; exact H).
  all: injection H as <- <-; try discriminate.
  all: intros E0; apply app_eq_nil in E0 as [_ E0]; discriminate.
Qed.

Lemma thread_after_cmdi cf th l1 rest nx :
  t_status (thread_after cf th l1 rest nx) = Running -> t_stack (thread_after cf th l1 rest nx) = [] ->
  t_cmdi (thread_after cf th l1 rest nx) = t_cmdi th + 1.
Proof.
  unfold thread_after. destruct nx as [p'|fs w'|v'|ps|f]; cbn; try discriminate.
  - intros _ E0. apply app_eq_nil in E0 as [_ E0]. discriminate.
  - destruct (unwind cf l1 rest v') eqn:Hu; cbn; try discriminate; try reflexivity.
    intros _ E0. exfalso. exact (unwind_stack_ne _ _ _ _ _ _ Hu E0).
Qed.

Theorem step_Fresh cf s t x : Fresh s -> Fresh (fst (step cf s t x)).
Proof.
  intros Fr.
  destruct (step_cases cf s t x) as [E|c s1 l1 stk r Hr Hs Hc Hen Hcs E|n Hr Hs Hn E|Hr Hs Hn E|p rest s1 l1 evs nx Hr Hs He E].
  - rewrite E. exact Fr.
  - rewrite E. destruct (cmd_start_effect _ _ _ _ _ _ _ _ Hcs) as (Hthr & _).
    intros t'. cbn. destruct (N.eq_dec t' t) as [->|Hne].
    + rewrite upd_same. unfold start_thread. destruct stk; cbn; intros _ H1 H2; [lia|discriminate].
    + rewrite upd_other by exact Hne. rewrite Hthr. apply Fr.
  - rewrite E. intros t'. cbn. destruct (N.eq_dec t' t) as [->|Hne].
    + rewrite upd_same. cbn. discriminate.
    + rewrite upd_other by exact Hne. apply Fr.
  - rewrite E. intros t'. cbn. destruct (N.eq_dec t' t) as [->|Hne].
    + rewrite upd_same. cbn. discriminate.
    + rewrite upd_other by exact Hne. apply Fr.
  - rewrite E. intros t'. cbn. destruct (N.eq_dec t' t) as [->|Hne].
    + rewrite upd_same. intros H1 H2 H3. rewrite (thread_after_cmdi _ _ _ _ _ H1 H3) in H2. lia.
    + rewrite upd_other by exact Hne. apply Fr.
Qed.
