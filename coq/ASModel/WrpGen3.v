(** * ASModel.WrpGen3 — the summary of one global step as seen from the acting thread
    (cf. [Gen3.step_summary]), with the generation counter modulo [WORD] and the hook
    [CSetGen] as a first command. *)
From Coq Require Import Lia ZArith Zify ZifyClasses ZifyBool ZifyN.
From ASModel Require Import Base State Orderings_gen Step Run Progress Hist Inv InvTl InvProto InvStep Sum StepCases GenDefs Gen1 Gen2 Gen3 WrpDefs WrpGen1 WrpGen2.

(** The owner's view over a step: the counter stays (and what is unpublished / requested was
    so before, or the request publishes the generation chosen before), or the counter advances
    by 4 modulo [WORD] and no request is open. *)
Definition view_okW (s s' : state) (t : N) : Prop :=
  forall w, owner (thr s' t) = Some w ->
    claim_step s t w \/
    (owner (thr s t) = Some w /\
     ((tl_gen (t_loc (thr s' t)) = tl_gen (t_loc (thr s t)) /\
       (unpublished (thr s' t) = true -> unpublished (thr s t) = true) /\
       (forall q, req_of (thr s' t) = Some q ->
          req_of (thr s t) = Some q \/
          (unpublished (thr s t) = true /\ snd q = N.lor (tl_gen (t_loc (thr s t))) GEN_TAG))) \/
      (tl_gen (t_loc (thr s' t)) = (tl_gen (t_loc (thr s t)) + 4) mod WORD /\
       req_of (thr s' t) = None))).

Lemma call_shape_hdW l l' fs bs :
  call_shape l l' fs -> hd_unpub bs = false -> hd_req bs = None ->
  (tl_gen l' = tl_gen l /\ hd_unpub (fs ++ bs) = false /\ hd_req (fs ++ bs) = None) \/
  (tl_gen l' = (tl_gen l + 4) mod WORD /\ hd_req (fs ++ bs) = None).
Proof.
  intros [[Hs Hg]|(c & fs' & -> & Hs & Hg)] B1 B2; [left|right; split; [exact Hg|reflexivity]].
  split; [exact Hg|]. destruct fs as [|f fs]; [cbn; auto|].
  destruct (all_simple_hd _ Hs) as [H1 H2]. cbn in *. auto.
Qed.

(** The space offers over a frame step. *)
Lemma exec_offer_ok cf s t x p rest s1 l1 evs nx l2 stk2 st2 :
  WF2 s -> t_status (thr s t) = Running -> t_stack (thr s t) = p :: rest ->
  exec cf (sh s) (t_loc (thr s t)) p x = (s1, l1, evs, nx) ->
  settle cf l1 rest nx l2 stk2 st2 ->
  forall w, mem s1 (LOffer w) = mem (sh s) (LOffer w) \/
            (owner (thr s t) = Some w /\ tl_node l2 = Some w /\ hd_req stk2 = None) \/ nn s = w.
Proof.
  intros W Hr Hs He Hset w.
  destruct (running_stk_ok s t W Hr) as [Htl Hnodes]. rewrite Hs in Htl, Hnodes.
  destruct Htl as (Hnw & Hwait & Hd & Hnn & Hget & Hgok).
  pose proof (settle_node _ _ _ _ _ _ _ Hset) as Snode.
  pose proof (exec_offer _ _ _ _ _ _ _ _ _ He) as Hoff.
  assert (Hown : in_with p = true -> forall q, own_node (t_loc (thr s t)) = w -> l1 = t_loc (thr s t) ->
                   nx = NGoto q -> top_req q = None ->
                   owner (thr s t) = Some w /\ tl_node l2 = Some w /\ hd_req stk2 = None).
  { intros Hi q Hw -> -> Hq.
    assert (Hno : tl_node (t_loc (thr s t)) <> None).
    { apply Hnn. cbn. rewrite (in_with_not_bottom _ Hi), Hi. lia. }
    unfold own_node in Hw. unfold owner. destruct (tl_node (t_loc (thr s t))) as [n1|] eqn:Hn1; [|congruence].
    subst n1. split; [reflexivity|]. split; [exact Snode|]. inversion Hset; subst. exact Hq. }
  destruct p; try (solve [left; apply Hoff]).
  - (* GPush *)
    destruct (Hoff w) as [Hx|[Hx ->]]; [left; exact Hx|right; right; exact Hx].
  - (* LH8 *)
    destruct (N.eq_dec w (own_node (t_loc (thr s t)))) as [Ew|Ew]; [|left; apply Hoff; exact Ew].
    right. left. cbn in He. unfold a_store in He. injection He as _ El _ En.
    exact (Hown eq_refl _ (eq_sym Ew) (eq_sym El) (eq_sym En) eq_refl).
  - (* PE8 *)
    destruct (N.eq_dec w (own_node (t_loc (thr s t)))) as [Ew|Ew]; [|left; apply Hoff; exact Ew].
    right. left. cbn in He. unfold a_store in He. injection He as _ El _ En.
    exact (Hown eq_refl _ (eq_sym Ew) (eq_sym El) (eq_sym En) eq_refl).
Qed.

Lemma step_summaryW cf s t x :
  WF2 s -> GenTopW s -> Fresh s -> SetGenFirst s -> NoFault (fst (step cf s t x)) ->
  (forall t', t' <> t -> thr (fst (step cf s t x)) t' = thr s t') /\
  view_okW s (fst (step cf s t x)) t /\ frames_ok s (fst (step cf s t x)) t /\ offer_ok s (fst (step cf s t x)) t.
Proof.
  intros W G Fr SF Hnf. split; [intros t' Hne; apply step_status_other; exact Hne|].
  assert (Hsame : forall s', thr s' t = thr s t -> sh s' = sh s -> view_okW s s' t /\ frames_ok s s' t /\ offer_ok s s' t).
  { intros s' Et Es. split; [|split].
    - intros w Ho. right. rewrite Et in *. split; [exact Ho|]. left. split; [reflexivity|]. split; auto.
    - intros f w ctl Hin Hf. left. rewrite Et in Hin. exists f. auto.
    - intros w. left. rewrite Es. reflexivity. }
  destruct (step_cases cf s t x) as [E|c s1 l1 stk r Hr Hs Hc Hen Hcs E|n Hr Hs Hn E|Hr Hs Hn E|p rest s1 l1 evs nx Hr Hs He E].
  - rewrite E. apply Hsame; reflexivity.
  - (* a command starts *)
    rewrite E. destruct (cmd_start_effect _ _ _ _ _ _ _ _ Hcs) as (Hthr & Hnode & Hmem & _).
    destruct (start_thread_fields (thr s t) l1 stk) as (F1 & F2 & F3 & _).
    unfold view_okW, frames_ok, offer_ok, set_thread; cbn [thr sh]; rewrite !upd_same.
    destruct (cmd_setgen_dec c) as [Hg|(g0 & ->)].
    + destruct (cmd_start_call _ _ _ _ _ _ _ _ Hcs Hg) as (fs & bs & -> & Hcall & Hbt).
      destruct (bottom_tail_hd _ Hbt) as (B1 & B2 & B3). split; [|split].
      * intros w Ho. right. unfold owner in *. rewrite F2 in *. rewrite Hnode in Ho. split; [exact Ho|].
        rewrite unpublished_top, req_of_top, F1. fold (hd_unpub (fs ++ bs)). fold (hd_req (fs ++ bs)).
        destruct (call_shape_hdW _ _ _ bs Hcall B1 B2) as [(C1 & C2 & C3)|(C1 & C2)].
        -- left. rewrite C2, C3. split; [exact C1|]. split; [discriminate|]. intros q Hq. discriminate.
        -- right. split; assumption.
      * intros f w ctl Hin Hf. exfalso. rewrite F1 in Hin. apply in_app_or in Hin as [Hin|Hin].
        -- rewrite (call_shape_help _ _ _ _ Hcall Hin) in Hf. discriminate.
        -- rewrite (B3 _ Hin) in Hf. discriminate.
      * intros w. left. apply Hmem. discriminate.
    + pose proof (SF t _ _ Hc) as Hi.
      assert (Hnone : tl_node (t_loc (thr s t)) = None) by (apply Fr; [exact Hr|lia|exact Hs]).
      destruct (cmd_start_setgen _ _ _ _ _ _ _ _ Hcs Hnone) as (_ & -> & g & ->). split; [|split].
      * intros w Ho. unfold owner in Ho. rewrite F2 in Ho. congruence.
      * intros f w ctl Hin Hf. exfalso. rewrite F1 in Hin. destruct Hin as [<-|[<-|[<-|[]]]]; discriminate Hf.
      * intros w. left. apply Hmem. discriminate.
  - (* the thread function returns *)
    rewrite E. unfold view_okW, frames_ok, offer_ok, set_thread; cbn [thr sh]; rewrite !upd_same; (split; [|split]).
    + intros w Ho. discriminate Ho.
    + intros f w ctl [<-|[<-|[]]] Hf; discriminate Hf.
    + intros w. left. reflexivity.
  - rewrite E. unfold view_okW, frames_ok, offer_ok, set_thread; cbn [thr sh]; rewrite !upd_same; (split; [|split]).
    + intros w Ho. right. cbn in Ho. split; [exact Ho|]. left. cbn. split; [reflexivity|]. split; [discriminate|]. intros q Hq. discriminate Hq.
    + intros f w ctl [].
    + intros w. left. reflexivity.
  - (* a frame step *)
    destruct (exec_settle _ _ _ _ _ _ _ _ _ _ W Hnf Hr Hs He) as [Hns Hset].
    remember (thread_after cf (thr s t) l1 rest nx) as th' eqn:Eth.
    destruct th' as [stk2 l2 pr2 ci2 st2]; cbn [t_loc t_stack t_status] in Hset.
    pose proof (settle_node _ _ _ _ _ _ _ Hset) as Snode.
    pose proof (exec_offer_ok _ _ _ _ _ _ _ _ _ _ _ _ _ W Hr Hs He Hset) as Hoffer.
    pose proof (G t Hr) as Hg. rewrite Hs in Hg.
    rewrite E. unfold view_okW, frames_ok, offer_ok; cbn [thr sh]; rewrite !upd_same.
    split; [|split; [|intros w; destruct (Hoffer w) as [Hx|[(A & B & C)|Hx]]; auto]].
    + (* view *)
      intros w Ho. unfold owner in *. cbn [t_loc] in Ho. rewrite Snode in Ho.
      destruct (exec_node _ _ _ _ _ _ _ _ _ He) as [Hn1|[Hn1|(k & Hk & Hcl)]].
      2:{ rewrite Hn1 in Ho. discriminate. }
      2:{ left. rewrite Hk in Ho. injection Ho as ->. exists p, rest. split; [exact Hs|]. unfold nn. exact Hcl. }
      rewrite Hn1 in Ho. destruct Hg as [Hg|Hsg].
      2:{ destruct (sg_stack_inv _ _ _ Hsg) as (g & _ & _ & Hnone). congruence. }
      inversion Hg as [|? ? Hgp Hgr]; subst. pose proof (gentop_no_setgen _ _ Hgr) as Hng.
      right. split; [exact Ho|]. cbn [t_loc].
      rewrite !unpublished_top, !req_of_top, Hs. cbn [t_stack]. fold (hd_unpub stk2). fold (hd_req stk2).
      pose proof (settle_req _ _ _ _ _ _ _ Hset Hng) as Sreq.
      destruct (exec_viewW _ _ _ _ _ _ _ _ _ He Hns Hgp) as [(V1 & V3 & V4)|(V1 & V2 & V3)];
        destruct (settle_genW _ _ _ _ _ _ _ Hset Hng) as [(S1 & S2)|(S1 & S2)].
      * left. split; [congruence|]. split; [intros Hu; apply V3, S2, Hu|].
        intros q Hq. rewrite Sreq in Hq. exact (V4 q Hq).
      * right. split; [congruence|]. rewrite Sreq, S1. reflexivity.
      * right. split; [congruence|]. rewrite Sreq. exact V3.
      * contradiction.
    + (* frames *)
      intros f w ctl Hin Hf. cbn [t_stack] in Hin.
      destruct Hg as [Hg|Hsg].
      2:{ exfalso. destruct (sg_stack_inv _ _ _ Hsg) as (g & -> & Hp & Hnone).
          destruct (exec_nget _ _ _ _ _ _ _ _ _ Hp He) as [(-> & q & -> & Hq)|(k & ->)].
          - destruct (settle_sg_goto _ _ _ _ _ _ _ Hset) as (-> & _).
            destruct Hin as [<-|[<-|[<-|[]]]]; try discriminate Hf. rewrite (nget_help _ Hq) in Hf. discriminate.
          - destruct (settle_sg_ret _ _ _ _ _ _ _ Hset) as (-> & _). destruct Hin. }
      inversion Hg as [|? ? Hgp Hgr]; subst. pose proof (gentop_no_setgen _ _ Hgr) as Hng.
      pose proof (settle_req _ _ _ _ _ _ _ Hset Hng) as Sreq.
      assert (Hfn : help_frame f <> None) by congruence.
      destruct (settle_help _ _ _ _ _ _ _ f Hset Hng Hin Hfn) as [H|[H|(c & old & n & ctl' & r & -> & H)]].
      * left. exists f. rewrite Hs. split; [right; exact H|auto].
      * destruct (exec_help _ _ _ _ _ _ _ _ _ _ _ _ He Hns H Hf) as
          [(O1 & O2 & O3)|[(c & O1 & O2 & O3 & O4 & O5)|[(O1 & O2 & O3)|(O1 & O2 & O3 & O4 & O5 & O6)]]].
        -- left. exists p. rewrite Hs. split; [left; reflexivity|auto].
        -- right. left. exists p, c. rewrite Hs. split; [left; reflexivity|]. repeat split; auto.
           rewrite req_of_top. cbn [t_stack]. fold (hd_req stk2). rewrite Sreq. exact O5.
        -- right. right. left. exists p. rewrite Hs. split; [left; reflexivity|auto].
        -- right. right. right. repeat split; auto.
           ++ rewrite req_of_top, Hs. exact O5.
           ++ exists p, rest. split; [exact Hs|exact O6].
      * left. exists (WHelpRepl c old n ctl'). rewrite Hs. split; [right; exact H|]. cbn in Hf. cbn. auto.
Qed.
