(** * ASModel.WrpGen4 — generation uniqueness through the wrap: [GUW], [GUC], [GUT] are
    preserved by every step (cf. Gen3, which orders generations by [<=] under [Calm]). *)
From Coq Require Import Lia ZArith Zify ZifyClasses ZifyBool ZifyN.
From ASModel Require Import Base State Orderings_gen Step Run Progress Hist Inv InvTl InvProto InvStep Sum StepCases GenDefs Gen1 Gen2 Gen3 WrpDefs WrpGen1 WrpGen2 WrpGen3.

Lemma WORD_nz : WORD <> 0.
Proof. unfold WORD. discriminate. Qed.

(** An age below [WORD] that is not zero changes the generation. *)
Lemma age_nz g a : g < WORD -> a < WORD -> a <> 0 -> g <> (g + a) mod WORD.
Proof.
  intros Hg Ha Hz E. destruct (N.lt_ge_cases (g + a) WORD) as [H|H].
  - rewrite N.mod_small in E by exact H. lia.
  - assert (Hm : g + a - WORD = (g + a) mod WORD) by (apply (N.mod_unique _ _ 1); lia). lia.
Qed.

Lemma age_step g a : ((g + a) mod WORD + 4) mod WORD = (g + (a + 4)) mod WORD.
Proof. rewrite N.add_mod_idemp_l by exact WORD_nz. f_equal. lia. Qed.

Lemma req_gentopW s th c gt :
  WF2 s -> Quiet s -> GenTopW s -> req_of (thr s th) = Some (c, gt) ->
  t_status (thr s th) = Running /\ gt = N.lor (tl_gen (t_loc (thr s th))) GEN_TAG /\
  gen_of gt = tl_gen (t_loc (thr s th)) /\ unpublished (thr s th) = false /\
  tl_gen (t_loc (thr s th)) < WORD.
Proof.
  intros W Q G Hreq. rewrite req_of_top in Hreq. rewrite unpublished_top.
  destruct (t_stack (thr s th)) as [|p rest] eqn:Hs; [discriminate|].
  assert (Hr : t_status (thr s th) = Running) by (eapply in_running; [exact Q|rewrite Hs; left; reflexivity]).
  split; [exact Hr|]. pose proof (G th Hr) as Hg. rewrite Hs in Hg.
  destruct Hg as [Hg|Hsg].
  2:{ destruct (sg_stack_inv _ _ _ Hsg) as (g & _ & Hp & _). rewrite (nget_req _ Hp) in Hreq. discriminate. }
  inversion Hg as [|? ? Hgp _]; subst.
  destruct (running_stk_ok s th W Hr) as [Htl _]. rewrite Hs in Htl. destruct Htl as (_ & _ & _ & _ & _ & Hgok & Hlt).
  assert (Hgt : gt = N.lor (tl_gen (t_loc (thr s th))) GEN_TAG).
  { destruct p; try discriminate Hreq; cbn in Hreq, Hgp; congruence. }
  split; [exact Hgt|]. split; [rewrite Hgt; apply gen_of_lor; exact Hgok|].
  split; [|exact Hlt]. destruct p; try discriminate Hreq; reflexivity.
Qed.

Lemma running_gen_ok s th : WF2 s -> t_status (thr s th) = Running -> gen_ok (t_loc (thr s th)).
Proof.
  intros W Hr. destruct (running_stk_ok s th W Hr) as [Htl _].
  destruct (t_stack (thr s th)); [apply Htl|]. destruct Htl as (_ & _ & _ & _ & _ & Hg). exact Hg.
Qed.

Section Step.
  Variables (cf : config) (s : state) (t x : N) (B : N).
  Hypotheses (W : WF2 s) (Q : Quiet s) (GI : GenInvW B s) (SF : SetGenFirst s) (HB : B < WORD)
             (Hnf : NoFault (fst (step cf s t x))).
  Local Notation s' := (fst (step cf s t x)).

  Let Hsum := step_summaryW cf s t x W (gw_top _ _ GI) (gw_fresh _ _ GI) SF Hnf.

  (** The view of an owner of [w] after the step, given a frame that holds a reservation in [w]. *)
  Lemma old_viewW th w t1 f0 :
    In f0 (t_stack (thr s t1)) -> resv_node f0 = Some w ->
    owner (thr s' th) = Some w ->
    owner (thr s th) = Some w /\
    ((tl_gen (t_loc (thr s' th)) = tl_gen (t_loc (thr s th)) /\
      (unpublished (thr s' th) = true -> unpublished (thr s th) = true) /\
      (forall q, req_of (thr s' th) = Some q ->
         req_of (thr s th) = Some q \/
         (unpublished (thr s th) = true /\ snd q = N.lor (tl_gen (t_loc (thr s th))) GEN_TAG))) \/
     (tl_gen (t_loc (thr s' th)) = (tl_gen (t_loc (thr s th)) + 4) mod WORD /\
      req_of (thr s' th) = None)).
  Proof.
    intros Hin Hr Ho. destruct Hsum as (Hoth & V & _ & _).
    destruct (N.eq_dec th t) as [->|Hne].
    - destruct (V w Ho) as [Hcl|H]; [|exact H].
      exfalso. exact (no_claim s t w t1 f0 W Q (gw_w _ _ GI) (gw_nu _ _ GI) Hcl Hin Hr).
    - rewrite (Hoth th Hne) in *. split; [exact Ho|]. left. split; [reflexivity|]. split; auto.
  Qed.

  (** [GUW] for a frame that existed before the step. *)
  Lemma GU_oldW th w ctl t1 f0 :
    In f0 (t_stack (thr s t1)) -> help_frame f0 = Some (w, ctl) -> owner (thr s' th) = Some w ->
    exists a, a <= B + 4 /\ tl_gen (t_loc (thr s' th)) = (gen_of ctl + a) mod WORD /\
              (unpublished (thr s' th) = true -> a <> 0).
  Proof.
    intros Hin Hf Ho.
    destruct (old_viewW th w t1 f0 Hin (help_frame_resv _ _ _ Hf) Ho) as (Ho0 & [(Eg & Hun & _)|(Eg & _)]);
      destruct (gw_u _ _ GI t1 f0 w ctl Hin Hf th Ho0) as (a & Ha & Hgen & Hnz).
    - exists a. split; [lia|]. split; [rewrite Eg; exact Hgen|]. intros Hu. apply Hnz, Hun, Hu.
    - exists (a + 4). split; [lia|]. split; [|lia]. rewrite Eg, Hgen. apply age_step.
  Qed.

  (** A request of the new state that carries the word of an old helper frame is an old request. *)
  Lemma req_oldW th w ctl c' t1 f0 :
    In f0 (t_stack (thr s t1)) -> help_frame f0 = Some (w, ctl) ->
    owner (thr s' th) = Some w -> req_of (thr s' th) = Some (c', ctl) ->
    owner (thr s th) = Some w /\ req_of (thr s th) = Some (c', ctl).
  Proof.
    intros Hin Hf Ho Hreq.
    destruct (old_viewW th w t1 f0 Hin (help_frame_resv _ _ _ Hf) Ho) as (Ho0 & [(_ & _ & Hrq)|(_ & Hnone)]);
      [|congruence].
    split; [exact Ho0|]. destruct (Hrq _ Hreq) as [Hx|(Hu & Hgt)]; [exact Hx|]. exfalso. cbn in Hgt.
    destruct (gw_u _ _ GI t1 f0 w ctl Hin Hf th Ho0) as (a & Ha & Hgen & Hnz). specialize (Hnz Hu).
    assert (Hr : t_status (thr s th) = Running).
    { rewrite unpublished_top in Hu. destruct (t_stack (thr s th)) eqn:Hs; [discriminate|].
      eapply in_running; [exact Q|rewrite Hs; left; reflexivity]. }
    destruct (running_gen_ok s th W Hr) as [Hg1 Hg2].
    rewrite Hgt, gen_of_lor in Hgen by exact Hg1.
    apply (age_nz (tl_gen (t_loc (thr s th))) a); [exact Hg2|lia|exact Hnz|exact Hgen].
  Qed.

  Theorem step_GUW : GUW (B + 4) s'.
  Proof.
    intros t1 f w ctl Hin Hf th Ho.
    destruct Hsum as (Hoth & V & F & _).
    destruct (N.eq_dec t1 t) as [->|Hne]; [|rewrite (Hoth t1 Hne) in Hin; eapply GU_oldW; eassumption].
    destruct (F f w ctl Hin Hf) as [(f0 & I0 & H0 & _)|[(f0 & c & I0 & H0 & _)|[(f0 & I0 & H0 & _)|
      (Hctl & Hgen & _ & _ & Hnoreq & p & rest & Hs & Hres)]]]; try (eapply GU_oldW; eassumption).
    (* a word just read from the control word of [w] *)
    assert (Hinp : In p (t_stack (thr s t))) by (rewrite Hs; left; reflexivity).
    pose proof (nodes_ok_resv _ _ _ (all_frames_ok s t p W Q Hinp) Hres) as Hlt.
    rewrite Hctl in Hgen. destruct (ctl_gen_owner s w W Q Hlt Hgen) as (th0 & c0 & Hr0 & Ho0 & Hreq0 & _).
    rewrite <- Hctl in *.
    destruct (old_viewW th w t p Hinp Hres Ho) as (Hoo & _).
    assert (th = th0) as -> by (eapply owner_unique; eassumption).
    assert (Hne : th0 <> t) by (intros ->; congruence).
    rewrite (Hoth th0 Hne).
    destruct (req_gentopW s th0 c0 ctl W Q (gw_top _ _ GI) Hreq0) as (_ & _ & Hg & Hu & Hlt0).
    exists 0. split; [lia|]. rewrite Hg, Hu, N.add_0_r, N.mod_small by exact Hlt0. split; [reflexivity|discriminate].
  Qed.

  Theorem step_GUCW : GUC s'.
  Proof.
    intros t1 f c w ctl Hin Hc th c' Ho Hreq.
    pose proof (help_c_frame _ _ _ _ Hc) as Hf.
    destruct Hsum as (Hoth & V & F & _).
    assert (Hold : forall t0 f0, In f0 (t_stack (thr s t0)) -> help_c f0 = Some (c, w, ctl) -> c' = c).
    { intros t0 f0 I0 C0. destruct (req_oldW th w ctl c' t0 f0 I0 (help_c_frame _ _ _ _ C0) Ho Hreq) as [A A'].
      exact (gw_c _ _ GI t0 f0 c w ctl I0 C0 th c' A A'). }
    destruct (N.eq_dec t1 t) as [->|Hne]; [|rewrite (Hoth t1 Hne) in Hin; eapply Hold; eassumption].
    destruct (F f w ctl Hin Hf) as [(f0 & I0 & H0 & C0 & _)|[(f0 & c2 & I0 & H0 & C0 & _ & Ha & Hnr)|[(f0 & I0 & H0 & C0 & _)|
      (_ & _ & C0 & _)]]].
    - eapply Hold; [exact I0|]. rewrite <- C0. exact Hc.
    - rewrite C0 in Hc. injection Hc as ->.
      destruct (N.eq_dec th t) as [->|Hnt]; [congruence|]. rewrite (Hoth th Hnt) in Ho, Hreq.
      pose proof (req_addr s th c' ctl w W Q Ho Hreq) as Ha'. rewrite Ha in Ha'. symmetry. apply store_val_inj. exact Ha'.
    - eapply Hold; [exact I0|]. rewrite <- C0. exact Hc.
    - congruence.
  Qed.

  Theorem step_GUTW : GUT s'.
  Proof.
    intros t1 f w ctl their Hin Ht th c' Ho Hreq.
    pose proof (help_their_frame _ _ _ _ Ht) as Hf.
    destruct Hsum as (Hoth & V & F & M).
    assert (Hold : forall t0 f0, In f0 (t_stack (thr s t0)) -> help_their f0 = Some (w, ctl, their) ->
                                 mem (sh s') (LOffer w) = their).
    { intros t0 f0 I0 T0. pose proof (help_their_frame _ _ _ _ T0) as H0.
      destruct (req_oldW th w ctl c' t0 f0 I0 H0 Ho Hreq) as [A A'].
      pose proof (gw_t _ _ GI t0 f0 w ctl their I0 T0 th c' A A') as Hm.
      destruct (M w) as [Hx|[(O1 & O2 & O3)|Hx]].
      - rewrite Hx. exact Hm.
      - exfalso. destruct (N.eq_dec th t) as [->|Hnt]; [congruence|].
        apply Hnt. eapply owner_unique; eassumption.
      - exfalso. pose proof (nodes_ok_resv _ _ _ (all_frames_ok s t0 f0 W Q I0) (help_frame_resv _ _ _ H0)). lia. }
    destruct (N.eq_dec t1 t) as [->|Hne]; [|rewrite (Hoth t1 Hne) in Hin; eapply Hold; eassumption].
    destruct (F f w ctl Hin Hf) as [(f0 & I0 & H0 & _ & T0)|[(f0 & c2 & I0 & H0 & _ & T0 & _)|[(f0 & I0 & H0 & _ & T0)|
      (_ & _ & _ & T0 & _)]]].
    - eapply Hold; [exact I0|]. rewrite <- T0. exact Ht.
    - congruence.
    - rewrite T0 in Ht. injection Ht as <-. reflexivity.
    - congruence.
  Qed.
End Step.
