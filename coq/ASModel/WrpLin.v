(** * ASModel.WrpLin — C03 through the wrap: every load returns a value that its container held
    at some instant between the call and the return, in runs within [RunOKW] (no [GenBound];
    [CSetGen] as a first command).

    [LinInv2] (Lin1) is preserved by every instrumented step on top of [GenInvW]
    ([gstep_LinInv2W]); the run theorems are those of Lin with [GenInvW (4 * k)] after [k] steps. *)
From Coq Require Import Lia.
From ASModel Require Import Base State Orderings_gen Step Run Progress Hist Inv InvTl InvProto InvStep Sum StepCases
  GenDefs Gen1 Gen2 Gen3 Gen EnvDefs LinDefs
  Lin1 Lin2 Lin3 Lin4 Lin5 Lin6 Lin7 Lin8 Lin9 Lin10 Lin11 Lin12 Lin13 Lin14 Lin.
From ASModel Require Import WrpDefs WrpGen1 WrpGen2 WrpGen3 WrpGen4 WrpGen WrpLin1 WrpLin2.

(** ** One instrumented step *)
Theorem gstep_LinInv2W cf s g t x B :
  WF2 s -> Quiet s -> GenInvW B s -> SetGenFirst s -> B < WORD -> EnvFree s -> EnvA s -> LinInv2 s g ->
  NoFault (fst (step cf s t x)) ->
  LinInv2 (fst (gstep cf (s, g) t x)) (snd (gstep cf (s, g) t x)).
Proof.
  intros W Q GI SF HB EF EA [LF CA CP LB ZV PF HF AN] Hnf. rewrite gstep_fst. constructor.
  - apply LtFresh_step. exact LF.
  - apply step_ContAll; assumption.
  - apply step_ContPair; assumption.
  - apply step_LdBot; assumption.
  - eapply step_ZoneInvW; eassumption.
  - eapply step_PubFreshW; eassumption.
  - eapply step_HelpFreshW; eassumption.
  - eapply step_AnsweredW; eassumption.
Qed.

(** ** The step that completes a load ([Lin.load_returns_fresh] uses neither [Calm] nor [GenInv]) *)
Theorem load_returns_freshW cf s g t x cm c h :
  WF2 s -> Quiet s -> LinInv2 s g ->
  NoFault (fst (step cf s t x)) ->
  cur_cmd s t = Some cm -> is_load_of cm c h ->
  t_cmdi (thr (fst (step cf s t x)) t) = t_cmdi (thr s t) + 1 ->
  let s' := fst (step cf s t x) in
  let g' := snd (gstep cf (s, g) t x) in
  exists rv, hnd s' h = handle_of rv /\ t_stack (thr s' t) = [] /\ g_start g' t = g_start g t /\
             (forall v, rval rv = Some v -> (g_lt g' c v >= g_start g' t)%nat) /\
             (forall K, LdTyped s -> load_kind cm = Some K -> kind_of rv = Some K).
Proof.
  intros W Q [LF CA CP LB ZV PF HF AN] Hnf Hcm Hld Hci. cbn zeta.
  assert (Hl : ld s t = true) by (unfold ld; rewrite Hcm; destruct Hld as [-> | ->]; reflexivity).
  assert (Hcc : cur_cont0 s t = Some c) by (unfold cur_cont0; rewrite Hcm; destruct Hld as [-> | ->]; reflexivity).
  assert (Hdst : load_dst cm = Some h) by (destruct Hld as [-> | ->]; reflexivity).
  destruct (step_cases2 cf s t x) as [Hr E|c0 Hr Hs Hcc0 Hen E|c0 s1 l1 stk r Hr Hs Hcc0 Hen Hcs E|n Hr Hs Hcc0 Hn E|Hr Hs Hcc0 Hn E|p rest s1 l1 evs nx Hr Hs He E];
    try (exfalso; rewrite E in Hci; cbn in Hci; rewrite ?upd_same in Hci; cbn in Hci; lia).
  - exfalso. rewrite Hcm in Hcc0. injection Hcc0 as <-.
    destruct (cmd_start_bot _ _ _ _ _ _ _ _ _ Hcs Hdst) as (pre & ->).
    rewrite E in Hci. cbn in Hci. rewrite upd_same in Hci. destruct pre; cbn in Hci; lia.
  - pose proof (ex_thr cf s t x rest s1 l1 nx E) as Et.
    destruct (exec_settle _ _ _ _ _ _ _ _ _ _ W Hnf Hr Hs He) as [Hns Hset].
    assert (Hz : inz (ld s t) rest) by (left; exact Hl).
    destruct (zone_pre cf s g t x W LF CA CP ZV p rest s1 l1 evs nx Hr Hs He E Hz) as ([_ Hrv] & HZ & Hst).
    rewrite Hl in HZ.
    pose proof (q_bl _ Q t) as Hbl. rewrite Hs in Hbl. destruct Hbl as [_ Hbl].
    destruct (LB t cm h Hcm Hdst) as [Hx|(pre & Hpre)]; [congruence|]. rewrite Hs in Hpre.
    destruct (running_stk_ok s t W Hr) as [Htl _]. rewrite Hs in Htl. destruct Htl as (Hnw & _).
    assert (Hrest : exists pre', rest = pre' ++ [KDone (Some h)]).
    { destruct pre as [|q pre]; [injection Hpre as -> _; discriminate Hnw|]. injection Hpre as _ ->. eauto. }
    rewrite Et in Hci. unfold thread_after in Hci.
    destruct nx as [p'|fs w'|v0|ps|f]; cbn in Hci; try lia.
    pose proof (unwind_ld cf (Pm cf s g t x) rest l1 v0 HZ (Hrv v0 eq_refl) Hbl) as Hu.
    destruct (unwind cf l1 rest v0) as [l2 stk2|l2 dst rv|l2|l2 ps|l2 f] eqn:Hun; cbn in Hci; try lia.
    destruct Hu as [Hv Hd]. specialize (Hd h Hrest). subst dst.
    exists rv. split; [|split; [|split; [|split]]].
    + rewrite E. cbn. rewrite Hun. apply upd_same.
    + rewrite Et. unfold thread_after. rewrite Hun. reflexivity.
    + apply (g_start_same cf s g t x Hst).
    + intros v Hrvv. apply (Hv v Hrvv c). left. split; assumption.
    + intros K LT HK. pose proof (LT t cm K Hcm HK) as Hty. rewrite Hs in Hty.
      assert (Hkp : ret_kind p <> None).
      { cbn [tstk] in Hty. rewrite (proj2 (not_waiting_not_help _ Hnw)) in Hty. apply Hty. }
      destruct (ret_kind p) as [k|] eqn:Hk; [|congruence].
      pose proof (exec_kind _ _ _ _ _ _ _ _ _ _ He Hk) as Hnk. cbn in Hnk.
      pose proof (unwind_typed cf p rest K l1 v0 k Hty Hnw Hk Hnk) as Hut. rewrite Hun in Hut. exact Hut.
Qed.

(** ** Runs *)
Section RunW.
  Variables (cf : config) (inits : list N) (progs : list (list cmd)).
  Local Notation s0 := (init_state inits progs).
  Hypothesis Hprogs : progs_setgen_first progs.

  Lemma run_LinInv2W : forall sched,
    4 * N.of_nat (length sched) < WORD + 4 ->
    prefix_ok EnvFree cf s0 sched -> prefix_ok EnvA cf s0 sched ->
    NoFault (run_state cf s0 sched) ->
    LinInv2 (run_state cf s0 sched) (snd (grun cf (s0, ghost0) sched)).
  Proof.
    induction sched as [|tx sched IH] using rev_ind; intros Hlen He Ha Hnf; [apply LinInv2_init|].
    pose proof (prefix_ok_snoc _ _ _ _ _ He) as He1. pose proof (prefix_ok_snoc _ _ _ _ _ Ha) as Ha1.
    rewrite run_state_snoc in Hnf. pose proof (NoFault_back _ _ _ _ Hnf) as Hnf1.
    rewrite app_length in Hlen. cbn [length] in Hlen.
    assert (Hlen1 : 4 * N.of_nat (length sched) < WORD) by lia.
    specialize (IH ltac:(lia) He1 Ha1 Hnf1).
    destruct (run_GenInvW cf inits progs sched Hprogs ltac:(lia) Hnf1) as [W Q GI].
    rewrite run_state_snoc, grun_snoc.
    destruct (grun cf (s0, ghost0) sched) as [s1 g1] eqn:Hg.
    assert (Hs1 : s1 = run_state cf s0 sched) by (rewrite <- (grun_fst cf sched s0 ghost0), Hg; reflexivity).
    subst s1. cbn [snd] in IH.
    change (fst (step cf (run_state cf s0 sched) (fst tx) (snd tx)))
      with (fst (gstep cf (run_state cf s0 sched, g1) (fst tx) (snd tx))).
    eapply gstep_LinInv2W; try eassumption.
    - apply SetGenFirst_run. apply SetGenFirst_init. exact Hprogs.
    - apply prefix_ok_all. exact He1.
    - apply prefix_ok_all. exact Ha1.
  Qed.

  Variable sched : list (N * N).
  Hypotheses (Hlen : 4 * N.of_nat (length sched) < WORD + 4)
             (Henvf : prefix_ok EnvFree cf s0 sched)
             (Henva : prefix_ok EnvA cf s0 sched) (Hnf : NoFault (run_state cf s0 sched)).
  Local Notation St k := (run_state cf s0 (firstn k sched)).
  Local Notation Gh k := (snd (grun cf (s0, ghost0) (firstn k sched))).

  Lemma firstn_lenW k : 4 * N.of_nat (length (firstn k sched)) < WORD + 4.
  Proof. rewrite firstn_length. lia. Qed.

  Theorem load_linearizableW t i cm c h pa pb xa tb xb :
    nth_error (t_prog (thr s0 t)) (N.to_nat i) = Some cm -> is_load_of cm c h ->
    (pa <= pb)%nat ->
    nth_error sched pa = Some (t, xa) ->
    t_status (thr (St pa) t) = Running -> t_stack (thr (St pa) t) = [] -> t_cmdi (thr (St pa) t) = i ->
    nth_error sched pb = Some (tb, xb) ->
    t_cmdi (thr (St pb) t) = i -> t_cmdi (thr (St (S pb)) t) = i + 1 ->
    exists rv, hnd (St (S pb)) h = handle_of rv /\
      (forall K, load_kind cm = Some K -> kind_of rv = Some K) /\
      forall v, rval rv = Some v ->
        exists k, (pa + 1 <= k <= pb + 1)%nat /\ mem (sh (St k)) (LStore c) = v.
  Proof.
    intros Hcm Hld Hab Ha Hra Hsa Hia Hb Hib Hib'.
    assert (Hlt : (pb < length sched)%nat) by (apply nth_error_Some; congruence).
    rewrite (St_succ cf inits progs sched pb tb xb Hb) in Hib'.
    assert (tb = t) as ->.
    { destruct (N.eq_dec tb t) as [E|E]; [exact E|]. rewrite step_status_other in Hib' by congruence. lia. }
    pose proof (NoFault_prefix cf s0 sched (S pb) Hnf) as Hnf1. rewrite (St_succ cf inits progs sched pb t xb Hb) in Hnf1.
    pose proof (NoFault_back _ _ _ _ Hnf1) as Hnf0.
    destruct (run_GenInvW cf inits progs (firstn pb sched) Hprogs (firstn_lenW pb) Hnf0) as [W Q GI].
    pose proof (run_LinInv2W (firstn pb sched) (firstn_lenW pb)
                  (prefix_ok_firstn _ _ _ _ pb Henvf) (prefix_ok_firstn _ _ _ _ pb Henva) Hnf0) as LI.
    pose proof (run_LdTyped cf (firstn pb sched) s0 (WF2_init inits progs) (LdTyped_init inits progs) Hnf0) as LT.
    assert (Hcur : cur_cmd (St pb) t = Some cm).
    { unfold cur_cmd. rewrite run_prog, Hib. exact Hcm. }
    rewrite <- Hib in Hib'.
    destruct (load_returns_freshW cf (St pb) (Gh pb) t xb cm c h W Q LI Hnf1 Hcur Hld Hib')
      as (rv & Hh & _ & Hst & Hfr & Hkind).
    rewrite <- (St_succ cf inits progs sched pb t xb Hb) in Hh.
    rewrite <- (Gh_succ cf inits progs sched pb t xb Hb) in Hst, Hfr.
    exists rv. split; [exact Hh|]. split; [intros K HK; exact (Hkind K LT HK)|].
    intros v Hv. specialize (Hfr v Hv).
    assert (Hstart : g_start (Gh (S pa)) t = S pa).
    { rewrite (Gh_succ cf inits progs sched pa t xa Ha), g_start_step, N.eqb_refl.
      unfold starts_now. rewrite Hra, Hsa. cbn. rewrite (Gh_now cf inits progs sched) by lia. reflexivity. }
    pose proof (Gh_start_mono cf inits progs sched (S pa) (S pb) t ltac:(lia)) as Hmono.
    destruct (lt_sound cf s0 (firstn (S pb) sched) c v) as [Hk1 Hk2]. cbn zeta in Hk1, Hk2.
    rewrite firstn_length in Hk1.
    exists (g_lt (Gh (S pb)) c v). split; [lia|].
    rewrite firstn_firstn in Hk2. rewrite Nat.min_l in Hk2 by lia. apply Hk2. lia.
  Qed.

  (** ... and the handle does receive a pointer: a guard for [load], an owned pointer for
      [load_full]. *)
  Theorem load_linearizable_totalW t i cm c h pa pb xa tb xb :
    nth_error (t_prog (thr s0 t)) (N.to_nat i) = Some cm -> is_load_of cm c h ->
    (pa <= pb)%nat ->
    nth_error sched pa = Some (t, xa) ->
    t_status (thr (St pa) t) = Running -> t_stack (thr (St pa) t) = [] -> t_cmdi (thr (St pa) t) = i ->
    nth_error sched pb = Some (tb, xb) ->
    t_cmdi (thr (St pb) t) = i -> t_cmdi (thr (St (S pb)) t) = i + 1 ->
    exists v, (match cm with
               | CLoad _ _ => exists d, hnd (St (S pb)) h = HGuard v d
               | _ => hnd (St (S pb)) h = HOwned v
               end) /\
      exists k, (pa + 1 <= k <= pb + 1)%nat /\ mem (sh (St k)) (LStore c) = v.
  Proof.
    intros Hcm Hld Hab Ha Hra Hsa Hia Hb Hib Hib'.
    destruct (load_linearizableW t i cm c h pa pb xa tb xb Hcm Hld Hab Ha Hra Hsa Hia Hb Hib Hib') as (rv & Hh & Hkind & Hk).
    destruct Hld as [-> | ->].
    - pose proof (Hkind KGuard eq_refl) as Hkd. destruct rv; try discriminate Hkd.
      exists p. split; [exists d; exact Hh|]. apply Hk. reflexivity.
    - pose proof (Hkind KOwned eq_refl) as Hkd. destruct rv; try discriminate Hkd.
      exists p. split; [exact Hh|]. apply Hk. reflexivity.
  Qed.
End RunW.

Print Assumptions gstep_LinInv2W.
Print Assumptions run_LinInv2W.
Print Assumptions load_linearizableW.
Print Assumptions load_linearizable_totalW.
