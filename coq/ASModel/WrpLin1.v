(** * ASModel.WrpLin1 — the components of [LinInv2] whose preservation (Lin10, Lin11) uses the
    generation invariant, re-proved on top of [GenInvW]: [ZoneInv], [PubFresh], [HelpFresh]. *)
From Coq Require Import Lia.
From ASModel Require Import Base State Orderings_gen Step Run Progress Hist Inv InvTl InvProto InvStep Sum StepCases
  GenDefs Gen1 Gen2 Gen3 Gen EnvDefs LinDefs Lin1 Lin2 Lin3 Lin4 Lin5 Lin6 Lin7 Lin8 Lin9 Lin10 Lin11 Prot16.
From ASModel Require Import WrpDefs WrpGen1 WrpGen2 WrpGen3 WrpGen4 WrpGen.

(** ** Starting a command, the hook included *)
Lemma cmd_start_topW cf s l c s' l' stk r :
  cmd_start cf s l c = inl (s', l', stk, r) ->
  hd_req stk = None /\ (forall q, In q stk -> help_loaded q = None /\ help_c q = None).
Proof.
  intros Hcs. destruct (cmd_setgen_dec c) as [Hg|(g & ->)]; [eapply cmd_start_top; eassumption|].
  cbn in Hcs. destruct (tl_node l); injection Hcs as <- <- <- <-.
  - split; [reflexivity|intros q []].
  - split; [reflexivity|]. intros q [<-|[<-|[<-|[]]]]; split; reflexivity.
Qed.

Lemma cmd_start_hfreeW cf s l c s' l' stk r :
  cmd_start cf s l c = inl (s', l', stk, r) -> ldcmd c = false -> hfree stk = true.
Proof.
  intros Hcs _. destruct (cmd_setgen_dec c) as [Hg|(g & ->)]; [eapply cmd_start_hfree; eassumption|].
  cbn in Hcs. destruct (tl_node l); injection Hcs as <- <- <- <-; reflexivity.
Qed.

(** ** The stack of the hook after a step *)
Lemma sg_after cf s l p rest x s1 l1 evs nx l2 stk2 st2 :
  sg_stack l (p :: rest) -> exec cf s l p x = (s1, l1, evs, nx) -> settle cf l1 rest nx l2 stk2 st2 ->
  (exists q g, stk2 = [q; WGetSetGen g; KDone None] /\ is_nget q = true) \/ stk2 = [].
Proof.
  intros Hsg He Hset. destruct (sg_stack_inv _ _ _ Hsg) as (g & -> & Hp & _).
  destruct (exec_nget _ _ _ _ _ _ _ _ _ Hp He) as [(-> & q & -> & Hq)|(k & ->)].
  - destruct (settle_sg_goto _ _ _ _ _ _ _ Hset) as (-> & _). left. eauto.
  - destruct (settle_sg_ret _ _ _ _ _ _ _ Hset) as (-> & _). right. reflexivity.
Qed.

Lemma sg_after_req cf s l p rest x s1 l1 evs nx l2 stk2 st2 :
  sg_stack l (p :: rest) -> exec cf s l p x = (s1, l1, evs, nx) -> settle cf l1 rest nx l2 stk2 st2 ->
  hd_req stk2 = None /\ forall f, In f stk2 -> help_frame f = None /\ help_loaded f = None.
Proof.
  intros Hsg He Hset. destruct (sg_after _ _ _ _ _ _ _ _ _ _ _ _ _ Hsg He Hset) as [(q & g & -> & Hq)| ->].
  - split; [cbn; apply nget_req; exact Hq|].
    intros f [<-|[<-|[<-|[]]]]; try (split; reflexivity). split; [apply nget_help; exact Hq|].
    destruct q; try discriminate Hq; reflexivity.
  - split; [reflexivity|intros f []].
Qed.

Section StepW.
  Variables (cf : config) (s : state) (g : ghost) (t x : N) (B : N).
  Hypotheses (W : WF2 s) (Q : Quiet s) (GI : GenInvW B s) (SF : SetGenFirst s) (HB : B < WORD)
             (EF : EnvFree s) (Hnf : NoFault (fst (step cf s t x))).
  Hypotheses (LF : LtFresh s g) (CA : ContAll s) (CP : ContPair s) (ZV : ZoneInv s g)
             (PF : PubFresh s g) (HF : HelpFresh s g) (AN : Answered s g).
  Local Notation s' := (fst (step cf s t x)).
  Local Notation g' := (snd (gstep cf (s, g) t x)).

  (** What the owner's view of a frame step says about a request on top of the new stack. *)
  Lemma exec_reqW p rest s1 l1 evs nx q :
    t_status (thr s t) = Running -> t_stack (thr s t) = p :: rest ->
    exec cf (sh s) (t_loc (thr s t)) p x = (s1, l1, evs, nx) ->
    hd_req (t_stack (thread_after cf (thr s t) l1 rest nx)) = Some q ->
    hd_req (nx_frames nx) = Some q /\ ~ nx_stops nx /\ gen_frame_ok (t_loc (thr s t)) p /\
    tl_node (t_loc (thread_after cf (thr s t) l1 rest nx)) = tl_node l1 /\
    (top_req p = Some q \/ top_unpub p = true).
  Proof.
    intros Hr Hs He Hq.
    destruct (exec_settle _ _ _ _ _ _ _ _ _ _ W Hnf Hr Hs He) as [Hns Hset].
    pose proof (gw_top _ _ GI t Hr) as Hg. rewrite Hs in Hg. destruct Hg as [Hg|Hsg].
    2:{ exfalso. destruct (sg_after_req _ _ _ _ _ _ _ _ _ _ _ _ _ Hsg He Hset) as [Hx _]. congruence. }
    inversion Hg as [|? ? Hgp Hgr]; subst. pose proof (gentop_no_setgen _ _ Hgr) as Hng.
    rewrite (settle_req _ _ _ _ _ _ _ Hset Hng) in Hq.
    split; [exact Hq|]. split; [exact Hns|]. split; [exact Hgp|]. split; [exact (settle_node _ _ _ _ _ _ _ Hset)|].
    destruct (exec_viewW _ _ _ _ _ _ _ _ _ He Hns Hgp) as [(_ & _ & V4)|(_ & _ & V3)]; [|congruence].
    destruct (V4 q Hq) as [Hp|(Hp & _)]; auto.
  Qed.

  Theorem step_ZoneInvW : ZoneInv s' g'.
  Proof.
    intros t'. destruct (N.eq_dec t' t) as [->|Hne]; [|eapply zone_other; eassumption].
    destruct (step_cases2 cf s t x) as [Hr E|c Hr Hs Hcc Hen E|c s1 l1 stk r Hr Hs Hcc Hen Hcs E|n Hr Hs Hcc Hn E|Hr Hs Hcc Hn E|p rest s1 l1 evs nx Hr Hs He E].
    - destruct (q_stop _ Q t Hr) as [Hs _].
      assert (Hstk : t_stack (thr s' t) = []) by (rewrite E; exact Hs).
      rewrite Hstk. split; [exact I|discriminate].
    - assert (Hstk : t_stack (thr s' t) = []) by (rewrite E; exact Hs).
      rewrite Hstk. split; [exact I|discriminate].
    - assert (Hstk : t_stack (thr s' t) = stk).
      { rewrite E. cbn. rewrite upd_same. apply start_thread_stack. }
      rewrite Hstk. destruct stk as [|f0 stk]; [split; [exact I|discriminate]|].
      assert (Hcur : cur_cmd s' t = Some c).
      { rewrite E, cur_cmd_start by discriminate. exact Hcc. }
      split.
      + unfold ld. rewrite Hcur. destruct (ldcmd c) eqn:Hl.
        * eapply cmd_start_ld; eassumption.
        * apply ZI_hfree. eapply cmd_start_hfreeW; eassumption.
      + intros cand e rest0 [= -> ->]. exfalso.
        pose proof (cmd_start_no7 _ _ _ _ _ _ _ _ Hcs) as H7. inversion H7 as [|? ? Hx _]. discriminate Hx.
    - assert (Hstk : t_stack (thr s' t) = [C1 n; WThreadExit]) by (rewrite E; cbn; rewrite upd_same; reflexivity).
      assert (Hcur : cur_cmd s' t = None).
      { rewrite E. unfold cur_cmd, set_thread. cbn. rewrite upd_same. exact Hcc. }
      rewrite Hstk. split; [|discriminate]. unfold ld. rewrite Hcur. apply ZI_hfree. reflexivity.
    - assert (Hstk : t_stack (thr s' t) = []) by (rewrite E; cbn; rewrite upd_same; reflexivity).
      rewrite Hstk. split; [exact I|discriminate].
    - rewrite (ex_thr cf s t x rest s1 l1 nx E). split.
      + eapply zone_exec; eassumption.
      + intros cand e rest'. eapply top7_fresh; eassumption.
  Qed.

  Theorem step_PubFreshW : PubFresh s' g'.
  Proof.
    intros t' n Hr' Ho Hreq.
    destruct (N.eq_dec t' t) as [->|Hne].
    2: { rewrite (other_thr cf s t x t' Hne) in *. rewrite (g_start_other cf s g t x t' Hne).
         pose proof (PF t' n Hr' Ho Hreq). pose proof (proj1 (g_pub_le cf s g t x LF n)). lia. }
    assert (Hreq' : exists q, hd_req (t_stack (thr s' t)) = Some q).
    { rewrite req_of_top in Hreq. unfold hd_req. destruct (t_stack (thr s' t)); [congruence|].
      destruct (top_req p) eqn:Hq; [eauto|congruence]. }
    destruct Hreq' as (q & Hq).
    destruct (step_cases2 cf s t x) as [Hr E|c Hr Hs Hcc Hen E|c s1 l1 stk r Hr Hs Hcc Hen Hcs E|n0 Hr Hs Hcc Hn E|Hr Hs Hcc Hn E|p rest s1 l1 evs nx Hr Hs He E].
    - exfalso. rewrite E in Hq. destruct (q_stop _ Q t Hr) as [Hs _]. rewrite Hs in Hq. discriminate.
    - exfalso. rewrite E in Hq. rewrite Hs in Hq. discriminate.
    - exfalso. rewrite E in Hq. cbn in Hq. rewrite upd_same, start_thread_stack in Hq.
      destruct (cmd_start_topW _ _ _ _ _ _ _ _ Hcs) as [Hx _]. congruence.
    - exfalso. rewrite E in Hq. cbn in Hq. rewrite upd_same in Hq. discriminate.
    - exfalso. rewrite E in Hq. cbn in Hq. rewrite upd_same in Hq. discriminate.
    - pose proof (ex_thr cf s t x rest s1 l1 nx E) as Et.
      destruct (running_stk_ok s t W Hr) as [Htl _]. rewrite Hs in Htl.
      rewrite Et in Hq, Ho.
      destruct (exec_reqW p rest s1 l1 evs nx q Hr Hs He Hq) as (Hq' & Hns & Hgp & Hnode & V4).
      unfold owner in Ho. rewrite Hnode in Ho.
      assert (Hl1 : top_req p <> None \/ top_unpub p = true -> tl_node l1 = tl_node (t_loc (thr s t))).
      { intros Hp. pose proof (exec_special _ _ _ _ _ _ _ _ _ He Hns) as Hsp.
        destruct p; cbn in Hp; try (destruct Hp as [Hp|Hp]; congruence); cbn [special_next] in Hsp;
          repeat match goal with H : _ /\ _ |- _ => destruct H end; subst; try reflexivity; try assumption.
        clear -He. exec_norm He; reflexivity. }
      destruct V4 as [Hp|Hp].
      + rewrite Hl1 in Ho by (left; congruence).
        assert (Hreq0 : req_of (thr s t) <> None) by (rewrite req_of_top, Hs; congruence).
        pose proof (PF t n Hr Ho Hreq0) as Hold.
        assert (Hst : starts_now s t = false).
        { unfold starts_now. rewrite Hr, Hs. destruct p; try discriminate Hp; reflexivity. }
        rewrite (g_start_same cf s g t x Hst t). pose proof (proj1 (g_pub_le cf s g t x LF n)). lia.
      + rewrite Hl1 in Ho by (right; exact Hp).
        assert (Hpub : publishes_now s t = Some n).
        { unfold publishes_now. rewrite Hr, Hs.
          pose proof (exec_special _ _ _ _ _ _ _ _ _ He Hns) as Hsp.
          destruct p; try discriminate Hp; cbn [special_next] in Hsp.
          - destruct Hsp as [_ ->]. discriminate Hq'.
          - exact Ho. }
        rewrite g_pub_step, Hpub, N.eqb_refl. apply (g_start_le cf s g t x LF t).
  Qed.

  (** ** [HelpFresh] *)
  Lemma help_c_originW t' f q :
    In f (t_stack (thr s' t')) -> help_c f = Some q ->
    (exists f0, In f0 (t_stack (thr s t')) /\ help_c f0 = Some q) \/ (t' = t /\ starts_now s t = true).
  Proof.
    intros Hin Hc. destruct (N.eq_dec t' t) as [->|Hne]; [|rewrite (other_thr cf s t x t' Hne) in Hin; eauto].
    destruct (step_cases2 cf s t x) as [Hr E|c Hr Hs Hcc Hen E|c s1 l1 stk r Hr Hs Hcc Hen Hcs E|n Hr Hs Hcc Hn E|Hr Hs Hcc Hn E|p rest s1 l1 evs nx Hr Hs He E].
    - rewrite E in Hin. eauto.
    - rewrite E in Hin. eauto.
    - exfalso. rewrite E in Hin. cbn in Hin. rewrite upd_same, start_thread_stack in Hin.
      destruct (cmd_start_topW _ _ _ _ _ _ _ _ Hcs) as [_ Hx].
      destruct (Hx f Hin). congruence.
    - exfalso. rewrite E in Hin. cbn in Hin. rewrite upd_same in Hin. cbn in Hin.
      destruct Hin as [<-|[<-|[]]]; discriminate Hc.
    - exfalso. rewrite E in Hin. cbn in Hin. rewrite upd_same in Hin. destruct Hin.
    - rewrite (ex_thr cf s t x rest s1 l1 nx E) in Hin.
      destruct (exec_settle _ _ _ _ _ _ _ _ _ _ W Hnf Hr Hs He) as [Hns Hset].
      assert (Hfn : help_frame f <> None).
      { intros Hx. rewrite (help_c_none _ Hx) in Hc. discriminate. }
      pose proof (gw_top _ _ GI t Hr) as Hg. rewrite Hs in Hg. destruct Hg as [Hg|Hsg].
      2:{ exfalso. destruct (sg_after_req _ _ _ _ _ _ _ _ _ _ _ _ _ Hsg He Hset) as [_ Hx]. apply Hfn. apply (Hx f Hin). }
      inversion Hg as [|? ? Hgp Hgr]; subst.
      pose proof (gentop_no_setgen _ _ Hgr) as Hng.
      destruct (settle_help _ _ _ _ _ _ _ f Hset Hng Hin Hfn) as [H|[H|(c & old & n & ctl & r & -> & H)]].
      + left. exists f. rewrite Hs. split; [right; exact H|exact Hc].
      + destruct (exec_help_c _ _ _ _ _ _ _ _ _ _ _ He Hns H Hc) as [Hp|(c & old & w & ctl & fs & Hp2 & Ha & _)].
        * left. exists p. rewrite Hs. split; [left; reflexivity|exact Hp].
        * right. split; [reflexivity|]. unfold starts_now. rewrite Hr, Hs, Hp2. apply N.eqb_eq. exact Ha.
      + left. exists (WHelpRepl c old n ctl). rewrite Hs. split; [right; exact H|exact Hc].
  Qed.

  Lemma help_part1W t' f c w ctl th c' :
    In f (t_stack (thr s' t')) -> help_c f = Some (c, w, ctl) ->
    owner (thr s' th) = Some w -> req_of (thr s' th) = Some (c', ctl) ->
    (g_pub g' w <= g_start g' t')%nat.
  Proof.
    intros Hin Hc Ho Hreq.
    destruct (help_c_originW t' f _ Hin Hc) as [(f0 & I0 & C0)|[-> Hst]].
    - destruct (req_oldW cf s t x B W Q GI SF HB Hnf th w ctl c' t' f0 I0 (help_c_frame _ _ _ _ C0) Ho Hreq) as [A A'].
      pose proof (proj1 (HF t' f0 I0) c w ctl C0 th c' A A') as Hold.
      rewrite (g_pub_same cf s g t x w (not_publishing cf s t x W Hnf th w c' ctl A A')).
      pose proof (proj1 (g_start_le cf s g t x LF t')). lia.
    - rewrite g_start_step, N.eqb_refl, Hst. cbn. apply (g_pub_le cf s g t x LF w).
  Qed.

  Lemma help_part2W t' f c w ctl r :
    Quiet s' -> WF2 s' ->
    In f (t_stack (thr s' t')) -> help_loaded f = Some (c, w, ctl, r) ->
    (g_lt g' c r >= g_start g' t')%nat.
  Proof.
    intros Q' W' Hin Hl.
    destruct (N.eq_dec t' t) as [->|Hne].
    2: { rewrite (other_thr cf s t x t' Hne) in Hin. pose proof (proj2 (HF t' f Hin) c w ctl r Hl) as Hold.
         rewrite (g_start_other cf s g t x t' Hne). pose proof (g_lt_mono cf s g t x LF c r). lia. }
    assert (Hr' : t_status (thr s' t) = Running) by (eapply in_running; eassumption).
    assert (Hhd : hd_error (t_stack (thr s' t)) = Some f).
    { destruct (running_stk_ok s' t W' Hr') as [Htl _]. destruct (t_stack (thr s' t)) as [|a b]; [destruct Hin|].
      destruct Htl as (_ & Hw & _). destruct Hin as [->|Hin]; [reflexivity|].
      pose proof (proj1 (Forall_forall _ _) Hw f Hin) as Hx. cbn beta in Hx. rewrite (loaded_not_waiting _ _ Hl) in Hx. discriminate. }
    destruct (step_cases2 cf s t x) as [Hr E|c0 Hr Hs Hcc Hen E|c0 s1 l1 stk r0 Hr Hs Hcc Hen Hcs E|n Hr Hs Hcc Hn E|Hr Hs Hcc Hn E|p rest s1 l1 evs nx Hr Hs He E].
    - exfalso. rewrite E in Hin. destruct (q_stop _ Q t Hr) as [Hs _]. rewrite Hs in Hin. destruct Hin.
    - exfalso. rewrite E in Hin. rewrite Hs in Hin. destruct Hin.
    - exfalso. rewrite E in Hin. cbn in Hin. rewrite upd_same, start_thread_stack in Hin.
      destruct (cmd_start_topW _ _ _ _ _ _ _ _ Hcs) as [_ Hx].
      destruct (Hx f Hin). congruence.
    - exfalso. rewrite E in Hin. cbn in Hin. rewrite upd_same in Hin. cbn in Hin.
      destruct Hin as [<-|[<-|[]]]; discriminate Hl.
    - exfalso. rewrite E in Hin. cbn in Hin. rewrite upd_same in Hin. destruct Hin.
    - rewrite (ex_thr cf s t x rest s1 l1 nx E) in Hhd.
      destruct (exec_settle _ _ _ _ _ _ _ _ _ _ W Hnf Hr Hs He) as [Hns Hset].
      destruct (settle_hd _ _ _ _ _ _ _ Hset f Hhd) as [H|(w0 & v & l0 & l2 & nx1 & Hw0 & Hres & H)].
      + assert (Hinf : In f (nx_frames nx)) by (destruct (nx_frames nx); [discriminate|injection H as ->; left; reflexivity]).
        pose proof (exec_loaded _ _ _ _ _ _ _ _ _ _ _ He Hns Hinf Hl) as Hp.
        assert (Hinp : In p (t_stack (thr s t))) by (rewrite Hs; left; reflexivity).
        pose proof (proj2 (HF t p Hinp) c w ctl r Hp) as Hold.
        rewrite (g_start_same cf s g t x (loaded_not_start _ _ _ _ _ Hp Hs) t).
        pose proof (g_lt_mono cf s g t x LF c r). lia.
      + assert (Hinf : In f (nx_frames nx1)) by (destruct (nx_frames nx1); [discriminate|injection H as ->; left; reflexivity]).
        destruct (resume_loaded _ _ _ _ _ _ _ _ _ _ _ Hres Hinf Hl) as (old & -> & ->).
        assert (Hz : inz (ld s t) rest) by (right; eapply in_hfree_false; [exact Hw0|reflexivity]).
        destruct (zone_step cf s g t x W Hnf LF CA CP ZV p rest s1 l1 evs nx Hr Hs He E Hz) as [_ HL].
        apply (HL f c w ctl r Hhd Hl). right. exists old, w, ctl. rewrite Hs. right. exact Hw0.
  Qed.

  Theorem step_HelpFreshW : HelpFresh s' g'.
  Proof.
    pose proof (step_Quiet' cf s t x W Q Hnf) as Q'.
    pose proof (proj1 (step_WF2 cf s t x W)) as W'.
    intros t' f Hin. split.
    - intros c w ctl Hc th c' Ho Hreq. eapply help_part1W; eassumption.
    - intros c w ctl r Hl. eapply help_part2W; eassumption.
  Qed.
End StepW.
