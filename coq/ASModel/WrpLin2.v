(** * ASModel.WrpLin2 — [Answered] (Lin12, Lin13) is preserved by every step, on top of
    [GenInvW]. *)
From Coq Require Import Lia.
From ASModel Require Import Base State Orderings_gen Step Run Progress Hist Inv InvTl InvProto InvStep Sum StepCases
  GenDefs Gen1 Gen2 Gen3 Gen EnvDefs LinDefs Lin1 Lin2 Lin3 Lin4 Lin5 Lin6 Lin7 Lin8 Lin9 Lin10 Lin11 Lin12 Lin13.
From ASModel Require Import WrpDefs WrpGen1 WrpGen2 WrpGen3 WrpGen4 WrpGen WrpLin1.

Section StepW.
  Variables (cf : config) (s : state) (g : ghost) (t x : N) (B : N).
  Hypotheses (W : WF2 s) (Q : Quiet s) (GI : GenInvW B s) (EF : EnvFree s) (EA : EnvA s)
             (Hnf : NoFault (fst (step cf s t x))).
  Hypotheses (LF : LtFresh s g) (HF : HelpFresh s g) (AN : Answered s g).
  Local Notation s' := (fst (step cf s t x)).
  Local Notation g' := (snd (gstep cf (s, g) t x)).

  (** The helper's compare-exchange succeeded: the request is answered with a fresh value. *)
  Lemma answered_pe7W c old w ctl r their mine rest s1 l1 evs nx th c' gt :
    t_status (thr s t) = Running -> t_stack (thr s t) = PE7 c old w ctl r their mine :: rest ->
    exec cf (sh s) (t_loc (thr s t)) (PE7 c old w ctl r their mine) x = (s1, l1, evs, nx) ->
    mem (sh s) (LCtrl w) = ctl -> mem s1 (LCtrl w) = N.lor mine REPLACEMENT_TAG ->
    th <> t -> owner (thr s th) = Some w -> req_of (thr s th) = Some (c', gt) ->
    (g_lt g' c' (mem s1 (LEnv (env_of (mem s1 (LCtrl w) - N.land (mem s1 (LCtrl w)) TAG_MASK)))) >= g_pub g' w)%nat.
  Proof.
    intros Hr Hs He Hctl Hnew Hne Ho Hreq.
    destruct (help_cas_soundW B s t c old w ctl r their mine rest W Q GI Hr Hs Hctl) as (th0 & _ & Ho0 & Hreq0 & _).
    assert (th0 = th) as -> by (eapply owner_unique; eassumption).
    rewrite Hreq in Hreq0. injection Hreq0 as -> ->.
    assert (Hin : In (PE7 c old w ctl r their mine) (t_stack (thr s t))) by (rewrite Hs; left; reflexivity).
    pose proof (all_frames_ok s t _ W Q Hin) as Hok. cbn in Hok. destruct Hok as (_ & _ & _ & (e0 & _ & Hmine)).
    rewrite Hnew, Hmine, lor_env, env_of_val.
    pose proof (EA t c old w ctl r their mine rest Hs) as Henv. rewrite Hmine, env_of_env_val in Henv.
    assert (Hkeep : mem s1 (LEnv e0) = mem (sh s) (LEnv e0)).
    { destruct (exec_env _ _ _ _ _ _ _ _ _ e0 He) as [H|[(? & ? & ? & ? & ? & ? & ? & Hx & _)|(? & Hx & _)]];
        [exact H|discriminate Hx..]. }
    rewrite Hkeep, Henv.
    destruct (HF t _ Hin) as [H1 H2].
    pose proof (H1 c w ctl eq_refl th c Ho Hreq) as Hp.
    pose proof (H2 c w ctl r eq_refl) as Hl.
    assert (Hnp : publishes_now s t <> Some w).
    { unfold publishes_now. rewrite Hr, Hs. discriminate. }
    rewrite (g_pub_same cf s g t x w Hnp).
    pose proof (g_lt_mono cf s g t x LF c r). lia.
  Qed.

  Theorem step_AnsweredW : Answered s' g'.
  Proof.
    intros w th c' gt Ho Hreq Htag.
    destruct (N.eq_dec th t) as [->|Hne].
    - (* the acting thread holds the request *)
      assert (Hreq' : hd_req (t_stack (thr s' t)) = Some (c', gt)).
      { rewrite req_of_top in Hreq. exact Hreq. }
      destruct (step_cases2 cf s t x) as [Hr E|c Hr Hs Hcc Hen E|c s1 l1 stk r Hr Hs Hcc Hen Hcs E|n0 Hr Hs Hcc Hn E|Hr Hs Hcc Hn E|p rest s1 l1 evs nx Hr Hs He E].
      + exfalso. rewrite E in Hreq'. destruct (q_stop _ Q t Hr) as [Hs _]. rewrite Hs in Hreq'. discriminate.
      + exfalso. rewrite E in Hreq'. rewrite Hs in Hreq'. discriminate.
      + exfalso. rewrite E in Hreq'. cbn in Hreq'. rewrite upd_same, start_thread_stack in Hreq'.
        destruct (cmd_start_topW _ _ _ _ _ _ _ _ Hcs) as [Hx _]. congruence.
      + exfalso. rewrite E in Hreq'. cbn in Hreq'. rewrite upd_same in Hreq'. discriminate.
      + exfalso. rewrite E in Hreq'. cbn in Hreq'. rewrite upd_same in Hreq'. discriminate.
      + pose proof (ex_thr cf s t x rest s1 l1 nx E) as Et. pose proof (ex_sh cf s t x rest s1 l1 nx E) as Esh.
        rewrite Et in Hreq', Ho.
        destruct (exec_reqW cf s t x B W GI Hnf p rest s1 l1 evs nx _ Hr Hs He Hreq') as (Hreq2 & Hns & Hgp & Hnode & V4).
        clear Hreq'. rename Hreq2 into Hreq'.
        unfold owner in Ho. rewrite Hnode in Ho.
        pose proof (exec_special _ _ _ _ _ _ _ _ _ He Hns) as Hsp.
        rewrite Esh in *.
        destruct V4 as [Hp|Hp].
        * (* LH3, LH3d, LH4: nothing relevant changes *)
          assert (Hp5 : forall a b d, p <> LH5 a b d).
          { intros a b d ->. destruct (exec_lh5 _ _ _ _ _ _ _ _ _ _ _ He Hns) as [[_ [Hx|Hx]]|[_ Hx]]; rewrite Hx in Hreq'; discriminate. }
          assert (Hl1 : l1 = t_loc (thr s t)).
          { destruct p; try discriminate Hp; cbn [special_next] in Hsp; try (apply Hsp). exfalso. eapply Hp5; reflexivity. }
          subst l1.
          assert (Hreq0 : req_of (thr s t) = Some (c', gt)) by (rewrite req_of_top, Hs; exact Hp).
          assert (Hw : w < nn s) by (eapply (w_lt _ W); apply owner_holder; exact Ho).
          assert (Hc : mem s1 (LCtrl w) = mem (sh s) (LCtrl w)).
          { destruct (exec_ctrl _ _ _ _ _ _ _ _ _ w He) as [H|[(? & ? & -> & _)|[(? & ? & ? & -> & _)|[(? & ? & ? & ? & ? & ? & -> & _)|(? & -> & _)]]]];
              [exact H|cbn in Hp; try discriminate Hp..]. exfalso. eapply Hp5; reflexivity. }
          pose proof (answered_same cf s g t x W Hnf LF AN w t c' gt Ho Hreq0) as Hsame. rewrite Esh in Hsame.
          apply Hsame; [exact Hc| |exact Htag].
          intros Ht e ->. eapply env_kept; try eassumption. reflexivity.
        * (* LH2 publishes: the control word carries the generation *)
          exfalso. destruct p; try discriminate Hp; cbn [special_next] in Hsp.
          -- destruct Hsp as [_ ->]. discriminate Hreq'.
          -- destruct Hsp as (_ & Hnode' & Hnx). rewrite Hnode' in Ho.
             pose proof (exec_lh2_ctrl _ _ _ _ _ _ _ _ _ _ He) as Hc. unfold own_node in Hc. rewrite Ho in Hc.
             rewrite Hc in Htag. cbn in Hgp. subst gt0.
             destruct (running_stk_ok s t W Hr) as [Htl _]. rewrite Hs in Htl. destruct Htl as (_ & _ & _ & _ & _ & Hgok).
             exact (gen_not_repl _ (lor_gen _ (proj1 Hgok)) Htag).
    - (* somebody else holds the request *)
      rewrite (other_thr cf s t x th Hne) in Ho, Hreq.
      assert (Hw : w < nn s) by (eapply (w_lt _ W); apply owner_holder; exact Ho).
      pose proof (answered_same cf s g t x W Hnf LF AN w th c' gt Ho Hreq) as Hsame.
      destruct (step_cases2 cf s t x) as [Hr E|c Hr Hs Hcc Hen E|c s1 l1 stk r Hr Hs Hcc Hen Hcs E|n0 Hr Hs Hcc Hn E|Hr Hs Hcc Hn E|p rest s1 l1 evs nx Hr Hs He E].
      + apply Hsame; [rewrite E; reflexivity|intros; rewrite E; reflexivity|exact Htag].
      + apply Hsame; [rewrite E; reflexivity|intros; rewrite E; reflexivity|exact Htag].
      + destruct (cmd_start_effect _ _ _ _ _ _ _ _ Hcs) as (_ & _ & Hmem & _).
        apply Hsame; [rewrite E; apply Hmem; discriminate|intros; rewrite E; apply Hmem; discriminate|exact Htag].
      + apply Hsame; [rewrite E; reflexivity|intros; rewrite E; reflexivity|exact Htag].
      + apply Hsame; [rewrite E; reflexivity|intros; rewrite E; reflexivity|exact Htag].
      + pose proof (ex_sh cf s t x rest s1 l1 nx E) as Esh. rewrite Esh in *.
        destruct (exec_ctrl _ _ _ _ _ _ _ _ _ w He) as
          [H|[(c0 & gt0 & -> & Hown & _)|[(c0 & gt0 & cand & -> & Hown & _)|[(c0 & old & ctl & r & their & mine & -> & Hctl & Hnew)|(h & -> & Hh & Hwh & _)]]]].
        * apply Hsame; [exact H| |exact Htag]. intros Ht e ->. eapply env_kept; try eassumption. reflexivity.
        * exfalso. destruct (running_node s t _ _ W Hr Hs eq_refl) as (n & _ & Hon & _ & Hot).
          apply Hne. eapply owner_unique; [exact W|exact Ho|]. rewrite Hown, Hon. exact Hot.
        * exfalso. destruct (running_node s t _ _ W Hr Hs eq_refl) as (n & _ & Hon & _ & Hot).
          apply Hne. eapply owner_unique; [exact W|exact Ho|]. rewrite Hown, Hon. exact Hot.
        * eapply answered_pe7W; eassumption.
        * exfalso. unfold nn in Hw. lia.
  Qed.
End StepW.
