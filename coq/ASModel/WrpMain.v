(** * ASModel.WrpMain — the master invariant and the end-to-end theorems THROUGH THE WRAP of the
    generation counter (C13: "after such a wrap-around all other guarantees continue to hold").

    [MasterW B] is [Master] (Main) with [GenInvW B] (WrpDefs) in place of [GenInv].  It is
    inductive ([step_MasterW]: [B] grows by 4 per step, as long as [B < WORD]) WITHOUT
    [GenBound], for programs that may use the hook [CSetGen g] (any [g]) as the FIRST command
    of a thread ([SetGenFirst] in place of [NoSetGen]).  [RunOKW] is [RunOK] with the length
    of the run ([4 * length sched + 8 < WORD]: fewer than 2^62 steps) in place of [GenBound]
    and [progs_setgen_first] in place of "no [CSetGen]". *)
From Coq Require Import Lia.
From ASModel Require Import Base State Orderings_gen Step Run Progress Hist Inv InvTl InvProto InvStep Sum StepCases.
From ASModel Require Import GenDefs Gen1 Gen2 Gen EnvDefs Env4 Env.
From ASModel Require Import AccDefs Acc1 Acc2 Acc3 Acc4 Acc5 Acc6 Acc7 Acc.
From ASModel Require Import ProtDefs Prot1 Prot11 Prot16 Prot Typed LinDefs Lin2 Lin.
From ASModel Require Import Safe1 Safe2 Safe7 Safe8 Safe Main.
From ASModel Require Import WrpDefs WrpGen WrpEnv.

(** ** Hypotheses on the program *)
Definition ProgOKW (s : state) : Prop :=
  SetGenFirst s /\ NoCacheP s /\ DstEmpty s /\ CloneSrcCmd s.

Definition progs_okW (progs : list (list cmd)) : Prop :=
  progs_setgen_first progs /\ progs_nocache progs.

(** ** The master invariant *)
Record MasterW (B : N) (s : state) : Prop := {
  mw_wf : WF2 s;
  mw_quiet : Quiet s;
  mw_gen : GenInvW B s;
  mw_env : EnvInv s;
  mw_ctl : CtlFresh s;
  mw_acc : AccInv s;
  mw_prot : ProtInv' s;
  mw_typed : ASModel.Typed.Typed s;
  mw_val : ValOK s;
  mw_clone : CloneCmd s;
  mw_nofault : NoFault s;
}.

Lemma MasterW_mono B B' s : B <= B' -> MasterW B s -> MasterW B' s.
Proof. intros Hle M. destruct M. constructor; try assumption. eapply GenInvW_mono; eassumption. Qed.

Lemma MasterW_CloneSrc B s : MasterW B s -> ProgOKW s -> CloneSrc s.
Proof. intros M (_ & _ & _ & CS). apply CloneSrcCmd_CloneSrc; [apply M|exact CS]. Qed.

Lemma MasterW_EnvInvWQ B s : MasterW B s -> EnvInvWQ B s.
Proof. intros M. constructor; [constructor|..]; apply M. Qed.

Theorem MasterW_init inits progs : inits_ok inits -> MasterW 0 (init_state inits progs).
Proof.
  intros Hi. destruct (EnvInvWQ_init inits progs) as [[W Q GI] EI CF].
  constructor; try assumption.
  - apply AccInv_init'.
  - apply ProtInv'_init.
  - apply Typed_init.
  - apply ValOK_init. exact Hi.
  - apply CloneCmd_init.
  - intros t. cbn. destruct (init_threads_stack progs 0 (fun _ => no_thread) t) as (_ & _ & [-> | ->]); [cbn; auto|discriminate..].
Qed.

Theorem step_MasterW cf s t x B :
  B < WORD -> ProgOKW s -> alloc_ok s t x -> MasterW B s -> MasterW (B + 4) (fst (step cf s t x)).
Proof.
  intros HB PO AO M. pose proof (MasterW_CloneSrc B s M PO) as CS. destruct PO as (SF & NC & DE & _).
  pose proof (step_NoFault cf s t x (mw_acc _ _ M) (mw_prot _ _ M) (mw_val _ _ M) (mw_typed _ _ M) CS (mw_nofault _ _ M) AO) as NF.
  pose proof (MasterW_EnvInvWQ B s M) as EQ.
  destruct (step_EnvInvWQ cf s t x B SF HB EQ NF) as [[W' Q' GI'] EI' CF'].
  constructor; try assumption.
  - apply step_AccInv; [apply M|apply M|eapply EnvInvWQ_EnvFree; exact EQ|eapply EnvInvWQ_EnvA; exact EQ| |apply M|exact NF].
    split; [exact NC|]. apply DstEmpty_DstFresh; [apply M|apply M|exact DE].
  - apply step_ProtInv'; [apply M|apply M|apply DstEmpty_DestFree; exact DE|apply M|exact NF].
  - apply step_Typed0. apply M.
  - apply step_ValOK. apply M.
  - apply step_CloneCmd. apply M.
Qed.

(** ** Runs: after [k] steps, [MasterW (4 * k)] *)
Theorem run_MasterW cf s0 sched :
  MasterW 0 s0 ->
  4 * N.of_nat (length sched) < WORD + 4 ->
  (forall k, ProgOKW (St cf s0 sched k)) ->
  (forall k t x, nth_error sched k = Some (t, x) -> alloc_ok (St cf s0 sched k) t x) ->
  forall k, (k <= length sched)%nat -> MasterW (4 * N.of_nat k) (St cf s0 sched k).
Proof.
  intros M0 Hlen Hh Ha. induction k as [|k IH]; intros Hk; [exact M0|].
  destruct (nth_error sched k) as [[t x]|] eqn:Ek.
  - rewrite (St_step _ _ _ _ _ _ Ek).
    replace (4 * N.of_nat (S k)) with (4 * N.of_nat k + 4) by lia.
    apply step_MasterW; [lia|apply Hh|exact (Ha k t x Ek)|apply IH; lia].
  - apply nth_error_None in Ek. lia.
Qed.

(** The bound of the whole run, for every prefix. *)
Corollary run_MasterW_all cf s0 sched :
  MasterW 0 s0 ->
  4 * N.of_nat (length sched) < WORD + 4 ->
  (forall k, ProgOKW (St cf s0 sched k)) ->
  (forall k t x, nth_error sched k = Some (t, x) -> alloc_ok (St cf s0 sched k) t x) ->
  forall k, MasterW (4 * N.of_nat (length sched)) (St cf s0 sched k).
Proof.
  intros M0 Hlen Hh Ha k. destruct (Nat.le_gt_cases k (length sched)) as [Hk|Hk].
  - eapply MasterW_mono; [|apply run_MasterW; eassumption]. lia.
  - unfold St. rewrite firstn_all2 by lia. rewrite <- (firstn_all sched) at 2.
    apply (run_MasterW cf s0 sched M0 Hlen Hh Ha (length sched)). lia.
Qed.

(** ** Runs from an initial state *)
Record RunOKW (cf : config) (inits : list N) (progs : list (list cmd)) (sched : list (N * N)) : Prop := {
  row_inits : inits_ok inits;
  row_progs : progs_okW progs;
  row_len : 4 * N.of_nat (length sched) + 8 < WORD;
  row_state : forall k, let s := St cf (init_state inits progs) sched k in DstEmpty s /\ CloneSrcCmd s;
  row_alloc : forall k t x, nth_error sched k = Some (t, x) ->
                            alloc_ok (St cf (init_state inits progs) sched k) t x;
}.

Lemma RunOKW_ProgOKW cf inits progs sched :
  RunOKW cf inits progs sched -> forall k, ProgOKW (St cf (init_state inits progs) sched k).
Proof.
  intros [Hi [Hg Hc] _ Hs _] k. destruct (Hs k) as (DE & CS). split; [|split; [|split]]; try assumption.
  - apply SetGenFirst_run. apply SetGenFirst_init. exact Hg.
  - apply NoCacheP_run. apply NoCacheP_init. exact Hc.
Qed.

Theorem RunOKW_MasterW cf inits progs sched :
  RunOKW cf inits progs sched ->
  forall k, MasterW (4 * N.of_nat (length sched)) (St cf (init_state inits progs) sched k).
Proof.
  intros R. apply run_MasterW_all.
  - apply MasterW_init. apply R.
  - pose proof (row_len _ _ _ _ R). lia.
  - apply RunOKW_ProgOKW. exact R.
  - apply R.
Qed.

Corollary RunOKW_MasterW_end cf inits progs sched :
  RunOKW cf inits progs sched ->
  MasterW (4 * N.of_nat (length sched)) (run_state cf (init_state inits progs) sched).
Proof. intros R. rewrite <- St_all. apply RunOKW_MasterW. exact R. Qed.

(** [RunOK] is the special case of [RunOKW] without the hook (given the length of the run). *)
Lemma progs_ok_okW progs : progs_ok progs -> progs_okW progs.
Proof.
  intros [Hg Hc]. split; [|exact Hc]. intros p Hin i g Hn. exfalso. apply nth_error_In in Hn. exact (Hg p Hin g Hn).
Qed.

Lemma RunOK_RunOKW cf inits progs sched :
  RunOK cf inits progs sched -> 4 * N.of_nat (length sched) + 8 < WORD -> RunOKW cf inits progs sched.
Proof.
  intros [Hi Hp Hs Ha] Hlen. constructor; [exact Hi|apply progs_ok_okW; exact Hp|exact Hlen| |exact Ha].
  intros k. destruct (Hs k) as (_ & H). exact H.
Qed.

(** * End-to-end corollaries through the wrap *)

(** ** C01: no use after free *)
Theorem step_no_dead_eventW cf s t x f B :
  MasterW B s -> ProgOKW s -> dead_fault f -> ~ In (EvFault f) (snd (step cf s t x)).
Proof.
  intros M PO (a & Hf) Hin. pose proof (MasterW_CloneSrc B s M PO) as CS.
  destruct (step_fault_event _ _ _ _ _ Hin) as [->|(p & rest & s1 & l1 & evs & Hr & Hst & He)].
  - destruct Hf; discriminate.
  - destruct (no_dead_access cf s t x p rest s1 l1 evs _ (mw_acc _ _ M) (mw_prot _ _ M) (mw_val _ _ M) CS Hr Hst He a) as [H1 H2].
    destruct Hf as [->| ->]; [apply H1|apply H2]; reflexivity.
Qed.

Theorem C01_no_use_after_free_wrap cf inits progs sched :
  RunOKW cf inits progs sched ->
  NoFault (run_state cf (init_state inits progs) sched) /\
  forall te, In te (snd (run cf (init_state inits progs) sched)) ->
    forall a, ~ In (EvFault (FDeadInc a)) (snd te) /\ ~ In (EvFault (FDeadDec a)) (snd te).
Proof.
  intros R. split; [apply (RunOKW_MasterW_end _ _ _ _ R)|].
  apply (run_events cf (fun evs => forall a, ~ In (EvFault (FDeadInc a)) evs /\ ~ In (EvFault (FDeadDec a)) evs)).
  intros k t x Hk a.
  pose proof (RunOKW_MasterW _ _ _ _ R k) as M. pose proof (RunOKW_ProgOKW _ _ _ _ R k) as PO.
  split; eapply step_no_dead_eventW; try eassumption; exists a; auto.
Qed.

Theorem step_no_fault_eventW cf s t x f B :
  MasterW B s -> ProgOKW s -> alloc_ok s t x -> enabled s t = true -> ~ In (EvFault f) (snd (step cf s t x)).
Proof.
  intros M PO AO Hen Hin.
  destruct (step_fault_event _ _ _ _ _ Hin) as [->|(p & rest & s1 & l1 & evs & Hr & Hst & He)].
  - exact (step_no_bad_choice cf s t x (mw_typed _ _ M) Hen Hin).
  - destruct (exec_fault _ _ _ _ _ _ _ _ _ f He eq_refl) as [Hd|[(-> & Hp & Hnone)| ->]].
    + exact (step_no_dead_eventW cf s t x f B M PO Hd Hin).
    + unfold alloc_ok in AO. rewrite Hst in AO.
      destruct Hp as [->|(c & m & v & d & ->)]; destruct AO as [A1 A2]; exact (rc_alloc_some _ _ A1 A2 Hnone).
    + exact (step_no_bad_choice cf s t x (mw_typed _ _ M) Hen Hin).
Qed.

Theorem C01_no_fault_events_wrap cf inits progs sched :
  RunOKW cf inits progs sched ->
  (forall k t x, nth_error sched k = Some (t, x) -> enabled (St cf (init_state inits progs) sched k) t = true) ->
  forall te, In te (snd (run cf (init_state inits progs) sched)) -> forall f, ~ In (EvFault f) (snd te).
Proof.
  intros R Hen. apply (run_events cf (fun evs => forall f, ~ In (EvFault f) evs)).
  intros k t x Hk f. eapply step_no_fault_eventW.
  - apply (RunOKW_MasterW _ _ _ _ R k).
  - apply (RunOKW_ProgOKW _ _ _ _ R k).
  - apply (row_alloc _ _ _ _ R k t x Hk).
  - apply (Hen k t x Hk).
Qed.

(** ** C02: exact accounting *)
Theorem C02_accounting_wrap cf inits progs sched :
  RunOKW cf inits progs sched -> Acc (run_state cf (init_state inits progs) sched).
Proof. intros R. apply ai_acc. eapply mw_acc. apply RunOKW_MasterW_end. exact R. Qed.

Theorem C02_quiescent_counts_wrap cf inits progs sched a :
  RunOKW cf inits progs sched ->
  let s := run_state cf (init_state inits progs) sched in
  Quiescent s -> valid a ->
  exists nS nC nH,
    Total (fun ij : N * N => is a (mem (sh s) (LSlot (fst ij) (snd ij)))) nS /\
    Total (fun c : N => is a (mem (sh s) (LStore c))) nC /\
    Total (fun h : N => href a (hnd s h)) nH /\
    mem (sh s) (LCount a) + nS = nC + nH.
Proof.
  intros R s Hq Ha. pose proof (RunOKW_MasterW_end _ _ _ _ R) as M.
  apply quiescent_counts; [apply M|apply M|apply M|exact Hq|exact Ha].
Qed.

Theorem C02_no_owner_destroyed_wrap cf inits progs sched a :
  RunOKW cf inits progs sched ->
  let s := run_state cf (init_state inits progs) sched in
  Quiescent s -> valid a ->
  (forall c, mem (sh s) (LStore c) <> a) -> (forall h, href a (hnd s h) = 0) ->
  mem (sh s) (LCount a) = 0 /\ heap (sh s) a = None /\ forall n j, mem (sh s) (LSlot n j) <> a.
Proof.
  intros R s Hq Ha Hc Hh. pose proof (RunOKW_MasterW_end _ _ _ _ R) as M.
  apply no_owner_destroyed; [apply M|apply M|apply M|exact Hq|exact Ha|exact Hc|exact Hh].
Qed.

(** ** C10: a guard (or an owned pointer) keeps its value alive *)
Theorem C10_guard_keeps_value_wrap B s h a :
  MasterW B s -> (hnd s h = HOwned a \/ exists d, hnd s h = HGuard a d) -> valid a ->
  heap (sh s) a <> None.
Proof.
  intros M Hh Ha Hn. apply (ai_alive _ (mw_acc _ _ M)) in Hn.
  enough (1 <= mem (sh s) (LCount a)) by lia.
  destruct Hh as [Hh|([[n j]|] & Hh)].
  - apply (owner_alive s (mw_acc _ _ M) (mw_prot _ _ M) a (IHandle h) Ha).
    cbn [Safe6.Ow]. unfold Safe4.Cw. cbn [Safe4.cls]. rewrite Hh. cbn. rewrite is_same. lia.
  - apply (claim_alive s (mw_acc _ _ M) (mw_prot _ _ M) a (IHandle h) n j Ha); [|discriminate].
    cbn [Safe4.cls]. rewrite Hh. left. reflexivity.
  - apply (owner_alive s (mw_acc _ _ M) (mw_prot _ _ M) a (IHandle h) Ha).
    cbn [Safe6.Ow]. unfold Safe4.Cw. cbn [Safe4.cls]. rewrite Hh. cbn. rewrite is_same. lia.
Qed.

Print Assumptions MasterW_init.
Print Assumptions step_MasterW.
Print Assumptions run_MasterW.
Print Assumptions RunOKW_MasterW.
Print Assumptions RunOK_RunOKW.
Print Assumptions C01_no_use_after_free_wrap.
Print Assumptions C01_no_fault_events_wrap.
Print Assumptions C02_accounting_wrap.
Print Assumptions C02_quiescent_counts_wrap.
Print Assumptions C02_no_owner_destroyed_wrap.
Print Assumptions C10_guard_keeps_value_wrap.
