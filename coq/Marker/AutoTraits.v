(** * Rust's auto-trait rules for [Send] and [Sync], as total boolean functions (C19).

    A deep embedding of the type expressions that occur as fields of the crate's public
    generic types, and the language's rules for the two auto traits:

    - a struct is [Send]/[Sync] iff all its fields are, unless the crate contains an explicit
      [unsafe impl Send/Sync for] that struct: then the automatic impl is suppressed for the
      whole type constructor and only the explicit impls (pattern + where-clauses) count;
    - the standard library's own impls for the constructors that occur ([Arc], [Rc], [&], ...)
      are rendered one by one in [holds] below (each line cites the impl in std it renders).

    The struct definitions, explicit impls and associated-type resolutions of the crate are
    NOT written here: they are the record [defs], generated from /repo/src on every run by
    tools/gen_types.py into Marker/Types_gen.v.

    Trusted: this rendering of rustc's rules.  It is validated against rustc itself on the whole
    matrix of Marker/Matrix.v by harness/marker (translation validation), every run. *)
From Coq Require Import List NArith Bool String Ascii.
Import ListNotations.
Open Scope string_scope.

Inductive trait := Send | Sync.

Definition trait_eqb (a b : trait) : bool :=
  match a, b with Send, Send | Sync, Sync => true | _, _ => false end.

(** Type constructors.  [CAdt] is a struct of the crate, named by its module path
    (e.g. "crate::access::Map"); everything else is a constructor of the language or of
    core/alloc/std. *)
Inductive con :=
| CArc            (* alloc::sync::Arc<T> *)
| CRc             (* alloc::rc::Rc<T> *)
| CSyncWeak       (* alloc::sync::Weak<T> *)
| CRcWeak         (* alloc::rc::Weak<T> *)
| COption         (* Option<T> *)
| CRef            (* &'a T  (any lifetime, incl. 'static) *)
| CRefMut         (* &'a mut T *)
| CRawPtr         (* *const T, *mut T *)
| CPhantom        (* PhantomData<T> *)
| CAtomicPtr      (* AtomicPtr<T> *)
| CAtomicUsize    (* AtomicUsize *)
| CManuallyDrop   (* ManuallyDrop<T> *)
| CCell           (* Cell<T> *)
| CUnsafeCell     (* UnsafeCell<T> *)
| CBox            (* Box<T> (global allocator) *)
| CDyn (s y : bool) (* dyn Trait [+ Send] [+ Sync]; the arguments are ignored *)
| CFnPtr          (* fn(A, ..) -> R; the arguments are ignored *)
| CUnit           (* () *)
| CTuple          (* (A, B, ..) *)
| CArray          (* [T; N], [T] *)
| CRwLock         (* std::sync::RwLock<T> *)
| CMutex          (* std::sync::Mutex<T> *)
| CMutexGuard     (* std::sync::MutexGuard<'_, T> *)
| CPrim           (* u32, usize, bool, ... *)
| CAdt (name : string).

Inductive ty :=
| TVar (i : N)                          (* a type parameter / an opaque type with a valuation *)
| TApp (c : con) (args : list ty)
| TProj (p : string) (args : list ty).  (* associated type: <args[0] as Trait<args[1..]>>::p *)

Definition con_eqb (a b : con) : bool :=
  match a, b with
  | CArc, CArc | CRc, CRc | CSyncWeak, CSyncWeak | CRcWeak, CRcWeak | COption, COption
  | CRef, CRef | CRefMut, CRefMut | CRawPtr, CRawPtr | CPhantom, CPhantom
  | CAtomicPtr, CAtomicPtr | CAtomicUsize, CAtomicUsize | CManuallyDrop, CManuallyDrop
  | CCell, CCell | CUnsafeCell, CUnsafeCell | CBox, CBox | CFnPtr, CFnPtr | CUnit, CUnit
  | CTuple, CTuple | CArray, CArray | CRwLock, CRwLock | CMutex, CMutex
  | CMutexGuard, CMutexGuard | CPrim, CPrim => true
  | CDyn s y, CDyn s' y' => Bool.eqb s s' && Bool.eqb y y'
  | CAdt n, CAdt n' => String.eqb n n'
  | _, _ => false
  end.

Fixpoint ty_eqb (a b : ty) {struct a} : bool :=
  match a, b with
  | TVar i, TVar j => N.eqb i j
  | TApp c xs, TApp c' ys =>
      con_eqb c c' &&
      (fix go (xs ys : list ty) {struct xs} : bool :=
         match xs, ys with
         | [], [] => true
         | x :: xs', y :: ys' => ty_eqb x y && go xs' ys'
         | _, _ => false
         end) xs ys
  | TProj p xs, TProj p' ys =>
      String.eqb p p' &&
      (fix go (xs ys : list ty) {struct xs} : bool :=
         match xs, ys with
         | [], [] => true
         | x :: xs', y :: ys' => ty_eqb x y && go xs' ys'
         | _, _ => false
         end) xs ys
  | _, _ => false
  end.

(** ** The crate's definitions (generated) *)

Record struct_def := {
  sd_name   : string;       (* module path, "crate::Guard" *)
  sd_arity  : nat;          (* number of type parameters; field types use [TVar 0 .. arity-1] *)
  sd_fields : list ty;
  sd_rust   : string;       (* path by which other crates can name it, "" if private *)
  sd_src    : string;       (* file:line *)
}.

(** [unsafe impl<..> Tr for Adt<pattern> where conds] *)
Record explicit_impl := {
  ei_trait : trait;
  ei_adt   : string;
  ei_self  : ty;                   (* pattern over the impl's own parameters [TVar i] *)
  ei_conds : list (trait * ty);    (* the Send/Sync bounds and where-clauses; bounds on other
                                      traits are taken as satisfied (the generous reading) *)
  ei_src   : string;
}.

(** [impl<..> Trait<pats[1..]> for pats[0] { type name = rhs; }] *)
Record proj_rule := {
  pr_name : string;
  pr_pats : list ty;
  pr_rhs  : ty;
  pr_src  : string;
}.

Record defs := {
  d_structs : list struct_def;
  d_impls   : list explicit_impl;
  d_rules   : list proj_rule;
}.

(** ** Substitution and first-order matching *)

Fixpoint subst (s : list ty) (t : ty) {struct t} : ty :=
  match t with
  | TVar i => nth (N.to_nat i) s (TVar i)
  | TApp c args => TApp c (map (subst s) args)
  | TProj p args => TProj p (map (subst s) args)
  end.

(** Matching binds pattern variables [TVar i] (i < length of the accumulator) to types;
    a repeated variable must be bound to equal types.  Patterns contain no projections. *)
Definition bind (i : N) (t : ty) (s : list (option ty)) : option (list (option ty)) :=
  match nth_error s (N.to_nat i) with
  | None => None
  | Some None =>
      Some (firstn (N.to_nat i) s ++ Some t :: skipn (S (N.to_nat i)) s)%list
  | Some (Some t') => if ty_eqb t' t then Some s else None
  end.

Fixpoint pmatch (pat t : ty) (s : list (option ty)) {struct pat} : option (list (option ty)) :=
  match pat with
  | TVar i => bind i t s
  | TApp c ps =>
      match t with
      | TApp c' ts =>
          if con_eqb c c' then
            (fix go (ps ts : list ty) (s : list (option ty)) {struct ps} :=
               match ps, ts with
               | [], [] => Some s
               | p :: ps', t' :: ts' =>
                   match pmatch p t' s with
                   | Some s' => go ps' ts' s'
                   | None => None
                   end
               | _, _ => None
               end) ps ts s
          else None
      | _ => None
      end
  | TProj _ _ => None
  end.

Fixpoint pmatch_list (ps ts : list ty) (s : list (option ty)) : option (list (option ty)) :=
  match ps, ts with
  | [], [] => Some s
  | p :: ps', t :: ts' =>
      match pmatch p t s with
      | Some s' => pmatch_list ps' ts' s'
      | None => None
      end
  | _, _ => None
  end.

(** number of pattern variables = 1 + the largest index (computed, so that the generated
    tables need not state it) *)
Fixpoint max_var (t : ty) : N :=
  match t with
  | TVar i => N.succ i
  | TApp _ args | TProj _ args => fold_right (fun a m => N.max (max_var a) m) 0%N args
  end.

Definition empty_binding (pats : list ty) (extra : list ty) : list (option ty) :=
  repeat None (N.to_nat (fold_right (fun a m => N.max (max_var a) m) 0%N (pats ++ extra)%list)).

(** unbound variables (possible only in ill-formed tables) stay themselves *)
Definition close (s : list (option ty)) : list ty :=
  map (fun '(i, o) => match o with Some t => t | None => TVar (N.of_nat i) end)
      (combine (seq 0 (List.length s)) s).

Fixpoint mapM {A B} (f : A -> option B) (l : list A) : option (list B) :=
  match l with
  | [] => Some []
  | a :: l' => match f a, mapM f l' with Some b, Some bs => Some (b :: bs) | _, _ => None end
  end.

Definition oand (a b : option bool) : option bool :=
  match a, b with Some x, Some y => Some (x && y) | _, _ => None end.

Fixpoint oall {A} (f : A -> option bool) (l : list A) : option bool :=
  match l with
  | [] => Some true
  | a :: l' => oand (f a) (oall f l')
  end.

Fixpoint oany {A} (f : A -> option bool) (l : list A) : option bool :=
  match l with
  | [] => Some false
  | a :: l' => match f a, oany f l' with Some x, Some y => Some (x || y) | _, _ => None end
  end.

Section Rules.
  Variable D : defs.
  (** valuation of the opaque types: [rho i = (is Send, is Sync)] *)
  Variable rho : list (bool * bool).

  Definition val (tr : trait) (i : N) : option bool :=
    match nth_error rho (N.to_nat i) with
    | Some (s, y) => Some (match tr with Send => s | Sync => y end)
    | None => None
    end.

  Definition find_rule (p : string) (args : list ty) : option (list ty * ty) :=
    (fix go (rs : list proj_rule) :=
       match rs with
       | [] => None
       | r :: rs' =>
           if String.eqb (pr_name r) p then
             match pmatch_list (pr_pats r) args (empty_binding (pr_pats r) [pr_rhs r]) with
             | Some s => Some (close s, pr_rhs r)
             | None => go rs'
             end
           else go rs'
       end) (d_rules D).

  (** Normalisation: resolves every associated-type projection that some [impl] of the crate
      determines, innermost first.  A projection on an opaque type stays ([holds] refuses it
      unless it sits where the auto traits do not look, e.g. under [AtomicPtr]). [None] = out
      of fuel. *)
  Fixpoint norm (fuel : nat) (t : ty) : option ty :=
    match fuel with
    | O => None
    | S f =>
        match t with
        | TVar _ => Some t
        | TApp c args =>
            match mapM (norm f) args with Some args' => Some (TApp c args') | None => None end
        | TProj p args =>
            match mapM (norm f) args with
            | None => None
            | Some args' =>
                match find_rule p args' with
                | Some (s, rhs) => norm f (subst s rhs)
                | None => Some (TProj p args')
                end
            end
        end
    end.

  Definition find_struct (n : string) : option struct_def :=
    find (fun d => String.eqb (sd_name d) n) (d_structs D).

  Definition impls_for (tr : trait) (n : string) : list explicit_impl :=
    filter (fun e => trait_eqb (ei_trait e) tr && String.eqb (ei_adt e) n) (d_impls D).

  (** [holds fuel tr t = Some b]: the (normalised) type [t] implements [tr] iff [b].
      [None]: the model cannot tell (out of fuel, unknown struct, wrong arity, unresolved
      projection, valuation too short) — every theorem demands [Some]. *)
  Fixpoint holds (fuel : nat) (tr : trait) (t : ty) : option bool :=
    match fuel with
    | O => None
    | S f =>
        match t with
        | TVar i => val tr i
        | TProj _ _ => None
        | TApp c args =>
            match c, args with
            (* alloc/sync.rs: unsafe impl<T: ?Sized + Sync + Send> Send for Arc<T>; same for Sync;
               same pair for sync::Weak<T> *)
            | CArc, [a] | CSyncWeak, [a] => oand (holds f Send a) (holds f Sync a)
            (* alloc/rc.rs: impl<T: ?Sized> !Send for Rc<T>, !Sync for Rc<T>; same for rc::Weak;
               raw pointers: impl<T: ?Sized> !Send for *const T / *mut T, !Sync likewise *)
            | CRc, [_] | CRcWeak, [_] | CRawPtr, [_] => Some false
            (* structural (auto impl over the fields / the contained value): Option,
               PhantomData, ManuallyDrop; Box<T> through Unique<T>: Send iff T: Send, Sync iff T: Sync *)
            | COption, [a] | CPhantom, [a] | CManuallyDrop, [a] | CBox, [a] | CArray, [a] => holds f tr a
            (* core/marker.rs: unsafe impl<T: Sync + ?Sized> Send for &T;  &T: Sync iff T: Sync (auto) *)
            | CRef, [a] => holds f Sync a
            (* unsafe impl<T: Send + ?Sized> Send for &mut T;  &mut T: Sync iff T: Sync (auto) *)
            | CRefMut, [a] => holds f tr a
            (* core/sync/atomic.rs: unsafe impl<T> Send for AtomicPtr<T>, Sync for AtomicPtr<T>;
               AtomicUsize, (), primitives; fn pointers implement both whatever their signature *)
            | CAtomicPtr, [_] | CAtomicUsize, [] | CUnit, [] | CPrim, [] | CFnPtr, _ => Some true
            (* core/cell.rs: unsafe impl<T: ?Sized + Send> Send for Cell<T>; impl !Sync for Cell<T>;
               same for UnsafeCell *)
            | CCell, [a] | CUnsafeCell, [a] =>
                match tr with Send => holds f Send a | Sync => Some false end
            (* std/sync/rwlock.rs: unsafe impl<T: ?Sized + Send> Send for RwLock<T>;
               unsafe impl<T: ?Sized + Send + Sync> Sync for RwLock<T> *)
            | CRwLock, [a] =>
                match tr with Send => holds f Send a | Sync => oand (holds f Send a) (holds f Sync a) end
            (* std/sync/mutex.rs: Mutex<T>: Send iff T: Send; Sync iff T: Send *)
            | CMutex, [a] => holds f Send a
            (* impl<T: ?Sized> !Send for MutexGuard<'_, T>; unsafe impl<T: ?Sized + Sync> Sync for MutexGuard<'_, T> *)
            | CMutexGuard, [a] => match tr with Send => Some false | Sync => holds f Sync a end
            (* a trait object implements exactly the auto traits written in its type *)
            | CDyn s y, _ => Some (match tr with Send => s | Sync => y end)
            | CTuple, _ => oall (holds f tr) args
            | CAdt n, _ =>
                match find_struct n with
                | None => None
                | Some d =>
                    if negb (Nat.eqb (List.length args) (sd_arity d)) then None else
                    match impls_for tr n with
                    | [] =>
                        (* auto impl: every field, with the arguments substituted and its
                           associated types resolved *)
                        oall (fun fld => match norm f (subst args fld) with
                                         | Some t' => holds f tr t'
                                         | None => None
                                         end) (sd_fields d)
                    | es =>
                        oany (fun e =>
                                match pmatch (ei_self e) t (empty_binding [ei_self e] (map snd (ei_conds e))) with
                                | None => Some false
                                | Some s =>
                                    oall (fun c : trait * ty =>
                                            match norm f (subst (close s) (snd c)) with
                                            | Some t' => holds f (fst c) t'
                                            | None => None
                                            end) (ei_conds e)
                                end) es
                    end
                end
            | _, _ => None
            end
        end
    end.
End Rules.

(** Enough for every type of the matrix (depth of nesting is below 20); the theorems show
    that no cell runs out ([..._defined]). *)
Definition FUEL : nat := 40.

Definition auto (D : defs) (rho : list (bool * bool)) (tr : trait) (t : ty) : option bool :=
  match norm D FUEL t with
  | Some t' => holds D rho FUEL tr t'
  | None => None
  end.

Definition send D rho t := auto D rho Send t.
Definition sync D rho t := auto D rho Sync t.

(** ** All valuations of [k] opaque types *)

Definition bb : list (bool * bool) := [(true, true); (true, false); (false, true); (false, false)].

Fixpoint valuations (k : nat) : list (list (bool * bool)) :=
  match k with
  | O => [[]]
  | S k' => flat_map (fun v => map (fun r => v :: r) (valuations k')) bb
  end.

Lemma bb_complete : forall v : bool * bool, In v bb.
Proof. intros [[|] [|]]; cbn; auto. Qed.

Lemma valuations_complete : forall k rho, List.length rho = k -> In rho (valuations k).
Proof.
  induction k as [|k IH]; intros rho H.
  - destruct rho; [left; reflexivity | discriminate].
  - destruct rho as [|v r]; [discriminate|]. cbn [valuations].
    apply in_flat_map. exists v. split; [apply bb_complete|].
    apply in_map. apply IH. inversion H. reflexivity.
Qed.

Lemma valuations_length : forall k rho, In rho (valuations k) -> List.length rho = k.
Proof.
  induction k as [|k IH]; intros rho H.
  - destruct H as [<-|[]]. reflexivity.
  - cbn [valuations] in H. apply in_flat_map in H. destruct H as [v [_ H]].
    apply in_map_iff in H. destruct H as [r [<- H]]. cbn. f_equal. apply IH. exact H.
Qed.

(** ** Printing a type as Rust source (for the translation validation against rustc) *)

Definition sep (l : list string) : string :=
  match l with
  | [] => ""
  | x :: l' => fold_left (fun acc y => acc ++ ", " ++ y) l' x
  end.

Section Print.
  Variable D : defs.
  Variable alias : list (ty * string).   (* types that other crates can only name by an alias *)
  Variable leaf : N -> string.           (* the concrete type standing for an opaque type *)

  Definition find_alias (t : ty) : option string :=
    match find (fun a => ty_eqb (fst a) t) alias with Some a => Some (snd a) | None => None end.

  (** [None]: not nameable from outside the crate *)
  Fixpoint rust (fuel : nat) (t : ty) : option string :=
    match fuel with
    | O => None
    | S f =>
        match find_alias t with
        | Some s => Some s
        | None =>
            match t with
            | TVar i => Some (leaf i)
            | TProj _ _ => None
            | TApp c args =>
                match mapM (rust f) args with
                | None => None
                | Some ss =>
                    let one (pre post : string) :=
                      match ss with [a] => Some (pre ++ a ++ post) | _ => None end in
                    match c with
                    | CArc => one "::std::sync::Arc<" ">"
                    | CRc => one "::std::rc::Rc<" ">"
                    | CSyncWeak => one "::std::sync::Weak<" ">"
                    | CRcWeak => one "::std::rc::Weak<" ">"
                    | COption => one "::std::option::Option<" ">"
                    | CRef => one "&'static " ""
                    | CRefMut => one "&'static mut " ""
                    | CRawPtr => one "*const " ""
                    | CPhantom => one "::std::marker::PhantomData<" ">"
                    | CAtomicPtr => one "::std::sync::atomic::AtomicPtr<" ">"
                    | CAtomicUsize => Some "::std::sync::atomic::AtomicUsize"
                    | CManuallyDrop => one "::std::mem::ManuallyDrop<" ">"
                    | CCell => one "::std::cell::Cell<" ">"
                    | CUnsafeCell => one "::std::cell::UnsafeCell<" ">"
                    | CBox => one "::std::boxed::Box<" ">"
                    | CDyn s y =>
                        Some ("dyn crate::Obj" ++ (if s then " + Send" else "") ++ (if y then " + Sync" else ""))
                    | CFnPtr => Some ("fn(" ++ sep ss ++ ")")
                    | CUnit => Some "()"
                    | CTuple => Some ("(" ++ sep ss ++ ",)")
                    | CArray => one "[" "; 2]"
                    | CRwLock => one "::std::sync::RwLock<" ">"
                    | CMutex => one "::std::sync::Mutex<" ">"
                    | CMutexGuard => one "::std::sync::MutexGuard<'static, " ">"
                    | CPrim => Some "u32"
                    | CAdt n =>
                        match find_struct D n with
                        | None => None
                        | Some d =>
                            if String.eqb (sd_rust d) "" then None
                            else Some (sd_rust d ++ match ss with [] => "" | _ => "<" ++ sep ss ++ ">" end)
                        end
                    end
                end
            end
        end
    end.
End Print.

(** the concrete pointee standing for a valuation: u32 is Send + Sync, Cell<u32> is Send only,
    MutexGuard<'static, u32> is Sync only, *const u8 is neither *)
Definition leaf_of (v : bool * bool) : string :=
  match v with
  | (true, true) => "u32"
  | (true, false) => "::std::cell::Cell<u32>"
  | (false, true) => "::std::sync::MutexGuard<'static, u32>"
  | (false, false) => "*const u8"
  end.
