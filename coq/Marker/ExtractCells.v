(** Extraction of the matrix printer (OCaml).  Only [ExtrOcamlBasic]; strings stay the extracted
    inductive (the driver coq/driver/marker_run.ml converts them); no [Extract Constant]. *)
From Coq Require Import List String.
From Marker Require Import AutoTraits Types_gen Matrix.
Require Extraction.
Require Import ExtrOcamlBasic.

Definition lines_quick (_ : unit) : list string := (rule_lines ++ plain_lines ++ ptr_lines few_deviations)%list.
Definition lines_thorough (_ : unit) : list string := (rule_lines ++ plain_lines ++ ptr_lines (fun _ => true))%list.

Extraction Language OCaml.
Extraction "extract/marker.ml" lines_quick lines_thorough.
