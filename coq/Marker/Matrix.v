(** * The matrix of C19: wrappers x pointer kinds x strategies x valuations.

    Every public generic type of the crate, instantiated the ways the API produces it, with
    - the pointer [P] drawn from [pointers] (every [RefCnt] impl of the crate, read off the
      source by the translator, plus an opaque user-defined [RefCnt] type),
    - the strategy [S] drawn from [strategies] (generated likewise),
    - the pointee [X = TVar 0] and the other type parameters (closures, phantom parameters,
      opaque accessors: [TVar 1 ..]) opaque, under EVERY valuation of their Send/Sync.

    For each wrapper, [w_spec] states what the wrapper stores, i.e. the exact condition under
    which the property allows it to be [Send] / [Sync].  The same enumeration is printed
    ([cells_out]) and compiled against rustc by harness/marker, so the matrix that is validated
    is the one the theorems quantify over. *)
From Coq Require Import List NArith Bool String Ascii.
From Marker Require Import AutoTraits Types_gen.
Import ListNotations.
Open Scope string_scope.

Definition D : defs := crate_defs.

Definition adt (n : string) (args : list ty) : ty := TApp (CAdt n) args.
Definition ASA P S := adt "crate::ArcSwapAny" [P; S].
Definition GUARD P S := adt "crate::Guard" [P; S].
Definition DIRECT P S := adt "crate::access::DirectDeref" [P; S].
Definition CACHE A P := adt "crate::cache::Cache" [A; P].
Definition MAPCACHE A P F := adt "crate::cache::MapCache" [A; P; F].
Definition MAP A T F := adt "crate::access::Map" [A; T; F].
Definition MAPGUARD G F T R := adt "crate::access::MapGuard" [G; F; T; R].
Definition DYNGUARD T := adt "crate::access::DynGuard" [T].
Definition ACONV A := adt "crate::access::AccessConvert" [A].
Definition CONSTANT T := adt "crate::access::Constant" [T].
Definition CONSTDEREF T := adt "crate::access::ConstantDeref" [T].
Definition DEBT := adt "crate::debt::Debt" [].
Definition ARC t := TApp CArc [t].
Definition RC t := TApp CRc [t].
Definition BOX t := TApp CBox [t].
Definition REF t := TApp CRef [t].
Definition DYN s y := TApp (CDyn s y) [].
(** a type that is neither Send nor Sync, whatever the valuation *)
Definition NEVER := TApp CRawPtr [TApp CUnit []].

(** the pointee *)
Definition X : ty := TVar 0.
(** the other opaque types of a wrapper *)
Definition aux (i : nat) : ty := TVar (N.of_nat (S i)).

(** pointer kinds: the crate's RefCnt impls over the pointee [X], and a user-defined RefCnt
    type about which nothing is known but its own Send/Sync (then [P] is the opaque type itself) *)
Definition pointers : list (string * ty) := (pointer_kinds ++ [("UserRefCnt<X>", X)])%list.
Definition pointer_tys : list ty := map snd pointers.
Definition strategy_tys : list ty := map snd strategies.

Inductive stores := ByValue | ByRef.

(** A wrapper that holds a pointer [P] under a strategy [S]. *)
Record pwrapper := {
  w_name   : string;
  w_naux   : nat;                                 (* opaque parameters besides the pointee *)
  w_build  : ty -> ty -> ty;                      (* P, S |-> the wrapper type *)
  w_spec   : trait -> ty -> list (trait * ty);    (* tr, P |-> all of these must hold, and suffice *)
  w_stores : stores;                              (* P held by value (or Arc/Box), or only by & *)
  w_stored : list nat;                            (* the aux parameters that are stored (others are phantom) *)
  w_never  : bool;                                (* never Send nor Sync by construction (Rc holder) *)
}.

Definition both (t : ty) : list (trait * ty) := [(Send, t); (Sync, t)].

Definition holder_specs : list (string * (ty -> ty) * (trait -> ty -> list (trait * ty)) * bool) :=
  [ ("Arc<ArcSwapAny<P,S>>", ARC, fun _ P => both P, false);
    ("&ArcSwapAny<P,S>", REF, fun _ P => [(Sync, P)], false);
    ("Box<ArcSwapAny<P,S>>", BOX, fun tr P => [(tr, P)], false);
    ("Rc<ArcSwapAny<P,S>>", RC, fun _ _ => [(Send, NEVER)], true) ].

Definition ptr_wrappers : list pwrapper :=
  [ {| w_name := "ArcSwapAny<P,S>"; w_naux := 0; w_build := ASA;
       w_spec := fun tr P => [(tr, P)]; w_stores := ByValue; w_stored := []; w_never := false |};
    {| w_name := "Guard<P,S>"; w_naux := 0; w_build := GUARD;
       w_spec := fun tr P => [(tr, P)]; w_stores := ByValue; w_stored := []; w_never := false |};
    {| w_name := "DirectDeref<P,S>"; w_naux := 0; w_build := DIRECT;
       w_spec := fun tr P => [(tr, P)]; w_stores := ByValue; w_stored := []; w_never := false |};
    {| w_name := "Arc<ArcSwapAny<P,S>>"; w_naux := 0; w_build := fun P S => ARC (ASA P S);
       w_spec := fun _ P => both P; w_stores := ByValue; w_stored := []; w_never := false |};
    {| w_name := "&ArcSwapAny<P,S>"; w_naux := 0; w_build := fun P S => REF (ASA P S);
       w_spec := fun _ P => [(Sync, P)]; w_stores := ByRef; w_stored := []; w_never := false |};
    {| w_name := "&Guard<P,S>"; w_naux := 0; w_build := fun P S => REF (GUARD P S);
       w_spec := fun _ P => [(Sync, P)]; w_stores := ByRef; w_stored := []; w_never := false |} ]
  ++ map (fun '(n, h, sp, nv) =>
       {| w_name := "Cache<" ++ n ++ ",P>"; w_naux := 0; w_build := fun P S => CACHE (h (ASA P S)) P;
          w_spec := fun tr P => (sp tr P ++ [(tr, P)])%list; w_stores := ByValue; w_stored := []; w_never := nv |})
     holder_specs
  ++ [ {| w_name := "Cache<A,P>"; w_naux := 1; w_build := fun P S => CACHE (aux 0) P;
          w_spec := fun tr P => [(tr, aux 0); (tr, P)]; w_stores := ByValue; w_stored := [0%nat]; w_never := false |} ]
  ++ map (fun '(n, h, sp, nv) =>
       {| w_name := "MapCache<" ++ n ++ ",P,F>"; w_naux := 1; w_build := fun P S => MAPCACHE (h (ASA P S)) P (aux 0);
          w_spec := fun tr P => (sp tr P ++ [(tr, P); (tr, aux 0)])%list; w_stores := ByValue; w_stored := [0%nat]; w_never := nv |})
     holder_specs
  ++ [ {| w_name := "MapCache<A,P,F>"; w_naux := 2; w_build := fun P S => MAPCACHE (aux 0) P (aux 1);
          w_spec := fun tr P => [(tr, aux 0); (tr, P); (tr, aux 1)]; w_stores := ByValue; w_stored := [0%nat; 1%nat]; w_never := false |};
       (* Map<A, T, F>: T is phantom (PhantomData<fn() -> T>) *)
       {| w_name := "Map<ArcSwapAny<P,S>,T,F>"; w_naux := 2; w_build := fun P S => MAP (ASA P S) (aux 0) (aux 1);
          w_spec := fun tr P => [(tr, P); (tr, aux 1)]; w_stores := ByValue; w_stored := [1%nat]; w_never := false |};
       {| w_name := "Map<Arc<ArcSwapAny<P,S>>,T,F>"; w_naux := 2; w_build := fun P S => MAP (ARC (ASA P S)) (aux 0) (aux 1);
          w_spec := fun tr P => (both P ++ [(tr, aux 1)])%list; w_stores := ByValue; w_stored := [1%nat]; w_never := false |};
       {| w_name := "Map<&ArcSwapAny<P,S>,T,F>"; w_naux := 2; w_build := fun P S => MAP (REF (ASA P S)) (aux 0) (aux 1);
          w_spec := fun tr P => [(Sync, P); (tr, aux 1)]; w_stores := ByRef; w_stored := [1%nat]; w_never := false |};
       (* MapGuard<G, F, T, R>: T and R are phantom (PhantomData<fn(&T) -> &R>) *)
       {| w_name := "MapGuard<Guard<P,S>,F,T,R>"; w_naux := 3; w_build := fun P S => MAPGUARD (GUARD P S) (aux 0) (aux 1) (aux 2);
          w_spec := fun tr P => [(tr, P); (tr, aux 0)]; w_stores := ByValue; w_stored := [0%nat]; w_never := false |};
       {| w_name := "MapGuard<DirectDeref<P,S>,F,T,R>"; w_naux := 3; w_build := fun P S => MAPGUARD (DIRECT P S) (aux 0) (aux 1) (aux 2);
          w_spec := fun tr P => [(tr, P); (tr, aux 0)]; w_stores := ByValue; w_stored := [0%nat]; w_never := false |};
       {| w_name := "MapGuard<MapGuard<Guard<P,S>,F,T,R>,F,R,T>"; w_naux := 3;
          w_build := fun P S => MAPGUARD (MAPGUARD (GUARD P S) (aux 0) (aux 1) (aux 2)) (aux 0) (aux 2) (aux 1);
          w_spec := fun tr P => [(tr, P); (tr, aux 0)]; w_stores := ByValue; w_stored := [0%nat]; w_never := false |} ].

(** Wrappers that hold no pointer of their own: everything is a parameter. *)
Record qwrapper := {
  q_name   : string;
  q_naux   : nat;                          (* opaque parameters: TVar 0 .. *)
  q_build  : ty;
  q_spec   : trait -> list (trait * ty);
  q_stored : list nat;
  q_never  : trait -> bool;
}.
Definition par (i : nat) : ty := TVar (N.of_nat i).
Definition no (_ : trait) := false.
Definition yes (_ : trait) := true.

Definition plain_wrappers : list qwrapper :=
  [ {| q_name := "Cache<A,T>"; q_naux := 2; q_build := CACHE (par 0) (par 1);
       q_spec := fun tr => [(tr, par 0); (tr, par 1)]; q_stored := [0%nat; 1%nat]; q_never := no |};
    {| q_name := "MapCache<A,T,F>"; q_naux := 3; q_build := MAPCACHE (par 0) (par 1) (par 2);
       q_spec := fun tr => [(tr, par 0); (tr, par 1); (tr, par 2)]; q_stored := [0%nat; 1%nat; 2%nat]; q_never := no |};
    {| q_name := "Map<A,T,F>"; q_naux := 3; q_build := MAP (par 0) (par 1) (par 2);
       q_spec := fun tr => [(tr, par 0); (tr, par 2)]; q_stored := [0%nat; 2%nat]; q_never := no |};
    {| q_name := "MapGuard<G,F,T,R>"; q_naux := 4; q_build := MAPGUARD (par 0) (par 1) (par 2) (par 3);
       q_spec := fun tr => [(tr, par 0); (tr, par 1)]; q_stored := [0%nat; 1%nat]; q_never := no |};
    {| q_name := "MapGuard<ConstantDeref<T>,F,T,R>"; q_naux := 3; q_build := MAPGUARD (CONSTDEREF (par 1)) (par 0) (par 1) (par 2);
       q_spec := fun tr => [(tr, par 1); (tr, par 0)]; q_stored := [0%nat; 1%nat]; q_never := no |};
    {| q_name := "Constant<T>"; q_naux := 1; q_build := CONSTANT (par 0);
       q_spec := fun tr => [(tr, par 0)]; q_stored := [0%nat]; q_never := no |};
    {| q_name := "ConstantDeref<T>"; q_naux := 1; q_build := CONSTDEREF (par 0);
       q_spec := fun tr => [(tr, par 0)]; q_stored := [0%nat]; q_never := no |};
    {| q_name := "AccessConvert<D>"; q_naux := 1; q_build := ACONV (par 0);
       q_spec := fun tr => [(tr, par 0)]; q_stored := [0%nat]; q_never := no |};
    (* the type-erased accessors: what the `dyn` says, nothing else *)
    {| q_name := "AccessConvert<Arc<dyn DynAccess>>"; q_naux := 0; q_build := ACONV (ARC (DYN false false));
       q_spec := fun tr => [(tr, NEVER)]; q_stored := []; q_never := yes |};
    {| q_name := "AccessConvert<Arc<dyn DynAccess+Send+Sync>>"; q_naux := 0; q_build := ACONV (ARC (DYN true true));
       q_spec := fun tr => []; q_stored := []; q_never := no |};
    {| q_name := "AccessConvert<Box<dyn DynAccess+Send>>"; q_naux := 0; q_build := ACONV (BOX (DYN true false));
       q_spec := fun tr => match tr with Send => [] | Sync => [(Sync, NEVER)] end; q_stored := [];
       q_never := fun tr => match tr with Send => false | Sync => true end |};
    (* DynGuard<T> = Box<dyn Deref<Target = T>>: never Send nor Sync, whatever T (conservative) *)
    {| q_name := "DynGuard<T>"; q_naux := 1; q_build := DYNGUARD (par 0);
       q_spec := fun tr => [(tr, NEVER)]; q_stored := [0%nat]; q_never := yes |};
    {| q_name := "MapGuard<DynGuard<T>,F,T,R>"; q_naux := 3; q_build := MAPGUARD (DYNGUARD (par 1)) (par 0) (par 1) (par 2);
       q_spec := fun tr => [(tr, NEVER)]; q_stored := [0%nat]; q_never := yes |} ].

(** ** Evaluation of a cell *)

Definition otrue (o : option bool) : bool := match o with Some true => true | _ => false end.
Definition conds (rho : list (bool * bool)) (cs : list (trait * ty)) : option bool :=
  oall (fun c : trait * ty => auto D rho (fst c) (snd c)) cs.
Definition traits : list trait := [Send; Sync].
Definition vtt (rho : list (bool * bool)) (i : nat) : bool :=
  match nth_error rho i with Some (true, true) => true | _ => false end.

(** ** Printing the matrix for rustc *)

Definition leaf_for (user : bool) (rho : list (bool * bool)) (i : N) : string :=
  let s := leaf_of (nth (N.to_nat i) rho (false, false)) in
  if user && N.eqb i 0 then "crate::UserPtr<" ++ s ++ ">" else s.

Definition show_trait (tr : trait) : string := match tr with Send => "Send" | Sync => "Sync" end.
Definition show_ob (o : option bool) : string :=
  match o with Some true => "1" | Some false => "0" | None => "?" end.
Definition show_os (o : option string) : string := match o with Some s => s | None => "?" end.
Definition show_val (rho : list (bool * bool)) : string :=
  fold_right (fun v acc => (match v with (true, true) => "B" | (true, false) => "S" | (false, true) => "Y" | (false, false) => "N" end) ++ acc) "" rho.

Definition nl : string := String (ascii_of_nat 10) EmptyString.

Definition rust_ty (user : bool) (rho : list (bool * bool)) (t : ty) : string :=
  show_os (match norm D FUEL t with
           | Some _ => rust D strategy_alias (leaf_for user rho) FUEL t
           | None => None end).

(** one line per cell:
    kind|wrapper|pointer|strategy|valuation|trait|rust type|prediction|cond@cond..   cond = trait~rust type~prediction *)
Definition line (kind wn pn sn : string) (user : bool) (rho : list (bool * bool)) (tr : trait) (W : ty)
           (spec : list (trait * ty)) : string :=
  kind ++ "|" ++ wn ++ "|" ++ pn ++ "|" ++ sn ++ "|" ++ show_val rho ++ "|" ++ show_trait tr ++ "|" ++
  rust_ty user rho W ++ "|" ++ show_ob (auto D rho tr W) ++ "|" ++
  fold_right (fun (c : trait * ty) acc =>
                show_trait (fst c) ++ "~" ++ rust_ty user rho (snd c) ++ "~" ++ show_ob (auto D rho (fst c) (snd c))
                ++ (if String.eqb acc "" then "" else "@") ++ acc) "" spec
  ++ nl.

(** quick tier: the pointee takes all four values, at most one other parameter deviates from Send+Sync *)
Definition few_deviations (rho : list (bool * bool)) : bool :=
  Nat.leb (List.length (filter (fun v : bool * bool => negb (fst v && snd v)) (tl rho))) 1.

Definition is_user (pn : string) : bool := String.eqb pn "UserRefCnt<X>".

Definition ptr_lines (sel : list (bool * bool) -> bool) : list string :=
  flat_map (fun w =>
    flat_map (fun p : string * ty =>
      flat_map (fun s : string * ty =>
        flat_map (fun rho =>
          if sel rho then
            map (fun tr => line "P" (w_name w) (fst p) (fst s) (is_user (fst p)) rho tr
                                (w_build w (snd p) (snd s)) (w_spec w tr (snd p))) traits
          else [])
          (valuations (S (w_naux w))))
        strategies)
      pointers)
    ptr_wrappers.

Definition plain_lines : list string :=
  flat_map (fun q =>
    flat_map (fun rho =>
      map (fun tr => line "Q" (q_name q) "-" "-" false rho tr (q_build q) (q_spec q tr)) traits)
      (valuations (q_naux q)))
    plain_wrappers.

(** the rules themselves, one constructor at a time over an opaque argument (translation
    validation of [holds] against rustc, independent of the crate) *)
Definition rule_types : list (string * ty) :=
  [ ("X", par 0); ("Arc<X>", ARC (par 0)); ("Rc<X>", RC (par 0)); ("sync::Weak<X>", TApp CSyncWeak [par 0]);
    ("rc::Weak<X>", TApp CRcWeak [par 0]); ("Option<X>", TApp COption [par 0]); ("&X", REF (par 0));
    ("&mut X", TApp CRefMut [par 0]); ("*const X", TApp CRawPtr [par 0]); ("PhantomData<X>", TApp CPhantom [par 0]);
    ("AtomicPtr<X>", TApp CAtomicPtr [par 0]); ("AtomicUsize", TApp CAtomicUsize []);
    ("ManuallyDrop<X>", TApp CManuallyDrop [par 0]); ("Cell<X>", TApp CCell [par 0]);
    ("UnsafeCell<X>", TApp CUnsafeCell [par 0]); ("Box<X>", BOX (par 0));
    ("Box<dyn>", BOX (DYN false false)); ("Box<dyn+Send>", BOX (DYN true false));
    ("Box<dyn+Sync>", BOX (DYN false true)); ("Box<dyn+Send+Sync>", BOX (DYN true true));
    ("fn(X)", TApp CFnPtr [par 0]); ("PhantomData<fn(X)>", TApp CPhantom [TApp CFnPtr [par 0]]);
    ("()", TApp CUnit []); ("(X,)", TApp CTuple [par 0]); ("[X;2]", TApp CArray [par 0]);
    ("RwLock<X>", TApp CRwLock [par 0]); ("RwLock<()>", TApp CRwLock [TApp CUnit []]);
    ("Mutex<X>", TApp CMutex [par 0]); ("MutexGuard<X>", TApp CMutexGuard [par 0]);
    ("Option<&'static AtomicUsize>", TApp COption [REF (TApp CAtomicUsize [])]);
    ("Arc<Arc<X>>", ARC (ARC (par 0))); ("Option<Arc<X>>", TApp COption [ARC (par 0)]);
    ("&Arc<X>", REF (ARC (par 0))); ("Arc<&X>", ARC (REF (par 0))); ("Arc<Cell<X>>", ARC (TApp CCell [par 0]));
    ("&Cell<X>", REF (TApp CCell [par 0])); ("Arc<RwLock<X>>", ARC (TApp CRwLock [par 0]));
    ("Arc<Mutex<X>>", ARC (TApp CMutex [par 0])); ("&&X", REF (REF (par 0))); ("&mut &X", TApp CRefMut [REF (par 0)]) ].

Definition rule_lines : list string :=
  flat_map (fun r : string * ty =>
    flat_map (fun rho =>
      map (fun tr => line "R" (fst r) "-" "-" false rho tr (snd r) []) traits)
      (valuations 1))
    rule_types.

Definition cells_out (sel : list (bool * bool) -> bool) : string :=
  String.concat "" (rule_lines ++ plain_lines ++ ptr_lines sel).
