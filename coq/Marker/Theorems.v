(** * C19: the thread-safety markers follow the pointer — proofs.

    Every statement quantifies over the whole matrix of Marker/Matrix.v: every wrapper, every
    pointer kind of [pointers], every strategy of [strategies] (both read off /repo/src by the
    translator on every run) and ALL valuations of the Send/Sync of the pointee and of the other
    type parameters ([List.length rho = ..], by [valuations_complete]).  The space is finite and
    the rules are computable, so each proof is: a boolean check over an explicit enumeration,
    evaluated by [vm_compute], lifted with [forallb_forall].

    Because Marker/Types_gen.v is regenerated from the source, an added
    [unsafe impl<T, S> Send for Guard<T, S>], a changed [PhantomData] argument or a new field
    changes [crate_defs]; then a check evaluates to [false] and this file no longer compiles. *)
From Coq Require Import List NArith Bool String.
From Marker Require Import AutoTraits Types_gen Matrix.
Import ListNotations.

Lemma otrue_iff : forall o, otrue o = true <-> o = Some true.
Proof. intros [[|]|]; cbn; split; intro H; try reflexivity; discriminate. Qed.

Lemma In_traits : forall tr, In tr traits.
Proof. intros []; cbn; auto. Qed.

(** ** Wrappers around a pointer *)

Definition all_ptr_cells (f : pwrapper -> ty -> ty -> list (bool * bool) -> bool) : bool :=
  forallb (fun w =>
    forallb (fun P =>
      forallb (fun St =>
        forallb (fun rho => f w P St rho) (valuations (S (w_naux w))))
        strategy_tys)
      pointer_tys)
    ptr_wrappers.

Lemma all_ptr_cells_spec : forall f, all_ptr_cells f = true ->
  forall w P St rho,
    In w ptr_wrappers -> In P pointer_tys -> In St strategy_tys -> List.length rho = S (w_naux w) ->
    f w P St rho = true.
Proof.
  intros f H w P St rho Hw HP HS Hr. unfold all_ptr_cells in H.
  rewrite forallb_forall in H. specialize (H w Hw).
  rewrite forallb_forall in H. specialize (H P HP).
  rewrite forallb_forall in H. specialize (H St HS).
  rewrite forallb_forall in H. apply H. apply valuations_complete. exact Hr.
Qed.

(** what must hold of [P] for the wrapper to have [tr]: [tr] itself when the pointer is held by
    value (or through Arc / Box), [Sync] when only a shared reference is held *)
Definition need (w : pwrapper) (tr : trait) : trait :=
  match w_stores w with ByValue => tr | ByRef => Sync end.

Definition opt_eqb (a b : option bool) : bool :=
  match a, b with Some x, Some y => Bool.eqb x y | _, _ => false end.
Definition is_false (o : option bool) : bool := match o with Some false => true | _ => false end.

Lemma opt_eqb_ex : forall a b, opt_eqb a b = true -> exists x, a = Some x /\ b = Some x.
Proof.
  intros [x|] [y|] H; try discriminate. apply eqb_prop in H. subst. exists y. split; reflexivity.
Qed.

Lemma is_false_iff : forall o, is_false o = true -> o = Some false.
Proof. intros [[|]|] H; try discriminate. reflexivity. Qed.

(** The verdicts of a cell ([ws wy]: the wrapper is Send / Sync; [ps py]: the pointer is;
    [es ey]: the conjunction of what [w_spec] lists) are computed once per cell and the four
    properties are boolean functions of them.  All reasoning below is about these functions of
    abstract verdicts, so no proof step ever has to unfold [auto]. *)
Definition b_sound (w : pwrapper) (ws wy ps py : option bool) : bool :=
  implb (otrue ws) (otrue (match w_stores w with ByValue => ps | ByRef => py end)) && implb (otrue wy) (otrue py).
Definition b_exact (ws wy es ey : option bool) : bool := opt_eqb ws es && opt_eqb wy ey.
Definition b_complete (w : pwrapper) (rho : list (bool * bool)) (ws wy ps py : option bool) : bool :=
  if w_never w then true else
    implb (otrue ps && otrue py && forallb (fun i => vtt rho (S i)) (w_stored w)) (otrue ws && otrue wy).
Definition b_never (w : pwrapper) (ws wy : option bool) : bool :=
  if w_never w then is_false ws && is_false wy else true.

Definition cell_body (w : pwrapper) (rho : list (bool * bool)) (ws wy ps py es ey : option bool) : bool :=
  b_sound w ws wy ps py && b_exact ws wy es ey && b_complete w rho ws wy ps py && b_never w ws wy.

Lemma cell_body_spec : forall w rho ws wy ps py es ey,
  cell_body w rho ws wy ps py es ey = true ->
  b_sound w ws wy ps py = true /\ b_exact ws wy es ey = true /\ b_complete w rho ws wy ps py = true /\ b_never w ws wy = true.
Proof.
  intros w rho ws wy ps py es ey C. unfold cell_body in C.
  apply andb_true_iff in C. destruct C as [C C4].
  apply andb_true_iff in C. destruct C as [C C3].
  apply andb_true_iff in C. destruct C as [C1 C2].
  repeat split; assumption.
Qed.

Lemma b_sound_spec : forall w ws wy ps py, b_sound w ws wy ps py = true ->
  (ws = Some true -> match w_stores w with ByValue => ps | ByRef => py end = Some true) /\
  (wy = Some true -> py = Some true).
Proof.
  intros w ws wy ps py C. unfold b_sound in C. apply andb_true_iff in C. destruct C as [C1 C2].
  split; intro H; subst; cbn [otrue implb] in *; apply otrue_iff; assumption.
Qed.

Lemma b_exact_spec : forall ws wy es ey, b_exact ws wy es ey = true ->
  opt_eqb ws es = true /\ opt_eqb wy ey = true.
Proof. intros ws wy es ey C. unfold b_exact in C. apply andb_true_iff in C. exact C. Qed.

Lemma b_complete_spec : forall w rho ws wy ps py, b_complete w rho ws wy ps py = true ->
  w_never w = false -> ps = Some true -> py = Some true ->
  (forall i, In i (w_stored w) -> nth_error rho (S i) = Some (true, true)) ->
  ws = Some true /\ wy = Some true.
Proof.
  intros w rho ws wy ps py C Hn H1 H2 H3. unfold b_complete in C. rewrite Hn in C. subst ps py.
  assert (Hs : forallb (fun i => vtt rho (S i)) (w_stored w) = true).
  { apply forallb_forall. intros i Hi. unfold vtt. rewrite (H3 i Hi). reflexivity. }
  rewrite Hs in C. cbn [otrue andb implb] in C.
  apply andb_true_iff in C. destruct C as [C1 C2].
  split; apply otrue_iff; assumption.
Qed.

Lemma b_never_spec : forall w ws wy, b_never w ws wy = true -> w_never w = true ->
  ws = Some false /\ wy = Some false.
Proof.
  intros w ws wy C Hn. unfold b_never in C. rewrite Hn in C.
  apply andb_true_iff in C. destruct C as [C1 C2]. split; apply is_false_iff; assumption.
Qed.

(** the single pass over the whole matrix *)
Lemma chk_cells :
  all_ptr_cells (fun w P St rho =>
    cell_body w rho (auto D rho Send (w_build w P St)) (auto D rho Sync (w_build w P St))
              (auto D rho Send P) (auto D rho Sync P)
              (conds rho (w_spec w Send P)) (conds rho (w_spec w Sync P))) = true.
Proof. vm_cast_no_check (eq_refl true). Qed.

Lemma cell : forall w P St rho,
  In w ptr_wrappers -> In P pointer_tys -> In St strategy_tys -> List.length rho = S (w_naux w) ->
  cell_body w rho (auto D rho Send (w_build w P St)) (auto D rho Sync (w_build w P St))
            (auto D rho Send P) (auto D rho Sync P)
            (conds rho (w_spec w Send P)) (conds rho (w_spec w Sync P)) = true.
Proof.
  intros w P St rho Hw HP HS Hr.
  exact (all_ptr_cells_spec _ chk_cells w P St rho Hw HP HS Hr).
Qed.

Theorem sound : forall w P St rho tr,
  In w ptr_wrappers -> In P pointer_tys -> In St strategy_tys -> List.length rho = S (w_naux w) ->
  auto D rho tr (w_build w P St) = Some true -> auto D rho (need w tr) P = Some true.
Proof.
  intros w P St rho tr Hw HP HS Hr H.
  destruct (cell_body_spec _ _ _ _ _ _ _ _ (cell w P St rho Hw HP HS Hr)) as [C _].
  apply b_sound_spec in C. destruct C as [C1 C2]. unfold need.
  destruct tr.
  - specialize (C1 H). destruct (w_stores w); exact C1.
  - specialize (C2 H). destruct (w_stores w); exact C2.
Qed.

Theorem sound_by_value : forall w P St rho tr,
  In w ptr_wrappers -> w_stores w = ByValue ->
  In P pointer_tys -> In St strategy_tys -> List.length rho = S (w_naux w) ->
  auto D rho tr (w_build w P St) = Some true -> auto D rho tr P = Some true.
Proof.
  intros w P St rho tr Hw Hv HP HS Hr H.
  pose proof (sound w P St rho tr Hw HP HS Hr H) as C. unfold need in C. rewrite Hv in C. exact C.
Qed.

Theorem sound_by_ref : forall w P St rho tr,
  In w ptr_wrappers -> w_stores w = ByRef ->
  In P pointer_tys -> In St strategy_tys -> List.length rho = S (w_naux w) ->
  auto D rho tr (w_build w P St) = Some true -> auto D rho Sync P = Some true.
Proof.
  intros w P St rho tr Hw Hv HP HS Hr H.
  pose proof (sound w P St rho tr Hw HP HS Hr H) as C. unfold need in C. rewrite Hv in C. exact C.
Qed.

(** exactness: the wrapper has the trait iff everything [w_spec] lists holds; in particular the
    model decides every cell ([Some]) *)
Theorem exact : forall w P St rho tr,
  In w ptr_wrappers -> In P pointer_tys -> In St strategy_tys -> List.length rho = S (w_naux w) ->
  exists b, auto D rho tr (w_build w P St) = Some b /\ conds rho (w_spec w tr P) = Some b.
Proof.
  intros w P St rho tr Hw HP HS Hr.
  destruct (cell_body_spec _ _ _ _ _ _ _ _ (cell w P St rho Hw HP HS Hr)) as [_ [C _]].
  apply b_exact_spec in C. destruct C as [C1 C2].
  destruct tr; apply opt_eqb_ex; assumption.
Qed.

(** completeness: a thread-safe pointer with thread-safe stored parameters gives a thread-safe
    wrapper, whatever the phantom parameters are *)
Theorem complete : forall w P St rho,
  In w ptr_wrappers -> w_never w = false ->
  In P pointer_tys -> In St strategy_tys -> List.length rho = S (w_naux w) ->
  auto D rho Send P = Some true -> auto D rho Sync P = Some true ->
  (forall i, In i (w_stored w) -> nth_error rho (S i) = Some (true, true)) ->
  auto D rho Send (w_build w P St) = Some true /\ auto D rho Sync (w_build w P St) = Some true.
Proof.
  intros w P St rho Hw Hn HP HS Hr H1 H2 H3.
  destruct (cell_body_spec _ _ _ _ _ _ _ _ (cell w P St rho Hw HP HS Hr)) as [_ [_ [C _]]].
  exact (b_complete_spec _ _ _ _ _ _ C Hn H1 H2 H3).
Qed.

(** the holders that are never thread-safe by construction ([Rc<ArcSwapAny<..>>]) *)
Theorem never : forall w P St rho tr,
  In w ptr_wrappers -> w_never w = true ->
  In P pointer_tys -> In St strategy_tys -> List.length rho = S (w_naux w) ->
  auto D rho tr (w_build w P St) = Some false.
Proof.
  intros w P St rho tr Hw Hn HP HS Hr.
  destruct (cell_body_spec _ _ _ _ _ _ _ _ (cell w P St rho Hw HP HS Hr)) as [_ [_ [_ C]]].
  destruct (b_never_spec _ _ _ C Hn) as [C1 C2]. destruct tr; assumption.
Qed.

(** ** The guard of the hybrid strategies: the pointer and a [&'static Debt] *)

Definition HPROT P := adt "crate::strategy::hybrid::HybridProtection" [P].
Definition is_hybrid (St : ty) : bool :=
  match St with
  | TApp (CAdt n) _ => String.eqb n "crate::strategy::hybrid::HybridStrategy"
  | _ => false
  end.
Definition DEBTREF : ty := TApp COption [REF DEBT].

Lemma ty_eqb_eq : forall a b, ty_eqb a b = true -> a = b.
Proof.
  fix IH 1. intros a b.
  assert (L : forall xs ys,
             (fix go (xs ys : list ty) {struct xs} : bool :=
                match xs, ys with
                | [], [] => true
                | x :: xs', y :: ys' => ty_eqb x y && go xs' ys'
                | _, _ => false
                end) xs ys = true -> xs = ys).
  { induction xs as [|x xs IHxs]; intros [|y ys] H; try reflexivity; try discriminate.
    apply andb_true_iff in H. destruct H as [H1 H2]. f_equal; [apply IH; exact H1 | apply IHxs; exact H2]. }
  destruct a as [i|c xs|p xs], b as [j|c' ys|p' ys]; cbn [ty_eqb]; intro H; try discriminate.
  - apply N.eqb_eq in H. subst. reflexivity.
  - apply andb_true_iff in H. destruct H as [H1 H2]. apply L in H2. subst.
    f_equal. clear - H1.
    destruct c, c'; cbn in H1; try discriminate; try reflexivity.
    + apply andb_true_iff in H1. destruct H1 as [A B]. apply eqb_prop in A. apply eqb_prop in B. subst. reflexivity.
    + apply String.eqb_eq in H1. subst. reflexivity.
  - apply andb_true_iff in H. destruct H as [H1 H2]. apply L in H2. apply String.eqb_eq in H1. subst. reflexivity.
Qed.

(** [S::Protected] of the field [Guard::inner] resolves as the source says: [HybridProtection<P>]
    for the hybrid strategies, [P] itself for the [RwLock<()>] test strategy *)
Definition prot_body (o : option ty) (e : ty) : bool :=
  match o with Some t => ty_eqb t e | None => false end.

Lemma prot_body_spec : forall o e, prot_body o e = true -> o = Some e.
Proof. intros [t|] e H; [|discriminate]. cbn in H. apply ty_eqb_eq in H. subst. reflexivity. Qed.

Lemma chk_protected :
  forallb (fun P => forallb (fun St =>
     prot_body (norm D FUEL (TProj "Protected" [St; P])) (if is_hybrid St then HPROT P else P))
     strategy_tys) pointer_tys = true.
Proof. vm_cast_no_check (eq_refl true). Qed.

Theorem protected_resolution : forall P St,
  In P pointer_tys -> In St strategy_tys ->
  norm D FUEL (TProj "Protected" [St; P]) = Some (if is_hybrid St then HPROT P else P).
Proof.
  intros P St HP HS. pose proof chk_protected as C.
  rewrite forallb_forall in C. specialize (C P HP). cbv beta in C.
  rewrite forallb_forall in C. specialize (C St HS). cbv beta in C.
  apply prot_body_spec. exact C.
Qed.

Definition debt_body (hy : bool) (g p r d : option bool) : bool :=
  if hy then implb (otrue g) (otrue p && otrue r && otrue d) else true.

Lemma debt_body_spec : forall g p r d, debt_body true g p r d = true -> g = Some true ->
  p = Some true /\ r = Some true /\ d = Some true.
Proof.
  intros g p r d C H. subst g. cbn in C.
  apply andb_true_iff in C. destruct C as [C C3]. apply andb_true_iff in C. destruct C as [C1 C2].
  repeat split; apply otrue_iff; assumption.
Qed.

Lemma chk_guard_debt :
  forallb (fun P => forallb (fun St => forallb (fun rho => forallb (fun tr =>
     debt_body (is_hybrid St) (auto D rho tr (GUARD P St)) (auto D rho tr P) (auto D rho tr DEBTREF) (auto D rho Sync DEBT))
     traits) (valuations 1)) strategy_tys) pointer_tys = true.
Proof. vm_cast_no_check (eq_refl true). Qed.

Theorem guard_debt : forall P St rho tr,
  In P pointer_tys -> In St strategy_tys -> is_hybrid St = true -> List.length rho = 1%nat ->
  auto D rho tr (GUARD P St) = Some true ->
  auto D rho tr P = Some true /\ auto D rho tr DEBTREF = Some true /\ auto D rho Sync DEBT = Some true.
Proof.
  intros P St rho tr HP HS Hh Hr H. pose proof chk_guard_debt as C.
  rewrite forallb_forall in C. specialize (C P HP). cbv beta in C.
  rewrite forallb_forall in C. specialize (C St HS). cbv beta in C.
  rewrite forallb_forall in C. specialize (C rho (valuations_complete 1 rho Hr)). cbv beta in C.
  rewrite forallb_forall in C. specialize (C tr (In_traits tr)). cbv beta in C.
  rewrite Hh in C. exact (debt_body_spec _ _ _ _ C H).
Qed.

(** the field really is there: the auto impl of [HybridProtection<T>] ranges over [Option<&Debt>] *)
Lemma hybrid_protection_fields :
  option_map sd_fields (find_struct D "crate::strategy::hybrid::HybridProtection")
  = Some [DEBTREF; TApp CManuallyDrop [TVar 0]].
Proof. vm_cast_no_check (eq_refl (Some [DEBTREF; TApp CManuallyDrop [TVar 0]])). Qed.

(** ** Wrappers whose content is only parameters *)

Definition all_plain_cells (f : qwrapper -> list (bool * bool) -> bool) : bool :=
  forallb (fun q => forallb (fun rho => f q rho) (valuations (q_naux q))) plain_wrappers.

Lemma all_plain_cells_spec : forall f, all_plain_cells f = true ->
  forall q rho, In q plain_wrappers -> List.length rho = q_naux q -> f q rho = true.
Proof.
  intros f H q rho Hq Hr. unfold all_plain_cells in H.
  rewrite forallb_forall in H. specialize (H q Hq).
  rewrite forallb_forall in H. apply H. apply valuations_complete. exact Hr.
Qed.

Definition g_body (q : qwrapper) (rho : list (bool * bool)) (tr : trait) (a e : option bool) : bool :=
  opt_eqb a e && (if q_never q tr then is_false a
                  else implb (forallb (fun i => vtt rho i) (q_stored q)) (otrue a)).

Lemma chk_plain :
  all_plain_cells (fun q rho =>
    forallb (fun tr => g_body q rho tr (auto D rho tr (q_build q)) (conds rho (q_spec q tr))) traits) = true.
Proof. vm_cast_no_check (eq_refl true). Qed.

Lemma plain_cell : forall q rho tr,
  In q plain_wrappers -> List.length rho = q_naux q ->
  g_body q rho tr (auto D rho tr (q_build q)) (conds rho (q_spec q tr)) = true.
Proof.
  intros q rho tr Hq Hr.
  pose proof (all_plain_cells_spec _ chk_plain q rho Hq Hr) as C. cbv beta in C.
  rewrite forallb_forall in C. exact (C tr (In_traits tr)).
Qed.

Lemma g_body_spec : forall q rho tr a e, g_body q rho tr a e = true ->
  opt_eqb a e = true /\
  (q_never q tr = true -> a = Some false) /\
  (q_never q tr = false -> (forall i, In i (q_stored q) -> nth_error rho i = Some (true, true)) -> a = Some true).
Proof.
  intros q rho tr a e C. unfold g_body in C. apply andb_true_iff in C. destruct C as [C1 C2].
  split; [exact C1|]. split; intro Hn; rewrite Hn in C2.
  - apply is_false_iff. exact C2.
  - intro H.
    assert (Hs : forallb (fun i => vtt rho i) (q_stored q) = true).
    { apply forallb_forall. intros i Hi. unfold vtt. rewrite (H i Hi). reflexivity. }
    rewrite Hs in C2. cbn [implb] in C2. apply otrue_iff. exact C2.
Qed.

Theorem plain_exact : forall q rho tr,
  In q plain_wrappers -> List.length rho = q_naux q ->
  exists b, auto D rho tr (q_build q) = Some b /\ conds rho (q_spec q tr) = Some b.
Proof.
  intros q rho tr Hq Hr. destruct (g_body_spec _ _ _ _ _ (plain_cell q rho tr Hq Hr)) as [C _].
  apply opt_eqb_ex. exact C.
Qed.

Theorem plain_complete : forall q rho tr,
  In q plain_wrappers -> List.length rho = q_naux q -> q_never q tr = false ->
  (forall i, In i (q_stored q) -> nth_error rho i = Some (true, true)) ->
  auto D rho tr (q_build q) = Some true.
Proof.
  intros q rho tr Hq Hr Hn H. destruct (g_body_spec _ _ _ _ _ (plain_cell q rho tr Hq Hr)) as [_ [_ C]].
  exact (C Hn H).
Qed.

Theorem plain_never : forall q rho tr,
  In q plain_wrappers -> List.length rho = q_naux q -> q_never q tr = true ->
  auto D rho tr (q_build q) = Some false.
Proof.
  intros q rho tr Hq Hr Hn. destruct (g_body_spec _ _ _ _ _ (plain_cell q rho tr Hq Hr)) as [_ [C _]].
  exact (C Hn).
Qed.
