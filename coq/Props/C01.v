(** * C01 — no use-after-free: a value stays alive while any handle to it exists.

    In ASModel every access to a reference count of a destroyed value is a FAULT outcome of
    the step ([NFault (FDeadInc a)] / [NFault (FDeadDec a)]): C01 is "no run faults".

    Proved so far over ASModel (local step theorems, every shared state, every choice):
    - counts: a decrement destroys the value exactly when the count was 1, touches no other
      value, and any count access to a destroyed value is a fault ([C01_dec], [C01_inc]);
    - fast path: a guard is handed out only if, AFTER its debt was published, the storage
      still holds the same pointer at the confirming read ([C01_fast_confirm]);
    - writer: the walk pays a slot iff it holds exactly the removed pointer, and then adds
      exactly one reference ([C01_pay_slot], [C01_pay_inc]); it visits all nine slots of a
      node in order and every node below the head it read ([C01_walk_*]).
    Over all schedules ([InvStep]): the node a thread publishes its debts in is exclusively
    its own ([C11_exclusive]) and no step panics ([C13_total]).
    Beyond these step theorems (see END-TO-END below for what is now proved over all schedules): the closed statement "no run of any program under any schedule
    reaches a fault"; it needs the accounting and protection invariants (now proved: see END-TO-END below).
    It is searched on every run by the correspondence (any FAULT line of the real harness's
    arena or of the model is a C01 finding) on 1-3-preemption sweeps, freeze sweeps, grids of
    earlier failing schedule shapes and generated programs. 
    END-TO-END ([ASModel.Main], all schedules, any number of threads): the theorems below hold for
    every run from an initial configuration that satisfies [RunOK]: initial values are null or
    valid addresses; no program calls the verification hook [set_generation] or uses Cache; in
    every state of the run no generation counter is within 4 of wrapping ([GenBound]: a wrap needs
    2^62 fallback loads of one thread; the wrap itself is C13), a command's destination handle is
    empty and the source of a running clone is not dropped (conditions on the TEST PROGRAM, met by
    every generated program: the model driver checks them on every run and the evidence counts the
    runs inside this scope); the allocator hands out addresses that are not live, not null and not
    the empty-slot marker.  The proof is an inductive invariant [Master] made of: node ownership
    and per-program-point assertions (WF2), reservation counting and generation uniqueness
    (GenInv), envelope exclusivity (EnvInv), exact accounting (AccInv), slot coverage (ProtInv'),
    stack typing, and "no thread has faulted", each preserved by every step ([step_Master]).
    [C01_no_use_after_free]: no thread ever faults and no step of the run touches the count of a
    destroyed value; [C01_no_fault_events]: no fault event at all when only enabled threads are
    scheduled; [C01_site_alive]: at every count access the value's count is at least 1.

    RUN LENGTH INSTEAD OF [GenBound] ([ASModel.GenLen]): without the [set_generation] hook a generation
    counter grows by at most 4 per step from 0, so for every run of fewer than 2^62 steps [GenBound]
    holds in every state by itself; [RunOKLen] is [RunOK] with that hypothesis replaced by the bound
    on the length of the schedule, and the theorem holds for it as well ([..._len] below).
*)
From ASModel Require Import Base State Orderings_gen Step Run Progress Hist Local Inv InvTl InvProto InvStep Sum StepCases.
From ASModel Require Import GenDefs Gen1 Gen2 Gen EnvDefs Env4 Env AccDefs Acc1 Acc2 Acc3 Acc4 Acc5 Acc6 Acc7 Acc.
From ASModel Require Import ProtDefs Prot1 Prot11 Prot16 Prot Typed LinDefs Lin2 Lin Safe1 Safe2 Safe7 Safe8 Safe Main GenLen ProgWF1 ProgWF RunOKEx.
From ASModel Require Import Stale StaleInv.
From ASModel Require Import Stale2 Stale2Inv.
From ASModel Require Import StaleC StaleCInv.
From ASModel Require Import Stale2S Stale2SEx.

Theorem C01_dec : forall s a,
  match heap s a with
  | None => rc_dec s a = None
  | Some oid =>
      exists s' evs, rc_dec s a = Some (s', evs) /\
        (forall b, b <> a -> heap s' b = heap s b /\ mem s' (LCount b) = mem s (LCount b)) /\
        if mem s (LCount a) =? 1
        then heap s' a = None /\ evs = [EvRc a false 1; EvDestroy a oid]
        else heap s' a = Some oid /\ mem s' (LCount a) = mem s (LCount a) - 1 /\ evs = [EvRc a false (mem s (LCount a))]
  end.
Proof. exact rc_dec_spec. Qed.

Theorem C01_inc : forall s a,
  match heap s a with
  | None => rc_inc s a = None
  | Some _ =>
      exists s', rc_inc s a = Some (s', [EvRc a true (mem s (LCount a))]) /\ heap s' = heap s /\
        mem s' (LCount a) = mem s (LCount a) + 1 /\ forall l, l <> LCount a -> mem s' l = mem s l
  end.
Proof. exact rc_inc_spec. Qed.

Theorem C01_fast_confirm : forall cf s l c v j x,
  let n := own_node l in
  exists e,
    if mem s (LStore c) =? v
    then exec cf s l (LA4 c v j) x = (s, fst (with_exit l (RGuard v (Some (n, j)))), [e], snd (with_exit l (RGuard v (Some (n, j)))))
    else exec cf s l (LA4 c v j) x = (s, l, [e], NGoto (LA5 c v j)).
Proof. exact fast_confirm_step. Qed.

Theorem C01_pay_slot : forall cf s l c old w j x,
  exists e,
    exec cf s l (PS c old w j) x =
      (if mem s (LSlot w j) =? old then m_set s (LSlot w j) NONE else s, l, [e],
       if (mem s (LSlot w j) =? old) && negb (old =? 0) then NGoto (PSi c old w j) else after_slot c old w j).
Proof. exact pay_slot_step. Qed.

Theorem C01_pay_inc : forall cf s l c old w j x,
  match heap s old with
  | None => exec cf s l (PSi c old w j) x = (s, l, [], NFault (FDeadInc old))
  | Some _ => exists s', rc_inc s old = Some (s', [EvRc old true (mem s (LCount old))]) /\
              exec cf s l (PSi c old w j) x = (s', l, [EvRc old true (mem s (LCount old))], after_slot c old w j)
  end.
Proof. exact pay_inc_step. Qed.

Theorem C01_walk_next_slot : forall c old w j, j <> HSLOT -> after_slot c old w j = NGoto (PS c old w (j + 1)).
Proof. exact walk_next_slot. Qed.
Theorem C01_walk_last_slot : forall c old w, after_slot c old w HSLOT = NGoto (P5 c old w).
Proof. exact walk_last_slot. Qed.
Theorem C01_walk_next_node : forall cf s l c old w x, w <> 0 ->
  exists s' e, exec cf s l (P5 c old w) x = (s', l, [e], NGoto (P3 c old (w - 1))).
Proof. exact walk_next_node. Qed.

Theorem C01_no_use_after_free : forall cf inits progs sched,
  RunOK cf inits progs sched ->
  NoFault (run_state cf (init_state inits progs) sched) /\
  forall te, In te (snd (run cf (init_state inits progs) sched)) ->
    forall a, ~ In (EvFault (FDeadInc a)) (snd te) /\ ~ In (EvFault (FDeadDec a)) (snd te).
Proof. exact Main.C01_no_use_after_free. Qed.

Theorem C01_no_fault_events : forall cf inits progs sched,
  RunOK cf inits progs sched ->
  (forall k t x, nth_error sched k = Some (t, x) -> enabled (St cf (init_state inits progs) sched k) t = true) ->
  forall te, In te (snd (run cf (init_state inits progs) sched)) -> forall f, ~ In (EvFault f) (snd te).
Proof. exact Main.C01_no_fault_events. Qed.

Theorem C01_no_dead_access : forall cf s t x p rest s1 l1 evs nx,
  AccInv s -> ProtInv' s -> ValOK s -> CloneSrc s ->
  t_status (thr s t) = Running -> t_stack (thr s t) = p :: rest ->
  exec cf (sh s) (t_loc (thr s t)) p x = (s1, l1, evs, nx) ->
  forall a, nx <> NFault (FDeadInc a) /\ nx <> NFault (FDeadDec a).
Proof. exact no_dead_access. Qed.

Theorem C01_master_invariant : forall cf s t x,
  GenBound s -> ProgOK s -> alloc_ok s t x -> Master s -> Master (fst (step cf s t x)).
Proof. exact step_Master. Qed.

Theorem C01_no_use_after_free_len : forall cf inits progs sched,
  RunOKLen cf inits progs sched ->
  NoFault (run_state cf (init_state inits progs) sched) /\
  forall te, In te (snd (run cf (init_state inits progs) sched)) ->
    forall a, ~ In (EvFault (FDeadInc a)) (snd te) /\ ~ In (EvFault (FDeadDec a)) (snd te).
Proof. exact GenLen.C01_no_use_after_free_len. Qed.

Theorem C01_gen_bound_from_length : forall cf inits progs sched,
  progs_ok progs -> 4 * N.of_nat (length sched) + 4 < WORD ->
  forall k, GenBound (run_state cf (init_state inits progs) (firstn k sched)).
Proof. exact GenBound_len. Qed.

(** Fully static scope ([ASModel.ProgWF]): [RunStatic] asks only for well-formed programs
    ([progs_wf]: no handle is used by two threads and no command writes a destination that may be
    non-empty - a decidable property of the program text), valid initial values, a run of fewer than
    2^62 steps and a well-behaved allocator; every schedule. *)
Theorem C01_no_use_after_free_static : forall cf inits progs sched,
  RunStatic cf inits progs sched ->
  NoFault (run_state cf (init_state inits progs) sched) /\
  forall te, In te (snd (run cf (init_state inits progs) sched)) ->
    forall a, ~ In (EvFault (FDeadInc a)) (snd te) /\ ~ In (EvFault (FDeadDec a)) (snd te).
Proof. exact ProgWF.C01_no_use_after_free_static. Qed.

Print Assumptions C01_dec.
Print Assumptions C01_inc.
Print Assumptions C01_fast_confirm.
Print Assumptions C01_pay_slot.
Print Assumptions C01_pay_inc.
Print Assumptions C01_walk_next_slot.
Print Assumptions C01_walk_last_slot.
Print Assumptions C01_walk_next_node.
(** Non-vacuity: the hypotheses [RunOK] are satisfiable by a concrete concurrent run in which a
    reader on the fallback path is helped by a writer (80 steps, both threads run to their end);
    the theorem applies to it. *)
Theorem C01_scope_inhabited : RunOK ex_cf ex_inits ex_progs ex_sched.
Proof. exact RunOK_example. Qed.

Theorem C01_example_no_fault : NoFault (run_state ex_cf (init_state ex_inits ex_progs) ex_sched).
Proof. exact (proj1 (Main.C01_no_use_after_free _ _ _ _ RunOK_example)). Qed.

Print Assumptions C01_no_use_after_free.
Print Assumptions C01_scope_inhabited.
Print Assumptions C01_example_no_fault.
Print Assumptions C01_no_fault_events.
Print Assumptions C01_no_dead_access.
Print Assumptions C01_master_invariant.
Print Assumptions C01_no_use_after_free_len.
Print Assumptions C01_gen_bound_from_length.
Print Assumptions C01_no_use_after_free_static.

(** ** The Relaxed first read of the fast path may be stale.

    [Stale.step_stale] is [step] except that the first read of the fast path ([LA1], the
    `ptr.load(Relaxed)` of `HybridStrategy::load` before the debt is published) may be answered
    with ANY non-null value the schedule chooses (choice [x >= 2] means value [x - 2]) - in
    particular one that was replaced and destroyed long ago.  [RunOKS] is [RunOK] for such runs
    (plus: the chosen value is not null).  No run faults and no count access finds its object
    destroyed: the confirming read after the debt is published is what protects, not the first. *)
Theorem C01_no_use_after_free_stale cf inits progs sched :
  RunOKS cf inits progs sched ->
  NoFault (run_state_stale cf (init_state inits progs) sched) /\
  forall te, In te (snd (run_stale cf (init_state inits progs) sched)) ->
    forall a, ~ In (EvFault (FDeadInc a)) (snd te) /\ ~ In (EvFault (FDeadDec a)) (snd te).
Proof. exact (StaleInv6.C01_no_use_after_free_stale cf inits progs sched). Qed.

(** Non-vacuity: a concrete run in which the first read returns a value that the writer has
    already replaced and destroyed; the reader publishes the debt, withdraws it at the confirming
    read and loads the current value. *)
Theorem C01_stale_scope_inhabited : RunOKS sx_cf sx_inits sx_progs sx_sched.
Proof. exact RunOKS_example. Qed.

Print Assumptions C01_no_use_after_free_stale.
Print Assumptions C01_stale_scope_inhabited.

(** ** Every load of the read path and of [Node::get] that is not SeqCst may be stale.

    [Stale2.step_stale2] is [step] except that FOUR loads may be answered with a value the schedule
    supplies (choice [x >= 2] means value [x - 2]): the Relaxed first read of the fast path ([LA1]),
    the Relaxed slot scan of `get_debt` ([LAscan]: the owner still sees a debt a writer has paid -
    the slot is skipped), the Acquire look at `in_use` in `check_cooldown` ([GCool1]: any earlier
    state; the CAS decides) and the Relaxed head read before the push loop ([GPush0]: an older head;
    the CAS decides).  [RunOKS2] is [RunOK] for such runs plus [Stale2.stale2_ok] (the first read is
    not null, the stale head is not above the current one). *)
Theorem C01_no_use_after_free_stale2 cf inits progs sched :
  RunOKS2 cf inits progs sched ->
  NoFault (run_state_stale2 cf (init_state inits progs) sched) /\
  forall te, In te (snd (run_stale2 cf (init_state inits progs) sched)) ->
    forall a, ~ In (EvFault (FDeadInc a)) (snd te) /\ ~ In (EvFault (FDeadDec a)) (snd te).
Proof. exact (Stale2Inv8.C01_no_use_after_free_stale2 cf inits progs sched). Qed.

(** Non-vacuity: two concrete runs.  In the first a writer's look at `in_use` and its head read are
    stale and the reader's ninth load skips a slot that was paid long ago; in the second all eight
    scans are stale and the reader enters the fallback. *)
Theorem C01_stale2_scope_inhabited :
  RunOKS2 sx2_cf sx2_inits sx2_progs sx2_sched /\ RunOKS2 sy2_cf sx2_inits sx2_progs sy2_sched.
Proof. exact (conj RunOKS2_example RunOKS2_example_y). Qed.

Print Assumptions C01_no_use_after_free_stale2.
Print Assumptions C01_stale2_scope_inhabited.

(** ** Programs WITH Cache commands and all five weakened loads ([StaleC.step_stale3]: the four of
    [Stale2] and the revalidating read of [Cache::load]; this is the function the model driver runs):
    no thread faults in any state of any run within [RunOKS3], no step touches a destroyed count. *)
Theorem C01_no_use_after_free_stale3 : forall cf inits progs sched,
  RunOKS3 cf inits progs sched ->
  (forall k, NoFault (St3 cf (init_state inits progs) sched k)) /\
  (forall k t x, nth_error sched k = Some (t, x) ->
     forall a, ~ In (EvFault (FDeadInc a)) (snd (step_stale3 cf (St3 cf (init_state inits progs) sched k) t x)) /\
               ~ In (EvFault (FDeadDec a)) (snd (step_stale3 cf (St3 cf (init_state inits progs) sched k) t x))).
Proof. exact StaleCInv28.C16_no_fault_stale3. Qed.

Print Assumptions C01_no_use_after_free_stale3.

(** ** Static hypotheses for runs with stale loads: [RunStaticS2] asks for well-formed program text
    ([progs_wf], decidable), a schedule of fewer than 2^62 steps, and - the only conditions on the
    run - that the allocator hands out free addresses and that the stale values are permitted ones
    ([alloc_ok], [stale2_ok]: conditions on the scheduler's choices, not on the program). *)
Theorem C01_no_use_after_free_stale2_static cf inits progs sched :
  RunStaticS2 cf inits progs sched ->
  NoFault (run_state_stale2 cf (init_state inits progs) sched) /\
  forall te, In te (snd (run_stale2 cf (init_state inits progs) sched)) ->
    forall a, ~ In (EvFault (FDeadInc a)) (snd te) /\ ~ In (EvFault (FDeadDec a)) (snd te).
Proof. exact (Stale2S4.C01_no_use_after_free_stale2_static cf inits progs sched). Qed.

Theorem C01_static_scope_generalises cf inits progs sched :
  fresh_sched sched -> RunStatic cf inits progs sched -> RunStaticS2 cf inits progs sched.
Proof. exact (RunStatic_RunStaticS2 cf inits progs sched). Qed.

(** Non-vacuity: the run [sx2] (stale `in_use` look, stale head read, stale slot scan) is inside. *)
Theorem C01_stale2_static_scope_inhabited : RunStaticS2 sx2_cf sx2_inits sx2_progs sx2_sched.
Proof. exact RunStaticS2_example. Qed.

Print Assumptions C01_no_use_after_free_stale2_static.
Print Assumptions C01_stale2_static_scope_inhabited.
Print Assumptions C01_static_scope_generalises.
