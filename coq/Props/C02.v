(** * C02 — exact ownership accounting: no leak, no double release, tight reclamation.

    Proved so far over ASModel (local step theorems, every shared state, every choice):
    - the destructor runs exactly at the decrement that finds the count at 1, in that very
      step (tight), and a destroyed value can never be decremented again without a fault
      ([C02_dec]);
    - a writer adds exactly one reference for every debt it removes from a slot, and removes
      a debt only if the slot holds exactly the removed pointer ([C02_pay_slot], [C02_pay_inc]);
    - a guard gives back either its debt (slot -> NONE, no count touched) or, if the debt was
      paid meanwhile, exactly one reference ([C02_guard_drop]); [Guard::into_inner] takes one
      reference and then does the same ([C02_guard_into]);
    - the storage of a container changes only by the single exchange of a writer and the
      exchanges of a run form one chain (C04).
    NOT yet proved (partial): the closed equation over all schedules
      count(a) + #slots holding a = #containers storing a + #handles and frames referring to a
    ([Acc*], in progress).  It is checked on every run of the correspondence: the final-state
    dump of the real crate (all strong counts, all slots, containers, live objects) must equal
    the model's, and the oracle requires every value to be destroyed exactly once, at the drop
    of its last owner, and every slot to be empty once its guard is gone. *)
From ASModel Require Import Base State Orderings_gen Step Run Progress Hist Local.

Theorem C02_dec : forall s a,
  match heap s a with
  | None => rc_dec s a = None
  | Some oid =>
      exists s' evs, rc_dec s a = Some (s', evs) /\
        (forall b, b <> a -> heap s' b = heap s b /\ mem s' (LCount b) = mem s (LCount b)) /\
        if mem s (LCount a) =? 1
        then heap s' a = None /\ evs = [EvRc a false 1; EvDestroy a oid]
        else heap s' a = Some oid /\ mem s' (LCount a) = mem s (LCount a) - 1 /\ evs = [EvRc a false (mem s (LCount a))]
  end.
Proof. exact rc_dec_spec. Qed.

Theorem C02_pay_slot : forall cf s l c old w j x,
  exists e,
    exec cf s l (PS c old w j) x =
      (if mem s (LSlot w j) =? old then m_set s (LSlot w j) NONE else s, l, [e],
       if (mem s (LSlot w j) =? old) && negb (old =? 0) then NGoto (PSi c old w j) else after_slot c old w j).
Proof. exact pay_slot_step. Qed.

Theorem C02_pay_inc : forall cf s l c old w j x,
  match heap s old with
  | None => exec cf s l (PSi c old w j) x = (s, l, [], NFault (FDeadInc old))
  | Some _ => exists s', rc_inc s old = Some (s', [EvRc old true (mem s (LCount old))]) /\
              exec cf s l (PSi c old w j) x = (s', l, [EvRc old true (mem s (LCount old))], after_slot c old w j)
  end.
Proof. exact pay_inc_step. Qed.

Theorem C02_guard_drop : forall cf s l v sl x,
  exists e,
    exec cf s l (GD1 v sl) x =
      (if mem s (slot_loc sl) =? v then m_set s (slot_loc sl) NONE else s, l, [e],
       if mem s (slot_loc sl) =? v then NRet RUnit else dec_then v RUnit).
Proof. exact guard_drop_step. Qed.

Theorem C02_guard_into : forall cf s l v sl x,
  (match heap s v with
   | None => exec cf s l (GI1 v sl) x = (s, l, [], NFault (FDeadInc v))
   | Some _ => exists s', rc_inc s v = Some (s', [EvRc v true (mem s (LCount v))]) /\
               exec cf s l (GI1 v sl) x = (s', l, [EvRc v true (mem s (LCount v))], NGoto (GI2 v sl))
   end) /\
  exists e,
    exec cf s l (GI2 v sl) x =
      (if mem s (slot_loc sl) =? v then m_set s (slot_loc sl) NONE else s, l, [e],
       if mem s (slot_loc sl) =? v then NRet (ROwned v) else dec_then v (ROwned v)).
Proof. exact guard_into_step. Qed.

Print Assumptions C02_dec.
Print Assumptions C02_pay_slot.
Print Assumptions C02_pay_inc.
Print Assumptions C02_guard_drop.
Print Assumptions C02_guard_into.
