(** * C02 — exact ownership accounting: no leak, no double release, tight reclamation.

    Proved so far over ASModel (local step theorems, every shared state, every choice):
    - the destructor runs exactly at the decrement that finds the count at 1, in that very
      step (tight), and a destroyed value can never be decremented again without a fault
      ([C02_dec]);
    - a writer adds exactly one reference for every debt it removes from a slot, and removes
      a debt only if the slot holds exactly the removed pointer ([C02_pay_slot], [C02_pay_inc]);
    - a guard gives back either its debt (slot -> NONE, no count touched) or, if the debt was
      paid meanwhile, exactly one reference ([C02_guard_drop]); [Guard::into_inner] takes one
      reference and then does the same ([C02_guard_into]);
    - the storage of a container changes only by the single exchange of a writer and the
      exchanges of a run form one chain (C04).
    Beyond these step theorems (see END-TO-END below for what is now proved over all schedules): the closed equation over all schedules
      count(a) + #slots holding a = #containers storing a + #handles and frames referring to a
    (now proved: see END-TO-END below).  It is checked on every run of the correspondence: the final-state
    dump of the real crate (all strong counts, all slots, containers, live objects) must equal
    the model's, and the oracle requires every value to be destroyed exactly once, at the drop
    of its last owner, and every slot to be empty once its guard is gone. 
    END-TO-END ([ASModel.Main], all schedules, any number of threads): the theorems below hold for
    every run from an initial configuration that satisfies [RunOK]: initial values are null or
    valid addresses; no program calls the verification hook [set_generation] or uses Cache; in
    every state of the run no generation counter is within 4 of wrapping ([GenBound]: a wrap needs
    2^62 fallback loads of one thread; the wrap itself is C13), a command's destination handle is
    empty and the source of a running clone is not dropped (conditions on the TEST PROGRAM, met by
    every generated program: the model driver checks them on every run and the evidence counts the
    runs inside this scope); the allocator hands out addresses that are not live, not null and not
    the empty-slot marker.  The proof is an inductive invariant [Master] made of: node ownership
    and per-program-point assertions (WF2), reservation counting and generation uniqueness
    (GenInv), envelope exclusivity (EnvInv), exact accounting (AccInv), slot coverage (ProtInv'),
    stack typing, and "no thread has faulted", each preserved by every step ([step_Master]).
    [C02_accounting]: in every state of every such run, for every value address a:
      count(a) + #slots holding a + #increments a writer still owes
        = #containers storing a + #hand-over envelopes holding a + #handles + #frame references;
    [C02_quiescent_counts]: when no operation is in progress the count equals containers + handles
    minus the debts still in slots; [C02_no_owner_destroyed]: a value nobody owns has count 0, is
    destroyed, and no slot holds it (no leak, no slot left occupied).

    RUN LENGTH INSTEAD OF [GenBound] ([ASModel.GenLen]): without the [set_generation] hook a generation
    counter grows by at most 4 per step from 0, so for every run of fewer than 2^62 steps [GenBound]
    holds in every state by itself; [RunOKLen] is [RunOK] with that hypothesis replaced by the bound
    on the length of the schedule, and the theorem holds for it as well ([..._len] below).
*)
From ASModel Require Import Base State Orderings_gen Step Run Progress Hist Local Inv InvTl InvProto InvStep Sum StepCases.
From ASModel Require Import GenDefs Gen1 Gen2 Gen EnvDefs Env4 Env AccDefs Acc1 Acc2 Acc3 Acc4 Acc5 Acc6 Acc7 Acc.
From ASModel Require Import ProtDefs Prot1 Prot11 Prot16 Prot Typed LinDefs Lin2 Lin Safe1 Safe2 Safe7 Safe8 Safe Main GenLen ProgWF1 ProgWF.
From ASModel Require Import Stale StaleInv.
From ASModel Require Import Stale2 Stale2Inv.
From ASModel Require Import Stale2S.

Theorem C02_dec : forall s a,
  match heap s a with
  | None => rc_dec s a = None
  | Some oid =>
      exists s' evs, rc_dec s a = Some (s', evs) /\
        (forall b, b <> a -> heap s' b = heap s b /\ mem s' (LCount b) = mem s (LCount b)) /\
        if mem s (LCount a) =? 1
        then heap s' a = None /\ evs = [EvRc a false 1; EvDestroy a oid]
        else heap s' a = Some oid /\ mem s' (LCount a) = mem s (LCount a) - 1 /\ evs = [EvRc a false (mem s (LCount a))]
  end.
Proof. exact rc_dec_spec. Qed.

Theorem C02_pay_slot : forall cf s l c old w j x,
  exists e,
    exec cf s l (PS c old w j) x =
      (if mem s (LSlot w j) =? old then m_set s (LSlot w j) NONE else s, l, [e],
       if (mem s (LSlot w j) =? old) && negb (old =? 0) then NGoto (PSi c old w j) else after_slot c old w j).
Proof. exact pay_slot_step. Qed.

Theorem C02_pay_inc : forall cf s l c old w j x,
  match heap s old with
  | None => exec cf s l (PSi c old w j) x = (s, l, [], NFault (FDeadInc old))
  | Some _ => exists s', rc_inc s old = Some (s', [EvRc old true (mem s (LCount old))]) /\
              exec cf s l (PSi c old w j) x = (s', l, [EvRc old true (mem s (LCount old))], after_slot c old w j)
  end.
Proof. exact pay_inc_step. Qed.

Theorem C02_guard_drop : forall cf s l v sl x,
  exists e,
    exec cf s l (GD1 v sl) x =
      (if mem s (slot_loc sl) =? v then m_set s (slot_loc sl) NONE else s, l, [e],
       if mem s (slot_loc sl) =? v then NRet RUnit else dec_then v RUnit).
Proof. exact guard_drop_step. Qed.

Theorem C02_guard_into : forall cf s l v sl x,
  (match heap s v with
   | None => exec cf s l (GI1 v sl) x = (s, l, [], NFault (FDeadInc v))
   | Some _ => exists s', rc_inc s v = Some (s', [EvRc v true (mem s (LCount v))]) /\
               exec cf s l (GI1 v sl) x = (s', l, [EvRc v true (mem s (LCount v))], NGoto (GI2 v sl))
   end) /\
  exists e,
    exec cf s l (GI2 v sl) x =
      (if mem s (slot_loc sl) =? v then m_set s (slot_loc sl) NONE else s, l, [e],
       if mem s (slot_loc sl) =? v then NRet (ROwned v) else dec_then v (ROwned v)).
Proof. exact guard_into_step. Qed.

Theorem C02_accounting : forall cf inits progs sched,
  RunOK cf inits progs sched -> Acc (run_state cf (init_state inits progs) sched).
Proof. exact Main.C02_accounting. Qed.

Theorem C02_quiescent_counts : forall cf inits progs sched a,
  RunOK cf inits progs sched ->
  let s := run_state cf (init_state inits progs) sched in
  Quiescent s -> valid a ->
  exists nS nC nH,
    Total (fun ij : N * N => is a (mem (sh s) (LSlot (fst ij) (snd ij)))) nS /\
    Total (fun c : N => is a (mem (sh s) (LStore c))) nC /\
    Total (fun h : N => href a (hnd s h)) nH /\
    mem (sh s) (LCount a) + nS = nC + nH.
Proof. exact Main.C02_quiescent_counts. Qed.

Theorem C02_no_owner_destroyed : forall cf inits progs sched a,
  RunOK cf inits progs sched ->
  let s := run_state cf (init_state inits progs) sched in
  Quiescent s -> valid a ->
  (forall c, mem (sh s) (LStore c) <> a) -> (forall h, href a (hnd s h) = 0) ->
  mem (sh s) (LCount a) = 0 /\ heap (sh s) a = None /\ forall n j, mem (sh s) (LSlot n j) <> a.
Proof. exact Main.C02_no_owner_destroyed. Qed.

Theorem C02_accounting_step : forall cf s t x,
  WF2 s -> Quiet s -> EnvFree s -> EnvA s -> ProgHyp s -> AccInv s ->
  NoFault (fst (step cf s t x)) -> AccInv (fst (step cf s t x)).
Proof. exact step_AccInv. Qed.

Theorem C02_accounting_len : forall cf inits progs sched,
  RunOKLen cf inits progs sched -> Acc (run_state cf (init_state inits progs) sched).
Proof. exact GenLen.C02_accounting_len. Qed.

Theorem C02_accounting_static : forall cf inits progs sched,
  RunStatic cf inits progs sched -> Acc (run_state cf (init_state inits progs) sched).
Proof. exact ProgWF.C02_accounting_static. Qed.

Print Assumptions C02_dec.
Print Assumptions C02_pay_slot.
Print Assumptions C02_pay_inc.
Print Assumptions C02_guard_drop.
Print Assumptions C02_guard_into.
Print Assumptions C02_accounting.
Print Assumptions C02_quiescent_counts.
Print Assumptions C02_no_owner_destroyed.
Print Assumptions C02_accounting_step.
Print Assumptions C02_accounting_len.
Print Assumptions C02_accounting_static.

(** ** With stale first reads of the fast path ([Stale.step_stale], see Props/C01.v). *)
Theorem C02_accounting_stale cf inits progs sched :
  RunOKS cf inits progs sched -> Acc (run_state_stale cf (init_state inits progs) sched).
Proof. exact (StaleInv6.C02_accounting_stale cf inits progs sched). Qed.

Theorem C02_no_owner_destroyed_stale cf inits progs sched a :
  RunOKS cf inits progs sched ->
  let s := run_state_stale cf (init_state inits progs) sched in
  Quiescent s -> valid a ->
  (forall c, mem (sh s) (LStore c) <> a) -> (forall h, href a (hnd s h) = 0) ->
  mem (sh s) (LCount a) = 0 /\ heap (sh s) a = None /\ forall n j, mem (sh s) (LSlot n j) <> a.
Proof. exact (StaleInv6.C02_no_owner_destroyed_stale cf inits progs sched a). Qed.

Print Assumptions C02_accounting_stale.
Print Assumptions C02_no_owner_destroyed_stale.

(** ** With all four stale loads of [Stale2.step_stale2] (see Props/C01.v). *)
Theorem C02_accounting_stale2 cf inits progs sched :
  RunOKS2 cf inits progs sched -> Acc (run_state_stale2 cf (init_state inits progs) sched).
Proof. exact (Stale2Inv8.C02_accounting_stale2 cf inits progs sched). Qed.

Theorem C02_no_owner_destroyed_stale2 cf inits progs sched a :
  RunOKS2 cf inits progs sched ->
  let s := run_state_stale2 cf (init_state inits progs) sched in
  Quiescent s -> valid a ->
  (forall c, mem (sh s) (LStore c) <> a) -> (forall h, href a (hnd s h) = 0) ->
  mem (sh s) (LCount a) = 0 /\ heap (sh s) a = None /\ forall n j, mem (sh s) (LSlot n j) <> a.
Proof. exact (Stale2Inv8.C02_no_owner_destroyed_stale2 cf inits progs sched a). Qed.

Print Assumptions C02_accounting_stale2.
Print Assumptions C02_no_owner_destroyed_stale2.

Theorem C02_accounting_stale2_static cf inits progs sched :
  RunStaticS2 cf inits progs sched -> Acc (run_state_stale2 cf (init_state inits progs) sched).
Proof. exact (Stale2S4.C02_accounting_stale2_static cf inits progs sched). Qed.

Print Assumptions C02_accounting_stale2_static.
