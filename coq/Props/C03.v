(** * C03 — loads are linearizable: the container behaves as one atomic pointer cell.

    Proved so far over ASModel:
    - writes: the storage of a container changes only by the single swap / successful
      compare-exchange of a writer, and over every run these writes form ONE chain in which each
      write replaces exactly what its predecessor wrote ([C04_writes_form_chain], all schedules);
    - fast path: the value of the guard equals the content of the storage at the confirming
      read, an instant inside the call ([C03_fast_confirm]); otherwise no guard is produced;
    - fallback, not helped: the value is the content of the storage at the candidate read that
      follows the publication of the request ([C03_fallback_candidate]) and is kept only if the
      control word still carries the request's generation ([C03_fallback_confirm]);
    - fallback, helped: the value comes from the envelope named by the control word, which a
      writer fills with a [load_full] of the storage whose address the reader announced
      ([C12_help_only_matching_storage]).
    NOT yet proved (partial): that the helper's nested load lies inside the reader's call
    (uniqueness of generations within a node's ownership epoch - the argument that uncovered
    defect D8) and the real-time / per-thread monotonicity clauses as theorems over histories.
    These are checked on every run by the history oracle of the correspondence (every returned
    identity must have been the stored value of THAT container at some instant between call
    and return; loads after a completed write see it or a later one; per-thread monotonic). *)
From ASModel Require Import Base State Orderings_gen Step Run Progress Hist Local.

Theorem C03_fast_confirm : forall cf s l c v j x,
  let n := own_node l in
  exists e,
    if mem s (LStore c) =? v
    then exec cf s l (LA4 c v j) x = (s, fst (with_exit l (RGuard v (Some (n, j)))), [e], snd (with_exit l (RGuard v (Some (n, j)))))
    else exec cf s l (LA4 c v j) x = (s, l, [e], NGoto (LA5 c v j)).
Proof. exact fast_confirm_step. Qed.

Theorem C03_exit_returns_value : forall l r,
  match snd (with_exit l r) with NRet r' => r' = r | NPush _ (WExit r') => r' = r | _ => False end.
Proof. exact with_exit_value. Qed.

Theorem C03_fallback_candidate : forall cf s l c gt x n0,
  tl_node l = Some n0 ->
  exists e, exec cf s l (LH3 c gt) x =
            (s, l, [e], if cf_debug cf then NGoto (LH3d c gt (mem s (LStore c))) else NGoto (LH4 c gt (mem s (LStore c)))).
Proof. exact fallback_candidate_step. Qed.

Theorem C03_fallback_confirm : forall cf s l c gt v x s' l' evs nx,
  exec cf s l (LH5 c gt v) x = (s', l', evs, nx) ->
  mem s' (LCtrl (own_node l)) = IDLE /\
  if mem s (LCtrl (own_node l)) =? gt then nx = (if v =? 0 then NGoto (LH6b v) else NGoto (LH6a v))
  else (exists ps, nx = NPanic ps) \/
       nx = NGoto (LH7 v (env_of (mem s (LCtrl (own_node l)) - N.land (mem s (LCtrl (own_node l))) TAG_MASK))).
Proof. exact fallback_confirm_step. Qed.

Theorem C03_writes_form_chain : forall cf c sched s,
  never_consumed c s ->
  chain (mem (sh s) (LStore c)) (writes_of_trace c (snd (run cf s sched)))
        (mem (sh (fst (run cf s sched))) (LStore c)).
Proof. exact store_chain. Qed.

Print Assumptions C03_fast_confirm.
Print Assumptions C03_exit_returns_value.
Print Assumptions C03_fallback_candidate.
Print Assumptions C03_fallback_confirm.
Print Assumptions C03_writes_form_chain.
