(** * C03 — loads are linearizable: the container behaves as one atomic pointer cell.

    Proved so far over ASModel:
    - writes: the storage of a container changes only by the single swap / successful
      compare-exchange of a writer, and over every run these writes form ONE chain in which each
      write replaces exactly what its predecessor wrote ([C04_writes_form_chain], all schedules);
    - fast path: the value of the guard equals the content of the storage at the confirming
      read, an instant inside the call ([C03_fast_confirm]); otherwise no guard is produced;
    - fallback, not helped: the value is the content of the storage at the candidate read that
      follows the publication of the request ([C03_fallback_candidate]) and is kept only if the
      control word still carries the request's generation ([C03_fallback_confirm]);
    - fallback, helped: the value comes from the envelope named by the control word, which a
      writer fills with a [load_full] of the storage whose address the reader announced
      ([C12_help_only_matching_storage]).
    Beyond these step theorems (see END-TO-END below for what is now proved over all schedules): that the helper's nested load lies inside the reader's call
    (uniqueness of generations within a node's ownership epoch - the argument that uncovered
    defect D8) and the real-time / per-thread monotonicity clauses as theorems over histories.
    These are checked on every run by the history oracle of the correspondence (every returned
    identity must have been the stored value of THAT container at some instant between call
    and return; loads after a completed write see it or a later one; per-thread monotonic). 
    END-TO-END ([ASModel.Main], all schedules, any number of threads): the theorems below hold for
    every run from an initial configuration that satisfies [RunOK]: initial values are null or
    valid addresses; no program calls the verification hook [set_generation] or uses Cache; in
    every state of the run no generation counter is within 4 of wrapping ([GenBound]: a wrap needs
    2^62 fallback loads of one thread; the wrap itself is C13), a command's destination handle is
    empty and the source of a running clone is not dropped (conditions on the TEST PROGRAM, met by
    every generated program: the model driver checks them on every run and the evidence counts the
    runs inside this scope); the allocator hands out addresses that are not live, not null and not
    the empty-slot marker.
    [C03_load_linearizable]: command number i of thread t is load / load_full of container c; it
    starts with the step at position pa of the schedule and completes with the step at position pb:
    then the handle holds a value v that container c stored in one of the states between the call
    and the return - on the fast path (the confirming read), the unhelped fallback (the candidate
    read after the request was published) and the helped fallback (the helper loaded the value
    after it read the request's generation, which is unique within the time it stays in the node:
    [GenInv]; the envelope is not overwritten before the reader takes it: [EnvInv]).  With the
    write chain ([C03_writes_form_chain]) this gives the real-time and per-thread monotonicity
    clauses: the instant k lies after every write completed before the call and before the call
    of every later load of the same thread.

    RUN LENGTH INSTEAD OF [GenBound] ([ASModel.GenLen]): without the [set_generation] hook a generation
    counter grows by at most 4 per step from 0, so for every run of fewer than 2^62 steps [GenBound]
    holds in every state by itself; [RunOKLen] is [RunOK] with that hypothesis replaced by the bound
    on the length of the schedule, and the theorem holds for it as well ([..._len] below).
*)
From ASModel Require Import Base State Orderings_gen Step Run Progress Hist Local Inv InvTl InvProto InvStep Sum StepCases.
From ASModel Require Import GenDefs Gen1 Gen2 Gen EnvDefs Env4 Env AccDefs Acc1 Acc2 Acc3 Acc4 Acc5 Acc6 Acc7 Acc.
From ASModel Require Import ProtDefs Prot1 Prot11 Prot16 Prot Typed LinDefs Lin2 Lin Safe1 Safe2 Safe7 Safe8 Safe Main GenLen.
From ASModel Require Import Stale StaleInv.
From ASModel Require Import Stale2 Stale2Inv.

Theorem C03_fast_confirm : forall cf s l c v j x,
  let n := own_node l in
  exists e,
    if mem s (LStore c) =? v
    then exec cf s l (LA4 c v j) x = (s, fst (with_exit l (RGuard v (Some (n, j)))), [e], snd (with_exit l (RGuard v (Some (n, j)))))
    else exec cf s l (LA4 c v j) x = (s, l, [e], NGoto (LA5 c v j)).
Proof. exact fast_confirm_step. Qed.

Theorem C03_exit_returns_value : forall l r,
  match snd (with_exit l r) with NRet r' => r' = r | NPush _ (WExit r') => r' = r | _ => False end.
Proof. exact with_exit_value. Qed.

Theorem C03_fallback_candidate : forall cf s l c gt x n0,
  tl_node l = Some n0 ->
  exists e, exec cf s l (LH3 c gt) x =
            (s, l, [e], if cf_debug cf then NGoto (LH3d c gt (mem s (LStore c))) else NGoto (LH4 c gt (mem s (LStore c)))).
Proof. exact fallback_candidate_step. Qed.

Theorem C03_fallback_confirm : forall cf s l c gt v x s' l' evs nx,
  exec cf s l (LH5 c gt v) x = (s', l', evs, nx) ->
  mem s' (LCtrl (own_node l)) = IDLE /\
  if mem s (LCtrl (own_node l)) =? gt then nx = (if v =? 0 then NGoto (LH6b v) else NGoto (LH6a v))
  else (exists ps, nx = NPanic ps) \/
       nx = NGoto (LH7 v (env_of (mem s (LCtrl (own_node l)) - N.land (mem s (LCtrl (own_node l))) TAG_MASK))).
Proof. exact fallback_confirm_step. Qed.

Theorem C03_writes_form_chain : forall cf c sched s,
  never_consumed c s ->
  chain (mem (sh s) (LStore c)) (writes_of_trace c (snd (run cf s sched)))
        (mem (sh (fst (run cf s sched))) (LStore c)).
Proof. exact store_chain. Qed.

Theorem C03_load_linearizable :
  forall cf inits progs sched, RunOK cf inits progs sched ->
  forall t i cm c h pa pb xa tb xb,
  let s0 := init_state inits progs in
  nth_error (t_prog (thr s0 t)) (N.to_nat i) = Some cm -> is_load_of cm c h ->
  (pa <= pb)%nat ->
  nth_error sched pa = Some (t, xa) ->
  t_status (thr (St cf s0 sched pa) t) = Running -> t_stack (thr (St cf s0 sched pa) t) = [] ->
  t_cmdi (thr (St cf s0 sched pa) t) = i ->
  nth_error sched pb = Some (tb, xb) ->
  t_cmdi (thr (St cf s0 sched pb) t) = i -> t_cmdi (thr (St cf s0 sched (S pb)) t) = i + 1 ->
  exists v, (match cm with
             | CLoad _ _ => exists d, hnd (St cf s0 sched (S pb)) h = HGuard v d
             | _ => hnd (St cf s0 sched (S pb)) h = HOwned v
             end) /\
    exists k, (pa + 1 <= k <= pb + 1)%nat /\ mem (sh (St cf s0 sched k)) (LStore c) = v.
Proof. intros cf inits progs sched R. exact (Main.C03_load_linearizable cf inits progs sched R). Qed.

Theorem C03_generation_unique : forall cf inits progs sched,
  (forall p, In p progs -> forall g, ~ In (CSetGen g) p) ->
  (forall k, GenBound (run_state cf (init_state inits progs) (firstn k sched))) ->
  NoFault (run_state cf (init_state inits progs) sched) ->
  GenInvQ (run_state cf (init_state inits progs) sched).
Proof. exact run_GenInv_bound. Qed.

Theorem C03_load_linearizable_len : forall cf inits progs sched,
  RunOKLen cf inits progs sched ->
  let s0 := init_state inits progs in
  forall t i cm c h pa pb xa tb xb,
  nth_error (t_prog (thr s0 t)) (N.to_nat i) = Some cm -> is_load_of cm c h ->
  (pa <= pb)%nat ->
  nth_error sched pa = Some (t, xa) ->
  t_status (thr (St cf s0 sched pa) t) = Running -> t_stack (thr (St cf s0 sched pa) t) = [] ->
  t_cmdi (thr (St cf s0 sched pa) t) = i ->
  nth_error sched pb = Some (tb, xb) ->
  t_cmdi (thr (St cf s0 sched pb) t) = i -> t_cmdi (thr (St cf s0 sched (S pb)) t) = i + 1 ->
  exists v, (match cm with
             | CLoad _ _ => exists d, hnd (St cf s0 sched (S pb)) h = HGuard v d
             | _ => hnd (St cf s0 sched (S pb)) h = HOwned v
             end) /\
    exists k, (pa + 1 <= k <= pb + 1)%nat /\ mem (sh (St cf s0 sched k)) (LStore c) = v.
Proof. exact GenLen.C03_load_linearizable_len. Qed.

Print Assumptions C03_fast_confirm.
Print Assumptions C03_exit_returns_value.
Print Assumptions C03_fallback_candidate.
Print Assumptions C03_fallback_confirm.
Print Assumptions C03_writes_form_chain.
Print Assumptions C03_load_linearizable.
Print Assumptions C03_generation_unique.
Print Assumptions C03_load_linearizable_len.

(** ** With stale first reads of the fast path ([Stale.step_stale], see Props/C01.v):
    the value a load returns is still one the container held between call and return - a stale
    first read is never what the load returns unless the confirming read saw it again. *)
Theorem C03_load_linearizable_stale cf inits progs sched :
  RunOKS cf inits progs sched ->
  let s0 := init_state inits progs in
  forall t i cm c h pa pb xa tb xb,
  nth_error (t_prog (thr s0 t)) (N.to_nat i) = Some cm -> is_load_of cm c h ->
  (pa <= pb)%nat ->
  nth_error sched pa = Some (t, xa) ->
  t_status (thr (StS cf s0 sched pa) t) = Running -> t_stack (thr (StS cf s0 sched pa) t) = [] ->
  t_cmdi (thr (StS cf s0 sched pa) t) = i ->
  nth_error sched pb = Some (tb, xb) ->
  t_cmdi (thr (StS cf s0 sched pb) t) = i -> t_cmdi (thr (StS cf s0 sched (S pb)) t) = i + 1 ->
  exists v, (match cm with
             | CLoad _ _ => exists d, hnd (StS cf s0 sched (S pb)) h = HGuard v d
             | _ => hnd (StS cf s0 sched (S pb)) h = HOwned v
             end) /\
    exists k, (pa + 1 <= k <= pb + 1)%nat /\ mem (sh (StS cf s0 sched k)) (LStore c) = v.
Proof. exact (StaleInv10.C03_load_linearizable_stale cf inits progs sched). Qed.

Print Assumptions C03_load_linearizable_stale.

(** ** With all four stale loads of [Stale2.step_stale2] (see Props/C01.v). *)
Theorem C03_load_linearizable_stale2 cf inits progs sched :
  RunOKS2 cf inits progs sched ->
  let s0 := init_state inits progs in
  forall t i cm c h pa pb xa tb xb,
  nth_error (t_prog (thr s0 t)) (N.to_nat i) = Some cm -> is_load_of cm c h ->
  (pa <= pb)%nat ->
  nth_error sched pa = Some (t, xa) ->
  t_status (thr (StS2 cf s0 sched pa) t) = Running -> t_stack (thr (StS2 cf s0 sched pa) t) = [] ->
  t_cmdi (thr (StS2 cf s0 sched pa) t) = i ->
  nth_error sched pb = Some (tb, xb) ->
  t_cmdi (thr (StS2 cf s0 sched pb) t) = i -> t_cmdi (thr (StS2 cf s0 sched (S pb)) t) = i + 1 ->
  exists v, (match cm with
             | CLoad _ _ => exists d, hnd (StS2 cf s0 sched (S pb)) h = HGuard v d
             | _ => hnd (StS2 cf s0 sched (S pb)) h = HOwned v
             end) /\
    exists k, (pa + 1 <= k <= pb + 1)%nat /\ mem (sh (StS2 cf s0 sched k)) (LStore c) = v.
Proof. exact (Stale2Inv12.C03_load_linearizable_stale2 cf inits progs sched). Qed.

Print Assumptions C03_load_linearizable_stale2.
