(** * C04 — writes to one container are totally ordered; each replaced value is handed back.

    Proved here (for every schedule, any number of threads and containers, both read paths
    running concurrently — they never write the storage):
    - the storage of a container is changed only by successful read-modify-write events
      (swap / compare_exchange), one per step, whose [old] is the previous content;
    - over a whole run the writes of a container form one chain: each write replaces exactly
      what its predecessor wrote (a single total order, nothing lost or invented);
    - the [swap] frame hands back exactly the value its own exchange replaced.
    NOT yet proved at full strength (statement kept visible): "each value put into the
    container comes out exactly once ... the returned handle owns a full reference" needs the
    ownership accounting invariant (C02); the chain theorem gives the "exactly once as the
    [old] of its successor" half. 
    "Handed back exactly once, owning a full reference" over all schedules ([ASModel.Main], runs within
    [RunOK]): the removed value is carried by the frame [WSwap old] / [WCasPaid old _] / [WInto old] with
    exactly one reference in the accounting table ([AccDefs.fr]) until it reaches the caller's handle;
    the count equation holds in every state ([C04_accounting]) and the value in the returned handle
    is alive ([C04_returned_value_alive]).

    RUN LEVEL ([ASModel.LinSwap], all schedules within [Main.RunOK]): [C04_swap_linearizable] - a completed
    swap(new = b) did EXACTLY ONE write to the container, that write stored b, and the call hands back
    exactly the value that write replaced; [C04_store_linearizable] - the same for store, whose last
    step is the release of exactly that value; with [one_write_chain] every such write is a link of the
    container's single chain, so each replaced value is taken out by exactly one call.
*)
From ASModel Require Import Base State Orderings_gen Step Run Progress Hist.
From Seq Require Import HB.
From ASModel Require Import Inv InvTl InvProto InvStep Sum StepCases GenDefs Gen1 Gen2 Gen EnvDefs Env4 Env AccDefs Acc1 Acc2 Acc3 Acc4 Acc5 Acc6 Acc7 Acc.
From ASModel Require Import ProtDefs Prot1 Prot11 Prot16 Prot Typed LinDefs Lin2 Lin Safe1 Safe2 Safe7 Safe8 Safe Main.
From ASModel Require Import LinCas5 LinCas LinSwap1 LinSwap2 LinSwap3 LinSwap4 LinSwap LinSwapMain.
From ASModel Require Import Stale2 Stale2Inv Stale2W.

Theorem C04_only_rmw_writes :
  forall cf s t x c,
    store_effect c (mem (sh s)) (mem (sh (fst (step cf s t x)))) (snd (step cf s t x))
    \/ consumes_now s t c.
Proof. exact step_store_effect. Qed.

Theorem C04_writes_form_chain :
  forall cf c sched s,
    never_consumed c s ->
    chain (mem (sh s) (LStore c)) (writes_of_trace c (snd (run cf s sched)))
          (mem (sh (fst (run cf s sched))) (LStore c)).
Proof. exact store_chain. Qed.

Theorem C04_swap_hands_back_replaced :
  forall cf s l c new x,
  exists l' frames,
    exec cf s l (S1 c new) x =
      (m_set s (LStore c) new, l',
       [EvAcc (LStore c) OSwap (fst o_lib_swap) (snd o_lib_swap) (mem s (LStore c)) new true],
       NPush frames (WSwap (mem s (LStore c))))
    /\ forall cf' l'' v, resume cf' l'' (WSwap (mem s (LStore c))) v = (l'', NRet (ROwned (mem s (LStore c)))).
Proof. exact swap_step. Qed.


(** "Owns a full reference": the writer that takes a value out must see everything the
    writer that put it in did before (the value's initialisation, its count): the exchange that
    removes the value acquires what the exchange that stored it released.  The side condition
    is computed from the orderings the code requests NOW ([Orderings_gen] is regenerated from
    /repo/src on every run): weakening the swap or the compare-exchange breaks these proofs. *)
Theorem C04_handover_swap_swap :
  forall X c init W1 W2 deref,
    hbeq X init W1 -> kindof X W1 = k_swap (LStore c) o_lib_swap ->
    kindof X W2 = k_swap (LStore c) o_lib_swap -> rf X W1 W2 -> hbeq X W2 deref ->
    hb X init deref.
Proof. exact (path_returned_previous o_lib_swap o_lib_swap eq_refl). Qed.

Theorem C04_handover_cas_swap :
  forall X c init W1 W2 deref,
    hbeq X init W1 -> kindof X W1 = k_cas_ok (LStore c) o_cas_exchange ->
    kindof X W2 = k_swap (LStore c) o_lib_swap -> rf X W1 W2 -> hbeq X W2 deref ->
    hb X init deref.
Proof. exact (path_returned_previous o_cas_exchange o_lib_swap eq_refl). Qed.

Theorem C04_handover_swap_cas :
  forall X c init W1 W2 deref,
    hbeq X init W1 -> kindof X W1 = k_swap (LStore c) o_lib_swap ->
    kindof X W2 = k_swap (LStore c) o_cas_exchange -> rf X W1 W2 -> hbeq X W2 deref ->
    hb X init deref.
Proof. exact (path_returned_previous o_lib_swap o_cas_exchange eq_refl). Qed.

Theorem C04_handover_cas_cas :
  forall X c init W1 W2 deref,
    hbeq X init W1 -> kindof X W1 = k_cas_ok (LStore c) o_cas_exchange ->
    kindof X W2 = k_swap (LStore c) o_cas_exchange -> rf X W1 W2 -> hbeq X W2 deref ->
    hb X init deref.
Proof. exact (path_returned_previous o_cas_exchange o_cas_exchange eq_refl). Qed.

(** Non-vacuity: two threads swapping concurrently; the trace has two writes forming a chain
    from the initial value. *)
Definition ex_cf := mkConfig true true.
Definition ex_s0 := init_state [4096] [[CNew 1; CSwap 0 (SHandle 1) 2]; [CNew 3; CSwap 0 (SHandle 3) 4]].
Definition ex_sched : list (N * N) :=
  [(0,0);(0,4112);(1,0);(1,4128);(0,0);(1,0);(0,0);(1,0)].
Example C04_example :
  map (fun w => (snd (fst w), snd w)) (writes_of_trace 0 (snd (run ex_cf ex_s0 ex_sched)))
  = [(4096, 4112); (4112, 4128)].
Proof. vm_compute. reflexivity. Qed.

Theorem C04_accounting : forall cf inits progs sched,
  RunOK cf inits progs sched -> Acc (run_state cf (init_state inits progs) sched).
Proof. exact Main.C02_accounting. Qed.

Theorem C04_returned_value_alive : forall s h a,
  Master s -> (hnd s h = HOwned a \/ exists d, hnd s h = HGuard a d) -> valid a ->
  heap (sh s) a <> None.
Proof. exact Main.C10_guard_keeps_value. Qed.

Theorem C04_swap_linearizable : forall cf inits progs sched t i c v h2 b pa pb xa tb xb,
  let s0 := init_state inits progs in
  let St := fun k => run_state cf s0 (firstn k sched) in
  RunOK cf inits progs sched ->
  (forall p, In p progs -> forall g, ~ In (CSetGen g) p) ->
  nth_error (t_prog (thr s0 t)) (N.to_nat i) = Some (CSwap c v h2) ->
  (pa <= pb)%nat ->
  nth_error sched pa = Some (t, xa) ->
  t_status (thr (St pa) t) = Running -> t_stack (thr (St pa) t) = [] -> t_cmdi (thr (St pa) t) = i ->
  cmd_enabled (St pa) (CSwap c v h2) = true ->
  src_val (St pa) v = Some b ->
  nth_error sched pb = Some (tb, xb) ->
  t_cmdi (thr (St pb) t) = i -> t_cmdi (thr (St (S pb)) t) = i + 1 ->
  exists old j, hnd (St (S pb)) h2 = HOwned old /\ one_write cf s0 sched t c old b pa pb j.
Proof. exact swap_linearizable_runok. Qed.

Theorem C04_store_linearizable : forall cf inits progs sched t i c v b pa pb xa tb xb,
  let s0 := init_state inits progs in
  let St := fun k => run_state cf s0 (firstn k sched) in
  RunOK cf inits progs sched ->
  (forall p, In p progs -> forall g, ~ In (CSetGen g) p) ->
  nth_error (t_prog (thr s0 t)) (N.to_nat i) = Some (CStore c v) ->
  (pa <= pb)%nat ->
  nth_error sched pa = Some (t, xa) ->
  t_status (thr (St pa) t) = Running -> t_stack (thr (St pa) t) = [] -> t_cmdi (thr (St pa) t) = i ->
  cmd_enabled (St pa) (CStore c v) = true ->
  src_val (St pa) v = Some b ->
  nth_error sched pb = Some (tb, xb) ->
  t_cmdi (thr (St pb) t) = i -> t_cmdi (thr (St (S pb)) t) = i + 1 ->
  tb = t /\ exists old j, one_write cf s0 sched t c old b pa pb j /\ released_once cf s0 sched t old pa pb j xb.
Proof. exact store_linearizable_runok. Qed.

Print Assumptions C04_only_rmw_writes.
Print Assumptions C04_writes_form_chain.
Print Assumptions C04_swap_hands_back_replaced.
Print Assumptions C04_example.
Print Assumptions C04_handover_swap_swap.
Print Assumptions C04_handover_cas_swap.
Print Assumptions C04_handover_swap_cas.
Print Assumptions C04_handover_cas_cas.
Print Assumptions C04_accounting.
Print Assumptions C04_returned_value_alive.
Print Assumptions C04_swap_linearizable.
Print Assumptions C04_store_linearizable.

(** ** With the four weakened loads of [Stale2.step_stale2] (see Props/C01.v): the loads that
    compare_and_swap and rcu perform take the same fast path, whose first read and slot scan may be
    stale; [one_write_s2], [no_write_s2], ... are the run notions of the original theorems over
    [step_stale2]. *)
Theorem C04_swap_linearizable_stale2 :
  forall cf inits progs sched t i c v h2 b pa pb xa tb xb,
    let s0 := init_state inits progs in
    let St := fun k => StS2 cf s0 sched k in
    RunOKS2 cf inits progs sched ->
    nth_error (t_prog (thr s0 t)) (N.to_nat i) = Some (CSwap c v h2) ->
    (pa <= pb)%nat ->
    nth_error sched pa = Some (t, xa) ->
    t_status (thr (St pa) t) = Running -> t_stack (thr (St pa) t) = [] -> t_cmdi (thr (St pa) t) = i ->
    cmd_enabled (St pa) (CSwap c v h2) = true ->
    src_val (St pa) v = Some b ->
    nth_error sched pb = Some (tb, xb) ->
    t_cmdi (thr (St pb) t) = i -> t_cmdi (thr (St (S pb)) t) = i + 1 ->
    exists old j, hnd (St (S pb)) h2 = HOwned old /\ one_write_s2 cf s0 sched t c old b pa pb j.
Proof. exact swap_linearizable_stale2. Qed.

Theorem C04_store_linearizable_stale2 :
  forall cf inits progs sched t i c v b pa pb xa tb xb,
    let s0 := init_state inits progs in
    let St := fun k => StS2 cf s0 sched k in
    RunOKS2 cf inits progs sched ->
    nth_error (t_prog (thr s0 t)) (N.to_nat i) = Some (CStore c v) ->
    (pa <= pb)%nat ->
    nth_error sched pa = Some (t, xa) ->
    t_status (thr (St pa) t) = Running -> t_stack (thr (St pa) t) = [] -> t_cmdi (thr (St pa) t) = i ->
    cmd_enabled (St pa) (CStore c v) = true ->
    src_val (St pa) v = Some b ->
    nth_error sched pb = Some (tb, xb) ->
    t_cmdi (thr (St pb) t) = i -> t_cmdi (thr (St (S pb)) t) = i + 1 ->
    tb = t /\ exists old j, one_write_s2 cf s0 sched t c old b pa pb j /\ released_once_s2 cf s0 sched t old pa pb j xb.
Proof. exact store_linearizable_stale2. Qed.

Theorem C04_every_removed_value_returned_stale2 :
  forall cf inits progs sched c t old new,
    let s0 := init_state inits progs in
    let St := fun k => StS2 cf s0 sched k in
    RunOKS2 cf inits progs sched ->
    In (t, old, new) (writes_of_trace c (snd (run_stale2 cf s0 sched))) ->
    exists j x, nth_error sched j = Some (t, x) /\
      In (old, new) (writes_in c (snd (step_stale2 cf (St j) t x))) /\
      forall i v h2 b pa pb, swap_call_s2 cf s0 sched t i c v h2 b pa pb -> (pa <= j <= pb)%nat ->
        new = b /\ hnd (St (S pb)) h2 = HOwned old.
Proof. exact every_removed_value_returned_stale2. Qed.

Print Assumptions C04_swap_linearizable_stale2.
Print Assumptions C04_store_linearizable_stale2.
Print Assumptions C04_every_removed_value_returned_stale2.
