(** * C05 — compare_and_swap replaces iff the stored pointer equals [current].

    Proved (local step theorems over ASModel, all states, all choices incl. spurious
    failure of the weak exchange):
    - the exchange step writes iff the stored pointer equals [cur] at that very step (its
      linearization point) and then stores exactly [new]; otherwise storage and every count
      are untouched by the step;
    - the exchange is reached only when the internally loaded pointer equals [cur]; otherwise
      the call returns the loaded guard and [new] loses exactly the one reference passed in;
    - on success the result is a guard on [cur] itself, so pointer equality of the result with
      [cur] decides success;
    - with C04_writes_form_chain: the write, if any, is one link [cur -> new] of the chain.
    All accepted forms of [current] reach the strategy as one raw pointer ([AsRaw::as_raw]);
    that they coincide is checked by the sequential differential run (C14/C15), not here.
     
    A-B-A ([Alive], all schedules within [Main.RunOK]): while the exchange frame of compare_and_swap
    exists, the value it compares against is the guarded one ([p = cur]), that value is alive, and
    across every step of any thread the object at that address stays the SAME object (it is not
    destroyed, so its address cannot be reused): address equality is identity equality
    ([C05_no_aba]).

    RUN LEVEL ([ASModel.LinCas], all schedules within [Main.RunOK]): [C05_cas_linearizable] - a completed
    compare_and_swap(current = a, new = b) leaves a guard on some p; if p <> a (reported failure) then p
    was the content of the container in one of the states between call and return and NO step of the
    call wrote the container; if p = a (reported success) then EXACTLY ONE step of the call wrote it,
    and that write replaced exactly a by b (with [one_write_chain]: one link of the container's chain).
*)
From ASModel Require Import Base State Orderings_gen Step Run Progress Hist Inv InvTl InvProto InvStep Sum StepCases.
From ASModel Require Import GenDefs Gen1 Gen2 Gen EnvDefs Env4 Env AccDefs Acc1 Acc2 Acc3 Acc4 Acc5 Acc6 Acc7 Acc.
From ASModel Require Import ProtDefs Prot1 Prot11 Prot16 Prot Typed LinDefs Lin2 Lin Safe1 Safe2 Safe7 Safe8 Safe Main Alive.
From ASModel Require Import LinCache LinCas1 LinCas2 LinCas3 LinCas4 LinCas5 LinCas6 LinCas LinCasR1 LinCasR4 LinCasRcu LinCasMain.
From ASModel Require Import Stale2 Stale2Inv Stale2W.

Theorem C05_exchange_iff :
  forall cf s l c cur new p d x s' l' evs nx,
    exec cf s l (K1 c cur new p d) x = (s', l', evs, nx) ->
    if (mem s (LStore c) =? cur) && negb (x =? 1)
    then mem s' (LStore c) = new /\ writes_in c evs = [(cur, new)] /\
         exists frames, nx = NPush frames (WCasPaid p d)
    else mem s' (LStore c) = mem s (LStore c) /\ writes_in c evs = [] /\
         (forall a, mem s' (LCount a) = mem s (LCount a)).
Proof. exact cas_exchange_step. Qed.

Theorem C05_compare_before_exchange :
  forall cf l c cur new p d,
    resume cf l (WCasLoad c cur new) (RGuard p d) =
    if p =? cur then (l, NGoto (K1 c cur new p d)) else (l, dec_then new (RGuard p d)).
Proof. exact cas_after_load. Qed.

Theorem C05_success_returns_current :
  forall cf l p d v, resume cf l (WCasPaid p d) v = (l, dec_then p (RGuard p d)).
Proof. exact cas_success_return. Qed.

Example C05_example_success :
  let s0 := init_state [4096] [[CNew 1; CCas 0 SNull (SHandle 1) 2]] in
  True.
Proof. exact I. Qed.

Theorem C05_no_aba : forall cf s t t' x c cur new p d,
  GenBound s -> ProgOK s -> alloc_ok s t' x -> Master s ->
  In (K1 c cur new p d) (t_stack (thr s t)) -> valid cur ->
  p = cur /\ heap (sh s) cur <> None /\
  (In (K1 c cur new p d) (t_stack (thr (fst (step cf s t' x)) t)) ->
   heap (sh (fst (step cf s t' x))) cur = heap (sh s) cur).
Proof. exact cas_current_identity. Qed.

Theorem C05_cas_linearizable : forall cf inits progs sched t i c cur new h2 a b pa pb xa tb xb,
  let s0 := init_state inits progs in
  let St := fun k => run_state cf s0 (firstn k sched) in
  RunOK cf inits progs sched ->
  (forall p, In p progs -> forall g, ~ In (CSetGen g) p) ->
  nth_error (t_prog (thr s0 t)) (N.to_nat i) = Some (CCas c cur new h2) ->
  (pa <= pb)%nat ->
  nth_error sched pa = Some (t, xa) ->
  t_status (thr (St pa) t) = Running -> t_stack (thr (St pa) t) = [] -> t_cmdi (thr (St pa) t) = i ->
  cmd_enabled (St pa) (CCas c cur new h2) = true ->
  src_val (St pa) cur = Some a -> src_val (St pa) new = Some b ->
  nth_error sched pb = Some (tb, xb) ->
  t_cmdi (thr (St pb) t) = i -> t_cmdi (thr (St (S pb)) t) = i + 1 ->
  exists p d, hnd (St (S pb)) h2 = HGuard p d /\
    ((p <> a /\
      (exists j, (pa + 1 <= j <= pb + 1)%nat /\ mem (sh (St j)) (LStore c) = p) /\
      no_write cf s0 sched t c pa pb)
     \/ (p = a /\ exists j, one_write cf s0 sched t c a b pa pb j)).
Proof. exact cas_linearizable_runok. Qed.

Print Assumptions C05_exchange_iff.
Print Assumptions C05_compare_before_exchange.
Print Assumptions C05_success_returns_current.
Print Assumptions C05_no_aba.
Print Assumptions C05_cas_linearizable.

(** ** With the four weakened loads of [Stale2.step_stale2] (see Props/C01.v): the loads that
    compare_and_swap and rcu perform take the same fast path, whose first read and slot scan may be
    stale; [one_write_s2], [no_write_s2], ... are the run notions of the original theorems over
    [step_stale2]. *)
Theorem C05_cas_linearizable_stale2 :
  forall cf inits progs sched t i c cur new h2 a b pa pb xa tb xb,
    let s0 := init_state inits progs in
    let St := fun k => StS2 cf s0 sched k in
    RunOKS2 cf inits progs sched ->
    nth_error (t_prog (thr s0 t)) (N.to_nat i) = Some (CCas c cur new h2) ->
    (pa <= pb)%nat ->
    nth_error sched pa = Some (t, xa) ->
    t_status (thr (St pa) t) = Running -> t_stack (thr (St pa) t) = [] -> t_cmdi (thr (St pa) t) = i ->
    cmd_enabled (St pa) (CCas c cur new h2) = true ->
    src_val (St pa) cur = Some a -> src_val (St pa) new = Some b ->
    nth_error sched pb = Some (tb, xb) ->
    t_cmdi (thr (St pb) t) = i -> t_cmdi (thr (St (S pb)) t) = i + 1 ->
    exists p d, hnd (St (S pb)) h2 = HGuard p d /\
      ((p <> a /\
        (exists j, (pa + 1 <= j <= pb + 1)%nat /\ mem (sh (St j)) (LStore c) = p) /\
        no_write_s2 cf s0 sched t c pa pb)
       \/ (p = a /\ exists j, one_write_s2 cf s0 sched t c a b pa pb j)).
Proof. exact cas_linearizable_stale2. Qed.

Theorem C05_cas_current_identity_stale2 :
  forall cf s t t' x c cur new p d,
    GenBound s -> ProgOK s -> alloc_ok s t' x -> stale2_ok s t' x -> Master s ->
    In (K1 c cur new p d) (t_stack (thr s t)) -> valid cur ->
    p = cur /\ heap (sh s) cur <> None /\
    (In (K1 c cur new p d) (t_stack (thr (fst (step_stale2 cf s t' x)) t)) ->
     heap (sh (fst (step_stale2 cf s t' x))) cur = heap (sh s) cur).
Proof. exact cas_current_identity_stale2. Qed.

(** Non-vacuity: a run within [RunOKS2] in which the first read inside compare_and_swap is answered
    with a value that was never stored; the exchange still succeeds with exactly one write. *)
Theorem C05_stale2_scope_inhabited : RunOKS2 sz2_cf sz2_inits sz2_progs sz2_sched.
Proof. exact RunOKS2_example_z. Qed.

Print Assumptions C05_cas_linearizable_stale2.
Print Assumptions C05_cas_current_identity_stale2.
Print Assumptions C05_stale2_scope_inhabited.
