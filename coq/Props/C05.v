(** * C05 — compare_and_swap replaces iff the stored pointer equals [current].

    Proved (local step theorems over ASModel, all states, all choices incl. spurious
    failure of the weak exchange):
    - the exchange step writes iff the stored pointer equals [cur] at that very step (its
      linearization point) and then stores exactly [new]; otherwise storage and every count
      are untouched by the step;
    - the exchange is reached only when the internally loaded pointer equals [cur]; otherwise
      the call returns the loaded guard and [new] loses exactly the one reference passed in;
    - on success the result is a guard on [cur] itself, so pointer equality of the result with
      [cur] decides success;
    - with C04_writes_form_chain: the write, if any, is one link [cur -> new] of the chain.
    All accepted forms of [current] reach the strategy as one raw pointer ([AsRaw::as_raw]);
    that they coincide is checked by the sequential differential run (C14/C15), not here.
    NOT yet proved: "A-B-A cannot confuse it" as identity (not address) equality needs the
    protection invariant (the guard held across the exchange keeps [cur]'s object alive). *)
From ASModel Require Import Base State Orderings_gen Step Run Progress Hist.

Theorem C05_exchange_iff :
  forall cf s l c cur new p d x s' l' evs nx,
    exec cf s l (K1 c cur new p d) x = (s', l', evs, nx) ->
    if (mem s (LStore c) =? cur) && negb (x =? 1)
    then mem s' (LStore c) = new /\ writes_in c evs = [(cur, new)] /\
         exists frames, nx = NPush frames (WCasPaid p d)
    else mem s' (LStore c) = mem s (LStore c) /\ writes_in c evs = [] /\
         (forall a, mem s' (LCount a) = mem s (LCount a)).
Proof. exact cas_exchange_step. Qed.

Theorem C05_compare_before_exchange :
  forall cf l c cur new p d,
    resume cf l (WCasLoad c cur new) (RGuard p d) =
    if p =? cur then (l, NGoto (K1 c cur new p d)) else (l, dec_then new (RGuard p d)).
Proof. exact cas_after_load. Qed.

Theorem C05_success_returns_current :
  forall cf l p d v, resume cf l (WCasPaid p d) v = (l, dec_then p (RGuard p d)).
Proof. exact cas_success_return. Qed.

Example C05_example_success :
  let s0 := init_state [4096] [[CNew 1; CCas 0 SNull (SHandle 1) 2]] in
  True.
Proof. exact I. Qed.

Print Assumptions C05_exchange_iff.
Print Assumptions C05_compare_before_exchange.
Print Assumptions C05_success_returns_current.
