(** * C06 — rcu is an atomic read-modify-write.

    Proved (local step theorems over ASModel): whatever the closure does (allocate a new
    value, return null, return a clone of the current value), the exchange of an attempt is
    made against exactly the pointer [p] whose guard was passed to the closure; when the
    exchange reports another value [q], the next attempt runs against [q] (the closure's
    result of the failed attempt was released inside compare_and_swap, C05); when it reports
    [p], rcu returns the replaced value.  With C05_exchange_iff and C04_writes_form_chain the
    installed value therefore sits directly on top of [p] in the write order.
    NOT yet proved: the counting corollary (k concurrent increments add exactly k) as a
    theorem over all schedules — it needs the history/ownership invariants; it is covered by
    the correspondence runs and their oracle only. 
    The guard rcu holds on the value it read ([WRcuCas], [RAlloc], [RInc], ...) keeps that value alive
    and identical across every step of any thread ([C06_guard_keeps_identity], all schedules within
    [Main.RunOK]): the closure's input cannot be replaced by another object at the same address.

    RUN LEVEL ([ASModel.LinCasRcu], all schedules within [Main.RunOK]): [C06_rcu_linearizable] - a completed
    rcu (non-panicking closure) returns the previous value q, EXACTLY ONE step of the call wrote the
    container, that write replaced exactly q by what the closure made from q in that attempt (a fresh
    allocation / null / q itself, by mode), and failed attempts wrote nothing: rcu is one atomic
    read-modify-write on the value it returns.
*)
From ASModel Require Import Base State Orderings_gen Step Run Progress Hist Inv InvTl InvProto InvStep Sum StepCases.
From ASModel Require Import GenDefs Gen1 Gen2 Gen EnvDefs Env4 Env AccDefs Acc1 Acc2 Acc3 Acc4 Acc5 Acc6 Acc7 Acc.
From ASModel Require Import ProtDefs Prot1 Prot11 Prot16 Prot Typed LinDefs Lin2 Lin Safe1 Safe2 Safe7 Safe8 Safe Main Alive.
From ASModel Require Import LinCache LinCas1 LinCas2 LinCas3 LinCas4 LinCas5 LinCas6 LinCas LinCasR1 LinCasR4 LinCasRcu LinCasMain.
From ASModel Require Import Stale2 Stale2Inv Stale2W.

Theorem C06_first_attempt_on_loaded_value :
  forall cf l c m p d, rcu_attempt_shape c p (snd (resume cf l (WRcuLoad c m) (RGuard p d))).
Proof. exact rcu_after_load. Qed.

Theorem C06_new_value_exchanged_against_p :
  forall cf s l c m p d x s' l' evs nx,
    exec cf s l (RAlloc c m p d) x = (s', l', evs, nx) ->
    match nx with
    | NPush frames (WRcuCas c' _ p' _) => c' = c /\ p' = p /\ exists fs, frames = fs ++ [WCasLoad c p x]
    | NPanic _ | NFault _ => True
    | _ => False
    end.
Proof. exact rcu_alloc_step. Qed.

Theorem C06_retry_or_return :
  forall cf l c m p d q dq,
    let nx := snd (resume cf l (WRcuCas c m p d) (RGuard q dq)) in
    if p =? q
    then match nx with
         | NRet (ROwned q') => q' = q
         | NPush _ (WRcuInto _ _) | NPush _ (WRcuRet _) => True
         | _ => False
         end
    else (exists fs m', nx = NPush fs (WRcuNext c m' q dq)) \/ rcu_attempt_shape c q nx.
Proof. exact rcu_after_cas. Qed.

Theorem C06_guard_keeps_identity : forall cf s t t' x p v d,
  GenBound s -> ProgOK s -> alloc_ok s t' x -> Master s ->
  In p (t_stack (thr s t)) -> In p (t_stack (thr (fst (step cf s t' x)) t)) ->
  guard_frame p = Some (v, d) -> valid v ->
  heap (sh (fst (step cf s t' x))) v = heap (sh s) v /\ heap (sh s) v <> None.
Proof. exact frame_guard_identity. Qed.

Theorem C06_rcu_linearizable : forall cf inits progs sched t i c m h2 pa pb xa tb xb,
  let s0 := init_state inits progs in
  let St := fun k => run_state cf s0 (firstn k sched) in
  RunOK cf inits progs sched ->
  (forall p, In p progs -> forall g, ~ In (CSetGen g) p) ->
  nth_error (t_prog (thr s0 t)) (N.to_nat i) = Some (CRcu c m h2) -> nonpanic m = true ->
  (pa <= pb)%nat ->
  nth_error sched pa = Some (t, xa) ->
  t_status (thr (St pa) t) = Running -> t_stack (thr (St pa) t) = [] -> t_cmdi (thr (St pa) t) = i ->
  nth_error sched pb = Some (tb, xb) ->
  t_cmdi (thr (St pb) t) = i -> t_cmdi (thr (St (S pb)) t) = i + 1 ->
  exists q nw j, hnd (St (S pb)) h2 = HOwned q /\
    one_write cf s0 sched t c q nw pa pb j /\
    rcu_new (made_to cf inits progs sched t pa (S pb)) m q nw.
Proof. exact rcu_linearizable_runok. Qed.

Print Assumptions C06_first_attempt_on_loaded_value.
Print Assumptions C06_new_value_exchanged_against_p.
Print Assumptions C06_retry_or_return.
Print Assumptions C06_guard_keeps_identity.
Print Assumptions C06_rcu_linearizable.

(** ** With the four weakened loads of [Stale2.step_stale2] (see Props/C01.v): the loads that
    compare_and_swap and rcu perform take the same fast path, whose first read and slot scan may be
    stale; [one_write_s2], [no_write_s2], ... are the run notions of the original theorems over
    [step_stale2]. *)
Theorem C06_rcu_linearizable_stale2 :
  forall cf inits progs sched t i c m h2 pa pb xa tb xb,
    let s0 := init_state inits progs in
    let St := fun k => StS2 cf s0 sched k in
    RunOKS2 cf inits progs sched ->
    nth_error (t_prog (thr s0 t)) (N.to_nat i) = Some (CRcu c m h2) -> nonpanic m = true ->
    (pa <= pb)%nat ->
    nth_error sched pa = Some (t, xa) ->
    t_status (thr (St pa) t) = Running -> t_stack (thr (St pa) t) = [] -> t_cmdi (thr (St pa) t) = i ->
    nth_error sched pb = Some (tb, xb) ->
    t_cmdi (thr (St pb) t) = i -> t_cmdi (thr (St (S pb)) t) = i + 1 ->
    exists q nw j, hnd (St (S pb)) h2 = HOwned q /\
      one_write_s2 cf s0 sched t c q nw pa pb j /\
      rcu_new (made_to_s2 cf s0 sched t pa (S pb)) m q nw.
Proof. exact rcu_linearizable_stale2. Qed.

Theorem C06_frame_guard_identity_stale2 :
  forall cf s t t' x p v d,
    GenBound s -> ProgOK s -> alloc_ok s t' x -> stale2_ok s t' x -> Master s ->
    In p (t_stack (thr s t)) -> In p (t_stack (thr (fst (step_stale2 cf s t' x)) t)) ->
    guard_frame p = Some (v, d) -> valid v ->
    heap (sh (fst (step_stale2 cf s t' x))) v = heap (sh s) v /\ heap (sh s) v <> None.
Proof. exact frame_guard_identity_stale2. Qed.

Print Assumptions C06_rcu_linearizable_stale2.
Print Assumptions C06_frame_guard_identity_stale2.
