(** * C06 — rcu is an atomic read-modify-write.

    Proved (local step theorems over ASModel): whatever the closure does (allocate a new
    value, return null, return a clone of the current value), the exchange of an attempt is
    made against exactly the pointer [p] whose guard was passed to the closure; when the
    exchange reports another value [q], the next attempt runs against [q] (the closure's
    result of the failed attempt was released inside compare_and_swap, C05); when it reports
    [p], rcu returns the replaced value.  With C05_exchange_iff and C04_writes_form_chain the
    installed value therefore sits directly on top of [p] in the write order.
    NOT yet proved: the counting corollary (k concurrent increments add exactly k) as a
    theorem over all schedules — it needs the history/ownership invariants; it is covered by
    the correspondence runs and their oracle only. 
    The guard rcu holds on the value it read ([WRcuCas], [RAlloc], [RInc], ...) keeps that value alive
    and identical across every step of any thread ([C06_guard_keeps_identity], all schedules within
    [Main.RunOK]): the closure's input cannot be replaced by another object at the same address.
*)
From ASModel Require Import Base State Orderings_gen Step Run Progress Hist Inv InvTl InvProto InvStep Sum StepCases.
From ASModel Require Import GenDefs Gen1 Gen2 Gen EnvDefs Env4 Env AccDefs Acc1 Acc2 Acc3 Acc4 Acc5 Acc6 Acc7 Acc.
From ASModel Require Import ProtDefs Prot1 Prot11 Prot16 Prot Typed LinDefs Lin2 Lin Safe1 Safe2 Safe7 Safe8 Safe Main Alive.

Theorem C06_first_attempt_on_loaded_value :
  forall cf l c m p d, rcu_attempt_shape c p (snd (resume cf l (WRcuLoad c m) (RGuard p d))).
Proof. exact rcu_after_load. Qed.

Theorem C06_new_value_exchanged_against_p :
  forall cf s l c m p d x s' l' evs nx,
    exec cf s l (RAlloc c m p d) x = (s', l', evs, nx) ->
    match nx with
    | NPush frames (WRcuCas c' _ p' _) => c' = c /\ p' = p /\ exists fs, frames = fs ++ [WCasLoad c p x]
    | NPanic _ | NFault _ => True
    | _ => False
    end.
Proof. exact rcu_alloc_step. Qed.

Theorem C06_retry_or_return :
  forall cf l c m p d q dq,
    let nx := snd (resume cf l (WRcuCas c m p d) (RGuard q dq)) in
    if p =? q
    then match nx with
         | NRet (ROwned q') => q' = q
         | NPush _ (WRcuInto _ _) | NPush _ (WRcuRet _) => True
         | _ => False
         end
    else (exists fs m', nx = NPush fs (WRcuNext c m' q dq)) \/ rcu_attempt_shape c q nx.
Proof. exact rcu_after_cas. Qed.

Theorem C06_guard_keeps_identity : forall cf s t t' x p v d,
  GenBound s -> ProgOK s -> alloc_ok s t' x -> Master s ->
  In p (t_stack (thr s t)) -> In p (t_stack (thr (fst (step cf s t' x)) t)) ->
  guard_frame p = Some (v, d) -> valid v ->
  heap (sh (fst (step cf s t' x))) v = heap (sh s) v /\ heap (sh s) v <> None.
Proof. exact frame_guard_identity. Qed.

Print Assumptions C06_first_attempt_on_loaded_value.
Print Assumptions C06_new_value_exchanged_against_p.
Print Assumptions C06_retry_or_return.
Print Assumptions C06_guard_keeps_identity.
