(** * C07 — publication and race freedom (happens-before), PARTIAL.

    Full statement (DESIGN.md §4, C07): over every execution of the crate allowed by the
    orderings it requests — for every deref [e] of an object through any handle,
    [init hb e]; for every deref [e] and the destruction [d] of the object, [e hb d]; no
    data race on the pointee.

    What is proved here is the SYNCHRONISATION SKELETON: a C11-style happens-before calculus
    ([Seq.HB]: sb, rf, release sequences, sw derived from the orderings incl. failed
    compare_exchange and the acquire fence of Arc's drop, hb = closure) and, for every path on
    which a pointer travels, the theorem "on this chain of events — labelled with the site
    constants of the REGENERATED table [ASModel.Orderings_gen] — init hb deref / deref hb
    destroy".  Each theorem below is a path lemma of [Seq.HB] instantiated at the crate's sites;
    its side condition on the orderings is discharged BY COMPUTATION ON THE REGENERATED TABLE
    ([eq_refl : c_... o_site ... = true]).  Weakening a relevant ordering in /repo/src therefore
    makes this file stop compiling.

    Missing for the full statement (hence "_partial" in the level, not in every name): that
    every execution of the crate decomposes into these chains (the [rf]/[sb] hypotheses) is
    not proved — it is the content of the protocol invariants (C01/C03) under the view machine;
    the skeleton is tied to the code by [C07_sites] (the kinds are what [ASModel.Step.exec]
    emits), by the conc runner's per-event ordering comparison, and by review. *)
From Coq Require Import List Lia.
From ASModel Require Import Base State Orderings_gen Step.
From Seq Require Import HB.
Import ListNotations.
Local Open Scope nat_scope.

(** ** (1) Publication: init hb deref through a direct load.
    Writer: [storage.swap(new, o_lib_swap)] (src/lib.rs swap) or the successful
    [compare_exchange_weak] ([o_cas_exchange], hybrid.rs compare_and_swap).  Reader: the
    confirming read of the fast path ([o_attempt_confirm], hybrid.rs attempt) or the candidate
    read of the fallback ([o_fallback_candidate], hybrid.rs fallback). *)
Theorem C07_publication_swap_fast :
  forall X c init W R deref,
    hbeq X init W -> kindof X W = k_swap (LStore c) o_lib_swap ->
    kindof X R = k_load (LStore c) o_attempt_confirm -> rf X W R -> hbeq X R deref ->
    hb X init deref.
Proof. exact (path_publication o_lib_swap o_attempt_confirm eq_refl). Qed.

Theorem C07_publication_swap_fallback :
  forall X c init W R deref,
    hbeq X init W -> kindof X W = k_swap (LStore c) o_lib_swap ->
    kindof X R = k_load (LStore c) o_fallback_candidate -> rf X W R -> hbeq X R deref ->
    hb X init deref.
Proof. exact (path_publication o_lib_swap o_fallback_candidate eq_refl). Qed.

Theorem C07_publication_cas_fast :
  forall X c init W R deref,
    hbeq X init W -> kindof X W = k_cas_ok (LStore c) o_cas_exchange ->
    kindof X R = k_load (LStore c) o_attempt_confirm -> rf X W R -> hbeq X R deref ->
    hb X init deref.
Proof. exact (path_publication o_cas_exchange o_attempt_confirm eq_refl). Qed.

Theorem C07_publication_cas_fallback :
  forall X c init W R deref,
    hbeq X init W -> kindof X W = k_cas_ok (LStore c) o_cas_exchange ->
    kindof X R = k_load (LStore c) o_fallback_candidate -> rf X W R -> hbeq X R deref ->
    hb X init deref.
Proof. exact (path_publication o_cas_exchange o_fallback_candidate eq_refl). Qed.

(** ** (3) Returned previous value: the writer's own swap acquires what the previous writer
    (swap or CAS) released. *)
Theorem C07_returned_previous_swap :
  forall X c init W1 W2 deref,
    hbeq X init W1 -> kindof X W1 = k_swap (LStore c) o_lib_swap ->
    kindof X W2 = k_swap (LStore c) o_lib_swap -> rf X W1 W2 -> hbeq X W2 deref ->
    hb X init deref.
Proof. exact (path_returned_previous o_lib_swap o_lib_swap eq_refl). Qed.

Theorem C07_returned_previous_cas :
  forall X c init W1 W2 deref,
    hbeq X init W1 -> kindof X W1 = k_cas_ok (LStore c) o_cas_exchange ->
    kindof X W2 = k_swap (LStore c) o_lib_swap -> rf X W1 W2 -> hbeq X W2 deref ->
    hb X init deref.
Proof. exact (path_returned_previous o_cas_exchange o_lib_swap eq_refl). Qed.

(** ** (2) Helper hand-over (helping.rs help / confirm): the helper's control CAS
    ([o_help_ctrl_cas], success) releases, the reader's control swap ([o_confirm_ctrl_swap])
    acquires; the envelope the reader then loads is not stale. *)
Theorem C07_handover :
  forall X n init hl E7 H5 deref,
    hb X init hl -> sb X hl E7 ->
    kindof X E7 = k_cas_ok (LCtrl n) o_help_ctrl_cas ->
    kindof X H5 = k_swap (LCtrl n) o_confirm_ctrl_swap ->
    rf X E7 H5 -> hbeq X H5 deref ->
    hb X init deref.
Proof. exact (path_handover o_help_ctrl_cas o_confirm_ctrl_swap eq_refl). Qed.

Theorem C07_handover_envelope_fresh :
  forall X mo n e E6 E7 H5 H7 x,
    coherent_wr X mo -> mo_total X mo -> rf_wf X ->
    kindof X E6 = k_store (LEnv e) o_help_env_store -> sb X E6 E7 ->
    kindof X E7 = k_cas_ok (LCtrl n) o_help_ctrl_cas ->
    kindof X H5 = k_swap (LCtrl n) o_confirm_ctrl_swap -> rf X E7 H5 ->
    sb X H5 H7 -> kindof X H7 = k_load (LEnv e) o_confirm_env_load ->
    rf X x H7 ->
    x = E6 \/ mo E6 x.
Proof.
  exact (handover_envelope_fresh o_help_ctrl_cas o_confirm_ctrl_swap o_help_env_store
                                 o_confirm_env_load eq_refl).
Qed.

(** ** Dropping an owned handle (std's Arc protocol; std's orderings) *)
Theorem C07_arc_drop :
  forall X a e dw dz f destroy,
    hbeq X e dw -> kindof X dw = k_arc_dec a -> last_dec X dw dz ->
    sb X dz f -> kindof X f = k_arc_fence -> hbeq X f destroy ->
    hb X e destroy.
Proof. exact arc_drop_hb. Qed.

(** ** (4a) Debt return -> writer walk -> destruction ([Debt::pay], src/debt/mod.rs: success
    ordering releases, FAILURE ordering acquires) *)
Theorem C07_debt_return_walk :
  forall X n j deref p u q,
    hbeq X deref p -> kindof X p = k_cas_ok (LSlot n j) o_pay ->
    rseq X p u -> rf X u q -> kindof X q = k_cas_fail (LSlot n j) o_pay ->
    hb X deref q.
Proof. exact (path_debt_return_walk o_pay eq_refl). Qed.

Theorem C07_debt_return_destroy :
  forall X n j a deref p u q dw dz f destroy,
    hbeq X deref p -> kindof X p = k_cas_ok (LSlot n j) o_pay ->
    rseq X p u -> rf X u q -> kindof X q = k_cas_fail (LSlot n j) o_pay ->
    hbeq X q dw -> kindof X dw = k_arc_dec a ->
    last_dec X dw dz -> sb X dz f -> kindof X f = k_arc_fence -> hbeq X f destroy ->
    hb X deref destroy.
Proof. exact (path_debt_return_destroy o_pay eq_refl). Qed.

(** ** (4b) The writer pays the debt; the reader's failed pay acquires it *)
Theorem C07_writer_pays :
  forall X n j a iw pw u qr dr,
    kindof X iw = k_arc_inc a -> sb X iw pw ->
    kindof X pw = k_cas_ok (LSlot n j) o_pay ->
    rseq X pw u -> rf X u qr -> kindof X qr = k_cas_fail (LSlot n j) o_pay ->
    sb X qr dr -> kindof X dr = k_arc_dec a ->
    hb X iw dr.
Proof. exact (path_writer_pays o_pay eq_refl). Qed.

Theorem C07_writer_pays_mo :
  forall X mo n j a iw pw u qr dr,
    coherent_ww X mo ->
    kindof X iw = k_arc_inc a -> sb X iw pw ->
    kindof X pw = k_cas_ok (LSlot n j) o_pay ->
    rseq X pw u -> rf X u qr -> kindof X qr = k_cas_fail (LSlot n j) o_pay ->
    sb X qr dr -> kindof X dr = k_arc_dec a ->
    mo iw dr.
Proof. exact (path_writer_pays_mo o_pay eq_refl). Qed.

(** Every modification of a slot / of a count is an RMW, so the release sequence of a pay
    reaches whatever later content of the slot a failed pay reads. *)
Theorem C07_release_sequence_never_ends :
  forall X mo l p,
    well_founded mo -> mo_total X mo -> rmw_atomic X mo ->
    k_wloc (kindof X p) = Some l ->
    (forall y, k_wloc (kindof X y) = Some l -> mo p y ->
               k_rmw (kindof X y) = true /\ exists u, rf X u y /\ k_wloc (kindof X u) = Some l) ->
    forall y, k_wloc (kindof X y) = Some l -> mo p y -> rseq X p y.
Proof. exact rseq_of_mo. Qed.

(** ** (5) SeqCst: slot publication vs. the writer; generation vs. the writer.
    [walk_not_stale] is the documented assumption "a compare_exchange attempt reads the newest
    value" ([o_pay] is not SeqCst); [gen_vs_writer] needs no such assumption. *)
Theorem C07_slot_vs_writer_fast_swap :
  forall X mo sc c n j Rs Rc Ws Wp x y,
    sc_order X sc -> sc_read_rule X mo sc -> mo_total X mo -> rf_wf X ->
    kindof X Rs = k_swap (LSlot n j) o_fast_publish ->
    kindof X Rc = k_load (LStore c) o_attempt_confirm -> sb X Rs Rc ->
    kindof X Ws = k_swap (LStore c) o_lib_swap -> sb X Ws Wp ->
    k_rloc (kindof X Wp) = Some (LSlot n j) -> walk_not_stale X mo sc Ws Wp ->
    rf X x Rc -> rf X y Wp ->
    (x = Ws \/ mo Ws x) \/ (y = Rs \/ mo Rs y).
Proof. exact (slot_vs_writer o_fast_publish o_attempt_confirm o_lib_swap eq_refl). Qed.

Theorem C07_slot_vs_writer_fast_cas :
  forall X mo sc c n j Rs Rc Ws Wp x y,
    sc_order X sc -> sc_read_rule X mo sc -> mo_total X mo -> rf_wf X ->
    kindof X Rs = k_swap (LSlot n j) o_fast_publish ->
    kindof X Rc = k_load (LStore c) o_attempt_confirm -> sb X Rs Rc ->
    kindof X Ws = k_cas_ok (LStore c) o_cas_exchange -> sb X Ws Wp ->
    k_rloc (kindof X Wp) = Some (LSlot n j) -> walk_not_stale X mo sc Ws Wp ->
    rf X x Rc -> rf X y Wp ->
    (x = Ws \/ mo Ws x) \/ (y = Rs \/ mo Rs y).
Proof. exact (slot_vs_writer o_fast_publish o_attempt_confirm o_cas_exchange eq_refl). Qed.

Theorem C07_slot_vs_writer_helping_swap :
  forall X mo sc c n j Rs Rc Ws Wp x y,
    sc_order X sc -> sc_read_rule X mo sc -> mo_total X mo -> rf_wf X ->
    kindof X Rs = k_swap (LSlot n j) o_confirm_slot_swap ->
    kindof X Rc = k_load (LStore c) o_fallback_candidate -> sb X Rs Rc ->
    kindof X Ws = k_swap (LStore c) o_lib_swap -> sb X Ws Wp ->
    k_rloc (kindof X Wp) = Some (LSlot n j) -> walk_not_stale X mo sc Ws Wp ->
    rf X x Rc -> rf X y Wp ->
    (x = Ws \/ mo Ws x) \/ (y = Rs \/ mo Rs y).
Proof. exact (slot_vs_writer o_confirm_slot_swap o_fallback_candidate o_lib_swap eq_refl). Qed.

Theorem C07_slot_vs_writer_helping_cas :
  forall X mo sc c n j Rs Rc Ws Wp x y,
    sc_order X sc -> sc_read_rule X mo sc -> mo_total X mo -> rf_wf X ->
    kindof X Rs = k_swap (LSlot n j) o_confirm_slot_swap ->
    kindof X Rc = k_load (LStore c) o_fallback_candidate -> sb X Rs Rc ->
    kindof X Ws = k_cas_ok (LStore c) o_cas_exchange -> sb X Ws Wp ->
    k_rloc (kindof X Wp) = Some (LSlot n j) -> walk_not_stale X mo sc Ws Wp ->
    rf X x Rc -> rf X y Wp ->
    (x = Ws \/ mo Ws x) \/ (y = Rs \/ mo Rs y).
Proof. exact (slot_vs_writer o_confirm_slot_swap o_fallback_candidate o_cas_exchange eq_refl). Qed.

Theorem C07_gen_vs_writer_swap :
  forall X mo sc c n Rs Rc Ws Wp x y,
    sc_order X sc -> sc_read_rule X mo sc -> mo_total X mo -> rf_wf X ->
    kindof X Rs = k_swap (LCtrl n) o_help_gen_swap ->
    kindof X Rc = k_load (LStore c) o_fallback_candidate -> sb X Rs Rc ->
    kindof X Ws = k_swap (LStore c) o_lib_swap -> sb X Ws Wp ->
    kindof X Wp = k_load (LCtrl n) o_help_ctrl_load ->
    rf X x Rc -> rf X y Wp ->
    (x = Ws \/ mo Ws x) \/ (y = Rs \/ mo Rs y).
Proof. exact (gen_vs_writer o_help_gen_swap o_fallback_candidate o_lib_swap o_help_ctrl_load eq_refl). Qed.

Theorem C07_gen_vs_writer_cas :
  forall X mo sc c n Rs Rc Ws Wp x y,
    sc_order X sc -> sc_read_rule X mo sc -> mo_total X mo -> rf_wf X ->
    kindof X Rs = k_swap (LCtrl n) o_help_gen_swap ->
    kindof X Rc = k_load (LStore c) o_fallback_candidate -> sb X Rs Rc ->
    kindof X Ws = k_cas_ok (LStore c) o_cas_exchange -> sb X Ws Wp ->
    kindof X Wp = k_load (LCtrl n) o_help_ctrl_load ->
    rf X x Rc -> rf X y Wp ->
    (x = Ws \/ mo Ws x) \/ (y = Rs \/ mo Rs y).
Proof. exact (gen_vs_writer o_help_gen_swap o_fallback_candidate o_cas_exchange o_help_ctrl_load eq_refl). Qed.

(** ** The whole condition on the regenerated orderings table (the conjunction of the side
    conditions used above; kept last among the ordering-dependent theorems so that a weakened
    ordering is reported at the path theorem it breaks). *)
Theorem C07_table_ok : c07_table = true.
Proof. vm_compute. reflexivity. Qed.

(** ** No data race on the pointee, from the three families of path theorems.
    PARTIAL: the full statement has no premises about hb — it quantifies over the executions of
    the crate; here the three hb premises are what the path theorems above deliver once an
    execution has been decomposed into the skeleton's chains (that decomposition is not proved). *)
Theorem C07_no_race_partial :
  forall X a init destroy,
    (forall i, kindof X i = KWrite a -> i = init \/ i = destroy) ->
    hb X init destroy ->
    (forall d, kindof X d = KRead a -> hb X init d) ->
    (forall d, kindof X d = KRead a -> hb X d destroy) ->
    forall i j, i <> j -> conflict X a i j -> hb X i j \/ hb X j i.
Proof. exact no_race_from_paths. Qed.

(** ** The conditions are not gratuitous: with the pre-fix table ([Debt::pay] failure ordering
    Relaxed — finding D4) the condition of (4a) is false and, in the D4 execution, the reader's
    deref does NOT happen-before the destruction. *)
Theorem C07_d4_refuted : c_pay d4_pay = false /\ ~ hb ex_d4 4 12.
Proof. exact (conj d4_condition_false d4_refuted). Qed.

(** ** The skeleton's kinds are what the step function of the model emits (tie to
    [ASModel.Step]; the step function's orderings are tied to the code by the conc runner). *)
Theorem C07_sites :
  forall cf s l x,
    (forall c new, exec_kinds cf s l (S1 c new) x = [k_swap (LStore c) o_lib_swap]) /\
    (forall c cur new v d,
        exec_kinds cf s l (K1 c cur new v d) x = [k_cas_ok (LStore c) o_cas_exchange] \/
        exec_kinds cf s l (K1 c cur new v d) x = [k_cas_fail (LStore c) o_cas_exchange]) /\
    (forall c v j, exec_kinds cf s l (LA3 c v j) x = [k_swap (LSlot (own_node l) j) o_fast_publish]) /\
    (forall c v j, exec_kinds cf s l (LA4 c v j) x = [k_load (LStore c) o_attempt_confirm]) /\
    (forall c gt, exec_kinds cf s l (LH2 c gt) x = [k_swap (LCtrl (own_node l)) o_help_gen_swap]) /\
    (forall c gt, exec_kinds cf s l (LH3 c gt) x = [k_load (LStore c) o_fallback_candidate]) /\
    (forall c gt v, exec_kinds cf s l (LH4 c gt v) x = [k_swap (LSlot (own_node l) HSLOT) o_confirm_slot_swap]) /\
    (forall c gt v, exec_kinds cf s l (LH5 c gt v) x = [k_swap (LCtrl (own_node l)) o_confirm_ctrl_swap]) /\
    (forall v e, exec_kinds cf s l (LH7 v e) x = [k_load (LEnv e) o_confirm_env_load]) /\
    (forall c old w, exec_kinds cf s l (PE1 c old w) x = [k_load (LCtrl w) o_help_ctrl_load]) /\
    (forall c old w ctl r their mine,
        exec_kinds cf s l (PE6 c old w ctl r their mine) x = [k_store (LEnv (env_of mine)) o_help_env_store]) /\
    (forall c old w ctl r their mine,
        exec_kinds cf s l (PE7 c old w ctl r their mine) x = [k_cas_ok (LCtrl w) o_help_ctrl_cas] \/
        exec_kinds cf s l (PE7 c old w ctl r their mine) x = [k_cas_fail (LCtrl w) o_help_ctrl_cas]) /\
    (forall v sl,
        exec_kinds cf s l (GD1 v sl) x = [k_cas_ok (slot_loc sl) o_pay] \/
        exec_kinds cf s l (GD1 v sl) x = [k_cas_fail (slot_loc sl) o_pay]) /\
    (forall v sl,
        exec_kinds cf s l (GI2 v sl) x = [k_cas_ok (slot_loc sl) o_pay] \/
        exec_kinds cf s l (GI2 v sl) x = [k_cas_fail (slot_loc sl) o_pay]) /\
    (forall c old w j,
        exec_kinds cf s l (PS c old w j) x = [k_cas_ok (LSlot w j) o_pay] \/
        exec_kinds cf s l (PS c old w j) x = [k_cas_fail (LSlot w j) o_pay]) /\
    (forall a r,
        exec_kinds cf s l (PDec a r) x = [] \/
        exec_kinds cf s l (PDec a r) x = [k_arc_dec a] \/
        exec_kinds cf s l (PDec a r) x = [k_arc_dec a; k_arc_fence; KWrite a]).
Proof.
  intros cf s l x.
  repeat split; intros;
    first [ apply site_S1 | apply site_K1 | apply site_LA3 | apply site_LA4 | apply site_LH2
          | apply site_LH3 | apply site_LH4 | apply site_LH5 | apply site_LH7 | apply site_PE1
          | apply site_PE6 | apply site_PE7 | apply site_GD1 | apply site_GI2 | apply site_PS
          | apply site_PDec_kinds ].
Qed.

(** ** Non-vacuity: concrete executions labelled with the regenerated constants satisfy the
    hypotheses of the path theorems. *)
Definition ex_pub_t : execution := ex_pub o_lib_swap o_lib_swap o_fast_publish o_attempt_confirm o_attempt_first.
Definition ex_help_t : execution :=
  ex_help o_lib_swap o_attempt_confirm o_help_env_store o_help_ctrl_cas o_confirm_ctrl_swap o_confirm_env_load.
Definition ex_debt_t : execution := ex_debt o_pay o_lib_swap o_fast_publish o_attempt_confirm o_attempt_first.
Definition ex_wpays_t : execution := ex_wpays o_pay.

Example C07_ex_publication : hb ex_pub_t 0 5.
Proof. apply (C07_publication_swap_fast ex_pub_t 0%N 0 1 4 5); ex_side. Qed.

Example C07_ex_returned_previous : hb ex_pub_t 0 7.
Proof. apply (C07_returned_previous_swap ex_pub_t 0%N 0 1 6 7); ex_side. Qed.

Example C07_ex_handover : hb ex_help_t 0 7.
Proof. apply (C07_handover ex_help_t 0%N 0 2 4 5 7); ex_side. Qed.

(** the D4 scenario with the table of the crate as it is now: the deref (4) happens-before
    the destruction (12) on thread 3 *)
Example C07_ex_debt_return : hb ex_debt_t 4 12.
Proof. apply (C07_debt_return_destroy ex_debt_t 0%N 0%N exA 4 5 5 8 9 10 11 12); ex_side. Qed.

Example C07_ex_writer_pays : hb ex_wpays_t 0 3.
Proof. apply (C07_writer_pays ex_wpays_t 0%N 0%N exA 0 1 1 2 3); ex_side. Qed.

(** and the whole D4 scenario is race free on the pointee *)
Example C07_ex_no_race :
  forall i j, i <> j -> conflict ex_debt_t exA i j -> hb ex_debt_t i j \/ hb ex_debt_t j i.
Proof.
  apply (C07_no_race_partial ex_debt_t exA 0 12).
  - intros i H. do 13 (destruct i as [|i]; [first [left; reflexivity|right; reflexivity|discriminate H]|]).
    destruct i; discriminate H.
  - ex_side.
  - intros d H. do 13 (destruct d as [|d]; [first [discriminate H|ex_side]|]). destruct d; discriminate H.
  - intros d H. do 13 (destruct d as [|d]; [first [discriminate H|ex_side]|]). destruct d; discriminate H.
Qed.

(** the consistency hypotheses of (5) are jointly satisfiable *)
Example C07_ex_sc_hypotheses_satisfiable : (0 = 3 \/ 3 < 0) \/ (1 = 1 \/ 1 < 1).
Proof. exact ex_sbp_dichotomy. Qed.

Print Assumptions C07_table_ok.
Print Assumptions C07_publication_swap_fast.
Print Assumptions C07_publication_swap_fallback.
Print Assumptions C07_publication_cas_fast.
Print Assumptions C07_publication_cas_fallback.
Print Assumptions C07_returned_previous_swap.
Print Assumptions C07_returned_previous_cas.
Print Assumptions C07_handover.
Print Assumptions C07_handover_envelope_fresh.
Print Assumptions C07_arc_drop.
Print Assumptions C07_debt_return_walk.
Print Assumptions C07_debt_return_destroy.
Print Assumptions C07_writer_pays.
Print Assumptions C07_writer_pays_mo.
Print Assumptions C07_release_sequence_never_ends.
Print Assumptions C07_slot_vs_writer_fast_swap.
Print Assumptions C07_slot_vs_writer_fast_cas.
Print Assumptions C07_slot_vs_writer_helping_swap.
Print Assumptions C07_slot_vs_writer_helping_cas.
Print Assumptions C07_gen_vs_writer_swap.
Print Assumptions C07_gen_vs_writer_cas.
Print Assumptions C07_no_race_partial.
Print Assumptions C07_d4_refuted.
Print Assumptions C07_sites.
Print Assumptions C07_ex_publication.
Print Assumptions C07_ex_returned_previous.
Print Assumptions C07_ex_handover.
Print Assumptions C07_ex_debt_return.
Print Assumptions C07_ex_writer_pays.
Print Assumptions C07_ex_no_race.
Print Assumptions C07_ex_sc_hypotheses_satisfiable.
