(** * C08 — reads are wait-free.

    Model: ASModel (one atomic access per step; any number of threads; arbitrary shared
    state; both read paths; any number of guards held).  The theorems quantify over every
    state [s] (reachable or not), every scheduler choice [x] and every schedule [sched]:
    a writer completing any number of writes between two reader steps, or every other
    thread frozen for ever, are particular schedules. *)
From Coq Require Import Lia.
From ASModel Require Import Base State Orderings_gen Step Run Progress.
From ASModel Require Import Stale2 Stale2InvProg.

(** One own step of a thread inside [load]/[load_full]: the call returns, or the thread
    stops (panic/fault: excluded by C13/C01), or its measure strictly decreases — for
    every shared state and every choice. *)
Theorem C08_own_step_progress :
  forall cf s t x stk m,
    t_status (thr s t) = Running -> t_stack (thr s t) = stk -> read_stack stk m ->
    read_progress cf s t x m.
Proof. exact read_step. Qed.

(** Steps of other threads do not touch the reader (no helping is needed, no retry can be
    forced). *)
Theorem C08_others_cannot_interfere :
  forall cf s t t' x, t' <> t -> thr (fst (step cf s t' x)) t = thr s t.
Proof. exact step_other. Qed.

(** In every schedule the reader performs at most [K_load_full = 31] own steps before its
    [load]/[load_full] has returned ([K_load = 28] for [load]; both include the three steps
    of the cooldown at the documented generation wrap). *)
Theorem C08_wait_free_bound :
  forall cf t sched s m,
    t_status (thr s t) = Running -> read_stack (t_stack (thr s t)) m ->
    (own_steps_reading cf t sched s true <= m)%nat /\ (m <= K_load_full)%nat.
Proof.
  intros cf t sched s m Hr Hs. split; [apply read_wait_free; assumption|].
  eapply read_stack_bound; eassumption.
Qed.

(** The hypothesis is met whenever a thread that already has its node starts a [load]
    (on a thread without a node, [Node::get] runs first: list traversal, lock-free only). *)
Theorem C08_entry :
  forall cf l c l' fs d,
    enter_load cf l c = inl (l', fs) -> tl_node l <> None ->
    exists m, read_stack (fs ++ [KDone d]) m.
Proof. exact read_stack_entry_load. Qed.

(** Non-vacuity: a concrete reachable state (thread 0 has done one load and starts a second
    one with a guard held) satisfies the hypotheses, and the bound is tight enough to be
    meaningful. *)
Definition ex_cf := mkConfig true true.
Definition ex_s0 := init_state [4096] [[CLoad 0 1; CLoad 0 2]].
Definition ex_sched : list (N * N) := map (fun _ => (0, 0)) (seq 0 10).
Definition ex_s := run_state ex_cf ex_s0 ex_sched.
Example C08_example :
  t_status (thr ex_s 0) = Running /\ read_stack (t_stack (thr ex_s 0)) 28.
Proof. split; [vm_compute; reflexivity|]. vm_compute. apply rs_load. reflexivity. Qed.

Print Assumptions C08_own_step_progress.
Print Assumptions C08_others_cannot_interfere.
Print Assumptions C08_wait_free_bound.
Print Assumptions C08_entry.
Print Assumptions C08_example.

(** ** The bound does not depend on what the reader's non-SeqCst loads return.

    [Stale2.step_stale2]: the first read of the fast path, the slot scan (and, on a thread without
    a node, the look at `in_use` and the head read of [Node::get]) may be answered with stale values.
    [own_steps_reading2] counts the reader's own steps in a schedule of [step_stale2]; the same
    bounds hold: a stale scan can only send the reader to the next slot or to the fallback. *)
Theorem C08_wait_free_bound_stale2 :
  forall cf t sched s m,
    t_status (thr s t) = Running -> read_stack (t_stack (thr s t)) m ->
    (own_steps_reading2 cf t sched s true <= m)%nat /\ (m <= K_load_full)%nat.
Proof.
  intros cf t sched s m Hr Hs. split; [apply read_wait_free_stale2; assumption|].
  eapply read_stack_bound; eassumption.
Qed.

Theorem C08_load_bound_stale2 :
  forall cf t sched s p m d,
    t_status (thr s t) = Running -> t_stack (thr s t) = [p; KDone d] -> rem p = Some m ->
    (own_steps_reading2 cf t sched s true <= K_load)%nat.
Proof. exact load_wait_free_stale2. Qed.

Theorem C08_load_full_bound_stale2 :
  forall cf t sched s p m d,
    t_status (thr s t) = Running -> t_stack (thr s t) = [p; WLoadFull; KDone d] -> rem p = Some m ->
    (own_steps_reading2 cf t sched s true <= K_load_full)%nat.
Proof. exact load_full_wait_free_stale2. Qed.

Print Assumptions C08_wait_free_bound_stale2.
Print Assumptions C08_load_bound_stale2.
Print Assumptions C08_load_full_bound_stale2.
