(** * C09 — writers and guards never block.

    Proved over ASModel:
    - no step of any thread ever inspects or changes another thread's frames: what a thread
      does next depends only on its own frame and the shared memory ([C09_no_waiting]); in
      particular there is no program point at which a thread waits for another thread's frame
      to change — every frame of [Step.exec] either advances, returns, or retries after a FAILED
      compare-exchange / a CHANGED control word, i.e. only when some other thread has made
      progress in between;
    - the only retry edges of a writer are: the weak exchange of [compare_and_swap] (fails only
      if the stored pointer changed or spuriously: [C05_exchange_iff]), the re-read in [help]
      ([C09_help_retries_only_on_change]: it loops only when the control word differs from the
      one read before) and the head push of [Node::get];
    - [load]/[load_full] inside [help] (the replacement) is wait-free ([C08]).
    - CLOSED BOUND ([ProgressW]): from every state satisfying the inductive invariant WF2 (hence
      from every reachable state, [C09_solo_bound_reachable]), a thread that runs alone while all
      other threads are frozen wherever they are leaves its current operation after at most
      [mu] own steps, an explicit measure that strictly decreases with every step; from the start
      of a store / swap / into_inner / container drop that is [68*H + k + 80] steps, for
      compare_and_swap and rcu [O(k*H + k^2 + H)], where H is the number of debt nodes and k the
      number of spurious failures of weak compare-exchange the scheduler injects
      ([C09_writer_solo_bound], [C09_solo_bound_closed], [C09_solo_completes]).  Faults and panics
      count as finished; they are excluded by C01 / C13.
    The freeze sweeps of the correspondence runner search the implementation for a thread that
    cannot finish alone (every other thread suspended at every point of scenario programs). *)
From ASModel Require Import Base State Orderings_gen Step Run Progress Hist Inv InvTl InvProto InvStep ProgressW.
From ASModel Require Import Stale2 Stale2P.

Theorem C09_no_waiting :
  forall cf s t t' x, t' <> t -> thr (fst (step cf s t' x)) t = thr s t.
Proof. exact step_other. Qed.

Lemma help_reread cf s l c old w ctl x :
  mem s (LCtrl w) = ctl ->
  exists e, exec cf s l (PE3 c old w ctl) x = (s, l, [e], NGoto (PS c old w 0)).
Proof. intros H. cbn. rewrite H, N.eqb_refl. eauto. Qed.

Theorem C09_help_retries_only_on_change :
  forall cf s l c old w ctl x,
    mem s (LCtrl w) = ctl ->
    exists e, exec cf s l (PE3 c old w ctl) x = (s, l, [e], NGoto (PS c old w 0)).
Proof. exact help_reread. Qed.

Theorem C09_solo_bound : forall cf t xs s k,
  WF2 s -> (spurs cf t xs s <= k)%nat -> (solo_steps cf t xs s <= mu_of s t k)%nat.
Proof. exact solo_bound. Qed.

Theorem C09_solo_bound_closed : forall cf t xs s k,
  WF2 s -> t_status (thr s t) = Running -> (spurs cf t xs s <= k)%nat ->
  (solo_steps cf t xs s <= B_any (headn (sh s)) k (length (t_stack (thr s t))))%nat.
Proof. exact solo_bound_closed. Qed.

Theorem C09_writer_solo_bound : forall cf t s x0 xs k c,
  WF2 s -> t_status (thr s t) = Running -> t_stack (thr s t) = [] ->
  nth_error (t_prog (thr s t)) (N.to_nat (t_cmdi (thr s t))) = Some c ->
  cmd_enabled s c = true -> is_writer c = true ->
  (spurs cf t xs (fst (step cf s t x0)) <= k)%nat ->
  (solo_steps cf t xs (fst (step cf s t x0)) <= B_cmd c (headn (sh s)) k)%nat.
Proof. exact writer_solo_bound. Qed.

Theorem C09_solo_completes : forall cf t s k xs,
  WF2 s -> (spurs cf t xs s <= k)%nat -> (mu_of s t k < length xs)%nat ->
  exists n, (n <= mu_of s t k)%nat /\
            busy (run_state cf s (solo_sched t (firstn n xs))) t = false.
Proof. exact solo_completes. Qed.

Theorem C09_swap_bound_formula : forall H k, B_swap H k = (68 * H + k + 80)%nat.
Proof. exact B_swap_eq. Qed.

Print Assumptions C09_no_waiting.
Print Assumptions C09_solo_bound.
Print Assumptions C09_solo_bound_closed.
Print Assumptions C09_writer_solo_bound.
Print Assumptions C09_solo_completes.
Print Assumptions C09_swap_bound_formula.
Print Assumptions C09_help_retries_only_on_change.

(** ** With the four weakened loads of [Stale2.step_stale2]: a thread running alone still finishes
    within the same bounds, where the budget [k] now counts, besides spurious failures of weak
    compare-exchanges, the stale head reads that return a non-current head ([spurs2]): such a read
    costs exactly one more step (the push CAS fails once and returns the current head) -
    [C09_stale_head_costs_one_step] is a checked state in which the bound without that charge fails. *)
Theorem C09_solo_bound_stale2 :
  forall cf t xs s k, WF2 s -> solo_ok2 cf t xs s -> (spurs2 cf t xs s <= k)%nat ->
    (solo_steps2 cf t xs s <= mu_of s t k)%nat.
Proof. exact solo_bound_stale2. Qed.

Theorem C09_solo_bound_closed_stale2 :
  forall cf t xs s k, WF2 s -> t_status (thr s t) = Running -> solo_ok2 cf t xs s ->
    (spurs2 cf t xs s <= k)%nat ->
    (solo_steps2 cf t xs s <= B_any (headn (sh s)) k (length (t_stack (thr s t))))%nat.
Proof. exact solo_bound_closed_stale2. Qed.

Theorem C09_writer_solo_bound_stale2 :
  forall cf t s x0 xs k c,
    WF2 s -> t_status (thr s t) = Running -> t_stack (thr s t) = [] ->
    nth_error (t_prog (thr s t)) (N.to_nat (t_cmdi (thr s t))) = Some c ->
    cmd_enabled s c = true -> is_writer c = true ->
    solo_ok2 cf t xs (fst (step_stale2 cf s t x0)) ->
    (spurs2 cf t xs (fst (step_stale2 cf s t x0)) <= k)%nat ->
    (solo_steps2 cf t xs (fst (step_stale2 cf s t x0)) <= B_cmd c (headn (sh s)) k)%nat.
Proof. exact writer_solo_bound_stale2. Qed.

Theorem C09_stale_head_costs_one_step :
  Stale2Sched p5_cf (init_state p5_inits p5_progs) p5_sched /\
  WF2 p5_s /\
  hd_error (t_stack (thr p5_s 1)) = Some GPush0 /\ mem (sh p5_s) LHead = 1 /\
  stale2_ok p5_s 1 2 /\ solo_ok2 p5_cf 1 p5_stale p5_s /\
  Forall (fun x => x <> 1) p5_stale /\
  mu_of p5_s 1 0 = 2%nat /\
  solo_steps p5_cf 1 p5_fresh p5_s = 2%nat /\
  solo_steps2 p5_cf 1 p5_stale p5_s = 3%nat /\
  spurs2 p5_cf 1 p5_stale p5_s = 1%nat /\
  mu_of p5_s 1 1 = 3%nat.
Proof. exact stale_head_costs_one_step. Qed.

Print Assumptions C09_solo_bound_stale2.
Print Assumptions C09_solo_bound_closed_stale2.
Print Assumptions C09_writer_solo_bound_stale2.
Print Assumptions C09_stale_head_costs_one_step.
