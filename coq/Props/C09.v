(** * C09 — writers and guards never block.

    Proved over ASModel:
    - no step of any thread ever inspects or changes another thread's frames: what a thread
      does next depends only on its own frame and the shared memory ([C09_no_waiting]); in
      particular there is no program point at which a thread waits for another thread's frame
      to change — every frame of [Step.exec] either advances, returns, or retries after a FAILED
      compare-exchange / a CHANGED control word, i.e. only when some other thread has made
      progress in between;
    - the only retry edges of a writer are: the weak exchange of [compare_and_swap] (fails only
      if the stored pointer changed or spuriously: [C05_exchange_iff]), the re-read in [help]
      ([C09_help_retries_only_on_change]: it loops only when the control word differs from the
      one read before) and the head push of [Node::get];
    - [load]/[load_full] inside [help] (the replacement) is wait-free ([C08]).
    NOT yet proved (partial): the closed bound "running alone from any reachable state, a
    store/swap/cas/rcu/into_inner/drop finishes within B(number of nodes) steps" as one theorem;
    it is searched for counterexamples by the freeze sweeps of the correspondence runner
    (every other thread suspended at every point of scenario programs: the solo thread must
    finish its operation within 3000 steps). *)
From ASModel Require Import Base State Orderings_gen Step Run Progress Hist.

Theorem C09_no_waiting :
  forall cf s t t' x, t' <> t -> thr (fst (step cf s t' x)) t = thr s t.
Proof. exact step_other. Qed.

Lemma help_reread cf s l c old w ctl x :
  mem s (LCtrl w) = ctl ->
  exists e, exec cf s l (PE3 c old w ctl) x = (s, l, [e], NGoto (PS c old w 0)).
Proof. intros H. cbn. rewrite H, N.eqb_refl. eauto. Qed.

Theorem C09_help_retries_only_on_change :
  forall cf s l c old w ctl x,
    mem s (LCtrl w) = ctl ->
    exists e, exec cf s l (PE3 c old w ctl) x = (s, l, [e], NGoto (PS c old w 0)).
Proof. exact help_reread. Qed.

Print Assumptions C09_no_waiting.
Print Assumptions C09_help_retries_only_on_change.
