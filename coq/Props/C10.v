(** * C10 — guards are self-contained snapshots, valid anywhere and for any lifetime.

    Proved so far over ASModel:
    - a guard is the pair (pointer, optional debt slot); the slot is named by (node, index) -
      nodes are never freed - and the drop / into_inner of a guard depends only on that pair and
      the shared memory, NOT on which thread runs it nor on that thread's own node or local
      state ([C10_drop_anywhere]): it can be dropped on any thread, after its creator exited;
    - the drop gives back exactly what the guard held: its debt if the slot still holds the
      pointer, one reference otherwise ([C10_guard_drop]); into_inner first takes a reference
      ([C10_guard_into]); no step of another thread changes the guard itself: handles change
      only by the commands that name them ([C10_handles_stable]);
    - beyond the eight fast slots the fallback returns a fully counted pointer: a guard without
      debt ([C10_fallback_guard_is_owned]);
    - over all schedules: a node's slots are written with new debts only by the node's single
      holder ([C11_exclusive]); a load is wait-free for any number of guards held ([C08]).
    Beyond these step theorems (see END-TO-END below for what is now proved over all schedules): "keeps denoting the very same VALUE" (the pointee stays alive and
    the address is not reused while the guard exists) is C01's protection invariant, in
    progress.  Checked on every run by the correspondence oracle: identity (object id, not
    address) seen through each guard at creation and at drop, on programs that move guards
    between threads, drop them after the creator exited and after the container is gone. 
    END-TO-END ([ASModel.Main], all schedules, any number of threads): the theorems below hold for
    every run from an initial configuration that satisfies [RunOK]: initial values are null or
    valid addresses; no program calls the verification hook [set_generation] or uses Cache; in
    every state of the run no generation counter is within 4 of wrapping ([GenBound]: a wrap needs
    2^62 fallback loads of one thread; the wrap itself is C13), a command's destination handle is
    empty and the source of a running clone is not dropped (conditions on the TEST PROGRAM, met by
    every generated program: the model driver checks them on every run and the evidence counts the
    runs inside this scope); the allocator hands out addresses that are not live, not null and not
    the empty-slot marker.  The proof is an inductive invariant [Master] made of: node ownership
    and per-program-point assertions (WF2), reservation counting and generation uniqueness
    (GenInv), envelope exclusivity (EnvInv), exact accounting (AccInv), slot coverage (ProtInv'),
    stack typing, and "no thread has faulted", each preserved by every step ([step_Master]).
    [C10_guard_keeps_value]: in every state of such a run the value a guard or an owned handle
    refers to is alive; [C10_guard_keeps_identity]: across every step that leaves the handle in
    place, the object at that address is the same object (not destroyed, address not reused).
*)
From ASModel Require Import Base State Orderings_gen Step Run Progress Hist Local Inv InvTl InvProto InvStep Sum StepCases.
From ASModel Require Import GenDefs Gen1 Gen2 Gen EnvDefs Env4 Env AccDefs Acc1 Acc2 Acc3 Acc4 Acc5 Acc6 Acc7 Acc.
From ASModel Require Import ProtDefs Prot1 Prot11 Prot16 Prot Typed LinDefs Lin2 Lin Safe1 Safe2 Safe7 Safe8 Safe Main.
From ASModel Require Import Stale2 Stale2Inv Stale2W.

Theorem C10_drop_anywhere : forall cf s l l2 v sl x,
  fst (fst (fst (exec cf s l (GD1 v sl) x))) = fst (fst (fst (exec cf s l2 (GD1 v sl) x))) /\
  snd (exec cf s l (GD1 v sl) x) = snd (exec cf s l2 (GD1 v sl) x).
Proof. exact guard_drop_local. Qed.

Theorem C10_guard_drop : forall cf s l v sl x,
  exists e,
    exec cf s l (GD1 v sl) x =
      (if mem s (slot_loc sl) =? v then m_set s (slot_loc sl) NONE else s, l, [e],
       if mem s (slot_loc sl) =? v then NRet RUnit else dec_then v RUnit).
Proof. exact guard_drop_step. Qed.

Theorem C10_guard_into : forall cf s l v sl x,
  (match heap s v with
   | None => exec cf s l (GI1 v sl) x = (s, l, [], NFault (FDeadInc v))
   | Some _ => exists s', rc_inc s v = Some (s', [EvRc v true (mem s (LCount v))]) /\
               exec cf s l (GI1 v sl) x = (s', l, [EvRc v true (mem s (LCount v))], NGoto (GI2 v sl))
   end) /\
  exists e,
    exec cf s l (GI2 v sl) x =
      (if mem s (slot_loc sl) =? v then m_set s (slot_loc sl) NONE else s, l, [e],
       if mem s (slot_loc sl) =? v then NRet (ROwned v) else dec_then v (ROwned v)).
Proof. exact guard_into_step. Qed.

Theorem C10_handles_stable : forall cf s t x h,
  t_stack (thr s t) <> [] ->
  hnd (fst (step cf s t x)) h = hnd s h \/ t_stack (thr (fst (step cf s t x)) t) = [].
Proof. exact step_handles. Qed.

Theorem C10_fallback_guard_is_owned : forall l v,
  match snd (with_exit l (RGuard v None)) with NRet r' => r' = RGuard v None | NPush _ (WExit r') => r' = RGuard v None | _ => False end.
Proof. intros. apply with_exit_value. Qed.

Theorem C10_guard_keeps_value : forall s h a,
  Master s -> (hnd s h = HOwned a \/ exists d, hnd s h = HGuard a d) -> valid a ->
  heap (sh s) a <> None.
Proof. exact Main.C10_guard_keeps_value. Qed.

Theorem C10_guard_keeps_identity : forall cf s t x h a,
  GenBound s -> ProgOK s -> alloc_ok s t x -> Master s ->
  (hnd s h = HOwned a \/ exists d, hnd s h = HGuard a d) -> valid a ->
  hnd (fst (step cf s t x)) h = hnd s h ->
  heap (sh (fst (step cf s t x))) a = heap (sh s) a /\ heap (sh s) a <> None.
Proof. exact Main.C10_guard_keeps_identity. Qed.

Theorem C10_every_state_of_a_run : forall cf inits progs sched,
  RunOK cf inits progs sched -> forall k, Master (St cf (init_state inits progs) sched k).
Proof. exact RunOK_Master. Qed.

Print Assumptions C10_drop_anywhere.
Print Assumptions C10_guard_drop.
Print Assumptions C10_guard_into.
Print Assumptions C10_handles_stable.
Print Assumptions C10_fallback_guard_is_owned.
Print Assumptions C10_guard_keeps_value.
Print Assumptions C10_guard_keeps_identity.
Print Assumptions C10_every_state_of_a_run.

(** ** With the four weakened loads of [Stale2.step_stale2]: the master invariant - hence
    [C10_guard_keeps_value] - holds in every state of every run within [RunOKS2]. *)
Theorem C10_every_state_of_a_run_stale2 : forall cf inits progs sched,
  RunOKS2 cf inits progs sched -> forall k, Master (StS2 cf (init_state inits progs) sched k).
Proof. exact run_stale2_Master. Qed.

Theorem C10_guard_keeps_value_stale2 : forall cf inits progs sched k h a,
  RunOKS2 cf inits progs sched ->
  let s := StS2 cf (init_state inits progs) sched k in
  (hnd s h = HOwned a \/ exists d, hnd s h = HGuard a d) -> valid a ->
  heap (sh s) a <> None.
Proof.
  intros cf inits progs sched k h a R s Hh Hv.
  exact (Main.C10_guard_keeps_value s h a (run_stale2_Master cf inits progs sched R k) Hh Hv).
Qed.

Print Assumptions C10_every_state_of_a_run_stale2.
Print Assumptions C10_guard_keeps_value_stale2.

Theorem C10_guard_keeps_identity_stale2 :
  forall cf s t x h a,
    GenBound s -> ProgOK s -> alloc_ok s t x -> stale2_ok s t x -> Master s ->
    (hnd s h = HOwned a \/ exists d, hnd s h = HGuard a d) -> valid a ->
    hnd (fst (step_stale2 cf s t x)) h = hnd s h ->
    heap (sh (fst (step_stale2 cf s t x))) a = heap (sh s) a /\ heap (sh s) a <> None.
Proof. exact Stale2W1.C10_guard_keeps_identity_stale2. Qed.

Print Assumptions C10_guard_keeps_identity_stale2.
