(** * C11 — thread churn: per-thread bookkeeping (debt nodes) is reused, never shared.

    Proved over ASModel (all states, all scheduler choices):
    - ownership transitions ([C11_ownership_transitions] = [exec_inuse]): the [in_use] word of a
      node changes only in four ways — COOLDOWN -> UNUSED by [check_cooldown] (never from
      USED), UNUSED -> USED by the claiming compare-exchange of [Node::get] (and only then, in
      the same step, the node becomes the claiming thread's node), a fresh node is pushed USED
      as its creator's node, USED -> COOLDOWN by [start_cooldown]; no other step touches any
      [in_use] or changes any thread's node (except giving it up for the cooldown);
    - a thread's node assertion is stable under every other thread's steps
      ([C11_interference_free]), and the tables of control words and handover spaces stay
      well-formed when nodes are added ([C11_tables]);
    - steps of other threads never touch a thread's local node data ([C11_thread_local]).
    - the global theorem [C11_exclusive]: in EVERY reachable state (any schedule, any number of
      threads ever started, any programs) a node has at most one holder — a thread whose
      LocalNode points to it, or the thread running its cooldown — and [in_use = USED] exactly
      when it has one: bookkeeping is never used by two threads at a time.
    The numeric bound is checked by computation for strictly sequential churn (below: three
    threads one after the other use ONE node) and by the correspondence oracle; the literal
    "<= peak number of live threads" is false of the code (known finding D7: a writer inside a
    cooling node forces a new node), see known_findings.txt. 
    Also over all schedules ([Gen], under [GenBound] and no [set_generation]): the [active_writers]
    word of every node equals the number of frames holding a reservation in it, no node is ever
    marked UNUSED (since the D8 fix a node leaves cooldown straight into USED, taken by the thread
    that then checks the writers), and a node changes owner only when no writer is inside it
    ([C11_reservations]); [C11_every_state] gives the whole master invariant in every state of a
    run within [RunOK].
*)
From ASModel Require Import Base State Orderings_gen Step Run Progress Hist Local Inv InvTl InvProto InvStep Sum StepCases.
From ASModel Require Import GenDefs Gen1 Gen2 Gen EnvDefs Env4 Env AccDefs Acc1 Acc2 Acc3 Acc4 Acc5 Acc6 Acc7 Acc.
From ASModel Require Import ProtDefs Prot1 Prot11 Prot16 Prot Typed LinDefs Lin2 Lin Safe1 Safe2 Safe7 Safe8 Safe Main.
From ASModel Require Import Stale2 Stale2Inv.

Theorem C11_exclusive :
  forall cf inits progs sched,
    let s := fst (run cf (init_state inits progs) sched) in
    (forall t t' n, holder (thr s t) = Some n -> holder (thr s t') = Some n -> t = t') /\
    (forall n, n < nn s -> (mem (sh s) (LInUse n) = NODE_USED <-> exists t, holder (thr s t) = Some n)).
Proof. exact node_exclusive. Qed.

Theorem C11_ownership_transitions :
  forall cf s l p x s' l' evs nx,
    exec cf s l p x = (s', l', evs, nx) -> inuse_eff (mem s) (mem s') p l l' nx.
Proof. exact exec_inuse. Qed.

Theorem C11_thread_local :
  forall cf s t t' x, t' <> t -> thr (fst (step cf s t' x)) t = thr s t.
Proof. exact step_other. Qed.

Theorem C11_interference_free :
  forall b m m' l n top own,
    foreign_ok b m m' own -> n < b -> own <> Some n ->
    top_ok b m l n top -> top_ok b m' l n top.
Proof. exact top_ok_foreign. Qed.

Theorem C11_tables :
  forall cf s l p x s' l' evs nx n,
    (forall k, k < mem s LHead -> ctl_ok (mem s (LCtrl k)) (mem s LHead)) ->
    (forall k, k < mem s LHead -> is_env (mem s (LOffer k)) (mem s LHead)) ->
    pc_nodes_ok (mem s LHead) p -> gen_ok l ->
    (in_with p = true -> tl_node l = Some n /\ top_ok (mem s LHead) (mem s) l n (Some p)) ->
    exec cf s l p x = (s', l', evs, nx) ->
    mem s LHead <= mem s' LHead /\
    (forall k, k < mem s' LHead -> ctl_ok (mem s' (LCtrl k)) (mem s' LHead)) /\
    (forall k, k < mem s' LHead -> is_env (mem s' (LOffer k)) (mem s' LHead)).
Proof. exact exec_tables. Qed.

(** Sequential churn: three threads, each starting after its predecessor is gone, share one
    node; at the end it is in cooldown with no writer inside. *)
Definition ex_cf := mkConfig true true.
Definition ex_s0 := init_state [4096]
  [[CLoad 0 1; CDrop 1]; [CJoin 0; CNew 2; CStore 0 (SHandle 2)]; [CJoin 1; CLoadFull 0 3; CDrop 3]].
Definition ex_sched : list (N * N) :=
  map (fun _ => (0, 0)) (seq 0 20) ++ map (fun _ => (1, 4112)) (seq 0 60) ++ map (fun _ => (2, 0)) (seq 0 40).
Definition ex_final := fst (run ex_cf ex_s0 ex_sched).
Example C11_sequential_churn_one_node :
  mem (sh ex_final) LHead = 1 /\ mem (sh ex_final) (LInUse 0) = NODE_COOLDOWN /\
  mem (sh ex_final) (LWriters 0) = 0 /\
  t_status (thr ex_final 0) = Exited /\ t_status (thr ex_final 1) = Exited /\ t_status (thr ex_final 2) = Exited.
Proof. vm_compute. repeat split; reflexivity. Qed.

Theorem C11_reservations : forall cf inits progs sched,
  (forall p, In p progs -> forall g, ~ In (CSetGen g) p) ->
  (forall k, GenBound (run_state cf (init_state inits progs) (firstn k sched))) ->
  NoFault (run_state cf (init_state inits progs) sched) ->
  let s := run_state cf (init_state inits progs) sched in
  W_inv s /\ NoUnused s.
Proof.
  intros cf inits progs sched H1 H2 H3 s.
  pose proof (run_GenInv_bound cf inits progs sched H1 H2 H3) as G.
  destruct G as [_ _ G]. split; [exact (g_w _ G)|exact (g_nu _ G)].
Qed.

Theorem C11_every_state : forall cf inits progs sched,
  RunOK cf inits progs sched -> forall k, Master (St cf (init_state inits progs) sched k).
Proof. exact RunOK_Master. Qed.

Print Assumptions C11_exclusive.
Print Assumptions C11_ownership_transitions.
Print Assumptions C11_thread_local.
Print Assumptions C11_interference_free.
Print Assumptions C11_tables.
Print Assumptions C11_sequential_churn_one_node.
Print Assumptions C11_reservations.
Print Assumptions C11_every_state.

(** ** With the four weakened loads of [Stale2.step_stale2] (two of them are the loads of
    [Node::get]: the look at `in_use` and the head read): node exclusivity, the reservation count and
    all other parts of the master invariant hold in every state of every run within [RunOKS2]. *)
Theorem C11_every_state_stale2 : forall cf inits progs sched,
  RunOKS2 cf inits progs sched -> forall k, Master (StS2 cf (init_state inits progs) sched k).
Proof. exact run_stale2_Master. Qed.

Print Assumptions C11_every_state_stale2.
