(** * C12 — containers are isolated although they share per-thread borrow slots.

    Proved so far over ASModel:
    - an operation on container [c] writes no other container's storage: every step of every
      frame leaves [LStore c'] alone unless it is the exchange of a writer on [c'] itself, and
      the writes of each container form their own chain ([C12_only_own_storage],
      [C12_writes_form_chain], all schedules);
    - a writer helps a reader only if the reader announced the writer's OWN storage address;
      otherwise it re-validates the control word and goes on ([C12_help_only_matching_storage]);
    - a writer pays a slot only if it holds exactly the pointer it removed, whatever container
      the debt was created for; the reader gives an over-payment back as exactly one reference
      ([C12_pay_slot], [C12_guard_drop]);
    - a writer never waits for a reader of any container (C09) and a load is wait-free (C08).
    NOT yet proved (partial): "a reader of A is never handed a value only stored in B" over all
    schedules on the helping path (needs the uniqueness of generations within a node's
    ownership epoch; defects D2 and D8, both found and repaired, were violations of exactly
    this), and exact counts with one value in several containers ([Acc*], in progress).
    Checked on every run by the correspondence oracle (provenance of every loaded identity per
    container; multi-container programs incl. one value stored in several containers) and by
    the grid of the D8 schedule shape. *)
From ASModel Require Import Base State Orderings_gen Step Run Progress Hist Local.

Theorem C12_only_own_storage : forall cf s t x c,
  store_effect c (mem (sh s)) (mem (sh (fst (step cf s t x)))) (snd (step cf s t x))
  \/ consumes_now s t c.
Proof. exact step_store_effect. Qed.

Theorem C12_writes_form_chain : forall cf c sched s,
  never_consumed c s ->
  chain (mem (sh s) (LStore c)) (writes_of_trace c (snd (run cf s sched)))
        (mem (sh (fst (run cf s sched))) (LStore c)).
Proof. exact store_chain. Qed.

Theorem C12_help_only_matching_storage : forall cf s l c old w ctl x s' l' evs nx,
  exec cf s l (PE2 c old w ctl) x = (s', l', evs, nx) ->
  s' = s /\
  if mem s (LAddr w) =? store_val c
  then (exists frames, nx = NPush (frames ++ [WLoadFull]) (WHelpRepl c old w ctl)) \/ (exists ps, nx = NPanic ps)
  else nx = NGoto (PE3 c old w ctl) /\ l' = l.
Proof. exact help_only_matching_storage. Qed.

Theorem C12_pay_slot : forall cf s l c old w j x,
  exists e,
    exec cf s l (PS c old w j) x =
      (if mem s (LSlot w j) =? old then m_set s (LSlot w j) NONE else s, l, [e],
       if (mem s (LSlot w j) =? old) && negb (old =? 0) then NGoto (PSi c old w j) else after_slot c old w j).
Proof. exact pay_slot_step. Qed.

Theorem C12_guard_drop : forall cf s l v sl x,
  exists e,
    exec cf s l (GD1 v sl) x =
      (if mem s (slot_loc sl) =? v then m_set s (slot_loc sl) NONE else s, l, [e],
       if mem s (slot_loc sl) =? v then NRet RUnit else dec_then v RUnit).
Proof. exact guard_drop_step. Qed.

Print Assumptions C12_only_own_storage.
Print Assumptions C12_writes_form_chain.
Print Assumptions C12_help_only_matching_storage.
Print Assumptions C12_pay_slot.
Print Assumptions C12_guard_drop.
