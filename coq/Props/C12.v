(** * C12 — containers are isolated although they share per-thread borrow slots.

    Proved so far over ASModel:
    - an operation on container [c] writes no other container's storage: every step of every
      frame leaves [LStore c'] alone unless it is the exchange of a writer on [c'] itself, and
      the writes of each container form their own chain ([C12_only_own_storage],
      [C12_writes_form_chain], all schedules);
    - a writer helps a reader only if the reader announced the writer's OWN storage address;
      otherwise it re-validates the control word and goes on ([C12_help_only_matching_storage]);
    - a writer pays a slot only if it holds exactly the pointer it removed, whatever container
      the debt was created for; the reader gives an over-payment back as exactly one reference
      ([C12_pay_slot], [C12_guard_drop]);
    - a writer never waits for a reader of any container (C09) and a load is wait-free (C08).
    Beyond these step theorems (see END-TO-END below for what is now proved over all schedules): "a reader of A is never handed a value only stored in B" over all
    schedules on the helping path (needs the uniqueness of generations within a node's
    ownership epoch; defects D2 and D8, both found and repaired, were violations of exactly
    this), and exact counts with one value in several containers (now proved: see END-TO-END below).
    Checked on every run by the correspondence oracle (provenance of every loaded identity per
    container; multi-container programs incl. one value stored in several containers) and by
    the grid of the D8 schedule shape. 
    END-TO-END ([ASModel.Main], all schedules, any number of threads): the theorems below hold for
    every run from an initial configuration that satisfies [RunOK]: initial values are null or
    valid addresses; no program calls the verification hook [set_generation] or uses Cache; in
    every state of the run no generation counter is within 4 of wrapping ([GenBound]: a wrap needs
    2^62 fallback loads of one thread; the wrap itself is C13), a command's destination handle is
    empty and the source of a running clone is not dropped (conditions on the TEST PROGRAM, met by
    every generated program: the model driver checks them on every run and the evidence counts the
    runs inside this scope); the allocator hands out addresses that are not live, not null and not
    the empty-slot marker.
    [C12_load_own_container]: the value a completed load / load_full of container c put into its
    handle was the content of THIS container in one of the states between call and return - never
    a value only another container stored, also on the helping path where all containers share the
    nodes, slots, control words and envelopes; [C12_help_same_container]: if a writer's exchange
    of the control word succeeds, the request it answers is a request for the writer's own
    container; [C12_accounting] holds with any number of containers storing the same value.
*)
From ASModel Require Import Base State Orderings_gen Step Run Progress Hist Local Inv InvTl InvProto InvStep Sum StepCases.
From ASModel Require Import GenDefs Gen1 Gen2 Gen EnvDefs Env4 Env AccDefs Acc1 Acc2 Acc3 Acc4 Acc5 Acc6 Acc7 Acc.
From ASModel Require Import ProtDefs Prot1 Prot11 Prot16 Prot Typed LinDefs Lin2 Lin Safe1 Safe2 Safe7 Safe8 Safe Main.
From ASModel Require Import Stale StaleInv.
From ASModel Require Import Stale2 Stale2Inv.

Theorem C12_only_own_storage : forall cf s t x c,
  store_effect c (mem (sh s)) (mem (sh (fst (step cf s t x)))) (snd (step cf s t x))
  \/ consumes_now s t c.
Proof. exact step_store_effect. Qed.

Theorem C12_writes_form_chain : forall cf c sched s,
  never_consumed c s ->
  chain (mem (sh s) (LStore c)) (writes_of_trace c (snd (run cf s sched)))
        (mem (sh (fst (run cf s sched))) (LStore c)).
Proof. exact store_chain. Qed.

Theorem C12_help_only_matching_storage : forall cf s l c old w ctl x s' l' evs nx,
  exec cf s l (PE2 c old w ctl) x = (s', l', evs, nx) ->
  s' = s /\
  if mem s (LAddr w) =? store_val c
  then (exists frames, nx = NPush (frames ++ [WLoadFull]) (WHelpRepl c old w ctl)) \/ (exists ps, nx = NPanic ps)
  else nx = NGoto (PE3 c old w ctl) /\ l' = l.
Proof. exact help_only_matching_storage. Qed.

Theorem C12_pay_slot : forall cf s l c old w j x,
  exists e,
    exec cf s l (PS c old w j) x =
      (if mem s (LSlot w j) =? old then m_set s (LSlot w j) NONE else s, l, [e],
       if (mem s (LSlot w j) =? old) && negb (old =? 0) then NGoto (PSi c old w j) else after_slot c old w j).
Proof. exact pay_slot_step. Qed.

Theorem C12_guard_drop : forall cf s l v sl x,
  exists e,
    exec cf s l (GD1 v sl) x =
      (if mem s (slot_loc sl) =? v then m_set s (slot_loc sl) NONE else s, l, [e],
       if mem s (slot_loc sl) =? v then NRet RUnit else dec_then v RUnit).
Proof. exact guard_drop_step. Qed.

Theorem C12_load_own_container :
  forall cf inits progs sched, RunOK cf inits progs sched ->
  forall t i c h full pa pb xa tb xb,
  let s0 := init_state inits progs in
  nth_error (t_prog (thr s0 t)) (N.to_nat i) = Some (if full : bool then CLoadFull c h else CLoad c h) ->
  (pa <= pb)%nat ->
  nth_error sched pa = Some (t, xa) ->
  t_status (thr (St cf s0 sched pa) t) = Running -> t_stack (thr (St cf s0 sched pa) t) = [] ->
  t_cmdi (thr (St cf s0 sched pa) t) = i ->
  nth_error sched pb = Some (tb, xb) ->
  t_cmdi (thr (St cf s0 sched pb) t) = i -> t_cmdi (thr (St cf s0 sched (S pb)) t) = i + 1 ->
  exists v k, handle_ptr (hnd (St cf s0 sched (S pb)) h) = Some v /\
              (pa + 1 <= k <= pb + 1)%nat /\ mem (sh (St cf s0 sched k)) (LStore c) = v.
Proof. intros cf inits progs sched R. exact (Main.C12_load_own_container cf inits progs sched R). Qed.

Theorem C12_help_same_container : forall s t c old w ctl r their mine rest,
  WF2 s -> Quiet s -> GenInv s -> t_status (thr s t) = Running ->
  t_stack (thr s t) = PE7 c old w ctl r their mine :: rest ->
  mem (sh s) (LCtrl w) = ctl ->
  exists th, th <> t /\ owner (thr s th) = Some w /\ req_of (thr s th) = Some (c, ctl) /\
             mem (sh s) (LOffer w) = their.
Proof. exact help_cas_sound. Qed.

Theorem C12_accounting : forall cf inits progs sched,
  RunOK cf inits progs sched -> Acc (run_state cf (init_state inits progs) sched).
Proof. exact Main.C02_accounting. Qed.

Print Assumptions C12_only_own_storage.
Print Assumptions C12_writes_form_chain.
Print Assumptions C12_help_only_matching_storage.
Print Assumptions C12_pay_slot.
Print Assumptions C12_guard_drop.
Print Assumptions C12_load_own_container.
Print Assumptions C12_help_same_container.
Print Assumptions C12_accounting.

(** ** With stale first reads of the fast path ([Stale.step_stale], see Props/C01.v). *)
Theorem C12_load_own_container_stale cf inits progs sched :
  RunOKS cf inits progs sched ->
  let s0 := init_state inits progs in
  forall t i c h (full : bool) pa pb xa tb xb,
  nth_error (t_prog (thr s0 t)) (N.to_nat i) = Some (if full then CLoadFull c h else CLoad c h) ->
  (pa <= pb)%nat ->
  nth_error sched pa = Some (t, xa) ->
  t_status (thr (StS cf s0 sched pa) t) = Running -> t_stack (thr (StS cf s0 sched pa) t) = [] ->
  t_cmdi (thr (StS cf s0 sched pa) t) = i ->
  nth_error sched pb = Some (tb, xb) ->
  t_cmdi (thr (StS cf s0 sched pb) t) = i -> t_cmdi (thr (StS cf s0 sched (S pb)) t) = i + 1 ->
  exists v k, handle_ptr (hnd (StS cf s0 sched (S pb)) h) = Some v /\
    (pa + 1 <= k <= pb + 1)%nat /\ mem (sh (StS cf s0 sched k)) (LStore c) = v.
Proof. exact (StaleInv10.C12_load_own_container_stale cf inits progs sched). Qed.

Print Assumptions C12_load_own_container_stale.

(** ** With all four stale loads of [Stale2.step_stale2] (see Props/C01.v). *)
Theorem C12_load_own_container_stale2 cf inits progs sched :
  RunOKS2 cf inits progs sched ->
  let s0 := init_state inits progs in
  forall t i c h (full : bool) pa pb xa tb xb,
  nth_error (t_prog (thr s0 t)) (N.to_nat i) = Some (if full then CLoadFull c h else CLoad c h) ->
  (pa <= pb)%nat ->
  nth_error sched pa = Some (t, xa) ->
  t_status (thr (StS2 cf s0 sched pa) t) = Running -> t_stack (thr (StS2 cf s0 sched pa) t) = [] ->
  t_cmdi (thr (StS2 cf s0 sched pa) t) = i ->
  nth_error sched pb = Some (tb, xb) ->
  t_cmdi (thr (StS2 cf s0 sched pb) t) = i -> t_cmdi (thr (StS2 cf s0 sched (S pb)) t) = i + 1 ->
  exists v k, handle_ptr (hnd (StS2 cf s0 sched (S pb)) h) = Some v /\
    (pa + 1 <= k <= pb + 1)%nat /\ mem (sh (StS2 cf s0 sched k)) (LStore c) = v.
Proof. exact (Stale2Inv12.C12_load_own_container_stale2 cf inits progs sched). Qed.

Print Assumptions C12_load_own_container_stale2.
