(** * C13 — operations are total: no call panics, also across the generation wrap.

    Every [expect], [assert!], [debug_assert!] and [unreachable!] of the modelled code is a
    [NPanic] outcome of [Step.exec] (see [Base.panic_site]).  Proved here, Owicki–Gries style,
    over ASModel (all states, all scheduler choices, both debug settings, every value of the
    generation counter — the counter is an arbitrary multiple of four below 2^64, so histories
    longer than usize::MAX/4 slow-path reads are covered):
    - local correctness: if the acting thread's node satisfies the assertion attached to its
      top frame ([Inv.top_ok]: control word, helping slot and active address as a function of
      the program point), the frame refers to existing nodes and its node is marked in use,
      then its step does NOT panic and establishes the assertion of the next frame — including
      the step at which the generation wraps ([LH2] with [gt = GEN_TAG]) and the cooldown that
      follows ([C13_own_step]); frames of a thread without a node, and the thread-local
      continuation after a call returns, cannot panic either ([C13_no_node_step],
      [C13_resume]);
    - interference freedom: the assertion of a node's holder is stable under every step of
      every other thread ([C13_interference_free], from [exec_foreign]: others only empty debt
      slots and may only replace a generation in the control word by a handover address);
    - ownership transitions and the tables of control words / handover spaces are preserved
      ([C13_inuse_transitions], [C13_tables]).
    - the global theorem [C13_total]: these obligations are assembled by induction over
      schedules ([InvStep.WF2] holds in every reachable state): NO step of ANY run from ANY
      initial configuration (any containers, any number of threads, any programs, any schedule,
      both strategies, debug assertions on or off) emits a panic; and every reachable state
      satisfies [WF2], so all other theorems proved from [WF2] continue to hold after a wrap
      ([C13_after_wrap]).
    Out of scope: overflow of the pointee's own reference counter, allocation failure, and the
    [unwind] of user panics (C18).  "Does not hang" is C08/C09. 
    "AFTER SUCH A WRAP-AROUND ALL OTHER GUARANTEES CONTINUE TO HOLD" ([ASModel.Wrp*], all schedules): the
    master invariant is re-proved WITHOUT the bound on the generation counters: generation uniqueness
    is stated with a modular age ([GUW]: the owner's counter is at most B ahead, modulo 2^64, of every
    word a helper holds, where B grows by 4 per step), so it survives the wrap as long as the run has
    fewer than 2^62 steps; the [set_generation] hook is allowed as the FIRST command of a thread (any
    value - this is how a thread "has already performed 2^62 fallback loads").  For every run within
    [RunOKW]: no use after free ([C13_wrap_no_use_after_free]), exact accounting
    ([C13_wrap_accounting]), linearizable loads ([C13_wrap_load_linearizable]) - through the wrap, the
    cooldown of the node it triggers and the re-claim.  [C13_wrap_scope_inhabited]: a checked 112-step
    run in which a thread presets its counter to 2^64 - 8, wraps in its second fallback load, is helped
    by a writer on the wrapped generation, gives its node up and re-claims one.
*)
From ASModel Require Import Base State Orderings_gen Step Run Progress Hist Inv InvTl InvProto InvStep Sum StepCases.
From ASModel Require Import GenDefs Gen1 Gen2 Gen EnvDefs Env4 Env AccDefs Acc1 Acc2 Acc3 Acc4 Acc5 Acc6 Acc7 Acc.
From ASModel Require Import ProtDefs Prot1 Prot11 Prot16 Prot Typed LinDefs Lin2 Lin Safe1 Safe2 Safe7 Safe8 Safe Main RunOKEx.
From ASModel Require Import WrpDefs WrpGen WrpEnv WrpMain WrpLin WrpEx WrpC03.
From ASModel Require Import Stale2 Stale2P Stale2Inv Stale2Wr Stale2WrEx.

Theorem C13_total :
  forall cf inits progs sched te e,
    In te (snd (run cf (init_state inits progs) sched)) -> In e (snd te) ->
    match e with EvPanic _ => False | _ => True end.
Proof. exact no_panic_in_any_run. Qed.

Theorem C13_after_wrap :
  forall cf inits progs sched, WF2 (fst (run cf (init_state inits progs) sched)).
Proof. intros. apply (run_WF2 cf sched _ (WF2_init inits progs)). Qed.

Theorem C13_own_step :
  forall cf s l p x s' l' evs nx n,
    own_of l p = Some n ->
    (in_with p = true -> tl_node l = Some n) ->
    (is_get p = true -> tl_node l = None) ->
    top_ok (mem s LHead) (mem s) l n (Some p) ->
    pc_nodes_ok (mem s LHead) p ->
    mem s (LInUse n) = NODE_USED ->
    gen_ok l ->
    (forall k, k < mem s LHead -> ctl_ok (mem s (LCtrl k)) (mem s LHead)) ->
    exec cf s l p x = (s', l', evs, nx) ->
    next_own_ok (mem s' LHead) (mem s') l' n nx.
Proof. exact exec_own. Qed.

Theorem C13_no_node_step :
  forall cf s l p x s' l' evs nx,
    own_of l p = None -> in_with p = false ->
    exec cf s l p x = (s', l', evs, nx) ->
    match nx with NPanic _ => False | _ => True end.
Proof. exact exec_noown. Qed.

Theorem C13_resume :
  forall cf l w v l' nx bound m n,
    resume cf l w v = (l', nx) -> node_idle m n -> ret_node_ok l v ->
    next_own_ok bound m l' n nx.
Proof. exact resume_own. Qed.

Theorem C13_interference_free :
  forall cf s l p x s' l' evs nx lo n top,
    pc_nodes_ok (mem s LHead) p ->
    (in_with p = true -> tl_node l <> None) ->
    exec cf s l p x = (s', l', evs, nx) ->
    n < mem s LHead -> tl_node l <> Some n ->
    top_ok (mem s LHead) (mem s) lo n top ->
    top_ok (mem s LHead) (mem s') lo n top.
Proof.
  intros cf s l p x s' l' evs nx lo n top Hp Hw He Hlt Hne Ht.
  eapply top_ok_foreign; [eapply exec_foreign; eassumption|exact Hlt|exact Hne|exact Ht].
Qed.

Theorem C13_inuse_transitions :
  forall cf s l p x s' l' evs nx,
    exec cf s l p x = (s', l', evs, nx) -> inuse_eff (mem s) (mem s') p l l' nx.
Proof. exact exec_inuse. Qed.

Theorem C13_tables :
  forall cf s l p x s' l' evs nx n,
    (forall k, k < mem s LHead -> ctl_ok (mem s (LCtrl k)) (mem s LHead)) ->
    (forall k, k < mem s LHead -> is_env (mem s (LOffer k)) (mem s LHead)) ->
    pc_nodes_ok (mem s LHead) p -> gen_ok l ->
    (in_with p = true -> tl_node l = Some n /\ top_ok (mem s LHead) (mem s) l n (Some p)) ->
    exec cf s l p x = (s', l', evs, nx) ->
    mem s LHead <= mem s' LHead /\
    (forall k, k < mem s' LHead -> ctl_ok (mem s' (LCtrl k)) (mem s' LHead)) /\
    (forall k, k < mem s' LHead -> is_env (mem s' (LOffer k)) (mem s' LHead)).
Proof. exact exec_tables. Qed.

(** A concrete run through the wrap-around (fallback-only strategy, debug assertions on): the
    counter is preset two transactions before the wrap; three loads follow, the second wraps the
    counter, the node goes to cooldown and is re-acquired by the third.  No panic, and every
    load returns the stored value. *)
Definition ex_cf := mkConfig false true.
Definition ex_s0 := init_state [4096]
  [[CSetGen 18446744073709551608; CLoad 0 1; CDrop 1; CLoad 0 2; CDrop 2; CLoad 0 3; CDrop 3]].
Definition ex_sched : list (N * N) := map (fun _ => (0, 0)) (seq 0 70).
Definition is_panic (e : event) : bool := match e with EvPanic _ => true | _ => false end.
Definition ex_trace := snd (run ex_cf ex_s0 ex_sched).
Definition load_rets (tr : list (N * list event)) : list N :=
  flat_map (fun te => flat_map (fun e => match e with EvRet _ (RGuard p _) => [p] | _ => [] end) (snd te)) tr.
Example C13_wrap_example :
  existsb (fun te => existsb is_panic (snd te)) ex_trace = false
  /\ load_rets ex_trace = [4096; 4096; 4096]
  /\ t_status (thr (fst (run ex_cf ex_s0 ex_sched)) 0) = Exited
  /\ tl_gen (t_loc (thr (fst (run ex_cf ex_s0 ex_sched)) 0)) = 4.
Proof. vm_compute. repeat split; reflexivity. Qed.

Theorem C13_wrap_no_use_after_free : forall cf inits progs sched,
  RunOKW cf inits progs sched ->
  NoFault (run_state cf (init_state inits progs) sched) /\
  forall te, In te (snd (run cf (init_state inits progs) sched)) ->
    forall a, ~ In (EvFault (FDeadInc a)) (snd te) /\ ~ In (EvFault (FDeadDec a)) (snd te).
Proof. exact C01_no_use_after_free_wrap. Qed.

Theorem C13_wrap_accounting : forall cf inits progs sched,
  RunOKW cf inits progs sched -> Acc (run_state cf (init_state inits progs) sched).
Proof. exact C02_accounting_wrap. Qed.

Theorem C13_wrap_load_linearizable : forall cf inits progs sched, RunOKW cf inits progs sched ->
  forall t i cm c h pa pb xa tb xb,
  let s0 := init_state inits progs in
  nth_error (t_prog (thr s0 t)) (N.to_nat i) = Some cm -> is_load_of cm c h ->
  (pa <= pb)%nat ->
  nth_error sched pa = Some (t, xa) ->
  t_status (thr (St cf s0 sched pa) t) = Running -> t_stack (thr (St cf s0 sched pa) t) = [] ->
  t_cmdi (thr (St cf s0 sched pa) t) = i ->
  nth_error sched pb = Some (tb, xb) ->
  t_cmdi (thr (St cf s0 sched pb) t) = i -> t_cmdi (thr (St cf s0 sched (S pb)) t) = i + 1 ->
  exists v, (match cm with
             | CLoad _ _ => exists d, hnd (St cf s0 sched (S pb)) h = HGuard v d
             | _ => hnd (St cf s0 sched (S pb)) h = HOwned v
             end) /\
    exists k, (pa + 1 <= k <= pb + 1)%nat /\ mem (sh (St cf s0 sched k)) (LStore c) = v.
Proof. intros cf inits progs sched R. exact (C03_load_linearizable_wrap cf inits progs sched R). Qed.

Theorem C13_wrap_scope_inhabited : RunOKW wx_cf wx_inits wx_progs wx_sched.
Proof. exact RunOKW_example. Qed.

Print Assumptions C13_total.
Print Assumptions C13_after_wrap.
Print Assumptions C13_own_step.
Print Assumptions C13_no_node_step.
Print Assumptions C13_resume.
Print Assumptions C13_interference_free.
Print Assumptions C13_inuse_transitions.
Print Assumptions C13_tables.
Print Assumptions C13_wrap_example.
Print Assumptions C13_wrap_no_use_after_free.
Print Assumptions C13_wrap_accounting.
Print Assumptions C13_wrap_load_linearizable.
Print Assumptions C13_wrap_scope_inhabited.

(** ** With the four weakened loads of [Stale2.step_stale2]: still no panic in any run, from every
    initial configuration, for all programs and schedules - whatever values the stale loads return
    (the only condition, [Stale2Sched], is that a stale head is an OLDER head; the first read of the
    fast path may even be null or garbage: no debug assertion looks at it). *)
Theorem C13_total_stale2 : forall cf inits progs sched,
  Stale2Sched cf (init_state inits progs) sched ->
  forall te, In te (snd (run_stale2 cf (init_state inits progs) sched)) ->
  forall ps, ~ In (EvPanic ps) (snd te).
Proof. exact Stale2P2.C13_total_stale2. Qed.

Theorem C13_after_wrap_stale2 : forall cf inits progs sched,
  Stale2Sched cf (init_state inits progs) sched ->
  WF2 (run_state_stale2 cf (init_state inits progs) sched).
Proof. exact run_stale2_WF2. Qed.

Print Assumptions C13_total_stale2.
Print Assumptions C13_after_wrap_stale2.

(** ** The generation WRAP together with the four weakened loads of [Stale2.step_stale2]: the
    eighth-slot case of a stale scan is itself a step that advances the generation counter and may
    wrap it.  [RunOKWS2] = [RunOKW] over the states of the stale run plus [stale2_ok]. *)
Theorem C13_wrap_no_use_after_free_stale2 : forall cf inits progs sched,
  RunOKWS2 cf inits progs sched ->
  NoFault (run_state_stale2 cf (init_state inits progs) sched) /\
  forall te, In te (snd (run_stale2 cf (init_state inits progs) sched)) ->
    forall a, ~ In (EvFault (FDeadInc a)) (snd te) /\ ~ In (EvFault (FDeadDec a)) (snd te).
Proof. exact C01_no_use_after_free_wrap_stale2. Qed.

Theorem C13_wrap_accounting_stale2 : forall cf inits progs sched,
  RunOKWS2 cf inits progs sched -> Acc (run_state_stale2 cf (init_state inits progs) sched).
Proof. exact C02_accounting_wrap_stale2. Qed.

Theorem C13_wrap_load_linearizable_stale2 :
  forall cf inits progs sched, RunOKWS2 cf inits progs sched ->
    forall t i cm c h pa pb xa tb xb,
      let s0 := init_state inits progs in
      nth_error (t_prog (thr s0 t)) (N.to_nat i) = Some cm -> is_load_of cm c h ->
      (pa <= pb)%nat ->
      nth_error sched pa = Some (t, xa) ->
      t_status (thr (StS2 cf s0 sched pa) t) = Running -> t_stack (thr (StS2 cf s0 sched pa) t) = [] ->
      t_cmdi (thr (StS2 cf s0 sched pa) t) = i ->
      nth_error sched pb = Some (tb, xb) ->
      t_cmdi (thr (StS2 cf s0 sched pb) t) = i -> t_cmdi (thr (StS2 cf s0 sched (S pb)) t) = i + 1 ->
      exists v, (match cm with
                 | CLoad _ _ => exists d, hnd (StS2 cf s0 sched (S pb)) h = HGuard v d
                 | _ => hnd (StS2 cf s0 sched (S pb)) h = HOwned v
                 end) /\
        exists k, (pa + 1 <= k <= pb + 1)%nat /\ mem (sh (StS2 cf s0 sched k)) (LStore c) = v.
Proof. exact C03_load_linearizable_wrap_stale2. Qed.

(** Every run within [RunOKS2] that is short enough is within [RunOKWS2] (so the examples of
    [Stale2InvEx.v] inhabit it). *)
Theorem C13_wrap_stale2_scope : forall cf inits progs sched,
  RunOKS2 cf inits progs sched -> 4 * N.of_nat (length sched) + 8 < WORD -> RunOKWS2 cf inits progs sched.
Proof. exact RunOKS2_RunOKWS2. Qed.

(** Non-vacuity with an actual wrap: a checked run within [RunOKWS2] in which the reader's counter is
    preset to WORD - 4, eight stale scans (every slot is empty, each scan is answered with the paid
    4096) send its ninth load to the fallback, and THAT stale step wraps the counter to 0; the load
    returns the current value, nobody faults. *)
Theorem C13_wrap_stale2_scope_inhabited : RunOKWS2 wsx_cf wsx_inits wsx_progs wsx_sched.
Proof. exact RunOKWS2_wrap_example. Qed.

Theorem C13_wrap_stale2_wraps :
  tl_gen (t_loc (thr (wsx_St 104) 0)) = WORD - 4 /\ tl_gen (t_loc (thr (wsx_St 105) 0)) = 0 /\
  tl_gen (t_loc (thr (wsx_St 104) 0)) + 4 = WORD.
Proof. exact wsx_wrapped. Qed.

Print Assumptions C13_wrap_no_use_after_free_stale2.
Print Assumptions C13_wrap_stale2_scope_inhabited.
Print Assumptions C13_wrap_stale2_wraps.
Print Assumptions C13_wrap_accounting_stale2.
Print Assumptions C13_wrap_load_linearizable_stale2.
Print Assumptions C13_wrap_stale2_scope.
