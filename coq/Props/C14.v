(** * C14 — all strategies implement one sequential specification, counts included.

    Specification (Seq.SeqSpec): a container is a plain variable holding an optional object
    identity, every handle (value or guard) is one owned reference, counts are those of a textbook
    reference-count heap.  Implementations (Seq.SeqImpl): one-thread, API-call-granularity models of
    [DefaultStrategy] = [Hybrid true] (8 fast debt slots: a guard borrows while its slot holds the
    pointer, writers pay the debts), [FillFastSlots] = [Hybrid false] (fallback only) and
    [RwLock<()>] = [RwLock], transliterated from /repo/src/lib.rs, src/strategy/{hybrid,rw_lock,
    test_strategies}.rs, src/debt/{fast,mod}.rs, src/as_raw.rs.

    The theorems quantify over ALL programs (lists of [op] over new/from_pointee/empty, load,
    load_full, Guard::into_inner, Guard::from_inner, drop of values and guards in any order, store,
    swap, compare_and_swap with all eight forms of [current], rcu, into_inner, drop of a container),
    any number of containers and handle registers, values including None, and each strategy.
    [run_spec]/[run_impl] list the result of every call and the state after it; [Forall2] relates
    them position by position, i.e. "after every step". *)
From Coq Require Import List Arith.
From Seq Require Import SeqSpec SeqImpl SeqRefine.
Import ListNotations.

(** Every strategy: after every step the call returned the same identity (and the same verdict of
    compare_and_swap) as the plain variable would, the containers and handles denote the same objects,
    and for every object  count_impl + unpaid debts = count_spec. *)
Theorem C14_every_strategy_refines_spec :
  forall st ncont nhand prog,
    Forall2 obs_rel (run_spec prog (s_init ncont nhand)) (run_impl st prog (i_init ncont nhand)).
Proof. exact refines_spec. Qed.

Theorem C14_hybrid :
  forall fast ncont nhand prog,
    Forall2 obs_rel (run_spec prog (s_init ncont nhand)) (run_impl (Hybrid fast) prog (i_init ncont nhand)).
Proof. intros fast. exact (refines_spec (Hybrid fast)). Qed.

(** The lock-based reference strategy and the fallback-only strategy never leave a debt: their
    counts are the specification's after every step (unpaid debts = 0). *)
Theorem C14_rwlock :
  forall ncont nhand prog,
    Forall2 obs_exact (run_spec prog (s_init ncont nhand)) (run_impl RwLock prog (i_init ncont nhand)).
Proof. intros. now apply owning_refines_exactly. Qed.

Theorem C14_fallback_only :
  forall ncont nhand prog,
    Forall2 obs_exact (run_spec prog (s_init ncont nhand)) (run_impl (Hybrid false) prog (i_init ncont nhand)).
Proof. intros. now apply owning_refines_exactly. Qed.

(** After dropping the guards (in particular after dropping all handles) the counts coincide
    exactly, under every strategy: holding guards across writes changed only whether a guard
    borrowed or owned. *)
Theorem C14_final :
  forall st ncont nhand prog,
    Forall2 obs_final (run_spec prog (s_init ncont nhand)) (run_impl st prog (i_init ncont nhand)).
Proof. exact final_counts. Qed.

(** The step-wise simulation behind the above, from ANY related pair of states. *)
Theorem C14_step :
  forall st o s i, R s i ->
    R (fst (spec_step s o)) (fst (impl_step st i o)) /\ snd (spec_step s o) = snd (impl_step st i o).
Proof. exact step_refines. Qed.

(** No decrement of a model ever meets a zero count: whatever a container stores, and whatever a
    handle that is not covered by its debt slot denotes, has a positive implementation count. *)
Theorem C14_counts_positive :
  forall st ncont nhand prog,
    Forall2 obs_safe (run_spec prog (s_init ncont nhand)) (run_impl st prog (i_init ncont nhand)).
Proof. exact counts_safe. Qed.

(** compare_and_swap returns what was stored and succeeds iff the stored pointer equals the raw
    pointer [current] denotes — in the specification and, by refinement, under every strategy. *)
Theorem C14_cas_spec :
  forall c cu r s, valid (s_cont s) (s_hand s) (OCas c cu r) = true ->
    snd (spec_step s (OCas c cu r)) = RCas (stored s c) (ptr_eqb (stored s c) (raw_of s cu)) /\
    (ptr_eqb (stored s c) (raw_of s cu) = true <-> stored s c = raw_of s cu).
Proof. exact spec_cas_meaning. Qed.

Theorem C14_cas_impl :
  forall st c cu r s i, R s i -> valid (s_cont s) (s_hand s) (OCas c cu r) = true ->
    snd (impl_step st i (OCas c cu r)) = RCas (stored s c) (ptr_eqb (stored s c) (raw_of s cu)).
Proof. exact impl_cas_meaning. Qed.

(** All forms of [current] made from one handle denote the same raw pointer (src/as_raw.rs); the
    null forms and [&None] denote null. *)
Theorem C14_as_raw_forms :
  forall hs r g p, nth_error hs r = Some (Some (mkSH g p)) ->
    as_raw hs (CurConst r) = Some p /\ as_raw hs (CurMut r) = Some p /\
    (g = false -> as_raw hs (CurArc r) = Some p) /\
    (g = true -> as_raw hs (CurGuardRef r) = Some p /\ as_raw hs (CurGuardVal r) = Some p).
Proof. exact as_raw_forms. Qed.

Theorem C14_as_raw_null :
  forall hs, as_raw hs CurNullConst = Some None /\ as_raw hs CurNullMut = Some None /\ as_raw hs CurNone = Some None.
Proof. exact as_raw_null. Qed.

(** Non-vacuity.  One program, three strategies: a guard is held across a swap.  Under the default
    strategy the guard borrows (count 1, one unpaid debt) until the writer pays (count 2), and the guard returned by the
    failing compare_and_swap borrows too; under the
    other two it owns from the start; the results are the same and at the end all counts are 0. *)
Definition ex_prog : list op :=
  [OAlloc 2; ONew 0 2; OLoad 0 3; OAlloc 4; OSwap 0 4; ODrop 3; OClone 4 5; OCas 0 (CurConst 4) 5; ODrop 5; ODrop 4; ODropC 0].
Definition view (x : result * istate) := (fst x, counts (i_heap (snd x)), debt_list (snd x)).
Definition sview (x : result * sstate) := (fst x, counts (s_heap (snd x))).

Example C14_example_default :
  map view (run_impl (Hybrid true) ex_prog (i_init 1 6)) =
  [ (RPtr (Some 0), [1], [0]); (RUnit, [1], [0]); (RPtr (Some 0), [1], [1]); (RPtr (Some 1), [1; 1], [1; 0]);
    (RPtr (Some 0), [2; 1], [0; 0]); (RUnit, [1; 1], [0; 0]); (RPtr (Some 0), [2; 1], [0; 0]);
    (RCas (Some 1) false, [1; 1], [0; 1]); (RUnit, [1; 1], [0; 0]); (RUnit, [0; 1], [0; 0]); (RUnit, [0; 0], [0; 0]) ].
Proof. vm_compute. reflexivity. Qed.

Example C14_example_spec :
  map sview (run_spec ex_prog (s_init 1 6)) =
  [ (RPtr (Some 0), [1]); (RUnit, [1]); (RPtr (Some 0), [2]); (RPtr (Some 1), [2; 1]);
    (RPtr (Some 0), [2; 1]); (RUnit, [1; 1]); (RPtr (Some 0), [2; 1]);
    (RCas (Some 1) false, [1; 2]); (RUnit, [1; 1]); (RUnit, [0; 1]); (RUnit, [0; 0]) ].
Proof. vm_compute. reflexivity. Qed.

Example C14_example_rwlock :
  map view (run_impl RwLock ex_prog (i_init 1 6)) =
  map (fun x => (fst x, snd x, map (fun _ => 0) (snd x))) (map sview (run_spec ex_prog (s_init 1 6))).
Proof. vm_compute. reflexivity. Qed.

(** nine guards: the ninth finds no free slot and owns its reference (count 2 = container + that guard) *)
Example C14_example_nine_guards :
  let prog := [OAlloc 2; ONew 0 2] ++ map (fun r => OLoad 0 r) (seq 3 9) in
  map view (skipn 10 (run_impl (Hybrid true) prog (i_init 1 12))) = [ (RPtr (Some 0), [2], [8]) ] /\
  map sview (skipn 10 (run_spec prog (s_init 1 12))) = [ (RPtr (Some 0), [10]) ].
Proof. vm_compute. split; reflexivity. Qed.

Print Assumptions C14_every_strategy_refines_spec.
Print Assumptions C14_hybrid.
Print Assumptions C14_rwlock.
Print Assumptions C14_fallback_only.
Print Assumptions C14_final.
Print Assumptions C14_step.
Print Assumptions C14_counts_positive.
Print Assumptions C14_cas_spec.
Print Assumptions C14_cas_impl.
Print Assumptions C14_as_raw_forms.
Print Assumptions C14_as_raw_null.
Print Assumptions C14_example_default.
Print Assumptions C14_example_nine_guards.
