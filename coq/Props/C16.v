(** * C16 — Cache returns a current-or-newer value and retains at most one old value.

    Proved over ASModel (local step theorems, all states):
    - [Cache::load] first compares the cached pointer with the stored one; if they are equal it
      returns the cached value and touches nothing; otherwise it performs exactly one
      [load_full] of the container ([C16_revalidate]);
    - after the reload the previously cached value is released exactly once and the cache holds
      the value [load_full] returned ([C16_replace_releases_old]).
    With C03 (load_full returns a value stored during the call) this gives "never a value that
    was never stored" and, with the coherence of the compared location, monotonicity.
    The Relaxed comparison read is modelled sequentially consistent (orderings: C07); MapCache is not modelled. 
    OVER ALL SCHEDULES ([ASModel.LinCache], instrumented runs as for C03): [C16_cache_linearizable] -
    a completed [Cache::new] / [Cache::load] (command number i of thread t, started at position pa of
    the schedule, completed at pb) leaves in the cache a value v that the underlying container stored
    in one of the states between the call and the return: on the hit path the instant is the peek (the
    storage equals the cached address then), on the miss path the linearization instant of the inner
    load_full; hence never a value that was never stored, and at least as new as every store completed
    before the call.  Hypotheses: no [set_generation] in the programs, no generation counter within 4
    of wrapping, and no thread faults in the run (the invariant that proves fault freedom, C01, does
    not cover Cache commands, so this stays a hypothesis here).  Successive loads of one cache are
    monotone: their instants are strictly ordered ([cache_loads_monotone] in LinCache.v).

    WITH FAULT FREEDOM PROVED ([ASModel.Cch*]): the master invariant is re-proved for programs WITH Cache
    commands ([MasterC]: the reference a cache owns is counted in the frames of a running cache load and
    cancelled against its handle); [C16_no_fault] - no thread faults in any run within [RunOKC] (as
    [Main.RunOK], Cache commands allowed, plus: no other thread touches a cache handle while its load
    runs - Cache::load takes &mut self); [C16_cache_linearizable_total] is [C16_cache_linearizable] with
    the fault-freedom hypothesis discharged; [C16_scope_inhabited]: a checked run with a cache hit and
    a cache miss that destroys the superseded value satisfies the hypotheses.
*)
From ASModel Require Import Base State Orderings_gen Step Run Progress Hist Inv InvTl InvProto InvStep Sum StepCases.
From ASModel Require Import GenDefs Gen1 Gen2 Gen EnvDefs Env4 Env LinDefs Lin2 Lin LinCache.
From ASModel Require Import Safe Main CchMain CchEx.

Theorem C16_revalidate :
  forall cf s l c a k x,
    exists e,
      if mem s (LStore c) =? a
      then exec cf s l (Q1 c a k) x = (s, l, [e], NRet (ROwned a))
      else (exists l' frames, exec cf s l (Q1 c a k) x = (s, l', [e], NPush (frames ++ [WLoadFull]) (WCacheReload c a k)))
           \/ (exists ps, exec cf s l (Q1 c a k) x = (s, l, [e], NPanic ps)).
Proof.
  intros. cbn. eexists. destruct (mem s (LStore c) =? a); [reflexivity|].
  destruct (enter_load cf l c) as [[l' fs]|ps]; [left|right]; eauto.
Qed.

Theorem C16_replace_releases_old :
  forall cf l c a k a',
    resume cf l (WCacheReload c a k) (ROwned a') =
    if a =? 0 then (l, NRet (ROwned a')) else (l, NGoto (PDec a (ROwned a'))).
Proof. reflexivity. Qed.

Theorem C16_cache_linearizable : forall cf inits progs sched t i cm c k pa pb xa tb xb,
  let s0 := init_state inits progs in
  (forall p, In p progs -> forall g, ~ In (CSetGen g) p) ->
  (forall j, GenBound (run_state cf s0 (firstn j sched))) ->
  NoFault (run_state cf s0 sched) ->
  nth_error (t_prog (thr s0 t)) (N.to_nat i) = Some cm ->
  cache_cmd_of (run_state cf s0 (firstn pa sched)) cm c k ->
  (pa <= pb)%nat ->
  nth_error sched pa = Some (t, xa) ->
  t_status (thr (run_state cf s0 (firstn pa sched)) t) = Running ->
  t_stack (thr (run_state cf s0 (firstn pa sched)) t) = [] ->
  t_cmdi (thr (run_state cf s0 (firstn pa sched)) t) = i ->
  nth_error sched pb = Some (tb, xb) ->
  t_cmdi (thr (run_state cf s0 (firstn pb sched)) t) = i ->
  t_cmdi (thr (run_state cf s0 (firstn (S pb) sched)) t) = i + 1 ->
  exists v, hnd (run_state cf s0 (firstn (S pb) sched)) k = HCache c v /\
    exists j, (pa + 1 <= j <= pb + 1)%nat /\ mem (sh (run_state cf s0 (firstn j sched))) (LStore c) = v.
Proof. exact cache_linearizable_bound. Qed.

Theorem C16_no_fault : forall cf inits progs sched,
  RunOKC cf inits progs sched ->
  NoFault (run_state cf (init_state inits progs) sched) /\
  forall te, In te (snd (run cf (init_state inits progs) sched)) ->
    forall a, ~ In (EvFault (FDeadInc a)) (snd te) /\ ~ In (EvFault (FDeadDec a)) (snd te).
Proof. exact CchC01_no_fault. Qed.

Theorem C16_cache_linearizable_total : forall cf inits progs sched t i cm c k pa pb xa tb xb,
  let s0 := init_state inits progs in
  RunOKC cf inits progs sched ->
  nth_error (t_prog (thr s0 t)) (N.to_nat i) = Some cm ->
  cache_cmd_of (run_state cf s0 (firstn pa sched)) cm c k ->
  (pa <= pb)%nat ->
  nth_error sched pa = Some (t, xa) ->
  t_status (thr (run_state cf s0 (firstn pa sched)) t) = Running ->
  t_stack (thr (run_state cf s0 (firstn pa sched)) t) = [] ->
  t_cmdi (thr (run_state cf s0 (firstn pa sched)) t) = i ->
  nth_error sched pb = Some (tb, xb) ->
  t_cmdi (thr (run_state cf s0 (firstn pb sched)) t) = i ->
  t_cmdi (thr (run_state cf s0 (firstn (S pb) sched)) t) = i + 1 ->
  exists v, hnd (run_state cf s0 (firstn (S pb) sched)) k = HCache c v /\
    exists j, (pa + 1 <= j <= pb + 1)%nat /\ mem (sh (run_state cf s0 (firstn j sched))) (LStore c) = v.
Proof. exact CchC16_cache_linearizable. Qed.

Theorem C16_scope_inhabited : exists cf inits progs sched, RunOKC cf inits progs sched.
Proof. do 4 eexists. exact RunOKC_example. Qed.

Print Assumptions C16_revalidate.
Print Assumptions C16_replace_releases_old.
Print Assumptions C16_cache_linearizable.
Print Assumptions C16_no_fault.
Print Assumptions C16_cache_linearizable_total.
Print Assumptions C16_scope_inhabited.
