(** * C16 — Cache returns a current-or-newer value and retains at most one old value.

    Proved over ASModel (local step theorems, all states):
    - [Cache::load] first compares the cached pointer with the stored one; if they are equal it
      returns the cached value and touches nothing; otherwise it performs exactly one
      [load_full] of the container ([C16_revalidate]);
    - after the reload the previously cached value is released exactly once and the cache holds
      the value [load_full] returned ([C16_replace_releases_old]).
    With C03 (load_full returns a value stored during the call) this gives "never a value that
    was never stored" and, with the coherence of the compared location, monotonicity.
    The Relaxed comparison read is modelled sequentially consistent (orderings: C07); MapCache is not modelled. 
    OVER ALL SCHEDULES ([ASModel.LinCache], instrumented runs as for C03): [C16_cache_linearizable] -
    a completed [Cache::new] / [Cache::load] (command number i of thread t, started at position pa of
    the schedule, completed at pb) leaves in the cache a value v that the underlying container stored
    in one of the states between the call and the return: on the hit path the instant is the peek (the
    storage equals the cached address then), on the miss path the linearization instant of the inner
    load_full; hence never a value that was never stored, and at least as new as every store completed
    before the call.  Hypotheses: no [set_generation] in the programs, no generation counter within 4
    of wrapping, and no thread faults in the run (the invariant that proves fault freedom, C01, does
    not cover Cache commands, so this stays a hypothesis here).  Successive loads of one cache are
    monotone: their instants are strictly ordered ([cache_loads_monotone] in LinCache.v).

    WITH FAULT FREEDOM PROVED ([ASModel.Cch*]): the master invariant is re-proved for programs WITH Cache
    commands ([MasterC]: the reference a cache owns is counted in the frames of a running cache load and
    cancelled against its handle); [C16_no_fault] - no thread faults in any run within [RunOKC] (as
    [Main.RunOK], Cache commands allowed, plus: no other thread touches a cache handle while its load
    runs - Cache::load takes &mut self); [C16_cache_linearizable_total] is [C16_cache_linearizable] with
    the fault-freedom hypothesis discharged; [C16_scope_inhabited]: a checked run with a cache hit and
    a cache miss that destroys the superseded value satisfies the hypotheses.
*)
From ASModel Require Import Base State Orderings_gen Step Run Progress Hist Inv InvTl InvProto InvStep Sum StepCases.
From ASModel Require Import GenDefs Gen1 Gen2 Gen EnvDefs Env4 Env LinDefs Lin2 Lin LinCache.
From ASModel Require Import Safe Main CchMain CchEx.
From ASModel Require Import Stale Stale2 StaleC StaleCView StaleCInv StaleCInvEx Stale3Fresh Stale3FreshEx Stale3St.

Theorem C16_revalidate :
  forall cf s l c a k x,
    exists e,
      if mem s (LStore c) =? a
      then exec cf s l (Q1 c a k) x = (s, l, [e], NRet (ROwned a))
      else (exists l' frames, exec cf s l (Q1 c a k) x = (s, l', [e], NPush (frames ++ [WLoadFull]) (WCacheReload c a k)))
           \/ (exists ps, exec cf s l (Q1 c a k) x = (s, l, [e], NPanic ps)).
Proof.
  intros. cbn. eexists. destruct (mem s (LStore c) =? a); [reflexivity|].
  destruct (enter_load cf l c) as [[l' fs]|ps]; [left|right]; eauto.
Qed.

Theorem C16_replace_releases_old :
  forall cf l c a k a',
    resume cf l (WCacheReload c a k) (ROwned a') =
    if a =? 0 then (l, NRet (ROwned a')) else (l, NGoto (PDec a (ROwned a'))).
Proof. reflexivity. Qed.

Theorem C16_cache_linearizable : forall cf inits progs sched t i cm c k pa pb xa tb xb,
  let s0 := init_state inits progs in
  (forall p, In p progs -> forall g, ~ In (CSetGen g) p) ->
  (forall j, GenBound (run_state cf s0 (firstn j sched))) ->
  NoFault (run_state cf s0 sched) ->
  nth_error (t_prog (thr s0 t)) (N.to_nat i) = Some cm ->
  cache_cmd_of (run_state cf s0 (firstn pa sched)) cm c k ->
  (pa <= pb)%nat ->
  nth_error sched pa = Some (t, xa) ->
  t_status (thr (run_state cf s0 (firstn pa sched)) t) = Running ->
  t_stack (thr (run_state cf s0 (firstn pa sched)) t) = [] ->
  t_cmdi (thr (run_state cf s0 (firstn pa sched)) t) = i ->
  nth_error sched pb = Some (tb, xb) ->
  t_cmdi (thr (run_state cf s0 (firstn pb sched)) t) = i ->
  t_cmdi (thr (run_state cf s0 (firstn (S pb) sched)) t) = i + 1 ->
  exists v, hnd (run_state cf s0 (firstn (S pb) sched)) k = HCache c v /\
    exists j, (pa + 1 <= j <= pb + 1)%nat /\ mem (sh (run_state cf s0 (firstn j sched))) (LStore c) = v.
Proof. exact cache_linearizable_bound. Qed.

Theorem C16_no_fault : forall cf inits progs sched,
  RunOKC cf inits progs sched ->
  NoFault (run_state cf (init_state inits progs) sched) /\
  forall te, In te (snd (run cf (init_state inits progs) sched)) ->
    forall a, ~ In (EvFault (FDeadInc a)) (snd te) /\ ~ In (EvFault (FDeadDec a)) (snd te).
Proof. exact CchC01_no_fault. Qed.

Theorem C16_cache_linearizable_total : forall cf inits progs sched t i cm c k pa pb xa tb xb,
  let s0 := init_state inits progs in
  RunOKC cf inits progs sched ->
  nth_error (t_prog (thr s0 t)) (N.to_nat i) = Some cm ->
  cache_cmd_of (run_state cf s0 (firstn pa sched)) cm c k ->
  (pa <= pb)%nat ->
  nth_error sched pa = Some (t, xa) ->
  t_status (thr (run_state cf s0 (firstn pa sched)) t) = Running ->
  t_stack (thr (run_state cf s0 (firstn pa sched)) t) = [] ->
  t_cmdi (thr (run_state cf s0 (firstn pa sched)) t) = i ->
  nth_error sched pb = Some (tb, xb) ->
  t_cmdi (thr (run_state cf s0 (firstn pb sched)) t) = i ->
  t_cmdi (thr (run_state cf s0 (firstn (S pb) sched)) t) = i + 1 ->
  exists v, hnd (run_state cf s0 (firstn (S pb) sched)) k = HCache c v /\
    exists j, (pa + 1 <= j <= pb + 1)%nat /\ mem (sh (run_state cf s0 (firstn j sched))) (LStore c) = v.
Proof. exact CchC16_cache_linearizable. Qed.

Theorem C16_scope_inhabited : exists cf inits progs sched, RunOKC cf inits progs sched.
Proof. do 4 eexists. exact RunOKC_example. Qed.

Print Assumptions C16_revalidate.
Print Assumptions C16_replace_releases_old.
Print Assumptions C16_cache_linearizable.
Print Assumptions C16_no_fault.
Print Assumptions C16_cache_linearizable_total.
Print Assumptions C16_scope_inhabited.

(** ** The Relaxed revalidating read of [Cache::load] may be stale.

    [StaleC.step_staleC] is [step] except that the read of `Cache::revalidate` ([Q1]) may be answered
    with an OLDER value of the storage.  Unlike the loads weakened in [Stale2] its value IS trusted: a
    stale value equal to the cached pointer makes the cache return its old value, so the statement for
    sequentially consistent runs ([C16_cache_linearizable]) is FALSE for these runs
    ([C16_stale_not_linearizable] below is a concrete run).  What C16 asks for - and what holds - is
    freshness relative to happens-before, which [StaleCView.v] tracks with histories and views:
    [vh c] the modification order of container [c], [vt t c] the newest write of [c] that
    happens-before thread [t]'s next step (program order, and release/acquire through the storages),
    [vc k] an index of the value cache [k] holds.  [RunOKSC] = [RunOKC] for such runs plus
    [staleC_ok]: the value supplied is a write the thread may still read.

    A completed [Cache::new]/[Cache::load] of cache [k] on container [c] leaves in the cache a value
    [v] that is write number [j] of [c], where [j] is
    - not older than anything that happens-before the call ([vt .. pa t c <= j]: FRESH), and
    - for a load: not older than what the cache held before ([vc .. pa k <= j]: MONOTONE);
    it is never a value that was not stored.  ([vc] after the command is [j], or - when a reload
    returned the very pointer the cache held - an earlier write of the same value.) *)
Theorem C16_cache_fresh_stale : forall cf inits progs sched t i cm c k pa pb xa tb xb,
  let s0 := init_state inits progs in
  RunOKSC cf inits progs sched ->
  (forall p, NoCacheMove (StC cf s0 sched p)) ->
  never_consumed c s0 ->
  nth_error (t_prog (thr s0 t)) (N.to_nat i) = Some cm ->
  cache_cmd_of (StC cf s0 sched pa) cm c k ->
  (pa <= pb)%nat ->
  nth_error sched pa = Some (t, xa) ->
  t_status (thr (StC cf s0 sched pa) t) = Running ->
  t_stack (thr (StC cf s0 sched pa) t) = [] ->
  t_cmdi (thr (StC cf s0 sched pa) t) = i ->
  nth_error sched pb = Some (tb, xb) ->
  t_cmdi (thr (StC cf s0 sched pb) t) = i ->
  t_cmdi (thr (StC cf s0 sched (S pb)) t) = i + 1 ->
  exists v j,
    hnd (StC cf s0 sched (S pb)) k = HCache c v /\
    nth_error (vh (GC cf s0 sched (S pb)) c) j = Some v /\
    (vt (GC cf s0 sched pa) t c <= j)%nat /\
    (cm = CCacheLoad k -> (vc (GC cf s0 sched pa) k <= j)%nat) /\
    nth_error (vh (GC cf s0 sched (S pb)) c) (vc (GC cf s0 sched (S pb)) k) = Some v /\
    (vc (GC cf s0 sched (S pb)) k = j \/
     (hnd (StC cf s0 sched pb) k = HCache c v /\ (vc (GC cf s0 sched (S pb)) k <= j)%nat)).
Proof. exact C16_cache_fresh_staleC. Qed.

(** No use after free in such runs (the cache keeps its old value alive). *)
Theorem C16_no_fault_stale : forall cf inits progs sched,
  RunOKSC cf inits progs sched ->
  NoFault (run_state_staleC cf (init_state inits progs) sched) /\
  forall te, In te (snd (run_staleC cf (init_state inits progs) sched)) ->
    forall a, ~ In (EvFault (FDeadInc a)) (snd te) /\ ~ In (EvFault (FDeadDec a)) (snd te).
Proof. exact C16_no_fault_staleC. Qed.

(** What the views contain: a thread's own writes, for ever ... *)
Theorem C16_own_write_seen : forall cf s0 sched p t c i q,
  wrote cf s0 sched p t c i -> (S p <= q)%nat -> (i <= vt (GC cf s0 sched q) t c)%nat.
Proof. exact own_write_seen. Qed.

(** ... and whatever is handed over through ANY container: if [t] wrote [c] (write [i]) before it
    wrote [c'], and [t'] then acquired [c'] (a SeqCst/Acquire load, a swap or a successful
    compare-exchange), [t'] can no longer be served anything older than write [i] of [c]. *)
Theorem C16_view_handover : forall cf s0 sched t c i p1 c' j p2 t' p3 q,
  wrote cf s0 sched p1 t c i -> wrote cf s0 sched p2 t c' j -> (p1 < p2)%nat ->
  acquired cf s0 sched p3 t' c' -> (p2 < p3)%nat -> (S p3 <= q)%nat ->
  (i <= vt (GC cf s0 sched q) t' c)%nat.
Proof. exact view_handover. Qed.

(** Non-vacuity, and why the weaker statement is the right one: a concrete run within [RunOKSC] in
    which a cache load (steps 56-57) returns its cached value 4096 through a stale revalidation after
    another thread has completed a store of 4112 - in no state between the call and the return did
    the container hold 4096. *)
Theorem C16_stale_scope_inhabited : RunOKSC ca_cf ca_inits ca_progs ca_sched.
Proof. exact RunOKSC_example. Qed.

Theorem C16_stale_not_linearizable :
  hnd (ca_St 58) 1 = HCache 0 4096 /\
  forall j, (56 + 1 <= j <= 57 + 1)%nat -> mem (sh (ca_St j)) (LStore 0) <> 4096.
Proof. exact (conj (proj2 (proj2 (proj2 (proj2 ca_stale_hit)))) ca_not_linearizable). Qed.

(** All five weakened loads together ([StaleC.step_stale3], what the model driver runs): no thread
    faults in any run within [RunOKS3]. *)
Theorem C16_no_fault_stale3 : forall cf inits progs sched,
  RunOKS3 cf inits progs sched ->
  (forall k, NoFault (St3 cf (init_state inits progs) sched k)) /\
  (forall k t x, nth_error sched k = Some (t, x) ->
     forall a, ~ In (EvFault (FDeadInc a)) (snd (step_stale3 cf (St3 cf (init_state inits progs) sched k) t x)) /\
               ~ In (EvFault (FDeadDec a)) (snd (step_stale3 cf (St3 cf (init_state inits progs) sched k) t x))).
Proof. exact StaleCInv28.C16_no_fault_stale3. Qed.

(** ** The same for the run the model driver executes: [step_stale3], all five weakened loads.

    The load_full inside a reloading cache command may itself take a stale first read or stale scans;
    the value it returns is still one the container held inside the command. *)
Theorem C16_cache_fresh_stale3 : forall cf inits progs sched t i cm c k pa pb xa tb xb,
  let s0 := init_state inits progs in
  RunOKS3 cf inits progs sched ->
  (forall p, NoCacheMove (St3 cf s0 sched p)) ->
  never_consumed c s0 ->
  nth_error (t_prog (thr s0 t)) (N.to_nat i) = Some cm ->
  cache_cmd_of (St3 cf s0 sched pa) cm c k ->
  (pa <= pb)%nat ->
  nth_error sched pa = Some (t, xa) ->
  t_status (thr (St3 cf s0 sched pa) t) = Running ->
  t_stack (thr (St3 cf s0 sched pa) t) = [] ->
  t_cmdi (thr (St3 cf s0 sched pa) t) = i ->
  nth_error sched pb = Some (tb, xb) ->
  t_cmdi (thr (St3 cf s0 sched pb) t) = i ->
  t_cmdi (thr (St3 cf s0 sched (S pb)) t) = i + 1 ->
  exists v j,
    hnd (St3 cf s0 sched (S pb)) k = HCache c v /\
    nth_error (vh (G3 cf s0 sched (S pb)) c) j = Some v /\
    (vt (G3 cf s0 sched pa) t c <= j)%nat /\
    (cm = CCacheLoad k -> (vc (G3 cf s0 sched pa) k <= j)%nat) /\
    nth_error (vh (G3 cf s0 sched (S pb)) c) (vc (G3 cf s0 sched (S pb)) k) = Some v /\
    (vc (G3 cf s0 sched (S pb)) k = j \/
     (hnd (St3 cf s0 sched pb) k = HCache c v /\ (vc (G3 cf s0 sched (S pb)) k <= j)%nat)).
Proof. exact Stale3Fresh10.C16_cache_fresh_stale3. Qed.

Theorem C16_view_handover3 : forall cf s0 sched t c i p1 c' j p2 t' p3 q,
  wrote3 cf s0 sched p1 t c i -> wrote3 cf s0 sched p2 t c' j -> (p1 < p2)%nat ->
  acquired3 cf s0 sched p3 t' c' -> (p2 < p3)%nat -> (S p3 <= q)%nat ->
  (i <= vt (G3 cf s0 sched q) t' c)%nat.
Proof. exact view_handover3. Qed.

(** Non-vacuity: a run within [RunOKS3] in which ONE cache load takes a stale revalidation (a
    miss) and then a stale first read inside its load_full. *)
Theorem C16_stale3_scope_inhabited : RunOKS3 cd_cf cd_inits cd_progs cd_sched.
Proof. exact RunOKS3_example. Qed.

(** The same with STATIC hypotheses: [RunStaticS3] asks for programs without the generation hook
    whose handles are thread-disjoint ([handles_disjoint]) and a schedule of fewer than 2^62 steps;
    [no_cache_move_b] / [no_consume_b] are decidable conditions on the program text (no `move` out of
    a cache handle, the container is never consumed).  What remains dynamic: destinations of
    commands are empty ([DstEmptyC], a condition on the test program) and the conditions on the
    scheduler's choices (free addresses, permitted stale values). *)
Theorem C16_cache_fresh_stale3_static : forall cf inits progs sched t i cm c k pa pb xa tb xb,
  let s0 := init_state inits progs in
  RunStaticS3 cf inits progs sched ->
  no_cache_move_b progs = true ->
  no_consume_b c progs = true ->
  nth_error (t_prog (thr s0 t)) (N.to_nat i) = Some cm ->
  cache_cmd_of (St3 cf s0 sched pa) cm c k ->
  (pa <= pb)%nat ->
  nth_error sched pa = Some (t, xa) ->
  t_status (thr (St3 cf s0 sched pa) t) = Running ->
  t_stack (thr (St3 cf s0 sched pa) t) = [] ->
  t_cmdi (thr (St3 cf s0 sched pa) t) = i ->
  nth_error sched pb = Some (tb, xb) ->
  t_cmdi (thr (St3 cf s0 sched pb) t) = i ->
  t_cmdi (thr (St3 cf s0 sched (S pb)) t) = i + 1 ->
  exists v j,
    hnd (St3 cf s0 sched (S pb)) k = HCache c v /\
    nth_error (vh (G3 cf s0 sched (S pb)) c) j = Some v /\
    (vt (G3 cf s0 sched pa) t c <= j)%nat /\
    (cm = CCacheLoad k -> (vc (G3 cf s0 sched pa) k <= j)%nat) /\
    nth_error (vh (G3 cf s0 sched (S pb)) c) (vc (G3 cf s0 sched (S pb)) k) = Some v /\
    (vc (G3 cf s0 sched (S pb)) k = j \/
     (hnd (St3 cf s0 sched pb) k = HCache c v /\ (vc (G3 cf s0 sched (S pb)) k <= j)%nat)).
Proof. exact Stale3St4.C16_cache_fresh_stale3_static. Qed.

Print Assumptions C16_cache_fresh_stale.
Print Assumptions C16_cache_fresh_stale3_static.
Print Assumptions C16_cache_fresh_stale3.
Print Assumptions C16_view_handover3.
Print Assumptions C16_stale3_scope_inhabited.
Print Assumptions C16_no_fault_stale.
Print Assumptions C16_own_write_seen.
Print Assumptions C16_view_handover.
Print Assumptions C16_stale_scope_inhabited.
Print Assumptions C16_stale_not_linearizable.
Print Assumptions C16_no_fault_stale3.
