(** * C16 — Cache returns a current-or-newer value and retains at most one old value.

    Proved over ASModel (local step theorems, all states):
    - [Cache::load] first compares the cached pointer with the stored one; if they are equal it
      returns the cached value and touches nothing; otherwise it performs exactly one
      [load_full] of the container ([C16_revalidate]);
    - after the reload the previously cached value is released exactly once and the cache holds
      the value [load_full] returned ([C16_replace_releases_old]).
    With C03 (load_full returns a value stored during the call) this gives "never a value that
    was never stored" and, with the coherence of the compared location, monotonicity.
    NOT yet proved as theorems over all schedules (partial): monotonicity and freshness of the
    sequence of values returned by one cache (needs the history invariant of C03 and a view
    model for the Relaxed comparison read); both are checked by the correspondence oracle. *)
From ASModel Require Import Base State Orderings_gen Step Run Progress Hist.

Theorem C16_revalidate :
  forall cf s l c a k x,
    exists e,
      if mem s (LStore c) =? a
      then exec cf s l (Q1 c a k) x = (s, l, [e], NRet (ROwned a))
      else (exists l' frames, exec cf s l (Q1 c a k) x = (s, l', [e], NPush (frames ++ [WLoadFull]) (WCacheReload c a k)))
           \/ (exists ps, exec cf s l (Q1 c a k) x = (s, l, [e], NPanic ps)).
Proof.
  intros. cbn. eexists. destruct (mem s (LStore c) =? a); [reflexivity|].
  destruct (enter_load cf l c) as [[l' fs]|ps]; [left|right]; eauto.
Qed.

Theorem C16_replace_releases_old :
  forall cf l c a k a',
    resume cf l (WCacheReload c a k) (ROwned a') =
    if a =? 0 then (l, NRet (ROwned a')) else (l, NGoto (PDec a (ROwned a'))).
Proof. reflexivity. Qed.

Print Assumptions C16_revalidate.
Print Assumptions C16_replace_releases_old.
