(** * C17 — Access/Map projections: one consistent snapshot per guard, fresh per load.

    Model: Seq/AccessModel.v — /repo/src/access.rs transliterated (Map/MapGuard,
    DynAccess/DynGuard, AccessConvert, Constant/ConstantDeref, the blanket impl for pointers)
    over a sequential model of the container with the hybrid strategy's debt slots (loads that
    take no reference, stores that pay debts, guards that pay back or decrement), reference
    counted objects with identities, any number of threads taking turns at API-call granularity.
    Quantified: the pointee type [V], every projection function, every chain [acc] (any depth,
    any mixture of [&]/[Arc]/[Box]/[dyn DynAccess]/[AccessConvert]/[Constant]), every reachable
    state and every sequence of client operations (loads on any thread, drops in any order,
    stores of fresh values / kept values / None, handle operations) during a guard's life.
    NOT in this model: preemption inside one API call (that is C01/C03/C10 on ASModel). *)
From Coq Require Import NArith List.
Import ListNotations.
From Seq Require Import AccessModel.

(** Every guard produced through the Access machinery dereferences, from its creation and
    after any further operations that do not drop it, to the chain's projections applied to
    the one value that was stored when it was loaded. *)
Theorem C17_snapshot :
  forall (V : Type) (vnull : V) (m : mstate V) (t : nat) (a : acc V) (ops : list (op V)),
    reachable V m ->
    let k := length (m_guards V m) in
    Forall (fun o : op V => o <> ODrop V k) ops ->
    let m2 := run V (step V m (OLoad V t a)) ops in
    exists g : aguard V,
      nth_error (m_guards V m2) k = Some (Some g) /\
      deref V vnull (s_heap V (m_s V m2)) g = option_map (proj_of V a) (cur_val V vnull (m_s V m)) /\
      cur_val V vnull (m_s V m) <> None.
Proof. intros V vnull m t a ops Hr. apply snapshot. now apply reachable_inv. Qed.

(** The snapshot stays alive: in every reachable state the object at the bottom of every live
    projection guard has a strong count >= 1, so the guard's deref is defined. *)
Theorem C17_keeps_alive :
  forall (V : Type) (vnull : V) (m : mstate V) (k : nat) (g : aguard V) (b : bguard) (o : nat),
    reachable V m ->
    nth_error (m_guards V m) k = Some (Some g) -> gbase V g = Some b -> g_ptr b = AObj o ->
    1 <= cnt V (s_heap V (m_s V m)) o /\
    pointee V (s_heap V (m_s V m)) o <> None /\
    deref V vnull (s_heap V (m_s V m)) g <> None.
Proof. intros V vnull m k g b o Hr. apply keeps_alive. now apply reachable_inv. Qed.

(** The reference counts are exact in every reachable state (containers + kept handles + guards
    - unpaid debts), debts exist only on the stored pointer and each is referenced by a live
    guard: the invariant itself. *)
Theorem C17_invariant :
  forall (V : Type) (m : mstate V), reachable V m -> Inv V m.
Proof. exact reachable_inv. Qed.

(** Each load through a chain performs exactly one load of the container (none for a chain
    over a Constant), leaves the stored pointer as it is, and protects the pointer stored at
    that moment. *)
Theorem C17_fresh :
  forall (V : Type) (t : nat) (a : acc V) (s : store V),
    s_loads V (snd (load_acc V t a s)) = s_loads V s + n_direct V a /\
    s_cell V (snd (load_acc V t a s)) = s_cell V s /\
    (forall b : bguard, gbase V (fst (load_acc V t a s)) = Some b -> g_ptr b = s_cell V s) /\
    n_direct V a <= 1.
Proof. exact fresh_load. Qed.

(** A completed store is what the container holds... *)
Theorem C17_store_visible :
  forall (V : Type) (vnull : V) (m : mstate V),
    reachable V m ->
    (forall v : V, cur_val V vnull (m_s V (step V m (OStoreNew V v))) = Some v) /\
    cur_val V vnull (m_s V (step V m (OStoreNull V))) = Some vnull /\
    (forall h o : nat, nth_error (m_handles V m) h = Some (Some o) ->
       cur_val V vnull (m_s V (step V m (OStoreH V h))) = val_at V (s_heap V (m_s V m)) o /\
       val_at V (s_heap V (m_s V m)) o <> None).
Proof. intros V vnull m Hr. apply store_visible. now apply reachable_inv. Qed.

(** ... and a load started after it (any loads, drops, handle operations in between, no later
    store) projects that store's value for as long as the guard lives, whatever is stored later. *)
Theorem C17_fresh_after_store :
  forall (V : Type) (vnull : V) (m : mstate V) (v : V) (ops1 : list (op V)) (t : nat) (a : acc V) (ops2 : list (op V)),
    reachable V m ->
    Forall (fun o : op V => is_store V o = false) ops1 ->
    n_direct V a = 1 ->
    let m1 := run V (step V m (OStoreNew V v)) ops1 in
    let k := length (m_guards V m1) in
    Forall (fun o : op V => o <> ODrop V k) ops2 ->
    exists g : aguard V,
      nth_error (m_guards V (run V (step V m1 (OLoad V t a)) ops2)) k = Some (Some g) /\
      deref V vnull (s_heap V (m_s V (run V (step V m1 (OLoad V t a)) ops2))) g = Some (proj_of V a v).
Proof. intros V vnull m v ops1 t a ops2 Hr. apply fresh_after_store. now apply reachable_inv. Qed.

(** Static and dynamic dispatch: loading through any mixture of pointers, trait objects and
    AccessConvert equals loading through the static chain of the same projections — same
    effect on the container, same snapshot, same value in every heap — and whole client runs
    stay indistinguishable. *)
Theorem C17_dyn_eq :
  forall (V : Type) (vnull : V) (t : nat) (a : acc V) (s : store V),
    snd (load_acc V t a s) = snd (load_acc V t (erase V a) s) /\
    gbase V (fst (load_acc V t a s)) = gbase V (fst (load_acc V t (erase V a) s)) /\
    (forall h : heap V, deref V vnull h (fst (load_acc V t a s)) = deref V vnull h (fst (load_acc V t (erase V a) s))).
Proof. exact dyn_eq. Qed.

Theorem C17_dyn_eq_runs :
  forall (V : Type) (vnull : V) (ops : list (op V)) (m m' : mstate V),
    mequiv V vnull m m' -> mequiv V vnull (run V m ops) (run V m' (map (erase_op V) ops)).
Proof. exact run_dyn_eq. Qed.

(** Constant always yields its own value and touches nothing; so does every chain over it. *)
Theorem C17_constant :
  forall (V : Type) (vnull : V) (t : nat) (v : V) (s : store V) (h : heap V),
    load_acc V t (Constant V v) s = (GConst V v, s) /\ deref V vnull h (GConst V v) = Some v.
Proof. exact constant_own. Qed.

Theorem C17_constant_chain :
  forall (V : Type) (vnull : V) (t : nat) (a : acc V) (s : store V) (h : heap V),
    n_direct V a = 0 ->
    snd (load_acc V t a s) = s /\ (forall w : V, deref V vnull h (fst (load_acc V t a s)) = Some (proj_of V a w)).
Proof. exact constant_chain. Qed.

(** Non-vacuity.  A concrete run (2 threads, fast slots on): two projection guards taken with
    debts, a store pays both (count of object 0 goes 1 -> 2), a Constant chain, then the
    guards are dropped and object 0 is freed only after the last one. The guards show nodes
    3 and 4 (printed + 1) before and after the store. *)
Import AccNames.
Local Open Scope N_scope.
Definition ex_v1 := T 1 [T 2 []; T 3 [T 4 []]].
Definition ex_v2 := T 5 [T 6 []; T 7 [T 8 []]].
Definition ex_ops : list (op tree) :=
  [Ld 0%nat (Mp (Rf D) 1); Ld 1%nat (Cv (Bx (Dy (Mp (Mp D 1) 0)))); Sn ex_v2;
   Ld 0%nat (Mp (Cn ex_v1) 0); Dr 0%nat; Dr 1%nat; Dr 2%nat].
Example C17_example_run :
  access_case true 2 3 3 (Some ex_v1) ex_ops =
  [[0; 0; 1; 0; 0; 0; 0; 0]; [2; 0; 1; 0; 0; 4; 0; 0]; [4; 0; 1; 0; 0; 4; 5; 0]; [4; 1; 2; 1; 0; 4; 5; 0];
   [4; 1; 2; 1; 0; 4; 5; 3]; [4; 1; 1; 1; 0; 0; 5; 3]; [4; 1; 0; 1; 0; 0; 0; 3]; [4; 1; 0; 1; 0; 0; 0; 0]].
Proof. vm_compute. reflexivity. Qed.

(** The hypotheses of [C17_snapshot] are met by a reachable state with live guards and unpaid
    debts, for a chain of depth 2 through a trait object, with stores during the guard's life. *)
Example C17_example_snapshot :
  let m := run tree (init tree true 2 (Some ex_v1)) [Ld 0%nat (Mp (Rf D) 1)] in
  exists g, nth_error (m_guards tree (run tree (step tree m (Ld 1%nat (Cv (Bx (Dy (Mp (Mp D 1) 0)))))) [Sn ex_v2; Dr 0%nat; S0])) 1%nat = Some (Some g)
            /\ deref tree tnull (s_heap tree (m_s tree (run tree (step tree m (Ld 1%nat (Cv (Bx (Dy (Mp (Mp D 1) 0)))))) [Sn ex_v2; Dr 0%nat; S0]))) g
               = Some (T 4 []).
Proof.
  intros m.
  destruct (C17_snapshot tree tnull m 1%nat (Cv (Bx (Dy (Mp (Mp D 1) 0)))) [Sn ex_v2; Dr 0%nat; S0]) as (g & Hk & Hd & _).
  - exists true, 2%nat, (Some ex_v1), [Ld 0%nat (Mp (Rf D) 1)]. reflexivity.
  - repeat constructor; discriminate.
  - exists g. split; [exact Hk|]. unfold Ld at 1. rewrite Hd. vm_compute. reflexivity.
Qed.

Print Assumptions C17_snapshot.
Print Assumptions C17_keeps_alive.
Print Assumptions C17_invariant.
Print Assumptions C17_fresh.
Print Assumptions C17_store_visible.
Print Assumptions C17_fresh_after_store.
Print Assumptions C17_dyn_eq.
Print Assumptions C17_dyn_eq_runs.
Print Assumptions C17_constant.
Print Assumptions C17_constant_chain.
Print Assumptions C17_example_run.
Print Assumptions C17_example_snapshot.
