(** * C18 — panics in user code leave the container consistent.

    Modelled user-code point: the closure of [rcu] (it may allocate a new value on some attempts
    and panic on a chosen attempt, [RcuPanicAt k]); the unwind is the drop of the one live local of
    [rcu], the guard [cur].  Proved over ASModel (all states):
    - when the closure panics, [rcu] does nothing but drop the guard it holds
      ([C18_rcu_panic_unwinds_only_cur]) and reports the panic ([RPanic]);
    - no step of that unwind writes any container ([C18_unwind_writes_nothing]), so with
      C04_only_rmw_writes "a panic in the rcu closure changes nothing": results of earlier,
      failed attempts were already released inside compare_and_swap (C05_compare_before_exchange);
    - the computed example below runs two panicking rcu calls against a concurrent writer: the
      container ends with the writer's value and every count is exact.
    NOT modelled (partial): panicking pointee destructors / [Clone] and panicking projections
    (Map, MapCache); they are not exercised by the correspondence harness either.  The
    conjectured finding D6 of DESIGN.md §0 (destructor panic inside [pay_all]) is therefore
    neither confirmed nor refuted. *)
From ASModel Require Import Base State Orderings_gen Step Run Progress Hist.

Theorem C18_rcu_panic_unwinds_only_cur :
  forall cf l c p d,
    rcu_attempt cf l c (RcuPanicAt 0) p d =
    match guard_drop_frames p d with
    | [] => (l, NRet RPanic)
    | fs => (l, NPush fs WRcuPanic)
    end
    /\ forall l' v, resume cf l' WRcuPanic v = (l', NRet RPanic).
Proof. intros. split; [reflexivity|]. intros. destruct v; reflexivity. Qed.

Theorem C18_unwind_writes_nothing :
  forall cf s l p d f x s' l' evs nx c,
    In f (guard_drop_frames p d) ->
    exec cf s l f x = (s', l', evs, nx) ->
    mem s' (LStore c) = mem s (LStore c) /\ writes_in c evs = [].
Proof.
  intros cf s l p d f x s' l' evs nx c Hin He.
  destruct (exec_store_effect _ _ _ _ _ _ _ _ _ c He) as [H|H]; [exact H|].
  exfalso. unfold guard_drop_frames in Hin.
  destruct d as [sl|]; [|destruct (p =? 0)]; cbn in Hin; try contradiction; destruct Hin as [<-|[]].
  - cbn in He. unfold a_cas in He. destruct ((mem s (slot_loc sl) =? p) && negb (false && false));
      injection He as <- <- <- <-; cbn in H; discriminate.
  - cbn in He. destruct (rc_dec s p) as [[s2 e2]|] eqn:Hd.
    + injection He as <- <- <- <-. destruct (rc_dec_store _ _ _ _ c Hd) as [_ Hw]. rewrite Hw in H. discriminate.
    + injection He as <- <- <- <-. cbn in H. discriminate.
Qed.

Definition ex_cf := mkConfig true true.
Definition ex_s0 := init_state [4096]
  [[CLoad 0 1; CRcu 0 (RcuPanicAt 0) 2; CRcu 0 (RcuPanicAt 0) 3; CDrop 1];
   [CNew 10; CStore 0 (SHandle 10)]].
Definition ex_sched : list (N * N) :=
  map (fun _ => (0, 0)) (seq 0 14) ++ map (fun _ => (1, 4112)) (seq 0 90) ++ map (fun _ => (0, 4128)) (seq 0 90).
Definition ex_run := run ex_cf ex_s0 ex_sched.
Definition panics_caught (tr : list (N * list event)) : list N :=
  flat_map (fun te => flat_map (fun e => match e with EvRet k RPanic => [k] | _ => [] end) (snd te)) tr.
Example C18_example :
  panics_caught (snd ex_run) = [1; 2]
  /\ mem (sh (fst ex_run)) (LStore 0) = 4112
  /\ mem (sh (fst ex_run)) (LCount 4112) = 1
  /\ heap (sh (fst ex_run)) 4096 = None
  /\ t_status (thr (fst ex_run) 0) = Exited /\ t_status (thr (fst ex_run) 1) = Exited.
Proof. vm_compute. repeat split; reflexivity. Qed.

Print Assumptions C18_rcu_panic_unwinds_only_cur.
Print Assumptions C18_unwind_writes_nothing.
Print Assumptions C18_example.
