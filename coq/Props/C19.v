(** * C19 — thread-safety markers follow the pointee: no unsound Send or Sync.

    Model: Marker/AutoTraits.v (Rust's auto-trait rules as total boolean functions [auto D rho tr t :
    option bool], [None] = the model cannot tell) over the crate's struct definitions, explicit
    Send/Sync impls and associated-type resolutions [D = crate_defs], which tools/gen_types.py
    regenerates from /repo/src on every run (Marker/Types_gen.v).

    The space every theorem quantifies over, completely:
    - [w] ranges over [ptr_wrappers] (Marker/Matrix.v): ArcSwapAny, Guard, DirectDeref, Arc/&/Box/Rc
      holders, Cache and MapCache over each holder and over an opaque accessor, Map over the
      container by value / Arc / &, MapGuard over Guard / DirectDeref / a nested MapGuard;
      [q] over [plain_wrappers]: the same generic structs with every parameter opaque, Constant,
      ConstantDeref, AccessConvert (opaque and over the three `dyn DynAccess` flavours), DynGuard;
    - [P] over [pointer_tys]: every `unsafe impl RefCnt` of the crate (Arc, Rc, sync::Weak,
      rc::Weak, Option of each) applied to the opaque pointee [X = TVar 0], and an opaque
      user-defined RefCnt type;
    - [St] over [strategy_tys]: HybridStrategy<DefaultConfig>, HybridStrategy<NoFastSlots>, RwLock<()>;
    - [rho]: ANY list of (Send?, Sync?) pairs of the right length, i.e. all 4^(1+naux) valuations of
      the pointee and of the wrapper's other type parameters (closures, phantom parameters, opaque
      accessors and guards).
    Proofs: one boolean check over the explicit enumeration, run by the kernel's [vm_compute]
    (Marker/Theorems.v, [chk_cells]: 31 000 cells x 2 traits), lifted with [forallb_forall] and
    [valuations_complete]. *)
From Coq Require Import List NArith Bool String.
From Marker Require Import AutoTraits Types_gen Matrix Theorems.
Import ListNotations.

(** Soundness, pointer held by value (also inside Arc / Box / a Cache's own copy): a wrapper is
    Send (Sync) only if the pointer it stores is Send (Sync). *)
Theorem C19_sound : forall w P St rho tr,
  In w ptr_wrappers -> w_stores w = ByValue ->
  In P pointer_tys -> In St strategy_tys -> List.length rho = S (w_naux w) ->
  auto D rho tr (w_build w P St) = Some true -> auto D rho tr P = Some true.
Proof. exact sound_by_value. Qed.

(** Soundness, pointer reachable only through a shared reference (&ArcSwapAny, &Guard,
    Map<&ArcSwapAny, ..>): sending or sharing the wrapper shares the pointer, so the pointer is Sync. *)
Theorem C19_sound_ref : forall w P St rho tr,
  In w ptr_wrappers -> w_stores w = ByRef ->
  In P pointer_tys -> In St strategy_tys -> List.length rho = S (w_naux w) ->
  auto D rho tr (w_build w P St) = Some true -> auto D rho Sync P = Some true.
Proof. exact sound_by_ref. Qed.

(** The guard of the hybrid strategies stores the pointer and an [Option<&'static Debt>]: it is
    Send/Sync only if the pointer is, and the shared debt slot is Sync. *)
Theorem C19_guard_debt : forall P St rho tr,
  In P pointer_tys -> In St strategy_tys -> is_hybrid St = true -> List.length rho = 1%nat ->
  auto D rho tr (GUARD P St) = Some true ->
  auto D rho tr P = Some true /\ auto D rho tr DEBTREF = Some true /\ auto D rho Sync DEBT = Some true.
Proof. exact guard_debt. Qed.

(** [Guard::inner : S::Protected] is [HybridProtection<P>] under the hybrid strategies and [P]
    itself under [RwLock<()>], as the [impl InnerStrategy] blocks say. *)
Theorem C19_protected_resolution : forall P St,
  In P pointer_tys -> In St strategy_tys ->
  norm D FUEL (TProj "Protected" [St; P]) = Some (if is_hybrid St then HPROT P else P).
Proof. exact protected_resolution. Qed.

(** Completeness: a Send + Sync pointer, with Send + Sync stored parameters (closure, opaque
    accessor), gives a Send + Sync wrapper — whatever the phantom parameters (T of Map, T and R of
    MapGuard) are.  Excluded: [w_never] (Cache / MapCache over an [Rc<ArcSwapAny<..>>] holder). *)
Theorem C19_complete : forall w P St rho,
  In w ptr_wrappers -> w_never w = false ->
  In P pointer_tys -> In St strategy_tys -> List.length rho = S (w_naux w) ->
  auto D rho Send P = Some true -> auto D rho Sync P = Some true ->
  (forall i, In i (w_stored w) -> nth_error rho (S i) = Some (true, true)) ->
  auto D rho Send (w_build w P St) = Some true /\ auto D rho Sync (w_build w P St) = Some true.
Proof. exact complete. Qed.

(** Exact characterisation (implies both directions, and that the model decides every cell): the
    wrapper has the trait iff all of [w_spec w tr P] hold. *)
Theorem C19_exact : forall w P St rho tr,
  In w ptr_wrappers -> In P pointer_tys -> In St strategy_tys -> List.length rho = S (w_naux w) ->
  exists b, auto D rho tr (w_build w P St) = Some b /\ conds rho (w_spec w tr P) = Some b.
Proof. exact exact. Qed.

Theorem C19_never : forall w P St rho tr,
  In w ptr_wrappers -> w_never w = true ->
  In P pointer_tys -> In St strategy_tys -> List.length rho = S (w_naux w) ->
  auto D rho tr (w_build w P St) = Some false.
Proof. exact never. Qed.

(** The generic structs with every parameter opaque (this covers every instantiation a user can
    write, not only the ones the API produces), and the type-erased accessors. *)
Theorem C19_plain_exact : forall q rho tr,
  In q plain_wrappers -> List.length rho = q_naux q ->
  exists b, auto D rho tr (q_build q) = Some b /\ conds rho (q_spec q tr) = Some b.
Proof. exact plain_exact. Qed.

Theorem C19_plain_complete : forall q rho tr,
  In q plain_wrappers -> List.length rho = q_naux q -> q_never q tr = false ->
  (forall i, In i (q_stored q) -> nth_error rho i = Some (true, true)) ->
  auto D rho tr (q_build q) = Some true.
Proof. exact plain_complete. Qed.

(** [DynGuard<T>] (a [Box<dyn Deref<Target = T>>] without [+ Send]) and the accessors built on
    [dyn DynAccess<T>] without markers are never Send/Sync: conservative, sound. *)
Theorem C19_plain_never : forall q rho tr,
  In q plain_wrappers -> List.length rho = q_naux q -> q_never q tr = true ->
  auto D rho tr (q_build q) = Some false.
Proof. exact plain_never. Qed.

(** "all valuations" is literal *)
Theorem C19_all_valuations : forall k rho, List.length rho = k -> In rho (valuations k).
Proof. exact valuations_complete. Qed.

(** ** Non-vacuity *)

(** the enumerations are the expected ones (the translator cannot silently drop a kind) *)
Example C19_space :
  List.length ptr_wrappers = 22%nat /\ List.length plain_wrappers = 13%nat /\
  List.length pointer_tys = 9%nat /\ List.length strategy_tys = 3%nat /\
  In (TApp CArc [X]) pointer_tys /\ In (TApp CRc [X]) pointer_tys /\
  In (TApp COption [TApp CArc [X]]) pointer_tys /\ In (TApp CSyncWeak [X]) pointer_tys /\
  In (TApp CRcWeak [X]) pointer_tys /\ In X pointer_tys /\
  In (TApp CRwLock [TApp CUnit []]) strategy_tys /\
  List.length (filter is_hybrid strategy_tys) = 2%nat /\
  List.length (filter (fun w => match w_stores w with ByValue => true | ByRef => false end) ptr_wrappers) = 19%nat.
Proof. vm_compute. repeat split; auto 12. Qed.

(** the hypotheses are satisfiable and the conclusions are not trivially true:
    ArcSwap<u32-like> is Send + Sync; ArcSwap<Cell-like> (Send, not Sync pointee) is neither, as
    the crate's compile_fail tests say; ArcSwapAny<Rc<_>> never; a Guard behaves the same;
    &ArcSwapAny<UserPtr> with a (not Send, Sync) pointer IS Send (the by-reference case). *)
Definition DEFAULT : ty := TApp (CAdt "crate::strategy::hybrid::HybridStrategy") [TApp (CAdt "crate::strategy::hybrid::DefaultConfig") []].
Example C19_examples :
  In DEFAULT strategy_tys /\
  auto D [(true, true)] Send (ASA (ARC X) DEFAULT) = Some true /\
  auto D [(true, true)] Sync (ASA (ARC X) DEFAULT) = Some true /\
  auto D [(true, false)] Send (ASA (ARC X) DEFAULT) = Some false /\
  auto D [(true, false)] Sync (ASA (ARC X) DEFAULT) = Some false /\
  auto D [(true, true)] Send (ASA (RC X) DEFAULT) = Some false /\
  auto D [(true, true)] Send (GUARD (ARC X) DEFAULT) = Some true /\
  auto D [(true, false)] Send (GUARD (ARC X) DEFAULT) = Some false /\
  auto D [(true, true)] Send (GUARD (RC X) DEFAULT) = Some false /\
  auto D [(false, true)] Send (REF (ASA X DEFAULT)) = Some true /\
  auto D [(false, true)] Send (ASA X DEFAULT) = Some false /\
  auto D [(true, true); (true, true); (false, false); (false, false)] Send
       (MAPGUARD (GUARD (ARC X) DEFAULT) (aux 0) (aux 1) (aux 2)) = Some true /\
  auto D [(true, true)] Send (DYNGUARD X) = Some false.
Proof. vm_compute. repeat split; auto. Qed.

Print Assumptions C19_sound.
Print Assumptions C19_sound_ref.
Print Assumptions C19_guard_debt.
Print Assumptions C19_protected_resolution.
Print Assumptions C19_complete.
Print Assumptions C19_exact.
Print Assumptions C19_never.
Print Assumptions C19_plain_exact.
Print Assumptions C19_plain_complete.
Print Assumptions C19_plain_never.
Print Assumptions C19_all_valuations.
