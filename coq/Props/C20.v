(** * C20 — serde support is transparent: a container serializes as its current value.

    Model: Seq/SerdeModel.v — /repo/src/serde.rs:4-22 transliterated over a sequential
    container (one cell, reference counted objects).  The pointee's serializer [ser]/[de], the
    format's [serialize_none]/[serialize_some]/[deserialize_option] and the pointee type are
    universally quantified; the round-trip theorem has their contracts as hypotheses in its
    statement (no axiom).  Both flavours ([FArc] = ArcSwap, [FOpt] = ArcSwapOption incl. None)
    and every sequence of operations before the serialization are quantified over.
    Strategy independence is not part of this model (it is C14's statement); the differential
    check runs the real code under DefaultStrategy, RwLock<()> and FillFastSlots. *)
From Coq Require Import NArith List.
Import ListNotations.
From Seq Require Import SerdeModel.

(** Serializing the container after any sequence of stores (fresh values, None, the same
    pointer again, loads in between) yields exactly what serializing the plain pointer that
    holds the last stored value yields, and leaves every reference count as it was. *)
Theorem C20_ser :
  forall (value tokens : Type) (ser : value -> tokens) (tok_none : tokens) (tok_some : tokens -> tokens)
         (fl : flavour) (ov : option value) (ops : list (op value)) (h0 : heap value),
    valid value fl ov ->
    let s := run value fl ops (init value ov h0) in
    serialize value tokens ser tok_none tok_some fl s
      = (tokens_of value tokens ser tok_none tok_some fl (spec value fl ov ops), s)
    /\ holds value s (spec value fl ov ops).
Proof. exact ser_transparent. Qed.

(** Deserializing fails exactly when deserializing the plain pointer type fails; otherwise the
    new container is exactly [from(deserialized pointer)]: it holds the deserialized value
    ([None] included), the object is fresh, its strong count is exactly 1 ([holds]), and no
    other object is touched. *)
Theorem C20_de :
  forall (value tokens : Type) (de : tokens -> option value) (de_option : tokens -> option (option tokens))
         (fl : flavour) (tk : tokens) (h : heap value),
    match de_spec value tokens de de_option fl tk with
    | Some ov =>
        exists s' : st value,
          deserialize value tokens de de_option fl tk h = Some s' /\
          holds value s' ov /\ valid value fl ov /\ s' = init value ov h /\
          (forall (n : nat) (ob : obj value), nth_error h n = Some ob -> nth_error (s_heap value s') n = Some ob)
    | None => deserialize value tokens de de_option fl tk h = None
    end.
Proof. exact de_exact. Qed.

(** Round trip, for any pointee whose own round trip works in the format. *)
Theorem C20_roundtrip :
  forall (value tokens : Type) (ser : value -> tokens) (de : tokens -> option value)
         (tok_none : tokens) (tok_some : tokens -> tokens) (de_option : tokens -> option (option tokens)),
    (forall v : value, de (ser v) = Some v) ->
    de_option tok_none = Some None ->
    (forall v : value, de_option (tok_some (ser v)) = Some (Some (ser v))) ->
    forall (fl : flavour) (ov : option value) (ops : list (op value)) (h0 : heap value),
      valid value fl ov ->
      let s := run value fl ops (init value ov h0) in
      exists (tk : tokens) (s' : st value),
        fst (serialize value tokens ser tok_none tok_some fl s) = Some tk /\
        deserialize value tokens de de_option fl tk (s_heap value s) = Some s' /\
        holds value s' (spec value fl ov ops) /\
        serialize value tokens ser tok_none tok_some fl s' = (Some tk, s').
Proof. exact roundtrip. Qed.

(** [holds] pins the count: the object the container points to has strong count exactly 1. *)
Theorem C20_single_reference :
  forall (value : Type) (s : st value) (v : value),
    holds value s (Some v) ->
    exists o, s_cell value s = PObj o /\ nth_error (s_heap value s) (N.to_nat o) = Some (mkObj value v 1%N).
Proof.
  intros value s v H. unfold holds in H. destruct (s_cell value s) as [|o]; [contradiction|]. now exists o.
Qed.

(** Non-vacuity: the hypotheses of the round trip are met by a structured pointee (a record of
    a number and a list, length-prefixed tokens, [None]/[Some] marked by 0/1), and the
    theorems compute on a concrete store sequence in both flavours. *)
Example C20_roundtrip_instance :
  forall fl ov ops, valid (N * list N) fl ov ->
    let s := run (N * list N) fl ops (init (N * list N) ov []) in
    exists tk s',
      fst (serialize _ _ l_ser l_none l_some fl s) = Some tk /\
      deserialize _ _ l_de l_de_option fl tk (s_heap _ s) = Some s' /\
      holds _ s' (spec _ fl ov ops) /\
      serialize _ _ l_ser l_none l_some fl s' = (Some tk, s').
Proof.
  intros fl ov ops Hv.
  exact (C20_roundtrip _ _ l_ser l_de l_none l_some l_de_option l_de_ser l_de_opt_none l_de_opt_some fl ov ops [] Hv).
Qed.

Local Open Scope N_scope.
Example C20_example_opt :
  fst (serialize _ _ l_ser l_none l_some FOpt
         (run _ FOpt [StoreNew _ (7, [1;2]); StoreNull _; StoreNew _ (9, [3]); StoreSame _; LoadDrop _]
              (init _ None [])))
  = Some [1; 9; 1; 3]
  /\ fst (serialize _ _ l_ser l_none l_some FOpt (run _ FOpt [StoreNew _ (7, [1]); StoreNull _] (init _ None [])))
  = Some [0].
Proof. split; vm_compute; reflexivity. Qed.

Example C20_example_arc :
  serde_case FArc 3 (Some 0) [StoreNew N 1; StoreSame N; StoreNew N 2]
  = [[2; 1; 0; 0; 1; 1; 1; 2]; [4; 0; 1; 0; 1; 2; 1; 4]; [4; 0; 1; 0; 1; 2; 1; 4]; [6; 0; 0; 1; 1; 3; 1; 6]].
Proof. vm_compute. reflexivity. Qed.

Print Assumptions C20_ser.
Print Assumptions C20_de.
Print Assumptions C20_roundtrip.
Print Assumptions C20_single_reference.
Print Assumptions C20_roundtrip_instance.
Print Assumptions C20_example_opt.
Print Assumptions C20_example_arc.
