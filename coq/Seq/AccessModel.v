(** * Seq.AccessModel — C17: Access / Map projections.

    A sequential model (API-call granularity, any number of threads taking turns) of
    - the container with the hybrid strategy's *debt slots* ([/repo/src/strategy/hybrid.rs],
      [/repo/src/debt/fast.rs], [/repo/src/debt/mod.rs]): a [load] either records a debt in one of
      the calling thread's 8 fast slots (no reference count taken) or takes a full reference; a
      [store] pays every debt on the replaced pointer ([Debt::pay_all]) and drops the old value;
      dropping a guard pays its own debt back if it is still there, otherwise decrements;
    - the Access machinery of [/repo/src/access.rs]: [Map]/[MapGuard], [DynAccess]/[DynGuard],
      [AccessConvert], [Constant]/[ConstantDeref], the blanket impl for [P: Deref<Target = A>].

    Objects have an identity (index in the heap, never reused), an immutable value and a strong
    count; reading through a pointer to an object whose count is 0 is a use after free
    ([pointee] = [None]).  The type of pointee values [V] and the projections [V -> V] are
    arbitrary (the model is untyped: every projection maps [V] to [V]).

    The client (the test program) owns a table of projection guards and a table of handles
    ([Arc]s it keeps); the theorems quantify over all sequences of client operations. *)
From Coq Require Import NArith List Lia Bool PeanoNat Arith.
Import ListNotations.

Inductive aptr := ANull | AObj (o : nat).

Definition aptr_eqb (p q : aptr) : bool :=
  match p, q with
  | ANull, ANull => true
  | AObj a, AObj b => Nat.eqb a b
  | _, _ => false
  end.

Lemma aptr_eqb_eq p q : aptr_eqb p q = true <-> p = q.
Proof.
  destruct p as [|a], q as [|b]; cbn; split; try congruence.
  - intros H. apply Nat.eqb_eq in H. now subst.
  - intros [= ->]. apply Nat.eqb_refl.
Qed.

Lemma aptr_eqb_refl p : aptr_eqb p p = true.
Proof. now apply aptr_eqb_eq. Qed.

Lemma aptr_eqb_neq p q : aptr_eqb p q = false <-> p <> q.
Proof.
  split.
  - intros H E. apply aptr_eqb_eq in E. congruence.
  - intros H. destruct (aptr_eqb p q) eqn:E; [|reflexivity]. apply aptr_eqb_eq in E. contradiction.
Qed.

Definition b2n (b : bool) : nat := if b then 1 else 0.

(** ** Lists: update at an index, counting *)
Section Lists.
  Context {A : Type}.

  Fixpoint upd (n : nat) (f : A -> A) (l : list A) : list A :=
    match l, n with
    | [], _ => []
    | x :: t, O => f x :: t
    | x :: t, S n' => x :: upd n' f t
    end.

  Definition set_nth (n : nat) (x : A) (l : list A) : list A := upd n (fun _ => x) l.

  Definition count (P : A -> bool) (l : list A) : nat := length (filter P l).

  Lemma upd_length n f l : length (upd n f l) = length l.
  Proof. revert n; induction l as [|x t IH]; intros [|n]; cbn [upd length]; auto. Qed.

  Lemma nth_upd_same n f l x : nth_error l n = Some x -> nth_error (upd n f l) n = Some (f x).
  Proof.
    revert n; induction l as [|y t IH]; intros [|n]; cbn [upd nth_error]; try discriminate.
    - now intros [= ->].
    - apply IH.
  Qed.

  Lemma nth_upd_other n m f l : n <> m -> nth_error (upd n f l) m = nth_error l m.
  Proof.
    revert n m; induction l as [|y t IH]; intros [|n] [|m] Hne; cbn [upd nth_error]; try reflexivity.
    - congruence.
    - apply IH. congruence.
  Qed.

  Lemma nth_upd_none n f l : nth_error l n = None -> upd n f l = l.
  Proof.
    revert n; induction l as [|y t IH]; intros [|n]; cbn [upd nth_error]; try discriminate; try reflexivity.
    intros H. now rewrite IH.
  Qed.

  Lemma nth_upd n m f l :
    nth_error (upd n f l) m = if Nat.eqb n m then option_map f (nth_error l m) else nth_error l m.
  Proof.
    destruct (Nat.eqb_spec n m) as [->|Hne].
    - destruct (nth_error l m) as [x|] eqn:E.
      + now apply nth_upd_same.
      + rewrite nth_upd_none by assumption. now rewrite E.
    - now apply nth_upd_other.
  Qed.

  Lemma count_app P l x : count P (l ++ [x]) = count P l + b2n (P x).
  Proof.
    unfold count. rewrite filter_app, app_length. cbn [filter]. destruct (P x); cbn [length b2n]; lia.
  Qed.

  Lemma count_upd P n f l x :
    nth_error l n = Some x -> count P (upd n f l) + b2n (P x) = count P l + b2n (P (f x)).
  Proof.
    unfold count. revert n; induction l as [|y t IH]; intros [|n]; cbn [upd nth_error]; try discriminate.
    - intros [= ->]. cbn [filter]. destruct (P x), (P (f x)); cbn [length b2n]; lia.
    - intros H. specialize (IH n H). cbn [filter]. destruct (P y); cbn [length]; lia.
  Qed.

  Lemma count_upd_none P n f l : nth_error l n = None -> count P (upd n f l) = count P l.
  Proof. intros H. now rewrite nth_upd_none. Qed.

  Lemma count_zero P l : (forall j x, nth_error l j = Some x -> P x = false) -> count P l = 0.
  Proof.
    unfold count. induction l as [|y t IH]; intros H; [reflexivity|].
    cbn [filter]. rewrite (H 0 y eq_refl). apply IH. intros j x Hj. apply (H (S j) x Hj).
  Qed.

  Lemma count_pos P l j x : nth_error l j = Some x -> P x = true -> 1 <= count P l.
  Proof.
    unfold count. revert j; induction l as [|y t IH]; intros [|j]; cbn [nth_error]; try discriminate.
    - intros [= ->] Hp. cbn [filter]. rewrite Hp. cbn [length]. lia.
    - intros Hj Hp. cbn [filter]. specialize (IH j Hj Hp). destruct (P y); cbn [length]; lia.
  Qed.

  (** counting by indices *)
  Definition holds_at (P : A -> bool) (l : list A) (j : nat) : bool :=
    match nth_error l j with Some x => P x | None => false end.

  Lemma count_indices P l :
    count P l = length (filter (holds_at P l) (seq 0 (length l))).
  Proof.
    unfold count. induction l as [|x t IH] using rev_ind; [reflexivity|].
    rewrite app_length. cbn [length]. rewrite Nat.add_1_r, seq_S, !filter_app, !app_length. cbn [filter plus].
    unfold holds_at at 2. rewrite nth_error_app2 by lia. rewrite Nat.sub_diag. cbn [nth_error].
    rewrite IH. f_equal.
    - f_equal. apply filter_ext_in. intros j Hj. apply in_seq in Hj. unfold holds_at.
      rewrite nth_error_app1 by lia. reflexivity.
    - now destruct (P x).
  Qed.
End Lists.

(** If every position of [la] satisfying [P] is the key of some position of [lb] satisfying
    [Q], there are at least as many of the latter (an injection, by pigeonhole). *)
Lemma count_le_by_key {A B} (P : A -> bool) (Q : B -> bool) (key : B -> option nat) (la : list A) (lb : list B) :
  (forall j a, nth_error la j = Some a -> P a = true ->
     exists k b, nth_error lb k = Some b /\ Q b = true /\ key b = Some j) ->
  count P la <= count Q lb.
Proof.
  intros H. rewrite count_indices.
  set (J := filter (holds_at P la) (seq 0 (length la))).
  set (img := flat_map (fun b => if Q b then match key b with Some j => [j] | None => [] end else []) lb).
  assert (Himg : length img <= count Q lb).
  { unfold img, count. clear. induction lb as [|b t IH]; [cbn; lia|].
    cbn [flat_map filter]. rewrite app_length. destruct (Q b); [destruct (key b)|]; cbn [length]; lia. }
  assert (Hnd : NoDup J) by (apply NoDup_filter, seq_NoDup).
  assert (Hincl : incl J img).
  { intros j Hj. apply filter_In in Hj. destruct Hj as [_ Hp]. unfold holds_at in Hp.
    destruct (nth_error la j) as [a|] eqn:Ea; [|discriminate].
    destruct (H j a Ea Hp) as (k & b & Hk & Hq & Hkey).
    apply in_flat_map. exists b. split; [eapply nth_error_In; eassumption|].
    rewrite Hq, Hkey. now left. }
  pose proof (NoDup_incl_length Hnd Hincl). lia.
Qed.

(** ** The model *)
Section Access.
  Set Default Proof Using "Type".
  Variable V : Type.
  Variable vnull : V.     (* what the client's unwrapping projection yields for a null pointer *)

  Record obj := mkObj { o_val : V; o_cnt : nat }.
  Definition heap := list obj.

  Definition set_cnt (f : nat -> nat) (ob : obj) : obj := mkObj (o_val ob) (f (o_cnt ob)).

  (** [RefCnt::inc] (n times) / [RefCnt::dec]; the null pointer of the option flavour is skipped
      (src/ref_cnt.rs) *)
  Definition add_cnt (n : nat) (p : aptr) (h : heap) : heap :=
    match p with ANull => h | AObj o => upd o (set_cnt (fun c => c + n)) h end.
  Definition inc := add_cnt 1.
  Definition dec (p : aptr) (h : heap) : heap :=
    match p with ANull => h | AObj o => upd o (set_cnt Nat.pred) h end.

  Definition cnt (h : heap) (o : nat) : nat :=
    match nth_error h o with Some ob => o_cnt ob | None => 0 end.

  (** reading through a pointer; [None] = the object is gone (use after free) *)
  Definition pointee (h : heap) (o : nat) : option V :=
    match nth_error h o with
    | Some ob => if Nat.ltb 0 (o_cnt ob) then Some (o_val ob) else None
    | None => None
    end.

  (** *** The container with its strategy (src/lib.rs, src/strategy/hybrid.rs, src/debt/) *)
  Definition SLOTS : nat := 8.                       (* DEBT_SLOT_CNT, src/debt/fast.rs:21 *)

  (** [s_slots]: the fast slots of all threads' nodes, thread [t] owns positions
      [8t .. 8t+7]; [None] = [Debt::NONE], [Some p] = a debt on pointer [p].
      [s_offs]: each thread's [Local::offset].  [s_fast] = [Cfg::USE_FAST] ([false] also
      stands for the RwLock strategy: every load takes a full reference).
      [s_loads], [s_reads], [s_swaps]: number of strategy loads performed, of atomic loads of
      the container's pointer and of atomic swaps of it (observed through the hook shim). *)
  Record store := mkS {
    s_heap : heap; s_cell : aptr; s_slots : list (option aptr); s_offs : list nat;
    s_fast : bool; s_loads : nat; s_reads : nat; s_swaps : nat }.

  Definition with_heap (h : heap) (s : store) : store :=
    mkS h (s_cell s) (s_slots s) (s_offs s) (s_fast s) (s_loads s) (s_reads s) (s_swaps s).

  (** a guard of the container: the pointer it protects and the debt slot it holds, if any
      ([HybridProtection { debt, ptr }], hybrid.rs:30-34) *)
  Record bguard := mkG { g_ptr : aptr; g_debt : option nat }.

  Definition slot_free (slots : list (option aptr)) (j : nat) : bool :=
    match nth_error slots j with Some None => true | _ => false end.

  (** [Slots::get_debt] (fast.rs:39-57): probe the 8 slots starting at the offset *)
  Definition candidates (t off : nat) : list nat :=
    map (fun i => SLOTS * t + (i + off) mod SLOTS) (seq 0 SLOTS).
  Definition find_slot (slots : list (option aptr)) (t off : nat) : option nat :=
    find (slot_free slots) (candidates t off).

  Definition fast_slot (t : nat) (s : store) : option nat :=
    if s_fast s then
      match nth_error (s_offs s) t with
      | Some off => find_slot (s_slots s) t off
      | None => None
      end
    else None.

  (** [HybridStrategy::load] (hybrid.rs:197-207): [attempt] (read the pointer, take a slot,
      store the pointer into it, confirm — sequentially always confirmed) or, with no free
      slot or fast slots off, [fallback] (which ends with a full reference, hybrid.rs:59-78);
      [RwLock::load] (rw_lock.rs:33-40) takes a full reference. *)
  Definition load (t : nat) (s : store) : bguard * store :=
    let p := s_cell s in
    match fast_slot t s with
    | Some j =>
        (mkG p (Some j),
         mkS (s_heap s) p (set_nth j (Some p) (s_slots s)) (set_nth t (j mod SLOTS + 1) (s_offs s))
             (s_fast s) (S (s_loads s)) (s_reads s + 2) (s_swaps s))
    | None =>
        (mkG p None,
         mkS (inc p (s_heap s)) p (s_slots s) (s_offs s)
             (s_fast s) (S (s_loads s)) (s_reads s + (if s_fast s then 2 else 1)) (s_swaps s))
    end.

  Definition slot_on (p : aptr) (x : option aptr) : bool :=
    match x with Some q => aptr_eqb q p | None => false end.

  (** [Drop for HybridProtection] (hybrid.rs:86-100): [debt.pay(ptr)] succeeds iff the slot
      still holds this pointer; otherwise (already paid by a writer, or no debt) the
      reference is dropped. *)
  Definition drop_guard (g : bguard) (s : store) : store :=
    let covered := match g_debt g with
                   | Some j => match nth_error (s_slots s) j with Some x => slot_on (g_ptr g) x | None => false end
                   | None => false
                   end in
    match g_debt g with
    | Some j =>
        if covered
        then mkS (s_heap s) (s_cell s) (set_nth j None (s_slots s)) (s_offs s) (s_fast s) (s_loads s) (s_reads s) (s_swaps s)
        else with_heap (dec (g_ptr g) (s_heap s)) s
    | None => with_heap (dec (g_ptr g) (s_heap s)) s
    end.

  Definition clear_on (p : aptr) (x : option aptr) : option aptr := if slot_on p x then None else x.

  (** [Debt::pay_all] (debt/mod.rs:70-98) for the replaced pointer: one reference up front,
      every slot of every node that holds the pointer is cleared and a reference added for
      it, the up-front reference is dropped. *)
  Definition pay_all (old : aptr) (s : store) : store :=
    let n := count (slot_on old) (s_slots s) in
    let h1 := inc old (s_heap s) in
    let h2 := add_cnt n old h1 in
    let h3 := dec old h2 in
    mkS h3 (s_cell s) (map (clear_on old) (s_slots s)) (s_offs s) (s_fast s) (s_loads s) (s_reads s) (s_swaps s).

  (** [store(val)] = [drop(swap(val))] (lib.rs:468-488); the reference of [p] moves in. *)
  Definition store_ptr (p : aptr) (s : store) : store :=
    let old := s_cell s in
    let s1 := mkS (s_heap s) p (s_slots s) (s_offs s) (s_fast s) (s_loads s) (s_reads s) (S (s_swaps s)) in
    let s2 := pay_all old s1 in
    with_heap (dec old (s_heap s2)) s2.

  (** *** src/access.rs *)
  Inductive acc :=
  | Direct                          (* the container itself: lib.rs load / DirectDeref, access.rs:134-172 *)
  | Map (a : acc) (f : V -> V)      (* Map { access, projection }, access.rs:317-366 *)
  | Dyn (a : acc)                   (* a coerced to dyn DynAccess<T>, access.rs:97-121, 200-232 *)
  | Convert (a : acc)               (* AccessConvert(a), a a pointer to something DynAccess, access.rs:259-282 *)
  | Constant (v : V)                (* Constant(v), access.rs:395-402 *)
  | ViaRef (a : acc) | ViaArc (a : acc) | ViaBox (a : acc).  (* P: Deref<Target = A>, access.rs:89-95 *)

  Inductive aguard :=
  | GBase (g : bguard)
  | GMap (g : aguard) (f : V -> V)  (* MapGuard { guard, projection }: owns the inner guard *)
  | GDyn (g : aguard)               (* DynGuard(Box<dyn Deref>) *)
  | GConst (v : V).                 (* ConstantDeref(v) *)

  (** is [a] (behind pointers) a trait object?  [AccessConvert::load] calls
      [DynAccess::load] of the pointer's target: through the vtable for a trait object,
      through the blanket impl (which boxes) for a concrete accessor. *)
  Fixpoint is_dyn_obj (a : acc) : bool :=
    match a with
    | Dyn _ => true
    | ViaRef a | ViaArc a | ViaBox a => is_dyn_obj a
    | _ => false
    end.

  Fixpoint load_acc (t : nat) (a : acc) (s : store) : aguard * store :=
    match a with
    | Direct => let (g, s') := load t s in (GBase g, s')
    | Map a f => let (g, s') := load_acc t a s in (GMap g f, s')           (* access.rs:355-363 *)
    | Dyn a => let (g, s') := load_acc t a s in (GDyn g, s')               (* access.rs:228-231 *)
    | Convert a => let (g, s') := load_acc t a s in
                   ((if is_dyn_obj a then g else GDyn g), s')              (* access.rs:278-281 *)
    | Constant v => (GConst v, s)                                          (* access.rs:399-401 *)
    | ViaRef a | ViaArc a | ViaBox a => load_acc t a s                     (* access.rs:92-94 *)
    end.

  (** [Deref]: MapGuard applies the projection to the inner guard's target on every deref
      (access.rs:305-315), DynGuard and ConstantDeref deref to what they hold. *)
  Fixpoint deref (h : heap) (g : aguard) : option V :=
    match g with
    | GBase b => match g_ptr b with ANull => Some vnull | AObj o => pointee h o end
    | GMap g f => option_map f (deref h g)
    | GDyn g => deref h g
    | GConst v => Some v
    end.

  Fixpoint drop_aguard (g : aguard) (s : store) : store :=
    match g with
    | GBase b => drop_guard b s
    | GMap g _ | GDyn g => drop_aguard g s
    | GConst _ => s
    end.

  Fixpoint gbase (g : aguard) : option bguard :=
    match g with
    | GBase b => Some b
    | GMap g _ | GDyn g => gbase g
    | GConst _ => None
    end.

  (** the composition of the projections of a chain; what it is applied to for a Constant
      does not matter *)
  Fixpoint proj_of (a : acc) (v : V) : V :=
    match a with
    | Direct => v
    | Map a f => f (proj_of a v)
    | Dyn a | Convert a | ViaRef a | ViaArc a | ViaBox a => proj_of a v
    | Constant c => c
    end.

  (** number of containers at the bottom of the chain (0 for a Constant) *)
  Fixpoint n_direct (a : acc) : nat :=
    match a with
    | Direct => 1
    | Map a _ | Dyn a | Convert a | ViaRef a | ViaArc a | ViaBox a => n_direct a
    | Constant _ => 0
    end.

  (** the static chain: all dynamic dispatch and pointers removed *)
  Fixpoint erase (a : acc) : acc :=
    match a with
    | Direct => Direct
    | Map a f => Map (erase a) f
    | Dyn a | Convert a | ViaRef a | ViaArc a | ViaBox a => erase a
    | Constant c => Constant c
    end.

  (** *** The client *)
  Record mstate := mkM {
    m_s : store;
    m_guards : list (option aguard);      (* guard table: [None] = dropped *)
    m_handles : list (option nat) }.      (* Arcs the client keeps: object ids *)

  Inductive op :=
  | OLoad (t : nat) (a : acc)      (* guard [length m_guards] := a.load() on thread t *)
  | ODrop (k : nat)                (* drop guard k *)
  | ONew (v : V)                   (* handle [length m_handles] := Arc::new(v) *)
  | ODropH (h : nat)               (* drop handle h *)
  | OStoreNew (v : V)              (* c.store(Arc::new(v)) *)
  | OStoreH (h : nat)              (* c.store(handle h .clone()) *)
  | OStoreNull.                    (* c.store(None) *)

  Definition cur_val (s : store) : option V :=
    match s_cell s with ANull => Some vnull | AObj o => pointee (s_heap s) o end.

  Definition step (m : mstate) (o : op) : mstate :=
    let s := m_s m in
    match o with
    | OLoad t a => let (g, s') := load_acc t a s in mkM s' (m_guards m ++ [Some g]) (m_handles m)
    | ODrop k =>
        match nth_error (m_guards m) k with
        | Some (Some g) => mkM (drop_aguard g s) (set_nth k None (m_guards m)) (m_handles m)
        | _ => m
        end
    | ONew v => mkM (with_heap (s_heap s ++ [mkObj v 1]) s) (m_guards m) (m_handles m ++ [Some (length (s_heap s))])
    | ODropH h =>
        match nth_error (m_handles m) h with
        | Some (Some o) => mkM (with_heap (dec (AObj o) (s_heap s)) s) (m_guards m) (set_nth h None (m_handles m))
        | _ => m
        end
    | OStoreNew v =>
        mkM (store_ptr (AObj (length (s_heap s))) (with_heap (s_heap s ++ [mkObj v 1]) s)) (m_guards m) (m_handles m)
    | OStoreH h =>
        match nth_error (m_handles m) h with
        | Some (Some o) => mkM (store_ptr (AObj o) (with_heap (inc (AObj o) (s_heap s)) s)) (m_guards m) (m_handles m)
        | _ => m
        end
    | OStoreNull => mkM (store_ptr ANull s) (m_guards m) (m_handles m)
    end.

  Definition run (m : mstate) (ops : list op) : mstate := fold_left step ops m.

  (** [ArcSwap::from_pointee(v)] / [ArcSwapOption::empty()], [nthr] threads with fresh nodes *)
  Definition init (fast : bool) (nthr : nat) (ov : option V) : mstate :=
    let slots := repeat None (SLOTS * nthr) in
    let offs := repeat 0 nthr in
    match ov with
    | Some v => mkM (mkS [mkObj v 1] (AObj 0) slots offs fast 0 0 0) [] []
    | None => mkM (mkS [] ANull slots offs fast 0 0 0) [] []
    end.

  (** ** Heap lemmas *)
  Definition val_at (h : heap) (o : nat) : option V := option_map o_val (nth_error h o).

  Lemma pointee_alt h o : pointee h o = if Nat.ltb 0 (cnt h o) then val_at h o else None.
  Proof. unfold pointee, cnt, val_at. destruct (nth_error h o); reflexivity. Qed.

  Lemma add_cnt_length n p h : length (add_cnt n p h) = length h.
  Proof. destruct p; cbn [add_cnt]; [reflexivity|apply upd_length]. Qed.
  Lemma dec_length p h : length (dec p h) = length h.
  Proof. destruct p; cbn [dec]; [reflexivity|apply upd_length]. Qed.

  Lemma cnt_add n p h o :
    o < length h -> cnt (add_cnt n p h) o = cnt h o + (if aptr_eqb p (AObj o) then n else 0).
  Proof.
    intros Hr. destruct p as [|o']; cbn [add_cnt aptr_eqb]; [lia|].
    unfold cnt. rewrite nth_upd. destruct (Nat.eqb_spec o' o) as [->|Hne]; [|lia].
    destruct (nth_error h o) as [ob|] eqn:E; cbn [option_map set_cnt o_cnt]; [reflexivity|].
    apply nth_error_None in E. lia.
  Qed.

  Lemma cnt_dec p h o :
    cnt (dec p h) o = if aptr_eqb p (AObj o) then Nat.pred (cnt h o) else cnt h o.
  Proof.
    destruct p as [|o']; cbn [dec aptr_eqb]; [reflexivity|].
    unfold cnt. rewrite nth_upd. destruct (Nat.eqb_spec o' o) as [->|Hne]; [|reflexivity].
    destruct (nth_error h o) as [ob|]; cbn [option_map set_cnt o_cnt]; reflexivity.
  Qed.

  Lemma val_add n p h o : val_at (add_cnt n p h) o = val_at h o.
  Proof.
    destruct p as [|o']; cbn [add_cnt]; [reflexivity|]. unfold val_at. rewrite nth_upd.
    destruct (Nat.eqb o' o); [|reflexivity]. now destruct (nth_error h o).
  Qed.
  Lemma val_dec p h o : val_at (dec p h) o = val_at h o.
  Proof.
    destruct p as [|o']; cbn [dec]; [reflexivity|]. unfold val_at. rewrite nth_upd.
    destruct (Nat.eqb o' o); [|reflexivity]. now destruct (nth_error h o).
  Qed.
  Lemma val_app h x o : o < length h -> val_at (h ++ [x]) o = val_at h o.
  Proof. intros Hr. unfold val_at. now rewrite nth_error_app1. Qed.
  Lemma cnt_app h x o : o < length h -> cnt (h ++ [x]) o = cnt h o.
  Proof. intros Hr. unfold cnt. now rewrite nth_error_app1. Qed.
  Lemma cnt_app_new h x : cnt (h ++ [x]) (length h) = o_cnt x.
  Proof. unfold cnt. rewrite nth_error_app2 by lia. now rewrite Nat.sub_diag. Qed.

  Lemma nth_set_nth {A} n m (x : A) l :
    nth_error (set_nth n x l) m = if Nat.eqb n m then option_map (fun _ => x) (nth_error l m) else nth_error l m.
  Proof. apply nth_upd. Qed.

  (** ** The invariant *)
  Definition guard_on (p : aptr) (x : option aguard) : bool :=
    match x with
    | Some g => match gbase g with Some b => aptr_eqb (g_ptr b) p | None => false end
    | None => false
    end.
  Definition handle_on (o : nat) (x : option nat) : bool :=
    match x with Some o' => Nat.eqb o' o | None => false end.
  Definition gkey (x : option aguard) : option nat :=
    match x with
    | Some g => match gbase g with Some b => g_debt b | None => None end
    | None => None
    end.

  (** [x] is a reference that has been created for a pointer about to be moved into the
      container (the argument of [store]); [ANull] when there is none. *)
  Record InvX (x : aptr) (m : mstate) : Prop := mkInv {
    (* debts exist only on the pointer that is currently stored (a store pays all others) *)
    inv_debt_cell : forall j p, nth_error (s_slots (m_s m)) j = Some (Some p) -> p = s_cell (m_s m);
    (* every debt is referenced by a live guard protecting that pointer *)
    inv_debt_ref : forall j p, nth_error (s_slots (m_s m)) j = Some (Some p) ->
      exists k g b, nth_error (m_guards m) k = Some (Some g) /\ gbase g = Some b /\ g_ptr b = p /\ g_debt b = Some j;
    (* the strong count of every object, exactly *)
    inv_count : forall o, o < length (s_heap (m_s m)) ->
      cnt (s_heap (m_s m)) o + count (slot_on (AObj o)) (s_slots (m_s m)) =
      b2n (aptr_eqb (s_cell (m_s m)) (AObj o)) + count (handle_on o) (m_handles m)
      + count (guard_on (AObj o)) (m_guards m) + b2n (aptr_eqb x (AObj o));
    inv_cell_range : forall o, s_cell (m_s m) = AObj o -> o < length (s_heap (m_s m));
    inv_guard_range : forall k g b o, nth_error (m_guards m) k = Some (Some g) -> gbase g = Some b ->
      g_ptr b = AObj o -> o < length (s_heap (m_s m));
    inv_handle_range : forall h o, nth_error (m_handles m) h = Some (Some o) -> o < length (s_heap (m_s m)) }.

  Definition Inv := InvX ANull.

  Lemma debts_le_guards x m o :
    InvX x m -> count (slot_on (AObj o)) (s_slots (m_s m)) <= count (guard_on (AObj o)) (m_guards m).
  Proof.
    intros I. apply (count_le_by_key _ _ gkey). intros j a Hj Hp.
    destruct a as [q|]; [|discriminate]. cbn [slot_on] in Hp. apply aptr_eqb_eq in Hp. subst q.
    destruct (inv_debt_ref _ _ I j _ Hj) as (k & g & b & Hk & Hb & Hptr & Hd).
    exists k, (Some g). split; [assumption|]. unfold guard_on, gkey. rewrite Hb, Hptr, aptr_eqb_refl. now split.
  Qed.

  Lemma no_debts_elsewhere x m o :
    InvX x m -> s_cell (m_s m) <> AObj o -> count (slot_on (AObj o)) (s_slots (m_s m)) = 0.
  Proof.
    intros I Hne. apply count_zero. intros j a Hj. destruct a as [q|]; [|reflexivity]. cbn [slot_on].
    apply aptr_eqb_neq. intros ->. apply Hne. symmetry. apply (inv_debt_cell _ _ I j _ Hj).
  Qed.

  (** every live guard's object is alive, and so is the stored one *)
  Lemma guard_alive x m k g b o :
    InvX x m -> nth_error (m_guards m) k = Some (Some g) -> gbase g = Some b -> g_ptr b = AObj o ->
    1 <= cnt (s_heap (m_s m)) o.
  Proof.
    intros I Hk Hb Hp.
    pose proof (inv_guard_range _ _ I k g b o Hk Hb Hp) as Hr.
    pose proof (inv_count _ _ I o Hr) as Hc.
    assert (HG : 1 <= count (guard_on (AObj o)) (m_guards m)).
    { eapply count_pos; [exact Hk|]. unfold guard_on. now rewrite Hb, Hp, aptr_eqb_refl. }
    destruct (aptr_eqb (s_cell (m_s m)) (AObj o)) eqn:E.
    - pose proof (debts_le_guards x m o I). cbn [b2n] in Hc. lia.
    - apply aptr_eqb_neq in E. rewrite (no_debts_elsewhere x m o I E) in Hc. lia.
  Qed.

  Lemma cell_alive x m o : InvX x m -> s_cell (m_s m) = AObj o -> 1 <= cnt (s_heap (m_s m)) o.
  Proof.
    intros I Hc. pose proof (inv_count _ _ I o (inv_cell_range _ _ I o Hc)) as He.
    rewrite Hc, aptr_eqb_refl in He. cbn [b2n] in He. pose proof (debts_le_guards x m o I). lia.
  Qed.

  (** ** What a load through a chain does: one container load (or none, for a Constant) *)
  Lemma load_acc_spec t a s :
    (n_direct a = 1 /\ snd (load_acc t a s) = snd (load t s) /\ gbase (fst (load_acc t a s)) = Some (fst (load t s)))
    \/ (n_direct a = 0 /\ snd (load_acc t a s) = s /\ gbase (fst (load_acc t a s)) = None).
  Proof.
    induction a as [|a IH f|a IH|a IH|v|a IH|a IH|a IH]; cbn [load_acc n_direct].
    - left. destruct (load t s). now cbn.
    - destruct (load_acc t a s) as [g s']. cbn [fst snd gbase] in *. exact IH.
    - destruct (load_acc t a s) as [g s']. cbn [fst snd gbase] in *. exact IH.
    - destruct (load_acc t a s) as [g s']. cbn [fst snd] in *. destruct (is_dyn_obj a); cbn [gbase]; exact IH.
    - right. now cbn.
    - exact IH.
    - exact IH.
    - exact IH.
  Qed.

  Lemma drop_aguard_base g s :
    drop_aguard g s = match gbase g with Some b => drop_guard b s | None => s end.
  Proof. induction g as [b|g IH f|g IH|v]; cbn [drop_aguard gbase]; auto. Qed.

  Lemma fast_slot_free t s j : fast_slot t s = Some j -> nth_error (s_slots s) j = Some None.
  Proof.
    unfold fast_slot. destruct (s_fast s); [|discriminate]. destruct (nth_error (s_offs s) t); [|discriminate].
    unfold find_slot. intros H. apply find_some in H. destruct H as [_ H]. unfold slot_free in H.
    destruct (nth_error (s_slots s) j) as [[q|]|]; try discriminate. reflexivity.
  Qed.

  Ltac inv_simpl := cbn [m_s m_guards m_handles s_heap s_cell s_slots s_offs with_heap].

  (** *** Preservation *)
  Lemma load_inv m t g :
    Inv m -> gbase g = Some (fst (load t (m_s m))) ->
    Inv (mkM (snd (load t (m_s m))) (m_guards m ++ [Some g]) (m_handles m)).
  Proof.
    intros I Hg. unfold load in *. destruct (fast_slot t (m_s m)) as [j|] eqn:Ef; cbn [fst snd] in *.
    - pose proof (fast_slot_free _ _ _ Ef) as Hfree.
      constructor; inv_simpl.
      + intros j' p. rewrite nth_set_nth. destruct (Nat.eqb_spec j j') as [<-|Hne].
        * rewrite Hfree. cbn [option_map]. now intros [= <-].
        * apply (inv_debt_cell _ _ I).
      + intros j' p. rewrite nth_set_nth. destruct (Nat.eqb_spec j j') as [<-|Hne].
        * rewrite Hfree. cbn [option_map]. intros [= <-].
          exists (length (m_guards m)), g, (mkG (s_cell (m_s m)) (Some j)).
          rewrite nth_error_app2 by lia. rewrite Nat.sub_diag. now cbn.
        * intros H. destruct (inv_debt_ref _ _ I _ _ H) as (k & g' & b & Hk & Hrest).
          exists k, g', b. split; [|exact Hrest]. rewrite nth_error_app1; [exact Hk|].
          apply nth_error_Some. congruence.
      + intros o Hr. pose proof (inv_count _ _ I o Hr) as Hc. rewrite count_app.
        pose proof (count_upd (slot_on (AObj o)) j (fun _ => Some (s_cell (m_s m))) _ _ Hfree) as Hu.
        fold (set_nth j (Some (s_cell (m_s m))) (s_slots (m_s m))) in Hu.
        cbn [slot_on b2n] in Hu. unfold guard_on at 2. rewrite Hg. cbn [g_ptr]. lia.
      + apply (inv_cell_range _ _ I).
      + intros k g' b o Hk Hb Hp.
        destruct (Nat.lt_ge_cases k (length (m_guards m))) as [Hlt|Hge].
        * rewrite nth_error_app1 in Hk by assumption. eapply (inv_guard_range _ _ I); eassumption.
        * rewrite nth_error_app2 in Hk by assumption.
          destruct (k - length (m_guards m)) as [|d]; cbn [nth_error] in Hk.
          -- injection Hk as <-. rewrite Hg in Hb. injection Hb as <-. cbn [g_ptr] in Hp.
             now apply (inv_cell_range _ _ I).
          -- now destruct d.
      + apply (inv_handle_range _ _ I).
    - constructor; inv_simpl.
      + apply (inv_debt_cell _ _ I).
      + intros j p H. destruct (inv_debt_ref _ _ I _ _ H) as (k & g' & b & Hk & Hrest).
        exists k, g', b. split; [|exact Hrest]. rewrite nth_error_app1; [exact Hk|].
        apply nth_error_Some. congruence.
      + unfold inc. rewrite add_cnt_length. intros o Hr. pose proof (inv_count _ _ I o Hr) as Hc.
        rewrite count_app, cnt_add by assumption. unfold guard_on at 2. rewrite Hg. cbn [g_ptr].
        destruct (aptr_eqb (s_cell (m_s m)) (AObj o)); cbn [b2n] in *; lia.
      + unfold inc. rewrite add_cnt_length. apply (inv_cell_range _ _ I).
      + unfold inc. rewrite add_cnt_length. intros k g' b o Hk Hb Hp.
        destruct (Nat.lt_ge_cases k (length (m_guards m))) as [Hlt|Hge].
        * rewrite nth_error_app1 in Hk by assumption. eapply (inv_guard_range _ _ I); eassumption.
        * rewrite nth_error_app2 in Hk by assumption.
          destruct (k - length (m_guards m)) as [|d]; cbn [nth_error] in Hk.
          -- injection Hk as <-. rewrite Hg in Hb. injection Hb as <-. cbn [g_ptr] in Hp.
             now apply (inv_cell_range _ _ I).
          -- now destruct d.
      + unfold inc. rewrite add_cnt_length. apply (inv_handle_range _ _ I).
  Qed.

  Lemma const_guard_inv m g :
    Inv m -> gbase g = None -> Inv (mkM (m_s m) (m_guards m ++ [Some g]) (m_handles m)).
  Proof.
    intros I Hg. constructor; inv_simpl.
    - apply (inv_debt_cell _ _ I).
    - intros j p H. destruct (inv_debt_ref _ _ I _ _ H) as (k & g' & b & Hk & Hrest).
      exists k, g', b. split; [|exact Hrest]. rewrite nth_error_app1; [exact Hk|].
      apply nth_error_Some. congruence.
    - intros o Hr. pose proof (inv_count _ _ I o Hr) as Hc. rewrite count_app.
      unfold guard_on at 2. rewrite Hg. cbn [b2n]. lia.
    - apply (inv_cell_range _ _ I).
    - intros k g' b o Hk Hb Hp.
      destruct (Nat.lt_ge_cases k (length (m_guards m))) as [Hlt|Hge].
      + rewrite nth_error_app1 in Hk by assumption. eapply (inv_guard_range _ _ I); eassumption.
      + rewrite nth_error_app2 in Hk by assumption.
        destruct (k - length (m_guards m)) as [|d]; cbn [nth_error] in Hk.
        * injection Hk as <-. congruence.
        * now destruct d.
    - apply (inv_handle_range _ _ I).
  Qed.

  Lemma guards_set_none_other (gs : list (option aguard)) k k' g' :
    nth_error (set_nth k None gs) k' = Some (Some g') -> k' <> k /\ nth_error gs k' = Some (Some g').
  Proof.
    rewrite nth_set_nth. destruct (Nat.eqb_spec k k') as [<-|Hne].
    - destruct (nth_error gs k); cbn [option_map]; discriminate.
    - intros H. split; [congruence|exact H].
  Qed.

  Lemma drop_dec_inv m k g b :
    Inv m -> nth_error (m_guards m) k = Some (Some g) -> gbase g = Some b ->
    (forall j, g_debt b = Some j -> nth_error (s_slots (m_s m)) j <> Some (Some (g_ptr b))) ->
    Inv (mkM (with_heap (dec (g_ptr b) (s_heap (m_s m))) (m_s m)) (set_nth k None (m_guards m)) (m_handles m)).
  Proof.
    intros I Hk Hb Hunc. constructor; inv_simpl; try rewrite dec_length.
    - apply (inv_debt_cell _ _ I).
    - intros j p H. destruct (inv_debt_ref _ _ I _ _ H) as (k' & g' & b' & Hk' & Hb' & Hp' & Hd').
      exists k', g', b'. split; [|now repeat split].
      rewrite nth_set_nth. destruct (Nat.eqb_spec k k') as [<-|Hne]; [|exact Hk'].
      exfalso. rewrite Hk in Hk'. injection Hk' as <-. rewrite Hb in Hb'. injection Hb' as <-.
      apply (Hunc j Hd'). now rewrite Hp'.
    - intros o Hr. pose proof (inv_count _ _ I o Hr) as Hc.
      pose proof (count_upd (guard_on (AObj o)) k (fun _ => None) _ _ Hk) as Hu.
      fold (set_nth k None (m_guards m)) in Hu. cbn [guard_on b2n] in Hu. rewrite Hb in Hu.
      rewrite cnt_dec. destruct (aptr_eqb (g_ptr b) (AObj o)) eqn:E; cbn [b2n] in *; [|lia].
      apply aptr_eqb_eq in E. pose proof (guard_alive _ _ _ _ _ _ I Hk Hb E). lia.
    - apply (inv_cell_range _ _ I).
    - intros k' g' b' o Hk' Hb' Hp'. apply guards_set_none_other in Hk'. destruct Hk' as [_ Hk'].
      eapply (inv_guard_range _ _ I); eassumption.
    - apply (inv_handle_range _ _ I).
  Qed.

  Lemma drop_inv m k g :
    Inv m -> nth_error (m_guards m) k = Some (Some g) ->
    Inv (mkM (drop_aguard g (m_s m)) (set_nth k None (m_guards m)) (m_handles m)).
  Proof.
    intros I Hk. rewrite drop_aguard_base. destruct (gbase g) as [b|] eqn:Hb.
    - unfold drop_guard. destruct (g_debt b) as [j|] eqn:Hd.
      + destruct (nth_error (s_slots (m_s m)) j) as [x|] eqn:Hj.
        * destruct (slot_on (g_ptr b) x) eqn:Hcov.
          -- (* the debt is still there: pay it back *)
             destruct x as [q|]; [|discriminate]. cbn [slot_on] in Hcov. apply aptr_eqb_eq in Hcov. subst q.
             constructor; inv_simpl.
             ++ intros j' p. rewrite nth_set_nth. destruct (Nat.eqb_spec j j') as [<-|Hne].
                ** rewrite Hj. cbn [option_map]. discriminate.
                ** apply (inv_debt_cell _ _ I).
             ++ intros j' p. rewrite nth_set_nth. destruct (Nat.eqb_spec j j') as [<-|Hne].
                ** rewrite Hj. cbn [option_map]. discriminate.
                ** intros H. destruct (inv_debt_ref _ _ I _ _ H) as (k' & g' & b' & Hk' & Hb' & Hp' & Hd').
                   exists k', g', b'. split; [|now repeat split].
                   rewrite nth_set_nth. destruct (Nat.eqb_spec k k') as [<-|Hnek]; [|exact Hk'].
                   exfalso. rewrite Hk in Hk'. injection Hk' as <-. rewrite Hb in Hb'. injection Hb' as <-.
                   congruence.
             ++ intros o Hr. pose proof (inv_count _ _ I o Hr) as Hc.
                pose proof (count_upd (guard_on (AObj o)) k (fun _ => None) _ _ Hk) as Hu.
                fold (set_nth k None (m_guards m)) in Hu. cbn [guard_on b2n] in Hu. rewrite Hb in Hu.
                pose proof (count_upd (slot_on (AObj o)) j (fun _ => None) _ _ Hj) as Hs.
                fold (set_nth j None (s_slots (m_s m))) in Hs. cbn [slot_on b2n] in Hs. lia.
             ++ apply (inv_cell_range _ _ I).
             ++ intros k' g' b' o Hk' Hb' Hp'. apply guards_set_none_other in Hk'. destruct Hk' as [_ Hk'].
                eapply (inv_guard_range _ _ I); eassumption.
             ++ apply (inv_handle_range _ _ I).
          -- apply (drop_dec_inv m k g b I Hk Hb). intros j' Hj'. rewrite Hd in Hj'. injection Hj' as <-.
             rewrite Hj. intros [= ->]. cbn [slot_on] in Hcov. now rewrite aptr_eqb_refl in Hcov.
        * apply (drop_dec_inv m k g b I Hk Hb). intros j' Hj'. rewrite Hd in Hj'. injection Hj' as <-.
          now rewrite Hj.
      + apply (drop_dec_inv m k g b I Hk Hb). intros j' Hj'. congruence.
    - (* a ConstantDeref: nothing to release *)
      constructor; inv_simpl.
      + apply (inv_debt_cell _ _ I).
      + intros j p H. destruct (inv_debt_ref _ _ I _ _ H) as (k' & g' & b' & Hk' & Hb' & Hrest).
        exists k', g', b'. split; [|now split].
        rewrite nth_set_nth. destruct (Nat.eqb_spec k k') as [<-|Hne]; [|exact Hk'].
        exfalso. rewrite Hk in Hk'. injection Hk' as <-. congruence.
      + intros o Hr. pose proof (inv_count _ _ I o Hr) as Hc.
        pose proof (count_upd (guard_on (AObj o)) k (fun _ => None) _ _ Hk) as Hu.
        fold (set_nth k None (m_guards m)) in Hu. cbn [guard_on b2n] in Hu. rewrite Hb in Hu. cbn [b2n] in Hu. lia.
      + apply (inv_cell_range _ _ I).
      + intros k' g' b' o Hk' Hb' Hp'. apply guards_set_none_other in Hk'. destruct Hk' as [_ Hk'].
        eapply (inv_guard_range _ _ I); eassumption.
      + apply (inv_handle_range _ _ I).
  Qed.

  (** a freshly allocated object is referenced by nothing yet *)
  Lemma fresh_unreferenced m :
    Inv m ->
    let n := length (s_heap (m_s m)) in
    count (slot_on (AObj n)) (s_slots (m_s m)) = 0 /\ aptr_eqb (s_cell (m_s m)) (AObj n) = false /\
    count (handle_on n) (m_handles m) = 0 /\ count (guard_on (AObj n)) (m_guards m) = 0.
  Proof.
    intros I n. assert (Hc : aptr_eqb (s_cell (m_s m)) (AObj n) = false).
    { apply aptr_eqb_neq. intros E. pose proof (inv_cell_range _ _ I n E). unfold n in *. lia. }
    repeat split.
    - apply (no_debts_elsewhere ANull m n I). now apply aptr_eqb_neq.
    - exact Hc.
    - apply count_zero. intros h x Hh. destruct x as [o|]; [|reflexivity]. cbn [handle_on].
      apply Nat.eqb_neq. intros ->. pose proof (inv_handle_range _ _ I h n Hh). unfold n in *. lia.
    - apply count_zero. intros k x Hk. destruct x as [g|]; [|reflexivity]. cbn [guard_on].
      destruct (gbase g) as [b|] eqn:Hb; [|reflexivity]. apply aptr_eqb_neq. intros Hp.
      pose proof (inv_guard_range _ _ I k g b n Hk Hb Hp). unfold n in *. lia.
  Qed.

  Lemma new_inv m v :
    Inv m ->
    Inv (mkM (with_heap (s_heap (m_s m) ++ [mkObj v 1]) (m_s m)) (m_guards m)
             (m_handles m ++ [Some (length (s_heap (m_s m)))])).
  Proof.
    intros I. destruct (fresh_unreferenced m I) as (Hd & Hc & Hh & Hg).
    constructor; inv_simpl; try rewrite app_length; cbn [length].
    - apply (inv_debt_cell _ _ I).
    - apply (inv_debt_ref _ _ I).
    - intros o Hr. rewrite count_app. cbn [handle_on aptr_eqb b2n].
      destruct (Nat.eq_dec o (length (s_heap (m_s m)))) as [->|Hne].
      + rewrite cnt_app_new, Hd, Hc, Hh, Hg, Nat.eqb_refl. now cbn.
      + assert (Hlt : o < length (s_heap (m_s m))) by lia.
        pose proof (inv_count _ _ I o Hlt) as He. rewrite cnt_app by assumption.
        replace (Nat.eqb (length (s_heap (m_s m))) o) with false by (symmetry; apply Nat.eqb_neq; lia).
        cbn [aptr_eqb b2n] in *. lia.
    - intros o Ho. pose proof (inv_cell_range _ _ I o Ho). lia.
    - intros k g b o Hk Hb Hp. pose proof (inv_guard_range _ _ I k g b o Hk Hb Hp). lia.
    - intros h o Hh'. destruct (Nat.lt_ge_cases h (length (m_handles m))) as [Hlt|Hge].
      + rewrite nth_error_app1 in Hh' by assumption. pose proof (inv_handle_range _ _ I h o Hh'). lia.
      + rewrite nth_error_app2 in Hh' by assumption.
        destruct (h - length (m_handles m)) as [|d]; cbn [nth_error] in Hh'.
        * injection Hh' as <-. lia.
        * now destruct d.
  Qed.

  Lemma droph_inv m h o :
    Inv m -> nth_error (m_handles m) h = Some (Some o) ->
    Inv (mkM (with_heap (dec (AObj o) (s_heap (m_s m))) (m_s m)) (m_guards m) (set_nth h None (m_handles m))).
  Proof.
    intros I Hh. constructor; inv_simpl; try rewrite dec_length.
    - apply (inv_debt_cell _ _ I).
    - apply (inv_debt_ref _ _ I).
    - intros o' Hr. pose proof (inv_count _ _ I o' Hr) as Hc.
      pose proof (count_upd (handle_on o') h (fun _ => None) _ _ Hh) as Hu.
      fold (set_nth h None (m_handles m)) in Hu. cbn [handle_on b2n] in Hu.
      rewrite cnt_dec. cbn [aptr_eqb] in *. destruct (Nat.eqb o o') eqn:E; cbn [b2n] in *; [|lia].
      pose proof (debts_le_guards ANull m o' I). lia.
    - apply (inv_cell_range _ _ I).
    - apply (inv_guard_range _ _ I).
    - intros h' o' Hh'. rewrite nth_set_nth in Hh'. destruct (Nat.eqb h h').
      + destruct (nth_error (m_handles m) h'); cbn [option_map] in Hh'; discriminate.
      + apply (inv_handle_range _ _ I h' o' Hh').
  Qed.

  Lemma store_ptr_inv p s gs hs :
    InvX p (mkM s gs hs) -> (forall o, p = AObj o -> o < length (s_heap s)) -> Inv (mkM (store_ptr p s) gs hs).
  Proof.
    intros I Hpr.
    assert (Hclear : forall j q, nth_error (map (clear_on (s_cell s)) (s_slots s)) j = Some (Some q) -> False).
    { intros j q. rewrite nth_error_map. destruct (nth_error (s_slots s) j) as [x|] eqn:Hj; cbn [option_map]; [|discriminate].
      destruct x as [q'|]; unfold clear_on; cbn [slot_on]; [|discriminate].
      pose proof (inv_debt_cell _ _ I j q' Hj) as E. cbn [m_s] in E. subst q'. now rewrite aptr_eqb_refl. }
    unfold store_ptr, pay_all. constructor; inv_simpl; unfold inc;
      try rewrite !dec_length, !add_cnt_length.
    - intros j q H. exfalso. eapply Hclear; eassumption.
    - intros j q H. exfalso. eapply Hclear; eassumption.
    - intros o Hr. pose proof (inv_count _ _ I o Hr) as Hc. cbn [m_s m_guards m_handles] in Hc.
      rewrite (count_zero (slot_on (AObj o))).
      2:{ intros j x Hj. destruct x as [q|]; [|reflexivity]. exfalso. eapply Hclear; eassumption. }
      rewrite !cnt_dec, !cnt_add by (rewrite ?add_cnt_length; assumption).
      cbn [aptr_eqb b2n]. destruct (aptr_eqb (s_cell s) (AObj o)) eqn:E; rewrite ?E in Hc; cbn [b2n] in Hc.
      + apply aptr_eqb_eq in E. rewrite E. lia.
      + apply aptr_eqb_neq in E.
        pose proof (no_debts_elsewhere p (mkM s gs hs) o I E) as Hz. cbn [m_s] in Hz. lia.
    - exact Hpr.
    - apply (inv_guard_range _ _ I).
    - apply (inv_handle_range _ _ I).
  Qed.

  Lemma alloc_store_inv m v :
    Inv m ->
    InvX (AObj (length (s_heap (m_s m))))
         (mkM (with_heap (s_heap (m_s m) ++ [mkObj v 1]) (m_s m)) (m_guards m) (m_handles m)).
  Proof.
    intros I. destruct (fresh_unreferenced m I) as (Hd & Hc & Hh & Hg).
    constructor; inv_simpl; try rewrite app_length; cbn [length].
    - apply (inv_debt_cell _ _ I).
    - apply (inv_debt_ref _ _ I).
    - intros o Hr. cbn [aptr_eqb].
      destruct (Nat.eq_dec o (length (s_heap (m_s m)))) as [->|Hne].
      + rewrite cnt_app_new, Hd, Hc, Hh, Hg, Nat.eqb_refl. now cbn.
      + assert (Hlt : o < length (s_heap (m_s m))) by lia.
        pose proof (inv_count _ _ I o Hlt) as He. rewrite cnt_app by assumption.
        replace (Nat.eqb (length (s_heap (m_s m))) o) with false by (symmetry; apply Nat.eqb_neq; lia).
        cbn [aptr_eqb b2n] in *. lia.
    - intros o Ho. pose proof (inv_cell_range _ _ I o Ho). lia.
    - intros k g b o Hk Hb Hp. pose proof (inv_guard_range _ _ I k g b o Hk Hb Hp). lia.
    - intros h o Hh'. pose proof (inv_handle_range _ _ I h o Hh'). lia.
  Qed.

  Lemma clone_store_inv m h o :
    Inv m -> nth_error (m_handles m) h = Some (Some o) ->
    InvX (AObj o) (mkM (with_heap (inc (AObj o) (s_heap (m_s m))) (m_s m)) (m_guards m) (m_handles m)).
  Proof.
    intros I Hh. unfold inc. constructor; inv_simpl; try rewrite add_cnt_length.
    - apply (inv_debt_cell _ _ I).
    - apply (inv_debt_ref _ _ I).
    - intros o' Hr. pose proof (inv_count _ _ I o' Hr) as Hc. rewrite cnt_add by assumption.
      cbn [aptr_eqb b2n] in *. destruct (Nat.eqb o o'); cbn [b2n]; lia.
    - apply (inv_cell_range _ _ I).
    - apply (inv_guard_range _ _ I).
    - apply (inv_handle_range _ _ I).
  Qed.

  (** *** Every client operation preserves the invariant *)
  Theorem step_inv m o : Inv m -> Inv (step m o).
  Proof.
    intros I. destruct o as [t a|k|v|h|v|h|]; cbn [step].
    - destruct (load_acc t a (m_s m)) as [g s'] eqn:E.
      destruct (load_acc_spec t a (m_s m)) as [(_ & Hs & Hg)|(_ & Hs & Hg)]; rewrite E in Hs, Hg; cbn [fst snd] in Hs, Hg; subst s'.
      + now apply load_inv.
      + now apply const_guard_inv.
    - destruct (nth_error (m_guards m) k) as [[g|]|] eqn:Hk; try assumption. now apply drop_inv.
    - now apply new_inv.
    - destruct (nth_error (m_handles m) h) as [[o|]|] eqn:Hh; try assumption. now apply droph_inv.
    - apply store_ptr_inv; [now apply alloc_store_inv|].
      intros o [= <-]. cbn [s_heap with_heap]. rewrite app_length. cbn [length]. lia.
    - destruct (nth_error (m_handles m) h) as [[o|]|] eqn:Hh; try assumption.
      apply store_ptr_inv; [now apply (clone_store_inv m h)|].
      intros o' [= <-]. cbn [s_heap with_heap]. unfold inc. rewrite add_cnt_length.
      apply (inv_handle_range _ _ I h o Hh).
    - apply store_ptr_inv; [|discriminate]. destruct m as [s gs hs]. exact I.
  Qed.

  Lemma run_inv ops : forall m, Inv m -> Inv (run m ops).
  Proof.
    induction ops as [|o ops IH]; intros m I; cbn [run fold_left]; [assumption|].
    apply IH. now apply step_inv.
  Qed.

  Lemma init_inv fast nthr ov : Inv (init fast nthr ov).
  Proof.
    assert (Hs : forall n j (p : aptr), nth_error (repeat (@None aptr) n) j = Some (Some p) -> False).
    { intros n j p H. apply nth_error_In in H. apply repeat_spec in H. discriminate. }
    assert (Hz : forall n p, count (slot_on p) (repeat (@None aptr) n) = 0).
    { intros n p. apply count_zero. intros j x Hj. apply nth_error_In, repeat_spec in Hj. now subst. }
    destruct ov as [v|]; unfold init; constructor; inv_simpl; cbn [length].
    - intros j p H. exfalso. eapply Hs; eassumption.
    - intros j p H. exfalso. eapply Hs; eassumption.
    - intros o Hr. assert (o = 0) by lia. subst o. rewrite Hz. reflexivity.
    - intros o [= <-]. lia.
    - intros k g b o Hk. now destruct k.
    - intros h o Hh. now destruct h.
    - intros j p H. exfalso. eapply Hs; eassumption.
    - intros j p H. exfalso. eapply Hs; eassumption.
    - intros o Hr. lia.
    - discriminate.
    - intros k g b o Hk. now destruct k.
    - intros h o Hh. now destruct h.
  Qed.

  (** ** What a projection guard dereferences to *)
  Definition bderef (h : heap) (b : bguard) : option V :=
    match g_ptr b with ANull => Some vnull | AObj o => pointee h o end.

  Lemma option_map_id {A} (x : option A) : option_map (fun v => v) x = x.
  Proof. now destruct x. Qed.
  Lemma option_map_map {A B C} (f : A -> B) (g : B -> C) (x : option A) :
    option_map g (option_map f x) = option_map (fun v => g (f v)) x.
  Proof. now destruct x. Qed.

  Lemma load_acc_deref t a s h :
    deref h (fst (load_acc t a s)) =
      match gbase (fst (load_acc t a s)) with
      | Some b => option_map (proj_of a) (bderef h b)
      | None => Some (proj_of a vnull)
      end
    /\ (gbase (fst (load_acc t a s)) = None -> forall v w, proj_of a v = proj_of a w).
  Proof.
    induction a as [|a IH f|a IH|a IH|v|a IH|a IH|a IH]; cbn [load_acc proj_of].
    - destruct (load t s) as [b s']. cbn [fst gbase deref]. split; [|discriminate].
      unfold bderef. now rewrite option_map_id.
    - destruct (load_acc t a s) as [g s']. cbn [fst gbase deref] in *. destruct IH as [IH1 IH2]. split.
      + rewrite IH1. destruct (gbase g); [now rewrite option_map_map|reflexivity].
      + intros Hn v w. now rewrite (IH2 Hn v w).
    - destruct (load_acc t a s) as [g s']. cbn [fst gbase deref] in *. exact IH.
    - destruct (load_acc t a s) as [g s']. cbn [fst] in *. destruct (is_dyn_obj a); cbn [gbase deref]; exact IH.
    - cbn [fst gbase deref]. now split.
    - exact IH.
    - exact IH.
    - exact IH.
  Qed.

  Lemma deref_eq_base h h' g :
    (forall b, gbase g = Some b -> bderef h b = bderef h' b) -> deref h g = deref h' g.
  Proof.
    induction g as [b|g IH f|g IH|v]; cbn [gbase deref]; intros H.
    - apply (H b eq_refl).
    - now rewrite IH.
    - now apply IH.
    - reflexivity.
  Qed.

  (** *** values of existing objects never change, objects never disappear *)
  Lemma val_store_ptr p s i : val_at (s_heap (store_ptr p s)) i = val_at (s_heap s) i.
  Proof.
    unfold store_ptr, pay_all, inc. cbn [s_heap with_heap]. now rewrite !val_dec, !val_add.
  Qed.
  Lemma length_store_ptr p s : length (s_heap (store_ptr p s)) = length (s_heap s).
  Proof.
    unfold store_ptr, pay_all, inc. cbn [s_heap with_heap]. now rewrite !dec_length, !add_cnt_length.
  Qed.

  Lemma val_load t s i : val_at (s_heap (snd (load t s))) i = val_at (s_heap s) i.
  Proof. unfold load. destruct (fast_slot t s); cbn [snd s_heap]; [reflexivity|apply val_add]. Qed.

  Lemma val_drop_guard b s i : val_at (s_heap (drop_guard b s)) i = val_at (s_heap s) i.
  Proof.
    unfold drop_guard. destruct (g_debt b) as [j|]; [destruct (nth_error (s_slots s) j) as [x|]; [destruct (slot_on (g_ptr b) x)|]|];
      cbn [s_heap with_heap]; try reflexivity; apply val_dec.
  Qed.

  Lemma step_val m o i :
    i < length (s_heap (m_s m)) -> val_at (s_heap (m_s (step m o))) i = val_at (s_heap (m_s m)) i.
  Proof.
    intros Hr. destruct o as [t a|k|v|h|v|h|]; cbn [step].
    - destruct (load_acc t a (m_s m)) as [g s'] eqn:E. cbn [m_s].
      destruct (load_acc_spec t a (m_s m)) as [(_ & Hs & _)|(_ & Hs & _)]; rewrite E in Hs; cbn [snd] in Hs; subst s'.
      + apply val_load.
      + reflexivity.
    - destruct (nth_error (m_guards m) k) as [[g|]|]; try reflexivity. cbn [m_s].
      rewrite drop_aguard_base. destruct (gbase g); [apply val_drop_guard|reflexivity].
    - cbn [m_s s_heap with_heap]. now apply val_app.
    - destruct (nth_error (m_handles m) h) as [[o|]|]; try reflexivity. cbn [m_s s_heap with_heap]. apply val_dec.
    - cbn [m_s]. rewrite val_store_ptr. cbn [s_heap with_heap]. now apply val_app.
    - destruct (nth_error (m_handles m) h) as [[o|]|]; try reflexivity. cbn [m_s].
      rewrite val_store_ptr. cbn [s_heap with_heap]. apply val_add.
    - cbn [m_s]. apply val_store_ptr.
  Qed.

  Lemma pointee_alive h i : 1 <= cnt h i -> pointee h i = val_at h i.
  Proof.
    intros H. rewrite pointee_alt. destruct (Nat.ltb_spec 0 (cnt h i)); [reflexivity|lia].
  Qed.

  (** a guard that is not dropped by the operation stays in the table and keeps its value *)
  Lemma step_guard_stable m o k g :
    Inv m -> nth_error (m_guards m) k = Some (Some g) -> o <> ODrop k ->
    nth_error (m_guards (step m o)) k = Some (Some g) /\
    deref (s_heap (m_s (step m o))) g = deref (s_heap (m_s m)) g.
  Proof.
    intros I Hk Hne.
    assert (Hk' : nth_error (m_guards (step m o)) k = Some (Some g)).
    { destruct o as [t a|k'|v|h|v|h|]; cbn [step]; try exact Hk.
      - destruct (load_acc t a (m_s m)) as [g' s']. cbn [m_guards]. rewrite nth_error_app1; [exact Hk|].
        apply nth_error_Some. congruence.
      - destruct (nth_error (m_guards m) k') as [[g'|]|]; try exact Hk. cbn [m_guards].
        rewrite nth_set_nth. destruct (Nat.eqb_spec k' k) as [->|_]; [congruence|exact Hk].
      - destruct (nth_error (m_handles m) h) as [[o|]|]; exact Hk.
      - destruct (nth_error (m_handles m) h) as [[o|]|]; exact Hk. }
    split; [exact Hk'|]. apply deref_eq_base. intros b Hb. unfold bderef.
    destruct (g_ptr b) as [|i] eqn:Hp; [reflexivity|].
    pose proof (step_inv m o I) as I'.
    rewrite (pointee_alive _ _ (guard_alive _ _ _ _ _ _ I Hk Hb Hp)).
    rewrite (pointee_alive _ _ (guard_alive _ _ _ _ _ _ I' Hk' Hb Hp)).
    apply step_val. eapply (inv_guard_range _ _ I); eassumption.
  Qed.

  Lemma run_guard_stable ops : forall m k g,
    Inv m -> nth_error (m_guards m) k = Some (Some g) -> Forall (fun o => o <> ODrop k) ops ->
    nth_error (m_guards (run m ops)) k = Some (Some g) /\
    deref (s_heap (m_s (run m ops))) g = deref (s_heap (m_s m)) g.
  Proof.
    induction ops as [|o ops IH]; intros m k g I Hk Hf; cbn [run fold_left]; [now split|].
    inversion Hf as [|? ? Ho Hf']; subst.
    destruct (step_guard_stable m o k g I Hk Ho) as [Hk' Hd'].
    destruct (IH (step m o) k g (step_inv m o I) Hk' Hf') as [Hk'' Hd'']. split; [exact Hk''|].
    unfold run in Hd''. now rewrite Hd''.
  Qed.

  Lemma cur_val_defined m : Inv m -> cur_val (m_s m) <> None.
  Proof.
    intros I. unfold cur_val. destruct (s_cell (m_s m)) as [|o] eqn:E; [discriminate|].
    rewrite (pointee_alive _ _ (cell_alive _ _ _ I E)). unfold val_at.
    pose proof (inv_cell_range _ _ I o E) as Hr. apply nth_error_Some in Hr.
    destruct (nth_error (s_heap (m_s m)) o); [discriminate|congruence].
  Qed.

  (** *** C17, snapshot: the guard obtained by [a.load()] dereferences — right away and after
      any further client operations (stores of fresh values, of kept values, of None, other
      loads and drops, on any thread) that do not drop it — to the chain's projections
      applied to the value that was stored when the load happened. *)
  Theorem snapshot m t a ops :
    Inv m ->
    let k := length (m_guards m) in
    Forall (fun o => o <> ODrop k) ops ->
    let m2 := run (step m (OLoad t a)) ops in
    exists g, nth_error (m_guards m2) k = Some (Some g) /\
              deref (s_heap (m_s m2)) g = option_map (proj_of a) (cur_val (m_s m)) /\
              cur_val (m_s m) <> None.
  Proof.
    intros I k Hf m2.
    pose proof (step_inv m (OLoad t a) I) as I1.
    set (g := fst (load_acc t a (m_s m))).
    assert (Hk1 : nth_error (m_guards (step m (OLoad t a))) k = Some (Some g)).
    { cbn [step]. unfold g. destruct (load_acc t a (m_s m)) as [g' s']. cbn [m_guards fst].
      rewrite nth_error_app2 by (unfold k; lia). unfold k. now rewrite Nat.sub_diag. }
    destruct (run_guard_stable ops _ k g I1 Hk1 Hf) as [Hk2 Hd2].
    exists g. split; [exact Hk2|]. split; [|now apply cur_val_defined].
    fold m2 in Hd2. rewrite Hd2.
    destruct (load_acc_deref t a (m_s m) (s_heap (m_s (step m (OLoad t a))))) as [Hd Hconst].
    fold g in Hd, Hconst. rewrite Hd.
    destruct (load_acc_spec t a (m_s m)) as [(_ & _ & Hg)|(_ & _ & Hg)]; fold g in Hg; rewrite Hg.
    - (* a container at the bottom *)
      f_equal. unfold bderef, cur_val.
      assert (Hp : g_ptr (fst (load t (m_s m))) = s_cell (m_s m)).
      { unfold load. now destruct (fast_slot t (m_s m)). }
      rewrite Hp. destruct (s_cell (m_s m)) as [|i] eqn:Ec; [reflexivity|].
      rewrite (pointee_alive _ _ (guard_alive _ _ _ _ _ _ I1 Hk1 Hg Hp)).
      rewrite (pointee_alive _ _ (cell_alive _ _ _ I Ec)).
      apply step_val. now apply (inv_cell_range _ _ I).
    - (* a Constant at the bottom *)
      destruct (cur_val (m_s m)) as [v|] eqn:Ev.
      + cbn [option_map]. f_equal. now apply Hconst.
      + exfalso. now apply (cur_val_defined m I).
  Qed.

  (** *** C17, keeps alive: in every reachable state, the object at the bottom of every live
      projection guard has a positive strong count (it has not been freed). *)
  Theorem keeps_alive m k g b o :
    Inv m -> nth_error (m_guards m) k = Some (Some g) -> gbase g = Some b -> g_ptr b = AObj o ->
    1 <= cnt (s_heap (m_s m)) o /\ pointee (s_heap (m_s m)) o <> None /\ deref (s_heap (m_s m)) g <> None.
  Proof.
    intros I Hk Hb Hp. pose proof (guard_alive _ _ _ _ _ _ I Hk Hb Hp) as Ha. split; [exact Ha|].
    assert (Hpt : pointee (s_heap (m_s m)) o <> None).
    { rewrite (pointee_alive _ _ Ha). unfold val_at.
      pose proof (inv_guard_range _ _ I k g b o Hk Hb Hp) as Hr. apply nth_error_Some in Hr.
      destruct (nth_error (s_heap (m_s m)) o); [discriminate|congruence]. }
    split; [exact Hpt|].
    clear Hk. revert Hb. induction g as [b'|g IH f|g IH|v]; cbn [gbase deref]; intros Hb.
    - injection Hb as ->. now rewrite Hp.
    - specialize (IH Hb). destruct (deref (s_heap (m_s m)) g); [discriminate|congruence].
    - now apply IH.
    - discriminate.
  Qed.

  (** *** C17, fresh: one load of a chain performs exactly one load of the container (none
      for a Constant), does not change what is stored, and its guard protects the pointer
      stored at that moment; a completed store is what the container holds. *)
  Theorem fresh_load t a s :
    s_loads (snd (load_acc t a s)) = s_loads s + n_direct a /\
    s_cell (snd (load_acc t a s)) = s_cell s /\
    (forall b, gbase (fst (load_acc t a s)) = Some b -> g_ptr b = s_cell s) /\
    n_direct a <= 1.
  Proof.
    assert (Hl : s_loads (snd (load t s)) = s_loads s + 1 /\ s_cell (snd (load t s)) = s_cell s /\ g_ptr (fst (load t s)) = s_cell s).
    { unfold load. destruct (fast_slot t s); cbn [fst snd s_loads s_cell g_ptr]; repeat split; lia. }
    destruct Hl as (Hl1 & Hl2 & Hl3).
    destruct (load_acc_spec t a s) as [(Hn & Hs & Hg)|(Hn & Hs & Hg)]; rewrite Hs, Hg, Hn.
    - repeat split; try assumption; try lia. intros b [= <-]. exact Hl3.
    - repeat split; try lia. discriminate.
  Qed.

  Definition is_store (o : op) : bool :=
    match o with OStoreNew _ | OStoreH _ | OStoreNull => true | _ => false end.

  Lemma cell_step m o : is_store o = false -> s_cell (m_s (step m o)) = s_cell (m_s m).
  Proof.
    destruct o as [t a|k|v|h|v|h|]; cbn [is_store step]; try discriminate; intros _.
    - destruct (load_acc t a (m_s m)) as [g s'] eqn:E. cbn [m_s].
      pose proof (fresh_load t a (m_s m)) as (_ & Hc & _). now rewrite E in Hc.
    - destruct (nth_error (m_guards m) k) as [[g|]|]; try reflexivity. cbn [m_s].
      rewrite drop_aguard_base. destruct (gbase g) as [b|]; [|reflexivity].
      unfold drop_guard. destruct (g_debt b) as [j|]; [destruct (nth_error (s_slots (m_s m)) j) as [x|]; [destruct (slot_on (g_ptr b) x)|]|]; reflexivity.
    - reflexivity.
    - destruct (nth_error (m_handles m) h) as [[o|]|]; reflexivity.
  Qed.

  (** what the container holds is changed by stores only *)
  Lemma cur_val_stable m o : Inv m -> is_store o = false -> cur_val (m_s (step m o)) = cur_val (m_s m).
  Proof.
    intros I Hs. unfold cur_val. rewrite (cell_step m o Hs).
    destruct (s_cell (m_s m)) as [|i] eqn:Ec; [reflexivity|].
    pose proof (step_inv m o I) as I'.
    assert (Ec' : s_cell (m_s (step m o)) = AObj i) by (now rewrite (cell_step m o Hs)).
    rewrite (pointee_alive _ _ (cell_alive _ _ _ I Ec)), (pointee_alive _ _ (cell_alive _ _ _ I' Ec')).
    apply step_val. now apply (inv_cell_range _ _ I).
  Qed.

  Lemma cur_val_run_stable ops : forall m, Inv m ->
    Forall (fun o => is_store o = false) ops -> cur_val (m_s (run m ops)) = cur_val (m_s m).
  Proof.
    induction ops as [|o ops IH]; intros m I Hf; cbn [run fold_left]; [reflexivity|].
    inversion Hf as [|? ? Ho Hf']; subst. unfold run in IH. rewrite IH; auto using step_inv.
    now apply cur_val_stable.
  Qed.

  Theorem store_visible m :
    Inv m ->
    (forall v, cur_val (m_s (step m (OStoreNew v))) = Some v) /\
    cur_val (m_s (step m OStoreNull)) = Some vnull /\
    (forall h o, nth_error (m_handles m) h = Some (Some o) ->
       cur_val (m_s (step m (OStoreH h))) = val_at (s_heap (m_s m)) o /\ val_at (s_heap (m_s m)) o <> None).
  Proof.
    intros I. split; [|split].
    - intros v. pose proof (step_inv m (OStoreNew v) I) as I'. unfold cur_val.
      assert (Ec : s_cell (m_s (step m (OStoreNew v))) = AObj (length (s_heap (m_s m)))) by reflexivity.
      rewrite Ec, (pointee_alive _ _ (cell_alive _ _ _ I' Ec)). cbn [step m_s]. rewrite val_store_ptr.
      cbn [s_heap with_heap]. unfold val_at. rewrite nth_error_app2 by lia. now rewrite Nat.sub_diag.
    - reflexivity.
    - intros h o H. split.
      + pose proof (step_inv m (OStoreH h) I) as I'. unfold cur_val. revert I'. cbn [step]. rewrite H. intros I'.
        assert (Ec : s_cell (m_s (mkM (store_ptr (AObj o) (with_heap (inc (AObj o) (s_heap (m_s m))) (m_s m))) (m_guards m) (m_handles m))) = AObj o) by reflexivity.
        rewrite Ec, (pointee_alive _ _ (cell_alive _ _ _ I' Ec)). cbn [m_s]. rewrite val_store_ptr.
        cbn [s_heap with_heap]. unfold inc. apply val_add.
      + unfold val_at. pose proof (inv_handle_range _ _ I h o H) as Hr. apply nth_error_Some in Hr.
        destruct (nth_error (s_heap (m_s m)) o); [discriminate|congruence].
  Qed.

  (** A load started after a completed store (with any loads, drops, handle operations in
      between, but no later store) projects that store's value, for as long as the guard
      lives, whatever is stored afterwards. *)
  Theorem fresh_after_store m v ops1 t a ops2 :
    Inv m -> Forall (fun o => is_store o = false) ops1 -> n_direct a = 1 ->
    let m1 := run (step m (OStoreNew v)) ops1 in
    let k := length (m_guards m1) in
    Forall (fun o => o <> ODrop k) ops2 ->
    exists g, nth_error (m_guards (run (step m1 (OLoad t a)) ops2)) k = Some (Some g) /\
              deref (s_heap (m_s (run (step m1 (OLoad t a)) ops2))) g = Some (proj_of a v).
  Proof.
    intros I Hns Hd m1 k Hnd.
    pose proof (step_inv m (OStoreNew v) I) as I0.
    pose proof (run_inv ops1 _ I0) as I1. fold m1 in I1.
    destruct (snapshot m1 t a ops2 I1 Hnd) as (g & Hk & Hdr & _).
    exists g. split; [exact Hk|]. rewrite Hdr. unfold m1.
    rewrite (cur_val_run_stable ops1 _ I0 Hns).
    destruct (store_visible m I) as (Hv & _). now rewrite Hv.
  Qed.

  (** ** Static and dynamic dispatch *)
  Lemma proj_erase a v : proj_of (erase a) v = proj_of a v.
  Proof. induction a; cbn [erase proj_of]; congruence. Qed.
  Lemma n_direct_erase a : n_direct (erase a) = n_direct a.
  Proof. induction a; cbn [erase n_direct]; congruence. Qed.

  (** *** C17, dyn_eq: loading through any mixture of [&], [Arc], [Box], [dyn DynAccess] and
      [AccessConvert] has the same effect on the container as loading through the static
      chain of the same projections, and the two guards protect the same snapshot and
      dereference to the same value in every heap. *)
  Theorem dyn_eq t a s :
    snd (load_acc t a s) = snd (load_acc t (erase a) s) /\
    gbase (fst (load_acc t a s)) = gbase (fst (load_acc t (erase a) s)) /\
    (forall h, deref h (fst (load_acc t a s)) = deref h (fst (load_acc t (erase a) s))).
  Proof.
    induction a as [|a IH f|a IH|a IH|v|a IH|a IH|a IH]; cbn [load_acc erase]; try exact IH.
    - repeat split; reflexivity.
    - destruct (load_acc t a s) as [g s1], (load_acc t (erase a) s) as [g' s1'].
      cbn [fst snd gbase deref] in *. destruct IH as (H1 & H2 & H3). repeat split; try assumption.
      intros h. now rewrite H3.
    - destruct (load_acc t a s) as [g s1]. cbn [fst snd gbase deref] in *. exact IH.
    - destruct (load_acc t a s) as [g s1]. cbn [fst snd] in *.
      destruct (is_dyn_obj a); cbn [gbase deref]; exact IH.
    - repeat split; reflexivity.
  Qed.

  Definition gequiv (x y : option aguard) : Prop :=
    match x, y with
    | None, None => True
    | Some g, Some g' => gbase g = gbase g' /\ forall h, deref h g = deref h g'
    | _, _ => False
    end.
  Definition mequiv (m m' : mstate) : Prop :=
    m_s m = m_s m' /\ m_handles m = m_handles m' /\ Forall2 gequiv (m_guards m) (m_guards m').
  Definition erase_op (o : op) : op := match o with OLoad t a => OLoad t (erase a) | _ => o end.

  Lemma Forall2_nth_error {A B} (R : A -> B -> Prop) l l' k :
    Forall2 R l l' ->
    match nth_error l k, nth_error l' k with
    | Some x, Some y => R x y
    | None, None => True
    | _, _ => False
    end.
  Proof.
    intros H. revert k. induction H as [|x y l l' Hxy H IH]; intros [|k]; cbn [nth_error]; auto. apply IH.
  Qed.

  Lemma Forall2_upd {A B} (R : A -> B -> Prop) l l' k f f' :
    Forall2 R l l' -> (forall x y, R x y -> R (f x) (f' y)) -> Forall2 R (upd k f l) (upd k f' l').
  Proof.
    intros H Hf. revert k. induction H as [|x y l l' Hxy H IH]; intros [|k]; cbn [upd]; constructor; auto.
  Qed.

  (** The whole client run is indistinguishable: same container state (counts, debts), same
      handles, and guard tables that agree on every guard's snapshot and value. *)
  Theorem step_dyn_eq m m' o : mequiv m m' -> mequiv (step m o) (step m' (erase_op o)).
  Proof.
    intros (Hs & Hh & Hg). destruct o as [t a|k|v|h|v|h|]; cbn [step erase_op]; rewrite <- ?Hs, <- ?Hh.
    - destruct (dyn_eq t a (m_s m)) as (H1 & H2 & H3).
      destruct (load_acc t a (m_s m)) as [g s1], (load_acc t (erase a) (m_s m)) as [g' s1'].
      cbn [fst snd] in *. subst s1'. repeat split; cbn [m_s m_handles m_guards]; try assumption.
      apply Forall2_app; [assumption|]. constructor; [|constructor]. now split.
    - pose proof (Forall2_nth_error _ _ _ k Hg) as Hk.
      destruct (nth_error (m_guards m) k) as [[g|]|], (nth_error (m_guards m') k) as [[g'|]|];
        cbn [gequiv] in Hk; try contradiction; try (repeat split; assumption).
      destruct Hk as [Hb _]. repeat split; cbn [m_s m_handles m_guards]; try assumption.
      + rewrite !drop_aguard_base, Hb, Hs. reflexivity.
      + unfold set_nth. apply Forall2_upd; [assumption|]. intros; exact I.
    - repeat split; cbn [m_s m_handles m_guards]; congruence.
    - destruct (nth_error (m_handles m) h) as [[o|]|]; repeat split; cbn [m_s m_handles m_guards]; congruence.
    - repeat split; cbn [m_s m_handles m_guards]; congruence.
    - destruct (nth_error (m_handles m) h) as [[o|]|]; repeat split; cbn [m_s m_handles m_guards]; congruence.
    - repeat split; cbn [m_s m_handles m_guards]; congruence.
  Qed.

  Lemma mequiv_refl m : mequiv m m.
  Proof.
    repeat split. induction (m_guards m) as [|x l IH]; constructor; [|exact IH].
    destruct x; cbn [gequiv]; auto.
  Qed.

  Theorem run_dyn_eq ops : forall m m', mequiv m m' -> mequiv (run m ops) (run m' (map erase_op ops)).
  Proof.
    induction ops as [|o ops IH]; intros m m' H; cbn [run fold_left map]; [assumption|].
    apply IH. now apply step_dyn_eq.
  Qed.

  (** *** C17, constant: a [Constant] yields its own value, touches nothing, for ever; so does
      any chain of projections and dispatch wrappers over it. *)
  Theorem constant_own t v s h : load_acc t (Constant v) s = (GConst v, s) /\ deref h (GConst v) = Some v.
  Proof. split; reflexivity. Qed.

  Theorem constant_chain t a s h :
    n_direct a = 0 ->
    snd (load_acc t a s) = s /\ forall w, deref h (fst (load_acc t a s)) = Some (proj_of a w).
  Proof.
    intros Hn. destruct (load_acc_spec t a s) as [(Hn' & _)|(_ & Hs & Hg)]; [congruence|].
    split; [exact Hs|]. intros w. destruct (load_acc_deref t a s h) as [Hd Hc]. rewrite Hd, Hg.
    f_equal. now apply Hc.
  Qed.

  (** reachable states *)
  Definition reachable (m : mstate) : Prop :=
    exists fast nthr ov ops, m = run (init fast nthr ov) ops.
  Lemma reachable_inv m : reachable m -> Inv m.
  Proof. intros (fast & nthr & ov & ops & ->). apply run_inv, init_inv. Qed.
End Access.

(** ** Instance used by the differential check: pointees are trees of numbered nodes, the
    projections select a child. *)
Inductive tree := T (id : N) (kids : list tree).
Definition tnull : tree := T 0 [].
Definition tid (t : tree) : N := match t with T i _ => i end.
Definition kid (i : nat) (t : tree) : tree := match t with T _ ks => nth i ks tnull end.

Definition UAF : N := 4294967295.

Definition obs_guard (h : heap tree) (x : option (aguard tree)) : N :=
  match x with
  | None => 0
  | Some g => match deref tree tnull h g with Some v => tid v + 1 | None => UAF end
  end%N.

(** one observation: cumulative atomic loads and swaps of the container's pointer, the strong
    count of each of the first [nobj] objects, what each of the first [ng] guards shows
    (0 = not created yet or dropped, id + 1 otherwise) *)
Definition observe (nobj ng : nat) (m : mstate tree) : list N :=
  let s := m_s tree m in
  [N.of_nat (s_reads tree s); N.of_nat (s_swaps tree s)]
  ++ map (fun i => N.of_nat (cnt tree (s_heap tree s) i)) (seq 0 nobj)
  ++ map (fun k => obs_guard (s_heap tree s) (nth k (m_guards tree m) None)) (seq 0 ng).

Fixpoint observe_run (nobj ng : nat) (ops : list (op tree)) (m : mstate tree) : list (list N) :=
  match ops with
  | [] => []
  | o :: r => let m' := step tree m o in observe nobj ng m' :: observe_run nobj ng r m'
  end.

Definition access_case (fast : bool) (nthr nobj ng : nat) (ov : option tree) (ops : list (op tree)) : list (list N) :=
  let m0 := init tree fast nthr ov in
  observe nobj ng m0 :: observe_run nobj ng ops m0.

(** short names for generated case files *)
Module AccNames.
  Definition D := Direct tree.
  Definition Mp (a : acc tree) (i : nat) := Map tree a (kid i).
  Definition Mi (a : acc tree) := Map tree a (fun t => t).     (* the unwrapping projection at the bottom *)
  Definition Dy := Dyn tree.
  Definition Cv := Convert tree.
  Definition Cn := Constant tree.
  Definition Rf := ViaRef tree.
  Definition Ar := ViaArc tree.
  Definition Bx := ViaBox tree.
  Definition Ld := OLoad tree.
  Definition Dr := ODrop tree.
  Definition Nw := ONew tree.
  Definition Dh := ODropH tree.
  Definition Sn := OStoreNew tree.
  Definition Sh := OStoreH tree.
  Definition S0 := OStoreNull tree.
End AccNames.
