(** * Seq.HB — a small C11-style happens-before calculus and the synchronisation
    skeleton of arc-swap (property C07).

    ** What is here

    1. An axiomatic (graph-style) fragment of the C11/C++20 memory model: events with a thread
       and a kind (plain write/read of a pointee, atomic load / store / read-modify-write /
       FAILED compare_exchange at a location with an ordering, fences), the relations
       sequenced-before [sb], reads-from [rf], release sequences [rseq] (continued by RMWs,
       the C++20 definition), synchronizes-with [sw] DERIVED FROM THE ORDERINGS of the events
       (incl. the atomic-to-acquire-fence rule that [std::sync::Arc]'s destructor relies on)
       and happens-before [hb] = transitive closure of sb, sw and "additional
       synchronizes-with" edges (thread spawn/join and whatever the user's own code does).
       No consume, no release fences (the crate has none).
    2. The generic composition lemmas.
    3. The synchronisation SKELETON of the crate: for every path on which a pointer travels,
       the chain of events, labelled with the site constants of the REGENERATED table
       [ASModel.Orderings_gen], and a theorem "if <boolean condition on the site constants>
       then init hb deref / deref hb destroy on this path".  [Props/C07.v] proves that the
       conditions hold on the regenerated table by computation, so weakening a relevant
       ordering in /repo makes that file stop compiling.
    4. Site lemmas: the kinds the skeleton uses are exactly the images of the events that
       [ASModel.Step.exec] emits at the corresponding program points (so the labelling of the
       skeleton is tied to the step function by proof, and the step function's labelling is
       tied to the code by the conc runner's per-event ordering comparison).

    ** What is abstracted (read this before trusting anything)

    - The skeleton is hand-written.  That the crate's executions contain these chains (that the
      confirming read really reads-from the publishing swap of THIS incarnation of the address,
      that the walk really reads every slot after the swap, ...) is the business of C01/C03 and of
      the protocol invariants; here it is a HYPOTHESIS of each path theorem ([rf X w r], [sb X i j]).
    - [hb] is only ever used positively (we derive [hb a b]); we never rely on acyclicity or on
      any consistency axiom for the [hb]-conclusions.  The three places where consistency
      axioms of C++20 are needed (coherence for the hand-over envelope, the SeqCst total order
      for "slot publication vs. writer", RMW atomicity for "a slot's release sequence never
      ends") take these axioms as explicit hypotheses over abstract relations [mo], [sc].
    - SeqCst contributes to [sw] only its acquire/release strength (conservative).
    - Load-buffering / out-of-thin-air executions are not distinguished: the calculus is the
      RC11-style "hb = (sb ∪ sw)+" one.
    - The failure of a [compare_exchange] is a load with the FAILURE ordering and is not a
      write: it does not continue a release sequence and cannot be read from. *)
From Coq Require Import List Bool Arith Lia.
From ASModel Require Import Base State Orderings_gen Step.
Import ListNotations.
Local Open Scope nat_scope.

(** ** 1. Events and executions *)

Inductive kind :=
| KWrite (a : N)                  (* plain write to the pointee at address a: initialisation, destruction *)
| KRead (a : N)                   (* plain read of the pointee through a handle (a deref) *)
| KLoad (l : loc) (o : ord)       (* atomic load *)
| KStore (l : loc) (o : ord)      (* atomic store *)
| KRmw (l : loc) (o : ord)        (* swap, fetch_add, fetch_sub, SUCCESSFUL compare_exchange *)
| KCasFail (l : loc) (fo : ord)   (* FAILED compare_exchange: a load with the failure ordering *)
| KFence (o : ord)
| KOther.                         (* anything else *)

Record ev := mkEv { e_tid : N; e_kd : kind }.

(** An execution: the events (index = identity; the list order extends every thread's
    program order), reads-from as a finite relation (writer, reader), and additional
    synchronizes-with edges (thread creation / join, the user's own synchronisation). *)
Record execution := mkExec {
  x_evs : list ev;
  x_rf : list (nat * nat);
  x_asw : list (nat * nat);
}.

Definition kindof (X : execution) (i : nat) : kind := nth i (map e_kd (x_evs X)) KOther.
Definition tidof (X : execution) (i : nat) : N := nth i (map e_tid (x_evs X)) 0%N.

(** Which orderings acquire / release.  (A load/RMW acquires iff Acquire/AcqRel/SeqCst; a
    store/RMW releases iff Release/AcqRel/SeqCst.) *)
Definition acq (o : ord) : bool := match o with Acquire | AcqRel | SeqCst => true | _ => false end.
Definition rel (o : ord) : bool := match o with Release | AcqRel | SeqCst => true | _ => false end.
Definition is_sc (o : ord) : bool := match o with SeqCst => true | _ => false end.

Definition k_wloc (k : kind) : option loc :=
  match k with KStore l _ | KRmw l _ => Some l | _ => None end.
Definition k_rloc (k : kind) : option loc :=
  match k with KLoad l _ | KRmw l _ | KCasFail l _ => Some l | _ => None end.
(** releasing write *)
Definition k_rel (k : kind) : bool :=
  match k with KStore _ o | KRmw _ o => rel o | _ => false end.
(** acquiring read — a failed compare_exchange acquires iff its FAILURE ordering does *)
Definition k_acq (k : kind) : bool :=
  match k with KLoad _ o | KRmw _ o => acq o | KCasFail _ fo => acq fo | _ => false end.
Definition k_acqfence (k : kind) : bool :=
  match k with KFence o => acq o | _ => false end.
Definition k_rmw (k : kind) : bool := match k with KRmw _ _ => true | _ => false end.
Definition k_sc (k : kind) : bool :=
  match k with KLoad _ o | KStore _ o | KRmw _ o | KCasFail _ o | KFence o => is_sc o | _ => false end.

(** sequenced-before *)
Definition sb (X : execution) (i j : nat) : Prop :=
  i < j /\ j < length (x_evs X) /\ tidof X i = tidof X j.
Definition rf (X : execution) (w r : nat) : Prop := In (w, r) (x_rf X).
Definition asw (X : execution) (i j : nat) : Prop := In (i, j) (x_asw X).

(** Release sequence headed by [a] (C++20 [intro.races]/5): [a] followed by RMWs each of which
    reads from the previous member. *)
Inductive rseq (X : execution) : nat -> nat -> Prop :=
| rseq_head a : rseq X a a
| rseq_rmw a u v : rseq X a u -> rf X u v -> k_rmw (kindof X v) = true -> rseq X a v.

(** synchronizes-with, from the orderings ([atomics.order]/2 and [atomics.fences]/4). *)
Inductive sw (X : execution) : nat -> nat -> Prop :=
| sw_read a u b :
    k_rel (kindof X a) = true -> rseq X a u -> rf X u b -> k_acq (kindof X b) = true -> sw X a b
| sw_fence a u r f :
    k_rel (kindof X a) = true -> rseq X a u -> rf X u r -> sb X r f ->
    k_acqfence (kindof X f) = true -> sw X a f.

Inductive hb (X : execution) : nat -> nat -> Prop :=
| hb_sb i j : sb X i j -> hb X i j
| hb_sw i j : sw X i j -> hb X i j
| hb_asw i j : asw X i j -> hb X i j
| hb_trans i j k : hb X i j -> hb X j k -> hb X i k.

(** reflexive closure, for "the same event or an earlier one" *)
Definition hbeq (X : execution) (i j : nat) : Prop := i = j \/ hb X i j.

(** ** 2. Generic lemmas *)

Lemma sb_trans X i j k : sb X i j -> sb X j k -> sb X i k.
Proof. unfold sb. intros (?&?&?) (?&?&?). repeat split; first [lia|congruence]. Qed.

Lemma hbeq_hb_trans X i j k : hbeq X i j -> hb X j k -> hb X i k.
Proof. intros [->|H] ?; [assumption|eapply hb_trans; eassumption]. Qed.

Lemma hb_hbeq_trans X i j k : hb X i j -> hbeq X j k -> hb X i k.
Proof. intros ? [<-|H]; [assumption|eapply hb_trans; eassumption]. Qed.

(** sw from a direct rf edge and the two orderings *)
Lemma sw_of_rf X a b :
  k_rel (kindof X a) = true -> rf X a b -> k_acq (kindof X b) = true -> sw X a b.
Proof. intros. eapply sw_read; eauto using rseq_head. Qed.

(** The workhorse: whatever happens-before (or is) a releasing write is visible after an
    acquiring read of its release sequence. *)
Lemma hb_through_sync X i a u b j :
  hbeq X i a -> k_rel (kindof X a) = true -> rseq X a u -> rf X u b ->
  k_acq (kindof X b) = true -> hbeq X b j -> hb X i j.
Proof.
  intros Hia Hr Hs Hrf Ha Hbj.
  eapply hbeq_hb_trans; [exact Hia|]. eapply hb_hbeq_trans; [|exact Hbj].
  apply hb_sw. eapply sw_read; eassumption.
Qed.

Lemma hb_through_fence X i a u r f j :
  hbeq X i a -> k_rel (kindof X a) = true -> rseq X a u -> rf X u r -> sb X r f ->
  k_acqfence (kindof X f) = true -> hbeq X f j -> hb X i j.
Proof.
  intros Hia Hr Hs Hrf Hsb Ha Hfj.
  eapply hbeq_hb_trans; [exact Hia|]. eapply hb_hbeq_trans; [|exact Hfj].
  apply hb_sw. eapply sw_fence; eassumption.
Qed.

(** A set of events closed under sb, sw and asw is closed under hb (used to REFUTE hb). *)
Lemma hb_closed X (S : nat -> Prop) :
  (forall i j, S i -> sb X i j -> S j) ->
  (forall i j, S i -> sw X i j -> S j) ->
  (forall i j, S i -> asw X i j -> S j) ->
  forall i j, hb X i j -> S i -> S j.
Proof. intros H1 H2 H3 i j H. induction H; eauto. Qed.

(** ** 3. Kinds of the events at the crate's atomic call sites.
    A site constant is the pair (success ordering, failure ordering); for non-CAS sites both
    components are the single ordering argument. *)
Definition k_load (l : loc) (site : ord * ord) : kind := KLoad l (fst site).
Definition k_store (l : loc) (site : ord * ord) : kind := KStore l (fst site).
Definition k_swap (l : loc) (site : ord * ord) : kind := KRmw l (fst site).
Definition k_cas_ok (l : loc) (site : ord * ord) : kind := KRmw l (fst site).
Definition k_cas_fail (l : loc) (site : ord * ord) : kind := KCasFail l (snd site).

(** [std::sync::Arc] (library/alloc/src/sync.rs): [clone] is [strong.fetch_add(1, Relaxed)];
    [drop] is [if strong.fetch_sub(1, Release) != 1 { return }; atomic::fence(Acquire);
    drop_slow()].  These are std's orderings, not the crate's; they are constants here. *)
Definition std_arc_inc : ord := Relaxed.
Definition std_arc_dec : ord := Release.
Definition std_arc_fence : ord := Acquire.
Definition k_arc_inc (a : N) : kind := KRmw (LCount a) std_arc_inc.
Definition k_arc_dec (a : N) : kind := KRmw (LCount a) std_arc_dec.
Definition k_arc_fence : kind := KFence std_arc_fence.

(** ** 4. The paths *)

(** *** (1) Publication: the writer initialises the pointee, then stores the pointer with an
    RMW on the storage (site [wsite]: [o_lib_swap], src/lib.rs [swap]; or the success of
    [o_cas_exchange], src/strategy/hybrid.rs [compare_and_swap]); the reader's confirming read
    (site [rsite]: [o_attempt_confirm], hybrid.rs [attempt], the SECOND read, because of ABA;
    or [o_fallback_candidate], hybrid.rs [fallback]) reads from it; every deref through the
    resulting guard is sequenced after that read. *)
Definition c_publication (wsite rsite : ord * ord) : bool := rel (fst wsite) && acq (fst rsite).

Theorem path_publication :
  forall (wsite rsite : ord * ord), c_publication wsite rsite = true ->
  forall X c init W R deref,
    hbeq X init W ->                              (* initialisation precedes the publishing RMW *)
    kindof X W = k_swap (LStore c) wsite ->       (* ... which is storage.swap / successful CAS *)
    kindof X R = k_load (LStore c) rsite ->       (* the reader's confirming read *)
    rf X W R ->                                   (* obtains the value from that RMW *)
    hbeq X R deref ->                             (* uses of the guard come after it *)
    hb X init deref.
Proof.
  intros wsite rsite Hc X c init W R deref Hi HW HR Hrf Hd.
  apply andb_prop in Hc as [Hrel Hacq].
  eapply hb_through_sync; [exact Hi| |apply rseq_head|exact Hrf| |exact Hd].
  - rewrite HW. exact Hrel.
  - rewrite HR. exact Hacq.
Qed.

(** *** (3) Returned previous value: the writer's own RMW on the storage acquires what the
    previous writer's RMW released. *)
Definition c_prev (wsite1 wsite2 : ord * ord) : bool := rel (fst wsite1) && acq (fst wsite2).

Theorem path_returned_previous :
  forall (wsite1 wsite2 : ord * ord), c_prev wsite1 wsite2 = true ->
  forall X c init W1 W2 deref,
    hbeq X init W1 ->
    kindof X W1 = k_swap (LStore c) wsite1 ->     (* the RMW that stored the value *)
    kindof X W2 = k_swap (LStore c) wsite2 ->     (* the RMW that takes it out again *)
    rf X W1 W2 ->
    hbeq X W2 deref ->                            (* use of the returned previous value *)
    hb X init deref.
Proof.
  intros w1 w2 Hc X c init W1 W2 deref Hi H1 H2 Hrf Hd.
  apply andb_prop in Hc as [Hrel Hacq].
  eapply hb_through_sync; [exact Hi| |apply rseq_head|exact Hrf| |exact Hd].
  - rewrite H1. exact Hrel.
  - rewrite H2. exact Hacq.
Qed.

(** *** (2) Helper hand-over (src/debt/helping.rs [help] / [confirm]).  The helper obtains the
    replacement by a full load (event [hl], any path), stores it into its envelope (E6,
    [o_help_env_store]), installs the envelope in the reader's control word by a successful
    CAS (E7, [o_help_ctrl_cas], release side); the reader's control swap (H5,
    [o_confirm_ctrl_swap], acquire side) reads from that CAS, then loads the envelope (H7,
    [o_confirm_env_load]) and uses the value. *)
Definition c_handover (cas_site swap_site : ord * ord) : bool :=
  rel (fst cas_site) && acq (fst swap_site).

Theorem path_handover :
  forall (cas_site swap_site : ord * ord), c_handover cas_site swap_site = true ->
  forall X n init hl E7 H5 deref,
    hb X init hl ->                               (* the helper obtained the value (paths 1-3) *)
    sb X hl E7 ->
    kindof X E7 = k_cas_ok (LCtrl n) cas_site ->  (* helper: control CAS gen -> envelope|TAG *)
    kindof X H5 = k_swap (LCtrl n) swap_site ->   (* reader: control.swap(IDLE) *)
    rf X E7 H5 ->
    hbeq X H5 deref ->
    hb X init deref.
Proof.
  intros cs ss Hc X n init hl E7 H5 deref Hi Hsb HE HH Hrf Hd.
  apply andb_prop in Hc as [Hrel Hacq].
  eapply hb_through_sync; [right; eapply hb_trans; [exact Hi|apply hb_sb; exact Hsb]
                          | |apply rseq_head|exact Hrf| |exact Hd].
  - rewrite HE. exact Hrel.
  - rewrite HH. exact Hacq.
Qed.

(** The envelope's content is not stale: with the control word synchronising, the helper's
    envelope store happens-before the reader's envelope load, so by write-read coherence the
    load returns that store or a later one — whatever the orderings of the envelope accesses
    themselves (the source comments say "Relaxed is fine" there; the crate uses SeqCst).
    [mo] is an abstract modification order; coherence and totality are hypotheses. *)
Definition coherent_wr (X : execution) (mo : nat -> nat -> Prop) : Prop :=
  forall w r x l, hb X w r -> k_wloc (kindof X w) = Some l -> k_rloc (kindof X r) = Some l ->
                  rf X x r -> ~ mo x w.
Definition mo_total (X : execution) (mo : nat -> nat -> Prop) : Prop :=
  forall w w' l, k_wloc (kindof X w) = Some l -> k_wloc (kindof X w') = Some l ->
                 w = w' \/ mo w w' \/ mo w' w.
Definition rf_wf (X : execution) : Prop :=
  forall w r, rf X w r -> exists l, k_wloc (kindof X w) = Some l /\ k_rloc (kindof X r) = Some l.

Theorem handover_envelope_fresh :
  forall (cas_site swap_site env_st env_ld : ord * ord), c_handover cas_site swap_site = true ->
  forall X mo n e E6 E7 H5 H7 x,
    coherent_wr X mo -> mo_total X mo -> rf_wf X ->
    kindof X E6 = k_store (LEnv e) env_st -> sb X E6 E7 ->
    kindof X E7 = k_cas_ok (LCtrl n) cas_site ->
    kindof X H5 = k_swap (LCtrl n) swap_site -> rf X E7 H5 ->
    sb X H5 H7 -> kindof X H7 = k_load (LEnv e) env_ld ->
    rf X x H7 ->
    x = E6 \/ mo E6 x.
Proof.
  intros cs ss es el Hc X mo n e E6 E7 H5 H7 x Hco Htot Hwf H6 Hsb67 H7k H5k Hrf Hsb57 H7l Hx.
  apply andb_prop in Hc as [Hrel Hacq].
  assert (Hhb : hb X E6 H7).
  { eapply hb_through_sync; [right; apply hb_sb; exact Hsb67| |apply rseq_head|exact Hrf|
                             |right; apply hb_sb; exact Hsb57].
    - rewrite H7k. exact Hrel.
    - rewrite H5k. exact Hacq. }
  destruct (Hwf _ _ Hx) as (l & Hwl & Hrl).
  rewrite H7l in Hrl. cbn in Hrl. injection Hrl as <-.
  assert (H6w : k_wloc (kindof X E6) = Some (LEnv e)) by (rewrite H6; reflexivity).
  destruct (Htot x E6 (LEnv e) Hwl H6w) as [->|[Hm|Hm]]; [left; reflexivity| |right; exact Hm].
  exfalso. eapply Hco; [exact Hhb|exact H6w| |exact Hx|exact Hm].
  rewrite H7l. reflexivity.
Qed.

(** *** Dropping an owned handle ([Arc]'s protocol).  Whatever happens-before a decrement of
    the count happens-before the destruction: the decrement is a Release RMW, every
    modification of the count is an RMW (so the release sequence reaches the last
    decrement), and the destroyer issues an Acquire fence after the last decrement. *)
Inductive last_dec (X : execution) (dw dz : nat) : Prop :=
| last_dec_same : dw = dz -> last_dec X dw dz
| last_dec_later u : rseq X dw u -> rf X u dz -> last_dec X dw dz.

Definition c_arc : bool := rel std_arc_dec && acq std_arc_fence.
Lemma c_arc_ok : c_arc = true. Proof. reflexivity. Qed.

Theorem arc_drop_hb :
  forall X a e dw dz f destroy,
    hbeq X e dw ->                                  (* an access through the handle, before it is dropped *)
    kindof X dw = k_arc_dec a ->                    (* the handle's drop: fetch_sub(1, Release) *)
    last_dec X dw dz ->                             (* the decrement that reaches zero *)
    sb X dz f -> kindof X f = k_arc_fence ->        (* fence(Acquire) *)
    hbeq X f destroy ->                             (* drop_in_place / dealloc *)
    hb X e destroy.
Proof.
  intros X a e dw dz f destroy He Hdw Hl Hsb Hf Hd.
  destruct Hl as [<-|u Hrs Hrf].
  - eapply hbeq_hb_trans; [exact He|]. eapply hb_hbeq_trans; [apply hb_sb; exact Hsb|exact Hd].
  - eapply hb_through_fence; [exact He| |exact Hrs|exact Hrf|exact Hsb| |exact Hd].
    + rewrite Hdw. reflexivity.
    + rewrite Hf. reflexivity.
Qed.

(** *** (4a) Debt return -> writer walk -> destruction.  The reader derefs under the protection
    of a debt and returns the debt: [Debt::pay] SUCCEEDS (release side of [o_pay],
    src/debt/mod.rs).  A writer that has removed the value walks the slots ([pay_all]); its
    [Debt::pay] on this slot FAILS, reading the emptied slot or any later content of it — all
    modifications of a slot are RMWs, so they continue the release sequence of the reader's
    pay — with the FAILURE ordering of [o_pay], which must acquire.  Whoever the writer hands
    the removed value to eventually drops the last reference. *)
Definition c_pay (pay : ord * ord) : bool := rel (fst pay) && acq (snd pay).

Theorem path_debt_return_walk :
  forall (pay : ord * ord), c_pay pay = true ->
  forall X n j deref p u q,
    hbeq X deref p ->
    kindof X p = k_cas_ok (LSlot n j) pay ->        (* reader: guard drop, pay succeeds *)
    rseq X p u -> rf X u q ->
    kindof X q = k_cas_fail (LSlot n j) pay ->      (* writer's walk: pay fails on this slot *)
    hb X deref q.
Proof.
  intros pay Hc X n j deref p u q Hd Hp Hrs Hrf Hq.
  apply andb_prop in Hc as [Hrel Hacq].
  eapply hb_through_sync; [exact Hd| |exact Hrs|exact Hrf| |left; reflexivity].
  - rewrite Hp. exact Hrel.
  - rewrite Hq. exact Hacq.
Qed.

Theorem path_debt_return_destroy :
  forall (pay : ord * ord), c_pay pay = true ->
  forall X n j a deref p u q dw dz f destroy,
    hbeq X deref p ->
    kindof X p = k_cas_ok (LSlot n j) pay ->
    rseq X p u -> rf X u q ->
    kindof X q = k_cas_fail (LSlot n j) pay ->
    hbeq X q dw ->                                  (* the walk precedes the drop of the removed value *)
    kindof X dw = k_arc_dec a ->
    last_dec X dw dz -> sb X dz f -> kindof X f = k_arc_fence -> hbeq X f destroy ->
    hb X deref destroy.
Proof.
  intros pay Hc X n j a deref p u q dw dz f destroy Hd Hp Hrs Hrf Hq Hqd Hdw Hl Hsb Hf Hfd.
  eapply arc_drop_hb; [right|exact Hdw|exact Hl|exact Hsb|exact Hf|exact Hfd].
  eapply hb_hbeq_trans; [|exact Hqd].
  eapply path_debt_return_walk; eassumption.
Qed.

(** *** (4b) The writer pays the debt: it pre-pays a count ([T::inc], Relaxed), then its
    [Debt::pay] SUCCEEDS (release); the reader's [Debt::pay] at guard drop FAILS (failure
    ordering of [o_pay] must acquire) and the reader decrements the count.  The writer's
    increment happens-before the reader's decrement of it; with write-write coherence it is
    therefore earlier in the count's modification order — the count cannot reach zero through
    the reader's decrement before the increment that paid for it. *)
Theorem path_writer_pays :
  forall (pay : ord * ord), c_pay pay = true ->
  forall X n j a iw pw u qr dr,
    kindof X iw = k_arc_inc a -> sb X iw pw ->
    kindof X pw = k_cas_ok (LSlot n j) pay ->       (* writer's walk: pay succeeds *)
    rseq X pw u -> rf X u qr ->
    kindof X qr = k_cas_fail (LSlot n j) pay ->     (* reader: guard drop, pay fails *)
    sb X qr dr -> kindof X dr = k_arc_dec a ->
    hb X iw dr.
Proof.
  intros pay Hc X n j a iw pw u qr dr Hi Hsb Hp Hrs Hrf Hq Hsb2 Hd.
  apply andb_prop in Hc as [Hrel Hacq].
  eapply hb_through_sync; [right; apply hb_sb; exact Hsb| |exact Hrs|exact Hrf|
                           |right; apply hb_sb; exact Hsb2].
  - rewrite Hp. exact Hrel.
  - rewrite Hq. exact Hacq.
Qed.

Definition coherent_ww (X : execution) (mo : nat -> nat -> Prop) : Prop :=
  forall w w' l, hb X w w' -> k_wloc (kindof X w) = Some l -> k_wloc (kindof X w') = Some l -> mo w w'.

Corollary path_writer_pays_mo :
  forall (pay : ord * ord), c_pay pay = true ->
  forall X mo n j a iw pw u qr dr,
    coherent_ww X mo ->
    kindof X iw = k_arc_inc a -> sb X iw pw ->
    kindof X pw = k_cas_ok (LSlot n j) pay ->
    rseq X pw u -> rf X u qr ->
    kindof X qr = k_cas_fail (LSlot n j) pay ->
    sb X qr dr -> kindof X dr = k_arc_dec a ->
    mo iw dr.
Proof.
  intros pay Hc X mo n j a iw pw u qr dr Hco Hi Hsb Hp Hrs Hrf Hq Hsb2 Hd.
  eapply (Hco iw dr (LCount a)).
  - eapply path_writer_pays; eassumption.
  - rewrite Hi. reflexivity.
  - rewrite Hd. reflexivity.
Qed.

(** *** A slot's release sequence never ends.  Every modification of a debt slot (and of an
    [Arc]'s count) is an RMW — slots: [o_fast_publish] swap, [o_confirm_slot_swap] swap,
    [o_pay] compare_exchange; the translator fixes the method of every site — so, by RMW
    atomicity, every write that follows a write [p] in the modification order belongs to the
    release sequence of [p].  This is why the hypothesis [rseq X p u] of (4a)/(4b) holds for
    whatever later content of the slot the failed [pay] reads. *)
Definition rmw_atomic (X : execution) (mo : nat -> nat -> Prop) : Prop :=
  forall u v, k_rmw (kindof X v) = true -> rf X u v -> mo u v /\ forall w, mo u w -> mo w v -> False.

Lemma rseq_of_mo :
  forall X mo l p,
    well_founded mo -> mo_total X mo -> rmw_atomic X mo ->
    k_wloc (kindof X p) = Some l ->
    (* every write to l that is mo-after something is an RMW that reads from some write to l *)
    (forall y, k_wloc (kindof X y) = Some l -> mo p y ->
               k_rmw (kindof X y) = true /\ exists u, rf X u y /\ k_wloc (kindof X u) = Some l) ->
    forall y, k_wloc (kindof X y) = Some l -> mo p y -> rseq X p y.
Proof.
  intros X mo l p Hwf Htot Hat Hp Hall y.
  induction (Hwf y) as [y _ IH]. intros Hy Hpy.
  destruct (Hall y Hy Hpy) as (Hrmw & u & Hrf & Hu).
  destruct (Hat u y Hrmw Hrf) as (Huy & Himm).
  destruct (Htot p u l Hp Hu) as [->|[Hpu|Hup]].
  - eapply rseq_rmw; [apply rseq_head|exact Hrf|exact Hrmw].
  - eapply rseq_rmw with (u := u); [apply IH; assumption|exact Hrf|exact Hrmw].
  - exfalso. eapply Himm; eassumption.
Qed.

(** *** (5) Slot publication vs. the writer: the SeqCst total-order argument
    (src/debt/fast.rs "Orderings", helping.rs "Orderings").  Reader: publishes the debt with a
    SeqCst swap on the slot (Rs: [o_fast_publish] / [o_confirm_slot_swap]) and then reads the
    storage with a SeqCst load (Rc: [o_attempt_confirm] / [o_fallback_candidate]).  Writer:
    SeqCst RMW on the storage (Ws: [o_lib_swap] / success of [o_cas_exchange]) and then walks
    the slots (Wp: a [Debt::pay] attempt on the slot).  Either the reader's read returns the
    writer's value or a later one (so the reader does not confirm the removed value), or the
    writer's walk reads the reader's debt or a later content of the slot.

    [sc] is an abstract strict total order on the SeqCst events, [mo] an abstract modification
    order; the axioms used are hypotheses:
    - [sc_sb]: sc extends sb on SeqCst events; [sc_total], [sc_irrefl], [sc_trans];
    - [sc_read_rule] (C++20 [atomics.order]/4 through "reads-before"): a SeqCst read that reads
      from a write mo-before ANOTHER SeqCst write W precedes W in sc;
    - [walk_not_stale]: the walk's pay attempt, sequenced after the writer's SeqCst RMW, does
      not read a slot content older than a SeqCst write that precedes that RMW in sc.
      NOTE: [o_pay] is (Release, Acquire), not SeqCst, so this last hypothesis is NOT a
      consequence of the letter of C++20; it is the assumption "compare_exchange reads the
      newest value" of DESIGN.md §5 (true of Miri and of the view machine of §2.3, where
      RMW attempts read the latest message and a SeqCst RMW joins the global SC view).  It is
      a hypothesis here, visibly. *)
Record sc_order (X : execution) (sc : nat -> nat -> Prop) : Prop := {
  sc_irrefl : forall i, ~ sc i i;
  sc_trans : forall i j k, sc i j -> sc j k -> sc i k;
  sc_total : forall i j, k_sc (kindof X i) = true -> k_sc (kindof X j) = true ->
                         i = j \/ sc i j \/ sc j i;
  sc_sb : forall i j, sb X i j -> k_sc (kindof X i) = true -> k_sc (kindof X j) = true -> sc i j;
}.
Definition sc_read_rule (X : execution) (mo sc : nat -> nat -> Prop) : Prop :=
  forall r w x l, k_sc (kindof X r) = true -> k_sc (kindof X w) = true ->
                  k_rloc (kindof X r) = Some l -> k_wloc (kindof X w) = Some l ->
                  r <> w -> rf X x r -> mo x w -> sc r w.
Definition walk_not_stale (X : execution) (mo sc : nat -> nat -> Prop) (Ws Wp : nat) : Prop :=
  forall w y l, k_sc (kindof X w) = true -> k_wloc (kindof X w) = Some l ->
                k_rloc (kindof X Wp) = Some l -> sc w Ws -> rf X y Wp -> ~ mo y w.

(** A SeqCst access needs no such hypothesis: for it, [walk_not_stale] follows from the rules. *)
Lemma not_stale_of_sc X mo sc Ws Wp :
  sc_order X sc -> sc_read_rule X mo sc ->
  k_sc (kindof X Ws) = true -> k_sc (kindof X Wp) = true -> sb X Ws Wp ->
  walk_not_stale X mo sc Ws Wp.
Proof.
  intros Hsc Hrd SWs SWp Hsb w y l Sw Hwl Hrl Hlt Hy Hm.
  assert (Hwp : sc w Wp).
  { eapply (sc_trans X sc Hsc); [exact Hlt|]. apply (sc_sb X sc Hsc); [exact Hsb|exact SWs|exact SWp]. }
  apply (sc_irrefl X sc Hsc w).
  eapply (sc_trans X sc Hsc); [exact Hwp|].
  eapply Hrd; [exact SWp|exact Sw|exact Hrl|exact Hwl| |exact Hy|exact Hm].
  intros ->. exact (sc_irrefl X sc Hsc _ Hwp).
Qed.

(** The store-buffering dichotomy, generic in the two locations. *)
Lemma sb_dichotomy :
  forall X mo sc l1 l2 Rs Rc Ws Wp x y,
    sc_order X sc -> sc_read_rule X mo sc -> mo_total X mo -> rf_wf X ->
    l1 <> l2 ->
    k_sc (kindof X Rs) = true -> k_wloc (kindof X Rs) = Some l1 ->
    k_sc (kindof X Rc) = true -> k_rloc (kindof X Rc) = Some l2 ->
    sb X Rs Rc ->
    k_sc (kindof X Ws) = true -> k_wloc (kindof X Ws) = Some l2 ->
    sb X Ws Wp -> k_rloc (kindof X Wp) = Some l1 ->
    walk_not_stale X mo sc Ws Wp ->
    rf X x Rc -> rf X y Wp ->
    (x = Ws \/ mo Ws x) \/ (y = Rs \/ mo Rs y).
Proof.
  intros X mo sc l1 l2 Rs Rc Ws Wp x y Hsc Hrd Htot Hwf Hne SRs HRl SRc HRc Hsb1 SWs HWl Hsb2 HWp Hns Hx Hy.
  destruct (sc_total X sc Hsc Ws Rs SWs SRs) as [E|[Hlt|Hlt]].
  - exfalso. subst Ws. rewrite HRl in HWl. injection HWl as E. exact (Hne E).
  - (* writer first in sc: the reader's SeqCst read sees it *)
    left.
    destruct (Hwf _ _ Hx) as (l & Hxl & Hrl). rewrite HRc in Hrl. injection Hrl as <-.
    destruct (Htot x Ws _ Hxl HWl) as [->|[Hm|Hm]]; [left; reflexivity| |right; exact Hm].
    exfalso.
    assert (Hwc : sc Ws Rc).
    { eapply (sc_trans X sc Hsc); [exact Hlt|]. apply (sc_sb X sc Hsc); [exact Hsb1|exact SRs|exact SRc]. }
    apply (sc_irrefl X sc Hsc Ws).
    eapply (sc_trans X sc Hsc); [exact Hwc|].
    eapply Hrd; [exact SRc|exact SWs|exact HRc|exact HWl| |exact Hx|exact Hm].
    intros ->. exact (sc_irrefl X sc Hsc _ Hwc).
  - (* reader first in sc: the writer's second access sees the reader's write *)
    right.
    destruct (Hwf _ _ Hy) as (l & Hyl & Hrl). rewrite HWp in Hrl. injection Hrl as <-.
    destruct (Htot y Rs _ Hyl HRl) as [->|[Hm|Hm]]; [left; reflexivity| |right; exact Hm].
    exfalso. eapply (Hns Rs y); [exact SRs|exact HRl|exact HWp|exact Hlt|exact Hy|exact Hm].
Qed.

Definition c_sc_sites (pub_site conf_site wr_site : ord * ord) : bool :=
  is_sc (fst pub_site) && is_sc (fst conf_site) && is_sc (fst wr_site).

Theorem slot_vs_writer :
  forall (pub_site conf_site wr_site : ord * ord), c_sc_sites pub_site conf_site wr_site = true ->
  forall X mo sc c n j Rs Rc Ws Wp x y,
    sc_order X sc -> sc_read_rule X mo sc -> mo_total X mo -> rf_wf X ->
    kindof X Rs = k_swap (LSlot n j) pub_site ->   (* reader publishes the debt *)
    kindof X Rc = k_load (LStore c) conf_site ->   (* reader's confirming / candidate read *)
    sb X Rs Rc ->
    kindof X Ws = k_swap (LStore c) wr_site ->     (* writer's RMW on the storage *)
    sb X Ws Wp ->
    k_rloc (kindof X Wp) = Some (LSlot n j) ->     (* writer's pay attempt on that slot *)
    walk_not_stale X mo sc Ws Wp ->
    rf X x Rc -> rf X y Wp ->
    (x = Ws \/ mo Ws x) \/ (y = Rs \/ mo Rs y).
Proof.
  intros ps cs ws Hc X mo sc c n j Rs Rc Ws Wp x y Hsc Hrd Htot Hwf HRs HRc Hsb1 HWs Hsb2 HWp Hns Hx Hy.
  apply andb_prop in Hc as [Hc Hw]. apply andb_prop in Hc as [Hp Hcf].
  eapply (sb_dichotomy X mo sc (LSlot n j) (LStore c) Rs Rc Ws Wp); try eassumption.
  - discriminate.
  - rewrite HRs; exact Hp.
  - rewrite HRs; reflexivity.
  - rewrite HRc; exact Hcf.
  - rewrite HRc; reflexivity.
  - rewrite HWs; exact Hw.
  - rewrite HWs; reflexivity.
Qed.

(** The same argument at the START of the fallback (helping.rs "Orderings": "We use SeqCst on a
    read-write operation both here at the very start of the sequence (storing the generation
    into the control) and in the writer on the actual pointer").  Reader: control.swap(gen)
    ([o_help_gen_swap]) then the candidate read ([o_fallback_candidate]); writer: RMW on the
    storage then [who.control.load] ([o_help_ctrl_load]).  All FOUR sites are SeqCst accesses,
    so no extra hypothesis is needed: either the candidate read returns the writer's value or
    a later one, or the writer sees the generation (and helps) or a later control value. *)
Definition c_sc_gen (gen_site cand_site wr_site ctrl_ld_site : ord * ord) : bool :=
  is_sc (fst gen_site) && is_sc (fst cand_site) && is_sc (fst wr_site) && is_sc (fst ctrl_ld_site).

Theorem gen_vs_writer :
  forall (gen_site cand_site wr_site ctrl_ld_site : ord * ord),
    c_sc_gen gen_site cand_site wr_site ctrl_ld_site = true ->
  forall X mo sc c n Rs Rc Ws Wp x y,
    sc_order X sc -> sc_read_rule X mo sc -> mo_total X mo -> rf_wf X ->
    kindof X Rs = k_swap (LCtrl n) gen_site ->     (* reader: control.swap(gen) *)
    kindof X Rc = k_load (LStore c) cand_site ->   (* reader: candidate read *)
    sb X Rs Rc ->
    kindof X Ws = k_swap (LStore c) wr_site ->     (* writer's RMW on the storage *)
    sb X Ws Wp ->
    kindof X Wp = k_load (LCtrl n) ctrl_ld_site -> (* writer: who.control.load *)
    rf X x Rc -> rf X y Wp ->
    (x = Ws \/ mo Ws x) \/ (y = Rs \/ mo Rs y).
Proof.
  intros gs cs ws ls Hc X mo sc c n Rs Rc Ws Wp x y Hsc Hrd Htot Hwf HRs HRc Hsb1 HWs Hsb2 HWp Hx Hy.
  apply andb_prop in Hc as [Hc Hl]. apply andb_prop in Hc as [Hc Hw]. apply andb_prop in Hc as [Hg Hcf].
  assert (SWs : k_sc (kindof X Ws) = true) by (rewrite HWs; exact Hw).
  assert (SWp : k_sc (kindof X Wp) = true) by (rewrite HWp; exact Hl).
  eapply (sb_dichotomy X mo sc (LCtrl n) (LStore c) Rs Rc Ws Wp); try eassumption.
  - discriminate.
  - rewrite HRs; exact Hg.
  - rewrite HRs; reflexivity.
  - rewrite HRc; exact Hcf.
  - rewrite HRc; reflexivity.
  - rewrite HWs; reflexivity.
  - rewrite HWp; reflexivity.
  - apply not_stale_of_sc; assumption.
Qed.

(** *** No data race on the pointee.  The accesses to the pointee at [a] are one
    initialisation, derefs, and one destruction; a race is two conflicting accesses (at least
    one a write) not ordered by hb.  The path theorems deliver the three premises. *)
Definition conflict (X : execution) (a : N) (i j : nat) : Prop :=
  (kindof X i = KWrite a /\ (kindof X j = KWrite a \/ kindof X j = KRead a)) \/
  (kindof X i = KRead a /\ kindof X j = KWrite a).

Theorem no_race_from_paths :
  forall X a init destroy,
    (forall i, kindof X i = KWrite a -> i = init \/ i = destroy) ->
    hb X init destroy ->
    (forall d, kindof X d = KRead a -> hb X init d) ->
    (forall d, kindof X d = KRead a -> hb X d destroy) ->
    forall i j, i <> j -> conflict X a i j -> hb X i j \/ hb X j i.
Proof.
  intros X a init destroy Hw Hid Hin Hde i j Hne [[Hi [Hj|Hj]]|[Hi Hj]].
  - destruct (Hw i Hi) as [->| ->], (Hw j Hj) as [->| ->]; try congruence; auto.
  - destruct (Hw i Hi) as [->| ->]; auto.
  - destruct (Hw j Hj) as [->| ->]; auto.
Qed.

(** ** 5. Site lemmas: the kinds above are what [ASModel.Step.exec] emits.

    [kinds_of_event] maps a model event to calculus kinds (a compare_exchange event becomes an
    RMW with the success ordering when it succeeded and a load with the FAILURE ordering when
    it failed; a count decrement that reaches zero is followed by Arc's fence and the
    destruction write). *)
Definition kinds_of_event (e : event) : list kind :=
  match e with
  | EvAcc l op o fo _ _ ok =>
      match op with
      | OLoad => [KLoad l o]
      | OStore => [KStore l o]
      | OSwap | OFetchAdd | OFetchSub => [KRmw l o]
      | OCas | OCasWeak => if ok then [KRmw l o] else [KCasFail l fo]
      end
  | EvRc a true _ => [k_arc_inc a]
  | EvRc a false _ => [k_arc_dec a]
  | EvAlloc a _ => [KWrite a]
  | EvDestroy a _ => [k_arc_fence; KWrite a]
  | _ => []
  end.

Definition exec_kinds (cf : config) (s : shared) (l : tlocal) (p : pc) (x : N) : list kind :=
  flat_map kinds_of_event (snd (fst (exec cf s l p x))).

(** writer: storage.swap — src/lib.rs [swap] *)
Lemma site_S1 cf s l c new x :
  exec_kinds cf s l (S1 c new) x = [k_swap (LStore c) o_lib_swap].
Proof.
  unfold exec_kinds, exec, a_swap. cbn [fst snd].
  destruct (enter_pay l c (mem s (LStore c))). reflexivity.
Qed.

(** writer: compare_exchange_weak on the storage — hybrid.rs [compare_and_swap] *)
Lemma site_K1 cf s l c cur new v d x :
  exec_kinds cf s l (K1 c cur new v d) x = [k_cas_ok (LStore c) o_cas_exchange] \/
  exec_kinds cf s l (K1 c cur new v d) x = [k_cas_fail (LStore c) o_cas_exchange].
Proof.
  unfold exec_kinds, exec, a_cas.
  destruct ((mem s (LStore c) =? cur)%N && negb (true && (x =? 1)%N)) eqn:E.
  - left. destruct (enter_pay l c v). reflexivity.
  - right. destruct (guard_drop_frames v d); [destruct (enter_load cf l c) as [[? ?]|?]|]; reflexivity.
Qed.

(** reader: the confirming read of the fast path — hybrid.rs [attempt], second load *)
Lemma site_LA4 cf s l c v j x :
  exec_kinds cf s l (LA4 c v j) x = [k_load (LStore c) o_attempt_confirm].
Proof.
  unfold exec_kinds, exec, a_load. cbn [fst snd].
  destruct (mem s (LStore c) =? v)%N; [destruct (with_exit l _)|]; reflexivity.
Qed.

(** reader: the candidate read of the fallback — hybrid.rs [fallback] *)
Lemma site_LH3 cf s l c gt x :
  exec_kinds cf s l (LH3 c gt) x = [k_load (LStore c) o_fallback_candidate].
Proof.
  unfold exec_kinds, exec, a_load. cbn [fst snd].
  destruct (tl_node l); [destruct (cf_debug cf)|]; reflexivity.
Qed.

(** reader: publishing the debt in a fast slot — fast.rs [get_debt], swap *)
Lemma site_LA3 cf s l c v j x :
  exec_kinds cf s l (LA3 c v j) x = [k_swap (LSlot (own_node l) j) o_fast_publish].
Proof.
  unfold exec_kinds, exec, a_swap. cbn [fst snd].
  destruct (cf_debug cf && negb (mem s (LSlot (own_node l) j) =? NONE)%N); reflexivity.
Qed.

(** reader: publishing the debt in the helping slot — helping.rs [confirm], first swap *)
Lemma site_LH4 cf s l c gt v x :
  exec_kinds cf s l (LH4 c gt v) x = [k_swap (LSlot (own_node l) HSLOT) o_confirm_slot_swap].
Proof.
  unfold exec_kinds, exec, a_swap. cbn [fst snd].
  destruct (cf_debug cf && negb (mem s (LSlot (own_node l) HSLOT) =? NONE)%N); reflexivity.
Qed.

(** reader: control.swap(IDLE) — helping.rs [confirm], second swap *)
Lemma site_LH5 cf s l c gt v x :
  exec_kinds cf s l (LH5 c gt v) x = [k_swap (LCtrl (own_node l)) o_confirm_ctrl_swap].
Proof.
  unfold exec_kinds, exec, a_swap. cbn [fst snd].
  repeat match goal with |- context [if ?b then _ else _] => destruct b end; reflexivity.
Qed.

(** reader: envelope load — helping.rs [confirm] *)
Lemma site_LH7 cf s l v e x :
  exec_kinds cf s l (LH7 v e) x = [k_load (LEnv e) o_confirm_env_load].
Proof. reflexivity. Qed.

(** helper: envelope store and control CAS — helping.rs [help] *)
Lemma site_PE6 cf s l c old w ctl r their mine x :
  exec_kinds cf s l (PE6 c old w ctl r their mine) x = [k_store (LEnv (env_of mine)) o_help_env_store].
Proof.
  unfold exec_kinds, exec, a_store. cbn [fst snd].
  destruct (N.land mine TAG_MASK =? 0)%N; reflexivity.
Qed.

Lemma site_PE7 cf s l c old w ctl r their mine x :
  exec_kinds cf s l (PE7 c old w ctl r their mine) x = [k_cas_ok (LCtrl w) o_help_ctrl_cas] \/
  exec_kinds cf s l (PE7 c old w ctl r their mine) x = [k_cas_fail (LCtrl w) o_help_ctrl_cas].
Proof.
  unfold exec_kinds, exec, a_cas.
  destruct ((mem s (LCtrl w) =? ctl)%N && negb (false && false)) eqn:E.
  - left. reflexivity.
  - right. destruct (r =? 0)%N; reflexivity.
Qed.

(** [Debt::pay] — src/debt/mod.rs: guard drop (GD1), into_inner (GI2), the walk (PS), the
    give-back of an unconfirmed fast debt (LA5) and of the helping debt (LH6b, LH9). *)
Lemma site_GD1 cf s l v sl x :
  exec_kinds cf s l (GD1 v sl) x = [k_cas_ok (slot_loc sl) o_pay] \/
  exec_kinds cf s l (GD1 v sl) x = [k_cas_fail (slot_loc sl) o_pay].
Proof.
  unfold exec_kinds, exec, a_cas.
  destruct ((mem s (slot_loc sl) =? v)%N && negb (false && false)) eqn:E; [left|right]; reflexivity.
Qed.

Lemma site_GI2 cf s l v sl x :
  exec_kinds cf s l (GI2 v sl) x = [k_cas_ok (slot_loc sl) o_pay] \/
  exec_kinds cf s l (GI2 v sl) x = [k_cas_fail (slot_loc sl) o_pay].
Proof.
  unfold exec_kinds, exec, a_cas.
  destruct ((mem s (slot_loc sl) =? v)%N && negb (false && false)) eqn:E; [left|right]; reflexivity.
Qed.

Lemma site_PS cf s l c old w j x :
  exec_kinds cf s l (PS c old w j) x = [k_cas_ok (LSlot w j) o_pay] \/
  exec_kinds cf s l (PS c old w j) x = [k_cas_fail (LSlot w j) o_pay].
Proof.
  unfold exec_kinds, exec, a_cas.
  destruct ((mem s (LSlot w j) =? old)%N && negb (false && false)) eqn:E; [left|right]; reflexivity.
Qed.

Lemma site_LA5 cf s l c v j x :
  exec_kinds cf s l (LA5 c v j) x = [k_cas_ok (LSlot (own_node l) j) o_pay] \/
  exec_kinds cf s l (LA5 c v j) x = [k_cas_fail (LSlot (own_node l) j) o_pay].
Proof.
  unfold exec_kinds, exec, a_cas.
  destruct ((mem s (LSlot (own_node l) j) =? v)%N && negb (false && false)) eqn:E.
  - left. cbn [orb]. destruct (fallback_entry cf l c). reflexivity.
  - right. cbn [orb]. destruct (v =? 0)%N; [destruct (fallback_entry cf l c)|]; reflexivity.
Qed.

(** the count operations and the destruction *)
Lemma site_PDec_kinds cf s l a r x :
  exec_kinds cf s l (PDec a r) x = [] \/
  exec_kinds cf s l (PDec a r) x = [k_arc_dec a] \/
  exec_kinds cf s l (PDec a r) x = [k_arc_dec a; k_arc_fence; KWrite a].
Proof.
  unfold exec_kinds, exec, rc_dec.
  destruct (heap s a); [|left; reflexivity].
  destruct (mem s (LCount a) =? 1)%N; [right; right|right; left]; reflexivity.
Qed.

Lemma site_LH6b cf s l v x :
  exec_kinds cf s l (LH6b v) x = [k_cas_ok (LSlot (own_node l) HSLOT) o_pay] \/
  exec_kinds cf s l (LH6b v) x = [k_cas_fail (LSlot (own_node l) HSLOT) o_pay].
Proof.
  unfold exec_kinds, exec, a_cas.
  destruct ((mem s (LSlot (own_node l) HSLOT) =? v)%N && negb (false && false)) eqn:E.
  - left. cbn [orb]. destruct (with_exit l _). reflexivity.
  - right. cbn [orb]. destruct (v =? 0)%N; [destruct (with_exit l _)|]; reflexivity.
Qed.

Lemma site_LH9 cf s l v r x :
  exec_kinds cf s l (LH9 v r) x = [k_cas_ok (LSlot (own_node l) HSLOT) o_pay] \/
  exec_kinds cf s l (LH9 v r) x = [k_cas_fail (LSlot (own_node l) HSLOT) o_pay].
Proof.
  unfold exec_kinds, exec, a_cas.
  destruct ((mem s (LSlot (own_node l) HSLOT) =? v)%N && negb (false && false)) eqn:E.
  - left. cbn [orb]. destruct (with_exit l _). reflexivity.
  - right. cbn [orb]. destruct (v =? 0)%N; [destruct (with_exit l _)|]; reflexivity.
Qed.

(** reader: control.swap(gen) at the start of the fallback; writer: who.control.load *)
Lemma site_LH2 cf s l c gt x :
  exec_kinds cf s l (LH2 c gt) x = [k_swap (LCtrl (own_node l)) o_help_gen_swap].
Proof.
  unfold exec_kinds, exec, a_swap. cbn [fst snd].
  destruct (cf_debug cf && negb (mem s (LCtrl (own_node l)) =? IDLE)%N); reflexivity.
Qed.

Lemma site_PE1 cf s l c old w x :
  exec_kinds cf s l (PE1 c old w) x = [k_load (LCtrl w) o_help_ctrl_load].
Proof. reflexivity. Qed.

(** the writer's pre-paid increment ([T::inc] in pay_all) *)
Lemma site_P1 cf s l c old x :
  exec_kinds cf s l (P1 c old) x = [] \/ exec_kinds cf s l (P1 c old) x = [k_arc_inc old].
Proof.
  unfold exec_kinds, exec, rc_inc. destruct (heap s old); [right|left]; reflexivity.
Qed.

(** ** 6. The condition on the regenerated table.  [Props/C07.v] proves [c07_table = true] by
    computation; each conjunct is the hypothesis of one path theorem at the crate's sites. *)
Definition c07_table : bool :=
  (* (1) publication: {swap, CAS success} x {fast confirm, fallback candidate} *)
  c_publication o_lib_swap o_attempt_confirm && c_publication o_lib_swap o_fallback_candidate &&
  c_publication o_cas_exchange o_attempt_confirm && c_publication o_cas_exchange o_fallback_candidate &&
  (* (3) returned previous value *)
  c_prev o_lib_swap o_lib_swap && c_prev o_cas_exchange o_lib_swap &&
  (* (2) hand-over through the control word *)
  c_handover o_help_ctrl_cas o_confirm_ctrl_swap &&
  (* (4) debt return / writer pays *)
  c_pay o_pay &&
  (* (5) SeqCst: slot publication vs. writer, generation vs. writer *)
  c_sc_sites o_fast_publish o_attempt_confirm o_lib_swap &&
  c_sc_sites o_fast_publish o_attempt_confirm o_cas_exchange &&
  c_sc_sites o_confirm_slot_swap o_fallback_candidate o_lib_swap &&
  c_sc_sites o_confirm_slot_swap o_fallback_candidate o_cas_exchange &&
  c_sc_gen o_help_gen_swap o_fallback_candidate o_lib_swap o_help_ctrl_load &&
  c_sc_gen o_help_gen_swap o_fallback_candidate o_cas_exchange o_help_ctrl_load.

(** ** 7. A sound boolean checker for [hb] on concrete executions (for the examples). *)
Definition sbb (X : execution) (i j : nat) : bool :=
  (i <? j) && (j <? length (x_evs X)) && N.eqb (tidof X i) (tidof X j).
Definition inb (p : nat * nat) (l : list (nat * nat)) : bool :=
  existsb (fun q => (fst q =? fst p) && (snd q =? snd p)) l.
Fixpoint rseqb (X : execution) (fuel a v : nat) : bool :=
  (a =? v) ||
  match fuel with
  | 0 => false
  | S f => k_rmw (kindof X v) && existsb (fun q => (snd q =? v) && rseqb X f a (fst q)) (x_rf X)
  end.
Definition swb (X : execution) (a b : nat) : bool :=
  k_rel (kindof X a) &&
  existsb (fun q => rseqb X (length (x_rf X)) a (fst q) &&
                    (((snd q =? b) && k_acq (kindof X b)) ||
                     (sbb X (snd q) b && k_acqfence (kindof X b)))) (x_rf X).
Definition stepb (X : execution) (i j : nat) : bool :=
  sbb X i j || swb X i j || inb (i, j) (x_asw X).
(** Reachability by saturation: [grow] adds every event that is one step after a member. *)
Definition memb (k : nat) (l : list nat) : bool := existsb (Nat.eqb k) l.
Definition grow (X : execution) (cur : list nat) : list nat :=
  cur ++ List.filter (fun k => negb (memb k cur) && existsb (fun c => stepb X c k) cur)
                (seq 0 (length (x_evs X))).
Fixpoint saturate (X : execution) (fuel : nat) (cur : list nat) : list nat :=
  match fuel with 0 => cur | S f => saturate X f (grow X cur) end.
Definition succs (X : execution) (i : nat) : list nat :=
  List.filter (stepb X i) (seq 0 (length (x_evs X))).
Definition hbb (X : execution) (fuel i j : nat) : bool :=
  memb j (saturate X fuel (succs X i)).

Lemma sbb_sound X i j : sbb X i j = true -> sb X i j.
Proof.
  unfold sbb, sb. intros H. apply andb_prop in H as [H H3]. apply andb_prop in H as [H1 H2].
  apply Nat.ltb_lt in H1, H2. apply N.eqb_eq in H3. auto.
Qed.

Lemma inb_sound p l : inb p l = true -> In p l.
Proof.
  unfold inb. intros H. apply existsb_exists in H as ([a b] & Hin & H).
  apply andb_prop in H as [H1 H2]. apply Nat.eqb_eq in H1, H2. destruct p; cbn in *; subst. exact Hin.
Qed.

Lemma rseqb_sound X fuel : forall a v, rseqb X fuel a v = true -> rseq X a v.
Proof.
  induction fuel as [|f IH]; intros a v H; cbn in H; apply orb_prop in H as [H|H].
  - apply Nat.eqb_eq in H as ->. apply rseq_head.
  - discriminate.
  - apply Nat.eqb_eq in H as ->. apply rseq_head.
  - apply andb_prop in H as [Hr H]. apply existsb_exists in H as ([u w] & Hin & H).
    apply andb_prop in H as [H1 H2]. cbn in H1, H2. apply Nat.eqb_eq in H1 as ->.
    eapply rseq_rmw; [apply IH; exact H2|exact Hin|exact Hr].
Qed.

Lemma swb_sound X a b : swb X a b = true -> sw X a b.
Proof.
  unfold swb. intros H. apply andb_prop in H as [Hr H].
  apply existsb_exists in H as ([u r] & Hin & H). cbn [fst snd] in H.
  apply andb_prop in H as [Hs H]. apply rseqb_sound in Hs.
  apply orb_prop in H as [H|H]; apply andb_prop in H as [H1 H2].
  - apply Nat.eqb_eq in H1 as ->. eapply sw_read; eassumption.
  - apply sbb_sound in H1. eapply sw_fence; eassumption.
Qed.

Lemma stepb_sound X i j : stepb X i j = true -> hb X i j.
Proof.
  unfold stepb. intros H. apply orb_prop in H as [H|H]; [apply orb_prop in H as [H|H]|].
  - apply hb_sb, sbb_sound, H.
  - apply hb_sw, swb_sound, H.
  - apply hb_asw, inb_sound, H.
Qed.

Lemma grow_sound X i cur : Forall (hb X i) cur -> Forall (hb X i) (grow X cur).
Proof.
  intros H. unfold grow. apply Forall_app. split; [exact H|].
  apply Forall_forall. intros k Hk. apply filter_In in Hk as [_ Hk].
  apply andb_prop in Hk as [_ Hk]. apply existsb_exists in Hk as (c & Hc & Hs).
  rewrite Forall_forall in H. eapply hb_trans; [apply H, Hc|apply stepb_sound, Hs].
Qed.

Lemma saturate_sound X i fuel : forall cur, Forall (hb X i) cur -> Forall (hb X i) (saturate X fuel cur).
Proof. induction fuel as [|f IH]; intros cur H; cbn; [exact H|apply IH, grow_sound, H]. Qed.

Lemma hbb_sound X fuel i j : hbb X fuel i j = true -> hb X i j.
Proof.
  unfold hbb, memb. intros H. apply existsb_exists in H as (k & Hk & E). apply Nat.eqb_eq in E as <-.
  assert (Hs : Forall (hb X i) (saturate X fuel (succs X i))).
  { apply saturate_sound. apply Forall_forall. intros k Hin.
    apply filter_In in Hin as [_ Hin]. apply stepb_sound, Hin. }
  rewrite Forall_forall in Hs. apply Hs, Hk.
Qed.

Lemma hbeq_of_b X fuel i j : (i =? j) || hbb X fuel i j = true -> hbeq X i j.
Proof.
  intros H. apply orb_prop in H as [H|H]; [left; apply Nat.eqb_eq, H|right; eapply hbb_sound, H].
Qed.

Lemma rf_of_b X w r : inb (w, r) (x_rf X) = true -> rf X w r.
Proof. apply inb_sound. Qed.

Lemma last_dec_of_b X dw dz :
  (dw =? dz) || existsb (fun q => (snd q =? dz) && rseqb X (length (x_rf X)) dw (fst q)) (x_rf X) = true ->
  last_dec X dw dz.
Proof.
  intros H. apply orb_prop in H as [H|H].
  - apply last_dec_same, Nat.eqb_eq, H.
  - apply existsb_exists in H as ([u r] & Hin & H). cbn [fst snd] in H.
    apply andb_prop in H as [H1 H2]. apply Nat.eqb_eq in H1 as ->.
    eapply last_dec_later; [eapply rseqb_sound, H2|exact Hin].
Qed.

(** Side conditions of the path theorems on a concrete execution, by computation. *)
Ltac ex_side :=
  lazymatch goal with
  | |- kindof _ _ = _ => reflexivity
  | |- k_rloc _ = _ => reflexivity
  | |- sb _ _ _ => apply sbb_sound; vm_compute; reflexivity
  | |- rf _ _ _ => apply rf_of_b; vm_compute; reflexivity
  | |- hbeq ?X _ _ => apply (hbeq_of_b X (length (x_evs X))); vm_compute; reflexivity
  | |- hb ?X _ _ => apply (hbb_sound X (length (x_evs X))); vm_compute; reflexivity
  | |- rseq ?X _ _ => apply (rseqb_sound X (length (x_rf X))); vm_compute; reflexivity
  | |- last_dec _ _ _ => apply last_dec_of_b; vm_compute; reflexivity
  end.

(** ** 8. Concrete executions (parametric in the site constants)

    [ex_debt]: the D4 scenario (notes/design-round/d4_miri_race.rs, harness/litmus/d4_debt_return).
    Thread 0 initialises the pointee at address 4096 and creates the container 0 holding it,
    then spawns the others.  Reader (thread 1): fast-path load, deref, guard drop (pay succeeds).
    Writer (thread 2): swap, pre-paid increment, its pay on the reader's slot fails (reads the
    emptied slot), drops the pre-paid count.  Thread 3 receives the returned Arc and drops the
    last reference: decrement, fence, destruction.

<<
     0  t0  init (plain write)
     1  t1  storage.load    first         6  t2  storage.swap  swp       10  t3  count dec (last)
     2  t1  slot.swap       pub           7  t2  count inc               11  t3  fence(Acquire)
     3  t1  storage.load    conf          8  t2  slot CAS FAILS pay.2    12  t3  destroy (plain write)
     4  t1  deref (plain read)            9  t2  count dec
     5  t1  slot CAS ok     pay.1
>>
    rf: 2->5, 5->8, 7->9, 9->10; spawn edges 0->1, 0->6, 0->10. *)
Definition exA : N := 4096%N.
Definition ex_debt (pay swp pub conf first : ord * ord) : execution :=
  mkExec
    [ mkEv 0 (KWrite exA);
      mkEv 1 (k_load (LStore 0) first);
      mkEv 1 (k_swap (LSlot 0 0) pub);
      mkEv 1 (k_load (LStore 0) conf);
      mkEv 1 (KRead exA);
      mkEv 1 (k_cas_ok (LSlot 0 0) pay);
      mkEv 2 (k_swap (LStore 0) swp);
      mkEv 2 (k_arc_inc exA);
      mkEv 2 (k_cas_fail (LSlot 0 0) pay);
      mkEv 2 (k_arc_dec exA);
      mkEv 3 (k_arc_dec exA);
      mkEv 3 k_arc_fence;
      mkEv 3 (KWrite exA) ]
    [ (2, 5); (5, 8); (7, 9); (9, 10) ]
    [ (0, 1); (0, 6); (0, 10) ].

(** The table of the crate BEFORE the D4 fix: [Debt::pay] was
    [compare_exchange(ptr, NONE, Release, Relaxed)]; everything else as strong as it gets. *)
Definition d4_pay : ord * ord := (Release, Relaxed).
Definition sc_site : ord * ord := (SeqCst, SeqCst).
Definition ex_d4 : execution := ex_debt d4_pay sc_site sc_site sc_site sc_site.

Lemma rseq_inv X a v :
  rseq X a v -> a = v \/ exists u, rseq X a u /\ rf X u v /\ k_rmw (kindof X v) = true.
Proof. intros H. destruct H; [left; reflexivity|right; eauto]. Qed.

(** With the pre-fix table the condition of (4a) is false ... *)
Example d4_condition_false : c_pay d4_pay = false.
Proof. reflexivity. Qed.

(** ... and in the D4 execution the reader's deref (4) does NOT happen-before the destruction
    (12): {4, 5} is closed under sb, sw and asw.  So the condition is not gratuitous — with
    the pre-fix ordering this very skeleton is a data race (what Miri reports). *)
Theorem d4_refuted : ~ hb ex_d4 4 12.
Proof.
  intros H.
  apply (hb_closed ex_d4 (fun i => i = 4 \/ i = 5)) in H; [lia| | | |left; reflexivity].
  - (* sb *)
    intros i j Hi (Hlt & Hlen & Htid). cbn in Hlen.
    destruct Hi as [-> | ->];
      do 13 (destruct j as [|j]; [cbn in Htid; first [lia|discriminate Htid|auto]|]); lia.
  - (* sw *)
    intros i j Hi Hsw. exfalso.
    destruct Hsw as [a u b Hrel Hrs Hrf Hacq | a u r f Hrel Hrs Hrf Hsb Hacq].
    + destruct Hi as [-> | ->]; [discriminate Hrel|].
      cbn in Hrf.
      repeat (destruct Hrf as [Hrf|Hrf]; [injection Hrf as <- <-; discriminate Hacq|]).
      exact Hrf.
    + destruct Hi as [-> | ->]; [discriminate Hrel|].
      (* the only fence is event 11, on thread 3; the only read of thread 3 before it is 10,
         which reads from 9, and 9 is not in the release sequence of 5 *)
      destruct Hsb as (Hlt & Hlen & Htid). cbn in Hlen.
      cbn in Hrf.
      assert (Hf : f = 11).
      { do 13 (destruct f as [|f]; [try reflexivity; cbn in Hacq; discriminate Hacq|]). lia. }
      subst f.
      destruct Hrf as [Hrf|[Hrf|[Hrf|[Hrf|[]]]]]; injection Hrf as <- <-;
        try (cbn in Htid; discriminate Htid).
      (* u = 9, r = 10: refute rseq 5 9 *)
      apply rseq_inv in Hrs as [E|(u' & Hrs' & Hrf' & _)]; [discriminate E|].
      cbn in Hrf'.
      destruct Hrf' as [Hrf'|[Hrf'|[Hrf'|[Hrf'|[]]]]]; try discriminate Hrf'.
      injection Hrf' as <-.
      apply rseq_inv in Hrs' as [E|(u'' & _ & Hrf'' & _)]; [discriminate E|].
      cbn in Hrf''.
      destruct Hrf'' as [Hrf''|[Hrf''|[Hrf''|[Hrf''|[]]]]]; discriminate Hrf''.
  - (* asw *)
    intros i j Hi Ha. exfalso. cbn in Ha.
    destruct Hi as [-> | ->];
      repeat (destruct Ha as [Ha|Ha]; [discriminate Ha|]); exact Ha.
Qed.

(** [ex_help]: the hand-over.  Thread 0 initialises the pointee and publishes it with a swap.
    Helper (thread 2, a writer inside [help]): its own load confirms the value (2), stores it in
    its envelope 1 (3), installs the envelope in the reader's control word (4).  Reader
    (thread 1, inside [confirm]): control.swap(IDLE) finds the envelope (5), loads it (6), uses
    the value (7).
<<
     0  t0  init                 2  t2  storage.load  conf       5  t1  ctrl.swap   ctrl_swap
     1  t0  storage.swap  swp    3  t2  env.store     env_st     6  t1  env.load    env_ld
                                 4  t2  ctrl CAS ok   ctrl_cas   7  t1  deref
>>
    rf: 1->2, 4->5, 3->6. *)
Definition ex_help (swp conf env_st ctrl_cas ctrl_swap env_ld : ord * ord) : execution :=
  mkExec
    [ mkEv 0 (KWrite exA);
      mkEv 0 (k_swap (LStore 0) swp);
      mkEv 2 (k_load (LStore 0) conf);
      mkEv 2 (k_store (LEnv 1) env_st);
      mkEv 2 (k_cas_ok (LCtrl 0) ctrl_cas);
      mkEv 1 (k_swap (LCtrl 0) ctrl_swap);
      mkEv 1 (k_load (LEnv 1) env_ld);
      mkEv 1 (KRead exA) ]
    [ (1, 2); (4, 5); (3, 6) ]
    [].

(** [ex_pub]: publication and returned previous value.  Thread 0 initialises and swaps the
    value in; reader (thread 1) does a fast-path load and derefs; writer (thread 2) swaps it
    out again and uses the returned previous value.
<<
     0  t0  init                 2  t1  storage.load first      6  t2  storage.swap swp2
     1  t0  storage.swap swp     3  t1  slot.swap    pub        7  t2  deref
                                 4  t1  storage.load conf
                                 5  t1  deref
>>
    rf: 1->4, 1->6. *)
Definition ex_pub (swp swp2 pub conf first : ord * ord) : execution :=
  mkExec
    [ mkEv 0 (KWrite exA);
      mkEv 0 (k_swap (LStore 0) swp);
      mkEv 1 (k_load (LStore 0) first);
      mkEv 1 (k_swap (LSlot 0 0) pub);
      mkEv 1 (k_load (LStore 0) conf);
      mkEv 1 (KRead exA);
      mkEv 2 (k_swap (LStore 0) swp2);
      mkEv 2 (KRead exA) ]
    [ (1, 4); (1, 6) ]
    [].

(** [ex_wpays]: the writer pays the debt.  Writer (thread 2): pre-paid increment (0), its pay
    on the reader's slot succeeds (1).  Reader (thread 1): pay at guard drop fails (2, reads
    from 1), decrements (3). *)
Definition ex_wpays (pay : ord * ord) : execution :=
  mkExec
    [ mkEv 2 (k_arc_inc exA);
      mkEv 2 (k_cas_ok (LSlot 0 0) pay);
      mkEv 1 (k_cas_fail (LSlot 0 0) pay);
      mkEv 1 (k_arc_dec exA) ]
    [ (1, 2) ]
    [].

(** [ex_sbp]: the hypotheses of (5) are jointly satisfiable.  Events in SC order (sc and mo
    are the index order):
<<
     0  t0  storage.swap (initial publication)
     1  t1  slot.swap      Rs         3  t2  storage.swap   Ws  (reads from 0)
     2  t1  storage.load   Rc (reads from 0: confirms the value the writer is about to remove)
                                      4  t2  slot CAS ok    Wp  (reads from 1: the walk sees the debt)
>> *)
Definition ex_sbp : execution :=
  mkExec
    [ mkEv 0 (k_swap (LStore 0) sc_site);
      mkEv 1 (k_swap (LSlot 0 0) sc_site);
      mkEv 1 (k_load (LStore 0) sc_site);
      mkEv 2 (k_swap (LStore 0) sc_site);
      mkEv 2 (k_cas_ok (LSlot 0 0) (Release, Acquire)) ]
    [ (0, 2); (0, 3); (1, 4) ]
    [].

Lemma ex_sbp_sc_order : sc_order ex_sbp lt.
Proof.
  split; intros; try lia.
  destruct H as (? & _). exact H.
Qed.

Lemma ex_sbp_kind_bound w l : k_wloc (kindof ex_sbp w) = Some l -> w < 5.
Proof.
  intros H. do 5 (destruct w as [|w]; [lia|]). exfalso. destruct w; discriminate H.
Qed.

Lemma ex_sbp_read_rule : sc_read_rule ex_sbp lt lt.
Proof.
  intros r w x l Sr Sw Hrl Hwl Hne Hrf Hm.
  pose proof (ex_sbp_kind_bound w l Hwl) as Hb.
  cbn in Hrf. destruct Hrf as [Hrf|[Hrf|[Hrf|[]]]]; injection Hrf as <- <-.
  - (* (0,2): l = storage; SC writes to the storage after 0: only 3 *)
    cbn in Hrl. injection Hrl as <-.
    destruct w as [|[|[|[|[|w]]]]]; try lia; discriminate Hwl.
  - (* (0,3): the RMW itself is excluded *)
    cbn in Hrl. injection Hrl as <-.
    destruct w as [|[|[|[|[|w]]]]]; try lia; discriminate Hwl.
  - discriminate Sr.
Qed.

Lemma ex_sbp_mo_total : mo_total ex_sbp lt.
Proof. intros w w' l _ _. lia. Qed.

Lemma ex_sbp_rf_wf : rf_wf ex_sbp.
Proof.
  intros w r Hrf. cbn in Hrf.
  destruct Hrf as [Hrf|[Hrf|[Hrf|[]]]]; injection Hrf as <- <-; eexists; split; reflexivity.
Qed.

Lemma ex_sbp_not_stale : walk_not_stale ex_sbp lt lt 3 4.
Proof.
  intros w y l Sw Hwl Hrl Hlt Hrf Hm.
  cbn in Hrl. injection Hrl as <-.
  cbn in Hrf. destruct Hrf as [Hrf|[Hrf|[Hrf|[]]]]; try discriminate Hrf. injection Hrf as <-.
  destruct w as [|[|[|w]]]; try lia. discriminate Hwl.
Qed.

(** (the conclusion is trivial here; the point is that every hypothesis of the theorem, i.e.
    every consistency axiom it uses, is discharged on a concrete execution) *)
Example ex_sbp_dichotomy : (0 = 3 \/ 3 < 0) \/ (1 = 1 \/ 1 < 1).
Proof.
  apply (slot_vs_writer sc_site sc_site sc_site eq_refl ex_sbp lt lt 0%N 0%N 0%N 1 2 3 4 0 1);
    first [exact ex_sbp_sc_order | exact ex_sbp_read_rule | exact ex_sbp_mo_total
          | exact ex_sbp_rf_wf | exact ex_sbp_not_stale | ex_side].
Qed.
