(** Extraction of the C15 register machine (OCaml).  Only [ExtrOcamlBasic]; numbers stay the
    extracted inductive [N]; no [Extract Constant]. *)
From Seq Require Import RefCntModel RefCntMachine.
Require Extraction.
Require Import ExtrOcamlBasic.

Extraction Language OCaml.

Extraction "extract/refcnt_model.ml" mstep observe m_init N_digits N_of_digits.
