(** * Seq.RefCntMachine — the register machine on which the model of Seq.RefCntModel and the
    real crate are run side by side (C15 correspondence).

    harness/refcnt interprets the same operation sequences with the real [Arc]/[Rc]/[Weak]/
    [Option] values and the real [arc_swap::RefCnt] methods; this file interprets them with
    the model.  Registers: [A] strong handles (Arc/Rc) and [W] weak handles, used to set up
    count states and to observe; [V] values of the kind under test; [P] raw pointers obtained
    from the trait; [C] containers ([ArcSwapAny<kind>]).  After every operation both sides
    print what every register refers to and the counts std reports through it. *)
From Coq Require Import NArith List Bool.
From stdpp Require Import base decidable numbers option gmap.
From Seq Require Import RefCntModel.
Import ListNotations.
Open Scope N_scope.

Definition NREG : N := 4.
Definition NCON : N := 2.

Record mach := Mach {
  m_st : state;
  m_a : gmap N N;       (* strong handle -> address *)
  m_w : gmap N N;       (* weak handle -> address / DANGLING *)
  m_v : gmap N val;
  m_p : gmap N N;       (* raw pointers handed out by the trait *)
  m_c : gmap N N;       (* container -> stored raw pointer *)
  m_next : N;           (* objects created so far *)
}.

(** The model's allocator: the n-th object lives at 16 * (n + 1); never reused. *)
Definition addr_of_obj (n : N) : N := 16 * (n + 1).
Definition m_init : mach := Mach s_empty ∅ ∅ ∅ ∅ ∅ 0.

Inductive op :=
| ONew (i : N) | OAClone (i j : N) | OADrop (i : N) | ODowngrade (i j : N) | OUpgrade (i j : N)
| OWNew (j : N) | OWClone (i j : N) | OWDrop (i : N)
| OVMake (i j : N) | OVEmpty (d j : N) | OVClone (i j : N) | OVDrop (i : N) | OVUnwrap (i j : N)
| OInto (i j : N) | OAsPtr (i : N) | OFrom (i j : N) | OInc (i j : N) | ODec (i : N) | OPNull (j : N)
| OCNew (c i : N) | OCLoadFull (c j : N) | OCLoadGuard (c j : N) | OCStore (c i : N)
| OCSwap (c i j : N) | OCInto (c j : N) | OCDrop (c : N).

Inductive res := ROk | RInv | RSome | RNone | RPtr (p : N).

Fixpoint wrap (k : kind) (base : val) : val :=
  match k with KOpt k' => VSome (wrap k' base) | _ => base end.

(** The empty value with [d] [Some]s around it, if the kind has one. *)
Fixpoint empty_at (k : kind) (d : nat) : option val :=
  match k, d with
  | KOpt _, O => Some VNone
  | KOpt k', S d' => option_map VSome (empty_at k' d')
  | KWeak, O | KRcWeak, O => Some (VWeak DANGLING)
  | _, _ => None
  end.

(** The handle inside, unless a [None] is met. *)
Fixpoint unwrap (v : val) : option val :=
  match v with VSome v' => unwrap v' | VNone => None | _ => Some v end.

Definition free {A} (lim : N) (r : gmap N A) (i : N) : bool :=
  (i <? lim) && match r !! i with None => true | Some _ => false end.

Definition set_st (m : mach) (s : state) : mach :=
  Mach s (m_a m) (m_w m) (m_v m) (m_p m) (m_c m) (m_next m).
Definition set_a (m : mach) (r : gmap N N) : mach :=
  Mach (m_st m) r (m_w m) (m_v m) (m_p m) (m_c m) (m_next m).
Definition set_w (m : mach) (r : gmap N N) : mach :=
  Mach (m_st m) (m_a m) r (m_v m) (m_p m) (m_c m) (m_next m).
Definition set_v (m : mach) (r : gmap N val) : mach :=
  Mach (m_st m) (m_a m) (m_w m) r (m_p m) (m_c m) (m_next m).
Definition set_p (m : mach) (r : gmap N N) : mach :=
  Mach (m_st m) (m_a m) (m_w m) (m_v m) r (m_c m) (m_next m).
Definition set_c (m : mach) (r : gmap N N) : mach :=
  Mach (m_st m) (m_a m) (m_w m) (m_v m) (m_p m) r (m_next m).
Definition set_next (m : mach) (n : N) : mach :=
  Mach (m_st m) (m_a m) (m_w m) (m_v m) (m_p m) (m_c m) n.

(** One operation.  An operation whose source register is empty, whose destination is
    occupied or out of range, or that the kind does not have is a no-op answering [RInv]
    (on both sides). *)
Definition mstep (k : kind) (o : op) (m : mach) : res * mach :=
  let st := m_st m in
  match o with
  | ONew i =>
      if free NREG (m_a m) i then
        let a := addr_of_obj (m_next m) in
        (ROk, set_next (set_a (set_st m (arc_new a st)) (<[i := a]> (m_a m))) (m_next m + 1))
      else (RInv, m)
  | OAClone i j =>
      match m_a m !! i with
      | Some a => if free NREG (m_a m) j
                  then (ROk, set_a (set_st m (arc_clone a st)) (<[j := a]> (m_a m))) else (RInv, m)
      | None => (RInv, m)
      end
  | OADrop i =>
      match m_a m !! i with
      | Some a => (ROk, set_a (set_st m (arc_drop a st)) (delete i (m_a m)))
      | None => (RInv, m)
      end
  | ODowngrade i j =>
      match m_a m !! i with
      | Some a => if free NREG (m_w m) j
                  then let '(w, st) := arc_downgrade a st in
                       (ROk, set_w (set_st m st) (<[j := w]> (m_w m)))
                  else (RInv, m)
      | None => (RInv, m)
      end
  | OUpgrade i j =>
      match m_w m !! i with
      | Some w => if free NREG (m_a m) j
                  then let '(r, st) := weak_upgrade w st in
                       match r with
                       | Some a => (RSome, set_a (set_st m st) (<[j := a]> (m_a m)))
                       | None => (RNone, set_st m st)
                       end
                  else (RInv, m)
      | None => (RInv, m)
      end
  | OWNew j =>
      if free NREG (m_w m) j
      then let '(d, st) := weak_new st in (ROk, set_w (set_st m st) (<[j := d]> (m_w m)))
      else (RInv, m)
  | OWClone i j =>
      match m_w m !! i with
      | Some w => if free NREG (m_w m) j
                  then (ROk, set_w (set_st m (weak_clone w st)) (<[j := w]> (m_w m))) else (RInv, m)
      | None => (RInv, m)
      end
  | OWDrop i =>
      match m_w m !! i with
      | Some w => (ROk, set_w (set_st m (weak_drop w st)) (delete i (m_w m)))
      | None => (RInv, m)
      end
  | OVMake i j =>
      if free NREG (m_v m) j then
        if strong_kind k then
          match m_a m !! i with
          | Some a => (ROk, set_v (set_a m (delete i (m_a m))) (<[j := wrap k (VStrong a)]> (m_v m)))
          | None => (RInv, m)
          end
        else
          match m_w m !! i with
          | Some w => (ROk, set_v (set_w m (delete i (m_w m))) (<[j := wrap k (VWeak w)]> (m_v m)))
          | None => (RInv, m)
          end
      else (RInv, m)
  | OVEmpty d j =>
      if free NREG (m_v m) j then
        match empty_at k (N.to_nat d) with
        | Some v => (ROk, set_v m (<[j := v]> (m_v m)))
        | None => (RInv, m)
        end
      else (RInv, m)
  | OVClone i j =>
      match m_v m !! i with
      | Some v => if free NREG (m_v m) j
                  then let '(c, st) := clone k v st in (ROk, set_v (set_st m st) (<[j := c]> (m_v m)))
                  else (RInv, m)
      | None => (RInv, m)
      end
  | OVDrop i =>
      match m_v m !! i with
      | Some v => (ROk, set_v (set_st m (drop k v st)) (delete i (m_v m)))
      | None => (RInv, m)
      end
  | OVUnwrap i j =>
      match m_v m !! i with
      | Some v =>
          if free NREG (if strong_kind k then m_a m else m_w m) j then
            let m' := set_v m (delete i (m_v m)) in
            match unwrap v with
            | Some (VStrong a) => (ROk, set_a m' (<[j := a]> (m_a m)))
            | Some (VWeak w) => (ROk, set_w m' (<[j := w]> (m_w m)))
            | _ => (ROk, m')
            end
          else (RInv, m)
      | None => (RInv, m)
      end
  | OInto i j =>
      match m_v m !! i with
      | Some v => if free NREG (m_p m) j
                  then let '(p, st) := into_ptr k v st in
                       (ROk, set_p (set_v (set_st m st) (delete i (m_v m))) (<[j := p]> (m_p m)))
                  else (RInv, m)
      | None => (RInv, m)
      end
  | OAsPtr i =>
      match m_v m !! i with
      | Some v => let '(p, st) := as_ptr k v st in (RPtr p, set_st m st)
      | None => (RInv, m)
      end
  | OFrom i j =>
      match m_p m !! i with
      | Some p => if free NREG (m_v m) j
                  then let '(v, st) := from_ptr k p st in
                       (ROk, set_v (set_p (set_st m st) (delete i (m_p m))) (<[j := v]> (m_v m)))
                  else (RInv, m)
      | None => (RInv, m)
      end
  | OInc i j =>
      match m_v m !! i with
      | Some v => if free NREG (m_p m) j
                  then let '(p, st) := inc k v st in
                       (ROk, set_p (set_st m st) (<[j := p]> (m_p m)))
                  else (RInv, m)
      | None => (RInv, m)
      end
  | ODec i =>
      match m_p m !! i with
      | Some p => (ROk, set_p (set_st m (dec k p st)) (delete i (m_p m)))
      | None => (RInv, m)
      end
  | OPNull j =>
      if nullable k && free NREG (m_p m) j then (ROk, set_p m (<[j := NULL]> (m_p m))) else (RInv, m)
  | OCNew c i =>
      match m_v m !! i with
      | Some v => if free NCON (m_c m) c
                  then let '(p, st) := c_new k v st in
                       (ROk, set_c (set_v (set_st m st) (delete i (m_v m))) (<[c := p]> (m_c m)))
                  else (RInv, m)
      | None => (RInv, m)
      end
  | OCLoadFull c j | OCLoadGuard c j =>
      match m_c m !! c with
      | Some p => if free NREG (m_v m) j
                  then let '(v, st) := c_load_full k p st in
                       (ROk, set_v (set_st m st) (<[j := v]> (m_v m)))
                  else (RInv, m)
      | None => (RInv, m)
      end
  | OCStore c i =>
      match m_c m !! c, m_v m !! i with
      | Some p, Some v =>
          let '(new, st) := c_store k p v st in
          (ROk, set_c (set_v (set_st m st) (delete i (m_v m))) (<[c := new]> (m_c m)))
      | _, _ => (RInv, m)
      end
  | OCSwap c i j =>
      match m_c m !! c, m_v m !! i with
      | Some p, Some v =>
          if free NREG (m_v m) j then
            let '((new, old), st) := c_swap k p v st in
            (ROk, set_c (set_v (set_st m st) (<[j := old]> (delete i (m_v m)))) (<[c := new]> (m_c m)))
          else (RInv, m)
      | _, _ => (RInv, m)
      end
  | OCInto c j =>
      match m_c m !! c with
      | Some p => if free NREG (m_v m) j
                  then let '(v, st) := c_into_inner k p st in
                       (ROk, set_v (set_c (set_st m st) (delete c (m_c m))) (<[j := v]> (m_v m)))
                  else (RInv, m)
      | None => (RInv, m)
      end
  | OCDrop c =>
      match m_c m !! c with
      | Some p => (ROk, set_c (set_st m (c_drop k p st)) (delete c (m_c m)))
      | None => (RInv, m)
      end
  end.

(** ** What is printed after every operation *)

(** Objects are named by creation index. *)
Definition cls_of (m : mach) (a : N) : option N :=
  if (a mod 16 =? 0) && (16 <=? a) && (a / 16 - 1 <? m_next m) then Some (a / 16 - 1) else None.

Inductive hobs :=
| HStrong (cls : option N) (s w : N)              (* Arc::strong_count, Arc::weak_count *)
| HWeak (cls : option N) (s w : N) (up : bool)    (* Weak::strong_count, Weak::weak_count, upgrade().is_some() *)
| HDangling.
Inductive vobs := VoH (h : hobs) | VoNone | VoSome (v : vobs).
Inductive pobs := PNull | PObj (cls : N) | PMax | PUnknown.

Definition obs_strong (m : mach) (a : N) : hobs :=
  HStrong (cls_of m a) (arc_strong_count a (m_st m)) (arc_weak_count a (m_st m)).
Definition obs_weak (m : mach) (w : N) : hobs :=
  if is_dangling w then HDangling
  else HWeak (cls_of m w) (weak_strong_count w (m_st m)) (weak_weak_count w (m_st m))
             (match fst (weak_upgrade w (m_st m)) with Some _ => true | None => false end).
Fixpoint obs_val (m : mach) (v : val) : vobs :=
  match v with
  | VStrong a => VoH (obs_strong m a)
  | VWeak w => VoH (obs_weak m w)
  | VNone => VoNone
  | VSome v' => VoSome (obs_val m v')
  end.
Definition obs_ptr (m : mach) (p : N) : pobs :=
  if p =? NULL then PNull else if p =? DANGLING then PMax else
  match cls_of m p with Some c => PObj c | None => PUnknown end.

Definition regs {A B} (f : A -> B) (r : gmap N A) : list (option B) :=
  map (fun i => option_map f (r !! i)) [0; 1; 2; 3].

Record obsline := ObsLine {
  ol_a : list (option hobs); ol_w : list (option hobs);
  ol_v : list (option vobs); ol_p : list (option pobs);
  ol_drops : N; ol_ub : bool;
}.

Definition observe (m : mach) : obsline :=
  ObsLine (regs (obs_strong m) (m_a m)) (regs (obs_weak m) (m_w m))
          (regs (obs_val m) (m_v m)) (regs (obs_ptr m) (m_p m))
          (drops (m_st m)) (ub (m_st m)).

(** Decimal conversion for the driver. *)
Fixpoint digits_fuel (fuel : nat) (n : N) (acc : list N) : list N :=
  match fuel with
  | O => acc
  | S f => if n <? 10 then n :: acc else digits_fuel f (n / 10) ((n mod 10) :: acc)
  end.
Definition N_digits (n : N) : list N := digits_fuel 40 n [].
Definition N_of_digits (ds : list N) : N := fold_left (fun acc d => acc * 10 + d) ds 0.

(** A whole sequence, for use inside Coq. *)
Fixpoint run (k : kind) (os : list op) (m : mach) : list (res * obsline) * mach :=
  match os with
  | [] => ([], m)
  | o :: os' => let '(r, m1) := mstep k o m in
                let '(ls, m2) := run k os' m1 in ((r, observe m1) :: ls, m2)
  end.

(** Sanity: the crate's [weak.rs] tests on the machine, for the weak container kind. *)
Example machine_there_and_back :
  let ops := [ONew 0; ODowngrade 0 0; OVMake 0 0; OCNew 0 0; OCLoadFull 0 1; OVUnwrap 1 1; OUpgrade 1 1] in
  let '(ls, m) := run KWeak ops m_init in
  arc_strong_count 16 (m_st m) = 2 /\ arc_weak_count 16 (m_st m) = 2 /\ ub (m_st m) = false /\
  map fst ls = [ROk; ROk; ROk; ROk; ROk; ROk; RSome].
Proof. vm_compute. auto. Qed.
