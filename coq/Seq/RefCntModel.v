(** * Seq.RefCntModel — the pointer-kind laws of [arc_swap::RefCnt] (C15).

    Part 1 is a model of the std smart pointers the crate's impls are written against
    ([Arc]/[Rc], [sync::Weak]/[rc::Weak]): a heap of reference-count cells, every std
    primitive a total function on the state that records which cells it reads or writes
    ([touched]) and whether a precondition of std was broken ([ub]).  [Arc] and [Rc] count
    in the same way (they differ in atomicity only), so one model serves both; the kind
    still distinguishes them because the crate has one impl for each.

    Part 2 transliterates the crate: the six impls of [RefCnt] (src/ref_cnt.rs:91-176,
    src/weak.rs:8-56), the trait's default [inc]/[dec] (src/ref_cnt.rs:73-88), and the
    single-threaded skeleton of the container operations that call them (src/lib.rs).

    Part 3 proves the laws, for every kind accepted by the trait bound
    [impl<T: RefCnt> RefCnt for Option<T>] (so also [Option<Option<Arc<_>>>] and
    [Option<Weak<_>>]) and every heap state.

    Pointers are addresses ([N]); the address of the data inside an [ArcInner] is
    identified with the address of the cell (std: a constant, injective offset); the
    pointee [T] itself does not occur: nothing in the impls depends on it (T: Sized). *)
From Coq Require Import NArith List Bool Lia.
From stdpp Require Import base decidable numbers option gmap.
Import ListNotations.
Open Scope N_scope.

(** ** Part 1 — std *)

Definition NULL : N := 0.
(** [Debt::NONE = 0b11] (src/debt/mod.rs:40): must never be the address of an object. *)
Definition DEBT_NONE : N := 3.
(** [Weak::new()] holds the pointer [usize::MAX] and owns no allocation
    (alloc/src/sync.rs: [Weak::new], [is_dangling]). *)
Definition DANGLING : N := 18446744073709551615.

(** [ArcInner]/[RcBox]: the strong count, the weak count (which, as in std, includes one
    weak reference held collectively by all strong ones), whether [T] has not been
    dropped yet. *)
Record cell := Cell { c_strong : N; c_weak : N; c_alive : bool }.

Record state := St {
  heap : gmap N cell;      (* allocated cells *)
  touched : list N;        (* every address whose counts were read or written, newest first *)
  ub : bool;               (* a std precondition was violated (freed / never allocated cell,
                              count underflow, clone of a dead Arc) *)
  drops : N;               (* how many times a pointee was destroyed *)
}.

Definition with_heap (h : gmap N cell) (s : state) : state := St h (touched s) (ub s) (drops s).
Definition touch (a : N) (s : state) : state := St (heap s) (a :: touched s) (ub s) (drops s).
Definition fail (s : state) : state := St (heap s) (touched s) true (drops s).
Definition count_drop (s : state) : state := St (heap s) (touched s) (ub s) (drops s + 1).

(** [Arc::new] / [Rc::new]; the allocator chose [a]. *)
Definition arc_new (a : N) (s : state) : state :=
  with_heap (<[a := Cell 1 1 true]> (heap s)) (touch a s).

(** [Arc::clone]: [strong.fetch_add(1)]. *)
Definition arc_clone (a : N) (s : state) : state :=
  let s := touch a s in
  match heap s !! a with
  | Some c => if 0 <? c_strong c
              then with_heap (<[a := Cell (c_strong c + 1) (c_weak c) (c_alive c)]> (heap s)) s
              else fail s
  | None => fail s
  end.

(** [weak.fetch_sub(1)], freeing the allocation when it was the last one ([Weak::drop];
    also the end of [Arc::drop_slow], which drops the weak held by the strong ones). *)
Definition release_weak (a : N) (s : state) : state :=
  match heap s !! a with
  | Some c => if c_weak c =? 0 then fail s
              else if c_weak c =? 1 then with_heap (delete a (heap s)) s
              else with_heap (<[a := Cell (c_strong c) (c_weak c - 1) (c_alive c)]> (heap s)) s
  | None => fail s
  end.

(** [Arc::drop]: [strong.fetch_sub(1)]; the last one destroys [T] and releases the
    implicit weak reference. *)
Definition arc_drop (a : N) (s : state) : state :=
  let s := touch a s in
  match heap s !! a with
  | Some c => if c_strong c =? 0 then fail s
              else if c_strong c =? 1
              then release_weak a (count_drop (with_heap (<[a := Cell 0 (c_weak c) false]> (heap s)) s))
              else with_heap (<[a := Cell (c_strong c - 1) (c_weak c) (c_alive c)]> (heap s)) s
  | None => fail s
  end.

(** [Arc::downgrade]: [weak + 1]; the [Weak] points to the same cell. *)
Definition arc_downgrade (a : N) (s : state) : N * state :=
  let s := touch a s in
  match heap s !! a with
  | Some c => if 0 <? c_strong c
              then (a, with_heap (<[a := Cell (c_strong c) (c_weak c + 1) (c_alive c)]> (heap s)) s)
              else (a, fail s)
  | None => (a, fail s)
  end.

Definition is_dangling (w : N) : bool := w =? DANGLING.

(** [Weak::new]: no allocation, no access. *)
Definition weak_new (s : state) : N * state := (DANGLING, s).
(** [Weak::ptr_eq]: compares the two pointers, no access. *)
Definition weak_ptr_eq (w1 w2 : N) (s : state) : bool * state := (w1 =? w2, s).

(** [Weak::clone]: a dangling one is copied, otherwise [weak + 1]. *)
Definition weak_clone (w : N) (s : state) : state :=
  if is_dangling w then s else
  let s := touch w s in
  match heap s !! w with
  | Some c => if 0 <? c_weak c
              then with_heap (<[w := Cell (c_strong c) (c_weak c + 1) (c_alive c)]> (heap s)) s
              else fail s
  | None => fail s
  end.

(** [Weak::drop]: nothing for a dangling one. *)
Definition weak_drop (w : N) (s : state) : state :=
  if is_dangling w then s else release_weak w (touch w s).

(** [Weak::upgrade]: [None] for a dangling one and when [strong = 0], else [strong + 1]. *)
Definition weak_upgrade (w : N) (s : state) : option N * state :=
  if is_dangling w then (None, s) else
  let s := touch w s in
  match heap s !! w with
  | Some c => if c_strong c =? 0 then (None, s)
              else (Some w, with_heap (<[w := Cell (c_strong c + 1) (c_weak c) (c_alive c)]> (heap s)) s)
  | None => (None, fail s)
  end.

(** Raw-pointer API: pointer arithmetic only ([addr_of!((..ptr).data)], [byte_sub(offset)],
    [mem::forget]); no count is read.  [Weak::as_ptr]/[into_raw] of a dangling [Weak] give
    the sentinel itself, and [Weak::from_raw] of the sentinel gives a dangling [Weak]: all
    three are the identity on model addresses. *)
Definition arc_into_raw (a : N) (s : state) : N * state := (a, s).
Definition arc_from_raw (p : N) (s : state) : N * state := (p, s).
Definition ptr_read (a : N) (s : state) : N * state := (a, s).      (* bitwise copy of the handle *)
Definition mem_forget (a : N) (s : state) : state := s.
Definition weak_as_ptr (w : N) (s : state) : N * state := (w, s).
Definition weak_into_raw (w : N) (s : state) : N * state := (w, s).
Definition weak_from_raw (p : N) (s : state) : N * state := (p, s).

(** Observers ([Arc::strong_count], [Arc::weak_count], [Weak::strong_count],
    [Weak::weak_count]); pure, used by the correspondence run and by the statements. *)
Definition arc_strong_count (a : N) (s : state) : N :=
  match heap s !! a with Some c => c_strong c | None => 0 end.
Definition arc_weak_count (a : N) (s : state) : N :=
  match heap s !! a with Some c => c_weak c - 1 | None => 0 end.
Definition weak_strong_count (w : N) (s : state) : N :=
  if is_dangling w then 0 else arc_strong_count w s.
Definition weak_weak_count (w : N) (s : state) : N :=
  if is_dangling w then 0 else
  match heap s !! w with Some c => if 0 <? c_strong c then c_weak c - 1 else 0 | None => 0 end.
Definition data_alive (a : N) (s : state) : bool :=
  match heap s !! a with Some c => c_alive c | None => false end.

(** ** Part 2 — the crate *)

(** The types [P] with [P: RefCnt]: the four impls for concrete std types and
    [impl<T: RefCnt> RefCnt for Option<T>] (src/ref_cnt.rs:161), which nests. *)
Inductive kind := KArc | KRc | KWeak | KRcWeak | KOpt (k : kind).
Global Instance kind_eq_dec : EqDecision kind. Proof. solve_decision. Defined.

(** Values of those types. *)
Inductive val :=
| VStrong (a : N)       (* Arc<T> / Rc<T> pointing to cell [a]; owns one strong count *)
| VWeak (w : N)         (* Weak<T>; owns one weak count of [w] unless [w = DANGLING] *)
| VNone
| VSome (v : val).
Global Instance val_eq_dec : EqDecision val. Proof. solve_decision. Defined.

Fixpoint val_ok (k : kind) (v : val) : bool :=
  match k, v with
  | KArc, VStrong _ | KRc, VStrong _ => true
  | KWeak, VWeak _ | KRcWeak, VWeak _ => true
  | KOpt _, VNone => true
  | KOpt k', VSome v' => val_ok k' v'
  | _, _ => false
  end.

(** [RefCnt::into_ptr]. *)
Fixpoint into_ptr (k : kind) (v : val) (s : state) : N * state :=
  match k, v with
  | KArc, VStrong a => arc_into_raw a s                              (* ref_cnt.rs:93-95 *)
  | KRc, VStrong a => arc_into_raw a s                               (* ref_cnt.rs:128-130 *)
  | KWeak, VWeak w | KRcWeak, VWeak w =>                             (* weak.rs:17-23, 42-48 *)
      let '(d, s) := weak_new s in
      let '(e, s) := weak_ptr_eq d w s in
      if e then (NULL, s) else weak_into_raw w s
  | KOpt _, VNone => (NULL, s)                                       (* ref_cnt.rs:163-165 *)
  | KOpt k', VSome v' => into_ptr k' v' s
  | _, _ => (NULL, fail s)
  end.

(** [RefCnt::as_ptr].  For [Arc]/[Rc]: [ptr::read], [into_raw], [from_raw], [forget]. *)
Fixpoint as_ptr (k : kind) (v : val) (s : state) : N * state :=
  match k, v with
  | KArc, VStrong a | KRc, VStrong a =>                              (* ref_cnt.rs:96-120, 131-155 *)
      let '(copy, s) := ptr_read a s in
      let '(p, s) := arc_into_raw copy s in
      let '(back, s) := arc_from_raw p s in
      let s := mem_forget back s in
      (p, s)
  | KWeak, VWeak w | KRcWeak, VWeak w =>                             (* weak.rs:10-16, 35-41 *)
      let '(d, s) := weak_new s in
      let '(e, s) := weak_ptr_eq d w s in
      if e then (NULL, s) else weak_as_ptr w s
  | KOpt _, VNone => (NULL, s)                                       (* ref_cnt.rs:166-168 *)
  | KOpt k', VSome v' => as_ptr k' v' s
  | _, _ => (NULL, fail s)
  end.

(** [RefCnt::from_ptr]. *)
Fixpoint from_ptr (k : kind) (p : N) (s : state) : val * state :=
  match k with
  | KArc | KRc => let '(a, s) := arc_from_raw p s in (VStrong a, s)  (* ref_cnt.rs:121-123, 156-158 *)
  | KWeak | KRcWeak =>                                               (* weak.rs:24-30, 49-55 *)
      if p =? NULL then let '(d, s) := weak_new s in (VWeak d, s)
      else let '(w, s) := weak_from_raw p s in (VWeak w, s)
  | KOpt k' =>                                                       (* ref_cnt.rs:169-175 *)
      if p =? NULL then (VNone, s)
      else let '(v, s) := from_ptr k' p s in (VSome v, s)
  end.

(** [Clone] and drop glue of the types ([Option]'s derive the obvious way). *)
Fixpoint clone (k : kind) (v : val) (s : state) : val * state :=
  match k, v with
  | KArc, VStrong a | KRc, VStrong a => (VStrong a, arc_clone a s)
  | KWeak, VWeak w | KRcWeak, VWeak w => (VWeak w, weak_clone w s)
  | KOpt _, VNone => (VNone, s)
  | KOpt k', VSome v' => let '(c, s) := clone k' v' s in (VSome c, s)
  | _, _ => (v, fail s)
  end.

Fixpoint drop (k : kind) (v : val) (s : state) : state :=
  match k, v with
  | KArc, VStrong a | KRc, VStrong a => arc_drop a s
  | KWeak, VWeak w | KRcWeak, VWeak w => weak_drop w s
  | KOpt _, VNone => s
  | KOpt k', VSome v' => drop k' v' s
  | _, _ => fail s
  end.

(** The trait's default methods (src/ref_cnt.rs:73-75 and 86-88); no impl overrides them. *)
Definition inc (k : kind) (v : val) (s : state) : N * state :=
  let '(c, s) := clone k v s in into_ptr k c s.

Definition dec (k : kind) (p : N) (s : state) : state :=
  let '(v, s) := from_ptr k p s in drop k v s.

(** The container, single-threaded: what [ArcSwapAny] does with the trait when no other
    thread interferes (debts are paid back at once, [wait_for_readers] finds nothing). *)
Definition c_new (k : kind) (v : val) (s : state) : N * state := into_ptr k v s. (* lib.rs:382-392 *)
Definition c_into_inner (k : kind) (p : N) (s : state) : val * state := from_ptr k p s. (* lib.rs:395-401 *)
Definition c_swap (k : kind) (stored : N) (v : val) (s : state) : (N * val) * state :=
  let '(new, s) := into_ptr k v s in                                  (* lib.rs:473-484 *)
  let '(old, s) := from_ptr k stored s in
  ((new, old), s).
Definition c_store (k : kind) (stored : N) (v : val) (s : state) : N * state :=
  let '((new, old), s) := c_swap k stored v s in (new, drop k old s).  (* lib.rs:468-470 *)
(** [load_full]: a borrowed [from_ptr] of the stored pointer ([HybridProtection::new],
    strategy/hybrid.rs:36-41), then [T::inc] of it in [into_inner] (hybrid.rs:147-163). *)
Definition c_load_full (k : kind) (stored : N) (s : state) : val * state :=
  let '(v, s) := from_ptr k stored s in
  let '(_, s) := inc k v s in
  (v, s).
Definition c_drop (k : kind) (stored : N) (s : state) : state := dec k stored s. (* lib.rs:333-343 *)

(** ** Part 3 — the laws *)

(** The object a value refers to, if any. *)
Fixpoint target (v : val) : option N :=
  match v with
  | VStrong a => Some a
  | VWeak w => if is_dangling w then None else Some w
  | VNone => None
  | VSome v' => target v'
  end.
Definition raw_of (v : val) : N := match target v with Some a => a | None => NULL end.

(** Which count a kind owns. *)
Fixpoint strong_kind (k : kind) : bool :=
  match k with KArc | KRc => true | KWeak | KRcWeak => false | KOpt k' => strong_kind k' end.
(** Kinds that have an empty value. *)
Definition nullable (k : kind) : bool := match k with KArc | KRc => false | _ => true end.
(** Kinds with exactly one empty value: no [Option] around something that is nullable itself.
    These are the ones the crate names: [Arc], [Rc], [Option<Arc>], [Option<Rc>], [Weak]. *)
Definition flat (k : kind) : bool :=
  match k with KOpt KArc | KOpt KRc => true | KOpt _ => false | _ => true end.

(** What [from_ptr] builds from an address. *)
Fixpoint val_of_ptr (k : kind) (p : N) : val :=
  match k with
  | KArc | KRc => VStrong p
  | KWeak | KRcWeak => if p =? NULL then VWeak DANGLING else VWeak p
  | KOpt k' => if p =? NULL then VNone else VSome (val_of_ptr k' p)
  end.
(** The value with every empty form collapsed into the outermost one. *)
Definition norm (k : kind) (v : val) : val := val_of_ptr k (raw_of v).

Lemma dangling_eqb w : (DANGLING =? w) = is_dangling w.
Proof. unfold is_dangling. apply N.eqb_sym. Qed.

(** *** into_ptr, as_ptr, from_ptr never look at the heap *)

Lemma into_ptr_pure k : forall v s, val_ok k v = true -> into_ptr k v s = (raw_of v, s).
Proof.
  induction k; intros [] s H; cbn in H; try discriminate; cbn [into_ptr]; try reflexivity.
  1,2: unfold weak_new, weak_ptr_eq, weak_into_raw, raw_of; cbn [target];
       rewrite dangling_eqb; destruct (is_dangling w); reflexivity.
  exact (IHk _ _ H).
Qed.

Lemma as_ptr_pure k : forall v s, val_ok k v = true -> as_ptr k v s = (raw_of v, s).
Proof.
  induction k; intros [] s H; cbn in H; try discriminate; cbn [as_ptr]; try reflexivity.
  1,2: unfold weak_new, weak_ptr_eq, weak_as_ptr, raw_of; cbn [target];
       rewrite dangling_eqb; destruct (is_dangling w); reflexivity.
  exact (IHk _ _ H).
Qed.

Lemma from_ptr_pure k : forall p s, from_ptr k p s = (val_of_ptr k p, s).
Proof.
  induction k; intros p s; cbn [from_ptr val_of_ptr]; try reflexivity.
  1,2: destruct (p =? NULL); reflexivity.
  destruct (p =? NULL); [reflexivity|]. rewrite IHk. reflexivity.
Qed.

(** Borrowing equals converting, and neither changes anything. *)
Theorem as_ptr_is_into_ptr k v s :
  val_ok k v = true ->
  as_ptr k v s = into_ptr k v s /\ snd (as_ptr k v s) = s /\ snd (into_ptr k v s) = s.
Proof. intros H. rewrite as_ptr_pure, into_ptr_pure by assumption. auto. Qed.

Lemma val_of_ptr_ok k p : val_ok k (val_of_ptr k p) = true.
Proof.
  induction k; cbn; try reflexivity.
  1,2: destruct (p =? NULL); reflexivity.
  destruct (p =? NULL); [reflexivity|assumption].
Qed.

Lemma target_val_of_ptr k p :
  p <> NULL -> p <> DANGLING -> target (val_of_ptr k p) = Some p.
Proof.
  intros H0 HD. induction k; cbn [val_of_ptr target]; try reflexivity.
  1,2: destruct (N.eqb_spec p NULL); [contradiction|]; cbn [target]; unfold is_dangling;
       destruct (N.eqb_spec p DANGLING); [contradiction|reflexivity].
  destruct (N.eqb_spec p NULL); [contradiction|]. exact IHk.
Qed.

Lemma target_val_of_ptr_null k : nullable k = true -> target (val_of_ptr k NULL) = None.
Proof. destruct k; cbn; try discriminate; reflexivity. Qed.

Lemma target_weak_not_dangling k v a :
  strong_kind k = false -> val_ok k v = true -> target v = Some a -> a <> DANGLING.
Proof.
  revert v. induction k; intros [] Hk Hv; cbn in *; try discriminate.
  1,2: unfold is_dangling; destruct (N.eqb_spec w DANGLING); [discriminate|]; intros [= <-]; assumption.
  apply IHk; assumption.
Qed.

(** The round trip: [from_ptr (into_ptr x)] changes no state at all (so no count), gives
    back a value of the kind that refers to the same object, and gives back [x] itself for
    the flat kinds.  [a <> 0] and [a <> usize::MAX] hold for every allocated cell ([wf]). *)
Theorem roundtrip k v s :
  val_ok k v = true ->
  (forall a, target v = Some a -> a <> NULL /\ a <> DANGLING) ->
  let '(p, s1) := into_ptr k v s in
  from_ptr k p s1 = (norm k v, s) /\
  val_ok k (norm k v) = true /\
  target (norm k v) = target v.
Proof.
  intros Hv Ha. rewrite into_ptr_pure by assumption. rewrite from_ptr_pure.
  split; [reflexivity|]. split; [apply val_of_ptr_ok|].
  unfold norm, raw_of. destruct (target v) as [a|] eqn:Ht; cbn.
  - destruct (Ha a eq_refl). apply target_val_of_ptr; assumption.
  - apply target_val_of_ptr_null. destruct k, v; cbn in *; try discriminate; reflexivity.
Qed.

Lemma norm_flat k v :
  flat k = true -> val_ok k v = true ->
  (forall a, target v = Some a -> a <> NULL) ->
  norm k v = v.
Proof.
  intros Hf Hv Ha. unfold norm, raw_of.
  assert (Hw : forall w, (forall a, target (VWeak w) = Some a -> a <> NULL) ->
            (if match target (VWeak w) with Some a => a | None => NULL end =? NULL
             then VWeak DANGLING
             else VWeak match target (VWeak w) with Some a => a | None => NULL end) = VWeak w).
  { intros w Hw. cbn [target] in *. unfold is_dangling in *.
    destruct (N.eqb_spec w DANGLING) as [E|Hn]; [rewrite E; reflexivity|].
    destruct (N.eqb_spec w NULL) as [E|]; [exfalso; eapply Hw; [reflexivity|exact E]|reflexivity]. }
  destruct k; destruct v; cbn in Hv; try discriminate; cbn [val_of_ptr];
    try reflexivity; try (apply Hw; assumption).
  destruct k; cbn in Hf; try discriminate; destruct v; cbn in Hv; try discriminate;
    cbn [target val_of_ptr] in *;
    (destruct (N.eqb_spec a NULL) as [->|]; [exfalso; eapply Ha; reflexivity|reflexivity]).
Qed.

Theorem roundtrip_exact k v s :
  flat k = true -> val_ok k v = true ->
  (forall a, target v = Some a -> a <> NULL /\ a <> DANGLING) ->
  let '(p, s1) := into_ptr k v s in from_ptr k p s1 = (v, s).
Proof.
  intros Hf Hv Ha. pose proof (roundtrip k v s Hv Ha) as H.
  destruct (into_ptr k v s) as [p s1]. destruct H as [H _]. rewrite H.
  rewrite norm_flat; auto. intros a Hta. apply Ha; assumption.
Qed.

(** For the nested kinds the equation [from_ptr (into_ptr x) = x] is false: the inner
    empty value is mapped to null like the outer one and comes back as the outer one. *)
Lemma roundtrip_nested_collapses s :
  let '(p, s1) := into_ptr (KOpt (KOpt KArc)) (VSome VNone) s in
  from_ptr (KOpt (KOpt KArc)) p s1 = (VNone, s) /\
  let '(q, s2) := into_ptr (KOpt KWeak) (VSome (VWeak DANGLING)) s in
  from_ptr (KOpt KWeak) q s2 = (VNone, s).
Proof. cbn. auto. Qed.

(** *** Clone, drop, inc, dec *)

Definition count_up (k : kind) (t : option N) (s : state) : state :=
  match t with
  | None => s
  | Some a => if strong_kind k then arc_clone a s else weak_clone a s
  end.
Definition count_down (k : kind) (t : option N) (s : state) : state :=
  match t with
  | None => s
  | Some a => if strong_kind k then arc_drop a s else weak_drop a s
  end.

Lemma weak_clone_dangling w s : is_dangling w = true -> weak_clone w s = s.
Proof. unfold weak_clone. intros ->. reflexivity. Qed.
Lemma weak_drop_dangling w s : is_dangling w = true -> weak_drop w s = s.
Proof. unfold weak_drop. intros ->. reflexivity. Qed.

Lemma clone_spec k : forall v s, val_ok k v = true -> clone k v s = (v, count_up k (target v) s).
Proof.
  induction k; intros [] s H; cbn in H; try discriminate; cbn [clone target count_up strong_kind];
    try reflexivity.
  1,2: destruct (is_dangling w) eqn:E; [rewrite weak_clone_dangling by assumption|]; reflexivity.
  rewrite IHk by assumption. reflexivity.
Qed.

Lemma drop_spec k : forall v s, val_ok k v = true -> drop k v s = count_down k (target v) s.
Proof.
  induction k; intros [] s H; cbn in H; try discriminate; cbn [drop target count_down strong_kind];
    try reflexivity.
  1,2: destruct (is_dangling w) eqn:E; [rewrite weak_drop_dangling by assumption|]; reflexivity.
  apply IHk; assumption.
Qed.

Lemma inc_spec k v s :
  val_ok k v = true -> inc k v s = (raw_of v, count_up k (target v) s).
Proof. intros H. unfold inc. rewrite clone_spec by assumption. apply into_ptr_pure; assumption. Qed.

Lemma dec_spec k p s : dec k p s = count_down k (target (val_of_ptr k p)) s.
Proof. unfold dec. rewrite from_ptr_pure. apply drop_spec, val_of_ptr_ok. Qed.

(** Effect of the std primitives on a cell that is there. *)
Lemma arc_clone_live a c s :
  heap s !! a = Some c -> 0 < c_strong c ->
  arc_clone a s = St (<[a := Cell (c_strong c + 1) (c_weak c) (c_alive c)]> (heap s))
                     (a :: touched s) (ub s) (drops s).
Proof.
  intros H Hs. unfold arc_clone. cbn. rewrite H.
  destruct (N.ltb_spec 0 (c_strong c)); [reflexivity|lia].
Qed.

Lemma weak_clone_live w c s :
  is_dangling w = false -> heap s !! w = Some c -> 0 < c_weak c ->
  weak_clone w s = St (<[w := Cell (c_strong c) (c_weak c + 1) (c_alive c)]> (heap s))
                      (w :: touched s) (ub s) (drops s).
Proof.
  intros Hd H Hs. unfold weak_clone. rewrite Hd. cbn. rewrite H.
  destruct (N.ltb_spec 0 (c_weak c)); [reflexivity|lia].
Qed.

(** [Arc::drop] in the three cases. *)
Lemma arc_drop_shared a c s :
  heap s !! a = Some c -> 2 <= c_strong c ->
  arc_drop a s = St (<[a := Cell (c_strong c - 1) (c_weak c) (c_alive c)]> (heap s))
                    (a :: touched s) (ub s) (drops s).
Proof.
  intros H Hs. unfold arc_drop. cbn. rewrite H.
  destruct (N.eqb_spec (c_strong c) 0); [lia|]. destruct (N.eqb_spec (c_strong c) 1); [lia|]. reflexivity.
Qed.

Lemma arc_drop_last_weak_left a c s :
  heap s !! a = Some c -> c_strong c = 1 -> 2 <= c_weak c ->
  arc_drop a s = St (<[a := Cell 0 (c_weak c - 1) false]> (heap s))
                    (a :: touched s) (ub s) (drops s + 1).
Proof.
  intros H Hs Hw. unfold arc_drop. cbn. rewrite H, Hs. cbn.
  unfold release_weak. cbn. rewrite lookup_insert. cbn.
  destruct (N.eqb_spec (c_weak c) 0); [lia|]. destruct (N.eqb_spec (c_weak c) 1); [lia|].
  unfold with_heap. cbn. rewrite insert_insert. reflexivity.
Qed.

Lemma arc_drop_last_free a c s :
  heap s !! a = Some c -> c_strong c = 1 -> c_weak c = 1 ->
  arc_drop a s = St (delete a (heap s)) (a :: touched s) (ub s) (drops s + 1).
Proof.
  intros H Hs Hw. unfold arc_drop. cbn. rewrite H, Hs. cbn.
  unfold release_weak. cbn. rewrite lookup_insert. cbn. rewrite Hw. cbn.
  unfold with_heap. cbn. rewrite delete_insert_delete. reflexivity.
Qed.

Lemma weak_drop_shared w c s :
  is_dangling w = false -> heap s !! w = Some c -> 2 <= c_weak c ->
  weak_drop w s = St (<[w := Cell (c_strong c) (c_weak c - 1) (c_alive c)]> (heap s))
                     (w :: touched s) (ub s) (drops s).
Proof.
  intros Hd H Hw. unfold weak_drop, release_weak. rewrite Hd. cbn. rewrite H.
  destruct (N.eqb_spec (c_weak c) 0); [lia|]. destruct (N.eqb_spec (c_weak c) 1); [lia|]. reflexivity.
Qed.

Lemma weak_drop_last w c s :
  is_dangling w = false -> heap s !! w = Some c -> c_weak c = 1 ->
  weak_drop w s = St (delete w (heap s)) (w :: touched s) (ub s) (drops s).
Proof.
  intros Hd H Hw. unfold weak_drop, release_weak. rewrite Hd. cbn. rewrite H, Hw. reflexivity.
Qed.

(** [inc] adds exactly one reference of the kind's count to the target, touches that cell
    only, and returns the pointer [into_ptr] would give. *)
Theorem inc_strong k v a c s :
  strong_kind k = true -> val_ok k v = true -> target v = Some a ->
  heap s !! a = Some c -> 0 < c_strong c ->
  inc k v s = (a, St (<[a := Cell (c_strong c + 1) (c_weak c) (c_alive c)]> (heap s))
                     (a :: touched s) (ub s) (drops s)).
Proof.
  intros Hk Hv Ht H Hs. rewrite inc_spec by assumption. unfold raw_of. rewrite Ht. cbn.
  rewrite Hk. rewrite (arc_clone_live a c) by assumption. reflexivity.
Qed.

Theorem inc_weak k v a c s :
  strong_kind k = false -> val_ok k v = true -> target v = Some a ->
  heap s !! a = Some c -> 0 < c_weak c ->
  inc k v s = (a, St (<[a := Cell (c_strong c) (c_weak c + 1) (c_alive c)]> (heap s))
                     (a :: touched s) (ub s) (drops s)).
Proof.
  intros Hk Hv Ht H Hs. rewrite inc_spec by assumption. unfold raw_of. rewrite Ht. cbn.
  rewrite Hk. rewrite (weak_clone_live a c); try assumption; [reflexivity|].
  pose proof (target_weak_not_dangling k v a Hk Hv Ht) as Hd. unfold is_dangling.
  destruct (N.eqb_spec a DANGLING); [contradiction|reflexivity].
Qed.

(** The same in terms of what the std observers report. *)
Corollary inc_strong_counts k v a c s :
  strong_kind k = true -> val_ok k v = true -> target v = Some a ->
  heap s !! a = Some c -> 0 < c_strong c ->
  let s' := snd (inc k v s) in
  arc_strong_count a s' = arc_strong_count a s + 1 /\
  arc_weak_count a s' = arc_weak_count a s /\
  data_alive a s' = data_alive a s /\
  (forall b, b <> a -> heap s' !! b = heap s !! b) /\
  touched s' = a :: touched s /\ ub s' = ub s /\ drops s' = drops s.
Proof.
  intros Hk Hv Ht H Hs. rewrite (inc_strong k v a c s) by assumption. cbn.
  unfold arc_strong_count, arc_weak_count, data_alive. cbn. rewrite lookup_insert, H. cbn.
  repeat split; try reflexivity. intros b Hb. apply lookup_insert_ne. congruence.
Qed.

Corollary inc_weak_counts k v a c s :
  strong_kind k = false -> val_ok k v = true -> target v = Some a ->
  heap s !! a = Some c -> 0 < c_weak c ->
  let s' := snd (inc k v s) in
  arc_strong_count a s' = arc_strong_count a s /\
  arc_weak_count a s' = arc_weak_count a s + 1 /\
  data_alive a s' = data_alive a s /\
  (forall b, b <> a -> heap s' !! b = heap s !! b) /\
  touched s' = a :: touched s /\ ub s' = ub s /\ drops s' = drops s.
Proof.
  intros Hk Hv Ht H Hs. rewrite (inc_weak k v a c s) by assumption. cbn.
  unfold arc_strong_count, arc_weak_count, data_alive. cbn. rewrite lookup_insert, H. cbn.
  repeat split; try reflexivity; try lia. intros b Hb. apply lookup_insert_ne. congruence.
Qed.

(** [dec] of a pointer to a live object removes exactly one reference of the kind's count;
    the pointee is destroyed exactly when the strong count reaches 0, and the cell is freed
    exactly when both counts are gone. *)
Lemma dec_nonnull k p s :
  p <> NULL -> p <> DANGLING ->
  dec k p s = if strong_kind k then arc_drop p s else weak_drop p s.
Proof.
  intros H0 HD. rewrite dec_spec, target_val_of_ptr by assumption. reflexivity.
Qed.

Theorem dec_strong k p c s :
  strong_kind k = true -> p <> NULL -> p <> DANGLING -> heap s !! p = Some c ->
  0 < c_strong c -> 0 < c_weak c ->
  dec k p s =
    if 2 <=? c_strong c
    then St (<[p := Cell (c_strong c - 1) (c_weak c) (c_alive c)]> (heap s)) (p :: touched s) (ub s) (drops s)
    else if 2 <=? c_weak c
    then St (<[p := Cell 0 (c_weak c - 1) false]> (heap s)) (p :: touched s) (ub s) (drops s + 1)
    else St (delete p (heap s)) (p :: touched s) (ub s) (drops s + 1).
Proof.
  intros Hk H0 HD H Hs Hw. rewrite dec_nonnull by assumption. rewrite Hk.
  destruct (N.leb_spec 2 (c_strong c)); [apply (arc_drop_shared p c); assumption|].
  destruct (N.leb_spec 2 (c_weak c)); [apply (arc_drop_last_weak_left p c); try assumption; lia|].
  apply (arc_drop_last_free p c); try assumption; lia.
Qed.

Theorem dec_weak k p c s :
  strong_kind k = false -> p <> NULL -> p <> DANGLING -> heap s !! p = Some c -> 0 < c_weak c ->
  dec k p s =
    if 2 <=? c_weak c
    then St (<[p := Cell (c_strong c) (c_weak c - 1) (c_alive c)]> (heap s)) (p :: touched s) (ub s) (drops s)
    else St (delete p (heap s)) (p :: touched s) (ub s) (drops s).
Proof.
  intros Hk H0 HD H Hs. rewrite dec_nonnull by assumption. rewrite Hk.
  assert (is_dangling p = false) by (unfold is_dangling; destruct (N.eqb_spec p DANGLING); [contradiction|reflexivity]).
  destruct (N.leb_spec 2 (c_weak c)); [apply (weak_drop_shared p c); assumption|].
  apply (weak_drop_last p c); try assumption; lia.
Qed.

(** [dec] undoes [inc]: the heap is as before (the target was read twice). *)
Theorem inc_dec_cancel k v a c s :
  val_ok k v = true -> target v = Some a -> a <> NULL -> a <> DANGLING ->
  heap s !! a = Some c -> (if strong_kind k then 0 < c_strong c else True) -> 0 < c_weak c ->
  let '(p, s1) := inc k v s in
  p = a /\ heap (dec k p s1) = heap s /\ ub (dec k p s1) = ub s /\ drops (dec k p s1) = drops s.
Proof.
  intros Hv Ht H0 HD H Hc Hcw. destruct (strong_kind k) eqn:Hk.
  - rewrite (inc_strong k v a c s) by assumption. split; [reflexivity|].
    rewrite (dec_strong k a (Cell (c_strong c + 1) (c_weak c) (c_alive c))); try assumption; cycle 1.
    { cbn. apply lookup_insert. } { cbn. lia. }
    cbn. destruct (N.leb_spec 2 (c_strong c + 1)); [|lia]. cbn.
    rewrite insert_insert. replace (c_strong c + 1 - 1) with (c_strong c) by lia.
    destruct c; cbn. rewrite insert_id by assumption. auto.
  - rewrite (inc_weak k v a c s) by assumption. split; [reflexivity|].
    rewrite (dec_weak k a (Cell (c_strong c) (c_weak c + 1) (c_alive c))); try assumption; cycle 1.
    { cbn. apply lookup_insert. } { cbn. lia. }
    cbn. destruct (N.leb_spec 2 (c_weak c + 1)); [|lia]. cbn.
    rewrite insert_insert. replace (c_weak c + 1 - 1) with (c_weak c) by lia.
    destruct c; cbn. rewrite insert_id by assumption. auto.
Qed.

(** *** The empty cases *)

(** A value without target ([None] at any depth, a dangling [Weak], [Some(dangling)] ...)
    is converted to the null pointer, borrowed as the null pointer, cloned, dropped and
    incremented with the state untouched: no cell is read, written or counted, whatever
    the heap contains — even a cell at address 0 or at the sentinel. *)
Theorem null_untouched_value k v s :
  val_ok k v = true -> target v = None ->
  into_ptr k v s = (NULL, s) /\ as_ptr k v s = (NULL, s) /\ inc k v s = (NULL, s) /\
  clone k v s = (v, s) /\ drop k v s = s.
Proof.
  intros Hv Ht.
  rewrite into_ptr_pure, as_ptr_pure, inc_spec, clone_spec, drop_spec by assumption.
  unfold raw_of. rewrite Ht. cbn. auto.
Qed.

(** The null pointer is converted back to the empty value of the kind and decremented with
    the state untouched, for every kind that has an empty value. *)
Theorem null_untouched_ptr k s :
  nullable k = true ->
  from_ptr k NULL s = (val_of_ptr k NULL, s) /\ target (val_of_ptr k NULL) = None /\
  dec k NULL s = s /\
  (let '(v, s1) := c_load_full k NULL s in target v = None /\ s1 = s) /\
  c_drop k NULL s = s.
Proof.
  intros Hn. pose proof (target_val_of_ptr_null k Hn) as Ht.
  assert (Hd : dec k NULL s = s) by (rewrite dec_spec, Ht; reflexivity).
  rewrite from_ptr_pure. repeat split; try assumption.
  unfold c_load_full. rewrite from_ptr_pure, inc_spec by apply val_of_ptr_ok.
  rewrite Ht. cbn. auto.
Qed.

(** Conversely only the empty values are mapped to null (given that no object lives at
    address 0, see [wf]). *)
Theorem into_ptr_null_iff k v s :
  val_ok k v = true -> (forall a, target v = Some a -> a <> NULL) ->
  (fst (into_ptr k v s) = NULL <-> target v = None).
Proof.
  intros Hv Ha. rewrite into_ptr_pure by assumption. cbn. unfold raw_of.
  destruct (target v) as [a|]; cbn; split; try discriminate; auto.
  intros ->. exfalso. eapply Ha; reflexivity.
Qed.

(** *** Well-formed heaps; addresses *)

Definition cell_ok (c : cell) : Prop :=
  0 < c_weak c /\ c_alive c = (0 <? c_strong c).

(** No object lives at 0, at [Debt::NONE] or at the dangling sentinel; a cell that is
    allocated has a weak count (the strong ones hold one), and its data is alive exactly
    while the strong count is positive. *)
Definition wf (s : state) : Prop :=
  forall a c, heap s !! a = Some c ->
    a <> NULL /\ a <> DEBT_NONE /\ a <> DANGLING /\ cell_ok c.

Definition fresh_addr (a : N) (s : state) : Prop :=
  heap s !! a = None /\ a <> NULL /\ a <> DEBT_NONE /\ a <> DANGLING.

Lemma wf_same_heap s s' : heap s' = heap s -> wf s -> wf s'.
Proof. unfold wf. intros ->. auto. Qed.

Lemma wf_insert a c s :
  wf s -> a <> NULL -> a <> DEBT_NONE -> a <> DANGLING -> cell_ok c ->
  forall s', heap s' = <[a := c]> (heap s) -> wf s'.
Proof.
  intros Hw H0 H3 HD Hc s' Hh b cb. rewrite Hh.
  destruct (decide (a = b)) as [->|Hne].
  - rewrite lookup_insert. intros [= <-]. auto.
  - rewrite lookup_insert_ne by assumption. apply Hw.
Qed.

Lemma wf_update a c c' s :
  wf s -> heap s !! a = Some c -> cell_ok c' ->
  forall s', heap s' = <[a := c']> (heap s) -> wf s'.
Proof.
  intros Hw H Hc s' Hh. destruct (Hw a c H) as (H0 & H3 & HD & _).
  eapply wf_insert; eassumption.
Qed.

Lemma wf_delete a s : wf s -> forall s', heap s' = delete a (heap s) -> wf s'.
Proof.
  intros Hw s' Hh b cb. rewrite Hh. intros H. apply lookup_delete_Some in H as [_ H]. apply Hw; assumption.
Qed.

Lemma wf_arc_new a s : wf s -> fresh_addr a s -> wf (arc_new a s).
Proof.
  intros Hw (_ & H0 & H3 & HD). eapply wf_insert; try eassumption; [|reflexivity].
  split; cbn; [lia|reflexivity].
Qed.

Lemma wf_arc_clone a s : wf s -> wf (arc_clone a s).
Proof.
  intros Hw. unfold arc_clone. cbn. destruct (heap s !! a) as [c|] eqn:H; [|exact Hw].
  destruct (N.ltb_spec 0 (c_strong c)); [|exact Hw].
  destruct (Hw a c H) as (_ & _ & _ & Hw1 & Hal).
  eapply wf_update; try eassumption; [|reflexivity]. split; cbn; [assumption|].
  rewrite Hal. destruct (N.ltb_spec 0 (c_strong c)), (N.ltb_spec 0 (c_strong c + 1)); try reflexivity; lia.
Qed.

Lemma wf_release_weak a s : wf s -> wf (release_weak a s).
Proof.
  intros Hw. unfold release_weak. destruct (heap s !! a) as [c|] eqn:H; [|exact Hw].
  destruct (N.eqb_spec (c_weak c) 0); [exact Hw|].
  destruct (N.eqb_spec (c_weak c) 1).
  - eapply wf_delete; [eassumption|reflexivity].
  - destruct (Hw a c H) as (_ & _ & _ & Hw1 & Hal).
    eapply wf_update; try eassumption; [|reflexivity]. split; cbn; [lia|assumption].
Qed.

Lemma wf_arc_drop a s : wf s -> wf (arc_drop a s).
Proof.
  intros Hw. unfold arc_drop. cbn. destruct (heap s !! a) as [c|] eqn:H; [|exact Hw].
  destruct (Hw a c H) as (_ & _ & _ & Hw1 & Hal).
  destruct (N.eqb_spec (c_strong c) 0); [exact Hw|].
  destruct (N.eqb_spec (c_strong c) 1).
  - apply wf_release_weak. eapply wf_update; try eassumption; [|reflexivity].
    split; cbn; [assumption|reflexivity].
  - eapply wf_update; try eassumption; [|reflexivity]. split; cbn; [assumption|].
    rewrite Hal. destruct (N.ltb_spec 0 (c_strong c)), (N.ltb_spec 0 (c_strong c - 1)); try reflexivity; lia.
Qed.

Lemma wf_arc_downgrade a s : wf s -> wf (snd (arc_downgrade a s)).
Proof.
  intros Hw. unfold arc_downgrade. cbn. destruct (heap s !! a) as [c|] eqn:H; [|exact Hw].
  destruct (N.ltb_spec 0 (c_strong c)); [|exact Hw]. cbn.
  destruct (Hw a c H) as (_ & _ & _ & Hw1 & Hal).
  eapply wf_update; try eassumption; [|reflexivity]. split; cbn; [lia|assumption].
Qed.

Lemma wf_weak_clone w s : wf s -> wf (weak_clone w s).
Proof.
  intros Hw. unfold weak_clone. destruct (is_dangling w); [exact Hw|]. cbn.
  destruct (heap s !! w) as [c|] eqn:H; [|exact Hw].
  destruct (N.ltb_spec 0 (c_weak c)); [|exact Hw].
  destruct (Hw w c H) as (_ & _ & _ & Hw1 & Hal).
  eapply wf_update; try eassumption; [|reflexivity]. split; cbn; [lia|assumption].
Qed.

Lemma wf_weak_drop w s : wf s -> wf (weak_drop w s).
Proof.
  intros Hw. unfold weak_drop. destruct (is_dangling w); [exact Hw|].
  apply wf_release_weak. exact Hw.
Qed.

Lemma wf_weak_upgrade w s : wf s -> wf (snd (weak_upgrade w s)).
Proof.
  intros Hw. unfold weak_upgrade. destruct (is_dangling w); [exact Hw|]. cbn.
  destruct (heap s !! w) as [c|] eqn:H; [|exact Hw].
  destruct (N.eqb_spec (c_strong c) 0); [exact Hw|]. cbn.
  destruct (Hw w c H) as (_ & _ & _ & Hw1 & Hal).
  eapply wf_update; try eassumption; [|reflexivity]. split; cbn; [assumption|].
  rewrite Hal. destruct (N.ltb_spec 0 (c_strong c)), (N.ltb_spec 0 (c_strong c + 1)); try reflexivity; lia.
Qed.

Lemma wf_count_up k t s : wf s -> wf (count_up k t s).
Proof.
  intros Hw. destruct t; [|exact Hw]. cbn. destruct (strong_kind k); [apply wf_arc_clone|apply wf_weak_clone]; exact Hw.
Qed.
Lemma wf_count_down k t s : wf s -> wf (count_down k t s).
Proof.
  intros Hw. destruct t; [|exact Hw]. cbn. destruct (strong_kind k); [apply wf_arc_drop|apply wf_weak_drop]; exact Hw.
Qed.

(** Every operation of the trait and of the container skeleton preserves [wf] (for the
    values of the kind). *)
Theorem wf_preserved k v p s :
  wf s -> val_ok k v = true ->
  wf (snd (into_ptr k v s)) /\ wf (snd (as_ptr k v s)) /\ wf (snd (from_ptr k p s)) /\
  wf (snd (inc k v s)) /\ wf (dec k p s) /\ wf (snd (clone k v s)) /\ wf (drop k v s) /\
  wf (snd (c_new k v s)) /\ wf (snd (c_into_inner k p s)) /\ wf (snd (c_swap k p v s)) /\
  wf (snd (c_store k p v s)) /\ wf (snd (c_load_full k p s)) /\ wf (c_drop k p s).
Proof.
  intros Hw Hv. unfold c_store, c_new, c_into_inner, c_swap, c_load_full, c_drop.
  rewrite into_ptr_pure, as_ptr_pure, inc_spec, clone_spec, drop_spec, dec_spec by assumption.
  rewrite !from_ptr_pure. cbn.
  rewrite inc_spec, drop_spec by apply val_of_ptr_ok. cbn.
  repeat apply conj; try assumption; try apply wf_count_up; try apply wf_count_down; assumption.
Qed.

(** The raw pointer of a value that refers to an allocated object is the object's address:
    it is not null, not [Debt::NONE], and two values have the same non-null raw pointer
    only if they refer to the same object. *)
Theorem ptr_distinct k v a c s :
  wf s -> val_ok k v = true -> target v = Some a -> heap s !! a = Some c ->
  fst (into_ptr k v s) = a /\ a <> NULL /\ a <> DEBT_NONE /\ a <> DANGLING.
Proof.
  intros Hw Hv Ht H. rewrite into_ptr_pure by assumption. cbn. unfold raw_of. rewrite Ht. cbn.
  destruct (Hw a c H) as (? & ? & ? & _). auto.
Qed.

Theorem ptr_identifies_object k1 k2 v1 v2 a1 a2 s :
  val_ok k1 v1 = true -> val_ok k2 v2 = true -> target v1 = Some a1 -> target v2 = Some a2 ->
  fst (into_ptr k1 v1 s) = fst (into_ptr k2 v2 s) -> a1 = a2.
Proof.
  intros H1 H2 T1 T2. rewrite !into_ptr_pure by assumption. cbn. unfold raw_of. rewrite T1, T2. auto.
Qed.

(** The std primitives preserve [wf] as well; the allocator is the only assumption. *)
Lemma wf_empty : wf (St ∅ [] false 0).
Proof. intros a c H. cbn in H. rewrite lookup_empty in H. discriminate. Qed.

Theorem wf_std_preserved s a :
  wf s ->
  (fresh_addr a s -> wf (arc_new a s)) /\
  wf (arc_clone a s) /\ wf (arc_drop a s) /\ wf (snd (arc_downgrade a s)) /\
  wf (weak_clone a s) /\ wf (weak_drop a s) /\ wf (snd (weak_upgrade a s)).
Proof.
  intros Hw.
  repeat apply conj; [intros; apply wf_arc_new|apply wf_arc_clone|apply wf_arc_drop|apply wf_arc_downgrade
                     |apply wf_weak_clone|apply wf_weak_drop|apply wf_weak_upgrade]; assumption.
Qed.

(** *** The laws over well-formed heaps (the form pinned in Props/C15.v) *)

(** The value refers to nothing or to a cell that is allocated. *)
Definition allocated (s : state) (v : val) : Prop :=
  forall a, target v = Some a -> heap s !! a <> None.

Lemma allocated_addr s v a : wf s -> allocated s v -> target v = Some a -> a <> NULL /\ a <> DANGLING.
Proof.
  intros Hw Hal Ht. specialize (Hal a Ht). destruct (heap s !! a) as [c|] eqn:H; [|contradiction].
  destruct (Hw a c H) as (? & _ & ? & _). auto.
Qed.

Theorem roundtrip_wf k v s :
  wf s -> val_ok k v = true -> allocated s v ->
  let '(p, s1) := into_ptr k v s in
  from_ptr k p s1 = (norm k v, s) /\
  val_ok k (norm k v) = true /\ target (norm k v) = target v /\
  (flat k = true -> norm k v = v).
Proof.
  intros Hw Hv Hal.
  pose proof (roundtrip k v s Hv (fun a Ht => allocated_addr s v a Hw Hal Ht)) as H.
  destruct (into_ptr k v s) as [p s1]. destruct H as (H1 & H2 & H3).
  repeat apply conj; try assumption. intros Hf. apply norm_flat; try assumption.
  intros a Ht. eapply allocated_addr; eassumption.
Qed.

(** The container moves values in and out through the same two conversions. *)
Theorem container_roundtrip k v s :
  wf s -> val_ok k v = true -> allocated s v ->
  let '(p, s1) := c_new k v s in
  c_into_inner k p s1 = (norm k v, s) /\ target (norm k v) = target v.
Proof.
  intros Hw Hv Hal. unfold c_new, c_into_inner.
  pose proof (roundtrip_wf k v s Hw Hv Hal) as H. destruct (into_ptr k v s) as [p s1].
  destruct H as (H1 & _ & H3 & _). auto.
Qed.

Theorem container_ops_spec k stored v s :
  val_ok k v = true ->
  c_swap k stored v s = ((raw_of v, val_of_ptr k stored), s) /\
  c_store k stored v s = (raw_of v, dec k stored s) /\
  c_load_full k stored s = (val_of_ptr k stored, snd (inc k (val_of_ptr k stored) s)) /\
  c_drop k stored s = dec k stored s.
Proof.
  intros Hv. unfold c_swap, c_store, c_load_full, c_drop, c_swap.
  rewrite into_ptr_pure by assumption. rewrite !from_ptr_pure. unfold dec. rewrite from_ptr_pure.
  destruct (inc k (val_of_ptr k stored) s). auto.
Qed.

Theorem into_ptr_null_iff_wf k v s :
  wf s -> val_ok k v = true -> allocated s v ->
  (fst (into_ptr k v s) = NULL <-> target v = None).
Proof.
  intros Hw Hv Hal. apply into_ptr_null_iff; [assumption|].
  intros a Ht. eapply allocated_addr; eassumption.
Qed.

(** *** A container of Weak does not keep the target alive *)

(** The operations of a weak kind never change a strong count or the liveness of any
    pointee: a cell that is still there afterwards has the same [strong] and [alive]. *)
Definition strong_untouched (s s' : state) : Prop :=
  drops s' = drops s /\
  forall a c c', heap s !! a = Some c -> heap s' !! a = Some c' ->
    c_strong c' = c_strong c /\ c_alive c' = c_alive c.

Lemma strong_untouched_refl s : strong_untouched s s.
Proof. split; [reflexivity|]. intros a c c' H H'. rewrite H in H'. injection H' as <-. auto. Qed.

Lemma strong_untouched_same s s' : heap s' = heap s -> drops s' = drops s -> strong_untouched s s'.
Proof.
  intros Hh Hd. split; [assumption|]. rewrite Hh. intros a c c' H H'. rewrite H in H'. injection H' as <-. auto.
Qed.

Lemma strong_untouched_weak_clone w s : strong_untouched s (weak_clone w s).
Proof.
  unfold weak_clone. destruct (is_dangling w); [apply strong_untouched_same; reflexivity|]. cbn.
  destruct (heap s !! w) as [c|] eqn:H; [|apply strong_untouched_same; reflexivity].
  destruct (0 <? c_weak c); [|apply strong_untouched_same; reflexivity].
  split; [reflexivity|]. cbn. intros a c0 c' H0 H'.
  destruct (decide (w = a)) as [->|Hne].
  - rewrite lookup_insert in H'. injection H' as <-. rewrite H in H0. injection H0 as <-. auto.
  - rewrite lookup_insert_ne in H' by assumption. rewrite H0 in H'. injection H' as <-. auto.
Qed.

Lemma strong_untouched_weak_drop w s : strong_untouched s (weak_drop w s).
Proof.
  unfold weak_drop. destruct (is_dangling w); [apply strong_untouched_same; reflexivity|].
  unfold release_weak. cbn. destruct (heap s !! w) as [c|] eqn:H; [|apply strong_untouched_same; reflexivity].
  destruct (c_weak c =? 0); [apply strong_untouched_same; reflexivity|].
  destruct (c_weak c =? 1); (split; [reflexivity|]); cbn; intros a c0 c' H0 H'.
  - apply lookup_delete_Some in H' as [_ H']. rewrite H0 in H'. injection H' as <-. auto.
  - destruct (decide (w = a)) as [->|Hne].
    + rewrite lookup_insert in H'. injection H' as <-. rewrite H in H0. injection H0 as <-. auto.
    + rewrite lookup_insert_ne in H' by assumption. rewrite H0 in H'. injection H' as <-. auto.
Qed.

Theorem weak_kind_leaves_strong_alone k v p s :
  strong_kind k = false -> val_ok k v = true ->
  strong_untouched s (snd (into_ptr k v s)) /\ strong_untouched s (snd (as_ptr k v s)) /\
  strong_untouched s (snd (from_ptr k p s)) /\ strong_untouched s (snd (inc k v s)) /\
  strong_untouched s (dec k p s) /\
  strong_untouched s (snd (c_new k v s)) /\ strong_untouched s (snd (c_into_inner k p s)) /\
  strong_untouched s (snd (c_swap k p v s)) /\ strong_untouched s (snd (c_load_full k p s)) /\
  strong_untouched s (c_drop k p s).
Proof.
  intros Hk Hv. unfold c_new, c_into_inner, c_swap, c_load_full, c_drop.
  rewrite into_ptr_pure, as_ptr_pure, inc_spec, dec_spec by assumption.
  rewrite !from_ptr_pure. cbn. rewrite inc_spec by apply val_of_ptr_ok. cbn.
  assert (U : forall t, strong_untouched s (count_up k t s)).
  { intros [a|]; cbn; [rewrite Hk; apply strong_untouched_weak_clone|apply strong_untouched_refl]. }
  assert (D : forall t, strong_untouched s (count_down k t s)).
  { intros [a|]; cbn; [rewrite Hk; apply strong_untouched_weak_drop|apply strong_untouched_refl]. }
  repeat match goal with |- _ /\ _ => apply conj end; try apply strong_untouched_refl; try apply U; try apply D.
Qed.

(** Dropping the last strong reference destroys the pointee whatever the weak count is —
    however many [Weak]s sit in containers — and every later [upgrade] fails. *)
Theorem weak_not_keepalive a c s :
  heap s !! a = Some c -> c_strong c = 1 -> 0 < c_weak c -> a <> DANGLING ->
  let s' := arc_drop a s in
  drops s' = drops s + 1 /\ data_alive a s' = false /\ arc_strong_count a s' = 0 /\
  fst (weak_upgrade a s') = None /\
  (heap s' !! a = None <-> c_weak c = 1).
Proof.
  intros H Hs Hw HD.
  assert (Hd : is_dangling a = false)
    by (unfold is_dangling; destruct (N.eqb_spec a DANGLING); [contradiction|reflexivity]).
  destruct (N.eq_dec (c_weak c) 1) as [E|E].
  - rewrite (arc_drop_last_free a c s) by assumption.
    unfold data_alive, arc_strong_count, weak_upgrade. rewrite Hd. cbn. rewrite lookup_delete.
    repeat split; auto.
  - rewrite (arc_drop_last_weak_left a c s) by (try assumption; lia).
    unfold data_alive, arc_strong_count, weak_upgrade. rewrite Hd. cbn. rewrite lookup_insert. cbn.
    repeat split; auto; try discriminate. intros. contradiction.
Qed.

(** *** Non-vacuity: the scenario of the crate's own tests (src/weak.rs [there_and_back],
    [destroy]) in the model. *)
Definition s_empty : state := St ∅ [] false 0.

Definition scenario_destroy : option N * state :=
  let s := arc_new 16 s_empty in                  (* let data = Arc::new("Hello") *)
  let '(w, s) := arc_downgrade 16 s in            (* Arc::downgrade(&data) *)
  let '(stored, s) := c_new KWeak (VWeak w) s in  (* ArcSwapWeak::new(..) *)
  let s := arc_drop 16 s in                       (* drop(data) *)
  let '(v, s) := c_load_full KWeak stored s in    (* shared.load() *)
  match v with VWeak w' => weak_upgrade w' s | _ => (Some 0, s) end.

Example scenario_destroy_upgrade_fails :
  fst scenario_destroy = None /\ drops (snd scenario_destroy) = 1 /\ ub (snd scenario_destroy) = false.
Proof. vm_compute. auto. Qed.
