(** Extraction of the C14 specification and strategy models (OCaml).  Only [ExtrOcamlBasic];
    numbers stay the extracted inductive [nat]; no [Extract Constant]. *)
From Seq Require Import SeqSpec SeqImpl.
Require Extraction.
Require Import ExtrOcamlBasic.

Extraction Language OCaml.

Extraction "extract/seq_model.ml" spec_step impl_step s_init i_init counts debt_list s_heap i_heap.
