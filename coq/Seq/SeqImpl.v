(** * Seq.SeqImpl — C14: sequential models (one thread, API-call granularity) of the three strategies.

    - [Hybrid true]  = [DefaultStrategy] = [HybridStrategy<DefaultConfig>]  (src/strategy/hybrid.rs, USE_FAST = true)
    - [Hybrid false] = [FillFastSlots]   = [HybridStrategy<NoFastSlots>]    (src/strategy/test_strategies.rs:14-22)
    - [RwLock]       = [std::sync::RwLock<()>]                              (src/strategy/rw_lock.rs)

    The state has what the code has: the strong count of every object ([Arc]'s own counter), the
    pointer stored in every container, the handles of the program — a value, or a [Guard] whose
    [HybridProtection] is [{ debt: Option<&Debt>, ptr }] (hybrid.rs:30-33) — and the calling thread's
    node: its 8 fast debt slots (src/debt/fast.rs:21, 36) and the round-robin offset (fast.rs:24-31).
    A guard holding a debt has NOT incremented the count: it borrows the reference of the container,
    and whoever removes the pointer from the container pays the debt ([Debt::pay_all],
    src/debt/mod.rs:70-98).

    Every public call (src/lib.rs) is a sequence of the small transitions below, written in the
    order of the code; the temporaries of a call ([old] in [compare_and_swap], [cur] in [rcu], the
    raw pointer a container is taken apart into) live in the reserved handle registers [T1], [T2].
    A register holding a value stands for exactly one owned reference.  Each small transition
    checks the shape it needs and is the identity otherwise (never the case in a program accepted
    by [SeqSpec.valid]).

    The helping slot (src/debt/helping.rs) is taken and released inside one [load] when no other
    thread interferes, so it is not part of the state at this granularity (see [p_load]). *)
From Coq Require Import List Arith Lia Bool PeanoNat.
From Seq Require Import SeqSpec.
Import ListNotations.

Set Implicit Arguments.

Inductive strategy := Hybrid (fast : bool) | RwLock.

Record handle := mkH { h_guard : bool; h_ptr : ptr; h_debt : option nat }.

Record istate := mkIS {
  i_heap : heap;
  i_cont : list (option ptr);
  i_hand : list (option handle);
  i_slots : list (option ptr);      (* None = Debt::NONE, Some p = a debt on pointer p (p may be null) *)
  i_off : nat }.                    (* fast::Local::offset *)

Definition SLOTS : nat := 8.        (* DEBT_SLOT_CNT, src/debt/fast.rs:21 *)

Definition i_init (ncont nhand : nat) : istate :=
  mkIS h_empty (repeat None ncont) (repeat None nhand) (repeat None SLOTS) 0.

Definition erase (x : option handle) : option shandle :=
  match x with Some h => Some (mkSH (h_guard h) (h_ptr h)) | None => None end.
Definition shape (i : istate) : list (option shandle) := map erase (i_hand i).

Definition set_heap (h : heap) (i : istate) : istate := mkIS h (i_cont i) (i_hand i) (i_slots i) (i_off i).
Definition set_cont (c : nat) (x : option ptr) (i : istate) : istate :=
  mkIS (i_heap i) (set_nth c x (i_cont i)) (i_hand i) (i_slots i) (i_off i).
Definition set_hand (r : nat) (x : option handle) (i : istate) : istate :=
  mkIS (i_heap i) (i_cont i) (set_nth r x (i_hand i)) (i_slots i) (i_off i).
Definition set_slots (sl : list (option ptr)) (i : istate) : istate :=
  mkIS (i_heap i) (i_cont i) (i_hand i) sl (i_off i).
Definition set_off (n : nat) (i : istate) : istate :=
  mkIS (i_heap i) (i_cont i) (i_hand i) (i_slots i) n.

Definition i_ptr (i : istate) (r : nat) : ptr :=
  match get_any (shape i) r with Some p => p | None => None end.
Definition i_stored (i : istate) (c : nat) : ptr :=
  match get_cont (i_cont i) c with Some p => p | None => None end.

Definition val_ih (p : ptr) : option handle := Some (mkH false p None).

(** ** The debt slots *)
Definition slot_free (slots : list (option ptr)) (j : nat) : bool :=
  match nth_error slots j with Some None => true | _ => false end.

(** [Slots::get_debt] (fast.rs:39-57): probe the 8 slots starting at the offset *)
Definition find_slot (slots : list (option ptr)) (off : nat) : option nat :=
  find (slot_free slots) (map (fun k => (k + off) mod SLOTS) (seq 0 SLOTS)).

(** does slot [j] hold a debt on exactly [p]?  ([Debt::pay] succeeds iff so: compare_exchange(ptr, NONE), debt/mod.rs:62-64) *)
Definition slot_holds (slots : list (option ptr)) (j : nat) (p : ptr) : bool :=
  match nth_error slots j with Some (Some q) => ptr_eqb q p | _ => false end.

Definition debt_on (p : ptr) (x : option ptr) : bool :=
  match x with Some q => ptr_eqb q p | None => false end.

(** ** Small transitions *)

(** [Arc::new] into an empty register *)
Definition p_alloc (r : nat) (i : istate) : istate :=
  if reg_empty (i_hand i) r then
    let (a, h) := h_alloc (i_heap i) in set_hand r (val_ih (Some a)) (set_heap h i)
  else i.

Definition p_null (r : nat) (i : istate) : istate :=
  if reg_empty (i_hand i) r then set_hand r (val_ih None) i else i.

(** [T::clone] of a value: [Arc::clone] increments, [None] stays [None] *)
Definition p_clone (src dst : nat) (i : istate) : istate :=
  match get_val (shape i) src with
  | Some p => if reg_empty (i_hand i) dst then set_hand dst (val_ih p) (set_heap (h_inc p (i_heap i)) i) else i
  | None => i
  end.

(** [InnerStrategy::load].
    Hybrid (hybrid.rs:197-207): with USE_FAST, [attempt] (hybrid.rs:44-71): read the pointer, take a
    free fast slot ([get_debt]: the slot gets the pointer, the offset moves behind it), read the pointer
    again — the same, nobody else runs — and the guard holds the debt, no count taken.  With no free
    slot, or USE_FAST = false, [fallback] (hybrid.rs:74-110): the helping slot is claimed, the candidate
    is confirmed ([Ok(debt)], nobody helped), and [Self::new(candidate, Some(debt)).into_inner()]
    increments the count and pays the helping slot back: a guard that owns its reference, no debt.
    RwLock (rw_lock.rs:33-40): [T::from_ptr(ptr)], [T::inc(&ptr)]: the guard is a plain owned value. *)
Definition p_load (st : strategy) (c dst : nat) (i : istate) : istate :=
  match get_cont (i_cont i) c with
  | Some p =>
      if reg_empty (i_hand i) dst then
        let owned := set_hand dst (Some (mkH true p None)) (set_heap (h_inc p (i_heap i)) i) in
        match st with
        | Hybrid true =>
            match find_slot (i_slots i) (i_off i) with
            | Some j => set_off (j + 1) (set_slots (set_nth j (Some p) (i_slots i))
                                           (set_hand dst (Some (mkH true p (Some j))) i))
            | None => owned
            end
        | Hybrid false => owned
        | RwLock => owned
        end
      else i
  | None => i
  end.

(** Dropping a handle.  A value ([Arc::drop]) or a guard without debt: decrement.
    [Drop for HybridProtection] (hybrid.rs:119-137): with a debt, [debt.pay(ptr)] — if the slot still
    holds this pointer it is emptied and nothing else happens; if it was paid already (a writer
    replaced the pointer meanwhile and incremented on the guard's behalf), the reference is released. *)
Definition p_drop (r : nat) (i : istate) : istate :=
  match nth_error (i_hand i) r with
  | Some (Some h) =>
      let i' := set_hand r None i in
      match h_debt h with
      | Some j =>
          if slot_holds (i_slots i) j (h_ptr h)
          then set_slots (set_nth j None (i_slots i)) i'
          else set_heap (h_dec (h_ptr h) (i_heap i)) i'
      | None => set_heap (h_dec (h_ptr h) (i_heap i)) i'
      end
  | _ => i
  end.

(** [Protected::into_inner] (hybrid.rs:148-167; rw_lock.rs:21-24 is the identity): with a debt,
    [T::inc], then [pay]; if the debt was paid already, [T::dec] again. *)
Definition p_into_inner (r : nat) (i : istate) : istate :=
  match nth_error (i_hand i) r with
  | Some (Some h) =>
      if h_guard h then
        let i' := set_hand r (val_ih (h_ptr h)) i in
        match h_debt h with
        | Some j =>
            let hp := h_inc (h_ptr h) (i_heap i) in
            if slot_holds (i_slots i) j (h_ptr h)
            then set_slots (set_nth j None (i_slots i)) (set_heap hp i')
            else set_heap (h_dec (h_ptr h) hp) i'
        | None => i'
        end
      else i
  | _ => i
  end.

(** [Protected::from_inner] (hybrid.rs:140-146, rw_lock.rs:16-19): no debt *)
Definition p_from_inner (r : nat) (i : istate) : istate :=
  match get_val (shape i) r with
  | Some p => set_hand r (Some (mkH true p None)) i
  | None => i
  end.

(** the atomic exchange of the container's pointer with the value in [r]: [T::into_ptr(new)] goes in
    with its reference, the old pointer comes out with the reference the container held *)
Definition p_exch (c r : nat) (i : istate) : istate :=
  match get_cont (i_cont i) c, get_val (shape i) r with
  | Some old, Some p => set_hand r (val_ih old) (set_cont c (Some p) i)
  | _, _ => i
  end.

(** [Debt::pay_all] (debt/mod.rs:70-98), one node, nobody to help: one reference up front; every slot
    holding the pointer is emptied and gets one more reference; the up-front one is dropped. *)
Definition pay_all (p : ptr) (i : istate) : istate :=
  let n := count (debt_on p) (i_slots i) in
  let h1 := h_inc p (i_heap i) in
  let h2 := Nat.iter n (h_inc p) h1 in
  let h3 := h_dec p h2 in
  set_slots (map (fun x => if debt_on p x then None else x) (i_slots i)) (set_heap h3 i).

(** [wait_for_readers] (hybrid.rs:208-215: pay_all; rw_lock.rs:42-45: take and release the write lock) *)
Definition wait_for_readers (st : strategy) (p : ptr) (i : istate) : istate :=
  match st with Hybrid _ => pay_all p i | RwLock => i end.
Definition p_wait_h (st : strategy) (r : nat) (i : istate) : istate := wait_for_readers st (i_ptr i r) i.
Definition p_wait_c (st : strategy) (c : nat) (i : istate) : istate := wait_for_readers st (i_stored i c) i.

(** [with_strategy] (lib.rs:290-300): [T::into_ptr(val)] *)
Definition p_new_cont (c r : nat) (i : istate) : istate :=
  match get_val (shape i) r with
  | Some p => if reg_empty (i_cont i) c then set_hand r None (set_cont c (Some p) i) else i
  | None => i
  end.

(** taking the container apart: its pointer, with the reference, in [r] ([mem::forget(self)]) *)
Definition p_take_cont (c r : nat) (i : istate) : istate :=
  match get_cont (i_cont i) c with
  | Some p => if reg_empty (i_hand i) r then set_hand r (val_ih p) (set_cont c None i) else i
  | None => i
  end.

Definition p_move (r r' : nat) (i : istate) : istate :=
  match nth_error (i_hand i) r with
  | Some (Some h) => if reg_empty (i_hand i) r' then set_hand r None (set_hand r' (Some h) i) else i
  | _ => i
  end.

(** ** The public API (src/lib.rs), in terms of the strategy *)

(** [swap] (lib.rs:475-488): [ptr.swap(new)], [wait_for_readers(old)], [T::from_ptr(old)] *)
Definition api_swap (st : strategy) (c r : nat) (i : istate) : istate :=
  p_wait_h st r (p_exch c r i).

Definition raw_i (i : istate) (cu : cur) : ptr :=
  match as_raw (shape i) cu with Some p => p | None => None end.

(** the by-value [current] is dropped when the call returns *)
Definition drop_cur (cu : cur) (i : istate) : istate :=
  match cu with CurGuardVal r' => p_drop r' i | _ => i end.

(** [CaS::compare_and_swap] for the hybrid strategy (hybrid.rs:218-246), no interference: the loop body
    runs once — [compare_exchange_weak] is taken to succeed when the values are equal. *)
Definition hybrid_cas (st : strategy) (c : nat) (cu : cur) (r : nat) (i : istate) : istate :=
  let i1 := p_load st c T1 i in                                   (* let old = load(storage) *)
  if negb (ptr_eqb (i_ptr i1 T1) (raw_i i1 cu)) then              (* old.as_ptr() != current.as_raw() *)
    drop_cur cu (p_move T1 r (p_drop r i1))                       (* return old; new and current are dropped *)
  else
    let i2 := p_exch c r i1 in                                    (* compare_exchange ok; T::into_ptr(new) *)
    let i3 := p_wait_h st T1 i2 in                                (* wait_for_readers(old.as_ptr()) *)
    let i4 := p_drop r i3 in                                      (* T::dec(old.as_ptr()) *)
    drop_cur cu (p_move T1 r i4).                                 (* return old *)

(** [CaS::compare_and_swap] for RwLock (rw_lock.rs:48-68) *)
Definition rw_cas (c : nat) (cu : cur) (r : nat) (i : istate) : istate :=
  if ptr_eqb (i_stored i c) (raw_i i cu) then                     (* compare_exchange(cur, new) *)
    drop_cur cu (p_from_inner r (p_exch c r i))                   (* Ok(old): T::from_ptr(old) is the result *)
  else
    let i1 := p_load RwLock c T1 i in                             (* Err(old): T::from_ptr(old); T::inc(&old) *)
    let i2 := p_drop r i1 in                                      (* drop(T::from_ptr(new)) *)
    drop_cur cu (p_move T1 r i2).                                 (* drop(current); old *)

Definition api_cas (st : strategy) (c : nat) (cu : cur) (r : nat) (i : istate) : istate :=
  match st with
  | Hybrid _ => hybrid_cas st c cu r i
  | RwLock => rw_cas c cu r i
  end.

(** [rcu] (lib.rs:620-640) with the closure [|_| src.clone()].  [cur] lives in [T2], the new value and
    then [prev] in [dst].  The loop is bounded by [fuel]; sequentially the first round succeeds
    (proved in Seq.SeqRefine), a round that fails would continue with [cur = prev]. *)
Fixpoint api_rcu (fuel : nat) (st : strategy) (c src dst : nat) (i : istate) : istate :=
  match fuel with
  | O => i
  | S fuel' =>
      let i2 := p_clone src dst i in                              (* let new = f(&cur).into() *)
      let i3 := api_cas st c (CurGuardRef T2) dst i2 in           (* prev = compare_and_swap(&*cur, new): T::as_ptr of what cur denotes *)
      if ptr_eqb (i_ptr i3 T2) (i_ptr i3 dst) then                (* swapped = ptr_eq(&*cur, &*prev) *)
        p_drop T2 (p_into_inner dst i3)                           (* return Guard::into_inner(prev); cur dropped *)
      else
        api_rcu fuel' st c src dst (p_move dst T2 (p_drop T2 i3)) (* cur = prev *)
  end.

Definition impl_do (st : strategy) (i : istate) (o : op) : istate :=
  match o with
  | OAlloc r => p_alloc r i
  | ONull r => p_null r i
  | OClone src dst => p_clone src dst i
  | ODrop r => p_drop r i
  | ONew c r => p_new_cont c r i                                      (* lib.rs:281-300 *)
  | OFromPointee c => p_new_cont c T1 (p_alloc T1 i)                  (* lib.rs:687-692: Self::from(Arc::new(val)) *)
  | OEmpty c => p_new_cont c T1 (p_null T1 i)                         (* lib.rs:716-721: Self::new(None) *)
  | OLoad c dst => p_load st c dst i                                  (* lib.rs:437-441 *)
  | OLoadFull c dst => p_into_inner dst (p_load st c dst i)           (* lib.rs:320-322: Guard::into_inner(self.load()) *)
  | OGuardInto r => p_into_inner r i                                  (* lib.rs:122-124 *)
  | OGuardFrom r => p_from_inner r i                                  (* lib.rs:134-138 *)
  | OStore c r => p_drop r (api_swap st c r i)                        (* lib.rs:468-470: drop(self.swap(val)) *)
  | OSwap c r => api_swap st c r i
  | OCas c cu r => api_cas st c cu r i                                (* lib.rs:555-563 *)
  | ORcu c src dst => api_rcu 2 st c src dst (p_load st c T2 i)       (* lib.rs:626: let mut cur = self.load() *)
  | OIntoInner c dst => p_take_cont c dst (p_wait_c st c i)           (* lib.rs:307-315 *)
  | ODropC c => p_drop T1 (p_take_cont c T1 (p_wait_c st c i))        (* lib.rs:233-242: wait_for_readers; T::dec(ptr) *)
  end.

(** what the call returned, read off the state after it (the identity the program can observe with
    [Arc::as_ptr] on the returned value / through the returned guard) *)
Definition impl_result (before after : istate) (o : op) : result :=
  match o with
  | OAlloc r | ONull r | OGuardInto r | OGuardFrom r | OSwap _ r => RPtr (i_ptr after r)
  | OClone _ dst | OLoad _ dst | OLoadFull _ dst | ORcu _ _ dst | OIntoInner _ dst => RPtr (i_ptr after dst)
  | OFromPointee c | OEmpty c => RPtr (i_stored after c)
  | OCas c cu r =>
      (* the exchange happened iff the container now stores the pointer of the new value: this is how a
         program finds out (ptr_eq of the result with current, as rcu does, lib.rs:630) *)
      RCas (i_ptr after r) (ptr_eqb (i_ptr after r) (raw_i before cu))
  | ODrop _ | ONew _ _ | OStore _ _ | ODropC _ => RUnit
  end.

Definition impl_step (st : strategy) (i : istate) (o : op) : istate * result :=
  if valid (i_cont i) (shape i) o
  then let i' := impl_do st i o in (i', impl_result i i' o)
  else (i, RInvalid).

Fixpoint run_impl (st : strategy) (prog : list op) (i : istate) : list (result * istate) :=
  match prog with
  | [] => []
  | o :: rest => let (i', r) := impl_step st i o in (r, i') :: run_impl st rest i'
  end.

(** unpaid debts on object [a]: the fast slots holding its pointer *)
Definition debts (i : istate) (a : nat) : nat := count (con a) (i_slots i).
Definition debt_list (i : istate) : list nat := map (debts i) (seq 0 (next (i_heap i))).
