(** * Seq.SeqRefine — C14: every strategy model of Seq.SeqImpl refines the specification Seq.SeqSpec.

    The simulation relation [R s i] between a state [s] of the specification and a state [i] of a
    strategy model:
    - the containers store the same pointers, the handle registers hold handles of the same kind
      denoting the same pointers ([shape i = s_hand s]);
    - for every object [a]:   count_impl a + unpaid debts on a = count_spec a
      ("a guard either owns its reference or borrows the one a debt slot stands for");
    - every occupied debt slot is the slot of some live guard denoting that pointer; values hold no debt;
    - the specification's count is the number of references the program and the containers hold.
    Each small transition of SeqImpl preserves [R] against its counterpart on the specification's state
    ([q_...]); each API call is a composition of small transitions, and the composition of the
    counterparts is shown to be the specification's one-line meaning of the call ([spec_do]). *)
From Coq Require Import List Arith Lia Bool PeanoNat.
From Seq Require Import SeqSpec SeqImpl.
Import ListNotations.

Set Implicit Arguments.

(** ** Lists *)
Lemma nth_map A B (f : A -> B) l n : nth_error (map f l) n = option_map f (nth_error l n).
Proof. revert n; induction l as [|x t IH]; intros [|n]; cbn; auto. Qed.

Lemma map_set_nth A B (f : A -> B) n x l : map f (set_nth n x l) = set_nth n (f x) (map f l).
Proof. revert n; induction l as [|y t IH]; intros [|n]; cbn [set_nth map]; try reflexivity. now rewrite IH. Qed.

Lemma count_map A B (f : A -> B) P l : count P (map f l) = count (fun x => P (f x)) l.
Proof. unfold count. induction l as [|y t IH]; [reflexivity|]. cbn [map filter]. destruct (P (f y)); cbn [length]; now rewrite IH. Qed.

Lemma set_nth_set_nth A n (x y : A) l : set_nth n x (set_nth n y l) = set_nth n x l.
Proof. revert n; induction l as [|z t IH]; intros [|n]; cbn [set_nth]; try reflexivity. now rewrite IH. Qed.

Lemma reg_empty_iff A (l : list (option A)) r : reg_empty l r = true <-> nth_error l r = Some None.
Proof. unfold reg_empty. destruct (nth_error l r) as [[x|]|]; split; congruence. Qed.

Lemma reg_empty_shape l r : reg_empty (map erase l) r = reg_empty l r.
Proof. unfold reg_empty. rewrite nth_map. destruct (nth_error l r) as [[h|]|]; reflexivity. Qed.

(** ** Counting references *)
Definition ihon (a : nat) (x : option handle) : bool :=
  match x with Some h => on a (h_ptr h) | None => false end.
Definition hkey (x : option handle) : option nat :=
  match x with Some h => h_debt h | None => None end.

Lemma shon_erase a x : shon a (erase x) = ihon a x.
Proof. now destruct x. Qed.

Lemma count_shape a hs : count (shon a) (map erase hs) = count (ihon a) hs.
Proof. rewrite count_map. apply count_ext. intros x. apply shon_erase. Qed.

Lemma on_true a p : on a p = true <-> p = Some a.
Proof. destruct p as [b|]; cbn; split; try congruence. - intros H. apply Nat.eqb_eq in H. now subst. - intros [= ->]. apply Nat.eqb_refl. Qed.

Lemma con_debt_on a x : con a x = debt_on (Some a) x.
Proof. destruct x as [[b|]|]; reflexivity. Qed.

Lemma debt_on_true p x : debt_on p x = true <-> x = Some p.
Proof.
  destruct x as [q|]; cbn; [|split; congruence].
  rewrite ptr_eqb_eq. split; congruence.
Qed.

(** every occupied slot is the slot of a live handle denoting the slot's pointer *)
Definition slot_inv (sl : list (option ptr)) (hs : list (option handle)) : Prop :=
  forall j p, nth_error sl j = Some (Some p) ->
    exists r h, nth_error hs r = Some (Some h) /\ h_ptr h = p /\ h_debt h = Some j.

(** a live handle on [a] that is not covered by its slot: there is one reference more than debts *)
Lemma debts_lt sl hs r h a :
  slot_inv sl hs -> nth_error hs r = Some (Some h) -> h_ptr h = Some a ->
  (forall j, h_debt h = Some j -> nth_error sl j <> Some (Some (Some a))) ->
  count (con a) sl + 1 <= count (ihon a) hs.
Proof.
  intros Hinv Hr Hp Hnm.
  pose proof (count_set_nth (ihon a) r None hs Hr) as Hc. cbn [ihon b2n] in Hc. rewrite Hp in Hc.
  cbn [on] in Hc. rewrite Nat.eqb_refl in Hc. cbn [b2n] in Hc.
  enough (count (con a) sl <= count (ihon a) (set_nth r None hs)) by lia.
  apply count_le_by_key with (key := hkey).
  intros j x Hj Hx. destruct x as [q|]; [|discriminate]. cbn [con] in Hx. apply on_true in Hx. subst q.
  destruct (Hinv j (Some a) Hj) as (r' & h' & Hr' & Hp' & Hd').
  assert (r' <> r). { intros ->. rewrite Hr in Hr'. injection Hr' as <-. exact (Hnm j Hd' Hj). }
  exists r', (Some h'). split; [rewrite nth_set_nth_other by congruence; exact Hr'|].
  split; [cbn [ihon]; rewrite Hp'; cbn [on]; apply Nat.eqb_refl | exact Hd'].
Qed.

Lemma debts_le sl hs a : slot_inv sl hs -> count (con a) sl <= count (ihon a) hs.
Proof.
  intros Hinv. apply count_le_by_key with (key := hkey).
  intros j x Hj Hx. destruct x as [q|]; [|discriminate]. cbn [con] in Hx. apply on_true in Hx. subst q.
  destruct (Hinv j (Some a) Hj) as (r' & h' & Hr' & Hp' & Hd').
  exists r', (Some h'). split; [exact Hr'|]. split; [cbn [ihon]; rewrite Hp'; cbn [on]; apply Nat.eqb_refl | exact Hd'].
Qed.

(** *** how [slot_inv] survives updates *)
Lemma slot_inv_fill sl hs r x :
  slot_inv sl hs -> nth_error hs r = Some None -> slot_inv sl (set_nth r x hs).
Proof.
  intros Hinv Hr j p Hj. destruct (Hinv j p Hj) as (r' & h' & Hr' & Hp' & Hd').
  assert (r' <> r) by (intros ->; congruence).
  exists r', h'. rewrite nth_set_nth_other by congruence. auto.
Qed.

Lemma slot_inv_unkeyed sl hs r h x :
  slot_inv sl hs -> nth_error hs r = Some (Some h) ->
  (forall j, h_debt h = Some j -> nth_error sl j <> Some (Some (h_ptr h))) ->
  slot_inv sl (set_nth r x hs).
Proof.
  intros Hinv Hr Hnm j p Hj. destruct (Hinv j p Hj) as (r' & h' & Hr' & Hp' & Hd').
  assert (r' <> r). { intros ->. rewrite Hr in Hr'. injection Hr' as <-. subst p. exact (Hnm j Hd' Hj). }
  exists r', h'. rewrite nth_set_nth_other by congruence. auto.
Qed.

Lemma slot_inv_release sl hs r h j x :
  slot_inv sl hs -> nth_error hs r = Some (Some h) -> h_debt h = Some j ->
  slot_inv (set_nth j None sl) (set_nth r x hs).
Proof.
  intros Hinv Hr Hd j' p Hj'. rewrite nth_set_nth in Hj'.
  destruct (Nat.eqb_spec j j') as [->|Hne].
  - destruct (nth_error sl j'); discriminate.
  - destruct (Hinv j' p Hj') as (r' & h' & Hr' & Hp' & Hd').
    assert (r' <> r). { intros ->. rewrite Hr in Hr'. injection Hr' as <-. congruence. }
    exists r', h'. rewrite nth_set_nth_other by congruence. auto.
Qed.

Lemma slot_inv_take sl hs dst g p j :
  slot_inv sl hs -> nth_error hs dst = Some None ->
  slot_inv (set_nth j (Some p) sl) (set_nth dst (Some (mkH g p (Some j))) hs).
Proof.
  intros Hinv Hr j' q Hj'. rewrite nth_set_nth in Hj'.
  destruct (Nat.eqb_spec j j') as [->|Hne].
  - destruct (nth_error sl j'); [|discriminate]. injection Hj' as <-.
    exists dst, (mkH g p (Some j')). rewrite (nth_set_nth_same _ _ _ Hr). auto.
  - destruct (Hinv j' q Hj') as (r' & h' & Hr' & Hp' & Hd').
    assert (r' <> dst) by (intros ->; congruence).
    exists r', h'. rewrite nth_set_nth_other by congruence. auto.
Qed.

Lemma slot_inv_clear sl hs p :
  slot_inv sl hs -> slot_inv (map (fun x => if debt_on p x then None else x) sl) hs.
Proof.
  intros Hinv j q Hj. rewrite nth_map in Hj.
  destruct (nth_error sl j) as [x|] eqn:E; [|discriminate]. cbn in Hj.
  destruct (debt_on p x); [discriminate|]. injection Hj as ->. eauto.
Qed.

Lemma slot_inv_move sl hs r r' h :
  slot_inv sl hs -> nth_error hs r = Some (Some h) -> nth_error hs r' = Some None ->
  slot_inv sl (set_nth r None (set_nth r' (Some h) hs)).
Proof.
  intros Hinv Hr Hr' j p Hj. destruct (Hinv j p Hj) as (r0 & h0 & Hr0 & Hp0 & Hd0).
  assert (r <> r') by (intros ->; congruence).
  destruct (Nat.eq_dec r0 r) as [->|Hne].
  - rewrite Hr in Hr0. injection Hr0 as <-.
    exists r', h. rewrite nth_set_nth_other by congruence. rewrite (nth_set_nth_same _ _ _ Hr'). auto.
  - assert (r0 <> r') by (intros ->; congruence).
    exists r0, h0. rewrite !nth_set_nth_other by congruence. auto.
Qed.

(** ** The simulation relation *)
Record R (s : sstate) (i : istate) : Prop := mkR {
  R_cont : i_cont i = s_cont s;
  R_hand : shape i = s_hand s;
  R_next : next (i_heap i) = next (s_heap s);
  R_cnt : forall a, cnt (i_heap i) a + debts i a = cnt (s_heap s) a;
  R_slot : slot_inv (i_slots i) (i_hand i);
  R_val : forall r h, nth_error (i_hand i) r = Some (Some h) -> h_guard h = false -> h_debt h = None;
  R_counted : counted s;
  R_fresh : forall a, next (s_heap s) <= a -> cnt (s_heap s) a = 0 }.

(** the implementation's count of an object is positive as long as a reference that is not a covered
    debt exists: no decrement of the models ever hits 0 - 1 *)
Lemma R_handle_count s i r h a :
  R s i -> nth_error (i_hand i) r = Some (Some h) -> h_ptr h = Some a ->
  (forall j, h_debt h = Some j -> nth_error (i_slots i) j <> Some (Some (Some a))) ->
  1 <= cnt (i_heap i) a.
Proof.
  intros HR Hr Hp Hnm.
  pose proof (@debts_lt _ _ _ _ a (R_slot HR) Hr Hp Hnm) as H1.
  pose proof (R_cnt HR a) as H2. pose proof (R_counted HR a) as H3. unfold refs in H3.
  rewrite <- (R_hand HR) in H3. unfold shape in H3. rewrite count_shape in H3. unfold debts in H2. lia.
Qed.

Lemma R_cont_count s i c a :
  R s i -> nth_error (i_cont i) c = Some (Some (Some a)) -> 1 <= cnt (i_heap i) a.
Proof.
  intros HR Hc.
  pose proof (@debts_le _ _ a (R_slot HR)) as H1.
  pose proof (R_cnt HR a) as H2. pose proof (R_counted HR a) as H3. unfold refs in H3.
  rewrite <- (R_hand HR) in H3. unfold shape in H3. rewrite count_shape in H3. unfold debts in H2.
  rewrite <- (R_cont HR) in H3.
  assert (1 <= count (con a) (i_cont i)).
  { eapply count_pos; [exact Hc|]. cbn. apply Nat.eqb_refl. }
  lia.
Qed.

(** ** The counterparts of the small transitions on the specification's state *)
Definition q_alloc (r : nat) (s : sstate) : sstate :=
  if reg_empty (s_hand s) r then
    let (a, h) := h_alloc (s_heap s) in s_set_hand r (val_h (Some a)) (s_set_heap h s)
  else s.
Definition q_null (r : nat) (s : sstate) : sstate :=
  if reg_empty (s_hand s) r then s_set_hand r (val_h None) s else s.
Definition q_clone (src dst : nat) (s : sstate) : sstate :=
  match get_val (s_hand s) src with
  | Some p => if reg_empty (s_hand s) dst then s_set_hand dst (val_h p) (s_inc p s) else s
  | None => s
  end.
Definition q_load (c dst : nat) (s : sstate) : sstate :=
  match get_cont (s_cont s) c with
  | Some p => if reg_empty (s_hand s) dst then s_set_hand dst (guard_h p) (s_inc p s) else s
  | None => s
  end.
Definition q_drop (r : nat) (s : sstate) : sstate :=
  match nth_error (s_hand s) r with
  | Some (Some h) => s_set_hand r None (s_dec (sh_ptr h) s)
  | _ => s
  end.
Definition q_into_inner (r : nat) (s : sstate) : sstate :=
  match nth_error (s_hand s) r with
  | Some (Some h) => if sh_guard h then s_set_hand r (val_h (sh_ptr h)) s else s
  | _ => s
  end.
Definition q_from_inner (r : nat) (s : sstate) : sstate :=
  match get_val (s_hand s) r with
  | Some p => s_set_hand r (guard_h p) s
  | None => s
  end.
Definition q_exch (c r : nat) (s : sstate) : sstate :=
  match get_cont (s_cont s) c, get_val (s_hand s) r with
  | Some old, Some p => s_set_hand r (val_h old) (s_set_cont c (Some p) s)
  | _, _ => s
  end.
Definition q_new_cont (c r : nat) (s : sstate) : sstate :=
  match get_val (s_hand s) r with
  | Some p => if reg_empty (s_cont s) c then s_set_hand r None (s_set_cont c (Some p) s) else s
  | None => s
  end.
Definition q_take_cont (c r : nat) (s : sstate) : sstate :=
  match get_cont (s_cont s) c with
  | Some p => if reg_empty (s_hand s) r then s_set_hand r (val_h p) (s_set_cont c None s) else s
  | None => s
  end.
Definition q_move (r r' : nat) (s : sstate) : sstate :=
  match nth_error (s_hand s) r with
  | Some (Some h) => if reg_empty (s_hand s) r' then s_set_hand r None (s_set_hand r' (Some h) s) else s
  | _ => s
  end.

Ltac simp_st :=
  unfold shape in *;
  cbn [s_set_hand s_set_cont s_inc s_dec s_set_heap s_heap s_cont s_hand
       set_hand set_heap set_cont set_slots set_off i_heap i_cont i_hand i_slots i_off] in *.

Lemma shape_set_hand r x i : shape (set_hand r x i) = set_nth r (erase x) (shape i).
Proof. unfold shape. cbn [set_hand i_hand]. apply map_set_nth. Qed.

Lemma shape_nth i r : nth_error (shape i) r = option_map erase (nth_error (i_hand i) r).
Proof. apply nth_map. Qed.

Lemma get_val_shape i r p :
  get_val (shape i) r = Some p <-> exists h, nth_error (i_hand i) r = Some (Some h) /\ h_guard h = false /\ h_ptr h = p.
Proof.
  unfold get_val. rewrite shape_nth. destruct (nth_error (i_hand i) r) as [[h|]|]; cbn.
  - destruct (h_guard h) eqn:E; split.
    + discriminate.
    + intros (h' & [= <-] & ? & ?). congruence.
    + intros [= <-]. eauto.
    + intros (h' & [= <-] & ? & ?). congruence.
  - split; [discriminate|]. intros (h' & ? & _). discriminate.
  - split; [discriminate|]. intros (h' & ? & _). discriminate.
Qed.

(** the counting facts about one update, ready for [lia] *)
Ltac upd_hand a Hs x :=
  let H := fresh "Hcount" in
  pose proof (count_set_nth (shon a) _ x _ Hs) as H; cbn [shon sh_ptr b2n val_h guard_h] in H.
Ltac upd_cont a Hc x :=
  let H := fresh "Hcount" in
  pose proof (count_set_nth (con a) _ x _ Hc) as H; cbn [con b2n] in H.

Lemma spec_nth s i r : R s i -> nth_error (s_hand s) r = option_map erase (nth_error (i_hand i) r).
Proof. intros HR. rewrite <- (R_hand HR). apply shape_nth. Qed.


(** whatever a handle or a container refers to has been created *)
Lemma hand_lt_next s i r h a : R s i -> nth_error (i_hand i) r = Some (Some h) -> h_ptr h = Some a -> a < next (s_heap s).
Proof.
  intros HR Hr Hp. destruct (Nat.lt_ge_cases a (next (s_heap s))) as [|Hge]; [assumption|exfalso].
  pose proof (R_fresh HR Hge) as H0. pose proof (R_counted HR a) as H1. unfold refs in H1.
  assert (1 <= count (shon a) (s_hand s)).
  { eapply count_pos with (j := r) (x := erase (Some h)).
    - rewrite (spec_nth r HR), Hr. reflexivity.
    - cbn. rewrite Hp. cbn. apply Nat.eqb_refl. }
  lia.
Qed.

Lemma cont_lt_next s i c a : R s i -> nth_error (i_cont i) c = Some (Some (Some a)) -> a < next (s_heap s).
Proof.
  intros HR Hc. destruct (Nat.lt_ge_cases a (next (s_heap s))) as [|Hge]; [assumption|exfalso].
  pose proof (R_fresh HR Hge) as H0. pose proof (R_counted HR a) as H1. unfold refs in H1.
  assert (1 <= count (con a) (s_cont s)).
  { rewrite <- (R_cont HR). eapply count_pos; [exact Hc|]. cbn. apply Nat.eqb_refl. }
  lia.
Qed.

Lemma on_lt_next p n : (forall a, p = Some a -> a < n) -> forall a, n <= a -> on a p = false.
Proof.
  intros H a Ha. destruct (on a p) eqn:E; [|reflexivity]. apply on_true in E. specialize (H a E). lia.
Qed.

Lemma reg_empty_sh i r : reg_empty (shape i) r = reg_empty (i_hand i) r.
Proof. apply reg_empty_shape. Qed.

(** *** each small transition preserves [R] *)
Lemma sim_alloc r s i : R s i -> R (q_alloc r s) (p_alloc r i).
Proof.
  intros HR. unfold q_alloc, p_alloc. rewrite <- (R_hand HR), reg_empty_sh.
  destruct (reg_empty (i_hand i) r) eqn:He; [|exact HR]. apply reg_empty_iff in He.
  unfold h_alloc. rewrite (R_next HR).
  assert (Hs : nth_error (s_hand s) r = Some None) by (rewrite (spec_nth r HR), He; reflexivity).
  set (n := next (s_heap s)).
  assert (Hn0 : cnt (s_heap s) n = 0) by (apply (R_fresh HR); unfold n; lia).
  pose proof (R_counted HR n) as Hn1. unfold refs in Hn1.
  pose proof (R_cnt HR n) as Hn2.
  destruct HR as [Hc Hh Hn Hcnt Hsl Hv Hco Hfr].
  constructor; simp_st.
  - exact Hc.
  - rewrite map_set_nth, Hh. reflexivity.
  - reflexivity.
  - intros a. cbn [cnt]. unfold debts in *. simp_st. specialize (Hcnt a).
    destruct (Nat.eqb_spec a n) as [->|]; [lia|exact Hcnt].
  - now apply slot_inv_fill.
  - intros r' h'. rewrite nth_set_nth. destruct (Nat.eqb_spec r r') as [->|].
    + rewrite He. intros [= <-]. reflexivity.
    + apply Hv.
  - intros a. unfold refs. simp_st. cbn [cnt]. upd_hand a Hs (val_h (Some n)).
    specialize (Hco a). unfold refs in Hco. cbn [on] in *.
    rewrite (Nat.eqb_sym n a) in *.
    destruct (Nat.eqb_spec a n) as [->|Hne]; cbn [b2n] in *; lia.
  - intros a Ha. cbn [cnt next] in *. destruct (Nat.eqb_spec a n) as [->|Hne]; [lia|]. apply Hfr. fold n. lia.
Qed.

Lemma sim_null r s i : R s i -> R (q_null r s) (p_null r i).
Proof.
  intros HR. unfold q_null, p_null. rewrite <- (R_hand HR), reg_empty_sh.
  destruct (reg_empty (i_hand i) r) eqn:He; [|exact HR]. apply reg_empty_iff in He.
  assert (Hs : nth_error (s_hand s) r = Some None) by (rewrite (spec_nth r HR), He; reflexivity).
  destruct HR as [Hc Hh Hn Hcnt Hsl Hv Hco Hfr].
  constructor; simp_st; auto.
  - rewrite map_set_nth, Hh. reflexivity.
  - now apply slot_inv_fill.
  - intros r' h'. rewrite nth_set_nth. destruct (Nat.eqb_spec r r') as [->|].
    + rewrite He. intros [= <-]. reflexivity.
    + apply Hv.
  - intros a. unfold refs. simp_st. upd_hand a Hs (val_h None).
    specialize (Hco a). unfold refs in Hco. cbn [on b2n] in *. lia.
Qed.

(** adding an owned reference to [p] in an empty register [dst] *)
Lemma sim_add_owned g p dst s i :
  R s i -> nth_error (i_hand i) dst = Some None -> (forall a, p = Some a -> a < next (s_heap s)) ->
  R (s_set_hand dst (Some (mkSH g p)) (s_inc p s)) (set_hand dst (Some (mkH g p None)) (set_heap (h_inc p (i_heap i)) i)).
Proof.
  intros HR He Hlt.
  assert (Hs : nth_error (s_hand s) dst = Some None) by (rewrite (spec_nth dst HR), He; reflexivity).
  destruct HR as [Hc Hh Hn Hcnt Hsl Hv Hco Hfr].
  constructor; simp_st; auto.
  - rewrite map_set_nth, Hh. reflexivity.
  - now rewrite !next_inc.
  - intros a. unfold debts in *. simp_st. rewrite !cnt_inc. specialize (Hcnt a). lia.
  - now apply slot_inv_fill.
  - intros r' h'. rewrite nth_set_nth. destruct (Nat.eqb_spec dst r') as [->|].
    + rewrite He. intros [= <-]. reflexivity.
    + apply Hv.
  - intros a. unfold refs. simp_st. rewrite cnt_inc. upd_hand a Hs (Some (mkSH g p)).
    specialize (Hco a). unfold refs in Hco. cbn [b2n] in *. lia.
  - intros a Ha. rewrite next_inc in Ha. rewrite cnt_inc, (Hfr a Ha), (on_lt_next Hlt Ha). reflexivity.
Qed.

Lemma sim_clone src dst s i : R s i -> R (q_clone src dst s) (p_clone src dst i).
Proof.
  intros HR. unfold q_clone, p_clone. rewrite <- (R_hand HR), reg_empty_sh.
  destruct (get_val (shape i) src) as [p|] eqn:Ev; [|exact HR].
  destruct (reg_empty (i_hand i) dst) eqn:He; [|exact HR]. apply reg_empty_iff in He.
  apply get_val_shape in Ev. destruct Ev as (h & Hh & _ & Hp).
  apply (sim_add_owned false); auto.
  intros a ->. eapply hand_lt_next; eauto.
Qed.

Lemma find_slot_free sl off j : find_slot sl off = Some j -> nth_error sl j = Some None.
Proof.
  unfold find_slot. intros H. apply find_some in H. destruct H as [_ H].
  unfold slot_free in H. destruct (nth_error sl j) as [[q|]|]; congruence.
Qed.

Lemma get_cont_some cs c p : get_cont cs c = Some p <-> nth_error cs c = Some (Some p).
Proof. unfold get_cont. destruct (nth_error cs c) as [[q|]|]; split; congruence. Qed.

Lemma sim_load st c dst s i : R s i -> R (q_load c dst s) (p_load st c dst i).
Proof.
  intros HR. unfold q_load, p_load. rewrite <- (R_cont HR), <- (R_hand HR), reg_empty_sh.
  destruct (get_cont (i_cont i) c) as [p|] eqn:Ec; [|exact HR].
  destruct (reg_empty (i_hand i) dst) eqn:He; [|exact HR]. apply reg_empty_iff in He.
  apply get_cont_some in Ec.
  assert (Hlt : forall a, p = Some a -> a < next (s_heap s)).
  { intros a ->. eapply cont_lt_next; eauto. }
  pose proof (@sim_add_owned true p dst s i HR He Hlt) as Hown.
  destruct st as [[|]|]; try exact Hown.
  destruct (find_slot (i_slots i) (i_off i)) as [j|] eqn:Ef; [|exact Hown]. clear Hown.
  apply find_slot_free in Ef.
  assert (Hs : nth_error (s_hand s) dst = Some None) by (rewrite (spec_nth dst HR), He; reflexivity).
  destruct HR as [Hc Hh Hn Hcnt Hsl Hv Hco Hfr].
  constructor; simp_st; auto.
  - rewrite map_set_nth, Hh. reflexivity.
  - now rewrite next_inc.
  - intros a. unfold debts in *. simp_st. rewrite cnt_inc. specialize (Hcnt a).
    pose proof (count_set_nth (con a) j (Some p) _ Ef) as Hcount. cbn [con b2n] in Hcount. lia.
  - now apply slot_inv_take.
  - intros r' h'. rewrite nth_set_nth. destruct (Nat.eqb_spec dst r') as [->|].
    + rewrite He. intros [= <-]. discriminate.
    + apply Hv.
  - intros a. unfold refs. simp_st. rewrite cnt_inc. upd_hand a Hs (guard_h p).
    specialize (Hco a). unfold refs in Hco. cbn [b2n] in *. lia.
  - intros a Ha. rewrite next_inc in Ha. rewrite cnt_inc, (Hfr a Ha), (on_lt_next Hlt Ha). reflexivity.
Qed.

Lemma slot_holds_true sl j p : slot_holds sl j p = true <-> nth_error sl j = Some (Some p).
Proof.
  unfold slot_holds. destruct (nth_error sl j) as [[q|]|]; try (split; congruence).
  rewrite ptr_eqb_eq. split; congruence.
Qed.

Lemma slot_holds_false sl j p : slot_holds sl j p = false -> nth_error sl j <> Some (Some p).
Proof. intros H E. apply slot_holds_true in E. congruence. Qed.

Lemma R_val_remove hs r (x : handle) :
  (forall r h, nth_error hs r = Some (Some h) -> h_guard h = false -> h_debt h = None) ->
  forall r' h, nth_error (set_nth r None hs) r' = Some (Some h) -> h_guard h = false -> h_debt h = None.
Proof.
  intros Hv r' h'. rewrite nth_set_nth. destruct (Nat.eqb_spec r r') as [->|]; [|apply Hv].
  destruct (nth_error hs r'); discriminate.
Qed.

Lemma R_val_set hs r (x : handle) :
  (forall r h, nth_error hs r = Some (Some h) -> h_guard h = false -> h_debt h = None) ->
  (h_guard x = false -> h_debt x = None) ->
  forall r' h, nth_error (set_nth r (Some x) hs) r' = Some (Some h) -> h_guard h = false -> h_debt h = None.
Proof.
  intros Hv Hx r' h'. rewrite nth_set_nth. destruct (Nat.eqb_spec r r') as [->|]; [|apply Hv].
  destruct (nth_error hs r'); [|discriminate]. intros [= <-]. exact Hx.
Qed.

Lemma sim_drop r s i : R s i -> R (q_drop r s) (p_drop r i).
Proof.
  intros HR. unfold q_drop, p_drop. rewrite (spec_nth r HR).
  destruct (nth_error (i_hand i) r) as [[h|]|] eqn:Hr; cbn [option_map erase]; try exact HR.
  cbn [sh_ptr].
  assert (Hs : nth_error (s_hand s) r = Some (erase (Some h))) by (rewrite (spec_nth r HR), Hr; reflexivity).
  assert (Hdec : (forall j, h_debt h = Some j -> nth_error (i_slots i) j <> Some (Some (h_ptr h))) ->
      R (s_set_hand r None (s_dec (h_ptr h) s)) (set_heap (h_dec (h_ptr h) (i_heap i)) (set_hand r None i))).
  { intros Hnm.
    assert (Hpos : forall a, h_ptr h = Some a -> 1 <= cnt (i_heap i) a).
    { intros a Ha. eapply R_handle_count; eauto. intros j Hj. rewrite <- Ha. auto. }
    destruct HR as [Hc Hh Hn Hcnt Hsl Hv Hco Hfr].
    constructor; simp_st; auto.
    - rewrite map_set_nth, Hh. reflexivity.
    - now rewrite !next_dec.
    - intros a. unfold debts in *. simp_st. rewrite !cnt_dec. specialize (Hcnt a).
      destruct (on a (h_ptr h)) eqn:E; cbn [b2n]; [apply on_true in E; specialize (Hpos a E); lia | lia].
    - eapply slot_inv_unkeyed; eauto.
    - now apply R_val_remove.
    - intros a. unfold refs. simp_st. rewrite cnt_dec.
      pose proof (count_set_nth (shon a) r None _ Hs) as Hcount. cbn [shon erase sh_ptr b2n] in Hcount.
      specialize (Hco a). unfold refs in Hco. lia.
    - intros a Ha. rewrite next_dec in Ha. rewrite cnt_dec, (Hfr a Ha). reflexivity. }
  destruct (h_debt h) as [j|] eqn:Hd.
  - destruct (slot_holds (i_slots i) j (h_ptr h)) eqn:Esh.
    + apply slot_holds_true in Esh.
      destruct HR as [Hc Hh Hn Hcnt Hsl Hv Hco Hfr].
      constructor; simp_st; auto.
      * rewrite map_set_nth, Hh. reflexivity.
      * now rewrite next_dec.
      * intros a. unfold debts in *. simp_st. rewrite cnt_dec. specialize (Hcnt a).
        pose proof (count_set_nth (con a) j None _ Esh) as Hcount. cbn [con b2n] in Hcount. lia.
      * eapply slot_inv_release; eauto.
      * now apply R_val_remove.
      * intros a. unfold refs. simp_st. rewrite cnt_dec.
        pose proof (count_set_nth (shon a) r None _ Hs) as Hcount. cbn [shon erase sh_ptr b2n] in Hcount.
        specialize (Hco a). unfold refs in Hco. lia.
      * intros a Ha. rewrite next_dec in Ha. rewrite cnt_dec, (Hfr a Ha). reflexivity.
    + apply Hdec. intros j' [= <-]. now apply slot_holds_false.
  - apply Hdec. discriminate.
Qed.

Lemma cnt_inc_dec p h a : cnt (h_dec p (h_inc p h)) a = cnt h a.
Proof. rewrite cnt_dec, cnt_inc. lia. Qed.

Lemma sim_into_inner r s i : R s i -> R (q_into_inner r s) (p_into_inner r i).
Proof.
  intros HR. unfold q_into_inner, p_into_inner. rewrite (spec_nth r HR).
  destruct (nth_error (i_hand i) r) as [[h|]|] eqn:Hr; cbn [option_map erase]; try exact HR.
  cbn [sh_ptr sh_guard]. destruct (h_guard h) eqn:Hg; [|exact HR].
  assert (Hs : nth_error (s_hand s) r = Some (erase (Some h))) by (rewrite (spec_nth r HR), Hr; reflexivity).
  (* the register keeps denoting the same pointer: only the heap and the slots matter *)
  assert (Hsame : forall hp sl,
      (forall a, cnt hp a + count (con a) sl = cnt (i_heap i) a + debts i a) ->
      next hp = next (i_heap i) ->
      slot_inv sl (set_nth r (val_ih (h_ptr h)) (i_hand i)) ->
      R (s_set_hand r (val_h (h_ptr h)) s) (set_slots sl (set_heap hp (set_hand r (val_ih (h_ptr h)) i)))).
  { intros hp sl Hcn Hnx Hsi.
    destruct HR as [Hc Hh Hn Hcnt Hsl Hv Hco Hfr].
    constructor; simp_st; auto.
    - rewrite map_set_nth, Hh. reflexivity.
    - congruence.
    - intros a. unfold debts in *. simp_st. rewrite Hcn. apply Hcnt.
    - apply R_val_set; auto.
    - intros a. unfold refs. simp_st.
      pose proof (count_set_nth (shon a) r (val_h (h_ptr h)) _ Hs) as Hcount. cbn [shon erase val_h sh_ptr b2n] in Hcount.
      specialize (Hco a). unfold refs in Hco. lia. }
  destruct (h_debt h) as [j|] eqn:Hd.
  - destruct (slot_holds (i_slots i) j (h_ptr h)) eqn:Esh.
    + apply slot_holds_true in Esh.
      apply Hsame.
      * intros a. unfold debts. rewrite cnt_inc.
        pose proof (count_set_nth (con a) j None _ Esh) as Hcount. cbn [con b2n] in Hcount. lia.
      * apply next_inc.
      * eapply slot_inv_release; eauto. apply (R_slot HR).
    + pose proof (Hsame (h_dec (h_ptr h) (h_inc (h_ptr h) (i_heap i))) (i_slots i)) as H.
      apply H.
      * intros a. rewrite cnt_inc_dec. reflexivity.
      * now rewrite next_dec, next_inc.
      * eapply slot_inv_unkeyed; [apply (R_slot HR)|exact Hr|]. intros j' Hj'. rewrite Hd in Hj'. injection Hj' as <-. now apply slot_holds_false.
  - pose proof (Hsame (i_heap i) (i_slots i)) as H. apply H; auto.
    eapply slot_inv_unkeyed; [apply (R_slot HR)|exact Hr|]. intros j' Hj'. congruence.
Qed.

Lemma sim_from_inner r s i : R s i -> R (q_from_inner r s) (p_from_inner r i).
Proof.
  intros HR. unfold q_from_inner, p_from_inner. rewrite <- (R_hand HR).
  destruct (get_val (shape i) r) as [p|] eqn:Ev; [|exact HR].
  apply get_val_shape in Ev. destruct Ev as (h & Hr & Hg & Hp).
  assert (Hs : nth_error (s_hand s) r = Some (erase (Some h))) by (rewrite (spec_nth r HR), Hr; reflexivity).
  pose proof (R_val HR _ Hr Hg) as Hd.
  destruct HR as [Hc Hh Hn Hcnt Hsl Hv Hco Hfr].
  constructor; simp_st; auto.
  - rewrite map_set_nth, Hh. reflexivity.
  - eapply slot_inv_unkeyed; eauto. intros j Hj. congruence.
  - apply R_val_set; auto.
  - intros a. unfold refs. simp_st.
    pose proof (count_set_nth (shon a) r (guard_h p) _ Hs) as Hcount. cbn [shon erase guard_h sh_ptr b2n] in Hcount.
    specialize (Hco a). unfold refs in Hco. rewrite Hp in Hcount. lia.
Qed.

Lemma sim_exch c r s i : R s i -> R (q_exch c r s) (p_exch c r i).
Proof.
  intros HR. unfold q_exch, p_exch. rewrite <- (R_cont HR), <- (R_hand HR).
  destruct (get_cont (i_cont i) c) as [old|] eqn:Ec; [|exact HR].
  destruct (get_val (shape i) r) as [p|] eqn:Ev; [|exact HR].
  apply get_cont_some in Ec.
  apply get_val_shape in Ev. destruct Ev as (h & Hr & Hg & Hp).
  assert (Hs : nth_error (s_hand s) r = Some (erase (Some h))) by (rewrite (spec_nth r HR), Hr; reflexivity).
  pose proof (R_val HR _ Hr Hg) as Hd.
  assert (Ecs : nth_error (s_cont s) c = Some (Some old)) by (rewrite <- (R_cont HR); exact Ec).
  destruct HR as [Hc Hh Hn Hcnt Hsl Hv Hco Hfr].
  constructor; simp_st; auto.
  - now rewrite Hc.
  - rewrite map_set_nth, Hh. reflexivity.
  - eapply slot_inv_unkeyed; eauto. intros j Hj. congruence.
  - apply R_val_set; auto.
  - intros a. unfold refs. simp_st.
    pose proof (count_set_nth (shon a) r (val_h old) _ Hs) as Hcount. cbn [shon erase val_h sh_ptr b2n] in Hcount.
    pose proof (count_set_nth (con a) c (Some p) _ Ecs) as Hcount2. cbn [con b2n] in Hcount2.
    specialize (Hco a). unfold refs in Hco. rewrite Hp in Hcount. lia.
Qed.

Lemma cnt_iter_inc n p h a : cnt (Nat.iter n (h_inc p) h) a = cnt h a + n * b2n (on a p).
Proof. induction n as [|n IH]; simpl; [lia|]. rewrite cnt_inc, IH. lia. Qed.

Lemma next_iter_inc n p h : next (Nat.iter n (h_inc p) h) = next h.
Proof. induction n as [|n IH]; simpl; [reflexivity|]. now rewrite next_inc. Qed.

(** paying all debts on [p] moves them into the count: invisible to the specification *)
Lemma sim_pay_all p s i : R s i -> R s (pay_all p i).
Proof.
  intros HR. unfold pay_all.
  destruct HR as [Hc Hh Hn Hcnt Hsl Hv Hco Hfr].
  constructor; simp_st; auto.
  - now rewrite next_dec, next_iter_inc, next_inc.
  - intros a. unfold debts in *. simp_st. rewrite cnt_dec, cnt_iter_inc, cnt_inc. specialize (Hcnt a).
    pose proof (@count_map_false _ (debt_on p) (con a) (fun x => if debt_on p x then None else x) (i_slots i)) as Hm.
    assert (Hf : forall x, con a (if debt_on p x then None else x) = (con a x && negb (debt_on p x))%bool).
    { intros x. destruct (debt_on p x); cbn; [now rewrite andb_false_r | now rewrite andb_true_r]. }
    specialize (Hm Hf).
    destruct (on a p) eqn:E; cbn [b2n].
    + apply on_true in E. subst p.
      assert (He : count (fun x => con a x && debt_on (Some a) x)%bool (i_slots i) = count (con a) (i_slots i)).
      { apply count_ext. intros x. rewrite <- con_debt_on. apply andb_diag. }
      assert (He2 : count (debt_on (Some a)) (i_slots i) = count (con a) (i_slots i)).
      { apply count_ext. intros x. symmetry. apply con_debt_on. }
      rewrite He in Hm. rewrite He2. lia.
    + assert (He : count (fun x => con a x && debt_on p x)%bool (i_slots i) = 0).
      { apply count_zero. intros j x _. destruct (con a x) eqn:E1; [|reflexivity]. cbn.
        destruct (debt_on p x) eqn:E2; [|reflexivity]. exfalso.
        apply debt_on_true in E2. subst x. cbn in E1. congruence. }
      lia.
  - now apply slot_inv_clear.
Qed.

Lemma sim_wait st p s i : R s i -> R s (wait_for_readers st p i).
Proof. intros HR. destruct st; cbn [wait_for_readers]; [now apply sim_pay_all|exact HR]. Qed.

Lemma sim_new_cont c r s i : R s i -> R (q_new_cont c r s) (p_new_cont c r i).
Proof.
  intros HR. unfold q_new_cont, p_new_cont. rewrite <- (R_cont HR), <- (R_hand HR).
  destruct (get_val (shape i) r) as [p|] eqn:Ev; [|exact HR].
  destruct (reg_empty (i_cont i) c) eqn:Ec; [|exact HR]. apply reg_empty_iff in Ec.
  apply get_val_shape in Ev. destruct Ev as (h & Hr & Hg & Hp).
  assert (Hs : nth_error (s_hand s) r = Some (erase (Some h))) by (rewrite (spec_nth r HR), Hr; reflexivity).
  pose proof (R_val HR _ Hr Hg) as Hd.
  assert (Ecs : nth_error (s_cont s) c = Some None) by (rewrite <- (R_cont HR); exact Ec).
  destruct HR as [Hc Hh Hn Hcnt Hsl Hv Hco Hfr].
  constructor; simp_st; auto.
  - now rewrite Hc.
  - rewrite map_set_nth, Hh. reflexivity.
  - eapply slot_inv_unkeyed; eauto. intros j Hj. congruence.
  - now apply R_val_remove.
  - intros a. unfold refs. simp_st.
    pose proof (count_set_nth (shon a) r None _ Hs) as Hcount. cbn [shon erase sh_ptr b2n] in Hcount.
    pose proof (count_set_nth (con a) c (Some p) _ Ecs) as Hcount2. cbn [con b2n] in Hcount2.
    specialize (Hco a). unfold refs in Hco. rewrite Hp in Hcount. lia.
Qed.

Lemma sim_take_cont c r s i : R s i -> R (q_take_cont c r s) (p_take_cont c r i).
Proof.
  intros HR. unfold q_take_cont, p_take_cont. rewrite <- (R_cont HR), <- (R_hand HR), reg_empty_sh.
  destruct (get_cont (i_cont i) c) as [p|] eqn:Ec; [|exact HR].
  destruct (reg_empty (i_hand i) r) eqn:He; [|exact HR]. apply reg_empty_iff in He.
  apply get_cont_some in Ec.
  assert (Hs : nth_error (s_hand s) r = Some None) by (rewrite (spec_nth r HR), He; reflexivity).
  assert (Ecs : nth_error (s_cont s) c = Some (Some p)) by (rewrite <- (R_cont HR); exact Ec).
  destruct HR as [Hc Hh Hn Hcnt Hsl Hv Hco Hfr].
  constructor; simp_st; auto.
  - now rewrite Hc.
  - rewrite map_set_nth, Hh. reflexivity.
  - now apply slot_inv_fill.
  - apply R_val_set; auto.
  - intros a. unfold refs. simp_st.
    pose proof (count_set_nth (shon a) r (val_h p) _ Hs) as Hcount. cbn [shon val_h sh_ptr b2n] in Hcount.
    pose proof (count_set_nth (con a) c None _ Ecs) as Hcount2. cbn [con b2n] in Hcount2.
    specialize (Hco a). unfold refs in Hco. lia.
Qed.

Lemma sim_move r r' s i : R s i -> R (q_move r r' s) (p_move r r' i).
Proof.
  intros HR. unfold q_move, p_move. rewrite (spec_nth r HR), <- (R_hand HR), reg_empty_sh.
  destruct (nth_error (i_hand i) r) as [[h|]|] eqn:Hr; cbn [option_map erase]; try exact HR.
  destruct (reg_empty (i_hand i) r') eqn:He; [|exact HR]. apply reg_empty_iff in He.
  assert (Hs : nth_error (s_hand s) r = Some (erase (Some h))) by (rewrite (spec_nth r HR), Hr; reflexivity).
  assert (Hs' : nth_error (s_hand s) r' = Some None) by (rewrite (spec_nth r' HR), He; reflexivity).
  assert (Hne : r <> r') by (intros ->; congruence).
  destruct HR as [Hc Hh Hn Hcnt Hsl Hv Hco Hfr].
  constructor; simp_st; auto.
  - rewrite !map_set_nth, Hh. reflexivity.
  - now apply slot_inv_move.
  - apply R_val_remove; [exact h|]. apply R_val_set; auto. intros Hg. eapply Hv; eauto.
  - intros a. unfold refs. simp_st.
    pose proof (count_set_nth (shon a) r' (erase (Some h)) _ Hs') as Hcount. cbn [shon erase sh_ptr b2n] in Hcount.
    assert (Hs2 : nth_error (set_nth r' (erase (Some h)) (s_hand s)) r = Some (erase (Some h))).
    { rewrite nth_set_nth_other by congruence. exact Hs. }
    pose proof (count_set_nth (shon a) r None _ Hs2) as Hcount2. cbn [shon erase sh_ptr b2n] in Hcount2.
    specialize (Hco a). unfold refs in Hco. cbn [erase] in *. lia.
Qed.

(** ** API calls: compositions of small transitions *)
Definition q_drop_cur (cu : cur) (s : sstate) : sstate :=
  match cu with CurGuardVal r' => q_drop r' s | _ => s end.

Definition q_hybrid_cas (c : nat) (cu : cur) (r : nat) (s : sstate) : sstate :=
  let s1 := q_load c T1 s in
  if negb (ptr_eqb (hptr s1 T1) (raw_of s1 cu))
  then q_drop_cur cu (q_move T1 r (q_drop r s1))
  else q_drop_cur cu (q_move T1 r (q_drop r (q_exch c r s1))).

Definition q_rw_cas (c : nat) (cu : cur) (r : nat) (s : sstate) : sstate :=
  if ptr_eqb (stored s c) (raw_of s cu)
  then q_drop_cur cu (q_from_inner r (q_exch c r s))
  else q_drop_cur cu (q_move T1 r (q_drop r (q_load c T1 s))).

Definition q_cas (st : strategy) (c : nat) (cu : cur) (r : nat) (s : sstate) : sstate :=
  match st with Hybrid _ => q_hybrid_cas c cu r s | RwLock => q_rw_cas c cu r s end.

Fixpoint q_rcu (fuel : nat) (st : strategy) (c src dst : nat) (s : sstate) : sstate :=
  match fuel with
  | O => s
  | S fuel' =>
      let s2 := q_clone src dst s in
      let s3 := q_cas st c (CurGuardRef T2) dst s2 in
      if ptr_eqb (hptr s3 T2) (hptr s3 dst)
      then q_drop T2 (q_into_inner dst s3)
      else q_rcu fuel' st c src dst (q_move dst T2 (q_drop T2 s3))
  end.

Definition q_do (st : strategy) (s : sstate) (o : op) : sstate :=
  match o with
  | OAlloc r => q_alloc r s
  | ONull r => q_null r s
  | OClone src dst => q_clone src dst s
  | ODrop r => q_drop r s
  | ONew c r => q_new_cont c r s
  | OFromPointee c => q_new_cont c T1 (q_alloc T1 s)
  | OEmpty c => q_new_cont c T1 (q_null T1 s)
  | OLoad c dst => q_load c dst s
  | OLoadFull c dst => q_into_inner dst (q_load c dst s)
  | OGuardInto r => q_into_inner r s
  | OGuardFrom r => q_from_inner r s
  | OStore c r => q_drop r (q_exch c r s)
  | OSwap c r => q_exch c r s
  | OCas c cu r => q_cas st c cu r s
  | ORcu c src dst => q_rcu 2 st c src dst (q_load c T2 s)
  | OIntoInner c dst => q_take_cont c dst s
  | ODropC c => q_drop T1 (q_take_cont c T1 s)
  end.

Lemma R_i_ptr s i r : R s i -> i_ptr i r = hptr s r.
Proof. intros HR. unfold i_ptr, hptr. now rewrite (R_hand HR). Qed.
Lemma R_raw s i cu : R s i -> raw_i i cu = raw_of s cu.
Proof. intros HR. unfold raw_i, raw_of. now rewrite (R_hand HR). Qed.
Lemma R_stored s i c : R s i -> i_stored i c = stored s c.
Proof. intros HR. unfold i_stored, stored. now rewrite (R_cont HR). Qed.

Lemma sim_drop_cur cu s i : R s i -> R (q_drop_cur cu s) (drop_cur cu i).
Proof. intros HR. destruct cu; cbn [q_drop_cur drop_cur]; auto using sim_drop. Qed.

Lemma sim_cas st c cu r s i : R s i -> R (q_cas st c cu r s) (api_cas st c cu r i).
Proof.
  intros HR. destruct st as [fast|]; cbn [q_cas api_cas].
  - unfold q_hybrid_cas, hybrid_cas.
    pose proof (sim_load (Hybrid fast) c T1 HR) as H1.
    rewrite (R_i_ptr T1 H1), (R_raw cu H1).
    destruct (negb (ptr_eqb (hptr (q_load c T1 s) T1) (raw_of (q_load c T1 s) cu))).
    + apply sim_drop_cur, sim_move, sim_drop, H1.
    + apply sim_drop_cur, sim_move, sim_drop. unfold p_wait_h. apply sim_wait. apply sim_exch, H1.
  - unfold q_rw_cas, rw_cas. rewrite (R_stored c HR), (R_raw cu HR).
    destruct (ptr_eqb (stored s c) (raw_of s cu)).
    + apply sim_drop_cur, sim_from_inner, sim_exch, HR.
    + apply sim_drop_cur, sim_move, sim_drop, sim_load, HR.
Qed.

Lemma sim_rcu fuel st c src dst s i : R s i -> R (q_rcu fuel st c src dst s) (api_rcu fuel st c src dst i).
Proof.
  revert s i. induction fuel as [|fuel IH]; intros s i HR; cbn [q_rcu api_rcu]; [exact HR|].
  pose proof (sim_cas st c (CurGuardRef T2) dst (sim_clone src dst HR)) as H3.
  rewrite !(R_i_ptr _ H3).
  destruct (ptr_eqb _ _).
  - apply sim_drop, sim_into_inner, H3.
  - apply IH, sim_move, sim_drop, H3.
Qed.

Lemma sim_do st o s i : R s i -> R (q_do st s o) (impl_do st i o).
Proof.
  intros HR. destruct o; cbn [q_do impl_do];
    auto using sim_alloc, sim_null, sim_clone, sim_drop, sim_new_cont, sim_load, sim_into_inner,
               sim_from_inner, sim_cas, sim_take_cont.
  - apply sim_drop. unfold api_swap, p_wait_h. apply sim_wait, sim_exch, HR.
  - unfold api_swap, p_wait_h. apply sim_wait, sim_exch, HR.
  - apply sim_rcu, sim_load, HR.
  - apply sim_take_cont. unfold p_wait_c. apply sim_wait, HR.
  - apply sim_drop, sim_take_cont. unfold p_wait_c. apply sim_wait, HR.
Qed.

(** ** The compositions are the specification's one-line meanings (reasoning on the specification only) *)
Definition seqv (s s' : sstate) : Prop :=
  s_cont s = s_cont s' /\ s_hand s = s_hand s' /\ next (s_heap s) = next (s_heap s') /\
  forall a, cnt (s_heap s) a = cnt (s_heap s') a.

Lemma R_seqv s s' i : R s i -> seqv s s' -> R s' i.
Proof.
  intros [Hc Hh Hn Hcnt Hsl Hv Hco Hfr] (E1 & E2 & E3 & E4).
  constructor.
  - congruence.
  - congruence.
  - congruence.
  - intros a. rewrite <- E4. apply Hcnt.
  - exact Hsl.
  - exact Hv.
  - intros a. unfold refs. rewrite <- E4, <- E1, <- E2. apply Hco.
  - intros a Ha. rewrite <- E4. apply Hfr. lia.
Qed.

Lemma isSome_val hs r : isSome (get_val hs r) = true -> exists p, nth_error hs r = Some (Some (mkSH false p)).
Proof. unfold get_val. destruct (nth_error hs r) as [[[[|] p]|]|]; cbn; try discriminate. eauto. Qed.
Lemma isSome_guard hs r : isSome (get_guard hs r) = true -> exists p, nth_error hs r = Some (Some (mkSH true p)).
Proof. unfold get_guard. destruct (nth_error hs r) as [[[[|] p]|]|]; cbn; try discriminate. eauto. Qed.
Lemma isSome_any hs r : isSome (get_any hs r) = true -> exists g p, nth_error hs r = Some (Some (mkSH g p)).
Proof. unfold get_any. destruct (nth_error hs r) as [[[g p]|]|]; cbn; try discriminate. eauto. Qed.
Lemma isSome_cont cs c : isSome (get_cont cs c) = true -> exists p, nth_error cs c = Some (Some p).
Proof. unfold get_cont. destruct (nth_error cs c) as [[p|]|]; cbn; try discriminate. eauto. Qed.

Ltac valid_facts :=
  repeat match goal with
  | H : (_ && _)%bool = true |- _ => apply andb_prop in H; destruct H
  | H : dst_free _ _ = true |- _ => unfold dst_free in H
  | H : Nat.leb 2 _ = true |- _ => apply Nat.leb_le in H
  | H : reg_empty _ _ = true |- _ => apply reg_empty_iff in H
  | H : isSome (get_val _ _) = true |- _ => apply isSome_val in H; destruct H as [? H]
  | H : isSome (get_guard _ _) = true |- _ => apply isSome_guard in H; destruct H as [? H]
  | H : isSome (get_any _ _) = true |- _ => apply isSome_any in H; destruct H as (? & ? & H)
  | H : isSome (get_cont _ _) = true |- _ => apply isSome_cont in H; destruct H as [? H]
  | H : negb (Nat.eqb _ _) = true |- _ => apply negb_true_iff, Nat.eqb_neq in H
  end.

Ltac decide_eqb :=
  repeat match goal with
  | |- context [Nat.eqb ?x ?y] => destruct (Nat.eqb_spec x y); subst; try congruence; try (exfalso; lia)
  end.

Ltac look :=
  repeat match goal with
  | H : nth_error ?l ?r = _ |- context [nth_error ?l ?r] => rewrite H
  end.

(** solves [nth_error (set_nth .. (set_nth .. l)) r = Some x] from the hypotheses about [l] *)
Ltac regs :=
  unfold T1, T2 in *; cbn [val_h guard_h];
  repeat (rewrite nth_set_nth || look); decide_eqb; repeat (rewrite nth_set_nth || look);
  try reflexivity; try eassumption; try congruence.

Section Effects.
  Variables (h : heap) (cs : list (option ptr)) (hs : list (option shandle)).
  Local Notation s := (mkSS h cs hs).

  Lemma q_alloc_eff r : nth_error hs r = Some None ->
    q_alloc r s = mkSS (snd (h_alloc h)) cs (set_nth r (val_h (Some (next h))) hs).
  Proof. intros H. unfold q_alloc, reg_empty. cbn [s_hand]. now rewrite H. Qed.
  Lemma q_null_eff r : nth_error hs r = Some None -> q_null r s = mkSS h cs (set_nth r (val_h None) hs).
  Proof. intros H. unfold q_null, reg_empty. cbn [s_hand]. now rewrite H. Qed.
  Lemma q_clone_eff src dst p : nth_error hs src = Some (Some (mkSH false p)) -> nth_error hs dst = Some None ->
    q_clone src dst s = mkSS (h_inc p h) cs (set_nth dst (val_h p) hs).
  Proof. intros H1 H2. unfold q_clone, get_val, reg_empty. cbn [s_hand]. now rewrite H1, H2. Qed.
  Lemma q_load_eff c dst p : nth_error cs c = Some (Some p) -> nth_error hs dst = Some None ->
    q_load c dst s = mkSS (h_inc p h) cs (set_nth dst (guard_h p) hs).
  Proof. intros H1 H2. unfold q_load, get_cont, reg_empty. cbn [s_hand s_cont]. now rewrite H1, H2. Qed.
  Lemma q_drop_eff r g p : nth_error hs r = Some (Some (mkSH g p)) ->
    q_drop r s = mkSS (h_dec p h) cs (set_nth r None hs).
  Proof. intros H. unfold q_drop. cbn [s_hand]. now rewrite H. Qed.
  Lemma q_into_inner_eff r p : nth_error hs r = Some (Some (mkSH true p)) ->
    q_into_inner r s = mkSS h cs (set_nth r (val_h p) hs).
  Proof. intros H. unfold q_into_inner. cbn [s_hand]. now rewrite H. Qed.
  Lemma q_from_inner_eff r p : nth_error hs r = Some (Some (mkSH false p)) ->
    q_from_inner r s = mkSS h cs (set_nth r (guard_h p) hs).
  Proof. intros H. unfold q_from_inner, get_val. cbn [s_hand]. now rewrite H. Qed.
  Lemma q_exch_eff c r old p : nth_error cs c = Some (Some old) -> nth_error hs r = Some (Some (mkSH false p)) ->
    q_exch c r s = mkSS h (set_nth c (Some p) cs) (set_nth r (val_h old) hs).
  Proof. intros H1 H2. unfold q_exch, get_cont, get_val. cbn [s_hand s_cont]. now rewrite H1, H2. Qed.
  Lemma q_new_cont_eff c r p : nth_error hs r = Some (Some (mkSH false p)) -> nth_error cs c = Some None ->
    q_new_cont c r s = mkSS h (set_nth c (Some p) cs) (set_nth r None hs).
  Proof. intros H1 H2. unfold q_new_cont, get_val, reg_empty. cbn [s_hand s_cont]. now rewrite H1, H2. Qed.
  Lemma q_take_cont_eff c r p : nth_error cs c = Some (Some p) -> nth_error hs r = Some None ->
    q_take_cont c r s = mkSS h (set_nth c None cs) (set_nth r (val_h p) hs).
  Proof. intros H1 H2. unfold q_take_cont, get_cont, reg_empty. cbn [s_hand s_cont]. now rewrite H1, H2. Qed.
  Lemma q_move_eff r r' x : nth_error hs r = Some (Some x) -> nth_error hs r' = Some None ->
    q_move r r' s = mkSS h cs (set_nth r None (set_nth r' (Some x) hs)).
  Proof. intros H1 H2. unfold q_move, reg_empty. cbn [s_hand]. now rewrite H1, H2. Qed.
  Lemma hptr_eff r g p : nth_error hs r = Some (Some (mkSH g p)) -> hptr s r = p.
  Proof. intros H. unfold hptr, get_any. cbn [s_hand]. now rewrite H. Qed.
  Lemma stored_eff c p : nth_error cs c = Some (Some p) -> stored s c = p.
  Proof. intros H. unfold stored, get_cont. cbn [s_cont]. now rewrite H. Qed.
End Effects.

Lemma as_raw_fill n x hs cu p :
  nth_error hs n = Some None -> as_raw hs cu = Some p -> as_raw (set_nth n x hs) cu = Some p.
Proof.
  intros Hn. destruct cu; cbn [as_raw]; auto; unfold get_val, get_guard, get_any; rewrite nth_set_nth;
    destruct (Nat.eqb_spec n r) as [->|]; auto; rewrite Hn; discriminate.
Qed.

Lemma isSome_ex A (o : option A) : isSome o = true -> exists x, o = Some x.
Proof. destruct o; [eauto|discriminate]. Qed.

Ltac seqv_goal :=
  lazymatch goal with
  | |- forall a, _ => intros a; cbn [cnt]; repeat (rewrite cnt_inc || rewrite cnt_dec); try lia
  | |- @eq nat _ _ => cbn [next]; repeat (rewrite next_inc || rewrite next_dec); reflexivity
  | |- @eq (list _) _ _ => try reflexivity; apply list_ext; intros n; regs
  end.
Ltac seqv_done := unfold seqv; simp_st; (split; [|split; [|split]]); seqv_goal.

Lemma raw_of_eff h cs hs cu p : as_raw hs cu = Some p -> raw_of (mkSS h cs hs) cu = p.
Proof. intros H. unfold raw_of. cbn [s_hand]. now rewrite H. Qed.

Lemma get_guard_nth hs r p : get_guard hs r = Some p -> nth_error hs r = Some (Some (mkSH true p)).
Proof. unfold get_guard. destruct (nth_error hs r) as [[[[|] q]|]|]; cbn; congruence. Qed.

Lemma q_do_spec_cas st c cu r s :
  valid (s_cont s) (s_hand s) (OCas c cu r) = true -> seqv (q_do st s (OCas c cu r)) (fst (spec_do s (OCas c cu r))).
Proof.
  intros Hv. unfold valid in Hv. destruct s as [h cs hs]. simp_st. unfold T1, T2 in *.
  valid_facts.
  match goal with H : isSome (as_raw _ _) = true |- _ => apply isSome_ex in H; destruct H as [praw Hraw] end.
  assert (Hraw1 : forall x, as_raw (set_nth 0 x hs) cu = Some praw) by (intros; eapply as_raw_fill; eassumption).
  destruct st as [fast|]; destruct cu; cbn [q_do q_cas spec_do fst];
  rewrite ?(@raw_of_eff h cs _ _ _ Hraw);
  erewrite ?(stored_eff h _ hs) by eassumption;
  erewrite ?(hptr_eff h cs hs r) by eassumption;
  cbn [as_raw cur_reg] in *; valid_facts;
  try (pose proof (get_guard_nth _ _ Hraw) as Hg).
  all: try (unfold q_hybrid_cas; erewrite q_load_eff by regs; erewrite hptr_eff by regs;
            erewrite raw_of_eff by (unfold T1; cbn [as_raw]; first [exact (Hraw1 None) | apply Hraw1]);
            destruct (ptr_eqb _ praw) eqn:Eq; cbn [negb];
            [ erewrite q_exch_eff by regs; erewrite q_drop_eff by regs; erewrite q_move_eff by regs
            | erewrite q_drop_eff by regs; erewrite q_move_eff by regs ]).
  all: try (unfold q_rw_cas; erewrite (stored_eff h _ hs) by eassumption; erewrite raw_of_eff by (cbn [as_raw]; exact Hraw);
            destruct (ptr_eqb _ praw) eqn:Eq;
            [ erewrite q_exch_eff by regs; erewrite q_from_inner_eff by regs
            | erewrite q_load_eff by regs; erewrite q_drop_eff by regs; erewrite q_move_eff by regs ]).
  all: cbn [q_drop_cur]; try (erewrite q_drop_eff by regs); try (erewrite (hptr_eff h cs hs) by eassumption).
  all: seqv_done.
Qed.

Lemma ptr_eqb_refl p : ptr_eqb p p = true.
Proof. now apply ptr_eqb_eq. Qed.

Ltac chain :=
  repeat first
    [ erewrite q_alloc_eff by regs | erewrite q_null_eff by regs | erewrite q_clone_eff by regs
    | erewrite q_load_eff by regs | erewrite q_drop_eff by regs | erewrite q_into_inner_eff by regs
    | erewrite q_from_inner_eff by regs | erewrite q_exch_eff by regs | erewrite q_new_cont_eff by regs
    | erewrite q_take_cont_eff by regs | erewrite q_move_eff by regs ].

Lemma q_do_spec_rcu st c src dst s :
  valid (s_cont s) (s_hand s) (ORcu c src dst) = true -> seqv (q_do st s (ORcu c src dst)) (fst (spec_do s (ORcu c src dst))).
Proof.
  intros Hv. unfold valid in Hv. destruct s as [h cs hs]. simp_st. unfold T1, T2 in *.
  valid_facts.
  cbn [q_do spec_do fst q_rcu].
  erewrite ?(stored_eff h _ hs) by eassumption;
  erewrite ?(hptr_eff h cs hs src) by eassumption.
  erewrite q_load_eff by regs. erewrite q_clone_eff by regs.
  destruct st as [fast|]; cbn [q_cas].
  - unfold q_hybrid_cas. erewrite q_load_eff by regs. erewrite hptr_eff by regs.
    erewrite raw_of_eff by (cbn [as_raw]; unfold get_guard; regs).
    cbn [sh_guard sh_ptr]. rewrite ptr_eqb_refl. cbn [negb q_drop_cur].
    erewrite q_exch_eff by regs. erewrite q_drop_eff by regs. erewrite q_move_eff by regs.
    erewrite !hptr_eff by regs. rewrite ptr_eqb_refl.
    erewrite q_into_inner_eff by regs. erewrite q_drop_eff by regs. seqv_done.
  - unfold q_rw_cas. erewrite stored_eff by regs.
    erewrite raw_of_eff by (cbn [as_raw]; unfold get_guard; regs).
    cbn [sh_guard sh_ptr]. rewrite ptr_eqb_refl. cbn [q_drop_cur].
    erewrite q_exch_eff by regs. erewrite q_from_inner_eff by regs.
    erewrite !hptr_eff by regs. rewrite ptr_eqb_refl.
    erewrite q_into_inner_eff by regs. erewrite q_drop_eff by regs. seqv_done.
Qed.

Lemma q_do_spec st o s :
  valid (s_cont s) (s_hand s) o = true -> seqv (q_do st s o) (fst (spec_do s o)).
Proof.
  destruct o; try apply q_do_spec_cas; try apply q_do_spec_rcu;
  intros Hv; unfold valid in Hv; destruct s as [h cs hs]; simp_st; unfold T1, T2 in *; valid_facts;
  cbn [q_do spec_do fst];
  erewrite ?(stored_eff h _ hs) by eassumption;
  erewrite ?(hptr_eff h cs hs) by eassumption;
  chain; unfold h_alloc; cbn [fst snd]; seqv_done.
Qed.

(** ** Results *)
Definition result_of (before after : sstate) (o : op) : result :=
  match o with
  | OAlloc r | ONull r | OGuardInto r | OGuardFrom r | OSwap _ r => RPtr (hptr after r)
  | OClone _ dst | OLoad _ dst | OLoadFull _ dst | ORcu _ _ dst | OIntoInner _ dst => RPtr (hptr after dst)
  | OFromPointee c | OEmpty c => RPtr (stored after c)
  | OCas c cu r => RCas (hptr after r) (ptr_eqb (hptr after r) (raw_of before cu))
  | ODrop _ | ONew _ _ | OStore _ _ | ODropC _ => RUnit
  end.

Lemma impl_result_R s i s' i' o : R s i -> R s' i' -> impl_result i i' o = result_of s s' o.
Proof.
  intros HR HR'. destruct o; cbn [impl_result result_of];
    rewrite ?(R_i_ptr _ HR'), ?(R_stored _ HR'), ?(R_raw _ HR); reflexivity.
Qed.

Lemma spec_result o s :
  valid (s_cont s) (s_hand s) o = true -> snd (spec_do s o) = result_of s (fst (spec_do s o)) o.
Proof.
  intros Hv. unfold valid in Hv. destruct s as [h cs hs]. simp_st. unfold T1, T2 in *.
  destruct o; valid_facts; cbn [spec_do fst snd result_of]; unfold h_alloc; cbn [fst snd];
    erewrite ?(stored_eff h _ hs) by eassumption;
    erewrite ?(hptr_eff h cs hs) by eassumption;
    try reflexivity; try (unfold hptr, stored, get_any, get_cont; simp_st; regs; fail).
  (* compare_and_swap *)
  match goal with H : isSome (as_raw _ _) = true |- _ => apply isSome_ex in H; destruct H as [praw Hraw] end.
  rewrite (@raw_of_eff h cs _ _ _ Hraw).
  destruct cu; cbn [as_raw cur_reg] in *; valid_facts; try (pose proof (get_guard_nth _ _ Hraw) as Hg);
    destruct (ptr_eqb x0 praw) eqn:Eq; unfold hptr, get_any; simp_st; regs; cbn [guard_h sh_ptr]; rewrite ?Eq; reflexivity.
Qed.

(** ** One step, whole programs *)
Theorem step_refines st o s i :
  R s i ->
  R (fst (spec_step s o)) (fst (impl_step st i o)) /\ snd (spec_step s o) = snd (impl_step st i o).
Proof.
  intros HR. unfold spec_step, impl_step. rewrite (R_cont HR), (R_hand HR).
  destruct (valid (s_cont s) (s_hand s) o) eqn:Hv; cbn [fst snd]; [|split; [exact HR|reflexivity]].
  assert (HR' : R (fst (spec_do s o)) (impl_do st i o)).
  { eapply R_seqv; [apply sim_do, HR | apply q_do_spec, Hv]. }
  split; [exact HR'|].
  rewrite (impl_result_R o HR HR'). now apply spec_result.
Qed.

Definition step_rel (x : result * sstate) (y : result * istate) : Prop := fst x = fst y /\ R (snd x) (snd y).

Theorem run_refines st prog : forall s i,
  R s i -> Forall2 step_rel (run_spec prog s) (run_impl st prog i).
Proof.
  induction prog as [|o rest IH]; intros s i HR; cbn [run_spec run_impl]; [constructor|].
  destruct (step_refines st o HR) as [HR' Hres].
  destruct (spec_step s o) as [s' rs]. destruct (impl_step st i o) as [i' ri]. cbn [fst snd] in *.
  constructor; [split; assumption | apply IH, HR'].
Qed.

Lemma count_repeat_none A (P : option A -> bool) n : P None = false -> count P (repeat None n) = 0.
Proof.
  intros HP. apply count_zero. intros j x Hj. apply nth_error_In, repeat_spec in Hj. now subst.
Qed.

Lemma map_repeat_none n : map erase (repeat None n) = repeat None n.
Proof. induction n; cbn; congruence. Qed.

Lemma R_init nc nh : R (s_init nc nh) (i_init nc nh).
Proof.
  unfold s_init, i_init. constructor; simp_st.
  - reflexivity.
  - apply map_repeat_none.
  - reflexivity.
  - intros a. unfold debts. simp_st. rewrite count_repeat_none; reflexivity.
  - intros j p Hj. apply nth_error_In, repeat_spec in Hj. discriminate.
  - intros r h Hr. apply nth_error_In, repeat_spec in Hr. discriminate.
  - intros a. unfold refs. simp_st. rewrite !count_repeat_none; reflexivity.
  - reflexivity.
Qed.

(** ** Strategies that never borrow: no handle ever holds a debt, so no slot is ever occupied *)
Definition no_debt (i : istate) : Prop :=
  forall r h, nth_error (i_hand i) r = Some (Some h) -> h_debt h = None.

Definition owning (st : strategy) : bool :=
  match st with Hybrid true => false | _ => true end.

Lemma no_debt_set r x i i' :
  no_debt i -> i_hand i' = set_nth r x (i_hand i) -> (forall h, x = Some h -> h_debt h = None) -> no_debt i'.
Proof.
  intros Hn E Hx r' h'. rewrite E, nth_set_nth. destruct (Nat.eqb_spec r r') as [->|]; [|apply Hn].
  destruct (nth_error (i_hand i) r'); [|discriminate]. intros [= E']. now apply Hx.
Qed.

Lemma no_debt_same i i' : no_debt i -> i_hand i' = i_hand i -> no_debt i'.
Proof. intros Hn E r h. rewrite E. apply Hn. Qed.

Ltac nd_set :=
  match goal with
  | |- no_debt ?i' => first
      [ assumption
      | eapply no_debt_same; [eassumption|reflexivity]
      | eapply no_debt_set; [eassumption|reflexivity|]; let E := fresh "E" in intros ? E; try discriminate; injection E as <-; reflexivity ]
  end.

Lemma nd_alloc r i : no_debt i -> no_debt (p_alloc r i).
Proof. intros H. unfold p_alloc. destruct (reg_empty _ _); [|exact H]. unfold h_alloc. nd_set. Qed.
Lemma nd_null r i : no_debt i -> no_debt (p_null r i).
Proof. intros H. unfold p_null. destruct (reg_empty _ _); [|exact H]. nd_set. Qed.
Lemma nd_clone a b i : no_debt i -> no_debt (p_clone a b i).
Proof. intros H. unfold p_clone. destruct (get_val _ _); [|exact H]. destruct (reg_empty _ _); [|exact H]. nd_set. Qed.
Lemma nd_load st c d i : owning st = true -> no_debt i -> no_debt (p_load st c d i).
Proof.
  intros Ho H. unfold p_load. destruct (get_cont _ _); [|exact H]. destruct (reg_empty _ _); [|exact H].
  destruct st as [[|]|]; try discriminate; nd_set.
Qed.
Lemma nd_drop r i : no_debt i -> no_debt (p_drop r i).
Proof.
  intros H. unfold p_drop. destruct (nth_error (i_hand i) r) as [[h|]|] eqn:E; try exact H.
  rewrite (H r h E). nd_set.
Qed.
Lemma nd_into_inner r i : no_debt i -> no_debt (p_into_inner r i).
Proof.
  intros H. unfold p_into_inner. destruct (nth_error (i_hand i) r) as [[h|]|] eqn:E; try exact H.
  destruct (h_guard h); [|exact H]. rewrite (H r h E). nd_set.
Qed.
Lemma nd_from_inner r i : no_debt i -> no_debt (p_from_inner r i).
Proof. intros H. unfold p_from_inner. destruct (get_val _ _); [|exact H]. nd_set. Qed.
Lemma nd_exch c r i : no_debt i -> no_debt (p_exch c r i).
Proof. intros H. unfold p_exch. destruct (get_cont _ _); [|exact H]. destruct (get_val _ _); [|exact H]. nd_set. Qed.
Lemma nd_wait st p i : no_debt i -> no_debt (wait_for_readers st p i).
Proof. intros H. destruct st; cbn [wait_for_readers]; [unfold pay_all|]; nd_set. Qed.
Lemma nd_new_cont c r i : no_debt i -> no_debt (p_new_cont c r i).
Proof. intros H. unfold p_new_cont. destruct (get_val _ _); [|exact H]. destruct (reg_empty _ _); [|exact H]. nd_set. Qed.
Lemma nd_take_cont c r i : no_debt i -> no_debt (p_take_cont c r i).
Proof. intros H. unfold p_take_cont. destruct (get_cont _ _); [|exact H]. destruct (reg_empty _ _); [|exact H]. nd_set. Qed.
Lemma nd_move r r' i : no_debt i -> no_debt (p_move r r' i).
Proof.
  intros H. unfold p_move. destruct (nth_error (i_hand i) r) as [[h|]|] eqn:E; try exact H.
  destruct (reg_empty _ _); [|exact H].
  intros r0 h0. cbn [set_hand i_hand]. rewrite !nth_set_nth.
  destruct (Nat.eqb_spec r r0) as [->|].
  - destruct (if r' =? r0 then _ else _); discriminate.
  - destruct (Nat.eqb_spec r' r0) as [->|]; [|apply H].
    destruct (nth_error (i_hand i) r0); [|discriminate]. intros [= <-]. eapply H; eauto.
Qed.
Lemma nd_drop_cur cu i : no_debt i -> no_debt (drop_cur cu i).
Proof. intros H. destruct cu; cbn [drop_cur]; auto using nd_drop. Qed.

Lemma nd_cas st c cu r i : owning st = true -> no_debt i -> no_debt (api_cas st c cu r i).
Proof.
  intros Ho H. destruct st as [fast|]; cbn [api_cas].
  - unfold hybrid_cas. destruct (negb _).
    + apply nd_drop_cur, nd_move, nd_drop, nd_load; auto.
    + apply nd_drop_cur, nd_move, nd_drop. unfold p_wait_h. apply nd_wait, nd_exch, nd_load; auto.
  - unfold rw_cas. destruct (ptr_eqb _ _).
    + apply nd_drop_cur, nd_from_inner, nd_exch, H.
    + apply nd_drop_cur, nd_move, nd_drop, nd_load; auto.
Qed.

Lemma nd_rcu fuel st c src dst i : owning st = true -> no_debt i -> no_debt (api_rcu fuel st c src dst i).
Proof.
  intros Ho. revert i. induction fuel as [|fuel IH]; intros i H; cbn [api_rcu]; [exact H|].
  destruct (ptr_eqb _ _).
  - apply nd_drop, nd_into_inner, nd_cas, nd_clone, H; auto.
  - apply IH, nd_move, nd_drop, nd_cas, nd_clone, H; auto.
Qed.

Lemma nd_do st o i : owning st = true -> no_debt i -> no_debt (impl_do st i o).
Proof.
  intros Ho H. destruct o; cbn [impl_do];
    auto using nd_alloc, nd_null, nd_clone, nd_drop, nd_new_cont, nd_load, nd_into_inner, nd_from_inner, nd_cas, nd_take_cont.
  - apply nd_drop. unfold api_swap, p_wait_h. apply nd_wait, nd_exch, H.
  - unfold api_swap, p_wait_h. apply nd_wait, nd_exch, H.
  - apply nd_rcu, nd_load; auto.
  - apply nd_take_cont. unfold p_wait_c. apply nd_wait, H.
  - apply nd_drop, nd_take_cont. unfold p_wait_c. apply nd_wait, H.
Qed.

Lemma nd_step st o i : owning st = true -> no_debt i -> no_debt (fst (impl_step st i o)).
Proof. intros Ho H. unfold impl_step. destruct (valid _ _ _); cbn [fst]; [now apply nd_do|exact H]. Qed.

(** with no debt held, no slot is occupied and the counts are the specification's *)
Lemma no_debt_exact s i : R s i -> no_debt i -> forall a, debts i a = 0 /\ cnt (i_heap i) a = cnt (s_heap s) a.
Proof.
  intros HR Hn a.
  assert (Hd : debts i a = 0).
  { unfold debts. apply count_zero. intros j x Hj. destruct x as [p|]; [|reflexivity].
    destruct (R_slot HR _ Hj) as (r & h & Hr & _ & Hd). rewrite (Hn r h Hr) in Hd. discriminate. }
  split; [exact Hd|]. pose proof (R_cnt HR a). lia.
Qed.

(** ** What an observer sees: the statements pinned in Props/C14.v *)

(** after a step: same result (identity returned, success of the exchange), same pointers in the
    containers, same handles denoting the same pointers, and for every object
    count_impl + unpaid debts = count_spec *)
Definition obs_rel (x : result * sstate) (y : result * istate) : Prop :=
  fst x = fst y /\
  s_cont (snd x) = i_cont (snd y) /\
  s_hand (snd x) = shape (snd y) /\
  next (s_heap (snd x)) = next (i_heap (snd y)) /\
  forall a, cnt (i_heap (snd y)) a + debts (snd y) a = cnt (s_heap (snd x)) a.

(** ... and exactly the specification's counts, no debt outstanding *)
Definition obs_exact (x : result * sstate) (y : result * istate) : Prop :=
  obs_rel x y /\ forall a, debts (snd y) a = 0 /\ cnt (i_heap (snd y)) a = cnt (s_heap (snd x)) a.

Definition no_guards (s : sstate) : Prop :=
  forall r h, nth_error (s_hand s) r = Some (Some h) -> sh_guard h = false.

(** once no guard is alive the counts coincide *)
Definition obs_final (x : result * sstate) (y : result * istate) : Prop :=
  no_guards (snd x) -> forall a, debts (snd y) a = 0 /\ cnt (i_heap (snd y)) a = cnt (s_heap (snd x)) a.

(** no count of the implementation model is ever decremented below the references that rely on it *)
Definition obs_safe (x : result * sstate) (y : result * istate) : Prop :=
  let i := snd y in
  (forall c a, nth_error (i_cont i) c = Some (Some (Some a)) -> 1 <= cnt (i_heap i) a) /\
  (forall r h a, nth_error (i_hand i) r = Some (Some h) -> h_ptr h = Some a ->
     (forall j, h_debt h = Some j -> nth_error (i_slots i) j <> Some (Some (Some a))) -> 1 <= cnt (i_heap i) a).

Lemma Forall2_weaken A B (P Q : A -> B -> Prop) l1 l2 :
  (forall a b, P a b -> Q a b) -> Forall2 P l1 l2 -> Forall2 Q l1 l2.
Proof. intros H F. induction F; constructor; auto. Qed.

Lemma R_obs_rel r s i : R s i -> obs_rel (r, s) (r, i).
Proof.
  intros HR. unfold obs_rel. cbn [fst snd]. repeat split.
  - symmetry. apply (R_cont HR).
  - symmetry. apply (R_hand HR).
  - symmetry. apply (R_next HR).
  - apply (R_cnt HR).
Qed.

Lemma step_rel_obs x y : step_rel x y -> obs_rel x y.
Proof. destruct x as [r s], y as [r' i]. intros [E HR]. cbn [fst snd] in *. subst r'. now apply R_obs_rel. Qed.

Theorem refines_spec st nc nh prog :
  Forall2 obs_rel (run_spec prog (s_init nc nh)) (run_impl st prog (i_init nc nh)).
Proof. eapply Forall2_weaken; [apply step_rel_obs|]. apply run_refines, R_init. Qed.

Lemma no_guards_no_debt s i : R s i -> no_guards s -> no_debt i.
Proof.
  intros HR Hg r h Hr. apply (R_val HR _ Hr).
  apply (Hg r (mkSH (h_guard h) (h_ptr h))). rewrite (spec_nth r HR), Hr. reflexivity.
Qed.

Theorem final_counts st nc nh prog :
  Forall2 obs_final (run_spec prog (s_init nc nh)) (run_impl st prog (i_init nc nh)).
Proof.
  eapply Forall2_weaken; [|apply (run_refines st prog (R_init nc nh))].
  intros [r s] [r' i] [_ HR] Hg. cbn [fst snd] in *. apply no_debt_exact; [exact HR|]. eapply no_guards_no_debt; eauto.
Qed.

Theorem counts_safe st nc nh prog :
  Forall2 obs_safe (run_spec prog (s_init nc nh)) (run_impl st prog (i_init nc nh)).
Proof.
  eapply Forall2_weaken; [|apply (run_refines st prog (R_init nc nh))].
  intros [r s] [r' i] [_ HR]. cbn [fst snd] in *. split.
  - intros c a Hc. eapply R_cont_count; eauto.
  - intros r0 h a Hr Hp Hn. eapply R_handle_count; eauto.
Qed.

Lemma run_exact st prog : forall s i,
  owning st = true -> R s i -> no_debt i -> Forall2 obs_exact (run_spec prog s) (run_impl st prog i).
Proof.
  induction prog as [|o rest IH]; intros s i Ho HR Hn; cbn [run_spec run_impl]; [constructor|].
  destruct (step_refines st o HR) as [HR' Hres]. pose proof (nd_step st o Ho Hn) as Hn'.
  destruct (spec_step s o) as [s' rs]. destruct (impl_step st i o) as [i' ri]. cbn [fst snd] in *. subst ri.
  constructor; [|apply IH; assumption].
  split; [now apply R_obs_rel|]. cbn [snd]. now apply no_debt_exact.
Qed.

Lemma no_debt_init nc nh : no_debt (i_init nc nh).
Proof. intros r h Hr. cbn in Hr. apply nth_error_In, repeat_spec in Hr. discriminate. Qed.

Theorem owning_refines_exactly st nc nh prog :
  owning st = true ->
  Forall2 obs_exact (run_spec prog (s_init nc nh)) (run_impl st prog (i_init nc nh)).
Proof. intros Ho. apply run_exact; auto using R_init, no_debt_init. Qed.

(** *** compare_and_swap: success iff the stored pointer is the one [current] denotes *)
Theorem spec_cas_meaning c cu r s :
  valid (s_cont s) (s_hand s) (OCas c cu r) = true ->
  snd (spec_step s (OCas c cu r)) = RCas (stored s c) (ptr_eqb (stored s c) (raw_of s cu)) /\
  (ptr_eqb (stored s c) (raw_of s cu) = true <-> stored s c = raw_of s cu).
Proof.
  intros Hv. unfold spec_step. rewrite Hv. cbn [snd spec_do]. split; [reflexivity|apply ptr_eqb_eq].
Qed.

Theorem impl_cas_meaning st c cu r s i :
  R s i -> valid (s_cont s) (s_hand s) (OCas c cu r) = true ->
  snd (impl_step st i (OCas c cu r)) = RCas (stored s c) (ptr_eqb (stored s c) (raw_of s cu)).
Proof.
  intros HR Hv. destruct (step_refines st (OCas c cu r) HR) as [_ <-]. now apply spec_cas_meaning.
Qed.

(** every form of [current] made from a handle denotes the handle's pointer; the null forms denote null *)
Theorem as_raw_forms hs r g p :
  nth_error hs r = Some (Some (mkSH g p)) ->
  as_raw hs (CurConst r) = Some p /\ as_raw hs (CurMut r) = Some p /\
  (g = false -> as_raw hs (CurArc r) = Some p) /\
  (g = true -> as_raw hs (CurGuardRef r) = Some p /\ as_raw hs (CurGuardVal r) = Some p).
Proof.
  intros H. cbn [as_raw]. unfold get_any, get_val, get_guard. rewrite H. cbn [sh_guard sh_ptr].
  split; [reflexivity|]. split; [reflexivity|]. split; [intros ->; reflexivity|]. intros ->. split; reflexivity.
Qed.

Theorem as_raw_null hs :
  as_raw hs CurNullConst = Some None /\ as_raw hs CurNullMut = Some None /\ as_raw hs CurNone = Some None.
Proof. repeat split. Qed.
