(** * Seq.SeqSpec — C14: the sequential SPECIFICATION of a container of reference-counted pointers.

    The specification every strategy is compared with:
    - a container ([ArcSwapAny<T, S>]) is a plain variable holding an optional object identity
      ([None] = the null pointer = [Option::None] of the [Option<Arc<_>>] flavour);
    - a handle is an owned reference, whether the program holds it as a value ([Arc<T>] /
      [Option<Arc<T>>]) or as a [Guard] — the kind is remembered only because the API has different
      calls for the two ([Guard::into_inner] / [Guard::from_inner]);
    - the heap is the textbook reference-count heap [identity -> count]: creating a reference
      adds one, destroying one subtracts one, nothing else ever touches a count.
    Identities are never reused (the n-th object created by the program has identity n).

    A program is a list of [op]s over the public API of /repo/src/lib.rs (file:line cited at each
    case of [spec_do]).  Registers: containers [c], handles [r].  Handle registers 0 and 1 are
    reserved (the implementation models of Seq.SeqImpl keep the temporaries of a call there); an
    operation is refused ([RInvalid], state unchanged) when they are not empty or named as a destination, when a source
    register is empty or of the wrong kind, or when a destination is occupied or out of range —
    [valid] decides this from the shape of the state only and is shared with the implementation
    models, so that "the same program" means the same thing on both sides. *)
From Coq Require Import List Arith Lia Bool PeanoNat.
Import ListNotations.

Set Implicit Arguments.

(** ** Pointers *)
Definition ptr := option nat.           (* None = null *)

Definition ptr_eqb (p q : ptr) : bool :=
  match p, q with
  | None, None => true
  | Some a, Some b => Nat.eqb a b
  | _, _ => false
  end.

Lemma ptr_eqb_eq p q : ptr_eqb p q = true <-> p = q.
Proof.
  destruct p as [a|], q as [b|]; cbn; split; try congruence.
  - intros H. apply Nat.eqb_eq in H. now subst.
  - intros [= ->]. apply Nat.eqb_refl.
Qed.

(** does the pointer denote object [a]? *)
Definition on (a : nat) (p : ptr) : bool :=
  match p with Some b => Nat.eqb b a | None => false end.

Definition b2n (b : bool) : nat := if b then 1 else 0.

(** ** Lists: registers, counting *)
Section Lists.
  Variable A : Type.

  Fixpoint set_nth (n : nat) (x : A) (l : list A) : list A :=
    match l, n with
    | [], _ => []
    | _ :: t, O => x :: t
    | y :: t, S n' => y :: set_nth n' x t
    end.

  Lemma set_nth_length n x l : length (set_nth n x l) = length l.
  Proof. revert n; induction l as [|y t IH]; intros [|n]; cbn [set_nth length]; auto. Qed.

  Lemma nth_set_nth n m x l :
    nth_error (set_nth n x l) m =
    if Nat.eqb n m then match nth_error l m with Some _ => Some x | None => None end else nth_error l m.
  Proof.
    revert n m; induction l as [|y t IH]; intros [|n] [|m]; cbn [set_nth nth_error Nat.eqb]; try reflexivity.
    - now destruct (Nat.eqb n m).
    - apply IH.
  Qed.

  Lemma nth_set_nth_same n x l y : nth_error l n = Some y -> nth_error (set_nth n x l) n = Some x.
  Proof. intros H. now rewrite nth_set_nth, Nat.eqb_refl, H. Qed.

  Lemma nth_set_nth_other n m x l : n <> m -> nth_error (set_nth n x l) m = nth_error l m.
  Proof. intros H. rewrite nth_set_nth. apply Nat.eqb_neq in H. now rewrite H. Qed.

  Lemma list_ext (l1 l2 : list A) : (forall n, nth_error l1 n = nth_error l2 n) -> l1 = l2.
  Proof.
    revert l2; induction l1 as [|x t IH]; intros [|y u] H; try reflexivity.
    - specialize (H 0). discriminate.
    - specialize (H 0). discriminate.
    - pose proof (H 0) as H0. cbn in H0. injection H0 as ->. f_equal. apply IH. intros n. apply (H (S n)).
  Qed.

  Lemma set_nth_id n x l : nth_error l n = Some x -> set_nth n x l = l.
  Proof.
    intros H. apply list_ext. intros m. rewrite nth_set_nth.
    destruct (Nat.eqb_spec n m) as [->|]; [now rewrite H|reflexivity].
  Qed.

  Definition count (P : A -> bool) (l : list A) : nat := length (filter P l).

  Lemma count_set_nth P n x l y :
    nth_error l n = Some y -> count P (set_nth n x l) + b2n (P y) = count P l + b2n (P x).
  Proof.
    unfold count. revert n; induction l as [|z t IH]; intros [|n]; cbn [set_nth nth_error]; try discriminate.
    - intros [= ->]. cbn [filter]. destruct (P x), (P y); cbn [length b2n]; lia.
    - intros H. specialize (IH n H). cbn [filter]. destruct (P z); cbn [length]; lia.
  Qed.

  Lemma count_ext P Q l : (forall x, P x = Q x) -> count P l = count Q l.
  Proof. intros H. unfold count. f_equal. now apply filter_ext. Qed.

  Lemma count_zero P l : (forall j x, nth_error l j = Some x -> P x = false) -> count P l = 0.
  Proof.
    unfold count. induction l as [|y t IH]; intros H; [reflexivity|].
    cbn [filter]. rewrite (H 0 y eq_refl). apply IH. intros j x Hj. apply (H (S j) x Hj).
  Qed.

  Lemma count_zero_inv P l j x : count P l = 0 -> nth_error l j = Some x -> P x = false.
  Proof.
    unfold count. revert j; induction l as [|y t IH]; intros [|j]; cbn [nth_error filter]; try discriminate.
    - intros H [= ->]. destruct (P x); [discriminate|reflexivity].
    - intros H Hj. destruct (P y); [discriminate|]. eauto.
  Qed.

  Lemma count_pos P l j x : nth_error l j = Some x -> P x = true -> 1 <= count P l.
  Proof.
    unfold count. revert j; induction l as [|y t IH]; intros [|j]; cbn [nth_error]; try discriminate.
    - intros [= ->] Hp. cbn [filter]. rewrite Hp. cbn [length]. lia.
    - intros Hj Hp. cbn [filter]. specialize (IH j Hj Hp). destruct (P y); cbn [length]; lia.
  Qed.

  Lemma count_map_false P Q (f : A -> A) l :
    (forall x, Q (f x) = (Q x && negb (P x))%bool) -> count Q (map f l) + count (fun x => Q x && P x)%bool l = count Q l.
  Proof.
    intros H. unfold count. induction l as [|y t IH]; [reflexivity|].
    cbn [map filter]. rewrite H. destruct (Q y), (P y); cbn [andb negb length]; lia.
  Qed.

  (** counting by indices *)
  Definition holds_at (P : A -> bool) (l : list A) (j : nat) : bool :=
    match nth_error l j with Some x => P x | None => false end.

  Lemma count_indices P l :
    count P l = length (filter (holds_at P l) (seq 0 (length l))).
  Proof.
    unfold count. induction l as [|x t IH] using rev_ind; [reflexivity|].
    rewrite app_length. cbn [length]. rewrite Nat.add_1_r, seq_S, !filter_app, !app_length. cbn [filter plus].
    unfold holds_at at 2. rewrite nth_error_app2 by lia. rewrite Nat.sub_diag. cbn [nth_error].
    rewrite IH. f_equal.
    - f_equal. apply filter_ext_in. intros j Hj. apply in_seq in Hj. unfold holds_at.
      rewrite nth_error_app1 by lia. reflexivity.
    - now destruct (P x).
  Qed.
End Lists.

(** If every position of [la] satisfying [P] is the key of some position of [lb] satisfying [Q],
    there are at least as many of the latter (an injection, by pigeonhole). *)
Lemma count_le_by_key A B (P : A -> bool) (Q : B -> bool) (key : B -> option nat) (la : list A) (lb : list B) :
  (forall j a, nth_error la j = Some a -> P a = true ->
     exists k b, nth_error lb k = Some b /\ Q b = true /\ key b = Some j) ->
  count P la <= count Q lb.
Proof.
  intros H. rewrite count_indices.
  set (J := filter (holds_at P la) (seq 0 (length la))).
  set (img := flat_map (fun b => if Q b then match key b with Some j => [j] | None => [] end else []) lb).
  assert (Himg : length img <= count Q lb).
  { unfold img, count. clear. induction lb as [|b t IH]; [cbn; lia|].
    cbn [flat_map filter]. rewrite app_length. destruct (Q b); [destruct (key b)|]; cbn [length]; lia. }
  assert (Hnd : NoDup J) by (apply NoDup_filter, seq_NoDup).
  assert (Hincl : incl J img).
  { intros j Hj. apply filter_In in Hj. destruct Hj as [_ Hp]. unfold holds_at in Hp.
    destruct (nth_error la j) as [a|] eqn:Ea; [|discriminate].
    destruct (H j a Ea Hp) as (k & b & Hk & Hq & Hkey).
    apply in_flat_map. exists b. split; [eapply nth_error_In; eassumption|].
    rewrite Hq, Hkey. now left. }
  pose proof (NoDup_incl_length Hnd Hincl). lia.
Qed.

(** ** The reference-count heap *)
Record heap := mkHeap { cnt : nat -> nat; next : nat }.

Definition h_inc (p : ptr) (h : heap) : heap :=
  match p with
  | None => h
  | Some a => mkHeap (fun b => if Nat.eqb b a then S (cnt h b) else cnt h b) (next h)
  end.

Definition h_dec (p : ptr) (h : heap) : heap :=
  match p with
  | None => h
  | Some a => mkHeap (fun b => if Nat.eqb b a then Nat.pred (cnt h b) else cnt h b) (next h)
  end.

(** [Arc::new]: the next identity, one reference *)
Definition h_alloc (h : heap) : nat * heap :=
  (next h, mkHeap (fun b => if Nat.eqb b (next h) then 1 else cnt h b) (S (next h))).

Definition h_empty : heap := mkHeap (fun _ => 0) 0.

Lemma cnt_inc p h a : cnt (h_inc p h) a = cnt h a + b2n (on a p).
Proof.
  destruct p as [b|]; cbn [h_inc cnt on]; [|cbn; lia].
  rewrite (Nat.eqb_sym b a). destruct (Nat.eqb a b); cbn [b2n]; lia.
Qed.

Lemma cnt_dec p h a : cnt (h_dec p h) a = cnt h a - b2n (on a p).
Proof.
  destruct p as [b|]; cbn [h_dec cnt on]; [|cbn; lia].
  rewrite (Nat.eqb_sym b a). destruct (Nat.eqb a b); cbn [b2n]; lia.
Qed.

Lemma next_inc p h : next (h_inc p h) = next h.
Proof. now destruct p. Qed.
Lemma next_dec p h : next (h_dec p h) = next h.
Proof. now destruct p. Qed.

(** the strong count of every object created so far, in order of creation *)
Definition counts (h : heap) : list nat := map (cnt h) (seq 0 (next h)).

(** ** State of the specification *)
Record shandle := mkSH { sh_guard : bool; sh_ptr : ptr }.

Record sstate := mkSS {
  s_heap : heap;
  s_cont : list (option ptr);          (* container register -> None (no container) | Some stored *)
  s_hand : list (option shandle) }.    (* handle register -> None (empty) | Some handle *)

Definition s_init (ncont nhand : nat) : sstate :=
  mkSS h_empty (repeat None ncont) (repeat None nhand).

(** ** Programs *)

(** The forms of [current] accepted by [compare_and_swap] (impls of [AsRaw], /repo/src/as_raw.rs:39-72) *)
Inductive cur :=
| CurArc (r : nat)        (* &T, T = Arc<_> / Option<Arc<_>>: a value the program holds  (as_raw.rs:40-45) *)
| CurGuardRef (r : nat)   (* &Guard<T>                                                   (as_raw.rs:47-52) *)
| CurGuardVal (r : nat)   (* Guard<T> by value: consumed by the call                     (as_raw.rs:54-59) *)
| CurConst (r : nat)      (* *const T::Base, taken with as_ptr from the handle in r      (as_raw.rs:68-72) *)
| CurMut (r : nat)        (* *mut T::Base, the same pointer                              (as_raw.rs:61-66) *)
| CurNullConst            (* ptr::null() *)
| CurNullMut              (* ptr::null_mut() *)
| CurNone.                (* &None::<Arc<_>> (Option flavour) *)

Inductive op :=
| OAlloc (r : nat)              (* r := Arc::new(_)  (Some(Arc::new(_)) in the Option flavour) *)
| ONull (r : nat)               (* r := None *)
| OClone (src dst : nat)        (* dst := src.clone(), src a value *)
| ODrop (r : nat)               (* drop(r), r a value or a guard *)
| ONew (c r : nat)              (* c := ArcSwapAny::new(r) *)
| OFromPointee (c : nat)        (* c := ArcSwapAny::from_pointee(_) *)
| OEmpty (c : nat)              (* c := ArcSwapAny::empty() *)
| OLoad (c dst : nat)           (* dst := c.load() *)
| OLoadFull (c dst : nat)       (* dst := c.load_full() *)
| OGuardInto (r : nat)          (* r := Guard::into_inner(r) *)
| OGuardFrom (r : nat)          (* r := Guard::from_inner(r) *)
| OStore (c r : nat)            (* c.store(r) *)
| OSwap (c r : nat)             (* r := c.swap(r) *)
| OCas (c : nat) (cu : cur) (r : nat)   (* r := c.compare_and_swap(cu, r): new value r, the returned guard in r *)
| ORcu (c src dst : nat)        (* dst := c.rcu(|_| src.clone()) *)
| OIntoInner (c dst : nat)      (* dst := c.into_inner() *)
| ODropC (c : nat).             (* drop(c) *)

(** what a call returns, as far as the program can observe it by pointer comparison *)
Inductive result :=
| RInvalid                      (* the operation was refused (ill-formed program) *)
| RUnit
| RPtr (p : ptr)                (* identity of the returned value / of the target of the returned guard *)
| RCas (p : ptr) (ok : bool).   (* compare_and_swap: returned identity; did the exchange happen *)

(** ** Shape of a state: which registers are full, with what *)
Definition T1 : nat := 0.
Definition T2 : nat := 1.

Definition reg_empty A (l : list (option A)) (r : nat) : bool :=
  match nth_error l r with Some None => true | _ => false end.

Definition get_val (hs : list (option shandle)) (r : nat) : option ptr :=
  match nth_error hs r with
  | Some (Some h) => if sh_guard h then None else Some (sh_ptr h)
  | _ => None
  end.

Definition get_guard (hs : list (option shandle)) (r : nat) : option ptr :=
  match nth_error hs r with
  | Some (Some h) => if sh_guard h then Some (sh_ptr h) else None
  | _ => None
  end.

Definition get_any (hs : list (option shandle)) (r : nat) : option ptr :=
  match nth_error hs r with
  | Some (Some h) => Some (sh_ptr h)
  | _ => None
  end.

Definition get_cont (cs : list (option ptr)) (c : nat) : option ptr :=
  match nth_error cs c with Some (Some p) => Some p | _ => None end.

(** [AsRaw::as_raw] of each form of [current] (src/as_raw.rs): the raw pointer the form denotes,
    [None] when the form is ill-formed in the state (wrong kind of register). *)
Definition as_raw (hs : list (option shandle)) (cu : cur) : option ptr :=
  match cu with
  | CurArc r => get_val hs r                    (* T::as_ptr(self), as_raw.rs:42-44 *)
  | CurGuardRef r => get_guard hs r             (* T::as_ptr(self) through Deref of the guard, as_raw.rs:49-51 *)
  | CurGuardVal r => get_guard hs r             (* as_raw.rs:56-58 *)
  | CurConst r => get_any hs r                  (* *self as *mut T, as_raw.rs:69-71 *)
  | CurMut r => get_any hs r                    (* *self, as_raw.rs:63-65 *)
  | CurNullConst | CurNullMut => Some None
  | CurNone => Some None                        (* Option<Arc>::as_ptr of None = null, ref_cnt.rs *)
  end.

(** the register a form of [current] reads (it must differ from the register of the new value) *)
Definition cur_reg (cu : cur) : option nat :=
  match cu with
  | CurArc r | CurGuardRef r | CurGuardVal r | CurConst r | CurMut r => Some r
  | _ => None
  end.

Definition isSome A (o : option A) : bool := match o with Some _ => true | None => false end.

(** a destination register: empty and not one of the two reserved registers *)
Definition dst_free (hs : list (option shandle)) (r : nat) : bool := Nat.leb 2 r && reg_empty hs r.

Definition valid (cs : list (option ptr)) (hs : list (option shandle)) (o : op) : bool :=
  reg_empty hs T1 && reg_empty hs T2 &&
  match o with
  | OAlloc r | ONull r => dst_free hs r
  | OClone src dst => isSome (get_val hs src) && dst_free hs dst
  | ODrop r => isSome (get_any hs r)
  | ONew c r => reg_empty cs c && isSome (get_val hs r)
  | OFromPointee c | OEmpty c => reg_empty cs c
  | OLoad c dst | OLoadFull c dst | OIntoInner c dst => isSome (get_cont cs c) && dst_free hs dst
  | OGuardInto r => isSome (get_guard hs r)
  | OGuardFrom r => isSome (get_val hs r)
  | OStore c r | OSwap c r => isSome (get_cont cs c) && isSome (get_val hs r)
  | OCas c cu r =>
      isSome (get_cont cs c) && isSome (get_val hs r) && isSome (as_raw hs cu) &&
      match cur_reg cu with Some r' => negb (Nat.eqb r' r) | None => true end
  | ORcu c src dst => isSome (get_cont cs c) && isSome (get_val hs src) && dst_free hs dst
  | ODropC c => isSome (get_cont cs c)
  end.

(** ** One step of the specification *)
Definition s_set_heap (h : heap) (s : sstate) : sstate := mkSS h (s_cont s) (s_hand s).
Definition s_set_cont (c : nat) (x : option ptr) (s : sstate) : sstate :=
  mkSS (s_heap s) (set_nth c x (s_cont s)) (s_hand s).
Definition s_set_hand (r : nat) (x : option shandle) (s : sstate) : sstate :=
  mkSS (s_heap s) (s_cont s) (set_nth r x (s_hand s)).
Definition s_inc (p : ptr) (s : sstate) : sstate := s_set_heap (h_inc p (s_heap s)) s.
Definition s_dec (p : ptr) (s : sstate) : sstate := s_set_heap (h_dec p (s_heap s)) s.

Definition stored (s : sstate) (c : nat) : ptr :=
  match get_cont (s_cont s) c with Some p => p | None => None end.
Definition hptr (s : sstate) (r : nat) : ptr :=
  match get_any (s_hand s) r with Some p => p | None => None end.
Definition raw_of (s : sstate) (cu : cur) : ptr :=
  match as_raw (s_hand s) cu with Some p => p | None => None end.

Definition val_h (p : ptr) : option shandle := Some (mkSH false p).
Definition guard_h (p : ptr) : option shandle := Some (mkSH true p).

(** The meaning of every operation on plain variables and a reference-count heap
    (only called when [valid]). *)
Definition spec_do (s : sstate) (o : op) : sstate * result :=
  match o with
  | OAlloc r =>
      let (a, h) := h_alloc (s_heap s) in
      (s_set_hand r (val_h (Some a)) (s_set_heap h s), RPtr (Some a))
  | ONull r => (s_set_hand r (val_h None) s, RPtr None)
  | OClone src dst =>
      let p := hptr s src in
      (s_set_hand dst (val_h p) (s_inc p s), RPtr p)
  | ODrop r =>
      let p := hptr s r in
      (s_set_hand r None (s_dec p s), RUnit)
  | ONew c r =>                                  (* lib.rs:281-300: the value moves in *)
      let p := hptr s r in
      (s_set_hand r None (s_set_cont c (Some p) s), RUnit)
  | OFromPointee c =>                            (* lib.rs:687-692, 703-708 *)
      let (a, h) := h_alloc (s_heap s) in
      (s_set_cont c (Some (Some a)) (s_set_heap h s), RPtr (Some a))
  | OEmpty c => (s_set_cont c (Some None) s, RPtr None)      (* lib.rs:716-721 *)
  | OLoad c dst =>                               (* lib.rs:437-441: a guard denotes what is stored now *)
      let p := stored s c in
      (s_set_hand dst (guard_h p) (s_inc p s), RPtr p)
  | OLoadFull c dst =>                           (* lib.rs:320-322 *)
      let p := stored s c in
      (s_set_hand dst (val_h p) (s_inc p s), RPtr p)
  | OGuardInto r => let p := hptr s r in (s_set_hand r (val_h p) s, RPtr p)      (* lib.rs:122-124 *)
  | OGuardFrom r => let p := hptr s r in (s_set_hand r (guard_h p) s, RPtr p)    (* lib.rs:134-138 *)
  | OStore c r =>                                (* lib.rs:468-470: the old value is dropped *)
      let old := stored s c in
      let p := hptr s r in
      (s_dec old (s_set_hand r None (s_set_cont c (Some p) s)), RUnit)
  | OSwap c r =>                                 (* lib.rs:475-488: the old value is handed out *)
      let old := stored s c in
      let p := hptr s r in
      (s_set_hand r (val_h old) (s_set_cont c (Some p) s), RPtr old)
  | OCas c cu r =>                               (* lib.rs:555-563 *)
      let old := stored s c in
      let new := hptr s r in
      let ok := ptr_eqb old (raw_of s cu) in
      let s1 :=
        if ok
        then (* the new value moves in, the reference the container held comes out as the guard *)
             s_set_hand r (guard_h old) (s_set_cont c (Some new) s)
        else (* nothing is stored: a new reference to what is stored comes out, the new value is dropped *)
             s_set_hand r (guard_h old) (s_dec new (s_inc old s)) in
      let s2 :=
        match cu with
        | CurGuardVal r' => s_set_hand r' None (s_dec (hptr s r') s1)    (* the guard passed by value is dropped *)
        | _ => s1
        end in
      (s2, RCas old ok)
  | ORcu c src dst =>                            (* lib.rs:620-640, one thread: the closure runs once *)
      let old := stored s c in
      let p := hptr s src in
      (s_set_hand dst (val_h old) (s_set_cont c (Some p) (s_inc p s)), RPtr old)
  | OIntoInner c dst =>                          (* lib.rs:307-315 *)
      let p := stored s c in
      (s_set_hand dst (val_h p) (s_set_cont c None s), RPtr p)
  | ODropC c =>                                  (* lib.rs:233-242 *)
      let p := stored s c in
      (s_set_cont c None (s_dec p s), RUnit)
  end.

Definition spec_step (s : sstate) (o : op) : sstate * result :=
  if valid (s_cont s) (s_hand s) o then spec_do s o else (s, RInvalid).

(** the results and the states after every step *)
Fixpoint run_spec (prog : list op) (s : sstate) : list (result * sstate) :=
  match prog with
  | [] => []
  | o :: rest => let (s', r) := spec_step s o in (r, s') :: run_spec rest s'
  end.

Definition final_spec (prog : list op) (s : sstate) : sstate :=
  fold_left (fun s o => fst (spec_step s o)) prog s.

(** ** The textbook invariant of the specification: a count is the number of references *)
Definition con (a : nat) (x : option ptr) : bool :=
  match x with Some p => on a p | None => false end.
Definition shon (a : nat) (x : option shandle) : bool :=
  match x with Some h => on a (sh_ptr h) | None => false end.

Definition refs (s : sstate) (a : nat) : nat :=
  count (con a) (s_cont s) + count (shon a) (s_hand s).

Definition counted (s : sstate) : Prop := forall a, cnt (s_heap s) a = refs s a.
