(** * Seq.SerdeModel — C20: serde support is transparent.

    Sequential model of [/repo/src/serde.rs] on top of a plain-cell model of the container
    (one cell holding a pointer; objects with a value and a strong count; an object id is the
    index in the heap, [Arc::new] appends).  The model is strategy independent: every strategy
    implements this sequential behaviour (property C14); the differential harness
    [harness/seqx serde] runs the real code under every default-constructible strategy.

    The pointee's serializer/deserializer and the format's treatment of [Option] are
    [Section] variables; the round-trip hypotheses are [Section] hypotheses (serde's / the
    pointee's / the format's contract, not the crate's).  After [End Serde] every theorem
    quantifies over them; nothing is an axiom. *)
From Coq Require Import NArith List Lia Bool.
Import ListNotations.
Local Open Scope N_scope.

(** The two container flavours: [ArcSwapAny<Arc<T>,S>] and [ArcSwapAny<Option<Arc<T>>,S>]. *)
Inductive flavour := FArc | FOpt.

(** A value of the pointer type [T]: null ([None], option flavour only) or a reference to
    object [o]. *)
Inductive ptr := PNull | PObj (o : N).

Section Serde.
  Set Default Proof Using "Type".
  Variables value tokens : Type.
  (** the pointee's [Serialize]/[Deserialize] impls against some format *)
  Variable ser : value -> tokens.
  Variable de : tokens -> option value.
  (** the format: [Serializer::serialize_none], [Serializer::serialize_some(v)] applied to what
      [v] produced, and [Deserializer::deserialize_option] ([None] = error, [Some None] =
      [visit_none], [Some (Some t)] = [visit_some] with sub-deserializer over [t]) *)
  Variable tok_none : tokens.
  Variable tok_some : tokens -> tokens.
  Variable de_option : tokens -> option (option tokens).

  (** ** Heap of reference counted objects *)
  Record obj := mkObj { o_val : value; o_cnt : N }.
  Definition heap := list obj.

  Fixpoint upd (n : nat) (f : obj -> obj) (h : heap) : heap :=
    match h, n with
    | [], _ => []
    | x :: t, O => f x :: t
    | x :: t, S n' => x :: upd n' f t
    end.

  Definition set_cnt (f : N -> N) (ob : obj) : obj := mkObj (o_val ob) (f (o_cnt ob)).

  (** [RefCnt::inc] / [RefCnt::dec] (src/ref_cnt.rs:92-175; for [Option] the null pointer is
      skipped). *)
  Definition inc (p : ptr) (h : heap) : heap :=
    match p with PNull => h | PObj o => upd (N.to_nat o) (set_cnt N.succ) h end.
  Definition dec (p : ptr) (h : heap) : heap :=
    match p with PNull => h | PObj o => upd (N.to_nat o) (set_cnt N.pred) h end.

  (** Reading through a pointer: [None] = the object does not exist or its count is 0
      (it has been freed: a use after free). *)
  Definition pointee (h : heap) (o : N) : option value :=
    match nth_error h (N.to_nat o) with
    | Some ob => if 0 <? o_cnt ob then Some (o_val ob) else None
    | None => None
    end.

  (** [Arc::new v] *)
  Definition arc_new (v : value) (h : heap) : ptr * heap :=
    (PObj (N.of_nat (length h)), h ++ [mkObj v 1]).

  (** ** The container (src/lib.rs) — one cell *)
  Record st := mkSt { s_heap : heap; s_cell : ptr }.

  (** [ArcSwapAny::from] = [with_strategy(val, S::default())]: [T::into_ptr(val)] moves the
      reference into the cell (src/lib.rs:327-331, 382-392). *)
  Definition from (p : ptr) (h : heap) : st := mkSt h p.

  (** [load] (src/lib.rs:460-463) gives a guard that protects the pointer read from the cell;
      sequentially: one more reference.  [drop_ptr] drops a guard or a [T]. *)
  Definition load (s : st) : ptr * st := (s_cell s, mkSt (inc (s_cell s) (s_heap s)) (s_cell s)).
  Definition drop_ptr (p : ptr) (s : st) : st := mkSt (dec p (s_heap s)) (s_cell s).
  (** [store] = [drop(self.swap(val))] (src/lib.rs:468-488) *)
  Definition store (p : ptr) (s : st) : st := drop_ptr (s_cell s) (mkSt (s_heap s) p).

  (** ** serde's impls for the pointer types (serde/src/ser/impls.rs, de/impls.rs):
      [Arc<T>] delegates to [T] ("rc" feature), [Option<T>] uses [serialize_none]/[serialize_some]. *)
  Definition ser_ptr (fl : flavour) (h : heap) (p : ptr) : option tokens :=
    match fl, p with
    | FArc, PObj o => option_map ser (pointee h o)
    | FArc, PNull => None
    | FOpt, PNull => Some tok_none
    | FOpt, PObj o => option_map (fun v => tok_some (ser v)) (pointee h o)
    end.

  Definition de_ptr (fl : flavour) (tk : tokens) (h : heap) : option (ptr * heap) :=
    match fl with
    | FArc => match de tk with Some v => Some (arc_new v h) | None => None end
    | FOpt => match de_option tk with
              | None => None
              | Some None => Some (PNull, h)
              | Some (Some t) => match de t with Some v => Some (arc_new v h) | None => None end
              end
    end.

  (** ** The crate's impls, src/serde.rs:4-22 *)
  (** [self.load().serialize(serializer)]: the guard derefs to the [T] it protects, is
      serialized by [T]'s impl and dropped at the end of the statement. *)
  Definition serialize (fl : flavour) (s : st) : option tokens * st :=
    let (g, s1) := load s in
    let t := ser_ptr fl (s_heap s1) g in
    (t, drop_ptr g s1).

  (** [Ok(Self::from(T::deserialize(deserializer)?))] *)
  Definition deserialize (fl : flavour) (tk : tokens) (h : heap) : option st :=
    match de_ptr fl tk h with
    | Some (p, h') => Some (from p h')
    | None => None
    end.

  (** ** Client programs: what happens to the container before it is serialized *)
  Inductive op :=
  | StoreNew (v : value)     (* c.store(Arc::new(v))  /  c.store(Some(Arc::new(v))) *)
  | StoreNull                (* c.store(None) — option flavour only; not expressible otherwise *)
  | StoreSame                (* c.store(c.load_full()) *)
  | LoadDrop.                (* drop(c.load()) *)

  Definition exec (fl : flavour) (o : op) (s : st) : st :=
    match o with
    | StoreNew v => let (p, h) := arc_new v (s_heap s) in store p (mkSt h (s_cell s))
    | StoreNull => match fl with FOpt => store PNull s | FArc => s end
    | StoreSame => let (g, s1) := load s in store g s1
    | LoadDrop => let (g, s1) := load s in drop_ptr g s1
    end.

  Definition run (fl : flavour) (ops : list op) (s : st) : st :=
    fold_left (fun s o => exec fl o s) ops s.

  (** [from_pointee(v)] / [ArcSwapOption::empty()] on some heap *)
  Definition init (ov : option value) (h : heap) : st :=
    match ov with
    | Some v => let (p, h') := arc_new v h in from p h'
    | None => from PNull h
    end.

  (** ** Specification: a plain variable *)
  Definition spec_op (fl : flavour) (o : op) (cur : option value) : option value :=
    match o with
    | StoreNew v => Some v
    | StoreNull => match fl with FOpt => None | FArc => cur end
    | StoreSame | LoadDrop => cur
    end.
  Definition spec (fl : flavour) (ov : option value) (ops : list op) : option value :=
    fold_left (fun c o => spec_op fl o c) ops ov.

  (** what serializing the plain pointer [T] holding [cur] produces *)
  Definition tokens_of (fl : flavour) (cur : option value) : option tokens :=
    match fl, cur with
    | FArc, Some v => Some (ser v)
    | FArc, None => None
    | FOpt, None => Some tok_none
    | FOpt, Some v => Some (tok_some (ser v))
    end.

  (** what deserializing the plain pointer type yields: error, null, or a value *)
  Definition de_spec (fl : flavour) (tk : tokens) : option (option value) :=
    match fl with
    | FArc => option_map Some (de tk)
    | FOpt => match de_option tk with
              | None => None
              | Some None => Some None
              | Some (Some t) => option_map Some (de t)
              end
    end.

  (** the null pointer is a value of the option flavour only *)
  Definition valid (fl : flavour) (ov : option value) : Prop :=
    match fl, ov with FArc, None => False | _, _ => True end.

  (** The container holds exactly [cur], and the container's reference is the only one. *)
  Definition holds (s : st) (cur : option value) : Prop :=
    match s_cell s, cur with
    | PNull, None => True
    | PObj o, Some v => nth_error (s_heap s) (N.to_nat o) = Some (mkObj v 1)
    | _, _ => False
    end.

  (** ** Lemmas *)
  Lemma upd_upd n f g h : upd n g (upd n f h) = upd n (fun x => g (f x)) h.
  Proof.
    revert n; induction h as [|x t IH]; intros [|n]; cbn [upd]; try reflexivity.
    now rewrite IH.
  Qed.

  Lemma upd_id n f h : (forall x, f x = x) -> upd n f h = h.
  Proof.
    intros Hf; revert n; induction h as [|x t IH]; intros [|n]; cbn [upd]; try reflexivity.
    - now rewrite Hf.
    - now rewrite IH.
  Qed.

  Lemma dec_inc p h : dec p (inc p h) = h.
  Proof.
    destruct p as [|o]; [reflexivity|]. cbn [dec inc]. rewrite upd_upd. apply upd_id.
    intros [v c]. unfold set_cnt; cbn [o_val o_cnt]. now rewrite N.pred_succ.
  Qed.

  Lemma upd_length n f h : length (upd n f h) = length h.
  Proof. revert n; induction h as [|x t IH]; intros [|n]; cbn [upd length]; auto. Qed.

  Lemma nth_upd_same n f h x : nth_error h n = Some x -> nth_error (upd n f h) n = Some (f x).
  Proof.
    revert n; induction h as [|y t IH]; intros [|n]; cbn [upd nth_error]; try discriminate.
    - now intros [= ->].
    - apply IH.
  Qed.

  Lemma nth_upd_other n m f h : n <> m -> nth_error (upd n f h) m = nth_error h m.
  Proof.
    revert n m; induction h as [|y t IH]; intros [|n] [|m] Hne; cbn [upd nth_error]; try reflexivity.
    - congruence.
    - apply IH. congruence.
  Qed.

  Lemma nth_app_new (h : heap) x : nth_error (h ++ [x]) (length h) = Some x.
  Proof. rewrite nth_error_app2 by lia. now rewrite PeanoNat.Nat.sub_diag. Qed.

  Lemma nth_app_old (h : heap) x n ob : nth_error h n = Some ob -> nth_error (h ++ [x]) n = Some ob.
  Proof.
    intros H. rewrite nth_error_app1; [assumption|]. apply nth_error_Some. congruence.
  Qed.

  Lemma load_drop s : let (g, s1) := load s in drop_ptr g s1 = s.
  Proof.
    unfold load, drop_ptr; cbn [s_heap s_cell]. rewrite dec_inc. now destruct s.
  Qed.

  (** [serialize] leaves the state as it was and produces what the plain pointer read from
      the cell produces. *)
  Lemma serialize_eq fl s :
    serialize fl s = (ser_ptr fl (inc (s_cell s) (s_heap s)) (s_cell s), s).
  Proof.
    unfold serialize, load, drop_ptr; cbn [s_heap s_cell]. rewrite dec_inc. now destruct s.
  Qed.

  Lemma holds_tokens fl s cur :
    valid fl cur -> holds s cur ->
    ser_ptr fl (inc (s_cell s) (s_heap s)) (s_cell s) = tokens_of fl cur.
  Proof.
    unfold holds, valid. destruct s as [h [|o]], cur as [v|], fl; cbn [s_cell s_heap];
      try (intros []; fail); try (intros _ []; fail); try reflexivity;
      intros _ Hn; cbn [ser_ptr tokens_of inc].
    - unfold pointee. rewrite (nth_upd_same _ _ _ _ Hn). now cbn.
    - unfold pointee. rewrite (nth_upd_same _ _ _ _ Hn). now cbn.
  Qed.

  Lemma holds_init fl ov h : valid fl ov -> holds (init ov h) ov.
  Proof.
    intros _. destruct ov as [v|]; unfold init, holds, arc_new, from; cbn [s_cell s_heap]; [|exact I].
    rewrite Nnat.Nat2N.id. apply nth_app_new.
  Qed.

  Lemma holds_exec fl o s cur :
    valid fl cur -> holds s cur -> holds (exec fl o s) (spec_op fl o cur) /\ valid fl (spec_op fl o cur).
  Proof.
    intros Hv Hh. destruct o as [v| | |]; cbn [exec spec_op].
    - (* StoreNew *)
      split; [|now destruct fl].
      unfold arc_new, store, drop_ptr, holds; cbn [s_cell s_heap].
      rewrite Nnat.Nat2N.id.
      destruct (s_cell s) as [|o] eqn:E; cbn [dec].
      + apply nth_app_new.
      + rewrite nth_upd_other; [apply nth_app_new|].
        unfold holds in Hh. rewrite E in Hh. destruct cur as [w|]; [|contradiction].
        assert (N.to_nat o < length (s_heap s))%nat by (apply nth_error_Some; congruence). lia.
    - (* StoreNull *)
      destruct fl; [now split|]. split; [|exact I].
      unfold store, drop_ptr, holds; now cbn [s_cell s_heap].
    - (* StoreSame: load_full then store of the same pointer *)
      split; [|assumption].
      unfold load, store, drop_ptr; cbn [s_cell s_heap]. rewrite dec_inc.
      now destruct s.
    - (* LoadDrop *)
      split; [|assumption]. pose proof (load_drop s) as H. unfold load in *. now rewrite H.
  Qed.

  Lemma holds_run fl ops : forall s cur,
    valid fl cur -> holds s cur -> holds (run fl ops s) (spec fl cur ops) /\ valid fl (spec fl cur ops).
  Proof.
    induction ops as [|o ops IH]; intros s cur Hv Hh; cbn [run spec fold_left]; [now split|].
    destruct (holds_exec fl o s cur Hv Hh) as [Hh' Hv']. now apply IH.
  Qed.

  (** *** C20, serialization: after any sequence of stores the container serializes exactly
      as the plain pointer holding the last stored value ([None] included), and serializing
      changes nothing (no reference is leaked or lost). *)
  Theorem ser_transparent fl ov ops h0 :
    valid fl ov ->
    let s := run fl ops (init ov h0) in
    serialize fl s = (tokens_of fl (spec fl ov ops), s) /\ holds s (spec fl ov ops).
  Proof.
    intros Hv s. destruct (holds_run fl ops (init ov h0) ov Hv (holds_init fl ov h0 Hv)) as [Hh Hv'].
    split; [|exact Hh]. rewrite serialize_eq. f_equal. now apply holds_tokens.
  Qed.

  (** the produced tokens are defined (no use after free) *)
  Lemma tokens_of_defined fl cur : valid fl cur -> exists tk, tokens_of fl cur = Some tk.
  Proof. destruct fl, cur; cbn [valid tokens_of]; try (intros []; fail); eauto. Qed.

  (** *** C20, deserialization: fails exactly when the plain pointer type fails; otherwise the
      new container holds exactly the deserialized value, the container's reference is the
      only one (count = 1), and nothing else in the heap is touched. *)
  Theorem de_exact fl tk h :
    match de_spec fl tk with
    | None => deserialize fl tk h = None
    | Some ov => exists s', deserialize fl tk h = Some s' /\ holds s' ov /\ valid fl ov /\
                   s' = init ov h /\
                   (forall n ob, nth_error h n = Some ob -> nth_error (s_heap s') n = Some ob)
    end.
  Proof.
    unfold de_spec, deserialize, de_ptr. destruct fl.
    - destruct (de tk) as [v|]; cbn [option_map]; [|reflexivity].
      eexists; split; [reflexivity|]. split; [|split; [exact I|split; [reflexivity|]]].
      + unfold holds, arc_new, from; cbn [s_cell s_heap]. rewrite Nnat.Nat2N.id. apply nth_app_new.
      + intros n ob. unfold arc_new, from; cbn [s_heap]. apply nth_app_old.
    - destruct (de_option tk) as [[t|]|]; [|  |reflexivity].
      + destruct (de t) as [v|]; cbn [option_map]; [|reflexivity].
        eexists; split; [reflexivity|]. split; [|split; [exact I|split; [reflexivity|]]].
        * unfold holds, arc_new, from; cbn [s_cell s_heap]. rewrite Nnat.Nat2N.id. apply nth_app_new.
        * intros n ob. unfold arc_new, from; cbn [s_heap]. apply nth_app_old.
      + eexists; split; [reflexivity|]. split; [exact I|split; [exact I|split; [reflexivity|]]].
        intros n ob. unfold from; now cbn [s_heap].
  Qed.

  (** ** Round trip — needs the contracts of the pointee and of the format *)
  Hypothesis de_ser : forall v, de (ser v) = Some v.
  Hypothesis de_opt_none : de_option tok_none = Some None.
  Hypothesis de_opt_some : forall v, de_option (tok_some (ser v)) = Some (Some (ser v)).

  Lemma de_spec_tokens fl cur tk : tokens_of fl cur = Some tk -> de_spec fl tk = Some cur.
  Proof using de_ser de_opt_none de_opt_some.
    destruct fl, cur as [v|]; cbn [tokens_of de_spec]; try discriminate; intros [= <-].
    - now rewrite de_ser.
    - now rewrite de_opt_some, de_ser.
    - now rewrite de_opt_none.
  Qed.

  (** *** C20, round trip: serialize after any store sequence, deserialize: the new container
      holds the same value (by a fresh single reference), and serializes to the same tokens. *)
  Theorem roundtrip fl ov ops h0 :
    valid fl ov ->
    let s := run fl ops (init ov h0) in
    exists tk s',
      fst (serialize fl s) = Some tk /\
      deserialize fl tk (s_heap s) = Some s' /\
      holds s' (spec fl ov ops) /\
      serialize fl s' = (Some tk, s').
  Proof using de_ser de_opt_none de_opt_some.
    intros Hv s.
    destruct (ser_transparent fl ov ops h0 Hv) as [Hser Hh]. fold s in Hser, Hh.
    destruct (holds_run fl ops (init ov h0) ov Hv (holds_init fl ov h0 Hv)) as [_ Hv'].
    destruct (tokens_of_defined fl _ Hv') as [tk Htk].
    pose proof (de_exact fl tk (s_heap s)) as Hde. rewrite (de_spec_tokens _ _ _ Htk) in Hde.
    destruct Hde as (s' & Hd & Hh' & _ & _ & _).
    exists tk, s'. rewrite Hser; cbn [fst]. repeat split; try assumption.
    rewrite serialize_eq. f_equal. rewrite <- Htk. now apply holds_tokens.
  Qed.
End Serde.

(** ** A concrete instance (non-vacuity of the hypotheses, and the evaluator used by the
    differential check).  Values are identified by an index into the generated pool of pointee
    values; the token stream is kept symbolic and resolved by the runner against what the real
    serializer produced for the plain pointer. *)
Inductive stok := TVal (k : N) | TNone | TSome (t : stok).

Definition s_ser (k : N) : stok := TVal k.
Definition s_de (t : stok) : option N := match t with TVal k => Some k | _ => None end.
Definition s_de_option (t : stok) : option (option stok) :=
  match t with TNone => Some None | TSome t' => Some (Some t') | TVal _ => None end.

Lemma s_de_ser v : s_de (s_ser v) = Some v. Proof. reflexivity. Qed.
Lemma s_de_opt_none : s_de_option TNone = Some None. Proof. reflexivity. Qed.
Lemma s_de_opt_some v : s_de_option (TSome (s_ser v)) = Some (Some (s_ser v)). Proof. reflexivity. Qed.

(** A second instance with structure: the pointee is a record (number, list); tokens are a
    list of numbers with a length prefix; the format marks [None]/[Some] by a leading 0/1. *)
Definition l_ser (v : N * list N) : list N := fst v :: N.of_nat (length (snd v)) :: snd v.
Definition l_de (t : list N) : option (N * list N) :=
  match t with
  | a :: n :: l => if N.of_nat (length l) =? n then Some (a, l) else None
  | _ => None
  end.
Definition l_none : list N := [0].
Definition l_some (t : list N) : list N := 1 :: t.
Definition l_de_option (t : list N) : option (option (list N)) :=
  match t with [0] => Some None | 1 :: t' => Some (Some t') | _ => None end.
Lemma l_de_ser v : l_de (l_ser v) = Some v.
Proof. destruct v as [a l]. unfold l_ser, l_de; cbn [fst snd]. now rewrite N.eqb_refl. Qed.
Lemma l_de_opt_none : l_de_option l_none = Some None. Proof. reflexivity. Qed.
Lemma l_de_opt_some v : l_de_option (l_some (l_ser v)) = Some (Some (l_ser v)). Proof. reflexivity. Qed.

(** ** Evaluator for the differential check.  One case = flavour, initial value (index + 1, 0
    = null), operations; observed after the construction and after every operation:
    the symbolic tokens of [serialize], every object's strong count, and for the round trip
    the deserialized value and its count, and the tokens of serializing the new container. *)
Definition enc_tok (t : option stok) : N :=
  match t with
  | None => 0                       (* use after free / not a value *)
  | Some TNone => 1
  | Some (TVal k) => 2 * k + 2
  | Some (TSome (TVal k)) => 2 * k + 3
  | Some (TSome _) => 0
  end.

Definition enc_cur (s : st N) : list N :=
  match s_cell N s with
  | PNull => [0; 0]
  | PObj o => match nth_error (s_heap N s) (N.to_nat o) with
              | Some ob => [o_val N ob + 1; o_cnt N ob]
              | None => [0; 0]
              end
  end.

Definition observe (fl : flavour) (nobj : nat) (s : st N) : list N :=
  let '(t, s1) := serialize N stok s_ser TNone TSome fl s in
  let counts := map (fun i => match nth_error (s_heap N s1) i with Some ob => o_cnt N ob | None => 0 end) (seq 0 nobj) in
  let rt := match t with
            | Some tk => match deserialize N stok s_de s_de_option fl tk (s_heap N s1) with
                         | Some s' => 1 :: enc_cur s' ++ [enc_tok (fst (serialize N stok s_ser TNone TSome fl s'))]
                         | None => [0; 0; 0; 0]
                         end
            | None => [0; 0; 0; 0]
            end in
  enc_tok t :: counts ++ rt.

Fixpoint observe_run (fl : flavour) (nobj : nat) (ops : list (op N)) (s : st N) : list (list N) :=
  observe fl nobj s ::
  match ops with
  | [] => []
  | o :: ops' => observe_run fl nobj ops' (exec N fl o s)
  end.

Definition serde_case (fl : flavour) (nobj : nat) (ov : option N) (ops : list (op N)) : list (list N) :=
  observe_run fl nobj ops (init N ov []).
