(* Driver of the extracted C19 matrix: prints one line per cell (see Marker/Matrix.v, [line]).
   usage: marker_run quick|thorough *)
open Marker

let code (Ascii (b0, b1, b2, b3, b4, b5, b6, b7)) =
  let v b k = if b then k else 0 in
  v b0 1 + v b1 2 + v b2 4 + v b3 8 + v b4 16 + v b5 32 + v b6 64 + v b7 128

let print_coq_string (s : Marker.string) =
  let rec go = function
    | EmptyString -> ()
    | String (a, r) -> print_char (Char.chr (code a)); go r in
  go s

let () =
  let tier = if Array.length Sys.argv > 1 then Sys.argv.(1) else "quick" in
  let ls = if tier = "thorough" then lines_thorough () else lines_quick () in
  List.iter print_coq_string ls
