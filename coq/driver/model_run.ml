(* Driver of the extracted model: replays a schedule on a program and prints the trace in
   the same textual format as the Rust harness.

   usage: model_run <program-file> <schedule-file>
   With "-" as the schedule file, reads "T X" pairs from stdin.  *)
open Model

let rec pos_of_int (i : int) : positive =
  if i = 1 then XH else if i land 1 = 1 then XI (pos_of_int (i lsr 1)) else XO (pos_of_int (i lsr 1))
let n_of_int (i : int) : n = if i = 0 then N0 else Npos (pos_of_int i)
let rec int_of_pos = function XH -> 1 | XO p -> 2 * int_of_pos p | XI p -> 2 * int_of_pos p + 1
let int_of_n = function N0 -> 0 | Npos p -> int_of_pos p

let n_of_string (s : string) : n =
  let ds = ref [] in
  String.iter (fun ch -> ds := n_of_int (Char.code ch - 48) :: !ds) s;
  n_of_digits (List.rev !ds)
let string_of_n (x : n) : string =
  String.concat "" (List.map (fun d -> string_of_int (int_of_n d)) (n_digits x))

let str_ord = function Relaxed -> "Relaxed" | Acquire -> "Acquire" | Release -> "Release"
  | AcqRel -> "AcqRel" | SeqCst -> "SeqCst"
let str_loc = function
  | LStore c -> "S" ^ string_of_n c
  | LHead -> "HEAD"
  | LSlot (nn, i) -> "SL" ^ string_of_n nn ^ "." ^ string_of_n i
  | LCtrl nn -> "CT" ^ string_of_n nn
  | LAddr nn -> "AD" ^ string_of_n nn
  | LOffer nn -> "OF" ^ string_of_n nn
  | LEnv nn -> "EN" ^ string_of_n nn
  | LInUse nn -> "IU" ^ string_of_n nn
  | LWriters nn -> "WR" ^ string_of_n nn
  | LCount a -> "RC" ^ string_of_n a
let str_op = function OLoad -> "load" | OStore -> "store" | OSwap -> "swap" | OCas -> "cas"
  | OCasWeak -> "casw" | OFetchAdd -> "fadd" | OFetchSub -> "fsub"
let str_ret = function
  | RUnit -> "U"
  | RNode nn -> "N " ^ string_of_n nn
  | RGuard (p, _) -> "G " ^ string_of_n p
  | ROwned p -> "O " ^ string_of_n p
  | RPanic -> "P"
let str_panic = function
  | PExpectNode -> "ExpectNode" | PSlotNotNone -> "SlotNotNone" | PCtrlNotIdle -> "CtrlNotIdle"
  | POwnCtrlNotIdle -> "OwnCtrlNotIdle" | PInUseNotUsed -> "InUseNotUsed" | PHelpMyself -> "HelpMyself"
  | PInvalidControl -> "InvalidControl" | PNotReplacement -> "NotReplacement"
  | PCooldownNotUsed -> "CooldownNotUsed" | PGenTagged -> "GenTagged" | PSpaceUnaligned -> "SpaceUnaligned"
let str_fault = function
  | FDeadInc a -> "DeadInc " ^ string_of_n a | FDeadDec a -> "DeadDec " ^ string_of_n a
  | FBadAlloc a -> "BadAlloc " ^ string_of_n a | FBadHandle h -> "BadHandle " ^ string_of_n h
  | FBadChoice -> "BadChoice"

let str_event = function
  | EvCmd k -> "CMD " ^ string_of_n k
  | EvAcc (l, op, o, fo, old, nw, ok) ->
      Printf.sprintf "ACC %s %s %s %s %s %s %d" (str_loc l) (str_op op) (str_ord o) (str_ord fo)
        (string_of_n old) (string_of_n nw) (if ok then 1 else 0)
  | EvRc (a, inc, old) -> Printf.sprintf "RC %s %s %s" (string_of_n a) (if inc then "+" else "-") (string_of_n old)
  | EvAlloc (a, oid) -> Printf.sprintf "ALLOC %s %s" (string_of_n a) (string_of_n oid)
  | EvDestroy (a, oid) -> Printf.sprintf "DESTROY %s %s" (string_of_n a) (string_of_n oid)
  | EvRet (k, r) -> Printf.sprintf "RET %s %s" (string_of_n k) (str_ret r)
  | EvPanic s -> "PANIC " ^ str_panic s
  | EvFault f -> "FAULT " ^ str_fault f
  | EvExit -> "EXIT"

(* ---- program parsing ---- *)
let words s = List.filter (fun w -> w <> "") (String.split_on_char ' ' (String.trim s))
let src_of w = if w = "-" then SNull else SHandle (n_of_string w)
let parse_cmd (s : string) : cmd =
  match words s with
  | ["new"; h] -> CNew (n_of_string h)
  | ["clone"; h; h2] -> CClone (n_of_string h, n_of_string h2)
  | ["drop"; h] -> CDrop (n_of_string h)
  | ["load"; c; h] -> CLoad (n_of_string c, n_of_string h)
  | ["loadfull"; c; h] -> CLoadFull (n_of_string c, n_of_string h)
  | ["ginto"; h; h2] -> CGuardInto (n_of_string h, n_of_string h2)
  | ["store"; c; v] -> CStore (n_of_string c, src_of v)
  | ["swap"; c; v; h2] -> CSwap (n_of_string c, src_of v, n_of_string h2)
  | ["cas"; c; cur; nw; h2] -> CCas (n_of_string c, src_of cur, src_of nw, n_of_string h2)
  | ["rcu"; c; m; h2] ->
      let m = (match m with "new" -> RcuNew | "null" -> RcuNull | "same" -> RcuSame
                 | _ when String.length m > 5 && String.sub m 0 5 = "panic" ->
                     RcuPanicAt (n_of_string (String.sub m 5 (String.length m - 5)))
                 | _ -> failwith "rcu mode") in
      CRcu (n_of_string c, m, n_of_string h2)
  | ["cinto"; c; h] -> CIntoInner (n_of_string c, n_of_string h)
  | ["cdrop"; c] -> CDropStore (n_of_string c)
  | ["cachenew"; c; k] -> CCacheNew (n_of_string c, n_of_string k)
  | ["cacheload"; k] -> CCacheLoad (n_of_string k)
  | ["setgen"; g] -> CSetGen (n_of_string g)
  | ["move"; h; h2] -> CMove (n_of_string h, n_of_string h2)
  | ["join"; t] -> CJoin (n_of_string t)
  | _ -> failwith ("bad command: " ^ s)

let () =
  let prog_file = Sys.argv.(1) and sched_file = Sys.argv.(2) in
  let fast = ref true and debug = ref true in
  let inits = ref [] and threads = ref [] in
  let ic = open_in prog_file in
  (try
     while true do
       let line = String.trim (input_line ic) in
       if line = "" || line.[0] = '#' then ()
       else
         match words line with
         | "config" :: kvs ->
             List.iter (fun kv ->
               match String.split_on_char '=' kv with
               | ["fast"; v] -> fast := (v = "1")
               | ["debug"; v] -> debug := (v = "1")
               | _ -> ()) kvs
         | "init" :: vs -> inits := List.map n_of_string vs
         | "thread" :: _ ->
             let i = String.index line ':' in
             let body = String.sub line (i + 1) (String.length line - i - 1) in
             let cmds = List.filter (fun c -> String.trim c <> "") (String.split_on_char ';' body) in
             threads := List.map parse_cmd cmds :: !threads
         | _ -> failwith ("bad line: " ^ line)
     done
   with End_of_file -> close_in ic);
  let cf = { cf_use_fast = !fast; cf_debug = !debug } in
  let acc_on = (try Sys.getenv "MODEL_ACC_CHECK" = "1" with Not_found -> false) in
  let prot_on = (try Sys.getenv "MODEL_PROT_CHECK" = "1" with Not_found -> false) in
  let prot_selftest = (try Sys.getenv "MODEL_PROT_SELFTEST" = "1" with Not_found -> false) in
  let scope_on = (try Sys.getenv "MODEL_SCOPE_CHECK" = "1" with Not_found -> false) in
  let scope_msg = ref "" in
  let view_on = (try Sys.getenv "MODEL_VIEW_CHECK" = "1" with Not_found -> false) in
  let view_msg = ref "" in
  let prot_failed = ref false and prot_msg = ref "" in
  let acc_failed = ref false and acc_msg = ref "" and acc_step = ref 0 in
  let acc_addrs = ref (List.filter (fun a -> string_of_n a <> "0") !inits) in
  let acc_conts = List.init 12 n_of_int and acc_thrs = List.init 12 n_of_int and acc_hnds = List.init 200 n_of_int in
  let st = ref (init_state !inits (List.rev !threads)) in
  let vg = ref (vghost0 !st) in
  let sc = if sched_file = "-" then stdin else open_in sched_file in
  (try
     while true do
       let line = String.trim (input_line sc) in
       if line <> "" then begin
         match words line with
         | t :: x :: _ ->
             let tn = n_of_string t and xn = n_of_string x in
             if scope_on && !scope_msg = "" then begin
               if not (scope_step !st acc_thrs tn xn) then
                 scope_msg := Printf.sprintf ". SCOPE-OUT step %d (a hypothesis of Main.RunOK does not hold in the state before this step)" !acc_step
             end;
             if view_on then begin
               (* the views of StaleCView.v: is the value supplied at Cache::revalidate a write this thread may still read? *)
               if !view_msg = "" && not (staleC_okb !vg !st tn xn) then
                 view_msg := Printf.sprintf ". VIEW-OUT step %d (the stale value supplied at Cache::revalidate is not a write the thread may still read: StaleCView.staleC_ok)" !acc_step;
               let (_, g') = vstep3 cf (!st, !vg) tn xn in
               vg := g'
             end;
             let (s', evs) = step_stale3 cf !st tn xn in
             st := s';
             if acc_on then List.iter (fun e -> match e with EvAlloc (a, _) -> if not (List.mem a !acc_addrs) then acc_addrs := a :: !acc_addrs | _ -> ()) evs;
             if acc_on && not !acc_failed then begin
               let faulted = List.exists (fun t -> match (s'.thr t).t_status with Faulted | Panicked -> true | _ -> false) acc_thrs in
               if not faulted then
                 let nn = int_of_n (s'.sh.mem LHead) in
                 let nodes = List.init (nn + 1) n_of_int in
                 match acc_check_all s' !acc_addrs nodes acc_conts acc_thrs acc_hnds with
                 | Some a -> acc_failed := true; acc_msg := Printf.sprintf ". ACC-VIOLATION addr %s after step %d" (string_of_n a) !acc_step
                 | None -> ()
             end;
             if prot_on && not !prot_failed then begin
               let faulted = List.exists (fun t -> match (s'.thr t).t_status with Faulted | Panicked -> true | _ -> false) acc_thrs in
               if not faulted then
                 let nn = int_of_n (s'.sh.mem LHead) in
                 let nodes = List.init nn n_of_int in
                 match prot_check s' nodes acc_thrs acc_hnds (if prot_selftest then [] else acc_conts) with
                 | Some (a, b) -> prot_failed := true; prot_msg := Printf.sprintf ". PROT-VIOLATION %s %s after step %d" (string_of_n a) (string_of_n b) !acc_step
                 | None -> ()
             end;
             incr acc_step;
             (match evs with
              | [] -> Printf.printf "%s NOP\n" t
              | e :: rest ->
                  Printf.printf "%s %s\n" t (str_event e);
                  List.iter (fun e -> Printf.printf ". %s\n" (str_event e)) rest)
         | _ -> failwith ("bad schedule line: " ^ line)
       end
     done
   with End_of_file -> ());
  if !acc_failed then print_endline !acc_msg;
  if !prot_failed then print_endline !prot_msg;
  if !scope_msg <> "" then print_endline !scope_msg;
  if !view_msg <> "" then print_endline !view_msg;
  (* final state, in the harness's format *)
  let s = !st in
  let all_cmds = List.concat (List.rev !threads) in
  let consumed c = List.exists (fun cm -> match cm with
      | CIntoInner (c', _) -> int_of_n c' = c | CDropStore c' -> int_of_n c' = c | _ -> false) all_cmds in
  List.iteri (fun c _ ->
      if not (consumed c) then
        Printf.printf ". FINAL store %d %s\n" c (string_of_n (s.sh.mem (LStore (n_of_int c))))) !inits;
  for k = 0 to 199 do
    let a = n_of_int (4096 + 16 * k) in
    match s.sh.heap a with
    | Some oid -> Printf.printf ". FINAL cell %s %s %s\n" (string_of_n a) (string_of_n (s.sh.mem (LCount a))) (string_of_n oid)
    | None -> ()
  done;
  for h = 0 to 511 do
    match s.hnd (n_of_int h) with
    | HEmpty -> ()
    | HOwned a -> Printf.printf ". FINAL handle %d O %s\n" h (string_of_n a)
    | HGuard (a, _) -> Printf.printf ". FINAL handle %d G %s\n" h (string_of_n a)
    | HCache (_, _) -> Printf.printf ". FINAL handle %d C ?\n" h
  done;
  let nn = int_of_n (s.sh.mem LHead) in
  for nd = 0 to nn - 1 do
    let ndn = n_of_int nd in
    for i = 0 to 8 do
      let v = s.sh.mem (LSlot (ndn, n_of_int i)) in
      if string_of_n v <> "3" then
        Printf.printf ". FINAL slot %d %d %s\n" nd i (string_of_n v)
    done;
    Printf.printf ". FINAL node %d %s %s %s %s\n" nd (string_of_n (s.sh.mem (LInUse ndn)))
      (string_of_n (s.sh.mem (LWriters ndn))) (string_of_n (s.sh.mem (LCtrl ndn))) (string_of_n (s.sh.mem (LOffer ndn)))
  done
