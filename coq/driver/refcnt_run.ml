(* Driver of the extracted C15 register machine (Seq/RefCntMachine.v): reads operation
   sequences and prints, after every operation, the same line as harness/refcnt prints
   for the real crate.

   usage: refcnt_run <sequences-file>          (output on stdout)

   file format:   seq <id> <kind> <pointee> <track 0|1>
                  <op> <args>*
                  end                                                        *)
open Refcnt_model

let rec pos_of_int (i : int) : positive =
  if i = 1 then XH else if i land 1 = 1 then XI (pos_of_int (i lsr 1)) else XO (pos_of_int (i lsr 1))
let n_of_int (i : int) : n = if i = 0 then N0 else Npos (pos_of_int i)
let rec int_of_pos = function XH -> 1 | XO p -> 2 * int_of_pos p | XI p -> 2 * int_of_pos p + 1
let int_of_n = function N0 -> 0 | Npos p -> int_of_pos p
let string_of_n (x : n) : string =
  String.concat "" (List.map (fun d -> string_of_int (int_of_n d)) (n_digits x))

let kind_of_string = function
  | "arc" -> KArc | "rc" -> KRc | "weak" -> KWeak | "rcweak" -> KRcWeak
  | "oarc" -> KOpt KArc | "orc" -> KOpt KRc
  | "ooarc" -> KOpt (KOpt KArc) | "oorc" -> KOpt (KOpt KRc)
  | "oweak" -> KOpt KWeak | "orcweak" -> KOpt KRcWeak
  | s -> failwith ("unknown kind " ^ s)

let op_of_words (w : string list) : op =
  let a i = n_of_int (int_of_string (List.nth w i)) in
  match List.hd w with
  | "new" -> ONew (a 1) | "acl" -> OAClone (a 1, a 2) | "adr" -> OADrop (a 1)
  | "adn" -> ODowngrade (a 1, a 2) | "wup" -> OUpgrade (a 1, a 2)
  | "wnw" -> OWNew (a 1) | "wcl" -> OWClone (a 1, a 2) | "wdr" -> OWDrop (a 1)
  | "vmk" -> OVMake (a 1, a 2) | "vem" -> OVEmpty (a 1, a 2) | "vcl" -> OVClone (a 1, a 2)
  | "vdr" -> OVDrop (a 1) | "vun" -> OVUnwrap (a 1, a 2)
  | "into" -> OInto (a 1, a 2) | "asp" -> OAsPtr (a 1) | "from" -> OFrom (a 1, a 2)
  | "inc" -> OInc (a 1, a 2) | "dec" -> ODec (a 1) | "pnull" -> OPNull (a 1)
  | "cnew" -> OCNew (a 1, a 2) | "clf" -> OCLoadFull (a 1, a 2) | "clg" -> OCLoadGuard (a 1, a 2)
  | "cst" -> OCStore (a 1, a 2) | "csw" -> OCSwap (a 1, a 2, a 3) | "cin" -> OCInto (a 1, a 2)
  | "cdr" -> OCDrop (a 1)
  | s -> failwith ("unknown op " ^ s)

let str_cls = function Some c -> string_of_n c | None -> "?"
let str_h = function
  | HStrong (c, s, w) -> Printf.sprintf "@%s(%s,%s)" (str_cls c) (string_of_n s) (string_of_n w)
  | HWeak (c, s, w, up) -> Printf.sprintf "~%s(%s,%s,%d)" (str_cls c) (string_of_n s) (string_of_n w) (if up then 1 else 0)
  | HDangling -> "~dg"
let rec str_v = function
  | VoH h -> str_h h | VoNone -> "N" | VoSome v -> "S(" ^ str_v v ^ ")"
let str_p = function
  | PNull -> "null" | PObj c -> "@" ^ string_of_n c | PMax -> "MAX" | PUnknown -> "?"
let str_regs f l = String.concat " " (List.map (function None -> "-" | Some x -> f x) l)

let () =
  let ic = open_in Sys.argv.(1) in
  let out = Buffer.create (1 lsl 20) in
  let kind = ref KArc and m = ref m_init and track = ref false and idx = ref 0 and sid = ref "" in
  (try
    while true do
      let line = String.trim (input_line ic) in
      if line <> "" && line.[0] <> '#' then begin
        let w = String.split_on_char ' ' line |> List.filter (fun s -> s <> "") in
        match w with
        | "seq" :: id :: k :: _ty :: tr :: _ ->
            kind := kind_of_string k; m := m_init; track := (tr = "1"); idx := 0; sid := id;
            Buffer.add_string out ("seq " ^ id ^ "\n")
        | ["end"] -> Buffer.add_string out ("end " ^ !sid ^ "\n")
        | _ ->
            let o = op_of_words w in
            let (r, m') = mstep !kind o !m in
            m := m';
            let ol = observe m' in
            let rs = match r with
              | ROk -> "ok" | RInv -> "inv" | RSome -> "some" | RNone -> "none"
              | RPtr p -> "r=" ^ str_p (obs_ptr m' p) in
            Buffer.add_string out (Printf.sprintf "%d %s A[%s] W[%s] V[%s] P[%s] d=%s%s\n" !idx rs
              (str_regs str_h ol.ol_a) (str_regs str_h ol.ol_w) (str_regs str_v ol.ol_v) (str_regs str_p ol.ol_p)
              (if !track then string_of_n ol.ol_drops else "-")
              (if ol.ol_ub then " UB" else ""));
            incr idx
      end
    done
  with End_of_file -> ());
  print_string (Buffer.contents out)
