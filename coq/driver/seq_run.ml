(* Driver of the extracted C14 specification (Seq/SeqSpec.v) and strategy models (Seq/SeqImpl.v):
   reads the programs harness/seq reads and prints, per program, four blocks:
     prog <id> spec      <n> <result> | <spec counts>
     prog <id> default   <n> <result> | <counts predicted for the real crate> | <unpaid debts per object>
     prog <id> nofast    ...
     prog <id> rwlock    ...
   usage: seq_run <programs-file>                                                   *)
open Seq_model

let rec nat_of_int (i : int) : nat = if i <= 0 then O else S (nat_of_int (i - 1))
let rec int_of_nat = function O -> 0 | S n -> 1 + int_of_nat n

let cur_of_words (w : string array) : cur * int =
  let a i = nat_of_int (int_of_string w.(i)) in
  match w.(2) with
  | "arc" -> (CurArc (a 3), 4) | "gref" -> (CurGuardRef (a 3), 4) | "gval" -> (CurGuardVal (a 3), 4)
  | "const" -> (CurConst (a 3), 4) | "mut" -> (CurMut (a 3), 4)
  | "nullc" -> (CurNullConst, 3) | "nullm" -> (CurNullMut, 3) | "none" -> (CurNone, 3)
  | s -> failwith ("unknown form " ^ s)

let op_of_words (w : string array) : op =
  let a i = nat_of_int (int_of_string w.(i)) in
  match w.(0) with
  | "alloc" -> OAlloc (a 1) | "null" -> ONull (a 1) | "clone" -> OClone (a 1, a 2) | "drop" -> ODrop (a 1)
  | "new" -> ONew (a 1, a 2) | "fromp" -> OFromPointee (a 1) | "empty" -> OEmpty (a 1)
  | "load" -> OLoad (a 1, a 2) | "loadfull" -> OLoadFull (a 1, a 2)
  | "ginto" -> OGuardInto (a 1) | "gfrom" -> OGuardFrom (a 1)
  | "store" -> OStore (a 1, a 2) | "swap" -> OSwap (a 1, a 2)
  | "cas" -> let (cu, k) = cur_of_words w in OCas (a 1, cu, a k)
  | "rcu" -> ORcu (a 1, a 2, a 3) | "into" -> OIntoInner (a 1, a 2) | "dropc" -> ODropC (a 1)
  | s -> failwith ("unknown op " ^ s)

let str_p = function Some n -> "@" ^ string_of_int (int_of_nat n) | None -> "null"
let str_res = function
  | RInvalid -> "inv" | RUnit -> "unit" | RPtr p -> "p=" ^ str_p p
  | RCas (p, ok) -> Printf.sprintf "cas=%s,%d" (str_p p) (if ok then 1 else 0)
let str_l l = String.concat " " (List.map (fun n -> string_of_int (int_of_nat n)) l)

let words s = Array.of_list (List.filter (fun x -> x <> "") (String.split_on_char ' ' (String.trim s)))

let () =
  let ic = open_in Sys.argv.(1) in
  let out = Buffer.create (1 lsl 20) in
  let id = ref "" and ncont = ref 0 and nhand = ref 0 and ops = ref [] in
  let flush_prog () =
    let prog = List.rev !ops in
    Buffer.add_string out (Printf.sprintf "prog %s spec\n" !id);
    let s = ref (s_init (nat_of_int !ncont) (nat_of_int !nhand)) in
    List.iteri (fun n o ->
      let (s', r) = spec_step !s o in
      s := s';
      Buffer.add_string out (Printf.sprintf "%d %s | %s\n" n (str_res r) (str_l (counts (s_heap s'))))) prog;
    Buffer.add_string out (Printf.sprintf "end %s spec\n" !id);
    List.iter (fun (name, st) ->
      Buffer.add_string out (Printf.sprintf "prog %s %s\n" !id name);
      let i = ref (i_init (nat_of_int !ncont) (nat_of_int !nhand)) in
      List.iteri (fun n o ->
        let (i', r) = impl_step st !i o in
        i := i';
        Buffer.add_string out (Printf.sprintf "%d %s | %s | %s\n" n (str_res r) (str_l (counts (i_heap i'))) (str_l (debt_list i')))) prog;
      Buffer.add_string out (Printf.sprintf "end %s %s\n" !id name))
      [("default", Hybrid true); ("nofast", Hybrid false); ("rwlock", RwLock)]
  in
  (try
    while true do
      let line = input_line ic in
      let w = words line in
      if Array.length w > 0 && w.(0).[0] <> '#' then begin
        match w.(0) with
        | "prog" -> id := w.(1); ncont := int_of_string w.(3); nhand := int_of_string w.(4); ops := []
        | "end" -> flush_prog ()
        | _ -> ops := op_of_words w :: !ops
      end
    done
  with End_of_file -> ());
  print_string (Buffer.contents out)
