
(** val negb : bool -> bool **)

let negb = function
| true -> false
| false -> true

type nat =
| O
| S of nat

type ('a, 'b) sum =
| Inl of 'a
| Inr of 'b

(** val fst : ('a1 * 'a2) -> 'a1 **)

let fst = function
| (x, _) -> x

(** val snd : ('a1 * 'a2) -> 'a2 **)

let snd = function
| (_, y) -> y

(** val app : 'a1 list -> 'a1 list -> 'a1 list **)

let rec app l m =
  match l with
  | [] -> m
  | a :: l1 -> a :: (app l1 m)

type comparison =
| Eq
| Lt
| Gt

module Coq__1 = struct
 (** val add : nat -> nat -> nat **)
 let rec add n0 m =
   match n0 with
   | O -> m
   | S p -> S (add p m)
end
include Coq__1

type positive =
| XI of positive
| XO of positive
| XH

type n =
| N0
| Npos of positive

module Pos =
 struct
  type mask =
  | IsNul
  | IsPos of positive
  | IsNeg
 end

module Coq_Pos =
 struct
  (** val succ : positive -> positive **)

  let rec succ = function
  | XI p -> XO (succ p)
  | XO p -> XI p
  | XH -> XO XH

  (** val add : positive -> positive -> positive **)

  let rec add x y =
    match x with
    | XI p ->
      (match y with
       | XI q -> XO (add_carry p q)
       | XO q -> XI (add p q)
       | XH -> XO (succ p))
    | XO p ->
      (match y with
       | XI q -> XI (add p q)
       | XO q -> XO (add p q)
       | XH -> XI p)
    | XH -> (match y with
             | XI q -> XO (succ q)
             | XO q -> XI q
             | XH -> XO XH)

  (** val add_carry : positive -> positive -> positive **)

  and add_carry x y =
    match x with
    | XI p ->
      (match y with
       | XI q -> XI (add_carry p q)
       | XO q -> XO (add_carry p q)
       | XH -> XI (succ p))
    | XO p ->
      (match y with
       | XI q -> XO (add_carry p q)
       | XO q -> XI (add p q)
       | XH -> XO (succ p))
    | XH ->
      (match y with
       | XI q -> XI (succ q)
       | XO q -> XO (succ q)
       | XH -> XI XH)

  (** val pred_double : positive -> positive **)

  let rec pred_double = function
  | XI p -> XI (XO p)
  | XO p -> XI (pred_double p)
  | XH -> XH

  type mask = Pos.mask =
  | IsNul
  | IsPos of positive
  | IsNeg

  (** val succ_double_mask : mask -> mask **)

  let succ_double_mask = function
  | IsNul -> IsPos XH
  | IsPos p -> IsPos (XI p)
  | IsNeg -> IsNeg

  (** val double_mask : mask -> mask **)

  let double_mask = function
  | IsPos p -> IsPos (XO p)
  | x0 -> x0

  (** val double_pred_mask : positive -> mask **)

  let double_pred_mask = function
  | XI p -> IsPos (XO (XO p))
  | XO p -> IsPos (XO (pred_double p))
  | XH -> IsNul

  (** val sub_mask : positive -> positive -> mask **)

  let rec sub_mask x y =
    match x with
    | XI p ->
      (match y with
       | XI q -> double_mask (sub_mask p q)
       | XO q -> succ_double_mask (sub_mask p q)
       | XH -> IsPos (XO p))
    | XO p ->
      (match y with
       | XI q -> succ_double_mask (sub_mask_carry p q)
       | XO q -> double_mask (sub_mask p q)
       | XH -> IsPos (pred_double p))
    | XH -> (match y with
             | XH -> IsNul
             | _ -> IsNeg)

  (** val sub_mask_carry : positive -> positive -> mask **)

  and sub_mask_carry x y =
    match x with
    | XI p ->
      (match y with
       | XI q -> succ_double_mask (sub_mask_carry p q)
       | XO q -> double_mask (sub_mask p q)
       | XH -> IsPos (pred_double p))
    | XO p ->
      (match y with
       | XI q -> double_mask (sub_mask_carry p q)
       | XO q -> succ_double_mask (sub_mask_carry p q)
       | XH -> double_pred_mask p)
    | XH -> IsNeg

  (** val mul : positive -> positive -> positive **)

  let rec mul x y =
    match x with
    | XI p -> add y (XO (mul p y))
    | XO p -> XO (mul p y)
    | XH -> y

  (** val compare_cont : comparison -> positive -> positive -> comparison **)

  let rec compare_cont r x y =
    match x with
    | XI p ->
      (match y with
       | XI q -> compare_cont r p q
       | XO q -> compare_cont Gt p q
       | XH -> Gt)
    | XO p ->
      (match y with
       | XI q -> compare_cont Lt p q
       | XO q -> compare_cont r p q
       | XH -> Gt)
    | XH -> (match y with
             | XH -> r
             | _ -> Lt)

  (** val compare : positive -> positive -> comparison **)

  let compare =
    compare_cont Eq

  (** val eqb : positive -> positive -> bool **)

  let rec eqb p q =
    match p with
    | XI p0 -> (match q with
                | XI q0 -> eqb p0 q0
                | _ -> false)
    | XO p0 -> (match q with
                | XO q0 -> eqb p0 q0
                | _ -> false)
    | XH -> (match q with
             | XH -> true
             | _ -> false)

  (** val coq_Nsucc_double : n -> n **)

  let coq_Nsucc_double = function
  | N0 -> Npos XH
  | Npos p -> Npos (XI p)

  (** val coq_Ndouble : n -> n **)

  let coq_Ndouble = function
  | N0 -> N0
  | Npos p -> Npos (XO p)

  (** val coq_lor : positive -> positive -> positive **)

  let rec coq_lor p q =
    match p with
    | XI p0 ->
      (match q with
       | XI q0 -> XI (coq_lor p0 q0)
       | XO q0 -> XI (coq_lor p0 q0)
       | XH -> p)
    | XO p0 ->
      (match q with
       | XI q0 -> XI (coq_lor p0 q0)
       | XO q0 -> XO (coq_lor p0 q0)
       | XH -> XI p0)
    | XH -> (match q with
             | XO q0 -> XI q0
             | _ -> q)

  (** val coq_land : positive -> positive -> n **)

  let rec coq_land p q =
    match p with
    | XI p0 ->
      (match q with
       | XI q0 -> coq_Nsucc_double (coq_land p0 q0)
       | XO q0 -> coq_Ndouble (coq_land p0 q0)
       | XH -> Npos XH)
    | XO p0 ->
      (match q with
       | XI q0 -> coq_Ndouble (coq_land p0 q0)
       | XO q0 -> coq_Ndouble (coq_land p0 q0)
       | XH -> N0)
    | XH -> (match q with
             | XO _ -> N0
             | _ -> Npos XH)

  (** val iter_op : ('a1 -> 'a1 -> 'a1) -> positive -> 'a1 -> 'a1 **)

  let rec iter_op op p a =
    match p with
    | XI p0 -> op a (iter_op op p0 (op a a))
    | XO p0 -> iter_op op p0 (op a a)
    | XH -> a

  (** val to_nat : positive -> nat **)

  let to_nat x =
    iter_op Coq__1.add x (S O)

  (** val eq_dec : positive -> positive -> bool **)

  let rec eq_dec p x0 =
    match p with
    | XI p0 -> (match x0 with
                | XI p1 -> eq_dec p0 p1
                | _ -> false)
    | XO p0 -> (match x0 with
                | XO p1 -> eq_dec p0 p1
                | _ -> false)
    | XH -> (match x0 with
             | XH -> true
             | _ -> false)
 end

module N =
 struct
  (** val succ_double : n -> n **)

  let succ_double = function
  | N0 -> Npos XH
  | Npos p -> Npos (XI p)

  (** val double : n -> n **)

  let double = function
  | N0 -> N0
  | Npos p -> Npos (XO p)

  (** val add : n -> n -> n **)

  let add n0 m =
    match n0 with
    | N0 -> m
    | Npos p -> (match m with
                 | N0 -> n0
                 | Npos q -> Npos (Coq_Pos.add p q))

  (** val sub : n -> n -> n **)

  let sub n0 m =
    match n0 with
    | N0 -> N0
    | Npos n' ->
      (match m with
       | N0 -> n0
       | Npos m' ->
         (match Coq_Pos.sub_mask n' m' with
          | Coq_Pos.IsPos p -> Npos p
          | _ -> N0))

  (** val mul : n -> n -> n **)

  let mul n0 m =
    match n0 with
    | N0 -> N0
    | Npos p -> (match m with
                 | N0 -> N0
                 | Npos q -> Npos (Coq_Pos.mul p q))

  (** val compare : n -> n -> comparison **)

  let compare n0 m =
    match n0 with
    | N0 -> (match m with
             | N0 -> Eq
             | Npos _ -> Lt)
    | Npos n' -> (match m with
                  | N0 -> Gt
                  | Npos m' -> Coq_Pos.compare n' m')

  (** val eqb : n -> n -> bool **)

  let eqb n0 m =
    match n0 with
    | N0 -> (match m with
             | N0 -> true
             | Npos _ -> false)
    | Npos p -> (match m with
                 | N0 -> false
                 | Npos q -> Coq_Pos.eqb p q)

  (** val leb : n -> n -> bool **)

  let leb x y =
    match compare x y with
    | Gt -> false
    | _ -> true

  (** val ltb : n -> n -> bool **)

  let ltb x y =
    match compare x y with
    | Lt -> true
    | _ -> false

  (** val pos_div_eucl : positive -> n -> n * n **)

  let rec pos_div_eucl a b =
    match a with
    | XI a' ->
      let (q, r) = pos_div_eucl a' b in
      let r' = succ_double r in
      if leb b r' then ((succ_double q), (sub r' b)) else ((double q), r')
    | XO a' ->
      let (q, r) = pos_div_eucl a' b in
      let r' = double r in
      if leb b r' then ((succ_double q), (sub r' b)) else ((double q), r')
    | XH ->
      (match b with
       | N0 -> (N0, (Npos XH))
       | Npos p -> (match p with
                    | XH -> ((Npos XH), N0)
                    | _ -> (N0, (Npos XH))))

  (** val div_eucl : n -> n -> n * n **)

  let div_eucl a b =
    match a with
    | N0 -> (N0, N0)
    | Npos na -> (match b with
                  | N0 -> (N0, a)
                  | Npos _ -> pos_div_eucl na b)

  (** val div : n -> n -> n **)

  let div a b =
    fst (div_eucl a b)

  (** val modulo : n -> n -> n **)

  let modulo a b =
    snd (div_eucl a b)

  (** val coq_lor : n -> n -> n **)

  let coq_lor n0 m =
    match n0 with
    | N0 -> m
    | Npos p -> (match m with
                 | N0 -> n0
                 | Npos q -> Npos (Coq_Pos.coq_lor p q))

  (** val coq_land : n -> n -> n **)

  let coq_land n0 m =
    match n0 with
    | N0 -> N0
    | Npos p -> (match m with
                 | N0 -> N0
                 | Npos q -> Coq_Pos.coq_land p q)

  (** val to_nat : n -> nat **)

  let to_nat = function
  | N0 -> O
  | Npos p -> Coq_Pos.to_nat p

  (** val eq_dec : n -> n -> bool **)

  let eq_dec n0 m =
    match n0 with
    | N0 -> (match m with
             | N0 -> true
             | Npos _ -> false)
    | Npos p -> (match m with
                 | N0 -> false
                 | Npos p0 -> Coq_Pos.eq_dec p p0)
 end

(** val nth_error : 'a1 list -> nat -> 'a1 option **)

let rec nth_error l = function
| O -> (match l with
        | [] -> None
        | x :: _ -> Some x)
| S n1 -> (match l with
           | [] -> None
           | _ :: l0 -> nth_error l0 n1)

(** val fold_left : ('a1 -> 'a2 -> 'a1) -> 'a2 list -> 'a1 -> 'a1 **)

let rec fold_left f l a0 =
  match l with
  | [] -> a0
  | b :: t -> fold_left f t (f a0 b)

type decision = bool

(** val decide : decision -> bool **)

let decide decision0 =
  decision0

type ('a, 'b) relDecision = 'a -> 'b -> decision

(** val decide_rel : ('a1, 'a2) relDecision -> 'a1 -> 'a2 -> decision **)

let decide_rel relDecision0 =
  relDecision0

(** val n_eq_dec : (n, n) relDecision **)

let n_eq_dec =
  N.eq_dec

(** val nONE : n **)

let nONE =
  Npos (XI XH)

(** val iDLE : n **)

let iDLE =
  N0

(** val rEPLACEMENT_TAG : n **)

let rEPLACEMENT_TAG =
  Npos XH

(** val gEN_TAG : n **)

let gEN_TAG =
  Npos (XO XH)

(** val tAG_MASK : n **)

let tAG_MASK =
  Npos (XI XH)

(** val nODE_UNUSED : n **)

let nODE_UNUSED =
  N0

(** val nODE_USED : n **)

let nODE_USED =
  Npos XH

(** val nODE_COOLDOWN : n **)

let nODE_COOLDOWN =
  Npos (XO XH)

(** val sLOT_CNT : n **)

let sLOT_CNT =
  Npos (XO (XO (XO XH)))

(** val hSLOT : n **)

let hSLOT =
  Npos (XO (XO (XO XH)))

(** val wORD : n **)

let wORD =
  Npos (XO (XO (XO (XO (XO (XO (XO (XO (XO (XO (XO (XO (XO (XO (XO (XO (XO
    (XO (XO (XO (XO (XO (XO (XO (XO (XO (XO (XO (XO (XO (XO (XO (XO (XO (XO
    (XO (XO (XO (XO (XO (XO (XO (XO (XO (XO (XO (XO (XO (XO (XO (XO (XO (XO
    (XO (XO (XO (XO (XO (XO (XO (XO (XO (XO (XO
    XH))))))))))))))))))))))))))))))))))))))))))))))))))))))))))))))))

type ord =
| Relaxed
| Acquire
| Release
| AcqRel
| SeqCst

type loc =
| LStore of n
| LHead
| LSlot of n * n
| LCtrl of n
| LAddr of n
| LOffer of n
| LEnv of n
| LInUse of n
| LWriters of n
| LCount of n

(** val loc_eq_dec : (loc, loc) relDecision **)

let loc_eq_dec x y =
  match x with
  | LStore c ->
    (match y with
     | LStore c0 -> decide_rel n_eq_dec c c0
     | _ -> false)
  | LHead -> (match y with
              | LHead -> true
              | _ -> false)
  | LSlot (n0, i) ->
    (match y with
     | LSlot (n1, i0) ->
       if decide_rel n_eq_dec n0 n1 then decide_rel n_eq_dec i i0 else false
     | _ -> false)
  | LCtrl n0 ->
    (match y with
     | LCtrl n1 -> decide_rel n_eq_dec n0 n1
     | _ -> false)
  | LAddr n0 ->
    (match y with
     | LAddr n1 -> decide_rel n_eq_dec n0 n1
     | _ -> false)
  | LOffer n0 ->
    (match y with
     | LOffer n1 -> decide_rel n_eq_dec n0 n1
     | _ -> false)
  | LEnv e -> (match y with
               | LEnv e0 -> decide_rel n_eq_dec e e0
               | _ -> false)
  | LInUse n0 ->
    (match y with
     | LInUse n1 -> decide_rel n_eq_dec n0 n1
     | _ -> false)
  | LWriters n0 ->
    (match y with
     | LWriters n1 -> decide_rel n_eq_dec n0 n1
     | _ -> false)
  | LCount a ->
    (match y with
     | LCount a0 -> decide_rel n_eq_dec a a0
     | _ -> false)

(** val env_val : n -> n **)

let env_val e =
  N.mul (Npos (XO (XO XH))) (N.add e (Npos XH))

(** val env_of : n -> n **)

let env_of v =
  N.sub (N.div v (Npos (XO (XO XH)))) (Npos XH)

(** val store_val : n -> n **)

let store_val c =
  N.mul (Npos (XO (XO (XO XH)))) (N.add c (Npos XH))

(** val node_val : n -> n **)

let node_val n0 =
  N.add n0 (Npos XH)

type aop =
| OLoad
| OStore
| OSwap
| OCas
| OCasWeak
| OFetchAdd
| OFetchSub

type retval =
| RUnit
| RNode of n
| RGuard of n * loc option
| ROwned of n

type panic_site =
| PExpectNode
| PSlotNotNone
| PCtrlNotIdle
| POwnCtrlNotIdle
| PInUseNotUsed
| PHelpMyself
| PInvalidControl
| PNotReplacement
| PCooldownNotUsed
| PGenTagged
| PSpaceUnaligned

type fault =
| FDeadInc of n
| FDeadDec of n
| FBadAlloc of n
| FBadHandle of n
| FBadChoice

type event =
| EvCmd of n
| EvAcc of loc * aop * ord * ord * n * n * bool
| EvRc of n * bool * n
| EvAlloc of n * n
| EvDestroy of n * n
| EvRet of n * retval
| EvPanic of panic_site
| EvFault of fault
| EvExit

type src =
| SNull
| SHandle of n

type rcu_mode =
| RcuNew
| RcuNull
| RcuSame

type cmd =
| CNew of n
| CClone of n * n
| CDrop of n
| CLoad of n * n
| CLoadFull of n * n
| CGuardInto of n * n
| CStore of n * src
| CSwap of n * src * n
| CCas of n * src * src * n
| CRcu of n * rcu_mode * n
| CIntoInner of n * n
| CDropStore of n
| CCacheNew of n * n
| CCacheLoad of n
| CSetGen of n

type handle =
| HEmpty
| HOwned of n
| HGuard of n * loc option
| HCache of n * n

type pc =
| GHead
| GCool1 of n
| GCool2 of n
| GCool3 of n
| GClaim of n
| GPush0
| GPush of n
| C1 of n
| C2 of n
| C3 of n
| LA1 of n
| LA1d of n * n
| LAscan of n * n * n
| LA3 of n * n * n
| LA4 of n * n * n
| LA5 of n * n * n
| LA6 of n * n
| LH0d of n
| LH1 of n * n
| LH2 of n * n
| LH3 of n * n
| LH3d of n * n * n
| LH4 of n * n * n
| LH5 of n * n * n
| LH6a of n
| LH6b of n
| LH6c of n
| LH7 of n * n
| LH8 of n * n * n
| LH9 of n * n
| LH10 of n * n
| PDec of n * retval
| GD1 of n * loc
| GI1 of n * loc
| GI2 of n * loc
| P1 of n * n
| P2 of n * n
| P3 of n * n * n
| PE0d of n * n * n
| PE0e of n * n * n
| PE1 of n * n * n
| PE2 of n * n * n * n
| PE3 of n * n * n * n
| PE4 of n * n * n * n * n
| PE5 of n * n * n * n * n * n
| PE6 of n * n * n * n * n * n * n
| PE7 of n * n * n * n * n * n * n
| PE8 of n * n * n * n
| PE9 of n * n * n * n * n
| PS of n * n * n * n
| PSi of n * n * n * n
| P5 of n * n * n
| P6 of n * n
| S1 of n * n
| K1 of n * n * n * n * loc option
| RAlloc of n * rcu_mode * n * loc option
| RInc of n * rcu_mode * n * loc option
| Q1 of n * n * n
| NewAlloc
| CloneInc of n
| WGetLoad of n
| WGetPay of n * n
| WGetSetGen of n
| WExit of retval
| WLoadFull
| WHelpRepl of n * n * n * n
| WSwap of n
| WDropOld
| WCasLoad of n * n * n
| WCasPaid of n * loc option
| WCasRetry of n * n * n
| WRcuLoad of n * rcu_mode
| WRcuCas of n * rcu_mode * n * loc option
| WRcuInto of n * loc option
| WRcuRet of n
| WRcuNext of n * rcu_mode * n * loc option
| WInto of n
| WDropStore of n
| WCacheReload of n * n * n
| WThreadExit
| KDone of n option
| KCacheDone of n * n

type status =
| Running
| Exited
| Panicked
| Faulted

type tlocal = { tl_node : n option; tl_off : n; tl_gen : n;
                tl_discard : bool; tl_depth : n }

(** val tl_init : tlocal **)

let tl_init =
  { tl_node = None; tl_off = N0; tl_gen = N0; tl_discard = false; tl_depth =
    N0 }

type thread = { t_stack : pc list; t_loc : tlocal; t_prog : cmd list;
                t_cmdi : n; t_status : status }

type config = { cf_use_fast : bool; cf_debug : bool }

type shared = { mem : (loc -> n); heap : (n -> n option); next_oid : n }

type state = { sh : shared; thr : (n -> thread); hnd : (n -> handle) }

(** val upd :
    ('a1, 'a1) relDecision -> ('a1 -> 'a2) -> 'a1 -> 'a2 -> 'a1 -> 'a2 **)

let upd eqDecision0 f k v k' =
  if decide (decide_rel eqDecision0 k' k) then v else f k'

(** val o_lib_swap : ord * ord **)

let o_lib_swap =
  (SeqCst, SeqCst)

(** val o_cache_revalidate : ord * ord **)

let o_cache_revalidate =
  (Relaxed, Relaxed)

(** val o_attempt_first : ord * ord **)

let o_attempt_first =
  (Relaxed, Relaxed)

(** val o_attempt_confirm : ord * ord **)

let o_attempt_confirm =
  (SeqCst, SeqCst)

(** val o_fallback_candidate : ord * ord **)

let o_fallback_candidate =
  (SeqCst, SeqCst)

(** val o_cas_exchange : ord * ord **)

let o_cas_exchange =
  (SeqCst, Relaxed)

(** val o_pay : ord * ord **)

let o_pay =
  (Release, Acquire)

(** val o_fast_scan : ord * ord **)

let o_fast_scan =
  (Relaxed, Relaxed)

(** val o_fast_publish : ord * ord **)

let o_fast_publish =
  (SeqCst, SeqCst)

(** val o_help_active_addr_st : ord * ord **)

let o_help_active_addr_st =
  (SeqCst, SeqCst)

(** val o_help_gen_swap : ord * ord **)

let o_help_gen_swap =
  (SeqCst, SeqCst)

(** val o_help_own_ctrl_dbg : ord * ord **)

let o_help_own_ctrl_dbg =
  (Relaxed, Relaxed)

(** val o_help_ctrl_load : ord * ord **)

let o_help_ctrl_load =
  (SeqCst, SeqCst)

(** val o_help_active_addr_ld : ord * ord **)

let o_help_active_addr_ld =
  (SeqCst, SeqCst)

(** val o_help_ctrl_reload : ord * ord **)

let o_help_ctrl_reload =
  (SeqCst, SeqCst)

(** val o_help_their_space : ord * ord **)

let o_help_their_space =
  (SeqCst, SeqCst)

(** val o_help_my_space : ord * ord **)

let o_help_my_space =
  (SeqCst, SeqCst)

(** val o_help_env_store : ord * ord **)

let o_help_env_store =
  (SeqCst, SeqCst)

(** val o_help_ctrl_cas : ord * ord **)

let o_help_ctrl_cas =
  (SeqCst, SeqCst)

(** val o_help_offer_store : ord * ord **)

let o_help_offer_store =
  (SeqCst, SeqCst)

(** val o_confirm_slot_swap : ord * ord **)

let o_confirm_slot_swap =
  (SeqCst, SeqCst)

(** val o_confirm_ctrl_swap : ord * ord **)

let o_confirm_ctrl_swap =
  (SeqCst, SeqCst)

(** val o_confirm_env_load : ord * ord **)

let o_confirm_env_load =
  (SeqCst, SeqCst)

(** val o_confirm_offer_store : ord * ord **)

let o_confirm_offer_store =
  (SeqCst, SeqCst)

(** val o_resv_sub : ord * ord **)

let o_resv_sub =
  (Release, Release)

(** val o_traverse_head : ord * ord **)

let o_traverse_head =
  (SeqCst, SeqCst)

(** val o_cooldown_swap : ord * ord **)

let o_cooldown_swap =
  (Release, Release)

(** val o_check_inuse : ord * ord **)

let o_check_inuse =
  (Acquire, Acquire)

(** val o_check_writers : ord * ord **)

let o_check_writers =
  (Relaxed, Relaxed)

(** val o_check_cas : ord * ord **)

let o_check_cas =
  (Relaxed, Relaxed)

(** val o_resv_add : ord * ord **)

let o_resv_add =
  (Acquire, Acquire)

(** val o_get_claim : ord * ord **)

let o_get_claim =
  (SeqCst, Relaxed)

(** val o_get_head_relaxed : ord * ord **)

let o_get_head_relaxed =
  (Relaxed, Relaxed)

(** val o_get_push : ord * ord **)

let o_get_push =
  (SeqCst, Relaxed)

(** val o_dbg_inuse_fast : ord * ord **)

let o_dbg_inuse_fast =
  (Relaxed, Relaxed)

(** val o_dbg_inuse_helping : ord * ord **)

let o_dbg_inuse_helping =
  (Relaxed, Relaxed)

(** val o_dbg_inuse_confirm : ord * ord **)

let o_dbg_inuse_confirm =
  (Relaxed, Relaxed)

(** val o_dbg_inuse_help : ord * ord **)

let o_dbg_inuse_help =
  (Relaxed, Relaxed)

type next =
| NGoto of pc
| NPush of pc list * pc
| NRet of retval
| NPanic of panic_site
| NFault of fault

(** val m_set : shared -> loc -> n -> shared **)

let m_set s l v =
  { mem = (upd loc_eq_dec s.mem l v); heap = s.heap; next_oid = s.next_oid }

(** val a_load : shared -> loc -> (ord * ord) -> n * event **)

let a_load s l o =
  let v = s.mem l in (v, (EvAcc (l, OLoad, (fst o), (snd o), v, v, true)))

(** val a_store : shared -> loc -> n -> (ord * ord) -> shared * event **)

let a_store s l v o =
  ((m_set s l v), (EvAcc (l, OStore, (fst o), (snd o), (s.mem l), v, true)))

(** val a_swap : shared -> loc -> n -> (ord * ord) -> (shared * n) * event **)

let a_swap s l v o =
  (((m_set s l v), (s.mem l)), (EvAcc (l, OSwap, (fst o), (snd o), (s.mem l),
    v, true)))

(** val a_cas :
    shared -> loc -> n -> n -> (ord * ord) -> bool -> bool ->
    ((shared * n) * bool) * event **)

let a_cas s l exp new0 o weak spur =
  let old = s.mem l in
  let ok = (&&) (N.eqb old exp) (negb ((&&) weak spur)) in
  let s' = if ok then m_set s l new0 else s in
  (((s', old), ok), (EvAcc (l, (if weak then OCasWeak else OCas), (fst o),
  (snd o), old, (if ok then new0 else old), ok)))

(** val a_fadd : shared -> loc -> n -> (ord * ord) -> shared * event **)

let a_fadd s l d o =
  let old = s.mem l in
  ((m_set s l (N.add old d)), (EvAcc (l, OFetchAdd, (fst o), (snd o), old,
  (N.add old d), true)))

(** val a_fsub : shared -> loc -> n -> (ord * ord) -> shared * event **)

let a_fsub s l d o =
  let old = s.mem l in
  ((m_set s l (N.sub old d)), (EvAcc (l, OFetchSub, (fst o), (snd o), old,
  (N.sub old d), true)))

(** val rc_inc : shared -> n -> (shared * event list) option **)

let rc_inc s a =
  match s.heap a with
  | Some _ ->
    let c = s.mem (LCount a) in
    Some ((m_set s (LCount a) (N.add c (Npos XH))), ((EvRc (a, true,
    c)) :: []))
  | None -> None

(** val rc_dec : shared -> n -> (shared * event list) option **)

let rc_dec s a =
  match s.heap a with
  | Some oid ->
    let c = s.mem (LCount a) in
    if N.eqb c (Npos XH)
    then Some ({ mem = (upd loc_eq_dec s.mem (LCount a) N0); heap =
           (upd n_eq_dec s.heap a None); next_oid = s.next_oid }, ((EvRc (a,
           false, c)) :: ((EvDestroy (a, oid)) :: [])))
    else Some ((m_set s (LCount a) (N.sub c (Npos XH))), ((EvRc (a, false,
           c)) :: []))
  | None -> None

(** val valid_addr : n -> bool **)

let valid_addr a =
  (&&) (negb (N.eqb a N0)) (negb (N.eqb a nONE))

(** val rc_alloc : shared -> n -> (shared * event list) option **)

let rc_alloc s a =
  match s.heap a with
  | Some _ -> None
  | None ->
    if valid_addr a
    then Some ({ mem = (upd loc_eq_dec s.mem (LCount a) (Npos XH)); heap =
           (upd n_eq_dec s.heap a (Some s.next_oid)); next_oid =
           (N.add s.next_oid (Npos XH)) }, ((EvAlloc (a, s.next_oid)) :: []))
    else None

(** val node_init : shared -> n -> shared **)

let node_init s n0 =
  let m = s.mem in
  let m0 =
    fold_left (fun m0 i -> upd loc_eq_dec m0 (LSlot (n0, i)) nONE)
      (N0 :: ((Npos XH) :: ((Npos (XO XH)) :: ((Npos (XI XH)) :: ((Npos (XO
      (XO XH))) :: ((Npos (XI (XO XH))) :: ((Npos (XO (XI XH))) :: ((Npos (XI
      (XI XH))) :: ((Npos (XO (XO (XO XH)))) :: []))))))))) m
  in
  let m1 = upd loc_eq_dec m0 (LCtrl n0) iDLE in
  let m2 = upd loc_eq_dec m1 (LAddr n0) N0 in
  let m3 = upd loc_eq_dec m2 (LOffer n0) (env_val n0) in
  let m4 = upd loc_eq_dec m3 (LEnv n0) N0 in
  let m5 = upd loc_eq_dec m4 (LInUse n0) nODE_USED in
  let m6 = upd loc_eq_dec m5 (LWriters n0) N0 in
  { mem = m6; heap = s.heap; next_oid = s.next_oid }

(** val tl_set_node : tlocal -> n option -> tlocal **)

let tl_set_node l n0 =
  { tl_node = n0; tl_off = l.tl_off; tl_gen = l.tl_gen; tl_discard =
    l.tl_discard; tl_depth = l.tl_depth }

(** val tl_set_off : tlocal -> n -> tlocal **)

let tl_set_off l o =
  { tl_node = l.tl_node; tl_off = o; tl_gen = l.tl_gen; tl_discard =
    l.tl_discard; tl_depth = l.tl_depth }

(** val tl_set_gen : tlocal -> n -> tlocal **)

let tl_set_gen l g =
  { tl_node = l.tl_node; tl_off = l.tl_off; tl_gen = g; tl_discard =
    l.tl_discard; tl_depth = l.tl_depth }

(** val tl_set_discard : tlocal -> bool -> tlocal **)

let tl_set_discard l b =
  { tl_node = l.tl_node; tl_off = l.tl_off; tl_gen = l.tl_gen; tl_discard =
    b; tl_depth = l.tl_depth }

(** val tl_set_depth : tlocal -> n -> tlocal **)

let tl_set_depth l d =
  { tl_node = l.tl_node; tl_off = l.tl_off; tl_gen = l.tl_gen; tl_discard =
    l.tl_discard; tl_depth = d }

(** val dec_then : n -> retval -> next **)

let dec_then a r =
  if N.eqb a N0 then NRet r else NGoto (PDec (a, r))

(** val with_exit : tlocal -> retval -> tlocal * next **)

let with_exit l r =
  let d = N.sub l.tl_depth (Npos XH) in
  let l0 = tl_set_depth l d in
  if (&&) (N.eqb d N0) l0.tl_discard
  then let l1 = tl_set_discard l0 false in
       (match l1.tl_node with
        | Some n0 ->
          ((tl_set_node l1 None), (NPush (((C1 n0) :: []), (WExit r))))
        | None -> (l1, (NRet r)))
  else (l0, (NRet r))

(** val fallback_entry : config -> tlocal -> n -> tlocal * next **)

let fallback_entry cf l c =
  match l.tl_node with
  | Some _ ->
    if cf.cf_debug
    then (l, (NGoto (LH0d c)))
    else let g = N.modulo (N.add l.tl_gen (Npos (XO (XO XH)))) wORD in
         ((tl_set_gen l g), (NGoto (LH1 (c, (N.coq_lor g gEN_TAG)))))
  | None -> (l, (NPanic PExpectNode))

(** val gen_step : config -> tlocal -> n -> tlocal * next **)

let gen_step cf l c =
  let g = N.modulo (N.add l.tl_gen (Npos (XO (XO XH)))) wORD in
  if (&&) cf.cf_debug (negb (N.eqb (N.coq_land g gEN_TAG) N0))
  then (l, (NPanic PGenTagged))
  else ((tl_set_gen l g), (NGoto (LH1 (c, (N.coq_lor g gEN_TAG)))))

(** val load_body : config -> tlocal -> n -> tlocal * next **)

let load_body cf l c =
  if cf.cf_use_fast then (l, (NGoto (LA1 c))) else fallback_entry cf l c

(** val enter_load :
    config -> tlocal -> n -> (tlocal * pc list, panic_site) sum **)

let enter_load cf l c =
  match l.tl_node with
  | Some _ ->
    let l0 = tl_set_depth l (N.add l.tl_depth (Npos XH)) in
    let (l1, n0) = load_body cf l0 c in
    (match n0 with
     | NGoto p -> Inl (l1, (p :: []))
     | NPanic s -> Inr s
     | _ -> Inr PExpectNode)
  | None -> Inl (l, (GHead :: ((WGetLoad c) :: [])))

(** val pay_body : n -> n -> pc **)

let pay_body old c =
  if N.eqb old N0 then P2 (c, old) else P1 (c, old)

(** val enter_pay : tlocal -> n -> n -> tlocal * pc list **)

let enter_pay l c old =
  match l.tl_node with
  | Some _ ->
    ((tl_set_depth l (N.add l.tl_depth (Npos XH))), ((pay_body old c) :: []))
  | None -> (l, (GHead :: ((WGetPay (c, old)) :: [])))

(** val guard_drop_frames : n -> loc option -> pc list **)

let guard_drop_frames p = function
| Some sl -> (GD1 (p, sl)) :: []
| None -> if N.eqb p N0 then [] else (PDec (p, RUnit)) :: []

(** val guard_into_frames : n -> loc option -> pc list **)

let guard_into_frames p = function
| Some sl -> if N.eqb p N0 then (GI2 (p, sl)) :: [] else (GI1 (p, sl)) :: []
| None -> []

(** val help_dispatch : config -> tlocal -> n -> n -> n -> n -> next **)

let help_dispatch cf l c old w ctl =
  let tag = N.coq_land ctl tAG_MASK in
  if N.eqb tag iDLE
  then if N.eqb ctl iDLE
       then NGoto (PS (c, old, w, N0))
       else NPanic PInvalidControl
  else if N.eqb tag rEPLACEMENT_TAG
       then NGoto (PS (c, old, w, N0))
       else if N.eqb tag gEN_TAG
            then if (&&) cf.cf_debug
                      (match l.tl_node with
                       | Some own -> N.eqb own w
                       | None -> false)
                 then NPanic PHelpMyself
                 else NGoto (PE2 (c, old, w, ctl))
            else NPanic PInvalidControl

(** val after_slot : n -> n -> n -> n -> next **)

let after_slot c old w j =
  if N.eqb j hSLOT
  then NGoto (P5 (c, old, w))
  else NGoto (PS (c, old, w, (N.add j (Npos XH))))

(** val own_node : tlocal -> n **)

let own_node l =
  match l.tl_node with
  | Some n0 -> n0
  | None -> N0

(** val exec :
    config -> shared -> tlocal -> pc -> n -> ((shared * tlocal) * event
    list) * next **)

let exec cf s l p x =
  let n0 = own_node l in
  let dbg = cf.cf_debug in
  (match p with
   | GHead ->
     let (h, e) = a_load s LHead o_traverse_head in
     (((s, l), (e :: [])),
     (if N.eqb h N0 then NGoto GPush0 else NGoto (GCool1 (N.sub h (Npos XH)))))
   | GCool1 w ->
     let (v, e) = a_load s (LInUse w) o_check_inuse in
     (((s, l), (e :: [])),
     (if N.eqb v nODE_COOLDOWN then NGoto (GCool2 w) else NGoto (GClaim w)))
   | GCool2 w ->
     let (v, e) = a_load s (LWriters w) o_check_writers in
     (((s, l), (e :: [])),
     (if N.eqb v N0 then NGoto (GCool3 w) else NGoto (GClaim w)))
   | GCool3 w ->
     let (p0, e) =
       a_cas s (LInUse w) nODE_COOLDOWN nODE_UNUSED o_check_cas false false
     in
     let (p1, _) = p0 in
     let (s', _) = p1 in (((s', l), (e :: [])), (NGoto (GClaim w)))
   | GClaim w ->
     let (p0, e) =
       a_cas s (LInUse w) nODE_UNUSED nODE_USED o_get_claim false false
     in
     let (p1, ok) = p0 in
     let (s', _) = p1 in
     (((s', l), (e :: [])),
     (if ok
      then NRet (RNode w)
      else if N.eqb w N0
           then NGoto GPush0
           else NGoto (GCool1 (N.sub w (Npos XH)))))
   | GPush0 ->
     let (h, e) = a_load s LHead o_get_head_relaxed in
     (((s, l), (e :: [])), (NGoto (GPush h)))
   | GPush h ->
     let (p0, e) =
       a_cas s LHead h (node_val h) o_get_push true (N.eqb x (Npos XH))
     in
     let (p1, ok) = p0 in
     let (s', old) = p1 in
     if ok
     then ((((node_init s' h), l), (e :: [])), (NRet (RNode h)))
     else (((s', l), (e :: [])), (NGoto (GPush old)))
   | C1 w ->
     let (s', e) = a_fadd s (LWriters w) (Npos XH) o_resv_add in
     (((s', l), (e :: [])), (NGoto (C2 w)))
   | C2 w ->
     let (p0, e) = a_swap s (LInUse w) nODE_COOLDOWN o_cooldown_swap in
     let (s', old) = p0 in
     (((s', l), (e :: [])),
     (if N.eqb old nODE_USED then NGoto (C3 w) else NPanic PCooldownNotUsed))
   | C3 w ->
     let (s', e) = a_fsub s (LWriters w) (Npos XH) o_resv_sub in
     (((s', l), (e :: [])), (NRet RUnit))
   | LA1 c ->
     let (v, e) = a_load s (LStore c) o_attempt_first in
     (match l.tl_node with
      | Some _ ->
        (((s, l), (e :: [])),
          (if dbg then NGoto (LA1d (c, v)) else NGoto (LAscan (c, v, N0))))
      | None -> (((s, l), (e :: [])), (NPanic PExpectNode)))
   | LA1d (c, v) ->
     let (u, e) = a_load s (LInUse n0) o_dbg_inuse_fast in
     (((s, l), (e :: [])),
     (if N.eqb u nODE_USED
      then NGoto (LAscan (c, v, N0))
      else NPanic PInUseNotUsed))
   | LAscan (c, v, i) ->
     let j = N.modulo (N.add i l.tl_off) sLOT_CNT in
     let (u, e) = a_load s (LSlot (n0, j)) o_fast_scan in
     if N.eqb u nONE
     then (((s, l), (e :: [])), (NGoto (LA3 (c, v, j))))
     else if N.eqb i (Npos (XI (XI XH)))
          then let (l', nx) = fallback_entry cf l c in
               (((s, l'), (e :: [])), nx)
          else (((s, l), (e :: [])), (NGoto (LAscan (c, v,
                 (N.add i (Npos XH))))))
   | LA3 (c, v, j) ->
     let (p0, e) = a_swap s (LSlot (n0, j)) v o_fast_publish in
     let (s', old) = p0 in
     if (&&) dbg (negb (N.eqb old nONE))
     then (((s', l), (e :: [])), (NPanic PSlotNotNone))
     else (((s', (tl_set_off l (N.add j (Npos XH)))), (e :: [])), (NGoto (LA4
            (c, v, j))))
   | LA4 (c, v, j) ->
     let (u, e) = a_load s (LStore c) o_attempt_confirm in
     if N.eqb u v
     then let (l', nx) = with_exit l (RGuard (v, (Some (LSlot (n0, j))))) in
          (((s, l'), (e :: [])), nx)
     else (((s, l), (e :: [])), (NGoto (LA5 (c, v, j))))
   | LA5 (c, v, j) ->
     let (p0, e) = a_cas s (LSlot (n0, j)) v nONE o_pay false false in
     let (p1, ok) = p0 in
     let (s', _) = p1 in
     if (||) ok (N.eqb v N0)
     then let (l', nx) = fallback_entry cf l c in (((s', l'), (e :: [])), nx)
     else (((s', l), (e :: [])), (NGoto (LA6 (c, v))))
   | LA6 (c, v) ->
     (match rc_dec s v with
      | Some p0 ->
        let (s', evs) = p0 in
        let (l', nx) = fallback_entry cf l c in (((s', l'), evs), nx)
      | None -> (((s, l), []), (NFault (FDeadDec v))))
   | LH0d c ->
     let (u, e) = a_load s (LInUse n0) o_dbg_inuse_helping in
     if N.eqb u nODE_USED
     then let (l', nx) = gen_step cf l c in (((s, l'), (e :: [])), nx)
     else (((s, l), (e :: [])), (NPanic PInUseNotUsed))
   | LH1 (c, gt) ->
     let (s', e) = a_store s (LAddr n0) (store_val c) o_help_active_addr_st in
     (((s', l), (e :: [])), (NGoto (LH2 (c, gt))))
   | LH2 (c, gt) ->
     let (p0, e) = a_swap s (LCtrl n0) gt o_help_gen_swap in
     let (s', prev) = p0 in
     if (&&) dbg (negb (N.eqb prev iDLE))
     then (((s', l), (e :: [])), (NPanic PCtrlNotIdle))
     else (((s', (if N.eqb gt gEN_TAG then tl_set_discard l true else l)),
            (e :: [])), (NGoto (LH3 (c, gt))))
   | LH3 (c, gt) ->
     let (v, e) = a_load s (LStore c) o_fallback_candidate in
     (match l.tl_node with
      | Some _ ->
        (((s, l), (e :: [])),
          (if dbg then NGoto (LH3d (c, gt, v)) else NGoto (LH4 (c, gt, v))))
      | None -> (((s, l), (e :: [])), (NPanic PExpectNode)))
   | LH3d (c, gt, v) ->
     let (u, e) = a_load s (LInUse n0) o_dbg_inuse_confirm in
     (((s, l), (e :: [])),
     (if N.eqb u nODE_USED
      then NGoto (LH4 (c, gt, v))
      else NPanic PInUseNotUsed))
   | LH4 (c, gt, v) ->
     let (p0, e) = a_swap s (LSlot (n0, hSLOT)) v o_confirm_slot_swap in
     let (s', prev) = p0 in
     if (&&) dbg (negb (N.eqb prev nONE))
     then (((s', l), (e :: [])), (NPanic PSlotNotNone))
     else (((s', l), (e :: [])), (NGoto (LH5 (c, gt, v))))
   | LH5 (_, gt, v) ->
     let (p0, e) = a_swap s (LCtrl n0) iDLE o_confirm_ctrl_swap in
     let (s', ctl) = p0 in
     if N.eqb ctl gt
     then (((s', l), (e :: [])),
            (if N.eqb v N0 then NGoto (LH6b v) else NGoto (LH6a v)))
     else if (&&) dbg (negb (N.eqb (N.coq_land ctl tAG_MASK) rEPLACEMENT_TAG))
          then (((s', l), (e :: [])), (NPanic PNotReplacement))
          else (((s', l), (e :: [])), (NGoto (LH7 (v,
                 (env_of (N.sub ctl (N.coq_land ctl tAG_MASK)))))))
   | LH6a v ->
     (match rc_inc s v with
      | Some p0 -> let (s', evs) = p0 in (((s', l), evs), (NGoto (LH6b v)))
      | None -> (((s, l), []), (NFault (FDeadInc v))))
   | LH6b v ->
     let (p0, e) = a_cas s (LSlot (n0, hSLOT)) v nONE o_pay false false in
     let (p1, ok) = p0 in
     let (s', _) = p1 in
     if (||) ok (N.eqb v N0)
     then let (l', nx) = with_exit l (RGuard (v, None)) in
          (((s', l'), (e :: [])), nx)
     else (((s', l), (e :: [])), (NGoto (LH6c v)))
   | LH6c v ->
     (match rc_dec s v with
      | Some p0 ->
        let (s', evs) = p0 in
        let (l', nx) = with_exit l (RGuard (v, None)) in (((s', l'), evs), nx)
      | None -> (((s, l), []), (NFault (FDeadDec v))))
   | LH7 (v, e') ->
     let (r, e) = a_load s (LEnv e') o_confirm_env_load in
     (((s, l), (e :: [])), (NGoto (LH8 (v, e', r))))
   | LH8 (v, e', r) ->
     let (s', e) = a_store s (LOffer n0) (env_val e') o_confirm_offer_store in
     (((s', l), (e :: [])), (NGoto (LH9 (v, r))))
   | LH9 (v, r) ->
     let (p0, e) = a_cas s (LSlot (n0, hSLOT)) v nONE o_pay false false in
     let (p1, ok) = p0 in
     let (s', _) = p1 in
     if (||) ok (N.eqb v N0)
     then let (l', nx) = with_exit l (RGuard (r, None)) in
          (((s', l'), (e :: [])), nx)
     else (((s', l), (e :: [])), (NGoto (LH10 (v, r))))
   | LH10 (v, r) ->
     (match rc_dec s v with
      | Some p0 ->
        let (s', evs) = p0 in
        let (l', nx) = with_exit l (RGuard (r, None)) in (((s', l'), evs), nx)
      | None -> (((s, l), []), (NFault (FDeadDec v))))
   | PDec (a, r) ->
     (match rc_dec s a with
      | Some p0 -> let (s', evs) = p0 in (((s', l), evs), (NRet r))
      | None -> (((s, l), []), (NFault (FDeadDec a))))
   | GD1 (v, sl) ->
     let (p0, e) = a_cas s sl v nONE o_pay false false in
     let (p1, ok) = p0 in
     let (s', _) = p1 in
     (((s', l), (e :: [])), (if ok then NRet RUnit else dec_then v RUnit))
   | GI1 (v, sl) ->
     (match rc_inc s v with
      | Some p0 ->
        let (s', evs) = p0 in (((s', l), evs), (NGoto (GI2 (v, sl))))
      | None -> (((s, l), []), (NFault (FDeadInc v))))
   | GI2 (v, sl) ->
     let (p0, e) = a_cas s sl v nONE o_pay false false in
     let (p1, ok) = p0 in
     let (s', _) = p1 in
     (((s', l), (e :: [])),
     (if ok then NRet (ROwned v) else dec_then v (ROwned v)))
   | P1 (c, old) ->
     (match rc_inc s old with
      | Some p0 ->
        let (s', evs) = p0 in (((s', l), evs), (NGoto (P2 (c, old))))
      | None -> (((s, l), []), (NFault (FDeadInc old))))
   | P2 (c, old) ->
     let (h, e) = a_load s LHead o_traverse_head in
     if N.eqb h N0
     then if N.eqb old N0
          then let (l', nx) = with_exit l RUnit in (((s, l'), (e :: [])), nx)
          else (((s, l), (e :: [])), (NGoto (P6 (c, old))))
     else (((s, l), (e :: [])), (NGoto (P3 (c, old, (N.sub h (Npos XH))))))
   | P3 (c, old, w) ->
     let (s', e) = a_fadd s (LWriters w) (Npos XH) o_resv_add in
     (match l.tl_node with
      | Some _ ->
        (((s', l), (e :: [])),
          (if dbg then NGoto (PE0d (c, old, w)) else NGoto (PE1 (c, old, w))))
      | None -> (((s', l), (e :: [])), (NPanic PExpectNode)))
   | PE0d (c, old, w) ->
     let (u, e) = a_load s (LInUse n0) o_dbg_inuse_help in
     (((s, l), (e :: [])),
     (if N.eqb u nODE_USED
      then NGoto (PE0e (c, old, w))
      else NPanic PInUseNotUsed))
   | PE0e (c, old, w) ->
     let (u, e) = a_load s (LCtrl n0) o_help_own_ctrl_dbg in
     (((s, l), (e :: [])),
     (if N.eqb u iDLE then NGoto (PE1 (c, old, w)) else NPanic POwnCtrlNotIdle))
   | PE1 (c, old, w) ->
     let (ctl, e) = a_load s (LCtrl w) o_help_ctrl_load in
     (((s, l), (e :: [])), (help_dispatch cf l c old w ctl))
   | PE2 (c, old, w, ctl) ->
     let (a, e) = a_load s (LAddr w) o_help_active_addr_ld in
     if N.eqb a (store_val c)
     then (match enter_load cf l c with
           | Inl p0 ->
             let (l', frames) = p0 in
             (((s, l'), (e :: [])), (NPush ((app frames (WLoadFull :: [])),
             (WHelpRepl (c, old, w, ctl)))))
           | Inr ps -> (((s, l), (e :: [])), (NPanic ps)))
     else (((s, l), (e :: [])), (NGoto (PE3 (c, old, w, ctl))))
   | PE3 (c, old, w, ctl) ->
     let (ctl', e) = a_load s (LCtrl w) o_help_ctrl_reload in
     (((s, l), (e :: [])),
     (if N.eqb ctl' ctl
      then NGoto (PS (c, old, w, N0))
      else help_dispatch cf l c old w ctl'))
   | PE4 (c, old, w, ctl, r) ->
     let (their, e) = a_load s (LOffer w) o_help_their_space in
     (((s, l), (e :: [])), (NGoto (PE5 (c, old, w, ctl, r, their))))
   | PE5 (c, old, w, ctl, r, their) ->
     let (mine, e) = a_load s (LOffer n0) o_help_my_space in
     (((s, l), (e :: [])), (NGoto (PE6 (c, old, w, ctl, r, their, mine))))
   | PE6 (c, old, w, ctl, r, their, mine) ->
     let (s', e) = a_store s (LEnv (env_of mine)) r o_help_env_store in
     (((s', l), (e :: [])),
     (if N.eqb (N.coq_land mine tAG_MASK) N0
      then NGoto (PE7 (c, old, w, ctl, r, their, mine))
      else NPanic PSpaceUnaligned))
   | PE7 (c, old, w, ctl, r, their, mine) ->
     let (p0, e) =
       a_cas s (LCtrl w) ctl (N.coq_lor mine rEPLACEMENT_TAG) o_help_ctrl_cas
         false false
     in
     let (p1, ok) = p0 in
     let (s', newctl) = p1 in
     if ok
     then (((s', l), (e :: [])), (NGoto (PE8 (c, old, w, their))))
     else (((s', l), (e :: [])),
            (if N.eqb r N0
             then help_dispatch cf l c old w newctl
             else NGoto (PE9 (c, old, w, newctl, r))))
   | PE8 (c, old, w, their) ->
     let (s', e) = a_store s (LOffer n0) their o_help_offer_store in
     (((s', l), (e :: [])), (NGoto (PS (c, old, w, N0))))
   | PE9 (c, old, w, newctl, r) ->
     (match rc_dec s r with
      | Some p0 ->
        let (s', evs) = p0 in
        (((s', l), evs), (help_dispatch cf l c old w newctl))
      | None -> (((s, l), []), (NFault (FDeadDec r))))
   | PS (c, old, w, j) ->
     let (p0, e) = a_cas s (LSlot (w, j)) old nONE o_pay false false in
     let (p1, ok) = p0 in
     let (s', _) = p1 in
     (((s', l), (e :: [])),
     (if (&&) ok (negb (N.eqb old N0))
      then NGoto (PSi (c, old, w, j))
      else after_slot c old w j))
   | PSi (c, old, w, j) ->
     (match rc_inc s old with
      | Some p0 ->
        let (s', evs) = p0 in (((s', l), evs), (after_slot c old w j))
      | None -> (((s, l), []), (NFault (FDeadInc old))))
   | P5 (c, old, w) ->
     let (s', e) = a_fsub s (LWriters w) (Npos XH) o_resv_sub in
     if N.eqb w N0
     then if N.eqb old N0
          then let (l', nx) = with_exit l RUnit in (((s', l'), (e :: [])), nx)
          else (((s', l), (e :: [])), (NGoto (P6 (c, old))))
     else (((s', l), (e :: [])), (NGoto (P3 (c, old, (N.sub w (Npos XH))))))
   | P6 (_, old) ->
     (match rc_dec s old with
      | Some p0 ->
        let (s', evs) = p0 in
        let (l', nx) = with_exit l RUnit in (((s', l'), evs), nx)
      | None -> (((s, l), []), (NFault (FDeadDec old))))
   | S1 (c, new0) ->
     let (p0, e) = a_swap s (LStore c) new0 o_lib_swap in
     let (s', old) = p0 in
     let (l', frames) = enter_pay l c old in
     (((s', l'), (e :: [])), (NPush (frames, (WSwap old))))
   | K1 (c, cur, new0, v, d) ->
     let (p0, e) =
       a_cas s (LStore c) cur new0 o_cas_exchange true (N.eqb x (Npos XH))
     in
     let (p1, ok) = p0 in
     let (s', _) = p1 in
     if ok
     then let (l', frames) = enter_pay l c v in
          (((s', l'), (e :: [])), (NPush (frames, (WCasPaid (v, d)))))
     else (match guard_drop_frames v d with
           | [] ->
             (match enter_load cf l c with
              | Inl p2 ->
                let (l', frames) = p2 in
                (((s', l'), (e :: [])), (NPush (frames, (WCasLoad (c, cur,
                new0)))))
              | Inr ps -> (((s', l), (e :: [])), (NPanic ps)))
           | p2 :: l0 ->
             (((s', l), (e :: [])), (NPush ((p2 :: l0), (WCasRetry (c, cur,
               new0))))))
   | RAlloc (c, m, v, d) ->
     (match rc_alloc s x with
      | Some p0 ->
        let (s', evs) = p0 in
        (match enter_load cf l c with
         | Inl p1 ->
           let (l', frames) = p1 in
           (((s', l'), evs), (NPush
           ((app frames ((WCasLoad (c, v, x)) :: [])), (WRcuCas (c, m, v,
           d)))))
         | Inr ps -> (((s', l), evs), (NPanic ps)))
      | None -> (((s, l), []), (NFault (FBadAlloc x))))
   | RInc (c, m, v, d) ->
     (match rc_inc s v with
      | Some p0 ->
        let (s', evs) = p0 in
        (match enter_load cf l c with
         | Inl p1 ->
           let (l', frames) = p1 in
           (((s', l'), evs), (NPush
           ((app frames ((WCasLoad (c, v, v)) :: [])), (WRcuCas (c, m, v,
           d)))))
         | Inr ps -> (((s', l), evs), (NPanic ps)))
      | None -> (((s, l), []), (NFault (FDeadInc v))))
   | Q1 (c, a, k) ->
     let (v, e) = a_load s (LStore c) o_cache_revalidate in
     if N.eqb v a
     then (((s, l), (e :: [])), (NRet RUnit))
     else (match enter_load cf l c with
           | Inl p0 ->
             let (l', frames) = p0 in
             (((s, l'), (e :: [])), (NPush ((app frames (WLoadFull :: [])),
             (WCacheReload (c, a, k)))))
           | Inr ps -> (((s, l), (e :: [])), (NPanic ps)))
   | NewAlloc ->
     (match rc_alloc s x with
      | Some p0 -> let (s', evs) = p0 in (((s', l), evs), (NRet (ROwned x)))
      | None -> (((s, l), []), (NFault (FBadAlloc x))))
   | CloneInc a ->
     (match rc_inc s a with
      | Some p0 -> let (s', evs) = p0 in (((s', l), evs), (NRet (ROwned a)))
      | None -> (((s, l), []), (NFault (FDeadInc a))))
   | _ -> (((s, l), []), (NFault FBadChoice)))

(** val resume : config -> tlocal -> pc -> retval -> tlocal * next **)

let resume cf l w v =
  match w with
  | WGetLoad c ->
    (match v with
     | RNode n0 ->
       let l0 =
         tl_set_depth (tl_set_node l (Some n0)) (N.add l.tl_depth (Npos XH))
       in
       load_body cf l0 c
     | _ -> (l, (NFault FBadChoice)))
  | WGetPay (c, old) ->
    (match v with
     | RNode n0 ->
       ((tl_set_depth (tl_set_node l (Some n0)) (N.add l.tl_depth (Npos XH))),
         (NGoto (pay_body old c)))
     | _ -> (l, (NFault FBadChoice)))
  | WGetSetGen g ->
    (match v with
     | RNode n0 ->
       let l0 = tl_set_gen (tl_set_node l (Some n0)) g in (l0, (NRet RUnit))
     | _ -> (l, (NFault FBadChoice)))
  | WExit r -> (l, (NRet r))
  | WLoadFull ->
    (match v with
     | RGuard (p, d) ->
       (match guard_into_frames p d with
        | [] -> (l, (NRet (ROwned p)))
        | f :: _ -> (l, (NGoto f)))
     | _ -> (l, (NFault FBadChoice)))
  | WHelpRepl (c, old, w0, ctl) ->
    (match v with
     | ROwned r -> (l, (NGoto (PE4 (c, old, w0, ctl, r))))
     | _ -> (l, (NFault FBadChoice)))
  | WSwap old -> (l, (NRet (ROwned old)))
  | WDropOld ->
    (match v with
     | ROwned old -> (l, (dec_then old RUnit))
     | _ -> (l, (NFault FBadChoice)))
  | WCasLoad (c, cur, new0) ->
    (match v with
     | RGuard (p, d) ->
       if N.eqb p cur
       then (l, (NGoto (K1 (c, cur, new0, p, d))))
       else (l, (dec_then new0 (RGuard (p, d))))
     | _ -> (l, (NFault FBadChoice)))
  | WCasPaid (p, d) -> (l, (dec_then p (RGuard (p, d))))
  | WCasRetry (c, cur, new0) ->
    (match enter_load cf l c with
     | Inl p ->
       let (l', frames) = p in
       (l', (NPush (frames, (WCasLoad (c, cur, new0)))))
     | Inr ps -> (l, (NPanic ps)))
  | WRcuLoad (c, m) ->
    (match v with
     | RGuard (p, d) ->
       (match m with
        | RcuNew -> (l, (NGoto (RAlloc (c, m, p, d))))
        | RcuNull ->
          (match enter_load cf l c with
           | Inl p0 ->
             let (l', frames) = p0 in
             (l', (NPush ((app frames ((WCasLoad (c, p, N0)) :: [])),
             (WRcuCas (c, m, p, d)))))
           | Inr ps -> (l, (NPanic ps)))
        | RcuSame ->
          if N.eqb p N0
          then (match enter_load cf l c with
                | Inl p0 ->
                  let (l', frames) = p0 in
                  (l', (NPush ((app frames ((WCasLoad (c, p, N0)) :: [])),
                  (WRcuCas (c, m, p, d)))))
                | Inr ps -> (l, (NPanic ps)))
          else (l, (NGoto (RInc (c, m, p, d)))))
     | _ -> (l, (NFault FBadChoice)))
  | WRcuCas (c, m, p, d) ->
    (match v with
     | RGuard (q, dq) ->
       if N.eqb p q
       then (match guard_into_frames q dq with
             | [] ->
               (match guard_drop_frames p d with
                | [] -> (l, (NRet (ROwned q)))
                | p0 :: l0 -> (l, (NPush ((p0 :: l0), (WRcuRet q)))))
             | p0 :: l0 -> (l, (NPush ((p0 :: l0), (WRcuInto (p, d))))))
       else (match guard_drop_frames p d with
             | [] ->
               (match m with
                | RcuNew -> (l, (NGoto (RAlloc (c, m, q, dq))))
                | RcuNull ->
                  (match enter_load cf l c with
                   | Inl p0 ->
                     let (l', frames) = p0 in
                     (l', (NPush ((app frames ((WCasLoad (c, q, N0)) :: [])),
                     (WRcuCas (c, m, q, dq)))))
                   | Inr ps -> (l, (NPanic ps)))
                | RcuSame ->
                  if N.eqb q N0
                  then (match enter_load cf l c with
                        | Inl p0 ->
                          let (l', frames) = p0 in
                          (l', (NPush
                          ((app frames ((WCasLoad (c, q, N0)) :: [])),
                          (WRcuCas (c, m, q, dq)))))
                        | Inr ps -> (l, (NPanic ps)))
                  else (l, (NGoto (RInc (c, m, q, dq)))))
             | p0 :: l0 -> (l, (NPush ((p0 :: l0), (WRcuNext (c, m, q, dq))))))
     | _ -> (l, (NFault FBadChoice)))
  | WRcuInto (p, d) ->
    (match v with
     | ROwned q ->
       (match guard_drop_frames p d with
        | [] -> (l, (NRet (ROwned q)))
        | p0 :: l0 -> (l, (NPush ((p0 :: l0), (WRcuRet q)))))
     | _ -> (l, (NFault FBadChoice)))
  | WRcuRet q -> (l, (NRet (ROwned q)))
  | WRcuNext (c, m, q, dq) ->
    (match m with
     | RcuNew -> (l, (NGoto (RAlloc (c, m, q, dq))))
     | RcuNull ->
       (match enter_load cf l c with
        | Inl p ->
          let (l', frames) = p in
          (l', (NPush ((app frames ((WCasLoad (c, q, N0)) :: [])), (WRcuCas
          (c, m, q, dq)))))
        | Inr ps -> (l, (NPanic ps)))
     | RcuSame ->
       if N.eqb q N0
       then (match enter_load cf l c with
             | Inl p ->
               let (l', frames) = p in
               (l', (NPush ((app frames ((WCasLoad (c, q, N0)) :: [])),
               (WRcuCas (c, m, q, dq)))))
             | Inr ps -> (l, (NPanic ps)))
       else (l, (NGoto (RInc (c, m, q, dq)))))
  | WInto p -> (l, (NRet (ROwned p)))
  | WDropStore p -> (l, (dec_then p RUnit))
  | WCacheReload (_, a, _) ->
    (match v with
     | ROwned a' ->
       if N.eqb a N0
       then (l, (NRet (ROwned a')))
       else (l, (NGoto (PDec (a, (ROwned a')))))
     | _ -> (l, (NFault FBadChoice)))
  | _ -> (l, (NFault FBadChoice))

type unwound =
| UStack of tlocal * pc list
| UDone of tlocal * (n * handle) option * retval
| UExit of tlocal
| UPanic of tlocal * panic_site
| UFault of tlocal * fault

(** val handle_of : retval -> handle **)

let handle_of = function
| RGuard (p, d) -> HGuard (p, d)
| ROwned p -> HOwned p
| _ -> HEmpty

(** val unwind : config -> tlocal -> pc list -> retval -> unwound **)

let rec unwind cf l stk v =
  match stk with
  | [] -> UDone (l, None, v)
  | w :: rest ->
    (match w with
     | WThreadExit -> UExit l
     | KDone dst ->
       UDone (l,
         (match dst with
          | Some h -> Some (h, (handle_of v))
          | None -> None), v)
     | KCacheDone (c, k) ->
       UDone (l,
         (match v with
          | ROwned a -> Some (k, (HCache (c, a)))
          | _ -> None), v)
     | _ ->
       let (l', n0) = resume cf l w v in
       (match n0 with
        | NGoto p -> UStack (l', (p :: rest))
        | NPush (frames, wait) -> UStack (l', (app frames (wait :: rest)))
        | NRet v' -> unwind cf l' rest v'
        | NPanic s -> UPanic (l', s)
        | NFault f -> UFault (l', f)))

(** val set_thread : state -> n -> thread -> state **)

let set_thread s t th =
  { sh = s.sh; thr = (upd n_eq_dec s.thr t th); hnd = s.hnd }

(** val src_val : state -> src -> n option **)

let src_val s = function
| SNull -> Some N0
| SHandle h ->
  (match s.hnd h with
   | HOwned a -> Some a
   | HGuard (a, _) -> Some a
   | _ -> None)

(** val cmd_enabled : state -> cmd -> bool **)

let cmd_enabled s = function
| CClone (h, _) ->
  (match s.hnd h with
   | HEmpty -> false
   | HCache (_, _) -> false
   | _ -> true)
| CDrop h -> (match s.hnd h with
              | HEmpty -> false
              | _ -> true)
| CGuardInto (h, _) -> (match s.hnd h with
                        | HGuard (_, _) -> true
                        | _ -> false)
| CStore (_, v) ->
  (match v with
   | SNull -> true
   | SHandle h -> (match s.hnd h with
                   | HOwned _ -> true
                   | _ -> false))
| CSwap (_, v, _) ->
  (match v with
   | SNull -> true
   | SHandle h -> (match s.hnd h with
                   | HOwned _ -> true
                   | _ -> false))
| CCas (_, cur, new0, _) ->
  (&&) (match src_val s cur with
        | Some _ -> true
        | None -> false)
    (match new0 with
     | SNull -> true
     | SHandle h -> (match s.hnd h with
                     | HOwned _ -> true
                     | _ -> false))
| CCacheLoad k -> (match s.hnd k with
                   | HCache (_, _) -> true
                   | _ -> false)
| _ -> true

(** val consume : state -> src -> state **)

let consume s = function
| SNull -> s
| SHandle h -> { sh = s.sh; thr = s.thr; hnd = (upd n_eq_dec s.hnd h HEmpty) }

(** val cmd_start :
    config -> state -> tlocal -> cmd -> ((state * tlocal) * pc list,
    panic_site) sum **)

let cmd_start cf s l = function
| CNew h -> Inl ((s, l), (NewAlloc :: ((KDone (Some h)) :: [])))
| CClone (h, h2) ->
  (match s.hnd h with
   | HOwned a ->
     if N.eqb a N0
     then Inl (({ sh = s.sh; thr = s.thr; hnd =
            (upd n_eq_dec s.hnd h2 (HOwned N0)) }, l), [])
     else Inl ((s, l), ((CloneInc a) :: ((KDone (Some h2)) :: [])))
   | HGuard (a, _) ->
     if N.eqb a N0
     then Inl (({ sh = s.sh; thr = s.thr; hnd =
            (upd n_eq_dec s.hnd h2 (HOwned N0)) }, l), [])
     else Inl ((s, l), ((CloneInc a) :: ((KDone (Some h2)) :: [])))
   | _ -> Inl ((s, l), []))
| CDrop h ->
  let s' = { sh = s.sh; thr = s.thr; hnd = (upd n_eq_dec s.hnd h HEmpty) } in
  (match s.hnd h with
   | HEmpty -> Inl ((s, l), [])
   | HOwned a ->
     Inl ((s', l),
       (if N.eqb a N0 then [] else (PDec (a, RUnit)) :: ((KDone None) :: [])))
   | HGuard (a, d) ->
     Inl ((s', l),
       (match guard_drop_frames a d with
        | [] -> []
        | p :: l0 -> app (p :: l0) ((KDone None) :: [])))
   | HCache (_, a) ->
     Inl ((s', l),
       (if N.eqb a N0 then [] else (PDec (a, RUnit)) :: ((KDone None) :: []))))
| CLoad (c0, h) ->
  (match enter_load cf l c0 with
   | Inl p ->
     let (l', fs) = p in Inl ((s, l'), (app fs ((KDone (Some h)) :: [])))
   | Inr ps -> Inr ps)
| CLoadFull (c0, h) ->
  (match enter_load cf l c0 with
   | Inl p ->
     let (l', fs) = p in
     Inl ((s, l'), (app fs (WLoadFull :: ((KDone (Some h)) :: []))))
   | Inr ps -> Inr ps)
| CGuardInto (h, h2) ->
  let s' = { sh = s.sh; thr = s.thr; hnd = (upd n_eq_dec s.hnd h HEmpty) } in
  (match s.hnd h with
   | HGuard (a, d) ->
     (match guard_into_frames a d with
      | [] ->
        Inl (({ sh = s.sh; thr = s.thr; hnd =
          (upd n_eq_dec (upd n_eq_dec s.hnd h HEmpty) h2 (HOwned a)) }, l),
          [])
      | p :: l0 -> Inl ((s', l), (app (p :: l0) ((KDone (Some h2)) :: []))))
   | _ -> Inl ((s, l), []))
| CStore (c0, v) ->
  (match src_val s v with
   | Some a ->
     Inl (((consume s v), l), ((S1 (c0, a)) :: (WDropOld :: ((KDone
       None) :: []))))
   | None -> Inl ((s, l), []))
| CSwap (c0, v, h2) ->
  (match src_val s v with
   | Some a ->
     Inl (((consume s v), l), ((S1 (c0, a)) :: ((KDone (Some h2)) :: [])))
   | None -> Inl ((s, l), []))
| CCas (c0, cur, new0, h2) ->
  (match src_val s cur with
   | Some a ->
     (match src_val s new0 with
      | Some b ->
        (match enter_load cf l c0 with
         | Inl p ->
           let (l', fs) = p in
           Inl (((consume s new0), l'),
           (app fs ((WCasLoad (c0, a, b)) :: ((KDone (Some h2)) :: []))))
         | Inr ps -> Inr ps)
      | None -> Inl ((s, l), []))
   | None -> Inl ((s, l), []))
| CRcu (c0, m, h2) ->
  (match enter_load cf l c0 with
   | Inl p ->
     let (l', fs) = p in
     Inl ((s, l'), (app fs ((WRcuLoad (c0, m)) :: ((KDone (Some h2)) :: []))))
   | Inr ps -> Inr ps)
| CIntoInner (c0, h) ->
  let p = s.sh.mem (LStore c0) in
  let (l', fs) = enter_pay l c0 p in
  Inl ((s, l'), (app fs ((WInto p) :: ((KDone (Some h)) :: []))))
| CDropStore c0 ->
  let p = s.sh.mem (LStore c0) in
  let (l', fs) = enter_pay l c0 p in
  Inl ((s, l'), (app fs ((WDropStore p) :: ((KDone None) :: []))))
| CCacheNew (c0, k) ->
  (match enter_load cf l c0 with
   | Inl p ->
     let (l', fs) = p in
     Inl ((s, l'), (app fs (WLoadFull :: ((KCacheDone (c0, k)) :: []))))
   | Inr ps -> Inr ps)
| CCacheLoad k ->
  (match s.hnd k with
   | HCache (c0, a) ->
     Inl ((s, l), ((Q1 (c0, a, k)) :: ((KCacheDone (c0, k)) :: [])))
   | _ -> Inl ((s, l), []))
| CSetGen g ->
  (match l.tl_node with
   | Some _ -> Inl ((s, (tl_set_gen l g)), [])
   | None -> Inl ((s, l), (GHead :: ((WGetSetGen g) :: ((KDone None) :: [])))))

(** val finish :
    config -> state -> n -> thread -> shared -> tlocal -> pc list -> event
    list -> next -> state * event list **)

let finish cf s t th s_sh l rest evs = function
| NGoto p ->
  ({ sh = s_sh; thr =
    (upd n_eq_dec s.thr t { t_stack = (p :: rest); t_loc = l; t_prog =
      th.t_prog; t_cmdi = th.t_cmdi; t_status = Running }); hnd = s.hnd },
    evs)
| NPush (frames, wait) ->
  ({ sh = s_sh; thr =
    (upd n_eq_dec s.thr t { t_stack = (app frames (wait :: rest)); t_loc = l;
      t_prog = th.t_prog; t_cmdi = th.t_cmdi; t_status = Running }); hnd =
    s.hnd }, evs)
| NRet v ->
  (match unwind cf l rest v with
   | UStack (l', stk) ->
     ({ sh = s_sh; thr =
       (upd n_eq_dec s.thr t { t_stack = stk; t_loc = l'; t_prog = th.t_prog;
         t_cmdi = th.t_cmdi; t_status = Running }); hnd = s.hnd }, evs)
   | UDone (l', dst, v') ->
     let h' =
       match dst with
       | Some p -> let (h, hv) = p in upd n_eq_dec s.hnd h hv
       | None -> s.hnd
     in
     ({ sh = s_sh; thr =
     (upd n_eq_dec s.thr t { t_stack = []; t_loc = l'; t_prog = th.t_prog;
       t_cmdi = (N.add th.t_cmdi (Npos XH)); t_status = Running }); hnd =
     h' }, (app evs ((EvRet (th.t_cmdi, v')) :: [])))
   | UExit l' ->
     ({ sh = s_sh; thr =
       (upd n_eq_dec s.thr t { t_stack = []; t_loc = l'; t_prog = th.t_prog;
         t_cmdi = th.t_cmdi; t_status = Exited }); hnd = s.hnd }, evs)
   | UPanic (l', ps) ->
     ({ sh = s_sh; thr =
       (upd n_eq_dec s.thr t { t_stack = []; t_loc = l'; t_prog = th.t_prog;
         t_cmdi = th.t_cmdi; t_status = Panicked }); hnd = s.hnd },
       (app evs ((EvPanic ps) :: [])))
   | UFault (l', f) ->
     ({ sh = s_sh; thr =
       (upd n_eq_dec s.thr t { t_stack = []; t_loc = l'; t_prog = th.t_prog;
         t_cmdi = th.t_cmdi; t_status = Faulted }); hnd = s.hnd },
       (app evs ((EvFault f) :: []))))
| NPanic ps ->
  ({ sh = s_sh; thr =
    (upd n_eq_dec s.thr t { t_stack = rest; t_loc = l; t_prog = th.t_prog;
      t_cmdi = th.t_cmdi; t_status = Panicked }); hnd = s.hnd },
    (app evs ((EvPanic ps) :: [])))
| NFault f ->
  ({ sh = s_sh; thr =
    (upd n_eq_dec s.thr t { t_stack = rest; t_loc = l; t_prog = th.t_prog;
      t_cmdi = th.t_cmdi; t_status = Faulted }); hnd = s.hnd },
    (app evs ((EvFault f) :: [])))

(** val enabled : state -> n -> bool **)

let enabled s t =
  let th = s.thr t in
  (match th.t_status with
   | Running ->
     (match th.t_stack with
      | [] ->
        (match nth_error th.t_prog (N.to_nat th.t_cmdi) with
         | Some c -> cmd_enabled s c
         | None -> true)
      | _ :: _ -> true)
   | _ -> false)

(** val step : config -> state -> n -> n -> state * event list **)

let step cf s t x =
  let th = s.thr t in
  (match th.t_status with
   | Running ->
     (match th.t_stack with
      | [] ->
        (match nth_error th.t_prog (N.to_nat th.t_cmdi) with
         | Some c ->
           if cmd_enabled s c
           then (match cmd_start cf s th.t_loc c with
                 | Inl p ->
                   let (p0, stk) = p in
                   let (s', l') = p0 in
                   (match stk with
                    | [] ->
                      ((set_thread s' t { t_stack = []; t_loc = l'; t_prog =
                         th.t_prog; t_cmdi = (N.add th.t_cmdi (Npos XH));
                         t_status = Running }), ((EvCmd th.t_cmdi) :: ((EvRet
                        (th.t_cmdi, RUnit)) :: [])))
                    | _ :: _ ->
                      ((set_thread s' t { t_stack = stk; t_loc = l'; t_prog =
                         th.t_prog; t_cmdi = th.t_cmdi; t_status = Running }),
                        ((EvCmd th.t_cmdi) :: [])))
                 | Inr ps ->
                   ((set_thread s t { t_stack = []; t_loc = th.t_loc;
                      t_prog = th.t_prog; t_cmdi = th.t_cmdi; t_status =
                      Panicked }), ((EvCmd th.t_cmdi) :: ((EvPanic
                     ps) :: []))))
           else (s, ((EvFault FBadChoice) :: []))
         | None ->
           (match th.t_loc.tl_node with
            | Some n0 ->
              ((set_thread s t { t_stack = ((C1 n0) :: (WThreadExit :: []));
                 t_loc = th.t_loc; t_prog = th.t_prog; t_cmdi = th.t_cmdi;
                 t_status = Running }), (EvExit :: []))
            | None ->
              ((set_thread s t { t_stack = []; t_loc = th.t_loc; t_prog =
                 th.t_prog; t_cmdi = th.t_cmdi; t_status = Exited }),
                (EvExit :: []))))
      | p :: rest ->
        let (p0, nx) = exec cf s.sh th.t_loc p x in
        let (p1, evs) = p0 in
        let (s_sh, l) = p1 in finish cf s t th s_sh l rest evs nx)
   | _ -> (s, ((EvFault FBadChoice) :: [])))

(** val init_mem : loc -> n **)

let init_mem = function
| LSlot (_, _) -> nONE
| _ -> N0

(** val init_stores : n list -> n -> shared -> shared **)

let rec init_stores inits c s =
  match inits with
  | [] -> s
  | a :: rest ->
    let s1 = m_set s (LStore c) a in
    let s2 =
      if N.eqb a N0
      then s1
      else (match s1.heap a with
            | Some _ ->
              m_set s1 (LCount a) (N.add (s1.mem (LCount a)) (Npos XH))
            | None ->
              { mem = (upd loc_eq_dec s1.mem (LCount a) (Npos XH)); heap =
                (upd n_eq_dec s1.heap a (Some s1.next_oid)); next_oid =
                (N.add s1.next_oid (Npos XH)) })
    in
    init_stores rest (N.add c (Npos XH)) s2

(** val init_thread : cmd list -> thread **)

let init_thread prog =
  { t_stack = []; t_loc = tl_init; t_prog = prog; t_cmdi = N0; t_status =
    Running }

(** val no_thread : thread **)

let no_thread =
  { t_stack = []; t_loc = tl_init; t_prog = []; t_cmdi = N0; t_status =
    Exited }

(** val init_threads : cmd list list -> n -> (n -> thread) -> n -> thread **)

let rec init_threads progs t f =
  match progs with
  | [] -> f
  | p :: rest ->
    init_threads rest (N.add t (Npos XH)) (upd n_eq_dec f t (init_thread p))

(** val init_state : n list -> cmd list list -> state **)

let init_state inits progs =
  { sh =
    (init_stores inits N0 { mem = init_mem; heap = (fun _ -> None);
      next_oid = N0 }); thr = (init_threads progs N0 (fun _ -> no_thread));
    hnd = (fun _ -> HEmpty) }

(** val digits_fuel : nat -> n -> n list -> n list **)

let rec digits_fuel fuel n0 acc =
  match fuel with
  | O -> acc
  | S f ->
    if N.ltb n0 (Npos (XO (XI (XO XH))))
    then n0 :: acc
    else digits_fuel f (N.div n0 (Npos (XO (XI (XO XH)))))
           ((N.modulo n0 (Npos (XO (XI (XO XH))))) :: acc)

(** val n_digits : n -> n list **)

let n_digits n0 =
  digits_fuel (S (S (S (S (S (S (S (S (S (S (S (S (S (S (S (S (S (S (S (S (S
    (S (S (S (S (S (S (S (S (S (S (S (S (S (S (S (S (S (S (S
    O)))))))))))))))))))))))))))))))))))))))) n0 []

(** val n_of_digits : n list -> n **)

let n_of_digits ds =
  fold_left (fun acc d -> N.add (N.mul acc (Npos (XO (XI (XO XH))))) d) ds N0
