
val negb : bool -> bool

type nat =
| O
| S of nat

type ('a, 'b) sum =
| Inl of 'a
| Inr of 'b

val fst : ('a1 * 'a2) -> 'a1

val snd : ('a1 * 'a2) -> 'a2

val app : 'a1 list -> 'a1 list -> 'a1 list

type comparison =
| Eq
| Lt
| Gt

val add : nat -> nat -> nat

type positive =
| XI of positive
| XO of positive
| XH

type n =
| N0
| Npos of positive

module Pos :
 sig
  type mask =
  | IsNul
  | IsPos of positive
  | IsNeg
 end

module Coq_Pos :
 sig
  val succ : positive -> positive

  val add : positive -> positive -> positive

  val add_carry : positive -> positive -> positive

  val pred_double : positive -> positive

  type mask = Pos.mask =
  | IsNul
  | IsPos of positive
  | IsNeg

  val succ_double_mask : mask -> mask

  val double_mask : mask -> mask

  val double_pred_mask : positive -> mask

  val sub_mask : positive -> positive -> mask

  val sub_mask_carry : positive -> positive -> mask

  val mul : positive -> positive -> positive

  val compare_cont : comparison -> positive -> positive -> comparison

  val compare : positive -> positive -> comparison

  val eqb : positive -> positive -> bool

  val coq_Nsucc_double : n -> n

  val coq_Ndouble : n -> n

  val coq_lor : positive -> positive -> positive

  val coq_land : positive -> positive -> n

  val iter_op : ('a1 -> 'a1 -> 'a1) -> positive -> 'a1 -> 'a1

  val to_nat : positive -> nat

  val eq_dec : positive -> positive -> bool
 end

module N :
 sig
  val succ_double : n -> n

  val double : n -> n

  val add : n -> n -> n

  val sub : n -> n -> n

  val mul : n -> n -> n

  val compare : n -> n -> comparison

  val eqb : n -> n -> bool

  val leb : n -> n -> bool

  val ltb : n -> n -> bool

  val pos_div_eucl : positive -> n -> n * n

  val div_eucl : n -> n -> n * n

  val div : n -> n -> n

  val modulo : n -> n -> n

  val coq_lor : n -> n -> n

  val coq_land : n -> n -> n

  val to_nat : n -> nat

  val eq_dec : n -> n -> bool
 end

val nth_error : 'a1 list -> nat -> 'a1 option

val fold_left : ('a1 -> 'a2 -> 'a1) -> 'a2 list -> 'a1 -> 'a1

type decision = bool

val decide : decision -> bool

type ('a, 'b) relDecision = 'a -> 'b -> decision

val decide_rel : ('a1, 'a2) relDecision -> 'a1 -> 'a2 -> decision

val n_eq_dec : (n, n) relDecision

val nONE : n

val iDLE : n

val rEPLACEMENT_TAG : n

val gEN_TAG : n

val tAG_MASK : n

val nODE_UNUSED : n

val nODE_USED : n

val nODE_COOLDOWN : n

val sLOT_CNT : n

val hSLOT : n

val wORD : n

type ord =
| Relaxed
| Acquire
| Release
| AcqRel
| SeqCst

type loc =
| LStore of n
| LHead
| LSlot of n * n
| LCtrl of n
| LAddr of n
| LOffer of n
| LEnv of n
| LInUse of n
| LWriters of n
| LCount of n

val loc_eq_dec : (loc, loc) relDecision

val env_val : n -> n

val env_of : n -> n

val store_val : n -> n

val node_val : n -> n

type aop =
| OLoad
| OStore
| OSwap
| OCas
| OCasWeak
| OFetchAdd
| OFetchSub

type retval =
| RUnit
| RNode of n
| RGuard of n * loc option
| ROwned of n

type panic_site =
| PExpectNode
| PSlotNotNone
| PCtrlNotIdle
| POwnCtrlNotIdle
| PInUseNotUsed
| PHelpMyself
| PInvalidControl
| PNotReplacement
| PCooldownNotUsed
| PGenTagged
| PSpaceUnaligned

type fault =
| FDeadInc of n
| FDeadDec of n
| FBadAlloc of n
| FBadHandle of n
| FBadChoice

type event =
| EvCmd of n
| EvAcc of loc * aop * ord * ord * n * n * bool
| EvRc of n * bool * n
| EvAlloc of n * n
| EvDestroy of n * n
| EvRet of n * retval
| EvPanic of panic_site
| EvFault of fault
| EvExit

type src =
| SNull
| SHandle of n

type rcu_mode =
| RcuNew
| RcuNull
| RcuSame

type cmd =
| CNew of n
| CClone of n * n
| CDrop of n
| CLoad of n * n
| CLoadFull of n * n
| CGuardInto of n * n
| CStore of n * src
| CSwap of n * src * n
| CCas of n * src * src * n
| CRcu of n * rcu_mode * n
| CIntoInner of n * n
| CDropStore of n
| CCacheNew of n * n
| CCacheLoad of n
| CSetGen of n

type handle =
| HEmpty
| HOwned of n
| HGuard of n * loc option
| HCache of n * n

type pc =
| GHead
| GCool1 of n
| GCool2 of n
| GCool3 of n
| GClaim of n
| GPush0
| GPush of n
| C1 of n
| C2 of n
| C3 of n
| LA1 of n
| LA1d of n * n
| LAscan of n * n * n
| LA3 of n * n * n
| LA4 of n * n * n
| LA5 of n * n * n
| LA6 of n * n
| LH0d of n
| LH1 of n * n
| LH2 of n * n
| LH3 of n * n
| LH3d of n * n * n
| LH4 of n * n * n
| LH5 of n * n * n
| LH6a of n
| LH6b of n
| LH6c of n
| LH7 of n * n
| LH8 of n * n * n
| LH9 of n * n
| LH10 of n * n
| PDec of n * retval
| GD1 of n * loc
| GI1 of n * loc
| GI2 of n * loc
| P1 of n * n
| P2 of n * n
| P3 of n * n * n
| PE0d of n * n * n
| PE0e of n * n * n
| PE1 of n * n * n
| PE2 of n * n * n * n
| PE3 of n * n * n * n
| PE4 of n * n * n * n * n
| PE5 of n * n * n * n * n * n
| PE6 of n * n * n * n * n * n * n
| PE7 of n * n * n * n * n * n * n
| PE8 of n * n * n * n
| PE9 of n * n * n * n * n
| PS of n * n * n * n
| PSi of n * n * n * n
| P5 of n * n * n
| P6 of n * n
| S1 of n * n
| K1 of n * n * n * n * loc option
| RAlloc of n * rcu_mode * n * loc option
| RInc of n * rcu_mode * n * loc option
| Q1 of n * n * n
| NewAlloc
| CloneInc of n
| WGetLoad of n
| WGetPay of n * n
| WGetSetGen of n
| WExit of retval
| WLoadFull
| WHelpRepl of n * n * n * n
| WSwap of n
| WDropOld
| WCasLoad of n * n * n
| WCasPaid of n * loc option
| WCasRetry of n * n * n
| WRcuLoad of n * rcu_mode
| WRcuCas of n * rcu_mode * n * loc option
| WRcuInto of n * loc option
| WRcuRet of n
| WRcuNext of n * rcu_mode * n * loc option
| WInto of n
| WDropStore of n
| WCacheReload of n * n * n
| WThreadExit
| KDone of n option
| KCacheDone of n * n

type status =
| Running
| Exited
| Panicked
| Faulted

type tlocal = { tl_node : n option; tl_off : n; tl_gen : n;
                tl_discard : bool; tl_depth : n }

val tl_init : tlocal

type thread = { t_stack : pc list; t_loc : tlocal; t_prog : cmd list;
                t_cmdi : n; t_status : status }

type config = { cf_use_fast : bool; cf_debug : bool }

type shared = { mem : (loc -> n); heap : (n -> n option); next_oid : n }

type state = { sh : shared; thr : (n -> thread); hnd : (n -> handle) }

val upd : ('a1, 'a1) relDecision -> ('a1 -> 'a2) -> 'a1 -> 'a2 -> 'a1 -> 'a2

val o_lib_swap : ord * ord

val o_cache_revalidate : ord * ord

val o_attempt_first : ord * ord

val o_attempt_confirm : ord * ord

val o_fallback_candidate : ord * ord

val o_cas_exchange : ord * ord

val o_pay : ord * ord

val o_fast_scan : ord * ord

val o_fast_publish : ord * ord

val o_help_active_addr_st : ord * ord

val o_help_gen_swap : ord * ord

val o_help_own_ctrl_dbg : ord * ord

val o_help_ctrl_load : ord * ord

val o_help_active_addr_ld : ord * ord

val o_help_ctrl_reload : ord * ord

val o_help_their_space : ord * ord

val o_help_my_space : ord * ord

val o_help_env_store : ord * ord

val o_help_ctrl_cas : ord * ord

val o_help_offer_store : ord * ord

val o_confirm_slot_swap : ord * ord

val o_confirm_ctrl_swap : ord * ord

val o_confirm_env_load : ord * ord

val o_confirm_offer_store : ord * ord

val o_resv_sub : ord * ord

val o_traverse_head : ord * ord

val o_cooldown_swap : ord * ord

val o_check_inuse : ord * ord

val o_check_writers : ord * ord

val o_check_cas : ord * ord

val o_resv_add : ord * ord

val o_get_claim : ord * ord

val o_get_head_relaxed : ord * ord

val o_get_push : ord * ord

val o_dbg_inuse_fast : ord * ord

val o_dbg_inuse_helping : ord * ord

val o_dbg_inuse_confirm : ord * ord

val o_dbg_inuse_help : ord * ord

type next =
| NGoto of pc
| NPush of pc list * pc
| NRet of retval
| NPanic of panic_site
| NFault of fault

val m_set : shared -> loc -> n -> shared

val a_load : shared -> loc -> (ord * ord) -> n * event

val a_store : shared -> loc -> n -> (ord * ord) -> shared * event

val a_swap : shared -> loc -> n -> (ord * ord) -> (shared * n) * event

val a_cas :
  shared -> loc -> n -> n -> (ord * ord) -> bool -> bool ->
  ((shared * n) * bool) * event

val a_fadd : shared -> loc -> n -> (ord * ord) -> shared * event

val a_fsub : shared -> loc -> n -> (ord * ord) -> shared * event

val rc_inc : shared -> n -> (shared * event list) option

val rc_dec : shared -> n -> (shared * event list) option

val valid_addr : n -> bool

val rc_alloc : shared -> n -> (shared * event list) option

val node_init : shared -> n -> shared

val tl_set_node : tlocal -> n option -> tlocal

val tl_set_off : tlocal -> n -> tlocal

val tl_set_gen : tlocal -> n -> tlocal

val tl_set_discard : tlocal -> bool -> tlocal

val tl_set_depth : tlocal -> n -> tlocal

val dec_then : n -> retval -> next

val with_exit : tlocal -> retval -> tlocal * next

val fallback_entry : config -> tlocal -> n -> tlocal * next

val gen_step : config -> tlocal -> n -> tlocal * next

val load_body : config -> tlocal -> n -> tlocal * next

val enter_load : config -> tlocal -> n -> (tlocal * pc list, panic_site) sum

val pay_body : n -> n -> pc

val enter_pay : tlocal -> n -> n -> tlocal * pc list

val guard_drop_frames : n -> loc option -> pc list

val guard_into_frames : n -> loc option -> pc list

val help_dispatch : config -> tlocal -> n -> n -> n -> n -> next

val after_slot : n -> n -> n -> n -> next

val own_node : tlocal -> n

val exec :
  config -> shared -> tlocal -> pc -> n -> ((shared * tlocal) * event
  list) * next

val resume : config -> tlocal -> pc -> retval -> tlocal * next

type unwound =
| UStack of tlocal * pc list
| UDone of tlocal * (n * handle) option * retval
| UExit of tlocal
| UPanic of tlocal * panic_site
| UFault of tlocal * fault

val handle_of : retval -> handle

val unwind : config -> tlocal -> pc list -> retval -> unwound

val set_thread : state -> n -> thread -> state

val src_val : state -> src -> n option

val cmd_enabled : state -> cmd -> bool

val consume : state -> src -> state

val cmd_start :
  config -> state -> tlocal -> cmd -> ((state * tlocal) * pc list,
  panic_site) sum

val finish :
  config -> state -> n -> thread -> shared -> tlocal -> pc list -> event list
  -> next -> state * event list

val enabled : state -> n -> bool

val step : config -> state -> n -> n -> state * event list

val init_mem : loc -> n

val init_stores : n list -> n -> shared -> shared

val init_thread : cmd list -> thread

val no_thread : thread

val init_threads : cmd list list -> n -> (n -> thread) -> n -> thread

val init_state : n list -> cmd list list -> state

val digits_fuel : nat -> n -> n list -> n list

val n_digits : n -> n list

val n_of_digits : n list -> n
